// Command translator regenerates coq/Gen/*.v from /repo's current working
// tree: a Go→Gallina translation of the integer-arithmetic core (a small
// subset of Go, see DESIGN.md 4.1), plus constants and tables.
//
// Usage: translator -repo /repo -out /verif/coq/Gen [-manifest file.json]
// Exit status: 0 ok, 3 unsupported syntax met in a function that must be
// translated (a "translation break"), 1 other error.
package main

import (
	"bytes"
	"crypto/sha256"
	"encoding/json"
	"flag"
	"fmt"
	"go/ast"
	"go/constant"
	"go/printer"
	"go/token"
	"go/types"
	"os"
	"path/filepath"
	"sort"
	"strings"

	"golang.org/x/tools/go/packages"
)

type fnSpec struct {
	Pkg  string // import path suffix under github.com/skycoin/skycoin/
	Recv string // receiver type name or ""
	Name string
}

type unit struct {
	File     string // output file (module name)
	Imports  []string
	Fns      []fnSpec
	Preamble string // definitions written before the functions (stage3.go)
}

var units = []unit{
	{File: "Mathutil", Fns: []fnSpec{
		{"src/util/mathutil", "", "MultUint64"},
		{"src/util/mathutil", "", "AddUint64"},
		{"src/util/mathutil", "", "AddUint32"},
		{"src/util/mathutil", "", "Uint64ToInt64"},
		{"src/util/mathutil", "", "Int64ToUint64"},
		{"src/util/mathutil", "", "IntToUint32"},
	}},
	{File: "Fee", Imports: []string{"Mathutil"}, Fns: []fnSpec{
		{"src/util/fee", "", "RequiredFee"},
		{"src/util/fee", "", "RemainingHours"},
		{"src/util/fee", "", "VerifyTransactionFeeForHours"},
	}},
	{File: "CoinHours", Imports: []string{"Mathutil"}, Fns: []fnSpec{
		{"src/coin", "UxOut", "CoinHours"},
	}},
	{File: "Page", Fns: []fnSpec{
		{"src/visor", "", "NewPageIndex"},
		{"src/visor", "PageIndex", "Cal"},
	}},
	{File: "Droplet", Fns: []fnSpec{
		{"src/params", "", "DropletPrecisionToDivisor"},
		{"src/params", "", "DropletPrecisionCheck"},
	}},
	{File: "VerifyParams", Fns: []fnSpec{ // C11: validated range of the soft-rule parameters
		{"src/params", "VerifyTxn", "Validate"},
	}},
	// loops over slices of structs (loops.go): the hour / coin sums of src/coin
	{File: "CoinLoops", Imports: []string{"Mathutil", "CoinHours"}, Fns: []fnSpec{
		{"src/coin", "Transaction", "OutputHours"},
		{"src/coin", "UxArray", "Coins"},
		{"src/coin", "UxArray", "CoinHours"},
		{"src/coin", "", "VerifyTransactionCoinsSpending"},
		{"src/coin", "", "VerifyTransactionHoursSpending"},
	}},
	{File: "CoinTruncate", Imports: []string{"Mathutil"}, Fns: []fnSpec{
		{"src/coin", "Transactions", "TruncateBytesTo"},
	}},
	// third stage (stage3.go): message truncation over item sizes, header checks
	{File: "MsgTruncate", Preamble: msgTruncatePreamble, Fns: []fnSpec{
		{"src/daemon", "", "truncateGivePeersMessage"},
		{"src/daemon", "", "truncateGiveBlocksMessage"},
		{"src/daemon", "", "truncateGiveTxnsMessage"},
		{"src/daemon", "", "truncateSHA256Slice"},
		{"src/daemon", "", "truncateAnnounceTxnsHashes"},
		{"src/daemon", "", "truncateGetTxnsHashes"},
	}},
	{File: "HeaderChecks", Fns: []fnSpec{
		{"src/visor", "Blockchain", "verifyBlockHeader"},
	}},
	// fourth stage (stage4.go): the 10x26-bit limb arithmetic of secp256k1's field
	{File: "FieldLimbs", Preamble: fieldLimbsPreamble, Fns: []fnSpec{
		{"src/cipher/secp256k1-go/secp256k1-go2", "Field", "Normalize"},
		{"src/cipher/secp256k1-go/secp256k1-go2", "Field", "SetAdd"},
		{"src/cipher/secp256k1-go/secp256k1-go2", "Field", "MulInt"},
		{"src/cipher/secp256k1-go/secp256k1-go2", "Field", "Negate"},
		{"src/cipher/secp256k1-go/secp256k1-go2", "Field", "IsOdd"},
		{"src/cipher/secp256k1-go/secp256k1-go2", "Field", "IsZero"},
		{"src/cipher/secp256k1-go/secp256k1-go2", "Field", "Equals"},
		{"src/cipher/secp256k1-go/secp256k1-go2", "Field", "SetInt"},
		{"src/cipher/secp256k1-go/secp256k1-go2", "Field", "SetB32"},
		{"src/cipher/secp256k1-go/secp256k1-go2", "Field", "GetB32"},
		{"src/cipher/secp256k1-go/secp256k1-go2", "Field", "Mul"},
		{"src/cipher/secp256k1-go/secp256k1-go2", "Field", "Sqr"},
	}},
	{File: "FeeTxn", Imports: []string{"Mathutil", "Fee", "CoinHours", "CoinLoops"}, Fns: []fnSpec{
		{"src/util/fee", "", "VerifyTransactionFee"},
		{"src/util/fee", "", "TransactionFee"},
	}},
}

const modPrefix = "github.com/skycoin/skycoin/"

type unsupported struct{ msg string }

func fail(fset *token.FileSet, n ast.Node, format string, a ...interface{}) {
	pos := ""
	if n != nil && fset != nil {
		pos = fset.Position(n.Pos()).String() + ": "
	}
	panic(unsupported{pos + fmt.Sprintf(format, a...)})
}

var coqKeywords = map[string]bool{"end": true, "in": true, "let": true, "match": true, "fun": true, "if": true,
	"then": true, "else": true, "return": true, "as": true, "at": true, "with": true, "fix": true, "forall": true,
	"exists": true, "Type": true, "Set": true, "Prop": true, "using": true, "where": true, "for": true, "mod": true}

func san(s string) string {
	if coqKeywords[s] {
		return s + "_"
	}
	return s
}

// translated function table: types.Object (func) -> Coq name
type tr struct {
	fset   *token.FileSet
	pkg    *packages.Package
	info   *types.Info
	known  map[string]string // "pkgpath.Recv.Name" -> coq name
	fields []string          // field-path parameters discovered, in order
	fseen  map[string]bool
	roots  map[string]bool // identifiers (receiver/params) of struct type
	fresh  int
	named  []string // named results (sanitised)
	nres   int
	resTy  []types.Type
	// loops.go
	finfo        map[string]*fnInfo // "pkgpath.Recv.Name" -> parameters of the Coq definition
	slices       map[string]*sliceInfo
	sliceOrder   []string
	sliceParams  map[string]*types.Struct // parameters that are slices of structs -> element type
	sliceParamTy map[string]types.Type
	rootTy       map[string]*types.Struct
	fieldInfo    map[string]pathRef
	loop         *loopCtx
	helpers      []string
	fnName       string
	nloops       int
	loopMemo     map[*ast.RangeStmt]loopMemo
	opaque       map[string]bool // methods on loop elements whose results are data (opaqueMethods)
	// stage3.go
	cfg            fnConfig
	extras         []paramInfo // input parameters that are not Go parameters (emptySize, x_err, eq_..)
	zeroLocals     map[string]bool
	sizeModelSlice map[string]bool
	inputRoots     map[string]string
	truncStmt      *ast.AssignStmt
	keptName       string
	keptFinal      string
	// stage4.go
	arrRoots   map[string]*arrRoot
	arrOrder   []string
	arrPlan    map[string]arrPlan // second pass: which roots are inputs / outputs
	arrCfg     map[string]int     // []byte parameters of fixed length
	consts     map[string]int64   // compile-time constant locals (unrolled loops)
	straight   map[ast.Stmt]bool
	unrollN    int
	whileMemos map[*ast.ForStmt]whileMemo
	proj       map[string][][]string // second pass: element projection of each slice
}

func (t *tr) gensym(p string) string { t.fresh++; return fmt.Sprintf("%s_%d", p, t.fresh) }

type ex struct {
	code string
	mon  bool // code has type `res T` (may panic) instead of T
}

func pure(s string) ex { return ex{s, false} }

func intInfo(ty types.Type) (bits int, signed bool, ok bool) {
	b, isb := ty.Underlying().(*types.Basic)
	if !isb {
		return 0, false, false
	}
	switch b.Kind() {
	case types.Uint8:
		return 8, false, true
	case types.Uint16:
		return 16, false, true
	case types.Uint32:
		return 32, false, true
	case types.Uint64, types.Uint, types.Uintptr:
		return 64, false, true
	case types.Int8:
		return 8, true, true
	case types.Int16:
		return 16, true, true
	case types.Int32:
		return 32, true, true
	case types.Int64, types.Int:
		return 64, true, true
	}
	return 0, false, false
}

func zlit(v constant.Value) (string, bool) {
	if v == nil {
		return "", false
	}
	switch v.Kind() {
	case constant.Int:
		s := v.ExactString()
		if strings.HasPrefix(s, "-") {
			return "(" + s + ")", true
		}
		return s, true
	case constant.Float:
		if i, ok := constant.Val(constant.ToInt(v)).(interface{ String() string }); ok && constant.ToInt(v).Kind() == constant.Int {
			_ = i
			return constant.ToInt(v).ExactString(), true
		}
	case constant.Bool:
		if constant.BoolVal(v) {
			return "true", true
		}
		return "false", true
	}
	return "", false
}

// lift2 combines two sub-expressions with a pure combiner
func lift2(a, b ex, f func(x, y string) string, t *tr) ex {
	if !a.mon && !b.mon {
		return pure(f(a.code, b.code))
	}
	x, y := a.code, b.code
	pre, post := "", ""
	if a.mon {
		v := t.gensym("v")
		pre += fmt.Sprintf("bind (%s) (fun %s => ", a.code, v)
		post += ")"
		x = v
	}
	if b.mon {
		v := t.gensym("v")
		pre += fmt.Sprintf("bind (%s) (fun %s => ", b.code, v)
		post += ")"
		y = v
	}
	return ex{pre + "Val (" + f(x, y) + ")" + post, true}
}

func lift1(a ex, f func(x string) string, t *tr) ex {
	if !a.mon {
		return pure(f(a.code))
	}
	v := t.gensym("v")
	return ex{fmt.Sprintf("bind (%s) (fun %s => Val (%s))", a.code, v, f(v)), true}
}

func (t *tr) fieldPath(e ast.Expr) (string, bool) {
	switch x := e.(type) {
	case *ast.Ident:
		if t.roots[x.Name] {
			return x.Name, true
		}
	case *ast.SelectorExpr:
		if p, ok := t.fieldPath(x.X); ok {
			return p + "_" + x.Sel.Name, true
		}
	case *ast.ParenExpr:
		return t.fieldPath(x.X)
	case *ast.StarExpr:
		return t.fieldPath(x.X)
	}
	return "", false
}

func firstStringLit(args []ast.Expr, info *types.Info) (string, bool) {
	for _, a := range args {
		if tv, ok := info.Types[a]; ok && tv.Value != nil && tv.Value.Kind() == constant.String {
			return constant.StringVal(tv.Value), true
		}
	}
	return "", false
}

func coqString(s string) string {
	return "\"" + strings.ReplaceAll(s, "\"", "\"\"") + "\"%string"
}

func (t *tr) isErrorType(ty types.Type) bool {
	return ty != nil && ty.String() == "error"
}

func (t *tr) expr(e ast.Expr) ex {
	if tv, ok := t.info.Types[e]; ok && tv.Value != nil {
		if s, ok := zlit(tv.Value); ok {
			return pure(s)
		}
		if tv.Value.Kind() == constant.String {
			return pure(coqString(constant.StringVal(tv.Value)))
		}
	}
	if len(t.consts) > 0 {
		if _, _, isInt := intInfo(t.info.TypeOf(e)); isInt {
			if v, ok := t.constEval(e); ok {
				return pure(fmt.Sprintf("%d", v))
			}
		}
	}
	if r, ok := t.cellRead(e); ok {
		return r
	}
	switch x := e.(type) {
	case *ast.ParenExpr:
		r := t.expr(x.X)
		return ex{"(" + r.code + ")", r.mon}
	case *ast.Ident:
		if x.Name == "nil" {
			return pure("None")
		}
		if x.Name == "true" || x.Name == "false" {
			return pure(x.Name)
		}
		obj := t.info.Uses[x]
		if obj == nil {
			obj = t.info.Defs[x]
		}
		if v, ok := obj.(*types.Var); ok {
			if v.Parent() == v.Pkg().Scope() {
				// package-level variable: only error sentinels are supported
				if t.isErrorType(v.Type()) {
					return pure("(Some " + coqString(v.Name()) + ")")
				}
				fail(t.fset, e, "package-level variable %s", v.Name())
			}
			if t.loop != nil {
				switch {
				case v == t.loop.valObj:
					fail(t.fset, e, "loop element %s used as a value", x.Name)
				case v == t.loop.idxObj:
					t.loop.idxUsed = true
				case v.Pos() < t.loop.pos || v.Pos() >= t.loop.end:
					if t.sliceParams[x.Name] != nil || t.roots[x.Name] {
						fail(t.fset, e, "parameter %s used as a value in a loop", x.Name)
					}
					t.loop.use(san(x.Name), t.coqType(v.Type(), e))
				}
			}
			if t.sliceParams[x.Name] != nil {
				fail(t.fset, e, "slice parameter %s used as a value", x.Name)
			}
			return pure(san(x.Name))
		}
		fail(t.fset, e, "identifier %s", x.Name)
	case *ast.SelectorExpr:
		if root, rel, ok := t.pathOf(x); ok && (t.isElem(root) || t.sliceParams[root] != nil) {
			return pure(t.usePath(root, rel, x))
		}
		if p, ok := t.fieldPath(x); ok {
			if _, isSl := sliceOfStruct(t.info.TypeOf(x)); isSl {
				fail(t.fset, e, "slice %s used as a value", p)
			}
			if !t.fseen[p] {
				t.fseen[p] = true
				t.fields = append(t.fields, p)
				if root, rel, ok := t.pathOf(x); ok {
					t.fieldInfo[p] = pathRef{root, rel}
				}
			}
			if t.loop != nil {
				t.loop.use(p, "Z")
			}
			return pure(p)
		}
		if obj, ok := t.info.Uses[x.Sel].(*types.Var); ok && obj.Pkg() != nil && obj.Parent() == obj.Pkg().Scope() && t.isErrorType(obj.Type()) {
			return pure("(Some " + coqString(obj.Name()) + ")")
		}
		fail(t.fset, e, "selector %s", x.Sel.Name)
	case *ast.UnaryExpr:
		a := t.expr(x.X)
		switch x.Op {
		case token.NOT:
			return lift1(a, func(s string) string { return "negb (" + s + ")" }, t)
		case token.SUB:
			bits, signed, ok := intInfo(t.info.TypeOf(e))
			if !ok {
				fail(t.fset, e, "unary minus on non-integer")
			}
			w := "wrap"
			if signed {
				w = "swrap"
			}
			return lift1(a, func(s string) string { return fmt.Sprintf("%s %d (- (%s))", w, bits, s) }, t)
		case token.AND:
			if cl, ok := x.X.(*ast.CompositeLit); ok {
				return t.composite(cl, true)
			}
		}
		fail(t.fset, e, "unary operator %s", x.Op)
	case *ast.CompositeLit:
		return t.composite(x, false)
	case *ast.SliceExpr:
		if lenOnlySlice(t.info.TypeOf(x.X)) && x.Low == nil && x.Max == nil && x.High != nil {
			// X[:n] on a slice represented by its length
			l, h := t.expr(x.X), t.expr(x.High)
			if l.mon || h.mon {
				fail(t.fset, e, "panicking operand of a slice expression")
			}
			return ex{fmt.Sprintf("slice_to (%s) (%s)", h.code, l.code), true}
		}
	case *ast.BinaryExpr:
		return t.binary(x)
	case *ast.CallExpr:
		return t.call(x)
	}
	var buf bytes.Buffer
	printer.Fprint(&buf, t.fset, e)
	fail(t.fset, e, "expression %T %s", e, buf.String())
	return ex{}
}

func (t *tr) composite(cl *ast.CompositeLit, addr bool) ex {
	st, ok := t.info.TypeOf(cl).Underlying().(*types.Struct)
	if !ok {
		fail(t.fset, cl, "composite literal of non-struct")
	}
	vals := make([]string, st.NumFields())
	for i := range vals {
		vals[i] = "0"
	}
	for _, el := range cl.Elts {
		kv, ok := el.(*ast.KeyValueExpr)
		if !ok {
			fail(t.fset, el, "positional composite literal")
		}
		key := kv.Key.(*ast.Ident).Name
		found := false
		for i := 0; i < st.NumFields(); i++ {
			if st.Field(i).Name() == key {
				v := t.expr(kv.Value)
				if v.mon {
					fail(t.fset, el, "panicking expression in composite literal")
				}
				vals[i] = v.code
				found = true
			}
		}
		if !found {
			fail(t.fset, el, "unknown field %s", key)
		}
	}
	s := "(" + strings.Join(vals, ", ") + ")"
	if addr {
		s = "(Some " + s + ")"
	}
	return pure(s)
}

func (t *tr) binary(x *ast.BinaryExpr) ex {
	if r, ok := t.arrayEquality(x); ok {
		return r
	}
	a := t.expr(x.X)
	switch x.Op {
	case token.LAND, token.LOR:
		b := t.expr(x.Y)
		if !b.mon {
			op := "&&"
			if x.Op == token.LOR {
				op = "||"
			}
			return lift2(a, b, func(p, q string) string { return fmt.Sprintf("(%s) %s (%s)", p, op, q) }, t)
		}
		// short circuit with a right operand that may panic
		sc := "Val false"
		form := "if %s then %s else %s"
		if x.Op == token.LOR {
			sc = "Val true"
			form = "if %s then %[3]s else %[2]s"
		}
		if a.mon {
			v := t.gensym("v")
			return ex{fmt.Sprintf("bind (%s) (fun %s => "+form+")", a.code, v, b.code, sc), true}
		}
		return ex{fmt.Sprintf("("+form+")", "("+a.code+")", b.code, sc), true}
	}
	b := t.expr(x.Y)
	cmp := map[token.Token]string{token.LSS: "<?", token.LEQ: "<=?", token.GTR: ">?", token.GEQ: ">=?", token.EQL: "=?"}
	if op, ok := cmp[x.Op]; ok {
		if t.isErrorType(t.info.TypeOf(x.X)) || isNil(x.Y) {
			if x.Op == token.EQL && !isNil(x.Y) && !isNil(x.X) && (t.isSentinel(x.X) || t.isSentinel(x.Y)) {
				return lift2(a, b, func(p, q string) string { return fmt.Sprintf("eqb_error %s %s", p, q) }, t)
			}
			if x.Op != token.EQL || !isNil(x.Y) {
				fail(t.fset, x, "comparison of errors other than with nil")
			}
			return lift1(a, func(s string) string { return "negb (is_err " + s + ")" }, t)
		}
		return lift2(a, b, func(p, q string) string { return fmt.Sprintf("(%s %s %s)", p, op, q) }, t)
	}
	if x.Op == token.NEQ {
		if isNil(x.Y) {
			return lift1(a, func(s string) string { return "is_err " + s }, t)
		}
		if t.isErrorType(t.info.TypeOf(x.X)) && !isNil(x.X) && (t.isSentinel(x.X) || t.isSentinel(x.Y)) {
			return lift2(a, b, func(p, q string) string { return fmt.Sprintf("negb (eqb_error %s %s)", p, q) }, t)
		}
		if _, _, ok := intInfo(t.info.TypeOf(x.X)); !ok {
			fail(t.fset, x, "!= on non-integer")
		}
		return lift2(a, b, func(p, q string) string { return fmt.Sprintf("negb (%s =? %s)", p, q) }, t)
	}
	if r, ok := t.bitOp(x, a, b); ok {
		return r
	}
	bits, signed, ok := intInfo(t.info.TypeOf(x))
	if !ok {
		fail(t.fset, x, "arithmetic on non-integer type %v", t.info.TypeOf(x))
	}
	w := fmt.Sprintf("wrap %d", bits)
	if signed {
		w = fmt.Sprintf("swrap %d", bits)
	}
	switch x.Op {
	case token.ADD, token.SUB, token.MUL:
		op := map[token.Token]string{token.ADD: "+", token.SUB: "-", token.MUL: "*"}[x.Op]
		return lift2(a, b, func(p, q string) string { return fmt.Sprintf("%s (%s %s %s)", w, p, op, q) }, t)
	case token.QUO, token.REM:
		if signed {
			fail(t.fset, x, "signed division")
		}
		f := "/"
		m := "udiv"
		if x.Op == token.REM {
			f = "mod"
			m = "umod"
		}
		if tv := t.info.Types[x.Y]; tv.Value != nil && constant.Sign(tv.Value) != 0 {
			return lift2(a, b, func(p, q string) string { return fmt.Sprintf("(%s %s %s)", p, f, q) }, t)
		}
		// divisor not a non-zero constant: may panic
		if !a.mon && !b.mon {
			return ex{fmt.Sprintf("%s (%s) (%s)", m, a.code, b.code), true}
		}
		if !a.mon {
			vb := t.gensym("v")
			return ex{fmt.Sprintf("bind (%s) (fun %s => %s (%s) %s)", b.code, vb, m, a.code, vb), true}
		}
		va, vb := t.gensym("v"), t.gensym("v")
		ac, bc := a.code, b.code
		if !a.mon {
			ac = "Val (" + ac + ")"
		}
		if !b.mon {
			bc = "Val (" + bc + ")"
		}
		return ex{fmt.Sprintf("bind (%s) (fun %s => bind (%s) (fun %s => %s %s %s))", ac, va, bc, vb, m, va, vb), true}
	}
	fail(t.fset, x, "binary operator %s", x.Op)
	return ex{}
}

func resTyAt(tys []types.Type, i int) types.Type {
	if i < len(tys) {
		return tys[i]
	}
	return nil
}

func isNil(e ast.Expr) bool {
	id, ok := e.(*ast.Ident)
	return ok && id.Name == "nil"
}

func (t *tr) convert(to types.Type, arg ast.Expr) ex {
	a := t.expr(arg)
	tb, ts, ok1 := intInfo(to)
	fb, fs, ok2 := intInfo(t.info.TypeOf(arg))
	if !ok1 || !ok2 {
		fail(t.fset, arg, "conversion between non-integer types")
	}
	switch {
	case !ts && !fs && fb <= tb:
		return a
	case ts && ((!fs && fb < tb) || (fs && fb <= tb)):
		return a
	case !ts:
		return lift1(a, func(s string) string { return fmt.Sprintf("wrap %d (%s)", tb, s) }, t)
	default:
		return lift1(a, func(s string) string { return fmt.Sprintf("swrap %d (%s)", tb, s) }, t)
	}
}

func (t *tr) call(c *ast.CallExpr) ex {
	// conversion?
	if tv, ok := t.info.Types[c.Fun]; ok && tv.IsType() {
		return t.convert(tv.Type, c.Args[0])
	}
	if r, ok := t.builtinLen(c); ok {
		return r
	}
	var obj types.Object
	switch f := c.Fun.(type) {
	case *ast.Ident:
		obj = t.info.Uses[f]
	case *ast.SelectorExpr:
		obj = t.info.Uses[f.Sel]
	}
	fn, ok := obj.(*types.Func)
	if !ok {
		fail(t.fset, c, "call of non-function")
	}
	full := fn.FullName()
	switch full {
	case "errors.New", "fmt.Errorf":
		s, ok := firstStringLit(c.Args, t.info)
		if !ok {
			fail(t.fset, c, "error constructor without string literal")
		}
		if i := strings.Index(s, "%"); i >= 0 {
			s = s[:i]
		}
		return pure("(Some " + coqString(s) + ")")
	}
	key := fnKey(fn)
	name, ok := t.known[key]
	if !ok {
		if r, ok := t.sizeModelCall(c, fn); ok {
			return r
		}
		if r, ok := t.opaqueCall(c, fn); ok {
			return r
		}
		fail(t.fset, c, "call to untranslated function %s", full)
	}
	args := []string{}
	sig := fn.Type().(*types.Signature)
	if fi := t.finfo[key]; fi != nil && fi.HasArr {
		fail(t.fset, c, "call of %s, which has array parameters", full)
	}
	if fi := t.finfo[key]; fi != nil && fi.Extended {
		return t.callExt(c, fn, fi)
	}
	if sig.Recv() != nil {
		fail(t.fset, c, "method call %s", full)
	}
	pre, post := "", ""
	for _, a := range c.Args {
		r := t.expr(a)
		if r.mon {
			v := t.gensym("v")
			pre += fmt.Sprintf("bind (%s) (fun %s => ", r.code, v)
			post += ")"
			args = append(args, v)
		} else {
			args = append(args, "("+r.code+")")
		}
	}
	return ex{pre + name + " " + strings.Join(args, " ") + post, true}
}

func fnKey(fn *types.Func) string {
	sig := fn.Type().(*types.Signature)
	recv := ""
	if sig.Recv() != nil {
		rt := sig.Recv().Type()
		if p, ok := rt.(*types.Pointer); ok {
			rt = p.Elem()
		}
		if n, ok := rt.(*types.Named); ok {
			recv = n.Obj().Name()
		}
	}
	return fn.Pkg().Path() + "." + recv + "." + fn.Name()
}

// ---------------------------------------------------------------- statements

func containsReturn(n ast.Node) bool {
	found := false
	ast.Inspect(n, func(m ast.Node) bool {
		switch c := m.(type) {
		case *ast.ReturnStmt:
			found = true
		case *ast.BranchStmt:
			found = true // break: leaves the statement list like a return
		case *ast.CallExpr:
			if id, ok := c.Fun.(*ast.Ident); ok && id.Name == "panic" {
				found = true
			}
			if sel, ok := c.Fun.(*ast.SelectorExpr); ok && logPanicNames[sel.Sel.Name] {
				found = true // logger.Panic(..)
			}
		case *ast.FuncLit:
			return false
		}
		return !found
	})
	return found
}

// assigned returns the outer variables (not declared inside n) assigned in n
func (t *tr) assigned(n ast.Node) []string {
	declared := map[string]bool{}
	seen := map[string]bool{}
	var out []string
	add := func(e ast.Expr) {
		if id, ok := e.(*ast.Ident); ok && id.Name != "_" && !declared[id.Name] && !seen[id.Name] {
			seen[id.Name] = true
			out = append(out, san(id.Name))
		}
	}
	ast.Inspect(n, func(m ast.Node) bool {
		switch s := m.(type) {
		case *ast.AssignStmt:
			if s.Tok == token.DEFINE {
				for _, l := range s.Lhs {
					if id, ok := l.(*ast.Ident); ok {
						if t.info.Defs[id] != nil {
							declared[id.Name] = true
						} else {
							add(l)
						}
					}
				}
			} else {
				for _, l := range s.Lhs {
					add(l)
				}
			}
		case *ast.IncDecStmt:
			add(s.X)
		case *ast.DeclStmt:
			if gd, ok := s.Decl.(*ast.GenDecl); ok {
				for _, sp := range gd.Specs {
					if vs, ok := sp.(*ast.ValueSpec); ok {
						for _, id := range vs.Names {
							declared[id.Name] = true
						}
					}
				}
			}
		}
		return true
	})
	return out
}

func tuple(vs []string) string {
	if len(vs) == 1 {
		return "(" + vs[0] + ")"
	}
	return "(" + strings.Join(vs, ", ") + ")"
}
func pat(vs []string) string {
	if len(vs) == 1 {
		return vs[0]
	}
	return "'(" + strings.Join(vs, ", ") + ")"
}

func isLogCall(c *ast.CallExpr, info *types.Info) bool {
	sel, ok := c.Fun.(*ast.SelectorExpr)
	if !ok {
		return false
	}
	if fn, ok := info.Uses[sel.Sel].(*types.Func); ok {
		full := fn.FullName()
		if strings.HasPrefix(full, "log.") || strings.Contains(full, "logging") || strings.Contains(full, "logrus") {
			return true
		}
	}
	if id, ok := sel.X.(*ast.Ident); ok && (id.Name == "logger" || id.Name == "log") {
		return true
	}
	return false
}

func indent(s, pad string) string {
	return strings.ReplaceAll(s, "\n", "\n"+pad)
}

// stmts translates a statement list; `rest` is the code to run when the list
// falls through (type res T).
func (t *tr) stmts(list []ast.Stmt, rest string) string {
	if len(list) == 0 {
		return rest
	}
	s := list[0]
	k := func() string { return t.stmts(list[1:], rest) }
	letIn := func(name string, v ex) string {
		if v.mon {
			return fmt.Sprintf("bind (%s) (fun %s =>\n%s)", v.code, name, k())
		}
		return fmt.Sprintf("let %s := %s in\n%s", name, v.code, k())
	}
	switch x := s.(type) {
	case *ast.ReturnStmt:
		if len(x.Results) == 0 && t.truncStmt != nil {
			return "Val " + t.keptCode(x)
		}
		if len(x.Results) == 0 {
			if t.named == nil && t.nres > 0 {
				fail(t.fset, x, "bare return without named results")
			}
			if t.nres == 0 && t.hasOuts() {
				return "Val " + tuple(t.outCells(x))
			}
			if t.nres == 0 {
				return "Val tt"
			}
			if t.loop != nil {
				fail(t.fset, x, "bare return inside a range loop")
			}
			return "Val " + tuple(t.named)
		}
		if len(x.Results) == 1 && t.nres > 1 {
			// return f(...) forwarding a tuple
			r := t.expr(x.Results[0])
			if !r.mon || t.hasOuts() {
				fail(t.fset, x, "tuple-forwarding return of a pure expression")
			}
			return r.code
		}
		vals := []string{}
		pre, post := "", ""
		for i, r := range x.Results {
			var v ex
			if _, isSl := sliceOfStruct(resTyAt(t.resTy, i)); isSl {
				v = t.sliceValue(r)
			} else if isNil(r) {
				v = pure("None")
			} else {
				v = t.expr(r)
			}
			_ = i
			if v.mon {
				n := t.gensym("v")
				pre += fmt.Sprintf("bind (%s) (fun %s => ", v.code, n)
				post += ")"
				vals = append(vals, n)
			} else {
				vals = append(vals, v.code)
			}
		}
		if t.hasOuts() {
			vals = append(vals, t.outCells(x)...)
		}
		return pre + "Val " + tuple(vals) + post
	case *ast.ExprStmt:
		if c, ok := x.X.(*ast.CallExpr); ok {
			if id, ok := c.Fun.(*ast.Ident); ok && id.Name == "panic" {
				return "Panic"
			}
			if isLogPanic(c, t.info) {
				return "Panic"
			}
			if isLogCall(c, t.info) {
				return k()
			}
		}
		fail(t.fset, x, "expression statement")
	case *ast.DeclStmt:
		gd := x.Decl.(*ast.GenDecl)
		if gd.Tok != token.VAR || len(gd.Specs) != 1 {
			fail(t.fset, x, "declaration")
		}
		vs := gd.Specs[0].(*ast.ValueSpec)
		if len(vs.Names) > 1 && len(vs.Values) == 0 && len(t.arrRoots) > 0 {
			// var a, b, c T: zero values
			if _, _, ok := intInfo(t.info.TypeOf(vs.Names[0])); !ok {
				fail(t.fset, x, "multi-name var declaration of a non-integer type")
			}
			code := ""
			for _, n := range vs.Names {
				code += fmt.Sprintf("let %s := 0 in\n", san(n.Name))
				if t.consts != nil {
					t.consts[san(n.Name)] = 0
				}
			}
			return code + k()
		}
		if len(vs.Names) != 1 {
			fail(t.fset, x, "multi-name var declaration")
		}
		if _, isStruct := t.info.TypeOf(vs.Names[0]).Underlying().(*types.Struct); isStruct && len(vs.Values) == 0 && t.cfg.SizeMethod != "" {
			// `var mm T`: the zero value of a message type (only its size is asked for)
			t.zeroLocals[vs.Names[0].Name] = true
			return k()
		}
		v := pure("0")
		if len(vs.Values) == 1 {
			v = t.expr(vs.Values[0])
		} else if t.isErrorType(t.info.TypeOf(vs.Names[0])) {
			v = pure("(None : error)")
		}
		if len(vs.Values) == 1 {
			t.noteAssign(san(vs.Names[0].Name), vs.Values[0])
		} else if t.consts != nil {
			if _, _, ok := intInfo(t.info.TypeOf(vs.Names[0])); ok {
				t.consts[san(vs.Names[0].Name)] = 0
			}
		}
		return letIn(san(vs.Names[0].Name), v)
	case *ast.IncDecStmt:
		id, ok := x.X.(*ast.Ident)
		if !ok {
			fail(t.fset, x, "++/-- on non-identifier")
		}
		bits, signed, ok := intInfo(t.info.TypeOf(x.X))
		if !ok {
			fail(t.fset, x, "++/-- on non-integer")
		}
		w := "wrap"
		if signed {
			w = "swrap"
		}
		op := "+"
		if x.Tok == token.DEC {
			op = "-"
		}
		n := san(id.Name)
		t.noteAssign(n, nil)
		return letIn(n, pure(fmt.Sprintf("%s %d (%s %s 1)", w, bits, n, op)))
	case *ast.AssignStmt:
		if x == t.truncStmt {
			return t.truncAssign(x, k)
		}
		if s, ok := t.inputAssign(x, k); ok {
			return s
		}
		if len(x.Lhs) == 1 && len(x.Rhs) == 1 {
			cell, isCell := t.cellWrite(x)
			id, ok := x.Lhs[0].(*ast.Ident)
			if !ok && !isCell {
				fail(t.fset, x, "assignment to non-identifier")
			}
			name := cell
			if !isCell {
				name = san(id.Name)
				if id.Name == "_" {
					name = t.gensym("_u")
				}
			}
			switch x.Tok {
			case token.DEFINE, token.ASSIGN:
				var v ex
				if isNil(x.Rhs[0]) {
					v = pure("None")
				} else {
					v = t.expr(x.Rhs[0])
				}
				if isCell {
					t.markWritten(x)
				} else {
					t.noteAssign(name, x.Rhs[0])
				}
				return letIn(name, v)
			default:
				// op-assign
				opTok := map[token.Token]token.Token{token.ADD_ASSIGN: token.ADD, token.SUB_ASSIGN: token.SUB, token.MUL_ASSIGN: token.MUL, token.QUO_ASSIGN: token.QUO, token.REM_ASSIGN: token.REM,
					token.AND_ASSIGN: token.AND, token.OR_ASSIGN: token.OR, token.XOR_ASSIGN: token.XOR, token.SHL_ASSIGN: token.SHL, token.SHR_ASSIGN: token.SHR}[x.Tok]
				if opTok == 0 {
					fail(t.fset, x, "assignment operator %s", x.Tok)
				}
				be := &ast.BinaryExpr{X: x.Lhs[0], Op: opTok, Y: x.Rhs[0], OpPos: x.TokPos}
				t.info.Types[be] = types.TypeAndValue{Type: t.info.TypeOf(x.Lhs[0])}
				v := t.binary(be)
				if isCell {
					t.markWritten(x)
				} else {
					t.noteAssign(name, be)
				}
				return letIn(name, v)
			}
		}
		if len(x.Rhs) == 1 && len(x.Lhs) > 1 {
			r := t.expr(x.Rhs[0])
			if !r.mon {
				fail(t.fset, x, "multi-assignment from pure expression")
			}
			names := []string{}
			for _, l := range x.Lhs {
				id, ok := l.(*ast.Ident)
				if !ok {
					fail(t.fset, x, "assignment to non-identifier")
				}
				if id.Name == "_" {
					names = append(names, "_")
				} else {
					names = append(names, san(id.Name))
					t.noteAssign(san(id.Name), nil)
				}
			}
			return fmt.Sprintf("bind (%s) (fun %s =>\n%s)", r.code, pat(names), k())
		}
		fail(t.fset, x, "parallel assignment")
	case *ast.BlockStmt:
		return t.stmts(append(append([]ast.Stmt{}, x.List...), list[1:]...), rest)
	case *ast.IfStmt:
		if x.Init != nil {
			// if init; cond {..}: variables of init are scoped to the if; names are
			// unique enough in the supported subset to hoist.
			return t.stmts(append([]ast.Stmt{x.Init, &ast.IfStmt{If: x.If, Cond: x.Cond, Body: x.Body, Else: x.Else}}, list[1:]...), rest)
		}
		t.forgetAssigned(x)
		c := t.expr(x.Cond)
		var elseList []ast.Stmt
		if x.Else != nil {
			switch e := x.Else.(type) {
			case *ast.BlockStmt:
				elseList = e.List
			default:
				elseList = []ast.Stmt{e}
			}
		}
		hasRet := containsReturn(x.Body) || (x.Else != nil && containsReturn(x.Else))
		var body string
		if hasRet {
			kk := k()
			th := t.stmts(x.Body.List, kk)
			el := t.stmts(elseList, kk)
			body = "if \x00C then\n  " + indent(th, "  ") + "\nelse\n  " + indent(el, "  ")
		} else {
			vs := t.assigned(x)
			if len(vs) == 0 {
				return k()
			}
			th := t.stmts(x.Body.List, "Val "+tuple(vs))
			el := t.stmts(elseList, "Val "+tuple(vs))
			body = "bind (if \x00C then\n  " + indent(th, "  ") + "\nelse\n  " + indent(el, "  ") + ") (fun " + pat(vs) + " =>\n" + k() + ")"
		}
		if c.mon {
			v := t.gensym("c")
			return fmt.Sprintf("bind (%s) (fun %s =>\n", c.code, v) + strings.Replace(body, "\x00C", v, 1) + ")"
		}
		return strings.Replace(body, "\x00C", c.code, 1)
	case *ast.ForStmt:
		if x.Init == nil && x.Post == nil && x.Cond != nil && len(t.arrRoots) > 0 {
			return t.whileStmt(x, k)
		}
		if s, ok := t.unrollFor(x, k); ok {
			return s
		}
		if t.loop != nil {
			fail(t.fset, x, "counted loop inside a range loop")
		}
		t.forgetAssigned(x)
		return t.forStmt(x, k)
	case *ast.RangeStmt:
		t.forgetAssigned(x)
		return t.rangeStmt(x, k)
	case *ast.BranchStmt:
		if x.Tok == token.BREAK && x.Label == nil && t.loop != nil {
			// leave the range loop with the current values of the variables it assigns
			return t.loop.breakCode
		}
	}
	fail(t.fset, s, "statement %T", s)
	return ""
}

// counted loops: for k := lo; k < hi; k++ { pure body without return }
func (t *tr) forStmt(x *ast.ForStmt, k func() string) string {
	init, ok := x.Init.(*ast.AssignStmt)
	if !ok || init.Tok != token.DEFINE || len(init.Lhs) != 1 {
		fail(t.fset, x, "for-loop init")
	}
	kv := init.Lhs[0].(*ast.Ident).Name
	lo := t.expr(init.Rhs[0])
	cond, ok := x.Cond.(*ast.BinaryExpr)
	if !ok || cond.Op != token.LSS {
		fail(t.fset, x, "for-loop condition must be k < bound")
	}
	if id, ok := cond.X.(*ast.Ident); !ok || id.Name != kv {
		fail(t.fset, x, "for-loop condition must test the loop variable")
	}
	hi := t.expr(cond.Y)
	post, ok := x.Post.(*ast.IncDecStmt)
	if !ok || post.Tok != token.INC {
		fail(t.fset, x, "for-loop post must be k++")
	}
	if id, ok := post.X.(*ast.Ident); !ok || id.Name != kv {
		fail(t.fset, x, "for-loop post must increment the loop variable")
	}
	if containsReturn(x.Body) || lo.mon || hi.mon {
		fail(t.fset, x, "for-loop with return or panicking bound")
	}
	t.noJumps(x.Body, "counted loop")
	vs := t.assigned(x.Body)
	for _, v := range vs {
		if v == san(kv) {
			fail(t.fset, x, "loop variable assigned in body")
		}
	}
	// the bound must be loop invariant
	ast.Inspect(cond.Y, func(n ast.Node) bool {
		if id, ok := n.(*ast.Ident); ok {
			for _, v := range vs {
				if v == san(id.Name) {
					fail(t.fset, x, "loop bound assigned in body")
				}
			}
		}
		return true
	})
	if len(vs) == 0 {
		return k()
	}
	body := t.stmts(x.Body.List, "Val "+tuple(vs))
	if strings.Contains(body, "Panic") || strings.Contains(body, "udiv") || strings.Contains(body, "umod") {
		fail(t.fset, x, "panicking loop body")
	}
	// body is `let .. in Val tuple`; run it in the res monad and unwrap with a default
	return fmt.Sprintf("let %s := for_range (%s) (%s) (fun %s %s =>\n  match (%s) with Val r_ => r_ | Panic => %s end) %s in\n%s",
		pat(vs), lo.code, hi.code, san(kv), pat(vs), indent(body, "  "), tuple(vs), tuple(vs), k())
}

// ---------------------------------------------------------------- functions

type fnOut struct {
	Name    string
	Params  []string
	Code    string
	Src     string
	Pos     string
	Info    *fnInfo  // typed parameters (loops.go)
	Helpers []string // loop Fixpoints to emit before the definition
	ArrDoc  string   // stage4: what the array cells / results are
}

// function translates fd; when it has slice-of-struct parameters a first pass
// discovers which element fields are used (the projection) and a second pass
// produces the code.
func (t *tr) function(fd *ast.FuncDecl, coqName string) fnOut {
	t.proj = nil
	t.arrPlan = nil
	o := t.function1(fd, coqName)
	if len(t.arrOrder) > 0 {
		if len(t.sliceOrder) > 0 {
			fail(t.fset, fd, "array parameters together with slice-of-struct parameters")
		}
		plan := map[string]arrPlan{}
		for _, name := range t.arrOrder {
			ar := t.arrRoots[name]
			p := arrPlan{in: ar.read, out: len(ar.written) > 0}
			if p.out && len(ar.written) < ar.n {
				p.in = true // the cells not written are returned as they came in
			}
			plan[name] = p
		}
		// an output that is returned early keeps its incoming cells: decided while translating
		for i := 0; i < 3; i++ {
			t.arrPlan = plan
			o = t.function1(fd, coqName)
			changed := false
			for _, name := range t.arrOrder {
				if t.arrRoots[name].read && !plan[name].in {
					p := plan[name]
					p.in = true
					plan[name] = p
					changed = true
				}
			}
			if !changed {
				return o
			}
		}
		fail(t.fset, fd, "internal: array plan does not settle")
	}
	if len(t.sliceOrder) > 0 {
		proj := map[string][][]string{}
		for _, sn := range t.sliceOrder {
			proj[sn] = t.slices[sn].projection()
			if len(proj[sn]) == 0 {
				fail(t.fset, fd, "no element field of slice %s is used", sn)
			}
		}
		t.proj = proj
		o = t.function1(fd, coqName)
		for _, sn := range t.sliceOrder {
			if !sameProj(proj[sn], t.slices[sn].projection()) {
				fail(t.fset, fd, "internal: projection of %s changed between passes", sn)
			}
		}
	}
	return o
}

func (t *tr) function1(fd *ast.FuncDecl, coqName string) fnOut {
	t.fields, t.fseen, t.roots, t.fresh = nil, map[string]bool{}, map[string]bool{}, 0
	t.named, t.nres, t.resTy = nil, 0, nil
	t.slices, t.sliceOrder, t.sliceParams, t.sliceParamTy = map[string]*sliceInfo{}, nil, map[string]*types.Struct{}, map[string]types.Type{}
	t.rootTy, t.fieldInfo, t.loop, t.helpers, t.fnName, t.nloops = map[string]*types.Struct{}, map[string]pathRef{}, nil, nil, coqName, 0
	t.loopMemo = map[*ast.RangeStmt]loopMemo{}
	t.extras, t.zeroLocals, t.sizeModelSlice, t.inputRoots, t.keptName = nil, map[string]bool{}, map[string]bool{}, map[string]string{}, ""
	t.keptFinal = ""
	t.arrRoots, t.arrOrder, t.consts, t.straight, t.unrollN, t.whileMemos = map[string]*arrRoot{}, nil, nil, map[ast.Stmt]bool{}, 0, map[*ast.ForStmt]whileMemo{}
	t.straightStmts(fd.Body.List)
	t.truncStmt = t.findTruncStmt(fd)
	params := []string{}
	goParams := []string{}
	addParams := func(fl *ast.FieldList, isRecv bool) {
		if fl == nil {
			return
		}
		for _, f := range fl.List {
			for _, n := range f.Names {
				goParams = append(goParams, n.Name)
				ty := t.info.TypeOf(f.Type)
				if p, ok := ty.(*types.Pointer); ok {
					ty = p.Elem()
				}
				if fld, cnt, ok := arrStruct(ty); ok {
					t.addArrRoot(n.Name, fld, cnt, ty)
					params = append(params, "\x00ARR:"+n.Name)
					continue
				}
				if cnt, ok := t.arrCfg[n.Name]; ok {
					if sl, isSl := ty.Underlying().(*types.Slice); !isSl || !isByte(sl.Elem()) {
						fail(t.fset, f, "fixed-length parameter %s is not a []byte", n.Name)
					}
					t.addArrRoot(n.Name, "", cnt, ty)
					params = append(params, "\x00ARR:"+n.Name)
					continue
				}
				if st, ok := ty.Underlying().(*types.Struct); ok {
					t.roots[n.Name] = true
					t.rootTy[n.Name] = st
					continue
				}
				if st, ok := sliceOfStruct(ty); ok {
					t.sliceParams[n.Name] = st
					t.sliceParamTy[n.Name] = ty
					params = append(params, san(n.Name))
					continue
				}
				if _, _, ok := intInfo(ty); !ok && !lenOnlySlice(ty) {
					if b, isb := ty.Underlying().(*types.Basic); !(isb && b.Kind() == types.Bool) {
						fail(t.fset, f, "parameter %s of unsupported type %v", n.Name, ty)
					}
				}
				params = append(params, san(n.Name))
			}
		}
	}
	addParams(fd.Recv, true)
	addParams(fd.Type.Params, false)
	pre := ""
	if fd.Type.Results != nil {
		for _, f := range fd.Type.Results.List {
			ty := t.info.TypeOf(f.Type)
			if len(f.Names) == 0 {
				t.nres++
				t.resTy = append(t.resTy, ty)
			}
			for _, n := range f.Names {
				t.nres++
				t.resTy = append(t.resTy, ty)
				t.named = append(t.named, san(n.Name))
				z := "0"
				if t.isErrorType(ty) {
					z = "None"
				} else if _, ok := ty.(*types.Pointer); ok {
					z = "None"
				}
				pre += fmt.Sprintf("let %s := %s in\n", san(n.Name), z)
			}
		}
	}
	fall := "Panic (* unreachable: function body fell through *)"
	if t.named != nil {
		fall = "Val " + tuple(t.named)
	} else if t.nres == 0 {
		fall = "Val tt"
	}
	const keptMark = "\x00KEPT\x00"
	if t.truncStmt != nil {
		fall = "Val " + keptMark
	}
	if t.hasOuts() {
		if t.nres > 0 {
			fall = "Panic (* unreachable: function body fell through *)"
		} else {
			fall = "Val " + tuple(t.outCellNames())
		}
	}
	body := pre + t.stmts(fd.Body.List, fall)
	if t.truncStmt != nil {
		if t.keptFinal == "" {
			fail(t.fset, fd, "internal: truncating assignment not reached")
		}
		body = strings.ReplaceAll(body, keptMark, t.keptFinal)
	}
	t.checkSizeModel(fd)
	// extra inputs first, then field-path parameters (receiver fields) in order of first use
	all := []string{}
	for _, p := range t.extras {
		all = append(all, p.Name)
	}
	// array roots: all cells of an input root, in index order, at the parameter's position
	expanded := []string{}
	for _, p := range params {
		if strings.HasPrefix(p, "\x00ARR:") {
			ar := t.arrRoots[strings.TrimPrefix(p, "\x00ARR:")]
			if (t.arrPlan != nil && t.arrPlan[ar.name].in) || (t.arrPlan == nil && ar.read) {
				expanded = append(expanded, ar.cells()...)
			}
			continue
		}
		expanded = append(expanded, p)
	}
	params = expanded
	all = append(append(all, t.fields...), params...)
	var src bytes.Buffer
	printer.Fprint(&src, t.fset, fd)
	// typed description of the parameters (for callers, the comment and the manifest)
	fi := &fnInfo{Name: coqName, GoParams: goParams, HasRecv: fd.Recv != nil && len(fd.Recv.List) == 1 && len(fd.Recv.List[0].Names) == 1}
	for _, p := range t.extras {
		fi.Params = append(fi.Params, p)
		fi.Extended = true
	}
	for _, p := range t.fields {
		ref := t.fieldInfo[p]
		pi := paramInfo{Name: p, Type: "Z", Root: ref.root, Rel: ref.rel}
		if src, ok := t.inputRoots[ref.root]; ok {
			pi.Doc = "field of the value returned by " + src
		}
		if sl := t.slices[p]; sl != nil {
			pi.Slice, pi.Type, pi.GoTy = true, t.sliceCoqType(p), sl.goTy
			if t.proj != nil {
				pi.Proj = t.proj[p]
			}
		}
		fi.Params = append(fi.Params, pi)
		fi.Extended = true
	}
	for _, p := range params {
		pi := paramInfo{Name: p, Type: "Z", Root: p}
		for _, g := range goParams {
			if san(g) == p {
				pi.Root = g
			}
		}
		if t.sliceParams[pi.Root] != nil {
			sl := t.slices[pi.Root]
			if sl == nil {
				fail(t.fset, fd, "slice parameter %s is never used", pi.Root)
			}
			pi.Slice, pi.Type, pi.GoTy = true, t.sliceCoqType(pi.Root), sl.goTy
			if t.proj != nil {
				pi.Proj = t.proj[pi.Root]
			}
			fi.Extended = true
		}
		fi.Params = append(fi.Params, pi)
	}
	arrDoc := ""
	if len(t.arrOrder) > 0 {
		fi.HasArr = true
		fi.Extended = true
		var ins, outs []string
		for _, name := range t.arrOrder {
			ar := t.arrRoots[name]
			what := fmt.Sprintf("%s .. %s = %s[0] .. [%d]", ar.cell(0), ar.cell(ar.n-1), strings.TrimSuffix(name+"."+ar.field, "."), ar.n-1)
			if t.arrPlan != nil && t.arrPlan[name].in {
				ins = append(ins, what)
			}
			if t.arrPlan != nil && t.arrPlan[name].out {
				outs = append(outs, what)
			}
		}
		arrDoc = "(* array parameters of " + coqName + ": " + strings.Join(ins, "; ")
		if len(outs) > 0 {
			arrDoc += "\n   result: the Go results, then (modified through the pointer) " + strings.Join(outs, "; ")
		}
		arrDoc += " *)\n"
	}
	return fnOut{ArrDoc: arrDoc, Name: coqName, Params: all, Code: body, Src: src.String(), Pos: t.fset.Position(fd.Pos()).String(), Info: fi, Helpers: t.helpers}
}

func findFunc(p *packages.Package, recv, name string) *ast.FuncDecl {
	for _, f := range p.Syntax {
		for _, d := range f.Decls {
			fd, ok := d.(*ast.FuncDecl)
			if !ok || fd.Name.Name != name || fd.Body == nil {
				continue
			}
			r := ""
			if fd.Recv != nil && len(fd.Recv.List) == 1 {
				ty := fd.Recv.List[0].Type
				if s, ok := ty.(*ast.StarExpr); ok {
					ty = s.X
				}
				if id, ok := ty.(*ast.Ident); ok {
					r = id.Name
				}
			}
			if r == recv {
				return fd
			}
		}
	}
	return nil
}

func writeIfChanged(path string, data []byte) (bool, error) {
	old, err := os.ReadFile(path)
	if err == nil && bytes.Equal(old, data) {
		return false, nil
	}
	return true, os.WriteFile(path, data, 0o644)
}

type manifestEntry struct {
	Coq    string `json:"coq"`
	File   string `json:"file"`
	Pos    string `json:"pos"`
	SrcSHA string `json:"src_sha256"`
	// only for functions with list parameters: how to build each argument
	Params []manifestParam `json:"params,omitempty"`
}

func loadPkgs(repo string, pats []string) ([]*packages.Package, error) {
	cfg := &packages.Config{Mode: packages.NeedName | packages.NeedSyntax | packages.NeedTypes | packages.NeedTypesInfo | packages.NeedFiles | packages.NeedImports, Dir: repo}
	return packages.Load(cfg, pats...)
}

func main() {
	repo := flag.String("repo", "/repo", "repository root")
	out := flag.String("out", "", "output directory for Gen/*.v")
	manifest := flag.String("manifest", "", "write a JSON manifest of what was translated")
	only := flag.String("only", "", "comma-separated unit names (default: all)")
	flag.Parse()
	if *out == "" {
		fmt.Fprintln(os.Stderr, "need -out")
		os.Exit(1)
	}
	defer func() {
		if r := recover(); r != nil {
			if u, ok := r.(unsupported); ok {
				fmt.Fprintln(os.Stderr, "TRANSLATION-BREAK: unsupported syntax: "+u.msg)
				os.Exit(3)
			}
			panic(r)
		}
	}()
	want := map[string]bool{}
	for _, u := range strings.Split(*only, ",") {
		if u != "" {
			want[u] = true
		}
	}
	all := len(want) == 0
	// close the selection under the units' imports
	for changed := true; changed; {
		changed = false
		for _, u := range units {
			if want[u.File] {
				for _, im := range u.Imports {
					if !want[im] {
						want[im] = true
						changed = true
					}
				}
			}
		}
	}
	// the function units are a function of the Go sources under src/ (and of this
	// binary): when neither changed since the selected units were last written —
	// and the files are still what was written — skip loading and type-checking
	var man []manifestEntry
	cache := newUnitCache(*repo, *out, all, want)
	if cached, ok := cache.valid(); ok {
		man = append(man, cached...)
		if err := genTables(*repo, *out, all, want, &man); err != nil {
			fmt.Fprintln(os.Stderr, "TRANSLATION-BREAK:", err)
			os.Exit(3)
		}
		if *manifest != "" {
			data, _ := json.MarshalIndent(man, "", " ")
			os.WriteFile(*manifest, data, 0o644)
		}
		return
	}
	pkgSet := map[string]bool{}
	for _, u := range units {
		if !all && !want[u.File] {
			continue
		}
		for _, f := range u.Fns {
			pkgSet["./"+f.Pkg] = true
		}
	}
	var pats []string
	for p := range pkgSet {
		pats = append(pats, p)
	}
	sort.Strings(pats)
	var pkgs []*packages.Package
	if len(pats) > 0 {
		var err error
		pkgs, err = loadPkgs(*repo, pats)
		if err != nil {
			fmt.Fprintln(os.Stderr, "load:", err)
			os.Exit(1)
		}
	}
	byPath := map[string]*packages.Package{}
	for _, p := range pkgs {
		if len(p.Errors) > 0 {
			fmt.Fprintln(os.Stderr, "TRANSLATION-BREAK: package errors:", p.Errors)
			os.Exit(3)
		}
		byPath[p.PkgPath] = p
	}
	known := map[string]string{}
	finfo := map[string]*fnInfo{}
	for _, u := range units {
		if !all && !want[u.File] {
			continue
		}
		var b strings.Builder
		fmt.Fprintf(&b, "(* GENERATED by /verif/translator from /repo — do not edit. *)\nFrom Sky Require Import Base.Uint.\n")
		for _, im := range u.Imports {
			fmt.Fprintf(&b, "From Sky Require Import Gen.%s.\n", im)
		}
		b.WriteString("Open Scope Z_scope.\n\n")
		b.WriteString(u.Preamble)
		for _, f := range u.Fns {
			p := byPath[modPrefix+f.Pkg]
			if p == nil {
				fmt.Fprintln(os.Stderr, "TRANSLATION-BREAK: package not loaded:", f.Pkg)
				os.Exit(3)
			}
			fd := findFunc(p, f.Recv, f.Name)
			if fd == nil {
				fmt.Fprintf(os.Stderr, "TRANSLATION-BREAK: function %s.%s.%s not found\n", f.Pkg, f.Recv, f.Name)
				os.Exit(3)
			}
			t := &tr{fset: p.Fset, pkg: p, info: p.TypesInfo, known: known, finfo: finfo, opaque: opaqueMethods[f.Pkg+"."+f.Recv+"."+f.Name], cfg: fnConfigs[f.Pkg+"."+f.Recv+"."+f.Name], arrCfg: arrayParams[f.Pkg+"."+f.Recv+"."+f.Name]}
			coqName := f.Name
			if f.Recv != "" {
				coqName = f.Recv + "_" + f.Name
			}
			o := t.function(fd, coqName)
			known[modPrefix+f.Pkg+"."+f.Recv+"."+f.Name] = coqName
			finfo[modPrefix+f.Pkg+"."+f.Recv+"."+f.Name] = o.Info
			fmt.Fprintf(&b, "(* %s\n%s\n*)\n", strings.TrimPrefix(o.Pos, *repo+"/"), strings.ReplaceAll(strings.ReplaceAll(o.Src, "*)", "* )"), "(*", "( *"))
			ps := ""
			if len(o.Params) > 0 {
				ps = " (" + strings.Join(o.Params, " ") + " : Z)"
			}
			doc, mparams := paramDoc(coqName, o.Info.Params)
			if t.truncStmt != nil {
				doc += "(* result: the number of elements of " + exprString(t.fset, t.truncStmt.Lhs[0]) + " after the call (the function only truncates that slice) *)\n"
			}
			if mparams != nil {
				// list parameters: typed binders, the projection in a comment, the loops first
				names, tys := []string{}, []string{}
				for _, pi := range o.Info.Params {
					names, tys = append(names, pi.Name), append(tys, pi.Type)
				}
				ps = typedBinders(names, tys)
				b.WriteString(doc)
			}
			b.WriteString(o.ArrDoc)
			for _, h := range o.Helpers {
				b.WriteString(h)
			}
			fmt.Fprintf(&b, "Definition %s%s :=\n  %s.\n\n", coqName, ps, indent(o.Code, "  "))
			man = append(man, manifestEntry{Coq: "Gen." + u.File + "." + coqName, File: strings.TrimPrefix(o.Pos, *repo+"/"), Pos: o.Pos, SrcSHA: fmt.Sprintf("%x", sha256.Sum256([]byte(o.Src))), Params: mparams})
		}
		ch, err := writeIfChanged(filepath.Join(*out, u.File+".v"), []byte(b.String()))
		if err != nil {
			fmt.Fprintln(os.Stderr, err)
			os.Exit(1)
		}
		if ch {
			fmt.Println("regenerated", u.File+".v")
		}
	}
	cache.store(man)
	if err := genTables(*repo, *out, all, want, &man); err != nil {
		fmt.Fprintln(os.Stderr, "TRANSLATION-BREAK:", err)
		os.Exit(3)
	}
	if *manifest != "" {
		data, _ := json.MarshalIndent(man, "", " ")
		os.WriteFile(*manifest, data, 0o644)
	}
}
