package main

import "golang.org/x/tools/go/packages"

// genTables emits constants / tables (Gen/Consts.v, Gen/Schemas.v ...).
func genTables(repo, out string, pkgs []*packages.Package) error {
	return nil
}
