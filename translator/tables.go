package main

// genTables emits the table-like units (schemas, constants): each is a named
// unit selectable with -only like the function units.
func genTables(repo, out string, all bool, want map[string]bool, man *[]manifestEntry) error {
	if all || want["Schemas"] {
		if err := genSchemas(repo, out, man); err != nil {
			return err
		}
	}
	if all || want["Routes"] { // C27: API route table of newServerMux (tables_api.go)
		if err := genApiTables(repo, out); err != nil {
			return err
		}
	}
	if all || want["Crypto"] { // C14/C10/C16: secp256k1 constants, BIP39 word list, bip32 constants (tables_crypto.go)
		if err := genCryptoTables(repo, out); err != nil {
			return err
		}
	}
	return nil
}
