package main

// Gen/Schemas.v: the binary schema of every type that has a skyencoder-generated
// codec (*_skyencoder.go), derived from the struct definitions and their `enc`
// tags exactly as the reflection-based reference encoder
// (src/cipher/encoder/encoder.go) interprets them.

import (
	"crypto/sha256"
	"encoding/json"
	"fmt"
	"go/ast"
	"go/types"
	"os"
	"path/filepath"
	"reflect"
	"sort"
	"strconv"
	"strings"
)

var codecPkgs = []string{"./src/coin", "./src/daemon", "./src/visor", "./src/visor/blockdb", "./src/visor/historydb"}

func tagMaxLen(tag string) (int, error) {
	i := strings.Index(tag, ",maxlen=")
	if i == -1 {
		return 0, nil
	}
	rem := tag[i+len(",maxlen="):]
	if j := strings.Index(rem, ","); j != -1 {
		rem = rem[:j]
	}
	return strconv.Atoi(rem)
}

type schemaErr struct{ msg string }

func schemaOf(t types.Type, maxlen int, path string) string {
	switch u := t.Underlying().(type) {
	case *types.Basic:
		switch u.Kind() {
		case types.Uint8:
			return "SUInt 1"
		case types.Uint16:
			return "SUInt 2"
		case types.Uint32:
			return "SUInt 4"
		case types.Uint64:
			return "SUInt 8"
		case types.Int8:
			return "SSInt 1"
		case types.Int16:
			return "SSInt 2"
		case types.Int32:
			return "SSInt 4"
		case types.Int64:
			return "SSInt 8"
		case types.Bool:
			return "SBool"
		case types.String:
			return fmt.Sprintf("SSlice %d (SUInt 1)", maxlen)
		}
		panic(schemaErr{fmt.Sprintf("%s: basic type %s has no binary encoding in the model", path, u.Name())})
	case *types.Array:
		return fmt.Sprintf("SArray %d (%s)", u.Len(), schemaOf(u.Elem(), 0, path+"[]"))
	case *types.Slice:
		return fmt.Sprintf("SSlice %d (%s)", maxlen, schemaOf(u.Elem(), 0, path+"[]"))
	case *types.Struct:
		fs, omit := structFields(u, path)
		if omit != "" {
			panic(schemaErr{path + ": omitempty inside a nested struct is not representable in the model"})
		}
		return "SStruct [" + strings.Join(fs, "; ") + "]"
	}
	panic(schemaErr{fmt.Sprintf("%s: type %s has no binary encoding in the model", path, t.String())})
}

// structFields returns the encoded fields in order and, if the last field is
// tagged omitempty, its "(maxlen, elem)" separately.
func structFields(st *types.Struct, path string) (fields []string, omit string) {
	n := st.NumFields()
	for i := 0; i < n; i++ {
		f := st.Field(i)
		if !f.Exported() || f.Name() == "_" {
			continue
		}
		tag := reflect.StructTag(st.Tag(i)).Get("enc")
		if len(tag) > 0 && tag[0] == '-' {
			continue
		}
		maxlen, err := tagMaxLen(tag)
		if err != nil {
			panic(schemaErr{path + "." + f.Name() + ": bad maxlen tag"})
		}
		if strings.Contains(tag, ",omitempty") {
			if i != n-1 {
				panic(schemaErr{path + "." + f.Name() + ": omitempty on a field that is not last"})
			}
			var elem types.Type
			switch u := f.Type().Underlying().(type) {
			case *types.Slice:
				elem = u.Elem()
			case *types.Basic:
				if u.Kind() == types.String {
					elem = types.Typ[types.Uint8]
				}
			}
			if elem == nil {
				panic(schemaErr{path + "." + f.Name() + ": omitempty on a non-slice field"})
			}
			omit = fmt.Sprintf("(%d, %s)", maxlen, schemaOf(elem, 0, path+"."+f.Name()+"[]"))
			continue
		}
		fields = append(fields, schemaOf(f.Type(), maxlen, path+"."+f.Name()))
	}
	return
}

func genSchemas(repo, out string, man *[]manifestEntry) (err error) {
	defer func() {
		if r := recover(); r != nil {
			if e, ok := r.(schemaErr); ok {
				err = fmt.Errorf("schema: %s", e.msg)
				return
			}
			panic(r)
		}
	}()
	// the schemas are a function of the Go sources under src/: skip the (slow)
	// type-checking when none of them changed since Schemas.v was written
	stamp := filepath.Join(out, ".schemas.stamp")
	h := sha256.New()
	filepath.Walk(filepath.Join(repo, "src"), func(p string, fi os.FileInfo, e error) error {
		if e == nil && !fi.IsDir() && strings.HasSuffix(p, ".go") && !strings.HasSuffix(p, "_test.go") {
			if data, e := os.ReadFile(p); e == nil {
				fmt.Fprintf(h, "%s %d\n", p, len(data))
				h.Write(data)
			}
		}
		return nil
	})
	self, _ := os.ReadFile(os.Args[0])
	h.Write(self)
	sum := fmt.Sprintf("%x", h.Sum(nil))
	if old, e := os.ReadFile(stamp); e == nil && string(old) == sum {
		if _, e := os.Stat(filepath.Join(out, "Schemas.v")); e == nil {
			if data, e := os.ReadFile(filepath.Join(out, ".schemas.manifest")); e == nil {
				var cached []manifestEntry
				if json.Unmarshal(data, &cached) == nil {
					*man = append(*man, cached...)
				}
			}
			return nil
		}
	}
	defer func() {
		if err == nil {
			os.WriteFile(stamp, []byte(sum), 0o644)
		}
	}()
	pkgs, lerr := loadPkgs(repo, codecPkgs)
	if lerr != nil {
		return lerr
	}
	type ent struct{ key, coq, def, pos, code, dcode string }
	var ents []ent
	for _, p := range pkgs {
		if len(p.Errors) > 0 {
			return fmt.Errorf("package errors: %v", p.Errors)
		}
		for _, f := range p.Syntax {
			fn := p.Fset.Position(f.Pos()).Filename
			if !strings.HasSuffix(fn, "_skyencoder.go") {
				continue
			}
			for _, d := range f.Decls {
				fd, ok := d.(*ast.FuncDecl)
				if !ok || !strings.HasPrefix(fd.Name.Name, "encodeSize") || fd.Type.Params == nil || len(fd.Type.Params.List) != 1 {
					continue
				}
				pt, ok := p.TypesInfo.TypeOf(fd.Type.Params.List[0].Type).(*types.Pointer)
				if !ok {
					continue
				}
				named, ok := pt.Elem().(*types.Named)
				if !ok {
					continue
				}
				st, ok := named.Underlying().(*types.Struct)
				if !ok {
					return fmt.Errorf("%s: generated codec for a non-struct type", named.String())
				}
				fnSuffix := strings.TrimPrefix(fd.Name.Name, "encodeSize")
				short := p.Name + "." + named.Obj().Name()
				fields, omit := structFields(st, short)
				o := "None"
				if omit != "" {
					o = "Some " + omit
				}
				coq := "schema_" + p.Name + "_" + named.Obj().Name()
				def := fmt.Sprintf("Definition %s : msg_schema :=\n  {| m_fields := [%s];\n     m_omit := %s |}.\n", coq, strings.Join(fields, ";\n                 "), o)
				cf, co := schemaFromEncoder(p, fnSuffix)
				cos := "None"
				if co != "" {
					cos = "Some " + co
				}
				code := fmt.Sprintf("Definition code_%s : msg_schema :=\n  {| m_fields := [%s];\n     m_omit := %s |}.\n", coq, strings.Join(cf, ";\n                 "), cos)
				df, do := schemaFromDecoder(p, fnSuffix)
				dos := "None"
				if do != "" {
					dos = "Some " + do
				}
				dcode := fmt.Sprintf("Definition dcode_%s : msg_schema :=\n  {| m_fields := [%s];\n     m_omit := %s |}.\n", coq, strings.Join(df, ";\n                 "), dos)
				ents = append(ents, ent{short, coq, def, strings.TrimPrefix(filepath.ToSlash(fn), repo+"/"), code, dcode})
			}
		}
	}
	sort.Slice(ents, func(i, j int) bool { return ents[i].key < ents[j].key })
	var b strings.Builder
	b.WriteString("(* GENERATED by /verif/translator from /repo — do not edit.\n   Binary schemas of the types that have a skyencoder-generated codec, derived\n   from the struct definitions and `enc` tags as encoder.go interprets them. *)\nFrom Coq Require Import ZArith List String.\nFrom Sky Require Import Model.Codec.\nImport ListNotations.\nOpen Scope Z_scope.\n\n")
	var names, codeNames, dcodeNames []string
	var myman []manifestEntry
	defer func() {
		if err == nil {
			data, _ := json.Marshal(myman)
			os.WriteFile(filepath.Join(out, ".schemas.manifest"), data, 0o644)
		}
	}()
	for _, e := range ents {
		b.WriteString(e.def + "\n")
		b.WriteString("(* recovered from the body of the generated encoder *)\n" + e.code + "\n")
		b.WriteString("(* recovered from the body of the generated decoder *)\n" + e.dcode + "\n")
		dcodeNames = append(dcodeNames, fmt.Sprintf("(\"%s\"%%string, dcode_%s)", e.key, e.coq))
		codeNames = append(codeNames, fmt.Sprintf("(\"%s\"%%string, code_%s)", e.key, e.coq))
		names = append(names, fmt.Sprintf("(\"%s\"%%string, %s)", e.key, e.coq))
		me := manifestEntry{Coq: "Gen.Schemas." + e.coq, File: e.pos, Pos: e.pos, SrcSHA: fmt.Sprintf("%x", sha256.Sum256([]byte(e.def)))}
		*man = append(*man, me)
		myman = append(myman, me)
	}
	fmt.Fprintf(&b, "Definition all_schemas : list (string * msg_schema) :=\n  [%s].\n", strings.Join(names, ";\n   "))
	fmt.Fprintf(&b, "\n(* the schemas recovered from the generated encoders' code, same order *)\nDefinition code_schemas : list (string * msg_schema) :=\n  [%s].\n", strings.Join(codeNames, ";\n   "))
	fmt.Fprintf(&b, "\n(* the schemas recovered from the generated decoders' code, same order *)\nDefinition dcode_schemas : list (string * msg_schema) :=\n  [%s].\n", strings.Join(dcodeNames, ";\n   "))
	ch, werr := writeIfChanged(filepath.Join(out, "Schemas.v"), []byte(b.String()))
	if werr != nil {
		return werr
	}
	if ch {
		fmt.Println("regenerated Schemas.v")
	}
	return nil
}
