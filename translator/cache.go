// cache.go — skip the (slow: go/packages + type-checking) translation of the
// function units when nothing they depend on changed: the stamp of a selection
// of units records the hash of every non-test Go source under src/ and vendor/, go.mod and
// this binary, the hash of each Gen/<unit>.v as written, and the manifest
// entries. Any difference (or a missing / edited file) retranslates everything.
package main

import (
	"crypto/sha256"
	"encoding/json"
	"fmt"
	"os"
	"path/filepath"
	"sort"
	"strings"
)

type unitCache struct {
	out, stamp, src string
	files           []string
}

type unitStamp struct {
	Src      string            `json:"src"`
	Files    map[string]string `json:"files"`
	Manifest []manifestEntry   `json:"manifest"`
}

func fileHash(p string) string {
	data, err := os.ReadFile(p)
	if err != nil {
		return ""
	}
	return fmt.Sprintf("%x", sha256.Sum256(data))
}

func newUnitCache(repo, out string, all bool, want map[string]bool) *unitCache {
	c := &unitCache{out: out}
	for _, u := range units {
		if all || want[u.File] {
			c.files = append(c.files, u.File+".v")
		}
	}
	sort.Strings(c.files)
	key := fmt.Sprintf("%x", sha256.Sum256([]byte(strings.Join(c.files, ","))))[:12]
	c.stamp = filepath.Join(out, ".units."+key+".stamp")
	h := sha256.New()
	walk := func(root string) {
		filepath.Walk(filepath.Join(repo, root), func(p string, fi os.FileInfo, e error) error {
			if e == nil && !fi.IsDir() && strings.HasSuffix(p, ".go") && !strings.HasSuffix(p, "_test.go") {
				if data, e := os.ReadFile(p); e == nil {
					fmt.Fprintf(h, "%s %d\n", strings.TrimPrefix(p, repo), len(data))
					h.Write(data)
				}
			}
			return nil
		})
	}
	walk("vendor") // the packages the sources are type-checked against
	filepath.Walk(filepath.Join(repo, "src"), func(p string, fi os.FileInfo, e error) error {
		if e == nil && !fi.IsDir() && strings.HasSuffix(p, ".go") && !strings.HasSuffix(p, "_test.go") {
			if data, e := os.ReadFile(p); e == nil {
				fmt.Fprintf(h, "%s %d\n", strings.TrimPrefix(p, repo), len(data))
				h.Write(data)
			}
		}
		return nil
	})
	for _, f := range []string{filepath.Join(repo, "go.mod"), os.Args[0]} {
		data, _ := os.ReadFile(f)
		fmt.Fprintf(h, "%s %d\n", filepath.Base(f), len(data))
		h.Write(data)
	}
	c.src = fmt.Sprintf("%x", h.Sum(nil))
	return c
}

func (c *unitCache) valid() ([]manifestEntry, bool) {
	if len(c.files) == 0 {
		return nil, true
	}
	data, err := os.ReadFile(c.stamp)
	if err != nil {
		return nil, false
	}
	var st unitStamp
	if json.Unmarshal(data, &st) != nil || st.Src != c.src || len(st.Files) != len(c.files) {
		return nil, false
	}
	for _, f := range c.files {
		if h := fileHash(filepath.Join(c.out, f)); h == "" || h != st.Files[f] {
			return nil, false
		}
	}
	return st.Manifest, true
}

func (c *unitCache) store(man []manifestEntry) {
	if len(c.files) == 0 {
		return
	}
	st := unitStamp{Src: c.src, Files: map[string]string{}, Manifest: man}
	for _, f := range c.files {
		st.Files[f] = fileHash(filepath.Join(c.out, f))
	}
	data, _ := json.Marshal(st)
	os.WriteFile(c.stamp, data, 0o644)
}
