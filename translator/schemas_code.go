package main

// Recover a schema from the BODY of each skyencoder-generated
// encode<T>ToBuffer function (the code that actually runs), so that Coq can
// check it against the schema derived from the struct definition
// (Gen/Schemas.v: code_schemas vs all_schemas, modulo struct flattening).

import (
	"fmt"
	"go/ast"
	"go/constant"
	"go/token"
	"go/types"
	"strings"

	"golang.org/x/tools/go/packages"
)

type codeWalker struct {
	p          *packages.Package
	pendingMax map[string]int
	pendingHdr string
	fn         string
}

func (c *codeWalker) fail(n ast.Node, format string, a ...interface{}) {
	panic(schemaErr{fmt.Sprintf("%s: %s: %s", c.fn, c.p.Fset.Position(n.Pos()), fmt.Sprintf(format, a...))})
}

func exprStr(e ast.Expr) string { return types.ExprString(e) }

// lenArg returns X when e is len(X)
func lenArg(e ast.Expr) (ast.Expr, bool) {
	if ce, ok := e.(*ast.CallExpr); ok {
		if id, ok := ce.Fun.(*ast.Ident); ok && id.Name == "len" && len(ce.Args) == 1 {
			return ce.Args[0], true
		}
	}
	return nil, false
}

func stripConv(e ast.Expr) ast.Expr {
	for {
		switch x := e.(type) {
		case *ast.ParenExpr:
			e = x.X
			continue
		case *ast.CallExpr:
			if id, ok := x.Fun.(*ast.Ident); ok && len(x.Args) == 1 && (strings.HasPrefix(id.Name, "uint") || strings.HasPrefix(id.Name, "int")) {
				e = x.Args[0]
				continue
			}
		}
		return e
	}
}

func returnsIdent(b *ast.BlockStmt, name string) bool {
	if len(b.List) != 1 {
		return false
	}
	r, ok := b.List[0].(*ast.ReturnStmt)
	if !ok || len(r.Results) == 0 {
		return false
	}
	return strings.HasSuffix(exprStr(r.Results[len(r.Results)-1]), name)
}

// items walks a statement list and returns the schema items it writes and, if
// an omitempty tail is met, its "(maxlen, elem)".
func (c *codeWalker) items(list []ast.Stmt) (items []string, omit string) {
	for _, s := range list {
		switch x := s.(type) {
		case *ast.ReturnStmt:
			continue
		case *ast.IfStmt:
			be, ok := x.Cond.(*ast.BinaryExpr)
			if !ok {
				c.fail(x, "if condition")
			}
			if arg, ok := lenArg(stripConv(be.X)); ok {
				switch {
				case be.Op == token.GTR && returnsIdent(x.Body, "ErrMaxLenExceeded"):
					tv := c.p.TypesInfo.Types[be.Y]
					n, exact := constant.Int64Val(tv.Value)
					if tv.Value == nil || !exact {
						c.fail(x, "maxlen bound is not a constant")
					}
					c.pendingMax[exprStr(arg)] = int(n)
					continue
				case be.Op == token.GTR && strings.Contains(exprStr(be.Y), "MaxUint32"):
					continue
				case be.Op == token.NEQ && exprStr(be.Y) == "0":
					// omitempty: the field is written only when non-empty
					in, o2 := c.items(x.Body.List)
					if o2 != "" || len(in) != 1 || !strings.HasPrefix(in[0], "SSlice ") {
						c.fail(x, "omitempty block is not a single slice")
					}
					rest := strings.TrimPrefix(in[0], "SSlice ")
					sp := strings.Index(rest, " ")
					omit = fmt.Sprintf("(%s, %s)", rest[:sp], strings.TrimSuffix(strings.TrimPrefix(rest[sp+1:], "("), ")"))
					if !strings.HasPrefix(rest[sp+1:], "(") {
						omit = fmt.Sprintf("(%s, %s)", rest[:sp], rest[sp+1:])
					}
					continue
				}
			}
			c.fail(x, "unrecognised if statement %s", exprStr(x.Cond))
		case *ast.ExprStmt:
			ce, ok := x.X.(*ast.CallExpr)
			if !ok {
				c.fail(x, "expression statement")
			}
			sel, ok := ce.Fun.(*ast.SelectorExpr)
			if !ok || exprStr(sel.X) != "e" || len(ce.Args) != 1 {
				c.fail(x, "call %s", exprStr(ce.Fun))
			}
			arg := ce.Args[0]
			switch sel.Sel.Name {
			case "Uint8", "Uint16", "Uint32", "Uint64", "Int8", "Int16", "Int32", "Int64":
				if sel.Sel.Name == "Uint32" {
					if la, ok := lenArg(stripConv(arg)); ok {
						c.pendingHdr = exprStr(la)
						continue
					}
				}
				bits := 0
				fmt.Sscanf(strings.TrimLeft(sel.Sel.Name, "UIint"), "%d", &bits)
				k := "SUInt"
				if strings.HasPrefix(sel.Sel.Name, "Int") {
					k = "SSInt"
				}
				items = append(items, fmt.Sprintf("%s %d", k, bits/8))
			case "Bool":
				items = append(items, "SBool")
			case "CopyBytes":
				if se, ok := arg.(*ast.SliceExpr); ok && se.Low == nil && se.High == nil {
					if at, ok := c.p.TypesInfo.TypeOf(se.X).Underlying().(*types.Array); ok {
						items = append(items, fmt.Sprintf("SArray %d (SUInt 1)", at.Len()))
						continue
					}
				}
				inner := stripByteConv(arg)
				if c.pendingHdr != "" && exprStr(inner) == c.pendingHdr {
					items = append(items, fmt.Sprintf("SSlice %d (SUInt 1)", c.pendingMax[c.pendingHdr]))
					c.pendingHdr = ""
					continue
				}
				c.fail(x, "CopyBytes of %s without a length prefix", exprStr(arg))
			default:
				c.fail(x, "encoder call %s", sel.Sel.Name)
			}
		case *ast.RangeStmt:
			xs := exprStr(x.X)
			sub := &codeWalker{p: c.p, pendingMax: map[string]int{}, fn: c.fn}
			in, o2 := sub.items(x.Body.List)
			if o2 != "" || len(in) == 0 {
				c.fail(x, "loop body")
			}
			elem := in[0]
			if len(in) > 1 {
				elem = "SStruct [" + strings.Join(in, "; ") + "]"
			}
			switch t := c.p.TypesInfo.TypeOf(x.X).Underlying().(type) {
			case *types.Slice:
				if c.pendingHdr != xs {
					c.fail(x, "loop over slice %s without a length prefix", xs)
				}
				items = append(items, fmt.Sprintf("SSlice %d (%s)", c.pendingMax[xs], elem))
				c.pendingHdr = ""
			case *types.Array:
				items = append(items, fmt.Sprintf("SArray %d (%s)", t.Len(), elem))
			default:
				c.fail(x, "loop over %s", xs)
			}
		case *ast.AssignStmt:
			// e := &encoder.Encoder{…}
			if len(x.Lhs) == 1 && exprStr(x.Lhs[0]) == "e" {
				continue
			}
			c.fail(x, "assignment")
		case *ast.BlockStmt:
			in, o2 := c.items(x.List)
			items = append(items, in...)
			if o2 != "" {
				omit = o2
			}
		default:
			c.fail(s, "statement %T", s)
		}
	}
	return
}

func stripByteConv(e ast.Expr) ast.Expr {
	if ce, ok := e.(*ast.CallExpr); ok && len(ce.Args) == 1 {
		if at, ok := ce.Fun.(*ast.ArrayType); ok && at.Len == nil {
			return ce.Args[0]
		}
	}
	return e
}

// schemaFromEncoder extracts the msg_schema written by encode<fn>ToBuffer.
func schemaFromEncoder(p *packages.Package, fn string) (fields []string, omit string) {
	name := "encode" + fn + "ToBuffer"
	for _, f := range p.Syntax {
		for _, d := range f.Decls {
			fd, ok := d.(*ast.FuncDecl)
			if !ok || fd.Name.Name != name || fd.Body == nil {
				continue
			}
			c := &codeWalker{p: p, pendingMax: map[string]int{}, fn: p.Name + "." + name}
			body := fd.Body.List
			// prologue: the buffer-size guard
			if len(body) > 0 {
				if is, ok := body[0].(*ast.IfStmt); ok && strings.Contains(exprStr(is.Cond), "encodeSize") {
					body = body[1:]
				}
			}
			return c.items(body)
		}
	}
	panic(schemaErr{p.Name + "." + name + ": generated encoder not found"})
}

// ---------------------------------------------------------------- decoders

// decItems walks the body of a generated decode<T> function. It recognises the
// fixed shapes skyencoder emits and FAILS on anything else, so that a changed
// bound (`>=` instead of `>`), a dropped or reordered check shows up as a
// translation break or as a schema that no longer equals the struct's.
func (c *codeWalker) decItems(list []ast.Stmt) (items []string, omit string) {
	i := 0
	omitNext := false
	for i < len(list) {
		s := list[i]
		switch x := s.(type) {
		case *ast.BlockStmt:
			in, o2 := c.decItems(x.List)
			items = append(items, in...)
			if o2 != "" {
				omit = o2
			}
			i++
		case *ast.ReturnStmt:
			i++
		case *ast.IfStmt:
			cs := exprStr(x.Cond)
			switch {
			case cs == "err != nil":
				i++
			case cs == "len(d.Buffer) == 0" && len(x.Body.List) == 1:
				// omitempty: nothing left => the field stays empty
				omitNext = true
				i++
			case strings.HasPrefix(cs, "len(d.Buffer) < len("):
				// fixed byte array: underflow test, copy, advance
				if i+2 >= len(list) {
					c.fail(x, "truncated byte-array read")
				}
				cp, ok := list[i+1].(*ast.ExprStmt)
				if !ok || !strings.HasPrefix(exprStr(cp.X), "copy(") {
					c.fail(x, "byte-array read without copy")
				}
				dst := cp.X.(*ast.CallExpr).Args[0]
				se, ok := dst.(*ast.SliceExpr)
				if !ok {
					c.fail(x, "copy destination")
				}
				at, ok := c.p.TypesInfo.TypeOf(se.X).Underlying().(*types.Array)
				if !ok {
					c.fail(x, "copy destination is not an array")
				}
				if !returnsIdent(x.Body, "ErrBufferUnderflow") {
					c.fail(x, "byte-array underflow test does not return ErrBufferUnderflow")
				}
				items = append(items, fmt.Sprintf("SArray %d (SUInt 1)", at.Len()))
				i += 3
			default:
				c.fail(x, "unrecognised if statement %s", cs)
			}
		case *ast.AssignStmt:
			rhs := exprStr(x.Rhs[0])
			lhs0 := exprStr(x.Lhs[0])
			switch {
			case lhs0 == "d":
				i++
			case lhs0 == "ul" && rhs == "d.Uint32()":
				// slice: ul,err := d.Uint32(); if err; length := int(ul);
				// if length < 0 || length > len(d.Buffer) {underflow}; [if length > N {maxlen}];
				// if length != 0 { make; loop | copy }
				j := i + 1
				want := func(pred func(ast.Stmt) bool, what string) ast.Stmt {
					if j >= len(list) || !pred(list[j]) {
						c.fail(x, "slice read: expected %s", what)
					}
					j++
					return list[j-1]
				}
				isIf := func(cond string) func(ast.Stmt) bool {
					return func(s ast.Stmt) bool {
						is, ok := s.(*ast.IfStmt)
						return ok && exprStr(is.Cond) == cond
					}
				}
				want(isIf("err != nil"), "error check")
				want(func(s ast.Stmt) bool {
					as, ok := s.(*ast.AssignStmt)
					return ok && exprStr(as.Lhs[0]) == "length" && exprStr(as.Rhs[0]) == "int(ul)"
				}, "length := int(ul)")
				uf := want(isIf("length < 0 || length > len(d.Buffer)"), "underflow test before the maxlen test").(*ast.IfStmt)
				if !returnsIdent(uf.Body, "ErrBufferUnderflow") {
					c.fail(uf, "underflow test does not return ErrBufferUnderflow")
				}
				maxlen := 0
				if j < len(list) {
					if is, ok := list[j].(*ast.IfStmt); ok {
						if be, ok := is.Cond.(*ast.BinaryExpr); ok && exprStr(be.X) == "length" && exprStr(is.Cond) != "length != 0" {
							if be.Op != token.GTR || !returnsIdent(is.Body, "ErrMaxLenExceeded") {
								c.fail(is, "maxlen test must be `length > N` returning ErrMaxLenExceeded, found %s", exprStr(is.Cond))
							}
							tv := c.p.TypesInfo.Types[be.Y]
							n, exact := constant.Int64Val(tv.Value)
							if tv.Value == nil || !exact {
								c.fail(is, "maxlen bound is not a constant")
							}
							maxlen = int(n)
							j++
						}
					}
				}
				body := want(isIf("length != 0"), "if length != 0").(*ast.IfStmt)
				// inside: X = make(...); then a range loop, or copy + advance (bytes)
				var elem string
				for _, bs := range body.Body.List {
					switch y := bs.(type) {
					case *ast.RangeStmt:
						sub := &codeWalker{p: c.p, pendingMax: map[string]int{}, fn: c.fn}
						in, o2 := sub.decItems(y.Body.List)
						if o2 != "" || len(in) == 0 {
							c.fail(y, "loop body")
						}
						elem = in[0]
						if len(in) > 1 {
							elem = "SStruct [" + strings.Join(in, "; ") + "]"
						}
					case *ast.ExprStmt:
						if strings.HasPrefix(exprStr(y.X), "copy(") {
							elem = "SUInt 1"
						}
					}
				}
				if elem == "" {
					c.fail(body, "slice body not recognised")
				}
				item := fmt.Sprintf("SSlice %d (%s)", maxlen, elem)
				if omitNext {
					omit = fmt.Sprintf("(%d, %s)", maxlen, elem)
					omitNext = false
				} else {
					items = append(items, item)
				}
				i = j
			case len(x.Rhs) == 1 && strings.HasPrefix(rhs, "d.") && strings.HasSuffix(rhs, "()"):
				name := strings.TrimSuffix(strings.TrimPrefix(rhs, "d."), "()")
				switch name {
				case "Uint8", "Uint16", "Uint32", "Uint64", "Int8", "Int16", "Int32", "Int64":
					bits := 0
					fmt.Sscanf(strings.TrimLeft(name, "UIint"), "%d", &bits)
					k := "SUInt"
					if strings.HasPrefix(name, "Int") {
						k = "SSInt"
					}
					items = append(items, fmt.Sprintf("%s %d", k, bits/8))
				case "Bool":
					items = append(items, "SBool")
				default:
					c.fail(x, "decoder call %s", name)
				}
				i++
			default:
				// plain stores of a decoded value: obj.X = i
				if len(x.Lhs) == 1 && (exprStr(x.Rhs[0]) == "i" || strings.HasPrefix(rhs, "make(")) {
					i++
					continue
				}
				c.fail(x, "assignment %s = %s", lhs0, rhs)
			}
		case *ast.RangeStmt:
			// fixed array of non-byte elements
			at, ok := c.p.TypesInfo.TypeOf(x.X).Underlying().(*types.Array)
			if !ok {
				c.fail(x, "loop over %s", exprStr(x.X))
			}
			sub := &codeWalker{p: c.p, pendingMax: map[string]int{}, fn: c.fn}
			in, o2 := sub.decItems(x.Body.List)
			if o2 != "" || len(in) == 0 {
				c.fail(x, "loop body")
			}
			elem := in[0]
			if len(in) > 1 {
				elem = "SStruct [" + strings.Join(in, "; ") + "]"
			}
			items = append(items, fmt.Sprintf("SArray %d (%s)", at.Len(), elem))
			i++
		case *ast.ExprStmt:
			c.fail(x, "expression statement %s", exprStr(x.X))
		default:
			c.fail(s, "statement %T", s)
		}
	}
	return
}

// schemaFromDecoder extracts the msg_schema read by decode<fn>.
func schemaFromDecoder(p *packages.Package, fn string) (fields []string, omit string) {
	name := "decode" + fn
	for _, f := range p.Syntax {
		for _, d := range f.Decls {
			fd, ok := d.(*ast.FuncDecl)
			if !ok || fd.Name.Name != name || fd.Body == nil {
				continue
			}
			c := &codeWalker{p: p, pendingMax: map[string]int{}, fn: p.Name + "." + name}
			return c.decItems(fd.Body.List)
		}
	}
	panic(schemaErr{p.Name + "." + name + ": generated decoder not found"})
}
