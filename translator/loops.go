// loops.go — extension of the function translator (main.go) to loops over
// slices of structs with early return, slice-of-struct parameters, method
// calls on translated receiver types, len(), and `err == Sentinel`.
//
// Shape of the translation
//
//   - A parameter (or a field path of a struct parameter) whose Go type is a
//     slice of structs becomes a Gallina `list` of tuples of EXACTLY the
//     integer / bool field paths the function uses on the elements (directly
//     or through the translated methods it calls on them), in the order the
//     fields are declared in the struct (depth first). One field: `list Z`.
//     The projection is written in a comment above the definition and in the
//     JSON manifest ("params").
//   - `for i := range X {..}` / `for _, x := range X {..}` / `for i, x := range X {..}`
//     becomes a top-level `Fixpoint <Fn>_loop<N>` emitted before the
//     function, by structural recursion on the list, in continuation-passing
//     style:
//     Fixpoint F_loopN (k_ : A1 -> .. -> res R) (free variables) (l_ : list E)
//     [(i : Z)] (a1 : A1) .. {struct l_} : res R
//     where a1.. are the variables declared outside the loop and assigned in
//     its body, R is the function's result type, k_ is the code after the
//     loop. `return` inside the body is simply `Val ..` (it leaves the
//     function), falling off the body is the recursive call on the tail.
//     The index is only materialised (as a counter from 0) when it is used
//     other than in `X[i]`.
//   - `len(X)` is `Z.of_nat (List.length X)`.
//   - `recv.M(args)` with M translated: the callee's field parameters are
//     taken from the receiver's path (`ux.CoinHours(t)` inside a loop over
//     `[]UxOut` uses the element's Head.Time, Body.Coins, Body.Hours), a slice
//     parameter of the callee receives the caller's list (re-projected with
//     List.map when the caller uses more fields).
//   - `err == Sentinel` / `err != Sentinel` is `eqb_error err (Some "Sentinel")`
//     (errors are names: the sentinel's variable name, or the constant prefix
//     of the message of errors.New / fmt.Errorf).
//
// Not supported (TRANSLATION-BREAK, exit 3): nested range loops, break /
// continue / goto, range over anything but a slice-of-struct parameter or
// field path, assignment to the loop variables, element or slice used as a
// value, slices of pointers, non-integer element fields.
package main

import (
	"bytes"
	"fmt"
	"go/ast"
	"go/printer"
	"go/token"
	"go/types"
	"sort"
	"strings"
)

// paramInfo describes one parameter of a generated Coq definition.
type paramInfo struct {
	Name  string     // Coq binder
	Type  string     // Coq type
	Root  string     // Go parameter / receiver it comes from
	Rel   []string   // field path below Root ([] = the parameter itself)
	Slice bool       // list-valued
	Extra bool       // an input that is not a Go parameter (stage3.go)
	Doc   string     // what it stands for
	Proj  [][]string // element field paths (declaration order) when Slice
	GoTy  string     // Go type (of the slice), for documentation
}

type fnInfo struct {
	Name     string
	GoParams []string // receiver first, then parameters, in Go order
	HasRecv  bool
	HasArr   bool // stage4: array parameters / results (not callable from translated code yet)
	Params   []paramInfo
	Extended bool // has a receiver-derived or non-scalar parameter
}

type sliceInfo struct {
	name string
	elem *types.Struct
	goTy string
	root string
	rel  []string
	used map[string][]string // key: joined rel path
}

type loopCtx struct {
	slice    string
	idx, val string
	idxObj   types.Object
	valObj   types.Object
	elem     string // name prefix of the element's fields
	pos, end token.Pos
	names    []string // free variables in order of first use
	types_   map[string]string
	idxUsed  bool
	// `break`: the loop's continuation applied to the variables it assigns
	breakCode string
}

func (l *loopCtx) use(name, ty string) {
	if _, ok := l.types_[name]; ok {
		return
	}
	l.types_[name] = ty
	l.names = append(l.names, name)
}

// coqType maps a Go scalar type to its Coq type
func (t *tr) coqType(ty types.Type, at ast.Node) string {
	if t.isErrorType(ty) {
		return "error"
	}
	if _, _, ok := intInfo(ty); ok {
		return "Z"
	}
	if b, ok := ty.Underlying().(*types.Basic); ok && b.Kind() == types.Bool {
		return "bool"
	}
	if lenOnlySlice(ty) {
		return "Z" // represented by its length
	}
	fail(t.fset, at, "value of unsupported type %v in a loop", ty)
	return ""
}

func sliceOfStruct(ty types.Type) (*types.Struct, bool) {
	if ty == nil {
		return nil, false
	}
	sl, ok := ty.Underlying().(*types.Slice)
	if !ok {
		return nil, false
	}
	st, ok := sl.Elem().Underlying().(*types.Struct)
	return st, ok
}

// leafPaths enumerates the non-struct leaves of a struct type, depth first in
// declaration order.
func leafPaths(st *types.Struct, prefix []string, out *[][]string) {
	for i := 0; i < st.NumFields(); i++ {
		f := st.Field(i)
		p := append(append([]string{}, prefix...), f.Name())
		if s, ok := f.Type().Underlying().(*types.Struct); ok {
			leafPaths(s, p, out)
		} else {
			*out = append(*out, p)
		}
	}
}

func fieldType(st *types.Struct, rel []string) types.Type {
	var cur types.Type = st
	for _, name := range rel {
		s, ok := cur.Underlying().(*types.Struct)
		if !ok {
			return nil
		}
		var next types.Type
		for i := 0; i < s.NumFields(); i++ {
			if s.Field(i).Name() == name {
				next = s.Field(i).Type()
			}
		}
		if next == nil {
			return nil
		}
		cur = next
	}
	return cur
}

// pathOf resolves an expression to (root, field path): a struct parameter /
// receiver, the element of the current range loop (X[i] or the range value
// variable), or a slice parameter.
func (t *tr) pathOf(e ast.Expr) (string, []string, bool) {
	switch x := e.(type) {
	case *ast.Ident:
		if t.loop != nil && t.loop.val != "" && x.Name == t.loop.val && t.info.Uses[x] == t.loop.valObj {
			return t.loop.elem, nil, true
		}
		if t.roots[x.Name] {
			return x.Name, nil, true
		}
		if t.sliceParams[x.Name] != nil {
			return x.Name, nil, true
		}
	case *ast.SelectorExpr:
		if r, rel, ok := t.pathOf(x.X); ok {
			return r, append(append([]string{}, rel...), x.Sel.Name), true
		}
	case *ast.ParenExpr:
		return t.pathOf(x.X)
	case *ast.StarExpr:
		return t.pathOf(x.X)
	case *ast.IndexExpr:
		if t.loop != nil && t.loop.idx != "" {
			if id, ok := x.Index.(*ast.Ident); ok && t.info.Uses[id] == t.loop.idxObj {
				if sn, ok := t.slicePath(x.X, false); ok && sn == t.loop.slice {
					return t.loop.elem, nil, true
				}
			}
		}
	}
	return "", nil, false
}

func flat(root string, rel []string) string {
	if len(rel) == 0 {
		return root
	}
	return root + "_" + strings.ReplaceAll(strings.Join(rel, "_"), "()", "")
}

// Opaque methods: results of an untranslated, argument-less method called on
// the loop element (configured per function in opaqueMethods) are DATA of the
// element: a pseudo-field "M()" of the projection whose Coq type is the tuple
// of the method's results. Assumes the method is a pure function of the
// element (stated in the trusted base of the property using the unit).
var opaqueMethods = map[string]map[string]bool{
	"src/coin.Transactions.TruncateBytesTo": {"Size": true},
}

var opaqueTypes = map[string]string{} // "M()" -> Coq type

func isOpaqueField(rel []string) bool {
	return len(rel) > 0 && strings.HasSuffix(rel[len(rel)-1], "()")
}

func projFieldType(rel []string) string {
	if isOpaqueField(rel) {
		return opaqueTypes[rel[len(rel)-1]]
	}
	return "Z"
}

func (t *tr) opaqueCall(c *ast.CallExpr, fn *types.Func) (ex, bool) {
	if !t.opaque[fn.Name()] || t.loop == nil {
		return ex{}, false
	}
	var recv ast.Expr
	switch f := c.Fun.(type) {
	case *ast.SelectorExpr: // x.M()
		if len(c.Args) != 0 {
			return ex{}, false
		}
		recv = f.X
	case *ast.Ident: // f(&x) / f(x)
		if len(c.Args) != 1 {
			return ex{}, false
		}
		recv = c.Args[0]
		if u, ok := recv.(*ast.UnaryExpr); ok && u.Op == token.AND {
			recv = u.X
		}
	default:
		return ex{}, false
	}
	root, rel, ok := t.pathOf(recv)
	if !ok || !t.isElem(root) || len(rel) != 0 {
		return ex{}, false
	}
	sig := fn.Type().(*types.Signature)
	parts := []string{}
	for i := 0; i < sig.Results().Len(); i++ {
		parts = append(parts, t.coqType(sig.Results().At(i).Type(), c))
	}
	if len(parts) == 0 {
		return ex{}, false
	}
	ty := parts[0]
	if len(parts) > 1 {
		ty = "(" + strings.Join(parts, " * ") + ")"
	}
	key := fn.Name() + "()"
	if old, ok := opaqueTypes[key]; ok && old != ty {
		fail(t.fset, c, "opaque method %s used with two result types", key)
	}
	opaqueTypes[key] = ty
	s := t.slices[t.loop.slice]
	if _, ok := s.used[key]; !ok {
		if t.proj != nil {
			found := false
			for _, f := range t.proj[t.loop.slice] {
				if strings.Join(f, ".") == key {
					found = true
				}
			}
			if !found {
				fail(t.fset, c, "internal: opaque field %s discovered in the second pass", key)
			}
		}
		s.used[key] = []string{key}
	}
	if len(parts) == 1 {
		return pure(flat(root, []string{key})), true
	}
	return ex{"Val " + flat(root, []string{key}), true}, true
}

// sliceValue: a slice-typed result — nil, the slice parameter itself, or
// X[:i] with i the index of the enclosing range loop over X
func (t *tr) sliceValue(e ast.Expr) ex {
	if isNil(e) {
		return pure("[]")
	}
	use := func(sn string) {
		if t.loop != nil {
			t.loop.use(sn, t.sliceCoqType(sn))
		}
	}
	if se, ok := e.(*ast.SliceExpr); ok {
		sn, ok := t.slicePath(se.X, true)
		if !ok || se.Low != nil || se.Max != nil || se.High == nil || t.loop == nil || sn != t.loop.slice {
			fail(t.fset, e, "slice expression other than X[:i] in the range loop over X")
		}
		id, ok := se.High.(*ast.Ident)
		if !ok || t.info.Uses[id] != t.loop.idxObj {
			fail(t.fset, e, "slice bound must be the index of the enclosing range loop")
		}
		t.loop.idxUsed = true
		use(sn)
		return pure(fmt.Sprintf("firstn (Z.to_nat %s) %s", san(id.Name), sn))
	}
	if sn, ok := t.slicePath(e, true); ok {
		use(sn)
		return pure(sn)
	}
	fail(t.fset, e, "slice-valued result")
	return ex{}
}

func (t *tr) isElem(root string) bool { return t.loop != nil && root == t.loop.elem }

// slicePath resolves an expression denoting a slice of structs (a parameter,
// or a field path of a struct parameter) to the name of its list parameter.
func (t *tr) slicePath(e ast.Expr, register bool) (string, bool) {
	st, ok := sliceOfStruct(t.info.TypeOf(e))
	if !ok {
		return "", false
	}
	root, rel, ok := t.pathOf(e)
	if !ok || t.isElem(root) {
		return "", false
	}
	if t.sliceParams[root] != nil && len(rel) > 0 {
		return "", false
	}
	name := flat(root, rel)
	if register {
		t.regSlice(name, root, rel, st, t.info.TypeOf(e))
	}
	return name, true
}

func (t *tr) regSlice(name, root string, rel []string, st *types.Struct, goTy types.Type) *sliceInfo {
	if s, ok := t.slices[name]; ok {
		return s
	}
	s := &sliceInfo{name: name, elem: st, root: root, rel: rel, used: map[string][]string{}, goTy: types.TypeString(goTy, func(p *types.Package) string { return p.Name() })}
	t.slices[name] = s
	t.sliceOrder = append(t.sliceOrder, name)
	if len(rel) > 0 && !t.fseen[name] {
		// a slice-valued field path of a struct parameter takes its place
		// among the field parameters (order of first use)
		t.fseen[name] = true
		t.fields = append(t.fields, name)
		t.fieldInfo[name] = pathRef{root, rel}
	}
	return s
}

// useElemField records that field `rel` of the elements of slice `sname` is used
func (t *tr) useElemField(sname string, rel []string, at ast.Node) {
	s := t.slices[sname]
	if s == nil {
		fail(t.fset, at, "internal: unknown slice %s", sname)
	}
	ft := fieldType(s.elem, rel)
	if ft == nil {
		fail(t.fset, at, "unknown element field %s", strings.Join(rel, "."))
	}
	if _, _, ok := intInfo(ft); !ok {
		if b, isb := ft.Underlying().(*types.Basic); !(isb && b.Kind() == types.Bool) {
			fail(t.fset, at, "element field %s of unsupported type %v", strings.Join(rel, "."), ft)
		}
	}
	key := strings.Join(rel, ".")
	if _, ok := s.used[key]; !ok {
		if t.proj != nil {
			found := false
			for _, f := range t.proj[sname] {
				if strings.Join(f, ".") == key {
					found = true
				}
			}
			if !found {
				fail(t.fset, at, "internal: element field %s discovered in the second pass", key)
			}
		}
		s.used[key] = rel
	}
}

// projection of a slice: used leaves in declaration order
func (s *sliceInfo) projection() [][]string {
	var all [][]string
	leafPaths(s.elem, nil, &all)
	var out [][]string
	for _, p := range all {
		if _, ok := s.used[strings.Join(p, ".")]; ok {
			out = append(out, p)
		}
	}
	// results of opaque methods come after the fields, by name
	var ops []string
	for k, rel := range s.used {
		if isOpaqueField(rel) {
			ops = append(ops, k)
		}
	}
	sort.Strings(ops)
	for _, k := range ops {
		out = append(out, s.used[k])
	}
	return out
}

func elemCoqType(proj [][]string) string {
	if len(proj) == 0 {
		return "?"
	}
	zs := make([]string, len(proj))
	for i := range zs {
		zs[i] = projFieldType(proj[i])
	}
	if len(zs) == 1 {
		return zs[0]
	}
	return "(" + strings.Join(zs, " * ") + ")"
}

func (t *tr) sliceCoqType(sname string) string {
	if t.proj == nil {
		return "list ?"
	}
	return "list " + elemCoqType(t.proj[sname])
}

func projNames(prefix string, proj [][]string) []string {
	out := make([]string, len(proj))
	for i, p := range proj {
		out[i] = flat(prefix, p)
	}
	return out
}

func sameProj(a, b [][]string) bool {
	if len(a) != len(b) {
		return false
	}
	for i := range a {
		if strings.Join(a[i], ".") != strings.Join(b[i], ".") {
			return false
		}
	}
	return true
}

// sentinel: a package-level variable of type error
func (t *tr) isSentinel(e ast.Expr) bool {
	var id *ast.Ident
	switch x := e.(type) {
	case *ast.Ident:
		id = x
	case *ast.SelectorExpr:
		id = x.Sel
	default:
		return false
	}
	v, ok := t.info.Uses[id].(*types.Var)
	return ok && v.Pkg() != nil && v.Parent() == v.Pkg().Scope() && t.isErrorType(v.Type())
}

// builtinLen translates len(X) for a slice-of-struct path
func (t *tr) builtinLen(c *ast.CallExpr) (ex, bool) {
	id, ok := c.Fun.(*ast.Ident)
	if !ok || id.Name != "len" || len(c.Args) != 1 {
		return ex{}, false
	}
	if _, ok := t.info.Uses[id].(*types.Builtin); !ok {
		return ex{}, false
	}
	if lenOnlySlice(t.info.TypeOf(c.Args[0])) {
		return t.expr(c.Args[0]), true // the slice IS its length
	}
	sn, ok := t.slicePath(c.Args[0], true)
	if !ok {
		fail(t.fset, c, "len of something that is not a slice-of-struct parameter")
	}
	if t.loop != nil {
		t.loop.use(sn, t.sliceCoqType(sn))
	}
	return pure("Z.of_nat (List.length " + sn + ")"), true
}

// callExt: call of a translated function that has a receiver or struct /
// slice parameters. The callee's parameters are built from the paths of the
// caller's arguments.
func (t *tr) callExt(c *ast.CallExpr, fn *types.Func, fi *fnInfo) ex {
	argOf := map[string]ast.Expr{}
	gi := 0
	if fi.HasRecv {
		sel, ok := c.Fun.(*ast.SelectorExpr)
		if !ok {
			fail(t.fset, c, "method value call %s", fn.FullName())
		}
		argOf[fi.GoParams[0]] = sel.X
		gi = 1
	}
	if len(c.Args) != len(fi.GoParams)-gi || c.Ellipsis != token.NoPos {
		fail(t.fset, c, "argument count of %s", fn.FullName())
	}
	for i, a := range c.Args {
		argOf[fi.GoParams[gi+i]] = a
	}
	// scalar arguments are evaluated once, left to right, whatever the order of
	// the callee's Coq parameters
	pre, post := "", ""
	scalar := map[string]string{}
	for _, gp := range fi.GoParams {
		isScalar := false
		for _, p := range fi.Params {
			if p.Root == gp && len(p.Rel) == 0 && !p.Slice {
				isScalar = true
			}
		}
		if !isScalar {
			continue
		}
		r := t.expr(argOf[gp])
		if r.mon {
			v := t.gensym("v")
			pre += fmt.Sprintf("bind (%s) (fun %s => ", r.code, v)
			post += ")"
			scalar[gp] = v
		} else {
			scalar[gp] = "(" + r.code + ")"
		}
	}
	args := []string{}
	for _, p := range fi.Params {
		if p.Extra {
			fail(t.fset, c, "call of %s, which has the input parameter %s", fi.Name, p.Name)
		}
		a := argOf[p.Root]
		if a == nil {
			fail(t.fset, c, "internal: no argument for parameter %s of %s", p.Name, fi.Name)
		}
		if len(p.Rel) == 0 && !p.Slice {
			args = append(args, scalar[p.Root])
			continue
		}
		root, rel, ok := t.pathOf(a)
		if !ok {
			fail(t.fset, a, "argument of %s is not a parameter, a field path or the loop element", fn.FullName())
		}
		full := append(append([]string{}, rel...), p.Rel...)
		if !p.Slice {
			args = append(args, t.usePath(root, full, a))
			continue
		}
		if t.isElem(root) {
			fail(t.fset, a, "slice inside a slice element")
		}
		name := flat(root, full)
		var st *types.Struct
		var goTy types.Type
		if t.sliceParams[root] != nil && len(full) == 0 {
			st, goTy = t.sliceParams[root], t.sliceParamTy[root]
		} else if t.roots[root] {
			rt := t.rootTy[root]
			ft := fieldType(rt, full)
			s, ok := sliceOfStruct(ft)
			if !ok {
				fail(t.fset, a, "%s is not a slice of structs", name)
			}
			st, goTy = s, ft
		} else {
			fail(t.fset, a, "slice argument %s", name)
		}
		t.regSlice(name, root, full, st, goTy)
		for _, f := range p.Proj {
			t.useElemField(name, f, a)
		}
		if t.loop != nil {
			t.loop.use(name, t.sliceCoqType(name))
		}
		if t.proj == nil || sameProj(t.proj[name], p.Proj) {
			args = append(args, name)
		} else {
			args = append(args, fmt.Sprintf("(List.map (fun %s => %s) %s)",
				pat(projNames("e_", t.proj[name])), tuple(projNames("e_", p.Proj)), name))
		}
	}
	return ex{pre + fi.Name + " " + strings.Join(args, " ") + post, true}
}

// usePath: a scalar field of a struct parameter or of the loop element
func (t *tr) usePath(root string, rel []string, at ast.Node) string {
	p := flat(root, rel)
	if t.isElem(root) {
		t.useElemField(t.loop.slice, rel, at)
		return p
	}
	if !t.roots[root] {
		fail(t.fset, at, "field path %s of something that is not a struct parameter", p)
	}
	if !t.fseen[p] {
		t.fseen[p] = true
		t.fields = append(t.fields, p)
		t.fieldInfo[p] = pathRef{root, rel}
	}
	if t.loop != nil {
		t.loop.use(p, "Z")
	}
	return p
}

// assignedVars: variables declared outside n and assigned inside it
func (t *tr) assignedVars(n ast.Node) []*types.Var {
	var out []*types.Var
	seen := map[*types.Var]bool{}
	add := func(e ast.Expr) {
		id, ok := e.(*ast.Ident)
		if !ok || id.Name == "_" {
			return
		}
		v, ok := t.info.Uses[id].(*types.Var)
		if !ok {
			return // a definition (:=) of a new variable
		}
		if v.Pos() >= n.Pos() && v.Pos() < n.End() {
			return
		}
		if !seen[v] {
			seen[v] = true
			out = append(out, v)
		}
	}
	ast.Inspect(n, func(m ast.Node) bool {
		switch s := m.(type) {
		case *ast.AssignStmt:
			for _, l := range s.Lhs {
				add(l)
			}
		case *ast.IncDecStmt:
			add(s.X)
		}
		return true
	})
	return out
}

func (t *tr) resCoqType(at ast.Node) string {
	if t.truncStmt != nil {
		return "res Z"
	}
	if len(t.resTy) == 0 && !t.hasOuts() {
		return "res unit"
	}
	parts := []string{}
	for _, ty := range t.resTy {
		if _, ok := sliceOfStruct(ty); ok {
			parts = append(parts, t.sliceResultType(ty, at))
			continue
		}
		parts = append(parts, t.coqType(ty, at))
	}
	for range t.outCellNames() {
		parts = append(parts, "Z") // stage4: cells of the modified arrays
	}
	if len(parts) == 1 {
		return "res " + parts[0]
	}
	return "res (" + strings.Join(parts, " * ") + ")"
}

func typedBinders(names, tys []string) string {
	var b strings.Builder
	for i := 0; i < len(names); {
		j := i
		for j < len(names) && tys[j] == tys[i] {
			j++
		}
		fmt.Fprintf(&b, " (%s : %s)", strings.Join(names[i:j], " "), tys[i])
		i = j
	}
	return b.String()
}

// rangeStmt translates `for i, x := range X { body }`
func (t *tr) rangeStmt(x *ast.RangeStmt, k func() string) string {
	if t.loop != nil {
		fail(t.fset, x, "nested range loop")
	}
	if m, ok := t.loopMemo[x]; ok {
		// the same loop reached again through a duplicated continuation: one helper
		sn, _ := t.slicePath(x.X, true)
		call := m.hname + " " + t.kfun(m.accNames, k) + m.fvArgs + " " + sn + m.idxInit
		if len(m.accNames) > 0 {
			call += " " + strings.Join(m.accNames, " ")
		}
		return call
	}
	if x.Tok != token.DEFINE {
		fail(t.fset, x, "range loop must declare its variables with :=")
	}
	t.noJumps(x.Body, "range loop")
	sname, ok := t.slicePath(x.X, true)
	if !ok {
		fail(t.fset, x, "range over something that is not a slice-of-struct parameter or field path")
	}
	lc := &loopCtx{slice: sname, pos: x.Pos(), end: x.End(), types_: map[string]string{}}
	if id, ok := x.Key.(*ast.Ident); ok && id.Name != "_" {
		lc.idx, lc.idxObj = id.Name, t.info.Defs[id]
	} else if x.Key != nil && !ok {
		fail(t.fset, x, "range key")
	}
	if x.Value != nil {
		id, ok := x.Value.(*ast.Ident)
		if !ok {
			fail(t.fset, x, "range value")
		}
		if id.Name != "_" {
			lc.val, lc.valObj = id.Name, t.info.Defs[id]
		}
	}
	switch {
	case lc.val != "":
		lc.elem = lc.val
	case lc.idx != "":
		lc.elem = sname + "_" + lc.idx
	default:
		lc.elem = sname + "_elt"
	}
	accs := t.assignedVars(x.Body)
	accNames, accTys := []string{}, []string{}
	isAcc := map[string]bool{}
	for _, v := range accs {
		if v == lc.idxObj || v == lc.valObj {
			fail(t.fset, x, "loop variable %s assigned in the body", v.Name())
		}
		if v.Parent() == v.Pkg().Scope() {
			fail(t.fset, x, "package-level variable %s assigned in a loop", v.Name())
		}
		if t.roots[v.Name()] || t.sliceParams[v.Name()] != nil {
			fail(t.fset, x, "parameter %s assigned in a loop", v.Name())
		}
		accNames = append(accNames, san(v.Name()))
		accTys = append(accTys, t.coqType(v.Type(), x))
		isAcc[san(v.Name())] = true
	}
	t.nloops++
	hname := fmt.Sprintf("%s_loop%d", t.fnName, t.nloops)
	lc.breakCode = "k_"
	if len(accNames) > 0 {
		lc.breakCode += " " + strings.Join(accNames, " ")
	}
	t.loop = lc
	const fvMark, idxMark = "\x00FV\x00", "\x00IDX\x00"
	rec := hname + " k_" + fvMark + " r_" + idxMark
	if len(accNames) > 0 {
		rec += " " + strings.Join(accNames, " ")
	}
	body := t.stmts(x.Body.List, rec)
	t.loop = nil

	fvNames, fvTys := []string{}, []string{}
	for _, n := range lc.names {
		if isAcc[n] {
			continue
		}
		fvNames = append(fvNames, n)
		fvTys = append(fvTys, lc.types_[n])
	}
	// Gallina scoping is by name: a variable DECLARED inside the body with the
	// name of an accumulator / free variable would be captured by the recursive
	// call at the end of the body, where Go still means the outer one
	outerNames := map[string]bool{}
	for _, n := range accNames {
		outerNames[n] = true
	}
	for _, n := range fvNames {
		outerNames[n] = true
	}
	ast.Inspect(x.Body, func(m ast.Node) bool {
		if id, ok := m.(*ast.Ident); ok && id.Name != "_" {
			if obj := t.info.Defs[id]; obj != nil && outerNames[san(id.Name)] {
				fail(t.fset, id, "%s declared inside the loop shadows an outer variable the loop uses", id.Name)
			}
		}
		return true
	})
	fvArgs := ""
	if len(fvNames) > 0 {
		fvArgs = " " + strings.Join(fvNames, " ")
	}
	idxNext, idxBinder, idxInit := "", "", ""
	if lc.idxUsed {
		idxNext, idxBinder, idxInit = " ("+san(lc.idx)+" + 1)", " ("+san(lc.idx)+" : Z)", " 0"
	}
	body = strings.ReplaceAll(strings.ReplaceAll(body, fvMark, fvArgs), idxMark, idxNext)

	resTy := t.resCoqType(x)
	kTy := resTy
	if len(accTys) > 0 {
		kTy = strings.Join(accTys, " -> ") + " -> " + resTy
	}
	kCall := "k_"
	if len(accNames) > 0 {
		kCall += " " + strings.Join(accNames, " ")
	}
	var proj [][]string
	if t.proj != nil {
		proj = t.proj[sname]
	}
	elemPat := tuple(projNames(lc.elem, proj))
	if len(proj) == 1 {
		elemPat = projNames(lc.elem, proj)[0]
	}
	var src strings.Builder
	src.WriteString("for ")
	if lc.idx != "" || lc.val != "" {
		kk, vv := "_", ""
		if lc.idx != "" {
			kk = lc.idx
		}
		if x.Value != nil {
			vv = ", _"
			if lc.val != "" {
				vv = ", " + lc.val
			}
		}
		src.WriteString(kk + vv + " := ")
	}
	var xs bytes.Buffer
	printer.Fprint(&xs, t.fset, x.X)
	src.WriteString("range " + xs.String())
	var h strings.Builder
	fmt.Fprintf(&h, "(* loop %d of %s (%s): `%s`; k_ is the code after the loop,\n   l_ the remaining elements", t.nloops, t.fnName, t.fset.Position(x.Pos()).String()[strings.LastIndex(t.fset.Position(x.Pos()).String(), "/")+1:], src.String())
	if len(accNames) > 0 {
		fmt.Fprintf(&h, ", %s the variables assigned in the body", strings.Join(accNames, " "))
	}
	h.WriteString(" *)\n")
	fmt.Fprintf(&h, "Fixpoint %s (k_ : %s)%s (l_ : %s)%s%s {struct l_} : %s :=\n",
		hname, kTy, typedBinders(fvNames, fvTys), t.sliceCoqType(sname), idxBinder, typedBinders(accNames, accTys), resTy)
	fmt.Fprintf(&h, "  match l_ with\n  | [] => %s\n  | %s :: r_ =>\n    %s\n  end.\n\n", kCall, elemPat, indent(body, "    "))
	t.helpers = append(t.helpers, h.String())

	t.loopMemo[x] = loopMemo{hname: hname, fvArgs: fvArgs, idxInit: idxInit, accNames: accNames}
	// call site
	call := hname + " " + t.kfun(accNames, k) + fvArgs + " " + sname + idxInit
	if len(accNames) > 0 {
		call += " " + strings.Join(accNames, " ")
	}
	return call
}

type loopMemo struct {
	hname, fvArgs, idxInit string
	accNames               []string
}

// kfun: the code after the loop as a function of the variables the loop assigns
func (t *tr) kfun(accNames []string, k func() string) string {
	if len(accNames) > 0 {
		return "(fun " + strings.Join(accNames, " ") + " =>\n" + k() + ")"
	}
	return "(" + k() + ")"
}

// paramDoc renders the projection comment and manifest entries of a function
func paramDoc(name string, ps []paramInfo) (string, []manifestParam) {
	any := false
	for _, p := range ps {
		if p.Slice || p.Extra || p.Doc != "" {
			any = true
		}
	}
	if !any {
		return "", nil
	}
	var b strings.Builder
	var mp []manifestParam
	fmt.Fprintf(&b, "(* parameters of %s:\n", name)
	for _, p := range ps {
		goPath := p.Root
		if len(p.Rel) > 0 {
			goPath += "." + strings.Join(p.Rel, ".")
		}
		m := manifestParam{Name: p.Name, CoqType: p.Type, Go: goPath, GoType: p.GoTy}
		if p.Extra {
			// an input that is not a Go parameter
			m.Go = "(input) " + p.Doc
			fmt.Fprintf(&b, "     %s : %s  =  %s\n", p.Name, p.Type, p.Doc)
			mp = append(mp, m)
			continue
		}
		if p.Doc != "" {
			goPath += " — " + p.Doc
			m.Go = goPath
		}
		if p.Slice {
			fs := []string{}
			for _, f := range p.Proj {
				if isOpaqueField(f) {
					fs = append(fs, strings.Join(f, ".")+" [results of the method, as data : "+projFieldType(f)+"]")
					continue
				}
				fs = append(fs, strings.Join(f, "."))
			}
			m.ElemFields = fs
			el := strings.Join(fs, ", ")
			if len(fs) > 1 {
				el = "(" + el + ")"
			}
			fmt.Fprintf(&b, "     %s : %s  =  for each element of %s (%s), in order: %s\n", p.Name, p.Type, goPath, p.GoTy, el)
		} else {
			fmt.Fprintf(&b, "     %s : %s  =  %s\n", p.Name, p.Type, goPath)
		}
		mp = append(mp, m)
	}
	b.WriteString("*)\n")
	return b.String(), mp
}

type manifestParam struct {
	Name       string   `json:"name"`
	CoqType    string   `json:"coq_type"`
	Go         string   `json:"go"`
	GoType     string   `json:"go_type,omitempty"`
	ElemFields []string `json:"elem_fields,omitempty"`
}

type pathRef struct {
	root string
	rel  []string
}

func sortedKeys(m map[string]bool) []string {
	var ks []string
	for k := range m {
		ks = append(ks, k)
	}
	sort.Strings(ks)
	return ks
}

// noJumps rejects control flow the loop translations do not model (a `break`
// inside an `if` that assigns nothing would otherwise be dropped silently
// together with that `if`).
func (t *tr) noJumps(body ast.Node, what string) {
	ast.Inspect(body, func(m ast.Node) bool {
		if b, ok := m.(*ast.BranchStmt); ok && b.Tok == token.BREAK && b.Label == nil && what == "range loop" {
			return true // stage3: leave the loop with the current accumulators
		}
		switch m.(type) {
		case *ast.BranchStmt, *ast.DeferStmt, *ast.GoStmt, *ast.LabeledStmt, *ast.FuncLit, *ast.SelectStmt, *ast.SendStmt:
			fail(t.fset, m, "%T inside a %s", m, what)
		}
		return true
	})
}

// sliceResultType: a result of slice type is a sub-list of the one slice
// parameter of the same Go type
func (t *tr) sliceResultType(ty types.Type, at ast.Node) string {
	want := types.TypeString(ty, func(p *types.Package) string { return p.Name() })
	found := ""
	for _, sn := range t.sliceOrder {
		if t.slices[sn].goTy == want {
			if found != "" {
				fail(t.fset, at, "slice result of type %s: two candidate parameters", want)
			}
			found = sn
		}
	}
	if found == "" {
		fail(t.fset, at, "slice result of type %s: no parameter of that type", want)
	}
	return t.sliceCoqType(found)
}
