package main

// C27: the HTTP route table of src/api/http.go (newServerMux) as a Coq table.
//
// newServerMux registers every endpoint through a small tower of local
// closures (webHandlerV1 -> webHandler -> webHandlerWithOptionals -> mux.Handle).
// This file evaluates those closures symbolically: every registration call in
// the body of newServerMux is unfolded until it reaches webHandlerWithOptionals
// (the only closure that calls mux.Handle) and the resolved arguments
// (API version, full path, checkCSRF, checkHeaders, method -> API sets) are
// emitted as Gen/Routes.v plus Gen/Routes.json (the same table for the harness).
//
// A shape that cannot be evaluated does not abort the translator (that would
// break every other property's regeneration): it is recorded in
// `routes_translation_error`, which Properties/C27.v proves to be None.

import (
	"encoding/json"
	"fmt"
	"go/ast"
	"go/parser"
	"go/token"
	"path/filepath"
	"sort"
	"strconv"
	"strings"
)

type apiVal struct {
	kind string // "str", "bool", "nil", "sets", "sym", "opaque"
	s    string
	b    bool
	sets []apiMethodSets
}

type apiMethodSets struct {
	Method string   `json:"method"`
	Sets   []string `json:"sets"`
}

type apiRoute struct {
	Path    string          `json:"path"`
	Version string          `json:"version"`
	CSRF    bool            `json:"csrf"`
	Headers string          `json:"headers"` // "cfg" = unless DisableHeaderCheck, "always", "never"
	HasSets bool            `json:"has_sets"`
	Sets    []apiMethodSets `json:"sets"`
	Dynamic bool            `json:"dynamic"` // registered in a loop over GUI files (path is a pattern)
	Line    int             `json:"line"`
}

type apiClosure struct {
	name   string
	params []string
	body   *ast.BlockStmt
}

type apiEval struct {
	fset     *token.FileSet
	consts   map[string]string
	closures map[string]*apiClosure
	base     string // the closure that calls mux.Handle
	routes   []apiRoute
	errs     []string
}

var httpMethods = map[string]string{
	"MethodGet": "GET", "MethodHead": "HEAD", "MethodPost": "POST", "MethodPut": "PUT", "MethodPatch": "PATCH",
	"MethodDelete": "DELETE", "MethodConnect": "CONNECT", "MethodOptions": "OPTIONS", "MethodTrace": "TRACE",
}

func (e *apiEval) errf(n ast.Node, format string, a ...interface{}) {
	e.errs = append(e.errs, fmt.Sprintf("%s: %s", e.fset.Position(n.Pos()), fmt.Sprintf(format, a...)))
}

func (e *apiEval) expr(x ast.Expr, env map[string]apiVal) apiVal {
	switch v := x.(type) {
	case *ast.BasicLit:
		if v.Kind == token.STRING {
			s, err := strconv.Unquote(v.Value)
			if err == nil {
				return apiVal{kind: "str", s: s}
			}
		}
	case *ast.Ident:
		if r, ok := env[v.Name]; ok {
			return r
		}
		switch v.Name {
		case "true":
			return apiVal{kind: "bool", b: true}
		case "false":
			return apiVal{kind: "bool", b: false}
		case "nil":
			return apiVal{kind: "nil"}
		}
		if s, ok := e.consts[v.Name]; ok {
			return apiVal{kind: "str", s: s}
		}
	case *ast.ParenExpr:
		return e.expr(v.X, env)
	case *ast.BinaryExpr:
		if v.Op == token.ADD {
			a, b := e.expr(v.X, env), e.expr(v.Y, env)
			if a.kind == "str" && b.kind == "str" {
				return apiVal{kind: "str", s: a.s + b.s}
			}
			if (a.kind == "str" || a.kind == "pattern") && (b.kind == "str" || b.kind == "pattern") {
				return apiVal{kind: "pattern", s: a.s + b.s}
			}
		}
	case *ast.UnaryExpr:
		if v.Op == token.NOT {
			if sel, ok := v.X.(*ast.SelectorExpr); ok {
				if id, ok := sel.X.(*ast.Ident); ok {
					return apiVal{kind: "sym", s: "!" + id.Name + "." + sel.Sel.Name}
				}
			}
			a := e.expr(v.X, env)
			if a.kind == "bool" {
				return apiVal{kind: "bool", b: !a.b}
			}
		}
	case *ast.SelectorExpr:
		if id, ok := v.X.(*ast.Ident); ok && id.Name == "http" {
			if m, ok := httpMethods[v.Sel.Name]; ok {
				return apiVal{kind: "str", s: m}
			}
		}
	case *ast.CompositeLit:
		// map[string][]string{ method: {set, ...}, ... }
		if mt, ok := v.Type.(*ast.MapType); ok {
			_ = mt
			var out []apiMethodSets
			seen := map[string]bool{}
			for _, el := range v.Elts {
				kv, ok := el.(*ast.KeyValueExpr)
				if !ok {
					return apiVal{kind: "opaque"}
				}
				k := e.expr(kv.Key, env)
				if k.kind != "str" {
					e.errf(kv.Key, "method key of an API-set map is not a constant")
					return apiVal{kind: "opaque"}
				}
				if seen[k.s] {
					e.errf(kv.Key, "duplicate method key %s", k.s)
				}
				seen[k.s] = true
				lst, ok := kv.Value.(*ast.CompositeLit)
				if !ok {
					e.errf(kv.Value, "API-set list is not a literal")
					return apiVal{kind: "opaque"}
				}
				ms := apiMethodSets{Method: k.s, Sets: []string{}}
				for _, se := range lst.Elts {
					sv := e.expr(se, env)
					if sv.kind != "str" {
						e.errf(se, "API-set name is not a constant")
						return apiVal{kind: "opaque"}
					}
					ms.Sets = append(ms.Sets, sv.s)
				}
				out = append(out, ms)
			}
			sort.SliceStable(out, func(i, j int) bool { return out[i].Method < out[j].Method })
			return apiVal{kind: "sets", sets: out}
		}
	}
	return apiVal{kind: "opaque"}
}

// call unfolds a call of a registration closure.
func (e *apiEval) call(c *ast.CallExpr, env map[string]apiVal, dynamic bool, depth int, line int) {
	if depth == 0 {
		line = e.fset.Position(c.Pos()).Line
	}
	id, ok := c.Fun.(*ast.Ident)
	if !ok {
		return
	}
	cl := e.closures[id.Name]
	if cl == nil {
		return
	}
	if depth > 8 {
		e.errf(c, "registration closures nest too deeply")
		return
	}
	if len(c.Args) != len(cl.params) {
		e.errf(c, "call of %s with %d arguments, closure has %d parameters", id.Name, len(c.Args), len(cl.params))
		return
	}
	inner := map[string]apiVal{}
	for i, a := range c.Args {
		inner[cl.params[i]] = e.expr(a, env)
	}
	if id.Name == e.base {
		// (apiVersion, endpoint, handlerFunc, checkCSRF, checkHeaders)
		if len(cl.params) != 5 {
			e.errf(c, "%s no longer has 5 parameters", e.base)
			return
		}
		ver, ep, h, cs, hd := inner[cl.params[0]], inner[cl.params[1]], inner[cl.params[2]], inner[cl.params[3]], inner[cl.params[4]]
		r := apiRoute{Line: line, Dynamic: dynamic}
		if ver.kind != "str" || (ver.s != "v1" && ver.s != "v2") {
			e.errf(c, "API version of a registration is not the constant v1 or v2")
			return
		}
		r.Version = ver.s
		switch ep.kind {
		case "str":
			r.Path = ep.s
		case "pattern", "opaque":
			if !dynamic {
				e.errf(c, "endpoint path of a registration is not a constant")
				return
			}
			r.Path = "/<gui-file>"
		default:
			e.errf(c, "endpoint path of a registration is not a string")
			return
		}
		if cs.kind != "bool" {
			e.errf(c, "checkCSRF of a registration is not a constant")
			return
		}
		r.CSRF = cs.b
		switch {
		case hd.kind == "bool" && hd.b:
			r.Headers = "always"
		case hd.kind == "bool":
			r.Headers = "never"
		case hd.kind == "sym" && hd.s == "!c.disableHeaderCheck":
			r.Headers = "cfg"
		default:
			e.errf(c, "checkHeaders of a registration is neither a constant nor !c.disableHeaderCheck")
			return
		}
		// the handler value says whether forMethodAPISets was applied
		switch h.kind {
		case "guarded":
			if h.s != ver.s {
				e.errf(c, "forMethodAPISets was given API version %s for a %s registration", h.s, ver.s)
				return
			}
			r.HasSets = true
			r.Sets = h.sets
		default:
			r.HasSets = false
		}
		e.routes = append(e.routes, r)
		return
	}
	// an intermediate closure: [if sets != nil { handler = forMethodAPISets(v, handler, sets) }] ; call(...)
	for _, st := range cl.body.List {
		switch s := st.(type) {
		case *ast.IfStmt:
			// if <sets> != nil { <h> = forMethodAPISets(<v>, <h>, <sets>) }
			be, ok := s.Cond.(*ast.BinaryExpr)
			if !ok || be.Op != token.NEQ || s.Init != nil || s.Else != nil || len(s.Body.List) != 1 {
				e.errf(s, "unsupported statement in registration closure %s", id.Name)
				return
			}
			sv := e.expr(be.X, inner)
			if nv := e.expr(be.Y, inner); nv.kind != "nil" {
				e.errf(s, "unsupported condition in registration closure %s", id.Name)
				return
			}
			as, ok := s.Body.List[0].(*ast.AssignStmt)
			if !ok || len(as.Lhs) != 1 || len(as.Rhs) != 1 {
				e.errf(s, "unsupported statement in registration closure %s", id.Name)
				return
			}
			lhs, ok1 := as.Lhs[0].(*ast.Ident)
			ce, ok2 := as.Rhs[0].(*ast.CallExpr)
			if !ok1 || !ok2 {
				e.errf(s, "unsupported statement in registration closure %s", id.Name)
				return
			}
			fn, ok := ce.Fun.(*ast.Ident)
			if !ok || fn.Name != "forMethodAPISets" || len(ce.Args) != 3 {
				e.errf(s, "expected a forMethodAPISets wrapper in registration closure %s", id.Name)
				return
			}
			gv := e.expr(ce.Args[0], inner)
			if gv.kind != "str" {
				e.errf(s, "forMethodAPISets is not given a constant API version")
				return
			}
			if a1, ok := ce.Args[1].(*ast.Ident); !ok || a1.Name != lhs.Name {
				e.errf(s, "forMethodAPISets does not wrap the handler it replaces")
				return
			}
			wv := e.expr(ce.Args[2], inner)
			switch sv.kind {
			case "nil":
				// wrapper not applied
			case "sets":
				if wv.kind != "sets" {
					e.errf(s, "forMethodAPISets is not given the registration's API sets")
					return
				}
				inner[lhs.Name] = apiVal{kind: "guarded", s: gv.s, sets: wv.sets}
			default:
				e.errf(c, "API sets of a registration are neither nil nor a literal map")
				return
			}
		case *ast.ExprStmt:
			ce, ok := s.X.(*ast.CallExpr)
			if !ok {
				e.errf(s, "unsupported statement in registration closure %s", id.Name)
				return
			}
			if fn, ok := ce.Fun.(*ast.Ident); ok && e.closures[fn.Name] != nil {
				e.call(ce, inner, dynamic, depth+1, line)
			} else {
				e.errf(s, "unsupported call in registration closure %s", id.Name)
				return
			}
		default:
			e.errf(st, "unsupported statement in registration closure %s", id.Name)
			return
		}
	}
}

// containsMuxHandle reports whether the block calls mux.Handle / mux.HandleFunc.
func containsMuxHandle(n ast.Node) int {
	k := 0
	ast.Inspect(n, func(x ast.Node) bool {
		if c, ok := x.(*ast.CallExpr); ok {
			if sel, ok := c.Fun.(*ast.SelectorExpr); ok {
				if id, ok := sel.X.(*ast.Ident); ok && id.Name == "mux" && (sel.Sel.Name == "Handle" || sel.Sel.Name == "HandleFunc") {
					k++
				}
			}
		}
		return true
	})
	return k
}

func coqStr(s string) string { return "\"" + strings.ReplaceAll(s, "\"", "\"\"") + "\"%string" }

func coqSets(ms []apiMethodSets) string {
	var items []string
	for _, m := range ms {
		var ss []string
		for _, s := range m.Sets {
			ss = append(ss, coqStr(s))
		}
		items = append(items, fmt.Sprintf("(%s, [%s])", coqStr(m.Method), strings.Join(ss, "; ")))
	}
	return "[" + strings.Join(items, "; ") + "]"
}

func genApiTables(repo, out string) error {
	src := filepath.Join(repo, "src", "api", "http.go")
	fset := token.NewFileSet()
	e := &apiEval{fset: fset, consts: map[string]string{}, closures: map[string]*apiClosure{}}
	f, err := parser.ParseFile(fset, src, nil, 0)
	if err != nil {
		e.errs = append(e.errs, "parse: "+err.Error())
	}
	var mux *ast.FuncDecl
	if f != nil {
		for _, d := range f.Decls {
			switch x := d.(type) {
			case *ast.GenDecl:
				if x.Tok == token.CONST {
					for _, sp := range x.Specs {
						vs := sp.(*ast.ValueSpec)
						for i, n := range vs.Names {
							if i < len(vs.Values) {
								if bl, ok := vs.Values[i].(*ast.BasicLit); ok && bl.Kind == token.STRING {
									if s, err := strconv.Unquote(bl.Value); err == nil {
										e.consts[n.Name] = s
									}
								}
							}
						}
					}
				}
			case *ast.FuncDecl:
				if x.Name.Name == "newServerMux" && x.Recv == nil {
					mux = x
				}
			}
		}
	}
	if f != nil && mux == nil {
		e.errs = append(e.errs, "func newServerMux not found in src/api/http.go")
	}
	if mux != nil {
		// pass 1: local closures
		for _, st := range mux.Body.List {
			as, ok := st.(*ast.AssignStmt)
			if !ok || as.Tok != token.DEFINE || len(as.Lhs) != 1 || len(as.Rhs) != 1 {
				continue
			}
			fl, ok := as.Rhs[0].(*ast.FuncLit)
			id, ok2 := as.Lhs[0].(*ast.Ident)
			if !ok || !ok2 {
				continue
			}
			cl := &apiClosure{name: id.Name, body: fl.Body}
			for _, fld := range fl.Type.Params.List {
				for _, n := range fld.Names {
					cl.params = append(cl.params, n.Name)
				}
			}
			if containsMuxHandle(fl.Body) > 0 {
				if e.base != "" {
					e.errf(fl, "more than one closure calls mux.Handle")
				}
				e.base = id.Name
				e.closures[id.Name] = cl
			} else {
				e.closures[id.Name] = cl
			}
		}
		if e.base == "" {
			e.errs = append(e.errs, "no closure of newServerMux calls mux.Handle")
		}
		if n := containsMuxHandle(mux.Body); n != 1 {
			e.errs = append(e.errs, fmt.Sprintf("newServerMux contains %d mux.Handle calls, expected exactly one (inside %s)", n, e.base))
		}
		// keep only closures that (transitively) reach the base: a closure whose body
		// has a call statement to a registration closure
		reg := map[string]bool{e.base: true}
		for changed := true; changed; {
			changed = false
			for n, cl := range e.closures {
				if reg[n] {
					continue
				}
				ast.Inspect(cl.body, func(x ast.Node) bool {
					if es, ok := x.(*ast.ExprStmt); ok {
						if c, ok := es.X.(*ast.CallExpr); ok {
							if id, ok := c.Fun.(*ast.Ident); ok && reg[id.Name] {
								if !reg[n] {
									reg[n] = true
									changed = true
								}
							}
						}
					}
					return true
				})
			}
		}
		for n := range e.closures {
			if !reg[n] {
				delete(e.closures, n)
			}
		}
		// pass 2: registrations (top-level call statements; calls nested in if/for
		// blocks are the GUI's per-file registrations)
		for _, st := range mux.Body.List {
			switch s := st.(type) {
			case *ast.ExprStmt:
				if c, ok := s.X.(*ast.CallExpr); ok {
					e.call(c, map[string]apiVal{}, false, 0, 0)
				}
			case *ast.AssignStmt:
				// closure definitions were handled in pass 1
			default:
				ast.Inspect(st, func(x ast.Node) bool {
					if es, ok := x.(*ast.ExprStmt); ok {
						if c, ok := es.X.(*ast.CallExpr); ok {
							if id, ok := c.Fun.(*ast.Ident); ok && e.closures[id.Name] != nil {
								e.call(c, map[string]apiVal{}, true, 0, 0)
							}
						}
					}
					return true
				})
			}
		}
		if len(e.routes) == 0 && len(e.errs) == 0 {
			e.errs = append(e.errs, "no route registration found in newServerMux")
		}
	}

	var b strings.Builder
	b.WriteString("(* GENERATED by /verif/translator (tables_api.go) from /repo/src/api/http.go newServerMux — do not edit. *)\n")
	b.WriteString("From Coq Require Import String List ZArith.\nImport ListNotations.\n\n")
	b.WriteString("(* (path, (is_v2, (checkCSRF, (checkHeaders: 0 never / 1 always / 2 unless DisableHeaderCheck,\n    None = registered without forMethodAPISets | Some [(method, [API sets])])))) *)\n")
	b.WriteString("Definition raw_route : Type := (string * (bool * (bool * (Z * option (list (string * list string))))))%type.\n\n")
	emit := func(name string, dyn bool) {
		var items []string
		for _, r := range e.routes {
			if r.Dynamic != dyn {
				continue
			}
			hd := map[string]string{"never": "0%Z", "always": "1%Z", "cfg": "2%Z"}[r.Headers]
			sets := "None"
			if r.HasSets {
				sets = "Some " + coqSets(r.Sets)
			}
			items = append(items, fmt.Sprintf("(%s, (%v, (%v, (%s, %s))))", coqStr(r.Path), r.Version == "v2", r.CSRF, hd, sets))
		}
		if len(e.errs) > 0 {
			items = nil
		}
		fmt.Fprintf(&b, "Definition %s : list raw_route :=\n  [%s].\n\n", name, strings.Join(items, ";\n   "))
	}
	emit("routes_raw", false)
	emit("gui_file_routes_raw", true)
	if len(e.errs) > 0 {
		fmt.Fprintf(&b, "Definition routes_translation_error : option string := Some %s.\n", coqStr(strings.Join(e.errs, " | ")))
	} else {
		b.WriteString("Definition routes_translation_error : option string := None.\n")
	}
	if ch, err := writeIfChanged(filepath.Join(out, "Routes.v"), []byte(b.String())); err != nil {
		return err
	} else if ch {
		fmt.Println("regenerated Routes.v")
	}
	js := map[string]interface{}{"routes": e.routes, "errors": e.errs, "source": "src/api/http.go"}
	if len(e.errs) > 0 {
		js["routes"] = []apiRoute{}
	}
	data, _ := json.MarshalIndent(js, "", " ")
	if _, err := writeIfChanged(filepath.Join(out, "Routes.json"), data); err != nil {
		return err
	}
	return nil
}
