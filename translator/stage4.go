// stage4.go — fourth stage of the function translator: fixed-size arrays of
// integers held in a struct (secp256k1 `Field{ n [10]uint32 }`, unit
// FieldLimbs) or passed as a byte slice of configured length.
//
//   - An ARRAY ROOT is a pointer/value parameter whose type is a struct with
//     exactly one field, a fixed array of integers (or a []byte parameter whose
//     length is configured in arrayParams). Its cells are scalar variables
//     `<root>_<field><i>`; `fd.n[i]` with a compile-time constant index reads the
//     variable, `fd.n[i] = e` / `op=` re-binds it (only in straight-line code:
//     the function's top-level statements and the bodies of unrolled loops).
//     A root some cell of which is read before being written is an INPUT (all
//     its cells are parameters, in index order, at the parameter's position); a
//     root that is written is an OUTPUT: the function returns its Go results
//     followed by all cells of every written root, in parameter order (a
//     pointer receiver that is modified = the function returns the new value).
//   - bit operators on unsigned integers: & | ^ are Z.land / Z.lor / Z.lxor,
//     x >> k is Z.shiftr x k, x << k is wrap w (Z.shiftl x k) (Go: bits shifted
//     out of the width are lost; a count >= width gives 0, as here).
//   - `for cond { body }` is a FUELLED loop: Fixpoint on a fuel counter taken
//     from the unit's constant `while_fuel`; running out of fuel is `Panic`
//     (not a Go panic — the theorems about the function prove that the result is
//     a `Val`, i.e. that the fuel suffices under their premises).
//   - counted loops `for i := c0; i < c1; i++` with constant bounds whose body
//     touches array cells are UNROLLED, with constant propagation for the
//     variables assigned compile-time constants (so that `limb := (8*i+2*j)/26;
//     fd.n[limb] |= v` has a constant index in every copy).
package main

import (
	"fmt"
	"go/ast"
	"go/constant"
	"go/token"
	"go/types"
	"strings"
)

type arrRoot struct {
	name    string
	field   string // "" for a slice parameter
	n       int
	read    bool // some cell read (or returned) before being written
	written map[int]bool
	goTy    string
}

type arrPlan struct{ in, out bool }

// byte-slice parameters of fixed length (the callers pass 32-byte buffers; Go
// would panic on a shorter one)
var arrayParams = map[string]map[string]int{
	"src/cipher/secp256k1-go/secp256k1-go2.Field.SetB32": {"a": 32},
	"src/cipher/secp256k1-go/secp256k1-go2.Field.GetB32": {"r": 32},
}

const fieldLimbsPreamble = `(* Conventions of this unit (translator/stage4.go).
   A Field (struct{ n [10]uint32 }) is its ten limbs fd_n0 .. fd_n9; a method with
   a pointer receiver that it modifies RETURNS the new limbs (after its Go results).
   A 32-byte slice is its 32 bytes a_0 .. a_31.
   while_fuel: iterations allowed to a 'for cond { }' loop; running out of fuel
   is Panic — the correctness theorems show it never happens. *)
Definition while_fuel : nat := 8%nat.

`

// arrStruct: struct{ f [N]intT }
func arrStruct(ty types.Type) (string, int, bool) {
	if p, ok := ty.(*types.Pointer); ok {
		ty = p.Elem()
	}
	st, ok := ty.Underlying().(*types.Struct)
	if !ok || st.NumFields() != 1 {
		return "", 0, false
	}
	arr, ok := st.Field(0).Type().Underlying().(*types.Array)
	if !ok {
		return "", 0, false
	}
	if _, _, ok := intInfo(arr.Elem()); !ok {
		return "", 0, false
	}
	return st.Field(0).Name(), int(arr.Len()), true
}

func (t *tr) addArrRoot(name, field string, n int, ty types.Type) {
	t.arrRoots[name] = &arrRoot{name: name, field: field, n: n, written: map[int]bool{}, goTy: types.TypeString(ty, func(p *types.Package) string { return p.Name() })}
	t.arrOrder = append(t.arrOrder, name)
}

func (a *arrRoot) cell(i int) string { return fmt.Sprintf("%s_%s%d", a.name, a.field, i) }

func (a *arrRoot) cells() []string {
	out := make([]string, a.n)
	for i := range out {
		out[i] = a.cell(i)
	}
	return out
}

// cellOf: root.f[const] or root[const]
func (t *tr) cellOf(e ast.Expr) (*arrRoot, int, bool) {
	ix, ok := e.(*ast.IndexExpr)
	if !ok || len(t.arrRoots) == 0 {
		return nil, 0, false
	}
	var ar *arrRoot
	switch x := ix.X.(type) {
	case *ast.SelectorExpr:
		id, ok := x.X.(*ast.Ident)
		if !ok {
			return nil, 0, false
		}
		ar = t.arrRoots[id.Name]
		if ar == nil || ar.field != x.Sel.Name {
			return nil, 0, false
		}
	case *ast.Ident:
		ar = t.arrRoots[x.Name]
		if ar == nil || ar.field != "" {
			return nil, 0, false
		}
	default:
		return nil, 0, false
	}
	v, ok := t.constEval(ix.Index)
	if !ok {
		fail(t.fset, e, "array index is not a compile-time constant")
	}
	if v < 0 || int(v) >= ar.n {
		fail(t.fset, e, "array index %d out of range", v)
	}
	return ar, int(v), true
}

func (t *tr) cellRead(e ast.Expr) (ex, bool) {
	ar, i, ok := t.cellOf(e)
	if !ok {
		return ex{}, false
	}
	if !ar.written[i] {
		ar.read = true
	}
	if t.loop != nil {
		t.loop.use(ar.cell(i), "Z")
	}
	return pure(ar.cell(i)), true
}

// cellWrite: name of the cell assigned by a top-level statement
func (t *tr) cellWrite(x *ast.AssignStmt) (string, bool) {
	if len(x.Lhs) != 1 {
		return "", false
	}
	ar, i, ok := t.cellOf(x.Lhs[0])
	if !ok {
		return "", false
	}
	if !t.straight[x] || t.loop != nil {
		fail(t.fset, x, "array cell assigned outside straight-line code")
	}
	_ = ar
	_ = i
	return ar.cell(i), true
}

func (t *tr) markWritten(x *ast.AssignStmt) {
	if ar, i, ok := t.cellOf(x.Lhs[0]); ok {
		ar.written[i] = true
	}
}

// straightStmts: top-level statements and, recursively, bodies of unrollable loops
func (t *tr) straightStmts(list []ast.Stmt) {
	for _, s := range list {
		t.straight[s] = true
		if f, ok := s.(*ast.ForStmt); ok && f.Init != nil && f.Post != nil {
			t.straightStmts(f.Body.List)
		}
	}
}

// outCells: the cells of the written roots, as returned by the function
func (t *tr) outCells(at ast.Node) []string {
	for _, name := range t.arrOrder {
		ar := t.arrRoots[name]
		if t.arrPlan == nil || !t.arrPlan[name].out {
			continue
		}
		for i := 0; i < ar.n; i++ {
			if !ar.written[i] {
				ar.read = true // an early return: returned as it came in
			}
		}
	}
	return t.outCellNames()
}

// outCellNames: the same, without recording anything (types, the final fall-through)
func (t *tr) outCellNames() []string {
	var out []string
	for _, name := range t.arrOrder {
		if t.arrPlan != nil && t.arrPlan[name].out {
			out = append(out, t.arrRoots[name].cells()...)
		}
	}
	return out
}

func (t *tr) hasOuts() bool {
	for _, p := range t.arrPlan {
		if p.out {
			return true
		}
	}
	return false
}

// ---- compile-time constants (for unrolled loops)

func wrapConst(v int64, ty types.Type) (int64, bool) {
	bits, signed, ok := intInfo(ty)
	if !ok {
		return 0, false
	}
	if signed {
		if bits < 64 && (v < -(1<<(uint(bits)-1)) || v >= 1<<(uint(bits)-1)) {
			return 0, false
		}
		return v, true
	}
	if v < 0 {
		return 0, false
	}
	if bits < 63 {
		v &= (1 << uint(bits)) - 1
	}
	return v, true
}

func (t *tr) constEval(e ast.Expr) (int64, bool) {
	if tv, ok := t.info.Types[e]; ok && tv.Value != nil {
		if tv.Value.Kind() == constant.Int {
			return constant.Int64Val(tv.Value)
		}
		return 0, false
	}
	if len(t.consts) == 0 {
		return 0, false
	}
	const lim = int64(1) << 40
	switch x := e.(type) {
	case *ast.ParenExpr:
		return t.constEval(x.X)
	case *ast.Ident:
		v, ok := t.consts[x.Name]
		return v, ok
	case *ast.CallExpr:
		if tv, ok := t.info.Types[x.Fun]; ok && tv.IsType() && len(x.Args) == 1 {
			v, ok := t.constEval(x.Args[0])
			if !ok {
				return 0, false
			}
			return wrapConst(v, tv.Type)
		}
	case *ast.BinaryExpr:
		a, ok1 := t.constEval(x.X)
		b, ok2 := t.constEval(x.Y)
		if !ok1 || !ok2 || a < 0 || b < 0 || a > lim || b > lim {
			return 0, false
		}
		var r int64
		switch x.Op {
		case token.ADD:
			r = a + b
		case token.SUB:
			r = a - b
		case token.MUL:
			r = a * b
		case token.QUO:
			if b == 0 {
				return 0, false
			}
			r = a / b
		case token.REM:
			if b == 0 {
				return 0, false
			}
			r = a % b
		default:
			return 0, false
		}
		if r < 0 || r > lim {
			return 0, false
		}
		return wrapConst(r, t.info.TypeOf(x))
	}
	return 0, false
}

// noteAssign keeps the constant environment in step with an assignment to `name`
func (t *tr) noteAssign(name string, rhs ast.Expr) {
	if t.consts == nil {
		return
	}
	if rhs != nil {
		if v, ok := t.constEval(rhs); ok {
			t.consts[name] = v
			return
		}
	}
	delete(t.consts, name)
}

func (t *tr) forgetAssigned(n ast.Node) {
	if len(t.consts) == 0 {
		return
	}
	for _, v := range t.assigned(n) {
		delete(t.consts, v)
	}
}

// ---- unrolled counted loops

func (t *tr) touchesCells(n ast.Node) bool {
	found := false
	ast.Inspect(n, func(m ast.Node) bool {
		if ix, ok := m.(*ast.IndexExpr); ok {
			switch x := ix.X.(type) {
			case *ast.SelectorExpr:
				if id, ok := x.X.(*ast.Ident); ok && t.arrRoots[id.Name] != nil {
					found = true
				}
			case *ast.Ident:
				if t.arrRoots[x.Name] != nil {
					found = true
				}
			}
		}
		return !found
	})
	return found
}

func (t *tr) unrollFor(x *ast.ForStmt, k func() string) (string, bool) {
	if len(t.arrRoots) == 0 || x.Init == nil || x.Cond == nil || x.Post == nil || !t.touchesCells(x.Body) {
		return "", false
	}
	init, ok := x.Init.(*ast.AssignStmt)
	if !ok || len(init.Lhs) != 1 || len(init.Rhs) != 1 || (init.Tok != token.DEFINE && init.Tok != token.ASSIGN) {
		fail(t.fset, x, "unrolled loop: init")
	}
	iv, ok := init.Lhs[0].(*ast.Ident)
	if !ok {
		fail(t.fset, x, "unrolled loop: loop variable")
	}
	if t.consts == nil {
		t.consts = map[string]int64{}
	}
	lo, ok := t.constEval(init.Rhs[0])
	cond, ok2 := x.Cond.(*ast.BinaryExpr)
	if !ok || !ok2 || cond.Op != token.LSS {
		fail(t.fset, x, "unrolled loop: bounds must be compile-time constants, condition i < c")
	}
	if id, ok := cond.X.(*ast.Ident); !ok || id.Name != iv.Name {
		fail(t.fset, x, "unrolled loop: condition must test the loop variable")
	}
	hi, ok := t.constEval(cond.Y)
	post, ok3 := x.Post.(*ast.IncDecStmt)
	if !ok || !ok3 || post.Tok != token.INC {
		fail(t.fset, x, "unrolled loop: post must be i++")
	}
	if id, ok := post.X.(*ast.Ident); !ok || id.Name != iv.Name {
		fail(t.fset, x, "unrolled loop: post must increment the loop variable")
	}
	if hi-lo > 4096 {
		fail(t.fset, x, "unrolled loop: too many iterations")
	}
	if !t.straight[x] || t.loop != nil {
		fail(t.fset, x, "unrolled loop outside straight-line code")
	}
	t.noJumps(x.Body, "counted loop")
	if containsReturn(x.Body) {
		fail(t.fset, x, "unrolled loop with return")
	}
	for _, v := range t.assigned(x.Body) {
		if v == san(iv.Name) {
			fail(t.fset, x, "loop variable assigned in body")
		}
	}
	t.unrollN++
	myN := t.unrollN
	mk := func(n int64) string { return fmt.Sprintf("\x00U%d_%d\x00", myN, n) }
	result := mk(lo)
	for v := lo; v < hi; v++ {
		t.consts[iv.Name] = v
		c := t.stmts(x.Body.List, mk(v+1))
		result = strings.ReplaceAll(result, mk(v), c)
	}
	if lo < hi {
		t.consts[iv.Name] = hi
	} else {
		t.consts[iv.Name] = lo
	}
	return strings.ReplaceAll(result, mk(max64(lo, hi)), k()), true
}

func max64(a, b int64) int64 {
	if a > b {
		return a
	}
	return b
}

// ---- fuelled `for cond { }`

type whileMemo struct {
	hname, fvArgs string
	accNames      []string
}

func (t *tr) whileStmt(x *ast.ForStmt, k func() string) string {
	if t.loop != nil {
		fail(t.fset, x, "nested loop")
	}
	if m, ok := t.whileMemos[x]; ok {
		call := m.hname + " while_fuel " + t.kfun(m.accNames, k) + m.fvArgs
		if len(m.accNames) > 0 {
			call += " " + strings.Join(m.accNames, " ")
		}
		return call
	}
	t.noJumps(x.Body, "range loop")
	if t.touchesCellWrite(x.Body) {
		fail(t.fset, x, "array cell assigned in a loop")
	}
	accs := t.assignedVars(x.Body)
	accNames, accTys := []string{}, []string{}
	isAcc := map[string]bool{}
	for _, v := range accs {
		if v.Parent() == v.Pkg().Scope() {
			fail(t.fset, x, "package-level variable %s assigned in a loop", v.Name())
		}
		accNames = append(accNames, san(v.Name()))
		accTys = append(accTys, t.coqType(v.Type(), x))
		isAcc[san(v.Name())] = true
		delete(t.consts, san(v.Name()))
	}
	t.nloops++
	hname := fmt.Sprintf("%s_while%d", t.fnName, t.nloops)
	lc := &loopCtx{pos: x.Body.Pos(), end: x.Body.End(), types_: map[string]string{}}
	lc.breakCode = "k_"
	if len(accNames) > 0 {
		lc.breakCode += " " + strings.Join(accNames, " ")
	}
	t.loop = lc
	cond := t.expr(x.Cond)
	if cond.mon {
		fail(t.fset, x, "panicking loop condition")
	}
	const fvMark = "\x00FV\x00"
	rec := hname + " fuel_ k_" + fvMark
	if len(accNames) > 0 {
		rec += " " + strings.Join(accNames, " ")
	}
	body := t.stmts(x.Body.List, rec)
	t.loop = nil
	fvNames, fvTys := []string{}, []string{}
	for _, n := range lc.names {
		if isAcc[n] {
			continue
		}
		fvNames = append(fvNames, n)
		fvTys = append(fvTys, lc.types_[n])
	}
	outer := map[string]bool{}
	for _, n := range append(append([]string{}, accNames...), fvNames...) {
		outer[n] = true
	}
	ast.Inspect(x.Body, func(m ast.Node) bool {
		if id, ok := m.(*ast.Ident); ok && id.Name != "_" {
			if obj := t.info.Defs[id]; obj != nil && outer[san(id.Name)] {
				fail(t.fset, id, "%s declared inside the loop shadows an outer variable the loop uses", id.Name)
			}
		}
		return true
	})
	fvArgs := ""
	if len(fvNames) > 0 {
		fvArgs = " " + strings.Join(fvNames, " ")
	}
	body = strings.ReplaceAll(body, fvMark, fvArgs)
	resTy := t.resCoqType(x)
	kTy := resTy
	if len(accTys) > 0 {
		kTy = strings.Join(accTys, " -> ") + " -> " + resTy
	}
	var h strings.Builder
	fmt.Fprintf(&h, "(* loop %d of %s (%s): `for %s { .. }`, fuelled; k_ is the code after the loop,\n   %s the variables assigned in the body; fuel exhausted = Panic (never, by the theorems) *)\n",
		t.nloops, t.fnName, posShort(t.fset, x.Pos()), exprString(t.fset, x.Cond), strings.Join(accNames, " "))
	fmt.Fprintf(&h, "Fixpoint %s (fuel_ : nat) (k_ : %s)%s%s {struct fuel_} : %s :=\n", hname, kTy, typedBinders(fvNames, fvTys), typedBinders(accNames, accTys), resTy)
	fmt.Fprintf(&h, "  if %s then\n    match fuel_ with\n    | O => Panic\n    | S fuel_ =>\n      %s\n    end\n  else %s.\n\n", cond.code, indent(body, "      "), lc.breakCode)
	t.helpers = append(t.helpers, h.String())
	t.whileMemos[x] = whileMemo{hname: hname, fvArgs: fvArgs, accNames: accNames}
	call := hname + " while_fuel " + t.kfun(accNames, k) + fvArgs
	if len(accNames) > 0 {
		call += " " + strings.Join(accNames, " ")
	}
	return call
}

func posShort(fset *token.FileSet, p token.Pos) string {
	s := fset.Position(p).String()
	return s[strings.LastIndex(s, "/")+1:]
}

func (t *tr) touchesCellWrite(n ast.Node) bool {
	found := false
	ast.Inspect(n, func(m ast.Node) bool {
		if as, ok := m.(*ast.AssignStmt); ok && len(as.Lhs) == 1 {
			if _, ok := as.Lhs[0].(*ast.IndexExpr); ok {
				found = true
			}
		}
		return !found
	})
	return found
}

// bitOp: & | ^ << >> on unsigned integers
func (t *tr) bitOp(x *ast.BinaryExpr, a, b ex) (ex, bool) {
	switch x.Op {
	case token.AND, token.OR, token.XOR, token.SHL, token.SHR:
	default:
		return ex{}, false
	}
	bits, signed, ok := intInfo(t.info.TypeOf(x))
	if !ok || signed {
		fail(t.fset, x, "bit operator %s on a signed or non-integer type", x.Op)
	}
	if t.info.Types[x.Y].Value == nil {
		if _, s, ok := intInfo(t.info.TypeOf(x.Y)); !ok || s {
			fail(t.fset, x, "bit operator %s with a signed variable operand", x.Op)
		}
	}
	var f func(p, q string) string
	switch x.Op {
	case token.AND:
		f = func(p, q string) string { return fmt.Sprintf("Z.land (%s) (%s)", p, q) }
	case token.OR:
		f = func(p, q string) string { return fmt.Sprintf("Z.lor (%s) (%s)", p, q) }
	case token.XOR:
		f = func(p, q string) string { return fmt.Sprintf("Z.lxor (%s) (%s)", p, q) }
	case token.SHR:
		f = func(p, q string) string { return fmt.Sprintf("Z.shiftr (%s) (%s)", p, q) }
	case token.SHL:
		f = func(p, q string) string { return fmt.Sprintf("wrap %d (Z.shiftl (%s) (%s))", bits, p, q) }
	}
	return lift2(a, b, f, t), true
}

func isByte(ty types.Type) bool {
	b, ok := ty.Underlying().(*types.Basic)
	return ok && (b.Kind() == types.Uint8 || b.Kind() == types.Byte)
}
