// stage3.go — third stage of the function translator: message truncation
// (src/daemon/messages.go, unit MsgTruncate) and the header checks of
// Blockchain.verifyBlockHeader (src/visor/blockchain.go, unit HeaderChecks).
//
// What is added, each for exactly the shape named (anything else is still a
// TRANSLATION-BREAK):
//
//   - `break` directly inside a range loop (no label; nested loops / switch are
//     rejected anyway): leave the loop with the current values of the variables
//     it assigns, i.e. the loop's continuation `k_ a1 a2 ..`.
//   - `logger.Panic(..)` / `Panicf` / `Fatal..` of a logging package is `Panic`
//     (it was erased as a log call before; no translated unit contained one).
//   - length-only slices: a slice whose elements are not structs (hashes,
//     bytes, integers) and are never read is represented by its LENGTH (Z):
//     `len(X)` is X, `X[:n]` is `slice_to n X` (Panic unless 0 <= n <= len; the
//     capacity is taken to be the length), returning X returns its length;
//     `len(X[0])` on a slice of arrays is the constant go/types computes.
//   - truncating procedures: a function without results whose only effect is
//     ONE top-level statement `p.F = p.F[:e]` on a slice field of a pointer
//     parameter returns the NUMBER OF ELEMENTS KEPT: the length of p.F at an
//     early `return`, `slice_to e (len p.F)` after the statement.
//   - configured per function (fnConfigs): `f(&x)` / `x.M()` on the loop
//     element with f / M untranslated is DATA of the element (opaque);
//     `m.EncodeSize()` on a message parameter with one slice field is
//     `msg_encode_size emptySize sizes` (slice of structs: sizes = the list of
//     the elements' opaque sizes) or `msg_encode_size_n emptySize N count`
//     (slice of [N]byte), and on a zero-valued local `var mm T` it is the
//     parameter `emptySize` — i.e. EncodeSize(m) = EncodeSize(empty) + the sum of
//     the items' sizes, which is how the generated encodeSize* functions are
//     built (validated by the harness on every run);
//     `x, err := recv.Call(args)` with Call configured as an INPUT: x becomes a
//     struct whose integer fields are parameters, err the parameter `x_err`.
//   - `a == b` / `a != b` on array-typed values (hashes) is a boolean
//     parameter `eq_<a>__<b>` (operands: field paths and argument-less method
//     calls on them): hashes are data, their comparison is an input.
package main

import (
	"bytes"
	"fmt"
	"go/ast"
	"go/printer"
	"go/token"
	"go/types"
)

type fnConfig struct {
	SizeMethod string          // method modelled as emptySize + sum of item sizes
	InputCalls map[string]bool // calls whose results are inputs of the translated function
}

var fnConfigs = map[string]fnConfig{
	"src/daemon..truncateGivePeersMessage":   {SizeMethod: "EncodeSize"},
	"src/daemon..truncateGiveBlocksMessage":  {SizeMethod: "EncodeSize"},
	"src/daemon..truncateGiveTxnsMessage":    {SizeMethod: "EncodeSize"},
	"src/daemon..truncateAnnounceTxnsHashes": {SizeMethod: "EncodeSize"},
	"src/daemon..truncateGetTxnsHashes":      {SizeMethod: "EncodeSize"},
	"src/visor.Blockchain.verifyBlockHeader": {InputCalls: map[string]bool{"Head": true}},
}

func init() {
	opaqueMethods["src/daemon..truncateGivePeersMessage"] = map[string]bool{"encodeSizeIPAddr": true}
	opaqueMethods["src/daemon..truncateGiveBlocksMessage"] = map[string]bool{"encodeSizeSignedBlock": true}
	opaqueMethods["src/daemon..truncateGiveTxnsMessage"] = map[string]bool{"encodeSizeTransaction": true}
}

// preamble of the MsgTruncate unit: the modelling conventions as definitions
const msgTruncatePreamble = `(* Conventions of this unit (translator/stage3.go).
   A slice of hashes is represented by its LENGTH; a slice of structs by the
   list of the encoded sizes of its items (what encodeSizeIPAddr /
   encodeSizeSignedBlock / encodeSizeTransaction return).
   msg_encode_size emptySize sizes  =  m.EncodeSize() of a message whose items
   have these sizes: the size of the empty message plus the sum (uint64
   arithmetic) — the structure of the generated encodeSize*Message functions,
   compared with the real EncodeSize() on every run.
   slice_to n len  =  X[:n] on a slice of length (= capacity) len.
   A truncate function returns the NUMBER OF ITEMS KEPT. *)
Fixpoint sum64_sizes (xs : list Z) : Z :=
  match xs with [] => 0 | x :: r => wrap 64 (x + sum64_sizes r) end.
Definition msg_encode_size (emptySize : Z) (sizes : list Z) : Z := wrap 64 (emptySize + sum64_sizes sizes).
Definition msg_encode_size_n (emptySize elemSize count : Z) : Z := wrap 64 (emptySize + wrap 64 (elemSize * count)).
Definition slice_to (n len : Z) : res Z := if (0 <=? n) && (n <=? len) then Val n else Panic.

`

func lenOnlySlice(ty types.Type) bool {
	if ty == nil {
		return false
	}
	sl, ok := ty.Underlying().(*types.Slice)
	if !ok {
		return false
	}
	switch e := sl.Elem().Underlying().(type) {
	case *types.Basic:
		return true
	case *types.Array:
		_, ok := e.Elem().Underlying().(*types.Basic)
		return ok
	}
	return false
}

var logPanicNames = map[string]bool{"Panic": true, "Panicf": true, "Panicln": true, "Fatal": true, "Fatalf": true, "Fatalln": true}

// isLogPanic: logger.Panic(..) and friends
func isLogPanic(c *ast.CallExpr, info *types.Info) bool {
	sel, ok := c.Fun.(*ast.SelectorExpr)
	return ok && logPanicNames[sel.Sel.Name] && isLogCall(c, info)
}

// extra input parameters (emptySize, x_err, eq_..): first, in order of first use
func (t *tr) extraParam(name, ty, doc string) string {
	for _, p := range t.extras {
		if p.Name == name {
			return name
		}
	}
	t.extras = append(t.extras, paramInfo{Name: name, Type: ty, Extra: true, Doc: doc})
	if t.loop != nil {
		t.loop.use(name, ty)
	}
	return name
}

func (t *tr) useExtraInLoop(name string) {
	if t.loop == nil {
		return
	}
	for _, p := range t.extras {
		if p.Name == name {
			t.loop.use(name, p.Type)
		}
	}
}

func exprString(fset *token.FileSet, e ast.Expr) string {
	var b bytes.Buffer
	printer.Fprint(&b, fset, e)
	return b.String()
}

// ---- truncating procedures

// findTruncStmt: the single top-level `p.F = p.F[:e]` of a function without results
func (t *tr) findTruncStmt(fd *ast.FuncDecl) *ast.AssignStmt {
	if fd.Type.Results != nil && len(fd.Type.Results.List) > 0 {
		return nil
	}
	var found *ast.AssignStmt
	for _, s := range fd.Body.List {
		as, ok := s.(*ast.AssignStmt)
		if !ok || as.Tok != token.ASSIGN || len(as.Lhs) != 1 || len(as.Rhs) != 1 {
			continue
		}
		se, ok := as.Rhs[0].(*ast.SliceExpr)
		if !ok || se.Low != nil || se.High == nil || se.Max != nil {
			continue
		}
		if _, ok := as.Lhs[0].(*ast.SelectorExpr); !ok {
			continue
		}
		if exprString(t.fset, as.Lhs[0]) != exprString(t.fset, se.X) {
			continue
		}
		if _, ok := sliceOfStruct(t.info.TypeOf(se.X)); !ok {
			continue
		}
		if found != nil {
			fail(t.fset, as, "two truncating assignments")
		}
		found = as
	}
	return found
}

// keptCode: what a return means in a truncating procedure
func (t *tr) keptCode(at ast.Node) string {
	if t.keptName != "" {
		return t.keptName
	}
	sn, ok := t.slicePath(t.truncStmt.Lhs[0], true)
	if !ok {
		fail(t.fset, at, "truncated field is not a slice field of a parameter")
	}
	if t.loop != nil {
		fail(t.fset, at, "return inside a loop of a truncating procedure")
	}
	return "(Z.of_nat (List.length " + sn + "))"
}

func (t *tr) truncAssign(x *ast.AssignStmt, k func() string) string {
	if t.loop != nil {
		fail(t.fset, x, "truncating assignment inside a loop")
	}
	se := x.Rhs[0].(*ast.SliceExpr)
	sn, ok := t.slicePath(se.X, true)
	if !ok {
		fail(t.fset, x, "truncated field is not a slice field of a parameter")
	}
	hi := t.expr(se.High)
	if hi.mon {
		fail(t.fset, x, "panicking slice bound")
	}
	// the kept count is in scope only in the code AFTER the statement (the
	// continuation of an earlier `if .. { return }` is translated before its body)
	old := t.keptName
	t.keptName = sn + "_kept"
	t.keptFinal = t.keptName
	rest := k()
	t.keptName = old
	return fmt.Sprintf("bind (slice_to (%s) (Z.of_nat (List.length %s))) (fun %s =>\n%s)", hi.code, sn, t.keptFinal, rest)
}

// ---- whole-message size

func (t *tr) sizeModelCall(c *ast.CallExpr, fn *types.Func) (ex, bool) {
	if t.cfg.SizeMethod == "" || fn.Name() != t.cfg.SizeMethod || len(c.Args) != 0 {
		return ex{}, false
	}
	sel, ok := c.Fun.(*ast.SelectorExpr)
	if !ok {
		return ex{}, false
	}
	id, ok := sel.X.(*ast.Ident)
	if !ok {
		return ex{}, false
	}
	doc := "what " + t.cfg.SizeMethod + "() returns for the zero value of the message type (the empty message)"
	if t.zeroLocals[id.Name] {
		return pure(t.extraParam("emptySize", "Z", doc)), true
	}
	if !t.roots[id.Name] {
		return ex{}, false
	}
	st := t.rootTy[id.Name]
	var fld *types.Var
	for i := 0; i < st.NumFields(); i++ {
		if _, ok := st.Field(i).Type().Underlying().(*types.Slice); ok {
			if fld != nil {
				fail(t.fset, c, "%s() on a type with two slice fields", fn.Name())
			}
			fld = st.Field(i)
		}
	}
	if fld == nil {
		fail(t.fset, c, "%s() on a type without a slice field", fn.Name())
	}
	es := t.extraParam("emptySize", "Z", doc)
	if est, ok := sliceOfStruct(fld.Type()); ok {
		name := flat(id.Name, []string{fld.Name()})
		t.regSlice(name, id.Name, []string{fld.Name()}, est, fld.Type())
		t.sizeModelSlice[name] = true
		if t.loop != nil {
			t.loop.use(name, t.sliceCoqType(name))
		}
		return pure(fmt.Sprintf("msg_encode_size %s %s", es, name)), true
	}
	if lenOnlySlice(fld.Type()) {
		arr, ok := fld.Type().Underlying().(*types.Slice).Elem().Underlying().(*types.Array)
		if !ok {
			fail(t.fset, c, "%s(): items of %s are not fixed-size arrays", fn.Name(), fld.Name())
		}
		if b, ok := arr.Elem().Underlying().(*types.Basic); !ok || (b.Kind() != types.Uint8 && b.Kind() != types.Byte) {
			fail(t.fset, c, "%s(): items of %s are not byte arrays", fn.Name(), fld.Name())
		}
		cnt := t.usePath(id.Name, []string{fld.Name()}, c)
		return pure(fmt.Sprintf("msg_encode_size_n %s %d %s", es, arr.Len(), cnt)), true
	}
	fail(t.fset, c, "%s() on a message whose items are neither structs nor byte arrays", fn.Name())
	return ex{}, false
}

// checkSizeModel: the list handed to msg_encode_size must be exactly the list of item sizes
func (t *tr) checkSizeModel(fd *ast.FuncDecl) {
	if t.proj == nil {
		return
	}
	for sn := range t.sizeModelSlice {
		p := t.proj[sn]
		if len(p) != 1 || !isOpaqueField(p[0]) || projFieldType(p[0]) != "Z" {
			fail(t.fset, fd, "size model: the elements of %s must be exactly one opaque size", sn)
		}
	}
}

// ---- opaque input calls:  x, err := recv.Call(args)

func (t *tr) inputAssign(x *ast.AssignStmt, k func() string) (string, bool) {
	if len(x.Rhs) != 1 || x.Tok != token.DEFINE || len(t.cfg.InputCalls) == 0 {
		return "", false
	}
	c, ok := x.Rhs[0].(*ast.CallExpr)
	if !ok {
		return "", false
	}
	sel, ok := c.Fun.(*ast.SelectorExpr)
	if !ok || !t.cfg.InputCalls[sel.Sel.Name] {
		return "", false
	}
	if t.loop != nil {
		fail(t.fset, x, "input call inside a loop")
	}
	first := ""
	out := ""
	for _, l := range x.Lhs {
		id, ok := l.(*ast.Ident)
		if !ok {
			fail(t.fset, x, "input call assigned to a non-identifier")
		}
		if id.Name == "_" {
			continue
		}
		ty := t.info.TypeOf(id)
		if p, ok := ty.(*types.Pointer); ok {
			ty = p.Elem()
		}
		if st, ok := ty.Underlying().(*types.Struct); ok {
			if t.roots[id.Name] {
				fail(t.fset, x, "input %s declared twice", id.Name)
			}
			t.roots[id.Name] = true
			t.rootTy[id.Name] = st
			t.inputRoots[id.Name] = exprString(t.fset, c)
			if first == "" {
				first = id.Name
			}
			continue
		}
		if t.isErrorType(ty) {
			if first == "" {
				first = sel.Sel.Name
			}
			p := t.extraParam(first+"_err", "error", "the error returned by "+exprString(t.fset, c))
			out += fmt.Sprintf("let %s := %s in\n", san(id.Name), p)
			continue
		}
		fail(t.fset, x, "input call result %s of unsupported type %v", id.Name, ty)
	}
	return out + k(), true
}

// ---- equality of array-typed values (hashes) as boolean inputs

func isArrayType(ty types.Type) bool {
	if ty == nil {
		return false
	}
	_, ok := ty.Underlying().(*types.Array)
	return ok
}

// dataOperand: a field path, or an argument-less method call on one
func (t *tr) dataOperand(e ast.Expr) (string, bool) {
	switch x := e.(type) {
	case *ast.ParenExpr:
		return t.dataOperand(x.X)
	case *ast.CallExpr:
		sel, ok := x.Fun.(*ast.SelectorExpr)
		if !ok || len(x.Args) != 0 {
			return "", false
		}
		root, rel, ok := t.pathOf(sel.X)
		if !ok || t.isElem(root) {
			return "", false
		}
		return flat(root, append(append([]string{}, rel...), sel.Sel.Name)), true
	default:
		root, rel, ok := t.pathOf(e)
		if !ok || t.isElem(root) || len(rel) == 0 {
			return "", false
		}
		return flat(root, rel), true
	}
}

func (t *tr) arrayEquality(x *ast.BinaryExpr) (ex, bool) {
	if x.Op != token.EQL && x.Op != token.NEQ {
		return ex{}, false
	}
	if !isArrayType(t.info.TypeOf(x.X)) || !isArrayType(t.info.TypeOf(x.Y)) {
		return ex{}, false
	}
	a, ok1 := t.dataOperand(x.X)
	b, ok2 := t.dataOperand(x.Y)
	if !ok1 || !ok2 {
		fail(t.fset, x, "comparison of array values other than field paths / argument-less method calls on them")
	}
	p := t.extraParam("eq_"+a+"__"+b, "bool", "("+exprString(t.fset, x.X)+" == "+exprString(t.fset, x.Y)+"), computed by the caller: hashes are data")
	if x.Op == token.NEQ {
		return pure("negb " + p), true
	}
	return pure(p), true
}
