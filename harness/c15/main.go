// Command c15: base58 (Encode/Decode) and address text (DecodeBase58Address,
// AddressFromBytes, Address.String/Bytes) observed on exhaustive short inputs,
// boundary-biased random inputs and malformed text.
package main

import (
	"encoding/hex"
	"fmt"
	"math/big"
	"strings"

	. "verif/harness/kit"

	"github.com/skycoin/skycoin/src/cipher"
	"github.com/skycoin/skycoin/src/cipher/base58"
)

var sentinels = map[error]string{
	base58.ErrInvalidString:          "ErrInvalidString",
	base58.ErrInvalidChar:            "ErrInvalidChar",
	cipher.ErrAddressInvalidLength:   "ErrAddressInvalidLength",
	cipher.ErrAddressInvalidChecksum: "ErrAddressInvalidChecksum",
	cipher.ErrAddressInvalidVersion:  "ErrAddressInvalidVersion",
}

func main() { Main(run) }

// text as a Coq `list Z` of bytes: a string literal when that is safe, else numbers
func txt(s string) string {
	safe := true
	for i := 0; i < len(s); i++ {
		if s[i] < 0x20 || s[i] > 0x7e || s[i] == '"' {
			safe = false
			break
		}
	}
	if safe {
		return "(bytes_of_string \"" + s + "\")"
	}
	return Bytes([]byte(s))
}

// packed observed Decode result (Model/Base58.v pack_outcome)
func packDec(panicked bool, b []byte, err error) *big.Int {
	switch {
	case panicked:
		return big.NewInt(-4)
	case err == base58.ErrInvalidString:
		return big.NewInt(-1)
	case err == base58.ErrInvalidChar:
		return big.NewInt(-2)
	case err != nil:
		return big.NewInt(-3)
	}
	x := new(big.Int).Lsh(big.NewInt(1), uint(8*len(b)))
	return x.Add(x, new(big.Int).SetBytes(b))
}

func observeDec(s string) (*big.Int, []byte, error, bool) {
	var b []byte
	var err error
	p := Guard(func() { b, err = base58.Decode(s) })
	return packDec(p, b, err), b, err, p
}

// independent reference decoder (math/big), used only to choose which bytes the
// sha256 oracle digest is taken of
func refDecode(s string) []byte {
	const al = "123456789ABCDEFGHJKLMNPQRSTUVWXYZabcdefghijkmnopqrstuvwxyz"
	if s == "" {
		return nil
	}
	v := new(big.Int)
	z := 0
	lead := true
	for i := 0; i < len(s); i++ {
		d := strings.IndexByte(al, s[i])
		if d < 0 {
			return nil
		}
		if lead && d == 0 {
			z++
		} else {
			lead = false
		}
		v.Mul(v, big.NewInt(58))
		v.Add(v, big.NewInt(int64(d)))
	}
	return append(make([]byte, z), v.Bytes()...)
}

func digestOfFirst21(b []byte) []byte {
	if len(b) < 21 {
		return nil
	}
	h := cipher.SumSHA256(b[:21])
	return h[:]
}

func addrCoq(a cipher.Address) string {
	return fmt.Sprintf("{| a_version := %d; a_key := %s |}", a.Version, Bytes(a.Key[:]))
}

// symbols of the exhaustive decode sweep: the alphabet, look-alikes, space, a
// lone continuation byte, a two-byte rune
func decSymbols() []string {
	out := []string{}
	for _, c := range "123456789ABCDEFGHJKLMNPQRSTUVWXYZabcdefghijkmnopqrstuvwxyz" {
		out = append(out, string(c))
	}
	return append(out, "0", "O", "I", "l", " ", "\x80", "é")
}

// all words of at most k symbols, shorter first, lexicographic in symbol index
// (same order as Model/Base58.v words_upto)
func wordsUpto(syms []string, k int, f func(string)) {
	var rec func(prefix string, left int)
	rec = func(prefix string, left int) {
		if left == 0 {
			f(prefix)
			return
		}
		for _, s := range syms {
			rec(prefix+s, left-1)
		}
	}
	for n := 0; n <= k; n++ {
		rec("", n)
	}
}

func run(args []string) error {
	f := ParseFlags("c15", args)
	r := NewRng(f.Seed)
	n := f.Budget(150, 4000)
	thorough := f.Tier == "thorough" || f.Tier == "search"
	o := NewOut()
	hist := Hist{}
	var samples []map[string]interface{}
	caseJSON := map[string][]map[string]interface{}{}
	rec := func(group string, m map[string]interface{}) {
		caseJSON[group] = append(caseJSON[group], m)
		if len(samples) < 12 && r.Intn(n/3+1) == 0 {
			mm := map[string]interface{}{"group": group}
			for k, v := range m {
				mm[k] = v
			}
			samples = append(samples, mm)
		}
	}

	// ---- the alphabet the implementation uses, read off its behaviour
	// (digit i = last character of Encode([58+i]), whose value is 1*58 + i)
	alpha := []string{}
	for i := 0; i < 58; i++ {
		var e string
		Guard(func() { e = base58.Encode([]byte{byte(58 + i)}) })
		c := byte(0)
		if len(e) > 0 {
			c = e[len(e)-1]
		}
		alpha = append(alpha, fmt.Sprintf("%d", c))
	}
	o.Raw("Definition go_alphabet : list Z := " + List(alpha) + ".\n")

	var enc, dec, addr, addrb, addre []string

	// History discipline: every input is presented twice in a row and a third
	// time at the end of the run (after all the other inputs). The model is a pure
	// function, so the first observation is written as the case and any later
	// observation that differs from it is written as a further case (the Coq
	// side then reports it with the concrete input: "presentation" in the JSON).
	var later []func()
	thrice := func(group string, observe func() (string, map[string]interface{}), emit func(term string)) {
		t1, js := observe()
		js["presentation"] = 1
		emit(t1)
		rec(group, js)
		again := func(k int) {
			t, js := observe()
			o.Evals++
			if t != t1 {
				js["presentation"] = k
				js["first_presentation"] = t1
				emit(t)
				rec(group, js)
				hist.Add(group + ":answer-changed-on-repeat")
			}
		}
		again(2)
		later = append(later, func() { again(3) })
	}

	var btc, btcb []string
	doEnc := func(b []byte, kind string) {
		thrice("enc", func() (string, map[string]interface{}) {
			var e string
			if Guard(func() { e = base58.Encode(b) }) {
				e = "\x00PANIC"
			}
			rt, _, _, _ := observeDec(e)
			return Tuple(Bytes(b), txt(e), ZBig(rt)), map[string]interface{}{"call": "base58.Encode", "bytes_hex": hex.EncodeToString(b), "enc": e, "roundtrip_packed": rt.String()}
		}, func(t string) { enc = append(enc, t) })
		o.Count("enc"+string(b), len(b) > 0)
		hist.Add("enc:" + kind)
	}
	doDec := func(s string, kind string) {
		var lastErr error
		thrice("dec", func() (string, map[string]interface{}) {
			pk, b, err, _ := observeDec(s)
			lastErr = err
			re := ""
			if err == nil {
				Guard(func() { re = base58.Encode(b) })
			}
			return Tuple(txt(s), ZBig(pk), txt(re)), map[string]interface{}{"call": "base58.Decode", "text_hex": hex.EncodeToString([]byte(s)), "text": s, "packed": pk.String(), "bytes_hex": hex.EncodeToString(b), "err": ErrClass(err, sentinels), "reencoded": re}
		}, func(t string) { dec = append(dec, t) })
		o.Count("dec"+s, lastErr == nil || len(s) > 0)
		hist.Add("dec:" + kind + ":" + okErr(lastErr))
	}
	outcome := func(p bool, err error, ok string) string {
		switch {
		case p:
			return "(Err \"panic\")"
		case err != nil:
			return "(Err " + Str(ErrClass(err, sentinels)) + ")"
		}
		return "(Ok " + ok + ")"
	}
	doAddr := func(s string, kind string) {
		dg := digestOfFirst21(refDecode(s))
		first := ""
		thrice("addr", func() (string, map[string]interface{}) {
			var a cipher.Address
			var err error
			p := Guard(func() { a, err = cipher.DecodeBase58Address(s) })
			restr := ""
			if !p && err == nil {
				Guard(func() { restr = a.String() })
			}
			if first == "" {
				first = ErrClass(err, sentinels)
			}
			return Tuple(txt(s), Bytes(dg), outcome(p, err, addrCoq(a)), txt(restr)),
				map[string]interface{}{"call": "cipher.DecodeBase58Address", "text": s, "text_hex": hex.EncodeToString([]byte(s)), "err": ErrClass(err, sentinels), "panic": p, "restr": restr, "kind": kind}
		}, func(t string) { addr = append(addr, t) })
		o.Count("addr"+s, true)
		hist.Add("addr:" + kind + ":" + first)
	}
	doAddrBytes := func(b []byte, kind string) {
		first := ""
		thrice("addrb", func() (string, map[string]interface{}) {
			var a cipher.Address
			var err error
			p := Guard(func() { a, err = cipher.AddressFromBytes(b) })
			if first == "" {
				first = ErrClass(err, sentinels)
			}
			return Tuple(Bytes(b), Bytes(digestOfFirst21(b)), outcome(p, err, addrCoq(a))),
				map[string]interface{}{"call": "cipher.AddressFromBytes", "bytes_hex": hex.EncodeToString(b), "err": ErrClass(err, sentinels), "panic": p, "kind": kind}
		}, func(t string) { addrb = append(addrb, t) })
		o.Count("addrb"+string(b), true)
		hist.Add("addrb:" + kind + ":" + first)
	}
	// bitcoin variant: version ‖ key ‖ first 4 bytes of sha256(sha256(version ‖ key))
	btcCoq := func(a cipher.BitcoinAddress) string {
		return fmt.Sprintf("{| a_version := %d; a_key := %s |}", a.Version, Bytes(a.Key[:]))
	}
	btcDigest := func(b []byte) []byte {
		if len(b) < 21 {
			return nil
		}
		h := cipher.DoubleSHA256(b[:21])
		return h[:]
	}
	doBtc := func(s string, kind string) {
		dg := btcDigest(refDecode(s))
		first := ""
		thrice("btc", func() (string, map[string]interface{}) {
			var a cipher.BitcoinAddress
			var err error
			p := Guard(func() { a, err = cipher.DecodeBase58BitcoinAddress(s) })
			restr := ""
			if !p && err == nil {
				Guard(func() { restr = a.String() })
			}
			if first == "" {
				first = ErrClass(err, sentinels)
			}
			return Tuple(txt(s), Bytes(dg), outcome(p, err, btcCoq(a)), txt(restr)),
				map[string]interface{}{"call": "cipher.DecodeBase58BitcoinAddress", "text": s, "text_hex": hex.EncodeToString([]byte(s)), "err": ErrClass(err, sentinels), "panic": p, "restr": restr, "kind": kind}
		}, func(t string) { btc = append(btc, t) })
		o.Count("btc"+s, true)
		hist.Add("btc:" + kind + ":" + first)
	}
	doBtcBytes := func(b []byte, kind string) {
		first := ""
		thrice("btcb", func() (string, map[string]interface{}) {
			var a cipher.BitcoinAddress
			var err error
			p := Guard(func() { a, err = cipher.BitcoinAddressFromBytes(b) })
			if first == "" {
				first = ErrClass(err, sentinels)
			}
			return Tuple(Bytes(b), Bytes(btcDigest(b)), outcome(p, err, btcCoq(a))),
				map[string]interface{}{"call": "cipher.BitcoinAddressFromBytes", "bytes_hex": hex.EncodeToString(b), "err": ErrClass(err, sentinels), "panic": p, "kind": kind}
		}, func(t string) { btcb = append(btcb, t) })
		o.Count("btcb"+string(b), true)
		hist.Add("btcb:" + kind + ":" + first)
	}
	doAddrEnc := func(a cipher.Address) {
		thrice("addre", func() (string, map[string]interface{}) {
			var s string
			var bs []byte
			if Guard(func() { s = a.String(); bs = a.Bytes() }) {
				s = "\x00PANIC"
			}
			pay := append(append([]byte{}, a.Key[:]...), a.Version)
			h := cipher.SumSHA256(pay)
			return Tuple(addrCoq(a), Bytes(h[:]), txt(s), Bytes(bs)),
				map[string]interface{}{"call": "Address.String/Bytes", "version": a.Version, "key_hex": hex.EncodeToString(a.Key[:]), "string": s, "bytes_hex": hex.EncodeToString(bs)}
		}, func(t string) { addre = append(addre, t) })
		o.Count(fmt.Sprint("addre", a), true)
		hist.Add(fmt.Sprintf("addre:version0=%v", a.Version == 0))
	}

	// ---- exhaustive sweeps (inputs are enumerated again inside Coq, only the
	//      observed results are written)
	encK, decK := 1, 2
	if thorough {
		encK, decK = 2, 3
	}
	byteSyms := make([]string, 256)
	for i := range byteSyms {
		byteSyms[i] = string([]byte{byte(i)})
	}
	var encx, decx []string
	wordsUpto(byteSyms, encK, func(w string) {
		var e string
		if Guard(func() { e = base58.Encode([]byte(w)) }) {
			e = "\x00PANIC"
		}
		encx = append(encx, txt(e))
		o.Count("encx"+w, len(w) > 0)
	})
	wordsUpto(decSymbols(), decK, func(w string) {
		pk, _, _, _ := observeDec(w)
		decx = append(decx, ZBig(pk))
		o.Count("decx"+w, true)
	})
	// the sweeps are repeated at the end of the run; an answer that changed is
	// written as an explicit enc / dec case
	later = append(later, func() {
		for pass := 2; pass <= 3; pass++ {
			i := 0
			wordsUpto(byteSyms, encK, func(w string) {
				var e string
				if Guard(func() { e = base58.Encode([]byte(w)) }) {
					e = "\x00PANIC"
				}
				o.Evals++
				if txt(e) != encx[i] {
					rt, _, _, _ := observeDec(e)
					enc = append(enc, Tuple(Bytes([]byte(w)), txt(e), ZBig(rt)))
					rec("enc", map[string]interface{}{"call": "base58.Encode", "bytes_hex": hex.EncodeToString([]byte(w)), "enc": e, "presentation": pass})
				}
				i++
			})
			i = 0
			wordsUpto(decSymbols(), decK, func(w string) {
				pk, b, err, _ := observeDec(w)
				o.Evals++
				if ZBig(pk) != decx[i] {
					re := ""
					if err == nil {
						Guard(func() { re = base58.Encode(b) })
					}
					dec = append(dec, Tuple(txt(w), ZBig(pk), txt(re)))
					rec("dec", map[string]interface{}{"call": "base58.Decode", "text_hex": hex.EncodeToString([]byte(w)), "text": w, "packed": pk.String(), "presentation": pass})
				}
				i++
			})
		}
	})
	hist["encx:exhaustive"] = len(encx)
	hist["decx:exhaustive"] = len(decx)
	o.Raw(fmt.Sprintf("Definition encx_k : nat := %d%%nat.\nDefinition decx_k : nat := %d%%nat.\n", encK, decK))

	// ---- byte strings: boundary shapes and random
	longEvery := 50 // one long input per this many cases (quick: 3 of 150)
	if thorough {
		longEvery = 25
	}
	randBytes := func() ([]byte, string) {
		if r.Intn(longEvery) == 0 {
			return append(make([]byte, r.Intn(5)), r.Bytes(100+r.Intn(201))...), "long"
		}
		switch r.Intn(7) {
		case 0: // leading-zero run + body
			z := r.Intn(12)
			return append(make([]byte, z), r.Bytes(r.Intn(40))...), "zeros+body"
		case 1: // all zeros
			return make([]byte, r.Intn(40)), "all-zero"
		case 2: // all 0xff (largest value of a length: longest encoding)
			b := make([]byte, 1+r.Intn(60))
			for i := range b {
				b[i] = 0xff
			}
			return b, "all-ff"
		case 3: // a power of 58 and neighbours (encoding length changes)
			k := r.Intn(80)
			v := new(big.Int).Exp(big.NewInt(58), big.NewInt(int64(k)), nil)
			v.Add(v, big.NewInt(int64(r.Intn(3)-1)))
			return append(make([]byte, r.Intn(3)), v.Bytes()...), "58^k"
		case 4: // 0x01 00 00 .. (power of 256)
			b := make([]byte, 1+r.Intn(40))
			b[0] = 1
			return b, "256^k"
		default:
			return r.Bytes(r.Intn(34)), "random"
		}
	}
	doEnc([]byte{}, "empty")
	{ // the largest 300-byte value: the longest encoding the size estimate must hold
		b := make([]byte, 300)
		for i := range b {
			b[i] = 0xff
		}
		doEnc(b, "all-ff")
	}
	for i := 0; i < n; i++ {
		b, kind := randBytes()
		doEnc(b, kind)
	}

	// ---- text: mostly over the alphabet, with leading '1' runs; malformed stream
	al := "123456789ABCDEFGHJKLMNPQRSTUVWXYZabcdefghijkmnopqrstuvwxyz"
	randText := func(maxLen int) string {
		var sb strings.Builder
		for k := r.Intn(6) * r.Intn(2); k > 0; k-- {
			sb.WriteByte('1')
		}
		for k := r.Intn(maxLen); k > 0; k-- {
			sb.WriteByte(al[r.Intn(58)])
		}
		return sb.String()
	}
	// incl. code points >= U+0100 whose LOW BYTE is an alphabet character (a decoder
	// that truncates runes to bytes would accept them): U+0138, U+0141, U+0261, U+4E41, U+1F431
	bad := []string{"0", "O", "I", "l", " ", "\x80", "é", "\n", "+", "/", "\x00", "\xff", "世", "\t", "\u0138", "\u0141", "\u0261", "\u4e41", "\U0001f431", "\u0131", "\u017a"}
	doDec("", "empty")
	for i := 0; i < n; i++ {
		if r.Intn(longEvery) == 0 {
			doDec(randText(400), "long")
			continue
		}
		switch r.Intn(5) {
		case 0: // malformed: one bad symbol somewhere
			s := randText(20)
			p := r.Intn(len(s) + 1)
			doDec(s[:p]+bad[r.Intn(len(bad))]+s[p:], "one-bad-char")
		case 1: // only '1's
			doDec(strings.Repeat("1", 1+r.Intn(40)), "all-ones")
		case 2: // encodings of random bytes (canonical by construction)
			b, _ := randBytes()
			if len(b) > 0 {
				doDec(genEnc(b), "encoded")
			}
		default:
			doDec(randText(45), "alphabet")
		}
	}

	// ---- addresses
	randAddr := func() cipher.Address {
		var a cipher.Address
		copy(a.Key[:], r.Bytes(20))
		switch r.Intn(6) {
		case 0: // key with leading zero bytes: text starts with '1's legitimately
			for i := 0; i < 1+r.Intn(4); i++ {
				a.Key[i] = 0
			}
		case 1:
			a.Key = cipher.Ripemd160{}
		}
		return a
	}
	na := n / 2
	if na < 40 {
		na = 40
	}
	for i := 0; i < na; i++ {
		a := randAddr()
		good := genBytes(a)
		switch i % 10 {
		case 0, 1, 2: // valid
			doAddr(genStr(a), "valid")
			doAddrBytes(good, "valid")
		case 3: // wrong checksum (one bit), once in each of the four bytes
			for k := 0; k < 4; k++ {
				b := append([]byte{}, good...)
				b[21+k] ^= 1 << uint(r.Intn(8))
				doAddr(genEnc(b), "bad-checksum")
				doAddrBytes(b, "bad-checksum")
			}
		case 4: // key bit flipped, checksum not updated
			b := append([]byte{}, good...)
			b[r.Intn(20)] ^= 1 << uint(r.Intn(8))
			doAddr(genEnc(b), "bad-checksum-key")
		case 5: // version != 0 with a matching checksum
			a.Version = byte(1 + r.Intn(255))
			doAddr(genStr(a), "bad-version")
			doAddrBytes(genBytes(a), "bad-version")
		case 6: // wrong length
			b := append([]byte{}, good...)
			if r.Bool() {
				b = b[:len(b)-1-r.Intn(3)]
			} else {
				b = append(b, r.Bytes(1+r.Intn(3))...)
			}
			doAddr(genEnc(b), "bad-length")
			doAddrBytes(b, "bad-length")
		case 7: // non-canonical: extra leading '1' (one more zero byte in front)
			doAddr("1"+genStr(a), "extra-leading-1")
			doAddrBytes(append([]byte{0}, good...), "extra-leading-0")
		case 8: // malformed text
			s := genStr(a)
			p := r.Intn(len(s) + 1)
			doAddr(s[:p]+bad[r.Intn(len(bad))]+s[p:], "bad-char")
		default: // last 4 bytes of the digest instead of the first 4; random text
			if r.Bool() {
				h := cipher.SumSHA256(good[:21])
				b := append(append([]byte{}, good[:21]...), h[28:32]...)
				doAddr(genEnc(b), "checksum-from-digest-tail")
			} else {
				doAddr(randText(40), "random-text")
			}
		}
		doAddrEnc(a)
		if i%5 == 0 {
			a.Version = byte(r.Intn(256))
			doAddrEnc(a)
		}
	}
	doAddr("", "empty")
	doAddrBytes(nil, "empty")
	// bitcoin addresses (same scheme, version first, double sha256)
	for i := 0; i < na/2; i++ {
		var a cipher.BitcoinAddress
		copy(a.Key[:], r.Bytes(20))
		if i%4 == 0 {
			a.Key[0], a.Key[1] = 0, 0
		}
		good := make([]byte, 25)
		Guard(func() { good = a.Bytes() })
		switch i % 6 {
		case 0, 1:
			doBtc(genEnc(good), "valid")
			doBtcBytes(good, "valid")
		case 2:
			b := append([]byte{}, good...)
			b[21+i%4] ^= 1 << uint(r.Intn(8))
			doBtc(genEnc(b), "bad-checksum")
			doBtcBytes(b, "bad-checksum")
		case 3:
			a.Version = byte(1 + r.Intn(255))
			var vb []byte
			Guard(func() { vb = a.Bytes() })
			doBtc(genEnc(vb), "bad-version")
			doBtcBytes(vb, "bad-version")
		case 4:
			b := append([]byte{}, good...)
			if r.Bool() {
				b = b[:24]
			} else {
				b = append(b, 7)
			}
			doBtc(genEnc(b), "bad-length")
			doBtcBytes(b, "bad-length")
		default:
			doBtc("1"+genEnc(good), "extra-leading-1")
			s := genEnc(good)
			doBtc(s[:len(s)/2]+"l"+s[len(s)/2:], "bad-char")
		}
	}
	// ---- the HTTP API entry points that take an address text
	apiRes, err := runAPI(r, o, hist, thorough, &later)
	if err != nil {
		return err
	}
	// third presentation of every input, after all the others
	for _, f := range later {
		f()
	}

	o.Def("cases_encx", "list Z", encx)
	o.Def("cases_decx", "Z", decx)
	o.Def("cases_enc", "list Z * list Z * Z", enc)
	o.Def("cases_dec", "list Z * Z * list Z", dec)
	o.Def("cases_addr", "list Z * list Z * outcome address * list Z", addr)
	o.Def("cases_addrb", "list Z * list Z * outcome address", addrb)
	caseJSON["api"] = apiRes.js
	o.Def("cases_api", "Z * list (list Z * list Z) * Z", apiRes.cases)
	o.Def("cases_btc", "list Z * list Z * outcome address * list Z", btc)
	o.Def("cases_btcb", "list Z * list Z * outcome address", btcb)
	o.Def("cases_addre", "address * list Z * list Z * list Z", addre)
	o.Side["rule"] = fmt.Sprintf("exhaustive: every byte string of length <= %d through Encode, every text of <= %d symbols over alphabet+{0,O,I,l,space,0x80,é} through Decode; random byte strings (leading-zero runs, all-zero, all-0xff, 58^k±1, 256^k, up to 300 bytes) and texts (alphabet with leading '1' runs, up to 400 chars, one bad symbol inserted, only '1's); addresses: valid, one-bit checksum/key damage, version != 0 with matching checksum, 22-28 bytes, an extra leading '1', bad character, checksum taken from the digest's tail; bitcoin addresses likewise; HTTP API (real mux, stub gateway): address/verify, balance, outputs, v1/v2 transactions, address_uxouts, v2 transaction to/change_address/addresses with a catalogue of canonical, white-space padded (ASCII and Unicode), look-alike, case-changed, truncated, bad checksum, bad version, bitcoin-form, multi-address texts; every input is presented twice in a row and once more at the end of the run, an answer that changed is a further case; a case is non-trivial unless it is the empty input; distinct by input", encK, decK)
	o.Side["distribution"] = hist.Sorted()
	o.Side["samples"] = samples
	o.Side["cases"] = caseJSON
	return o.Write(f.Out, f.JSON)
}

// guarded calls used while *generating* inputs (a panic of the implementation
// is an observable of the groups above, never a harness failure)
func genEnc(b []byte) string {
	e := "\x00PANIC"
	Guard(func() { e = base58.Encode(b) })
	return e
}
func genStr(a cipher.Address) string {
	e := "\x00PANIC"
	Guard(func() { e = a.String() })
	return e
}
func genBytes(a cipher.Address) []byte {
	b := make([]byte, 25)
	Guard(func() { b = a.Bytes() })
	return b
}

func okErr(err error) string {
	if err == nil {
		return "ok"
	}
	return "err"
}
