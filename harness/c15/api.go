package main

// Address texts at the HTTP API: the real handlers behind the real mux
// (api.newServerMux through the verif export of C27) are fed an address
// catalogue; a request is "accepted" when the handler gets past address parsing
// (200, or it goes on to call the gateway — a stub whose every method panics),
// "rejected" on 400/422. The verdict is compared with the model's decode verdict
// on the same text (on each comma/whitespace separated token for the list
// parameters, which the API documents as comma separated lists).

import (
	"encoding/hex"
	"encoding/json"
	"fmt"
	"net/http"
	"net/http/httptest"
	"net/url"
	"strings"
	"unicode"
	"unicode/utf8"

	. "verif/harness/kit"

	"github.com/skycoin/skycoin/src/api"
	"github.com/skycoin/skycoin/src/cipher"
	"github.com/skycoin/skycoin/src/util/logging"
)

type stubGateway struct{ api.Gatewayer } // nil interface inside: every call panics

type endpoint struct {
	id     int
	name   string
	list   bool // the parameter is a comma / whitespace separated list
	isJSON bool
	build  func(text string, other string) *http.Request
}

func getReq(path, param string) func(string, string) *http.Request {
	return func(text, _ string) *http.Request {
		return httptest.NewRequest(http.MethodGet, "http://127.0.0.1:6420"+path+"?"+param+"="+url.QueryEscape(text), nil)
	}
}

func postJSON(path string, body func(text, other string) interface{}) func(string, string) *http.Request {
	return func(text, other string) *http.Request {
		b, _ := json.Marshal(body(text, other))
		r := httptest.NewRequest(http.MethodPost, "http://127.0.0.1:6420"+path, strings.NewReader(string(b)))
		r.Header.Set("Content-Type", "application/json")
		return r
	}
}

func createTxnBody(to, change, from string) map[string]interface{} {
	m := map[string]interface{}{
		"hours_selection": map[string]interface{}{"type": "manual"},
		"to":              []interface{}{map[string]interface{}{"address": to, "coins": "1", "hours": "1"}},
		"addresses":       []interface{}{from},
	}
	if change != "" {
		m["change_address"] = change
	}
	return m
}

func endpoints() []endpoint {
	return []endpoint{
		{1, "POST /api/v2/address/verify address", false, true, postJSON("/api/v2/address/verify", func(t, _ string) interface{} { return map[string]string{"address": t} })},
		{2, "GET /api/v1/balance addrs", true, false, getReq("/api/v1/balance", "addrs")},
		{3, "GET /api/v1/outputs addrs", true, false, getReq("/api/v1/outputs", "addrs")},
		{4, "GET /api/v1/transactions addrs", true, false, getReq("/api/v1/transactions", "addrs")},
		{5, "GET /api/v2/transactions addrs", true, false, getReq("/api/v2/transactions", "addrs")},
		{6, "GET /api/v1/address_uxouts address", false, false, getReq("/api/v1/address_uxouts", "address")},
		{7, "POST /api/v2/transaction to[0].address", false, true, postJSON("/api/v2/transaction", func(t, o string) interface{} { return createTxnBody(t, "", o) })},
		{8, "POST /api/v2/transaction change_address", false, true, postJSON("/api/v2/transaction", func(t, o string) interface{} { return createTxnBody(o, t, o) })},
		{9, "POST /api/v2/transaction addresses[0]", false, true, postJSON("/api/v2/transaction", func(t, o string) interface{} { return createTxnBody(o, "", t) })},
	}
}

func tokensOf(text string) []string {
	return strings.FieldsFunc(text, func(r rune) bool { return r == ',' || unicode.IsSpace(r) })
}

func swapCase(s string, i int) string {
	b := []byte(s)
	c := b[i]
	switch {
	case c >= 'a' && c <= 'z':
		b[i] = c - 32
	case c >= 'A' && c <= 'Z':
		b[i] = c + 32
	}
	return string(b)
}

// catalogue of address texts built around valid addresses
func apiCatalogue(r *Rng, n int) (texts []string, kinds []string) {
	add := func(t, k string) { texts = append(texts, t); kinds = append(kinds, k) }
	for i := 0; i < n; i++ {
		var a cipher.Address
		copy(a.Key[:], r.Bytes(20))
		if i%3 == 1 {
			a.Key[0] = 0 // text with a leading '1'
			a.Key[1] |= 1
		}
		s := genStr(a)
		good := genBytes(a)
		add(s, "canonical")
		for _, ws := range []string{" ", "\n", "\t", "\r\n", "\u00a0", "\u3000", "\u2003", "\u0085"} {
			switch r.Intn(3) {
			case 0:
				add(ws+s, "space-before")
			case 1:
				add(s+ws, "space-after")
			default:
				add(ws+s+ws, "space-both")
			}
		}
		add(s+"\u200b", "zero-width-after")
		add("\ufeff"+s, "bom-before")
		p := 1 + r.Intn(len(s)-1)
		add(s[:p]+" "+s[p:], "space-inside")
		add(s[:p]+[]string{"\u0430", "\u041e", "\uff11", "l", "0", "I"}[r.Intn(6)]+s[p+1:], "look-alike")
		add(swapCase(s, p), "case-swapped")
		add(strings.ToUpper(s), "upper")
		add(strings.ToLower(s), "lower")
		add(s[:len(s)-1], "truncated-end")
		add(s[1:], "truncated-start")
		add("1"+s, "extra-leading-1")
		add(s+"1", "extra-trailing-1")
		{
			b := append([]byte{}, good...)
			b[21+i%4] ^= 1 << uint(r.Intn(8))
			add(genEnc(b), "bad-checksum")
		}
		{
			v := a
			v.Version = byte(1 + r.Intn(255))
			add(genStr(v), "bad-version")
		}
		{
			ba := cipher.BitcoinAddress{Version: 0, Key: a.Key}
			t := "\x00PANIC"
			Guard(func() { t = ba.String() })
			add(t, "bitcoin-form")
		}
		var a2 cipher.Address
		copy(a2.Key[:], r.Bytes(20))
		add(s+","+genStr(a2), "two-comma")
		add(s+" "+genStr(a2), "two-space")
		add(s+","+s, "same-twice")
		add(s+",", "trailing-comma")
		add(s+",x", "comma-junk")
		add("0x"+s, "0x-prefix")
		add("\""+s+"\"", "quoted")
	}
	add("", "empty")
	add(" ", "blank")
	add(",", "comma-only")
	return
}

type apiOut struct {
	cases []string
	js    []map[string]interface{}
}

func runAPI(r *Rng, o *Out, hist Hist, thorough bool, later *[]func()) (*apiOut, error) {
	logging.Disable()
	en := map[string]struct{}{}
	for _, s := range []string{"READ", "STATUS", "TXN", "WALLET", "NET_CTRL", "STORAGE"} {
		en[s] = struct{}{}
	}
	var mux *http.ServeMux
	if Guard(func() {
		mux = api.VerifNewServerMux(api.VerifMuxConfig{Host: "127.0.0.1:6420", DisableCSRF: true, DisableHeaderCheck: true, DisableCSP: true, EnabledAPISets: en}, stubGateway{})
	}) || mux == nil {
		return nil, fmt.Errorf("newServerMux panicked")
	}
	var other cipher.Address
	copy(other.Key[:], r.Bytes(20))
	otherText := genStr(other)
	nAddr := 2
	if thorough {
		nAddr = 12
	}
	texts, kinds := apiCatalogue(r, nAddr)
	out := &apiOut{}
	for _, ep := range endpoints() {
		for i, text := range texts {
			kind := kinds[i]
			if ep.isJSON && !utf8.ValidString(text) {
				continue // encoding/json would replace the bytes before the handler sees them
			}
			if ep.id == 8 && text == "" {
				continue // an empty change_address is left out of the request body
			}
			toks := []string{text}
			if ep.list {
				toks = tokensOf(text)
				if len(toks) == 0 {
					continue // an absent list is a different request (no filter / "addrs is required")
				}
			}
			var tk []string
			for _, t := range toks {
				tk = append(tk, Tuple(txt(t), Bytes(digestOfFirst21(refDecode(t)))))
			}
			ep, text := ep, text
			observe := func() (int, int) {
				rec := httptest.NewRecorder()
				panicked := Guard(func() { mux.ServeHTTP(rec, ep.build(text, otherText)) })
				switch {
				case panicked, rec.Code == 200, rec.Code == 500:
					return 1, rec.Code
				case rec.Code == 400, rec.Code == 422:
					return 0, rec.Code
				}
				return 2, rec.Code
			}
			emit := func(v, code, pres int) {
				out.cases = append(out.cases, Tuple(Z(uint64(ep.id)), List(tk), Z(uint64(v))))
				out.js = append(out.js, map[string]interface{}{"endpoint": ep.name, "text": text, "text_hex": hex.EncodeToString([]byte(text)), "kind": kind,
					"verdict": []string{"rejected", "accepted", "other"}[v], "http_status": code, "presentation": pres})
			}
			v1, c1 := observe()
			emit(v1, c1, 1)
			o.Count(fmt.Sprint("api", ep.id, text), true)
			hist.Add(fmt.Sprintf("api:e%d:%s", ep.id, []string{"rejected", "accepted", "other"}[v1]))
			again := func(k int) {
				v, c := observe()
				o.Evals++
				if v != v1 {
					emit(v, c, k)
					hist.Add("api:answer-changed-on-repeat")
				}
			}
			again(2)
			*later = append(*later, func() { again(3) })
		}
	}
	return out, nil
}
