// Package hrs is the case generator shared by the C03 (coin hours) and C11
// (soft rules) harness commands: transactions seen as (head time, inputs with
// creation time / coins / hours / owner, outputs with coins / hours), built as
// real coin.Transaction / coin.UxArray values, with boundary values on every
// inequality of the anchored code.
package hrs

import (
	"fmt"
	"math/big"
	"strings"

	. "verif/harness/kit"

	"github.com/skycoin/skycoin/src/cipher"
	"github.com/skycoin/skycoin/src/coin"
	"github.com/skycoin/skycoin/src/params"
	"github.com/skycoin/skycoin/src/transaction"
	"github.com/skycoin/skycoin/src/util/fee"
)

const MaxU64 = ^uint64(0)

var two64 = new(big.Int).Lsh(big.NewInt(1), 64)

// ---- addresses: a fixed pool; index = the id the Coq model sees

const PoolSize = 12 // 0..7 may appear in a distribution, 8..11 never do

type Pool struct {
	Addr []cipher.Address
	Sec  []cipher.SecKey
}

func NewPool() *Pool {
	p := &Pool{}
	seen := map[string]bool{}
	for i := 0; i < PoolSize; i++ {
		pk, sk, err := cipher.GenerateDeterministicKeyPair([]byte(fmt.Sprintf("verif-hrs-address-%d", i)))
		if err != nil {
			panic(err)
		}
		a := cipher.AddressFromPubKey(pk)
		if seen[a.String()] {
			panic("address pool: duplicate address") // ids must be injective
		}
		seen[a.String()] = true
		p.Addr = append(p.Addr, a)
		p.Sec = append(p.Sec, sk)
	}
	return p
}

// ---- cases

type In struct {
	Time, Coins, Hours uint64
	Addr               int
}
type TxOut struct {
	Coins, Hours uint64
	Addr         int
}
type Case struct {
	Kind string
	T    uint64
	Ins  []In
	Outs []TxOut
}

func (c *Case) CoqIns() string {
	it := make([]string, len(c.Ins))
	for i, x := range c.Ins {
		it[i] = fmt.Sprintf("mkIn %d %d %d %d", x.Time, x.Coins, x.Hours, x.Addr)
	}
	return List(it)
}
func (c *Case) CoqOuts() string {
	it := make([]string, len(c.Outs))
	for i, x := range c.Outs {
		it[i] = fmt.Sprintf("mkOut %d %d", x.Coins, x.Hours)
	}
	return List(it)
}

// Flat is the replayable, flat JSON form of the inputs of a case.
func (c *Case) Flat() map[string]interface{} {
	is := make([]string, len(c.Ins))
	for i, x := range c.Ins {
		is[i] = fmt.Sprintf("%d:%d:%d:%d", x.Time, x.Coins, x.Hours, x.Addr)
	}
	os := make([]string, len(c.Outs))
	for i, x := range c.Outs {
		os[i] = fmt.Sprintf("%d:%d:%d", x.Coins, x.Hours, x.Addr)
	}
	return map[string]interface{}{"kind": c.Kind, "T": fmt.Sprint(c.T),
		"ins": strings.Join(is, ","), "outs": strings.Join(os, ",")}
}

// ParseFlat is the inverse of Flat (used by --replay).
func ParseFlat(m map[string]interface{}) (*Case, error) {
	c := &Case{Kind: fmt.Sprint(m["kind"])}
	if _, err := fmt.Sscan(fmt.Sprint(m["T"]), &c.T); err != nil {
		return nil, err
	}
	if s := fmt.Sprint(m["ins"]); s != "" {
		for _, f := range strings.Split(s, ",") {
			var x In
			if _, err := fmt.Sscanf(f, "%d:%d:%d:%d", &x.Time, &x.Coins, &x.Hours, &x.Addr); err != nil {
				return nil, err
			}
			c.Ins = append(c.Ins, x)
		}
	}
	if s := fmt.Sprint(m["outs"]); s != "" {
		for _, f := range strings.Split(s, ",") {
			var x TxOut
			if _, err := fmt.Sscanf(f, "%d:%d:%d", &x.Coins, &x.Hours, &x.Addr); err != nil {
				return nil, err
			}
			c.Outs = append(c.Outs, x)
		}
	}
	return c, nil
}

// ---- the generator's own arithmetic (math/big; only used to aim at boundaries)

func accHours(T uint64, x In) *big.Int {
	h := new(big.Int).SetUint64(x.Hours)
	if T < x.Time {
		return h
	}
	e := new(big.Int).Mul(new(big.Int).SetUint64(x.Coins), new(big.Int).SetUint64(T-x.Time))
	e.Div(e, big.NewInt(3600000000))
	return h.Add(h, e)
}

// EffIn is the generator's estimate of the inputs' effective hours (legacy
// overflow counts 0; intermediate overflows are ignored here).
func EffIn(T uint64, ins []In) *big.Int {
	s := new(big.Int)
	for _, x := range ins {
		a := accHours(T, x)
		if a.Cmp(two64) < 0 {
			s.Add(s, a)
		}
	}
	return s
}

func clampU64(b *big.Int) uint64 {
	if b.Sign() < 0 {
		return 0
	}
	if b.Cmp(two64) >= 0 {
		return MaxU64
	}
	return b.Uint64()
}

// split total into m parts, each < 2^64 (total may be >= 2^64); parts are
// random but sum exactly to total when total <= m*(2^64-1).
func splitBig(r *Rng, total *big.Int, m int) []uint64 {
	parts := make([]uint64, m)
	rest := new(big.Int).Set(total)
	if rest.Sign() < 0 {
		rest.SetInt64(0)
	}
	for i := 0; i < m; i++ {
		left := m - i - 1
		// at least rest - left*(2^64-1) must go here
		lo := new(big.Int).Sub(rest, new(big.Int).Mul(big.NewInt(int64(left)), new(big.Int).SetUint64(MaxU64)))
		if lo.Sign() < 0 {
			lo.SetInt64(0)
		}
		hi := new(big.Int).Set(rest)
		if hi.Cmp(new(big.Int).SetUint64(MaxU64)) > 0 {
			hi.SetUint64(MaxU64)
		}
		var v *big.Int
		if left == 0 || hi.Cmp(lo) <= 0 {
			v = hi
			if left == 0 {
				v = new(big.Int).Set(hi)
			}
		} else {
			span := new(big.Int).Sub(hi, lo)
			k := new(big.Int).SetUint64(r.U64())
			switch r.Intn(4) {
			case 0:
				k.SetInt64(0)
			case 1:
				k.Set(span)
			default:
				k.Mod(k, new(big.Int).Add(span, big.NewInt(1)))
			}
			v = new(big.Int).Add(lo, k)
		}
		parts[i] = v.Uint64()
		rest.Sub(rest, v)
	}
	return parts
}

var gaps = []uint64{0, 1, 3599, 3600, 3601, 7200, 86400, 31536000}

// NormalIn is a plausible unspent created at or before T.
func (g *Gen) NormalIn(T uint64) In {
	r := g.R
	gap := gaps[r.Intn(len(gaps))]
	switch r.Intn(4) {
	case 0:
		gap = uint64(r.Intn(1000000000))
	case 1:
		gap = r.U64() >> uint(24+r.Intn(30))
	}
	if gap > T {
		gap = T
	}
	coins := uint64(1+r.Intn(1000)) * 1000000
	switch r.Intn(5) {
	case 0:
		coins += uint64(r.Intn(1000000)) // droplets
	case 1:
		coins = uint64(1 + r.Intn(999999)) // less than a coin
	case 2:
		coins = uint64(1+r.Intn(100000000)) * 1000
	}
	hours := uint64(r.Intn(1000))
	switch r.Intn(4) {
	case 0:
		hours = uint64(r.Intn(1000000000000))
	case 1:
		hours = 0
	}
	return In{Time: T - gap, Coins: coins, Hours: hours, Addr: r.Intn(PoolSize)}
}

// special inputs aimed at each error branch of UxOut.CoinHours, +-1 around it
func (g *Gen) SpecialIn(T uint64, which int) In {
	r := g.R
	d := int64(r.Intn(5)) - 2
	switch which {
	case 0: // final addition hours + earned straddles 2^64 (the legacy exception)
		x := g.NormalIn(T)
		if x.Coins < 1000000 {
			x.Coins = 1000000 * uint64(1+r.Intn(50))
		}
		e := new(big.Int).Sub(accHours(T, x), new(big.Int).SetUint64(x.Hours))
		// hours = 2^64 - 1 - earned + d : d <= 0 fits, d > 0 overflows
		h := new(big.Int).Sub(new(big.Int).SetUint64(MaxU64), e)
		h.Add(h, big.NewInt(d))
		x.Hours = clampU64(h)
		return x
	case 1: // whole-coin seconds straddle 2^64
		whole := uint64(1 + r.Intn(1000000))
		gap := MaxU64/whole + uint64(d)
		if d < 0 && MaxU64/whole < uint64(-d) {
			gap = MaxU64 / whole
		}
		if gap > T {
			gap = T
		}
		return In{Time: T - gap, Coins: whole * 1000000, Hours: uint64(r.Intn(3)), Addr: r.Intn(PoolSize)}
	case 2: // droplet seconds straddle 2^64 (whole coins 0 or 1)
		drop := uint64(999990 + r.Intn(10))
		gap := MaxU64/drop + uint64(d)
		if gap > T {
			gap = T
		}
		return In{Time: T - gap, Coins: uint64(r.Intn(2))*1000000 + drop, Hours: uint64(r.Intn(3)), Addr: r.Intn(PoolSize)}
	case 3: // sum of whole-coin seconds and droplet seconds straddles 2^64 while both products fit (F9 region)
		w := uint64(1 + r.Intn(1000))
		if r.Chance(40) {
			w = 1
		}
		k := uint64(r.Intn(int(w) + 1))
		if k == 0 {
			k = 1
		}
		// least gap with gap*(w*1e6+k)/1e6 >= 2^64
		den := new(big.Int).SetUint64(w*1000000 + k)
		num := new(big.Int).Mul(two64, big.NewInt(1000000))
		gs := new(big.Int).Add(num, new(big.Int).Sub(den, big.NewInt(1)))
		gs.Div(gs, den)
		gs.Add(gs, big.NewInt(d))
		gap := clampU64(gs)
		if gap > T {
			gap = T
		}
		return In{Time: T - gap, Coins: w*1000000 + k, Hours: uint64(r.Intn(3)), Addr: r.Intn(PoolSize)}
	case 4: // created after the head time
		x := g.NormalIn(T)
		if T < MaxU64-10 {
			x.Time = T + 1 + uint64(r.Intn(10))
		}
		return x
	default: // huge initial hours
		x := g.NormalIn(T)
		x.Hours = MaxU64>>uint(r.Intn(3)) - uint64(r.Intn(1000))
		return x
	}
}

type Gen struct {
	R        *Rng
	Pool     *Pool
	Hist     Hist
	LargePct int // percentage of transactions with 8..13 inputs (encoded size > 1024)
}

func NewGen(r *Rng) *Gen { return &Gen{R: r, Pool: NewPool(), Hist: Hist{}, LargePct: 6} }

func (g *Gen) headTime(huge bool) uint64 {
	r := g.R
	if huge {
		return MaxU64 - uint64(r.Intn(1000))
	}
	switch r.Intn(10) {
	case 0:
		return uint64(r.Intn(100000))
	case 1:
		return r.U64Edge()
	default:
		return 1426562704 + uint64(r.Intn(600000000))
	}
}

// Case generates one transaction. burn / divisor aim the fee and the amounts
// at the soft-rule boundaries (pass burn=0, divisor=1 when irrelevant).
func (g *Gen) Case(burn uint32, divisor uint64) *Case {
	r := g.R
	c := &Case{}
	scen := r.Intn(100)
	nin := 1 + r.Intn(4)
	if r.Chance(g.LargePct) {
		nin = 8 + r.Intn(6) // large: encoded size above MinTransactionSize
	}
	switch {
	case scen < 40:
		c.Kind = "normal"
		c.T = g.headTime(false)
		for i := 0; i < nin; i++ {
			c.Ins = append(c.Ins, g.NormalIn(c.T))
		}
	case scen < 52:
		c.Kind = "legacy-overflow-input"
		c.T = g.headTime(false)
		for i := 0; i < nin; i++ {
			c.Ins = append(c.Ins, g.NormalIn(c.T))
		}
		c.Ins[r.Intn(nin)] = g.SpecialIn(c.T, 0)
	case scen < 64:
		w := 1 + r.Intn(3)
		c.Kind = fmt.Sprintf("intermediate-overflow-input-%d", w)
		c.T = g.headTime(true)
		for i := 0; i < nin; i++ {
			c.Ins = append(c.Ins, g.NormalIn(c.T))
		}
		c.Ins[r.Intn(nin)] = g.SpecialIn(c.T, w)
	case scen < 72:
		c.Kind = "input-sum-near-2^64"
		c.T = g.headTime(false)
		if nin < 2 {
			nin = 2
		}
		for i := 0; i < nin; i++ {
			c.Ins = append(c.Ins, g.NormalIn(c.T))
		}
		// make the effective sum 2^64-1+d
		c.Ins[0].Hours = 0
		rest := EffIn(c.T, c.Ins)
		tgt := new(big.Int).Sub(new(big.Int).SetUint64(MaxU64), rest)
		tgt.Add(tgt, big.NewInt(int64(r.Intn(5))-2))
		c.Ins[0].Hours = clampU64(tgt)
	case scen < 80:
		c.Kind = "mixed-special"
		c.T = g.headTime(r.Chance(30))
		for i := 0; i < nin; i++ {
			if r.Chance(50) {
				c.Ins = append(c.Ins, g.SpecialIn(c.T, r.Intn(6)))
			} else {
				c.Ins = append(c.Ins, g.NormalIn(c.T))
			}
		}
	case scen < 83:
		c.Kind = "no-inputs"
		c.T = g.headTime(false)
	case scen < 87:
		c.Kind = "input-coins-near-2^64"
		c.T = g.headTime(false)
		a := MaxU64>>1 + uint64(r.Intn(3))
		b := MaxU64 - a + uint64(r.Intn(3)) - 1
		c.Ins = append(c.Ins, In{Time: c.T, Coins: a, Hours: uint64(r.Intn(100)), Addr: r.Intn(PoolSize)},
			In{Time: c.T - uint64(r.Intn(2)), Coins: b, Hours: uint64(r.Intn(100)), Addr: r.Intn(PoolSize)})
	default:
		c.Kind = "normal"
		c.T = g.headTime(false)
		for i := 0; i < nin; i++ {
			c.Ins = append(c.Ins, g.NormalIn(c.T))
		}
	}

	// amounts with the allowed precision on the input side (so that the outputs can have it too)
	if divisor > 1 && r.Chance(65) {
		for i := range c.Ins {
			if c.Ins[i].Coins < MaxU64>>2 {
				c.Ins[i].Coins -= c.Ins[i].Coins % divisor
				if c.Ins[i].Coins == 0 {
					c.Ins[i].Coins = divisor
				}
			}
		}
	}

	// ---- outputs: hours aimed at the inputs' effective hours
	nout := 1 + r.Intn(3)
	if r.Chance(3) {
		nout = 0
	}
	eff := EffIn(c.T, c.Ins)
	target := new(big.Int).Set(eff)
	hk := ""
	switch k := r.Intn(20); {
	case k < 3: // spend to the last hour, +-1
		d := int64(r.Intn(3)) - 1
		target.Add(target, big.NewInt(d))
		hk = fmt.Sprintf("out=in%+d", d)
	case k < 8 && burn >= 1: // fee exactly the required ceil(in/burn), +-1
		req := new(big.Int).Add(eff, big.NewInt(int64(burn)-1))
		req.Div(req, big.NewInt(int64(burn)))
		d := int64(r.Intn(3)) - 1
		target.Sub(target, req)
		target.Add(target, big.NewInt(d))
		hk = fmt.Sprintf("fee=required%+d", -d)
	case k < 10: // the true sum wraps 2^64: wrapped sum around the inputs' hours
		d := int64(r.Intn(3)) - 1
		target.Add(target, two64)
		target.Add(target, big.NewInt(d))
		if r.Chance(30) {
			target.Set(two64)
			target.Add(target, big.NewInt(int64(r.Intn(3))))
		}
		if nout < 2 {
			nout = 2
		}
		hk = "out-sum-wraps"
	case k < 12: // true sum 2^64-1+d
		target.SetUint64(MaxU64)
		target.Add(target, big.NewInt(int64(r.Intn(4))-1))
		if nout < 2 {
			nout = 2
		}
		hk = "out-sum-near-2^64"
	case k < 14:
		target.SetInt64(0)
		hk = "out=0"
	default: // a random fraction of the inputs' hours
		f := big.NewInt(int64(r.Intn(1001)))
		target.Mul(target, f)
		target.Div(target, big.NewInt(1000))
		hk = "out=fraction"
	}
	if target.Sign() < 0 {
		target.SetInt64(0)
	}
	g.Hist.Add("hours:" + hk)
	var hparts []uint64
	if nout > 0 {
		hparts = splitBig(r, target, nout)
	}

	// ---- coins: balanced with the inputs (+-1 sometimes), respecting the divisor mostly
	cin := new(big.Int)
	for _, x := range c.Ins {
		cin.Add(cin, new(big.Int).SetUint64(x.Coins))
	}
	ctot := new(big.Int).Set(cin)
	ck := "balanced"
	switch k := r.Intn(20); {
	case k == 0:
		ctot.Add(ctot, big.NewInt(1))
		ck = "out=in+1"
	case k == 1 && ctot.Sign() > 0:
		ctot.Sub(ctot, big.NewInt(1))
		ck = "out=in-1"
	case k == 2:
		ctot.SetUint64(MaxU64)
		ctot.Add(ctot, big.NewInt(int64(r.Intn(3))))
		ck = "out-coins-near-2^64"
	}
	g.Hist.Add("coins:" + ck)
	var cparts []uint64
	if nout > 0 {
		cparts = g.splitCoins(ctot, nout, divisor)
	}
	perm := r.Intn(PoolSize)
	for i := 0; i < nout; i++ {
		c.Outs = append(c.Outs, TxOut{Coins: cparts[i], Hours: hparts[i], Addr: (perm + i) % PoolSize})
	}
	g.Hist.Add("kind:" + c.Kind)
	g.Hist.Add(fmt.Sprintf("nin:%d", len(c.Ins)))
	g.Hist.Add(fmt.Sprintf("nout:%d", len(c.Outs)))
	return c
}

// splitCoins splits total into m non-zero parts; all but the last are multiples
// of divisor, occasionally off by a smaller power of ten (precision boundary).
func (g *Gen) splitCoins(total *big.Int, m int, divisor uint64) []uint64 {
	r := g.R
	parts := make([]uint64, m)
	if total.Cmp(two64) >= 0 { // overflowing sum: first part 2^64-1, rest small
		rest := new(big.Int).Sub(total, new(big.Int).SetUint64(MaxU64))
		parts[0] = MaxU64
		for i := 1; i < m; i++ {
			parts[i] = 1
		}
		if m > 1 && rest.Sign() > 0 {
			parts[1] = clampU64(rest)
		}
		return parts
	}
	rest := total.Uint64()
	for i := 0; i < m-1; i++ {
		if rest <= uint64(m-i) {
			parts[i] = 1
			if rest > 0 {
				rest--
			}
			continue
		}
		v := r.U64()%(rest-uint64(m-i-1)) + 1
		if divisor > 1 && v >= divisor {
			v -= v % divisor
			if r.Chance(12) { // one decimal place too many, or a single droplet
				off := divisor / 10
				if r.Chance(30) || off == 0 {
					off = 1
				}
				v += off
			}
		}
		if v == 0 || v > rest {
			v = 1
		}
		parts[i] = v
		rest -= v
	}
	parts[m-1] = rest // may be 0 (zero-coin output: a structural error)
	return parts
}

// ---- building the real values

// Build makes the unspents being spent and the transaction. signed=false: an
// unsigned transaction (all signatures null) that passes VerifyUnsigned when
// well-formed; signed=true: every input signed with its owner's key.
func (g *Gen) Build(c *Case, signed bool) (coin.Transaction, coin.UxArray) {
	var uxIn coin.UxArray
	var txn coin.Transaction
	for i, x := range c.Ins {
		ux := coin.UxOut{
			Head: coin.UxHead{Time: x.Time, BkSeq: uint64(1 + i)},
			Body: coin.UxBody{
				SrcTransaction: cipher.SumSHA256([]byte(fmt.Sprintf("src-%d-%d-%d-%d-%d", i, x.Time, x.Coins, x.Hours, x.Addr))),
				Address:        g.Pool.Addr[x.Addr],
				Coins:          x.Coins,
				Hours:          x.Hours,
			},
		}
		uxIn = append(uxIn, ux)
		txn.In = append(txn.In, ux.Hash())
	}
	for _, o := range c.Outs {
		txn.Out = append(txn.Out, coin.TransactionOutput{Address: g.Pool.Addr[o.Addr], Coins: o.Coins, Hours: o.Hours})
	}
	txn.Sigs = make([]cipher.Sig, len(txn.In))
	txn.InnerHash = txn.HashInner()
	if signed && len(txn.In) > 0 {
		for i, x := range c.Ins {
			h := cipher.AddSHA256(txn.InnerHash, txn.In[i])
			txn.Sigs[i] = cipher.MustSignHash(h, g.Pool.Sec[x.Addr])
		}
	}
	if err := txn.UpdateHeader(); err != nil {
		panic(err)
	}
	return txn, uxIn
}

func Head(T uint64) coin.BlockHeader { return coin.BlockHeader{Time: T, BkSeq: 1000} }

// ---- error naming (sentinel identity, else message text) and verdict classes

var Sentinels = map[error]string{
	coin.ErrAddEarnedCoinHoursAdditionOverflow: "ErrAddEarnedCoinHoursAdditionOverflow",
	fee.ErrTxnNoFee:                            "ErrTxnNoFee",
	fee.ErrTxnInsufficientFee:                  "ErrTxnInsufficientFee",
	fee.ErrTxnInsufficientCoinHours:            "ErrTxnInsufficientCoinHours",
	transaction.ErrTxnExceedsMaxBlockSize:      "ErrTxnExceedsMaxBlockSize",
	transaction.ErrTxnIsLocked:                 "ErrTxnIsLocked",
	params.ErrInvalidDecimals:                  "ErrInvalidDecimals",
	params.ErrInvalidBurnFactor:                "ErrInvalidBurnFactor",
	params.ErrInvalidMaxTransactionSize:        "ErrInvalidMaxTransactionSize",
	params.ErrInvalidMaxDropletPrecision:       "ErrInvalidMaxDropletPrecision",
}

func Name(err error) string { return ErrClass(err, Sentinels) }

// Verdict maps an error of a verifier to (class, name): class by the TYPE of
// the wrapper, name by sentinel identity of the wrapped error.
func Verdict(err error) (string, string) {
	switch e := err.(type) {
	case nil:
		return "", ""
	case transaction.ErrTxnViolatesHardConstraint:
		return "Hard", Name(e.Err)
	case transaction.ErrTxnViolatesSoftConstraint:
		return "Soft", Name(e.Err)
	default:
		return "Other", Name(err)
	}
}

// CoqVerdict prints a `res verdict`.
func (t *Strs) CoqVerdict(panicked bool, err error) string {
	if panicked {
		return "Panic"
	}
	cls, name := Verdict(err)
	if cls == "" {
		return "(Val None)"
	}
	return "(Val (Some (" + cls + ", " + t.Ref(name) + ")))"
}

func ShowVerdict(panicked bool, err error) string {
	if panicked {
		return "panic"
	}
	cls, name := Verdict(err)
	if cls == "" {
		return "accepted"
	}
	if len(name) > 60 {
		name = name[:60]
	}
	return strings.ToLower(cls) + ":" + name
}

// CoqResErr prints a `res error`.
func (t *Strs) CoqResErr(panicked bool, err error) string {
	if panicked {
		return "Panic"
	}
	return "(Val " + t.OptErr(Name(err)) + ")"
}

// CoqResZE prints a `res (Z * error)`.
func (t *Strs) CoqResZE(panicked bool, v uint64, err error) string {
	if panicked {
		return "Panic"
	}
	return fmt.Sprintf("(Val (%d, %s))", v, t.OptErr(Name(err)))
}

func ShowErr(panicked bool, err error) string {
	if panicked {
		return "panic"
	}
	if err == nil {
		return "nil"
	}
	n := Name(err)
	if len(n) > 60 {
		n = n[:60]
	}
	return n
}

// Between returns a boundary-biased value in [lo, hi].
func Between(r *Rng, lo, hi uint64) uint64 {
	if hi <= lo {
		return lo
	}
	if lo == 0 && hi == MaxU64 {
		return r.U64Edge()
	}
	return lo + r.U64Edge()%(hi-lo+1)
}

// ---- output helpers: Coq is super-linear in the size of one list literal and
// slow on long string literals, so case lists are written in small chunks and
// every distinct error text is defined once and referred to by name.

type Strs struct {
	idx   map[string]int
	order []string
}

func NewStrs() *Strs { return &Strs{idx: map[string]int{}} }

// Canon drops the formatted values of a message (everything after the first
// '='): error identity is the sentinel or the constant part of the text.
func Canon(s string) string {
	if i := strings.IndexByte(s, '='); i >= 0 {
		return s[:i+1]
	}
	return s
}

func (t *Strs) Ref(s string) string {
	s = Canon(s)
	k, ok := t.idx[s]
	if !ok {
		k = len(t.order)
		t.idx[s] = k
		t.order = append(t.order, s)
	}
	return fmt.Sprintf("str_%d", k)
}

// OptErr prints an `error` (option string) through the table.
func (t *Strs) OptErr(name string) string {
	if name == "" {
		return "None"
	}
	return "(Some " + t.Ref(name) + ")"
}

func (t *Strs) Table() string {
	var b strings.Builder
	for i, s := range t.order {
		fmt.Fprintf(&b, "Definition str_%d : string := %s.\n", i, Str(s))
	}
	return b.String()
}

// DefChunked renders `Definition name : list (ty) := concat [part0; part1; ...]`
// with parts of at most 40 items.
func DefChunked(name, ty string, items []string) string {
	const chunk = 40
	var b strings.Builder
	if len(items) <= chunk {
		fmt.Fprintf(&b, "Definition %s : list (%s) :=\n  [%s].\n", name, ty, strings.Join(items, ";\n   "))
		return b.String()
	}
	var parts []string
	for i := 0; i < len(items); i += chunk {
		j := i + chunk
		if j > len(items) {
			j = len(items)
		}
		pn := fmt.Sprintf("%s_p%d", name, i/chunk)
		fmt.Fprintf(&b, "Definition %s : list (%s) :=\n  [%s].\n", pn, ty, strings.Join(items[i:j], ";\n   "))
		parts = append(parts, pn)
	}
	// the list of part names is itself chunked
	for len(parts) > chunk {
		var up []string
		for i := 0; i < len(parts); i += chunk {
			j := i + chunk
			if j > len(parts) {
				j = len(parts)
			}
			pn := fmt.Sprintf("%s_q%d_%d", name, len(parts), i/chunk)
			fmt.Fprintf(&b, "Definition %s : list (%s) := List.concat [%s].\n", pn, ty, strings.Join(parts[i:j], "; "))
			up = append(up, pn)
		}
		parts = up
	}
	fmt.Fprintf(&b, "Definition %s : list (%s) := List.concat [%s].\n", name, ty, strings.Join(parts, "; "))
	return b.String()
}

// ---- scripted cases: a fixed prefix run before the random cases in every tier,
// one (or a few) per family of defect that a seeded change once exposed, so that
// catching them does not depend on the seed or the budget.

// ScriptedC03 are coin-hour cases (function level, also signed through the block checker).
func ScriptedC03() []*Case {
	const T = uint64(1500000000)
	return []*Case{
		// CoinHours where bits(seconds)+bits(coins) = 65 and seconds*coins >= 2^64: the true
		// accrual overflows the final addition (legacy: counts 0); a wrapped product would not
		{Kind: "scripted-product-wraps-legacy", T: 1000 + (1<<33 - 1),
			Ins:  []In{{Time: 1000, Coins: 1<<32 - 1, Hours: 18446744066023408255, Addr: 0}},
			Outs: []TxOut{{Coins: 1<<32 - 1, Hours: 1000, Addr: 1}}},
		// the same region without the legacy case: outputs take exactly the true accrual
		{Kind: "scripted-product-wraps-value", T: 1000 + (1<<33 - 1),
			Ins:  []In{{Time: 1000, Coins: 1<<32 - 1, Hours: 7, Addr: 0}},
			Outs: []TxOut{{Coins: 1<<32 - 1, Hours: 7 + 10248191148, Addr: 1}}},
		// a legacy-overflow input AFTER an input with hours: it must count 0, not the previous input's hours
		{Kind: "scripted-legacy-after-nonzero", T: T,
			Ins: []In{{Time: T, Coins: 1000000, Hours: 500, Addr: 0},
				{Time: T - 7200, Coins: 10000000, Hours: MaxU64, Addr: 1}},
			Outs: []TxOut{{Coins: 11000000, Hours: 1000, Addr: 2}}},
		{Kind: "scripted-legacy-after-nonzero", T: T,
			Ins: []In{{Time: T, Coins: 1000000, Hours: 500, Addr: 0},
				{Time: T - 7200, Coins: 10000000, Hours: MaxU64, Addr: 1},
				{Time: T, Coins: 1000000, Hours: 3, Addr: 3}},
			Outs: []TxOut{{Coins: 12000000, Hours: 504, Addr: 2}}},
		// three outputs whose hours overflow while the wrapped sum is not below the largest term
		{Kind: "scripted-outputs-wrap-above-largest", T: T,
			Ins: []In{{Time: T, Coins: 3000000, Hours: 1<<63 + 5, Addr: 0}},
			Outs: []TxOut{{Coins: 1000000, Hours: 1 << 63, Addr: 1}, {Coins: 1000000, Hours: 1 << 63, Addr: 2},
				{Coins: 1000000, Hours: 1 << 63, Addr: 3}}},
		// outputs to the last hour / one hour too many, with accrual
		{Kind: "scripted-exact", T: T,
			Ins:  []In{{Time: T - 3600000, Coins: 2000000, Hours: 7, Addr: 0}},
			Outs: []TxOut{{Coins: 2000000, Hours: 2007, Addr: 1}}},
		{Kind: "scripted-one-too-many", T: T,
			Ins:  []In{{Time: T - 3600000, Coins: 2000000, Hours: 7, Addr: 0}},
			Outs: []TxOut{{Coins: 2000000, Hours: 2008, Addr: 1}}},
	}
}

// ScriptedMono are (output, t1, t2) points for the accrued-hours group.
func ScriptedMono() [][3]uint64 { return nil }
