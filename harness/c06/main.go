// Command c06: the unconfirmed transaction pool (property C06).
//
// A real node under test (visor.Visor on a bolt file, not a publisher) and a
// publisher node that makes the blocks. One case = one history: interleaved
// InjectForeignTransaction / InjectUserTransaction (valid, double-spending,
// re-submitted, chain-spending, soft-invalid, malformed), ExecuteSignedBlock
// (fresh, replayed, badly signed blocks), RefreshUnconfirmed and
// RemoveInvalidUnconfirmed. After every operation the node's answer and its
// whole pool (hash, IsValid) in bucket order are recorded, together with the
// verdict bits the model needs, computed independently at the node's head.
package main

import (
	"fmt"
	"sort"
	"strings"

	"github.com/skycoin/skycoin/src/cipher"
	"github.com/skycoin/skycoin/src/coin"
	"github.com/skycoin/skycoin/src/params"
	"github.com/skycoin/skycoin/src/transaction"
	"github.com/skycoin/skycoin/src/visor/dbutil"

	. "verif/harness/kit"
	nk "verif/harness/nodekit"
)

func main() { Main(run) }

type hst struct {
	w      *nk.World
	pub    *nk.Node
	n      *nk.Node
	r      *Rng
	hist   Hist
	steps  []string
	jsteps []map[string]interface{}
	seen   []coin.Transaction      // every transaction generated in this history
	blocks []coin.SignedBlock      // blocks executed by the node under test
	allH   []cipher.SHA256
	nontr  int
	hot    *coin.UxOut                // output with hours just below 2^64 (hot histories)
	hold   map[cipher.SHA256]bool     // pooled transactions never handed to the publisher
	pubOut bool                       // the publisher no longer follows the node's chain
}

func (h *hst) close() {
	h.pub.Close()
	h.n.Close()
	h.w.Cleanup()
}

func newHistory(r *Rng, nOut int, hist Hist, hot bool) (*hst, error) {
	w, err := nk.NewWorld(r, "c06")
	if err != nil {
		return nil, err
	}
	h := &hst{w: w, r: r, hist: hist, hold: map[cipher.SHA256]bool{}}
	if hot {
		// genesis hours just below 2^64, so that one output can carry hours so close to
		// 2^64 that its coin hours overflow a few seconds after its creation
		w.Volume = ^uint64(0) - uint64(r.Intn(1000))
	}
	if h.pub, err = w.NewNode("pub", true, cipher.Sig{}); err != nil {
		return nil, err
	}
	gs, err := w.GenesisSig(h.pub)
	if err != nil {
		return nil, err
	}
	if h.n, err = w.NewNode("node", false, gs); err != nil {
		return nil, err
	}
	// parameter sets: sometimes the node's UnconfirmedVerifyTxn differs from params.UserVerifyTxn
	switch r.Intn(3) {
	case 1:
		h.n.V.Config.UnconfirmedVerifyTxn.MaxTransactionSize = uint32(230 + r.Intn(200)) // larger txns are soft-invalid for foreign injection only
	case 2:
		h.n.V.Config.UnconfirmedVerifyTxn.BurnFactor = 20 // foreign: 5% burn suffices; user: 10%
	}
	// split the genesis output
	var gen coin.UxOut
	for _, ux := range w.Ux {
		gen = ux
	}
	left := gen.Body.Coins
	var outs []coin.TransactionOutput
	for i := 0; i < nOut; i++ {
		hours := uint64(1 + r.Intn(2000))
		if i%5 == 0 {
			hours = uint64(r.Intn(12))
		}
		coins := uint64(1+r.Intn(50)) * 1000000
		addr := w.Addrs[r.Intn(nk.NKeys-1)]
		if i%19 == 7 {
			addr = w.Addrs[nk.LockedKey]
		}
		outs = append(outs, coin.TransactionOutput{Address: addr, Coins: coins, Hours: hours})
		left -= coins
	}
	const hotCoins = 3600000000000000 // 3.6e9 coins: earns 1e6 hours per second
	if hot {
		left -= hotCoins
	}
	outs = append(outs, coin.TransactionOutput{Address: w.Addrs[0], Coins: left, Hours: 1000})
	outs = w.Uniq(outs)
	if hot {
		var sum uint64
		for _, o := range outs {
			sum += o.Hours
		}
		// all the remaining genesis hours: out hours = in hours, no burn => only the block
		// rules accept this transaction, the block is made by hand
		outs = append(outs, coin.TransactionOutput{Address: w.Addrs[1], Coins: hotCoins, Hours: w.Volume - sum - uint64(r.Intn(50))})
	}
	t := w.BuildTxn([]cipher.SHA256{gen.Hash()}, outs, nk.TxOpts{})
	var sb coin.SignedBlock
	if hot {
		sb, err = w.MakeBlock(h.pub, coin.Transactions{t}, nk.GenesisTime+10)
	} else {
		if _, _, err := h.pub.V.InjectForeignTransaction(t); err != nil {
			return nil, fmt.Errorf("split inject: %v", err)
		}
		sb, err = h.pub.V.VerifCreateBlock(nk.GenesisTime + 10)
	}
	if err != nil {
		return nil, fmt.Errorf("split block: %v", err)
	}
	if err := h.pub.V.ExecuteSignedBlock(sb); err != nil {
		return nil, err
	}
	if err := h.n.V.ExecuteSignedBlock(sb); err != nil {
		return nil, err
	}
	w.RecordBlock(sb)
	if hot {
		uxs := coin.CreateUnspents(sb.Head, t)
		ux := uxs[len(uxs)-1]
		h.hot = &ux
	}
	return h, nil
}

// ---- Coq printing

func (h *hst) txnCoq(t coin.Transaction) string {
	head, _ := h.n.V.GetHeadBlock()
	var ins, outs []string
	for _, i := range t.In {
		ins = append(ins, fmt.Sprint(h.w.ID(i)))
	}
	for _, o := range h.w.PredictOutputs(head.Head, t) {
		outs = append(outs, fmt.Sprint(h.w.ID(o)))
	}
	h.allH = append(h.allH, t.Hash())
	return fmt.Sprintf("(mkT %s %s %s)", nk.HashZ(t.Hash()), List(ins), List(outs))
}

func verdictCoq(v nk.Verdict) string {
	return fmt.Sprintf("(mkV %s %s %s %s)", B(v.Hard), B(v.Block), B(v.Soft), B(v.InputsUnspent))
}

func (h *hst) poolObs() (string, []string, error) {
	pool, err := h.n.V.GetAllUnconfirmedTransactions()
	if err != nil {
		return "", nil, err
	}
	var it, js []string
	for _, ut := range pool {
		it = append(it, Tuple(nk.HashZ(ut.Transaction.Hash()), B(ut.IsValid == 1)))
		js = append(js, fmt.Sprintf("%s:%d", ut.Transaction.Hash().Hex()[:12], ut.IsValid))
	}
	return List(it), js, nil
}

func (h *hst) record(opCoq, outCoq string, js map[string]interface{}) error {
	p, jp, err := h.poolObs()
	if err != nil {
		return err
	}
	h.steps = append(h.steps, fmt.Sprintf("mkO %s %s %s", opCoq, outCoq, p))
	js["out"] = outCoq
	js["pool_after"] = jp
	h.jsteps = append(h.jsteps, js)
	return nil
}

// ---- generators

func (h *hst) headTime() uint64 {
	hb, _ := h.n.V.GetHeadBlock()
	return hb.Time()
}

func (h *hst) avail() coin.UxArray {
	uxs, _ := h.n.V.GetAllUnspentOutputs()
	sort.Slice(uxs, func(i, j int) bool {
		a, b := uxs[i].Hash(), uxs[j].Hash()
		return strings.Compare(string(a[:]), string(b[:])) < 0
	})
	var out coin.UxArray
	for _, ux := range uxs {
		if ux.Body.Coins <= 1000000000000 { // not the huge change output
			out = append(out, ux)
		}
	}
	return out
}

func (h *hst) poolTxns() []coin.Transaction {
	pool, _ := h.n.V.GetAllUnconfirmedTransactions()
	var ts []coin.Transaction
	for _, ut := range pool {
		ts = append(ts, ut.Transaction)
	}
	return ts
}

func (h *hst) pick(av coin.UxArray, locked bool) (coin.UxOut, bool) {
	for tries := 0; tries < 100 && len(av) > 0; tries++ {
		ux := av[h.r.Intn(len(av))]
		if (ux.Body.Address == h.w.Addrs[nk.LockedKey]) == locked {
			return ux, true
		}
	}
	return coin.UxOut{}, false
}

// genTxn returns a transaction of a random class and the class name.
func (h *hst) genTxn() (coin.Transaction, string, bool) {
	r, w := h.r, h.w
	av := h.avail()
	ht := h.headTime()
	fresh := func(n int) (coin.UxArray, bool) {
		var ins coin.UxArray
		for len(ins) < n {
			ux, ok := h.pick(av, false)
			if !ok {
				return nil, false
			}
			dup := false
			for _, x := range ins {
				if x.Hash() == ux.Hash() {
					dup = true
				}
			}
			if !dup {
				ins = append(ins, ux)
			}
		}
		return ins, true
	}
	fees := []string{"min", "rand", "rand", "all"}
	mk := func(kind string, o nk.SpendOpts) (coin.Transaction, string, bool) {
		ins, ok := fresh(1 + r.Intn(2))
		if !ok {
			return coin.Transaction{}, "", false
		}
		if o.Fee == "" {
			o.Fee = fees[r.Intn(len(fees))]
		}
		if o.NOut == 0 {
			o.NOut = 1 + r.Intn(3)
		}
		return w.Spend(ins, ht, o), kind, true
	}
	pool := h.poolTxns()
	switch p := r.Intn(100); {
	case p < 23:
		return mk("valid", nk.SpendOpts{})
	case p < 26: // output hours 2^63 and 2^63+k: the sum wraps to k. Hard-invalid for a single
		// transaction ("output hours overflow"), tolerated inside a block
		ins, ok := fresh(1)
		if !ok || ins[0].Body.Coins < 2000 {
			return mk("valid", nk.SpendOpts{})
		}
		k := nk.HoursAt(ins[0], ht)
		if k > 3 {
			k = uint64(r.Intn(4))
		}
		c1 := (ins[0].Body.Coins / 2 / 1000) * 1000
		outs := []coin.TransactionOutput{
			{Address: w.Addrs[1], Coins: c1, Hours: 1 << 63},
			{Address: w.Addrs[2], Coins: ins[0].Body.Coins - c1, Hours: 1<<63 + k},
		}
		return w.BuildTxn([]cipher.SHA256{ins[0].Hash()}, outs, nk.TxOpts{}), "hard-outhours-overflow", true
	case p < 38: // double spend of an input used by a pooled transaction
		if len(pool) == 0 {
			return mk("valid", nk.SpendOpts{})
		}
		pt := pool[r.Intn(len(pool))]
		ux, ok := w.Ux[pt.In[r.Intn(len(pt.In))]]
		if !ok {
			return mk("valid", nk.SpendOpts{})
		}
		ins := coin.UxArray{ux}
		if r.Bool() {
			if more, ok := fresh(1); ok && more[0].Hash() != ux.Hash() {
				ins = append(ins, more[0])
			}
		}
		return w.Spend(ins, ht, nk.SpendOpts{Fee: fees[r.Intn(len(fees))], NOut: 1 + r.Intn(2)}), "double-spend", true
	case p < 48: // re-submission of a transaction seen before (pooled, confirmed or rejected)
		if len(h.seen) == 0 {
			return mk("valid", nk.SpendOpts{})
		}
		if len(pool) > 0 && r.Chance(60) {
			return pool[r.Intn(len(pool))], "resubmit-pooled", true
		}
		return h.seen[r.Intn(len(h.seen))], "resubmit-seen", true
	case p < 54: // spends an output that a pooled (unconfirmed) transaction would create
		if len(pool) == 0 {
			return mk("valid", nk.SpendOpts{})
		}
		pt := pool[r.Intn(len(pool))]
		head, _ := h.n.V.GetHeadBlock()
		ids := w.PredictOutputs(head.Head, pt)
		ux := w.Ux[ids[r.Intn(len(ids))]]
		return w.Spend(coin.UxArray{ux}, ht, nk.SpendOpts{Fee: "rand", NOut: 1}), "chain-unconfirmed", true
	case p < 58: // spends an output that a block already spent
		var spent coin.UxArray
		for hh, ux := range w.Ux {
			if _, err := h.n.V.GetUnspentOutputs([]cipher.SHA256{hh}); err != nil && ux.Head.BkSeq > 0 {
				spent = append(spent, ux)
			}
		}
		if len(spent) == 0 {
			return mk("valid", nk.SpendOpts{})
		}
		sort.Slice(spent, func(i, j int) bool {
			a, b := spent[i].Hash(), spent[j].Hash()
			return strings.Compare(string(a[:]), string(b[:])) < 0
		})
		return w.Spend(coin.UxArray{spent[r.Intn(len(spent))]}, ht, nk.SpendOpts{Fee: "rand", NOut: 1}), "spent-input", true
	case p < 64:
		return mk("soft-lowfee", nk.SpendOpts{Fee: "low"})
	case p < 67:
		return mk("soft-nofee", nk.SpendOpts{Fee: "none"})
	case p < 73:
		return mk("soft-precision", nk.SpendOpts{Precision: true})
	case p < 76:
		ux, ok := h.pick(av, true)
		if !ok {
			return mk("valid", nk.SpendOpts{})
		}
		return w.Spend(coin.UxArray{ux}, ht, nk.SpendOpts{Fee: "rand", NOut: 1 + r.Intn(2)}), "soft-locked", true
	case p < 79: // many outputs: larger than a lowered UnconfirmedVerifyTxn.MaxTransactionSize
		return mk("big", nk.SpendOpts{NOut: 5 + r.Intn(4)})
	case p < 82:
		return mk("user-nulladdr", nk.SpendOpts{NullAddr: true})
	case p < 84:
		return mk("hard-hours", nk.SpendOpts{HoursExtra: 1 + uint64(r.Intn(9))})
	case p < 86:
		return mk("hard-coins-created", nk.SpendOpts{CoinsDelta: 1000})
	case p < 88:
		return mk("hard-coins-destroyed", nk.SpendOpts{CoinsDelta: -1000})
	case p < 89:
		return mk("hard-zerocoin", nk.SpendOpts{ZeroCoin: true})
	case p < 90:
		return mk("hard-dupout", nk.SpendOpts{DupOut: true})
	case p < 92:
		return mk("hard-wrongkey", nk.SpendOpts{Tx: nk.TxOpts{WrongKey: true}})
	case p < 93:
		return mk("hard-nosigs", nk.SpendOpts{Tx: nk.TxOpts{NoSigs: true}})
	case p < 94:
		return mk("hard-nullsig", nk.SpendOpts{Tx: nk.TxOpts{NullSig: true}})
	case p < 95:
		return mk("hard-badinner", nk.SpendOpts{Tx: nk.TxOpts{BadInner: true}})
	case p < 96:
		return mk("hard-badlength", nk.SpendOpts{Tx: nk.TxOpts{BadLength: true}})
	case p < 98:
		return mk("hard-dupinput", nk.SpendOpts{Tx: nk.TxOpts{DupInput: true}})
	default: // an input that never existed
		var fake cipher.SHA256
		copy(fake[:], r.Bytes(32))
		outs := []coin.TransactionOutput{{Address: w.Addrs[1], Coins: 1000000, Hours: 1}}
		return w.BuildTxn([]cipher.SHA256{fake}, outs, nk.TxOpts{}), "hard-unknown-input", true
	}
}

func icls(err error, softFlagged bool) string {
	switch k := nk.ErrKind(err); {
	case k == "" && softFlagged:
		return "ISoftFlagged"
	case k == "":
		return "IOk"
	case k == "hard":
		return "IHard"
	case k == "soft":
		return "ISoftRejected"
	case k == "user":
		return "IUserRejected"
	}
	return ""
}

// ---- operations

func (h *hst) opInject(user bool) error {
	if user && h.r.Chance(12) { // the user rule (no output to the null address) on either user entry point
		av := h.avail()
		if ux, ok := h.pick(av, false); ok {
			t := h.w.Spend(coin.UxArray{ux}, h.headTime(), nk.SpendOpts{Fee: "rand", NOut: 1 + h.r.Intn(2), NullAddr: true})
			return h.opInjectTxn(t, "user-nulladdr", true)
		}
	}
	t, kind, ok := h.genTxn()
	if !ok {
		return nil
	}
	return h.opInjectTxn(t, kind, user)
}

// opInjectHot submits a transaction spending the near-2^64-hours output with no
// output hours: valid while the head is the block that created the output;
// once a block moves the head time forward the input's coin hours overflow, a
// hard violation under the single-transaction rules but not under the block rules.
func (h *hst) opInjectHot(user bool) error {
	t := h.w.Spend(coin.UxArray{*h.hot}, h.headTime(), nk.SpendOpts{Fee: "all", NOut: 1})
	h.hold[t.Hash()] = true
	return h.opInjectTxn(t, "hot-spend", user)
}

func (h *hst) noteDiff(where string, v nk.Verdict) {
	if v.Hard != v.Block {
		h.hist.Add("verdicts-differ(single-vs-block-rules):" + where)
	}
}

func (h *hst) opInjectTxn(t coin.Transaction, kind string, user bool) error {
	h.seen = append(h.seen, t)
	vp := h.n.V.Config.UnconfirmedVerifyTxn
	if user {
		vp = params.UserVerifyTxn
	}
	v, err := h.w.Verify(h.n, t, vp, true)
	if err != nil {
		return err
	}
	h.noteDiff("inject", v)
	tc := h.txnCoq(t)
	js := map[string]interface{}{"kind": kind, "blk": v.Block, "txn": t.Hash().Hex()[:12], "raw": t.MustSerializeHex(),
		"wf": v.Hard, "soft": v.Soft, "inputs_unspent": v.InputsUnspent, "hard_err": v.HardErr, "soft_err": v.SoftErr}
	var opC, outC string
	if user {
		userOK := transaction.VerifySingleTxnUserConstraints(t) == nil
		// both user entry points of the code base: Visor.InjectUserTransaction, and
		// Visor.InjectUserTransactionTx inside WithUpdateTx (daemon.InjectBroadcastTransaction)
		viaTx := h.r.Bool()
		ep := "ViaInjectUserTransaction"
		if viaTx {
			ep = "ViaInjectUserTransactionTx"
		}
		js["op"], js["user_ok"], js["entry"] = "InjectUser", userOK, ep
		opC = fmt.Sprintf("(InjectUser %s %s %s %s)", ep, tc, B(userOK), verdictCoq(v))
		var known bool
		var ierr error
		if Guard(func() {
			if viaTx {
				ierr = h.n.V.WithUpdateTx("harness.InjectBroadcastTransaction", func(tx *dbutil.Tx) error {
					var e error
					known, _, _, e = h.n.V.InjectUserTransactionTx(tx, t)
					return e
				})
				if ierr != nil {
					known = false
				}
			} else {
				known, _, _, ierr = h.n.V.InjectUserTransaction(t)
			}
		}) {
			outC = "OOther"
		} else if c := icls(ierr, false); c != "" {
			outC = fmt.Sprintf("(OInject %s %s)", B(known), c)
		} else {
			outC = "OOther"
			js["err"] = ierr.Error()
		}
		h.hist.Add("user:" + kind + ":" + outC)
		h.hist.Add("entry:" + ep)
	} else {
		js["op"] = "InjectForeign"
		opC = fmt.Sprintf("(InjectForeign %s %s)", tc, verdictCoq(v))
		var known bool
		var softErr *transaction.ErrTxnViolatesSoftConstraint
		var ierr error
		if Guard(func() { known, softErr, ierr = h.n.V.InjectForeignTransaction(t) }) {
			outC = "OOther"
		} else if c := icls(ierr, softErr != nil); c != "" && c != "ISoftRejected" && c != "IUserRejected" {
			outC = fmt.Sprintf("(OInject %s %s)", B(known), c)
		} else {
			outC = "OOther"
			if ierr != nil {
				js["err"] = ierr.Error()
			}
		}
		h.hist.Add("foreign:" + kind + ":" + outC)
	}
	if strings.Contains(outC, "IOk") || strings.Contains(outC, "ISoftFlagged") {
		h.nontr++
	}
	return h.record(opC, outC, js)
}

func (h *hst) verdictList(where string) (string, error) {
	var it []string
	for _, t := range h.poolTxns() {
		v, err := h.w.Verify(h.n, t, h.n.V.Config.UnconfirmedVerifyTxn, true)
		if err != nil {
			return "", err
		}
		h.noteDiff(where, v)
		it = append(it, Tuple(nk.HashZ(t.Hash()), verdictCoq(v)))
	}
	return List(it), nil
}

func hashesCoq(hs []cipher.SHA256) string {
	var it []string
	for _, x := range hs {
		it = append(it, nk.HashZ(x))
	}
	return List(it)
}

func (h *hst) opRefresh() error {
	vl, err := h.verdictList("refresh")
	if err != nil {
		return err
	}
	var hs []cipher.SHA256
	var rerr error
	outC := ""
	if Guard(func() { hs, rerr = h.n.V.RefreshUnconfirmed() }) || rerr != nil {
		outC = "OOther"
	} else {
		outC = "(OHashes " + hashesCoq(hs) + ")"
	}
	h.hist.Add(fmt.Sprintf("refresh:now-valid=%d", len(hs)))
	h.nontr++
	return h.record("(Refresh "+vl+")", outC, map[string]interface{}{"op": "Refresh"})
}

func (h *hst) opRemoveInvalid() error {
	vl, err := h.verdictList("removeinvalid")
	if err != nil {
		return err
	}
	var hs []cipher.SHA256
	var rerr error
	outC := ""
	if Guard(func() { hs, rerr = h.n.V.RemoveInvalidUnconfirmed() }) || rerr != nil {
		outC = "OOther"
	} else {
		outC = "(OHashes " + hashesCoq(hs) + ")"
	}
	h.hist.Add(fmt.Sprintf("removeinvalid:removed=%d", min(len(hs), 3)))
	h.nontr++
	return h.record("(RemoveInvalid "+vl+")", outC, map[string]interface{}{"op": "RemoveInvalid"})
}

func min(a, b int) int {
	if a < b {
		return a
	}
	return b
}

// execOn runs ExecuteSignedBlock on the node under test and records the step.
func (h *hst) execOn(sb coin.SignedBlock, kind string) error {
	head, err := h.n.V.GetHeadBlock()
	if err != nil {
		return err
	}
	hdrOK := sb.Head.BkSeq == head.Head.BkSeq+1 && sb.Head.PrevHash == head.HashHeader() &&
		sb.Head.Time > head.Head.Time && sb.VerifySignature(h.w.Pub) == nil
	var txs []string
	for _, t := range sb.Body.Transactions {
		v, err := h.w.Verify(h.n, t, h.n.V.Config.UnconfirmedVerifyTxn, true)
		if err != nil {
			return err
		}
		h.noteDiff("block", v)
		txs = append(txs, Tuple(h.txnCoq(t), verdictCoq(v)))
	}
	var xerr error
	outC := ""
	if Guard(func() { xerr = h.n.V.ExecuteSignedBlock(sb) }) {
		outC = "OOther"
	} else {
		outC = "(OBlock " + B(xerr == nil) + ")"
	}
	if xerr == nil {
		h.w.RecordBlock(sb)
		h.blocks = append(h.blocks, sb)
		h.nontr++
	}
	h.hist.Add("block:" + kind + ":" + outC)
	return h.record(fmt.Sprintf("(ExecBlock %s %s)", B(hdrOK), List(txs)), outC,
		map[string]interface{}{"op": "ExecBlock", "kind": kind, "hdr_ok": hdrOK, "ntxns": len(sb.Body.Transactions), "time": sb.Head.Time})
}

// opHandmadeBlock executes a block made by hand around one transaction that
// only the block rules accept (its input's coin hours overflow at the head):
// the node must accept it, and the transaction leaves the pool. The publisher
// (arbitrating) would drop such a transaction, so it stops following the chain.
func (h *hst) opHandmadeBlock(t coin.Transaction) error {
	hb, err := h.n.V.GetHeadBlock()
	if err != nil {
		return err
	}
	sb, err := h.w.MakeBlock(h.n, coin.Transactions{t}, hb.Time()+1+uint64(h.r.Intn(20)))
	if err != nil {
		return err
	}
	h.pubOut = true
	return h.execOn(sb, "handmade-block-rules-only")
}

func (h *hst) opBlock() error {
	r := h.r
	if h.pubOut {
		return nil
	}
	if len(h.blocks) > 0 && r.Chance(12) { // replay of a block the node already has
		return h.execOn(h.blocks[r.Intn(len(h.blocks))], "replay")
	}
	// the publisher makes a block from: some of the node's pool, some conflicting /
	// fresh transactions the node has not seen
	cands := []coin.Transaction{}
	for _, t := range h.poolTxns() {
		if r.Chance(55) && !h.hold[t.Hash()] {
			cands = append(cands, t)
		}
	}
	for k := r.Intn(3); k > 0; k-- {
		if t, _, ok := h.genTxn(); ok {
			h.seen = append(h.seen, t)
			cands = append(cands, t)
		}
	}
	for _, t := range cands {
		h.pub.V.InjectForeignTransaction(t) //nolint: errors are expected for invalid candidates
	}
	hb, err := h.pub.V.GetHeadBlock()
	if err != nil {
		return err
	}
	when := hb.Time() + 1 + uint64(r.Intn(20))
	if r.Chance(35) {
		when = hb.Time() + 100000 + uint64(r.Intn(5000000)) // hours accrue: soft verdicts of pooled txns change
	}
	sb, err := h.pub.V.VerifCreateBlock(when)
	if err != nil {
		h.hist.Add("block:none-created")
		return nil
	}
	if r.Chance(8) { // badly signed copy first: must be rejected and change nothing
		bad := sb
		bad.Sig[7] ^= 0x10
		if err := h.execOn(bad, "bad-signature"); err != nil {
			return err
		}
	}
	if err := h.pub.V.ExecuteSignedBlock(sb); err != nil {
		return fmt.Errorf("publisher rejected its own block: %v", err)
	}
	h.pub.V.RemoveInvalidUnconfirmed() //nolint
	return h.execOn(sb, "fresh")
}

func run(args []string) error {
	f := ParseFlags("c06", args)
	r := NewRng(f.Seed)
	n := f.Budget(60, 600)
	if f.Tier == "search" && n > 240 {
		n = 240
	}
	o := NewOut()
	hist := Hist{}
	var cases []string
	var jcases []map[string]interface{}
	var samples []map[string]interface{}
	nOut := 120
	for len(cases) < n {
		hot := len(cases)%3 == 1 && f.Extra != "nohot"
		h, err := newHistory(r, nOut, hist, hot)
		if err != nil {
			return err
		}
		if hot {
			hist.Add("history:with-near-2^64-hours-output")
		}
		var initU []string
		uxs, _ := h.n.V.GetAllUnspentOutputs()
		var ids []int
		for _, ux := range uxs {
			ids = append(ids, h.w.ID(ux.Hash()))
		}
		sort.Ints(ids)
		for _, i := range ids {
			initU = append(initU, fmt.Sprint(i))
		}
		nOps := 20 + r.Intn(25)
		for k := 0; k < nOps; k++ {
			var err error
			if hot && k == 0 {
				if err = h.opInjectHot(r.Chance(30)); err != nil {
					h.close()
					return err
				}
				continue
			}
			switch p := r.Intn(100); {
			case p < 42:
				err = h.opInject(false)
			case p < 62:
				err = h.opInject(true)
			case p < 78:
				err = h.opBlock()
			case p < 89:
				err = h.opRefresh()
			default:
				err = h.opRemoveInvalid()
			}
			if err != nil {
				h.close()
				return err
			}
		}
		if hot {
			// make sure the head moved past the hot output's creation and the passes ran after it
			tail := []func() error{h.opBlock}
			var pooledHot *coin.Transaction
			if r.Bool() {
				tail = append(tail, h.opRefresh)
			}
			if r.Chance(65) {
				tail = append(tail, h.opRemoveInvalid)
			}
			for _, f := range tail {
				if err := f(); err != nil {
					h.close()
					return err
				}
			}
			// a block that only the block rules accept: around the pooled hot spend if it is
			// still pooled, else around a fresh spend of the hot output
			if _, err := h.n.V.GetUnspentOutputs([]cipher.SHA256{h.hot.Hash()}); err == nil && !h.pubOut && r.Chance(70) {
				for _, t := range h.poolTxns() {
					if h.hold[t.Hash()] {
						tt := t
						pooledHot = &tt
					}
				}
				t := h.w.Spend(coin.UxArray{*h.hot}, h.headTime(), nk.SpendOpts{Fee: "all", NOut: 1})
				if pooledHot != nil {
					t = *pooledHot
				}
				if err := h.opHandmadeBlock(t); err != nil {
					h.close()
					return err
				}
			}
		}
		if !nk.DistinctPrefixes(h.allH) {
			h.close()
			return fmt.Errorf("two transaction hashes share their first 8 bytes")
		}
		cases = append(cases, fmt.Sprintf("mkH %s\n    %s", List(initU), "["+strings.Join(h.steps, ";\n     ")+"]"))
		jcases = append(jcases, map[string]interface{}{"steps": h.jsteps, "n_steps": len(h.steps),
			"unconfirmed_params": fmt.Sprintf("%+v", h.n.V.Config.UnconfirmedVerifyTxn)})
		o.Evals += len(h.steps)
		o.Count(strings.Join(h.steps, "|"), h.nontr > 0)
		if len(samples) < 4 {
			var ss []string
			for _, j := range h.jsteps {
				ss = append(ss, fmt.Sprintf("%v/%v -> %v", j["op"], j["kind"], j["out"]))
			}
			samples = append(samples, map[string]interface{}{"history": ss})
		}
		h.close()
	}
	o.Def("cases_c06", "history", cases)
	o.Side["rule"] = "one case = one history of 20-45 operations on a real node (evaluations counts operations + histories); injected transactions: valid, double spends of pooled inputs, re-submissions, spends of unconfirmed / already spent outputs, soft-invalid (fee, precision, locked, size under a lowered UnconfirmedVerifyTxn), user-invalid, 11 malformed kinds; blocks: fresh from a publisher node (small and large time steps), replayed, badly signed; a history is non-trivial when at least one operation changed the pool or the chain; distinct by the full step list"
	o.Side["distribution"] = hist.Sorted()
	o.Side["samples"] = samples
	o.Side["cases"] = map[string]interface{}{"c06": jcases}
	return o.Write(f.Out, f.JSON)
}
