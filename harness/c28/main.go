// Command c28: exploration harness for C28 (no API request can crash the node
// or the request handler).
//
// A REAL node — visor on a bolt file with a chain of a few blocks and an
// unconfirmed pool, a wallet service in a temp dir with plain and encrypted
// wallets, a daemon with networking disabled, a key-value storage manager —
// is put behind the real mux (api.newServerMux) and an httptest server.  Every
// route of the regenerated table is requested with generated and mutated
// parameters / bodies under a per-request watchdog.  The mux is wrapped in a
// recover middleware that records a handler panic as an observation (the real
// net/http server would drop the connection).  Observable per request:
// Answered status | Panic | Hang | transport error; plus "server still answers".
//
// For the modelled part (Model/ApiTotal.v) the harness also records, for every
// request to /api/v2/transaction/verify, the facts the model's decision
// function takes (inputs unspent? known to history? transaction confirmed?
// block seq) and the class of the answer.
package main

import (
	"bytes"
	"encoding/hex"
	"encoding/json"
	"fmt"
	"io/ioutil"
	"net/http"
	"net/http/httptest"
	"net/url"
	"os"
	"os/exec"
	"path/filepath"
	"runtime/debug"
	"sort"
	"strings"
	"sync"
	"time"

	"github.com/boltdb/bolt"

	. "verif/harness/kit"
	nk "verif/harness/nodekit"

	"github.com/skycoin/skycoin/src/api"
	"github.com/skycoin/skycoin/src/cipher"
	"github.com/skycoin/skycoin/src/cipher/bip44"
	"github.com/skycoin/skycoin/src/cipher/crypto"
	"github.com/skycoin/skycoin/src/coin"
	"github.com/skycoin/skycoin/src/daemon"
	"github.com/skycoin/skycoin/src/kvstorage"
	"github.com/skycoin/skycoin/src/params"
	"github.com/skycoin/skycoin/src/readable"
	"github.com/skycoin/skycoin/src/transaction"
	"github.com/skycoin/skycoin/src/util/logging"
	"github.com/skycoin/skycoin/src/util/useragent"
	"github.com/skycoin/skycoin/src/visor"
	"github.com/skycoin/skycoin/src/visor/dbutil"
	"github.com/skycoin/skycoin/src/wallet"
	_ "github.com/skycoin/skycoin/src/wallet/bip44wallet"   // register the wallet types
	_ "github.com/skycoin/skycoin/src/wallet/collection"    //
	_ "github.com/skycoin/skycoin/src/wallet/deterministic" //
	_ "github.com/skycoin/skycoin/src/wallet/xpubwallet"    //
)

type methodSets struct {
	Method string   `json:"method"`
	Sets   []string `json:"sets"`
}
type route struct {
	Path    string       `json:"path"`
	Version string       `json:"version"`
	HasSets bool         `json:"has_sets"`
	Sets    []methodSets `json:"sets"`
	Dynamic bool         `json:"dynamic"`
}
type routesFile struct {
	Routes []route  `json:"routes"`
	Errors []string `json:"errors"`
}

// ---- the node

type node struct {
	w        *nk.World
	dir      string
	db       *dbutil.DB
	v        *visor.Visor
	ws       *wallet.Service
	d        *daemon.Daemon
	kv       *kvstorage.Manager
	srv      *httptest.Server
	panics   *panicLog
	blocks   []coin.SignedBlock
	spent    []coin.UxOut       // outputs spent by confirmed transactions
	unspent  []coin.UxOut       // outputs unspent at the head (not used by the pool)
	pooled   []coin.Transaction // unconfirmed transactions
	confTx   []coin.Transaction // confirmed transactions
	wallets  []string           // wallet ids (file names)
	encWlt   string
	wltAddr  []cipher.Address
	abandon  bool
	xpubAddr []cipher.Address
	collWlt  string
	r        *Rng
	when     uint64
}

type panicLog struct {
	mu   sync.Mutex
	last map[string]string // request id -> panic text
}

func (p *panicLog) wrap(h http.Handler) http.Handler {
	return http.HandlerFunc(func(w http.ResponseWriter, r *http.Request) {
		defer func() {
			if rec := recover(); rec != nil {
				st := string(debug.Stack())
				// keep the frames of skycoin code only
				var fr []string
				for _, ln := range strings.Split(st, "\n") {
					if strings.Contains(ln, "skycoin/src/") && !strings.Contains(ln, "harness") {
						fr = append(fr, strings.TrimSpace(ln))
					}
				}
				if len(fr) > 6 {
					fr = fr[:6]
				}
				p.mu.Lock()
				p.last[r.Header.Get("X-Verif-Req")] = fmt.Sprintf("%v @ %s", rec, strings.Join(fr, " <- "))
				p.mu.Unlock()
				w.WriteHeader(599)
			}
		}()
		h.ServeHTTP(w, r)
	})
}

func (p *panicLog) take(id string) (string, bool) {
	p.mu.Lock()
	defer p.mu.Unlock()
	s, ok := p.last[id]
	delete(p.last, id)
	return s, ok
}

// an account-level extended public key (the one the repository's own tests use)
const testXPub = "xpub6CkxdS1d4vNqqcnf9xPgqR5e2jE2PZKmKSw93QQMjHE1hRk22nU4zns85EDRgmLWYXYtu62XexwqaET33XA28c26NbXCAUJh1xmqq6B3S2v"

const seedPhrase = "chief stadium sniff exhibit ostrich exit fruit noodle good lava coin supply"

func newNode(r *Rng) (*node, error) {
	w, err := nk.NewWorld(r, "c28")
	if err != nil {
		return nil, err
	}
	n := &node{w: w, panics: &panicLog{last: map[string]string{}}}
	if n.dir, err = os.MkdirTemp("", "verif_c28node_"); err != nil {
		return nil, err
	}
	// wallet service with one plain and one encrypted wallet
	bc := bip44.CoinTypeSkycoin
	n.ws, err = wallet.NewService(wallet.Config{WalletDir: filepath.Join(n.dir, "wallets"), CryptoType: crypto.CryptoTypeSha256Xor,
		EnableWalletAPI: true, EnableSeedAPI: true, Bip44Coin: &bc})
	if err != nil {
		return nil, fmt.Errorf("wallet service: %v", err)
	}
	w1, err := n.ws.CreateWallet("plain.wlt", wallet.Options{Type: wallet.WalletTypeDeterministic, Seed: seedPhrase, Label: "plain", GenerateN: 3})
	if err != nil {
		return nil, fmt.Errorf("create wallet: %v", err)
	}
	n.wallets = append(n.wallets, w1.Filename())
	addrs, err := w1.GetAddresses()
	if err != nil {
		return nil, err
	}
	for _, a := range addrs {
		if sa, ok := a.(cipher.Address); ok {
			n.wltAddr = append(n.wltAddr, sa)
		}
	}
	// the plain wallet's keys, so that the harness can sign spends of its outputs itself
	if es, err := w1.GetEntries(); err == nil {
		for _, e := range es {
			if sa, ok := e.Address.(cipher.Address); ok && (e.Secret != cipher.SecKey{}) {
				w.KeyOf[sa] = e.Secret
			}
		}
	}
	w2, err := n.ws.CreateWallet("enc.wlt", wallet.Options{Type: wallet.WalletTypeDeterministic, Seed: "enc " + seedPhrase, Label: "enc", Encrypt: true,
		Password: []byte("pw"), CryptoType: crypto.CryptoTypeSha256Xor, GenerateN: 2})
	if err != nil {
		return nil, fmt.Errorf("create encrypted wallet: %v", err)
	}
	n.wallets = append(n.wallets, w2.Filename())
	n.encWlt = w2.Filename()
	// a watch-only (xpub) wallet, a bip44 wallet, and a collection wallet that holds the same key twice
	if w3, err := n.ws.CreateWallet("xpub.wlt", wallet.Options{Type: wallet.WalletTypeXPub, XPub: testXPub, Label: "xpub", GenerateN: 2}); err == nil {
		n.wallets = append(n.wallets, w3.Filename())
		if as, err := w3.GetAddresses(); err == nil {
			for _, a := range as {
				if sa, ok := a.(cipher.Address); ok {
					n.xpubAddr = append(n.xpubAddr, sa)
				}
			}
		}
	} else {
		return nil, fmt.Errorf("create xpub wallet: %v", err)
	}
	if w4, err := n.ws.CreateWallet("bip44.wlt", wallet.Options{Type: wallet.WalletTypeBip44, Seed: strings.Repeat("abandon ", 11) + "about", Label: "bip44", GenerateN: 2}); err == nil {
		n.wallets = append(n.wallets, w4.Filename())
	}
	if w5, err := n.ws.CreateWallet("coll.wlt", wallet.Options{Type: wallet.WalletTypeCollection, Label: "dup keys",
		CollectionPrivateKeys: []cipher.SecKey{w.Keys[1], w.Keys[2], w.Keys[1]}}); err == nil {
		n.wallets = append(n.wallets, w5.Filename())
		n.collWlt = w5.Filename()
	} else {
		return nil, fmt.Errorf("create collection wallet: %v", err)
	}

	// visor (block publisher) on its own bolt file
	bdb, err := bolt.Open(filepath.Join(n.dir, "data.db"), 0600, &bolt.Options{Timeout: 2 * time.Second})
	if err != nil {
		return nil, err
	}
	bdb.NoSync = true
	n.db = dbutil.WrapDB(bdb)
	cfg := visor.NewConfig()
	cfg.IsBlockPublisher = true
	cfg.Arbitrating = true
	cfg.BlockchainPubkey = w.Pub
	cfg.BlockchainSeckey = w.Sec
	cfg.GenesisAddress = w.Addrs[0]
	cfg.GenesisCoinVolume = nk.GenesisVolume
	cfg.GenesisTimestamp = nk.GenesisTime
	cfg.Distribution = w.Dist
	if n.v, err = visor.New(cfg, n.db, n.ws); err != nil {
		return nil, fmt.Errorf("visor: %v", err)
	}
	if err = n.v.Init(); err != nil {
		return nil, fmt.Errorf("visor init: %v", err)
	}
	g, err := n.v.GetSignedBlockBySeq(0)
	if err != nil || g == nil {
		return nil, fmt.Errorf("genesis: %v", err)
	}
	w.RecordBlock(*g)
	n.blocks = append(n.blocks, *g)

	// block 1 splits the genesis output (some outputs go to the wallet's addresses)
	var gen coin.UxOut
	for _, ux := range w.Ux {
		gen = ux
	}
	left := gen.Body.Coins
	var outs []coin.TransactionOutput
	for i := 0; i < 14; i++ {
		addr := w.Addrs[r.Intn(nk.NKeys-1)]
		if i < 3 && len(n.wltAddr) > i {
			addr = n.wltAddr[i]
		}
		if i >= 3 && i < 5 && len(n.xpubAddr) > i-3 { // the watch-only wallet holds coins too
			addr = n.xpubAddr[i-3]
		}
		coins := uint64(1+r.Intn(50)) * 1000000
		outs = append(outs, coin.TransactionOutput{Address: addr, Coins: coins, Hours: uint64(10 + r.Intn(2000))})
		left -= coins
	}
	outs = append(outs, coin.TransactionOutput{Address: w.Addrs[0], Coins: left, Hours: 1000})
	// phase A: the head is the genesis block and the split transaction waits in the pool
	n.r = r
	n.when = nk.GenesisTime + 10
	split := w.BuildTxn([]cipher.SHA256{gen.Hash()}, w.Uniq(outs), nk.TxOpts{})
	if _, _, err := n.v.InjectForeignTransaction(split); err != nil {
		return nil, fmt.Errorf("inject split: %v", err)
	}
	n.pooled = []coin.Transaction{split}

	// daemon without networking (its pool runs offline so that strand requests are served)
	dc := daemon.NewConfig()
	dc.Daemon.DisableNetworking = true
	dc.Daemon.UserAgent = useragent.Data{Coin: "skycoin", Version: "0.27.0"}
	dc.Daemon.BlockchainPubkey = w.Pub
	dc.Daemon.MaxLastBlocksCount = 256
	dc.Pex.DataDirectory = n.dir
	dc.Pex.DownloadPeerList = false
	dc.Pex.NetworkDisabled = true
	if n.d, err = daemon.New(dc, n.v); err != nil {
		return nil, fmt.Errorf("daemon: %v", err)
	}
	go n.d.Run() //nolint:errcheck

	if n.kv, err = kvstorage.NewManager(kvstorage.Config{StorageDir: filepath.Join(n.dir, "kv"), EnableStorageAPI: true,
		EnabledStorages: []kvstorage.Type{kvstorage.TypeTxIDNotes, kvstorage.TypeGeneral}}); err != nil {
		return nil, fmt.Errorf("kvstorage: %v", err)
	}
	gw := api.NewGateway(n.d, n.v, n.ws, n.kv)
	en := map[string]struct{}{}
	for _, s := range []string{"READ", "STATUS", "TXN", "WALLET", "INSECURE_WALLET_SEED", "NET_CTRL", "STORAGE"} {
		en[s] = struct{}{}
	}
	mux := api.VerifNewServerMux(api.VerifMuxConfig{Host: "127.0.0.1:6420", DisableCSRF: true, DisableHeaderCheck: true, DisableCSP: true,
		EnabledAPISets: en, Health: api.HealthConfig{BuildInfo: readable.BuildInfo{Version: "0.27.0"}, DaemonUserAgent: dc.Daemon.UserAgent}}, gw)
	n.srv = httptest.NewServer(n.panics.wrap(mux))
	return n, nil
}

// mine puts t (already in the pool when inject is false) into the next block.
func (n *node) mine(t coin.Transaction, inject bool) error {
	w := n.w
	if inject {
		if _, _, err := n.v.InjectForeignTransaction(t); err != nil {
			return fmt.Errorf("inject: %v", err)
		}
	}
	sb, err := n.v.VerifCreateBlock(n.when)
	if err != nil {
		return fmt.Errorf("create block: %v", err)
	}
	n.when += 3600 * 24
	if err := n.v.ExecuteSignedBlock(sb); err != nil {
		return fmt.Errorf("execute block: %v", err)
	}
	w.RecordBlock(sb)
	n.blocks = append(n.blocks, sb)
	n.confTx = append(n.confTx, t)
	for _, in := range t.In {
		n.spent = append(n.spent, w.Ux[in])
	}
	return nil
}

func (n *node) ownUnspent() (coin.UxArray, uint64, error) {
	w := n.w
	head, err := n.v.GetHeadBlock()
	if err != nil {
		return nil, 0, err
	}
	var all coin.UxArray
	for h, ux := range w.Ux {
		if _, ok := w.KeyOf[ux.Body.Address]; !ok {
			continue
		}
		if got, err := n.v.GetUnspentOutputs([]cipher.SHA256{h}); err == nil && len(got) == 1 {
			all = append(all, ux)
		}
	}
	sort.Slice(all, func(i, j int) bool {
		a, b := all[i].Hash(), all[j].Hash()
		return bytes.Compare(a[:], b[:]) < 0
	})
	return all, head.Time(), nil
}

// grow is phase B: the pooled split transaction becomes block 1, further
// blocks spend its outputs, and one valid transaction is left in the pool.
func (n *node) grow(nBlocks int) error {
	w := n.w
	if len(n.pooled) != 1 {
		return fmt.Errorf("grow: expected the split transaction in the pool")
	}
	split := n.pooled[0]
	n.pooled = nil
	if err := n.mine(split, false); err != nil {
		return err
	}
	for b := 2; b <= nBlocks; b++ {
		us, ht, err := n.ownUnspent()
		if err != nil {
			return err
		}
		var pick coin.UxArray
		for _, ux := range us {
			if nk.HoursAt(ux, ht) >= 2 && ux.Body.Address != w.Addrs[nk.LockedKey] && len(pick) < 2 {
				pick = append(pick, ux)
			}
		}
		if len(pick) == 0 {
			break
		}
		if err := n.mine(w.Spend(pick[:1], ht, nk.SpendOpts{Fee: "min", NOut: 2}), true); err != nil {
			return err
		}
	}
	us, ht, err := n.ownUnspent()
	if err != nil {
		return err
	}
	for _, ux := range us {
		if nk.HoursAt(ux, ht) >= 2 && ux.Body.Address != w.Addrs[nk.LockedKey] {
			t := w.Spend(coin.UxArray{ux}, ht, nk.SpendOpts{Fee: "min", NOut: 1})
			if _, _, err := n.v.InjectForeignTransaction(t); err == nil {
				n.pooled = append(n.pooled, t)
				break
			}
		}
	}
	inPool := map[cipher.SHA256]bool{}
	for _, t := range n.pooled {
		for _, in := range t.In {
			inPool[in] = true
		}
	}
	n.unspent = nil
	for _, ux := range us {
		if !inPool[ux.Hash()] {
			n.unspent = append(n.unspent, ux)
		}
	}
	return nil
}

// chainTxns returns every transaction of the chain, the genesis transaction included.
func (n *node) chainTxns() []coin.Transaction {
	var out []coin.Transaction
	for _, b := range n.blocks {
		out = append(out, b.Body.Transactions...)
	}
	return out
}

func (n *node) close() {
	if n.abandon {
		// a handler is still running (the unbounded-count witness): do not wait for it
		os.RemoveAll(n.dir)
		n.w.Cleanup()
		return
	}
	if n.srv != nil {
		n.srv.CloseClientConnections()
		done := make(chan struct{})
		go func() { n.srv.Close(); close(done) }()
		select {
		case <-done:
		case <-time.After(3 * time.Second): // a hung handler keeps Close waiting
		}
	}
	if n.d != nil {
		done := make(chan struct{})
		go func() { n.d.Shutdown(); close(done) }()
		select {
		case <-done:
		case <-time.After(5 * time.Second):
		}
	}
	if n.db != nil {
		n.db.Close()
	}
	os.RemoveAll(n.dir)
	n.w.Cleanup()
}

// ---- requests

type reqSpec struct {
	method string
	path   string
	query  url.Values
	ctype  string
	body   string
	note   string // what was generated (for the case record)
}

type obs struct {
	kind   string // "status" | "panic" | "hang" | "transport"
	status int
	detail string
	ms     int64
	raw    []byte
}

func (n *node) do(id string, q reqSpec, timeout time.Duration) obs {
	u := n.srv.URL + q.path
	if len(q.query) > 0 {
		u += "?" + q.query.Encode()
	}
	req, err := http.NewRequest(q.method, u, strings.NewReader(q.body))
	if err != nil {
		return obs{kind: "transport", detail: "request not constructible: " + err.Error()}
	}
	if q.ctype != "" {
		req.Header.Set("Content-Type", q.ctype)
	}
	req.Header.Set("X-Verif-Req", id)
	cl := &http.Client{Timeout: timeout, CheckRedirect: func(*http.Request, []*http.Request) error { return http.ErrUseLastResponse }}
	t0 := time.Now()
	resp, err := cl.Do(req)
	ms := time.Since(t0).Milliseconds()
	if err != nil {
		if ue, ok := err.(*url.Error); ok && ue.Timeout() {
			return obs{kind: "hang", detail: "no response within " + timeout.String(), ms: ms}
		}
		return obs{kind: "transport", detail: err.Error(), ms: ms}
	}
	defer resp.Body.Close()
	body, rerr := ioutil.ReadAll(resp.Body)
	if p, ok := n.panics.take(id); ok {
		return obs{kind: "panic", status: resp.StatusCode, detail: p, ms: ms}
	}
	if rerr != nil {
		if strings.Contains(rerr.Error(), "Timeout") || strings.Contains(rerr.Error(), "deadline") {
			return obs{kind: "hang", detail: "body not complete within " + timeout.String(), ms: ms}
		}
		return obs{kind: "transport", detail: "reading body: " + rerr.Error(), ms: ms}
	}
	d := strings.TrimSpace(string(body))
	if len(d) > 100 {
		d = d[:100]
	}
	return obs{kind: "status", status: resp.StatusCode, detail: d, ms: ms, raw: body}
}

func (n *node) alive() bool {
	for _, p := range []string{"/api/v1/version", "/api/v1/blockchain/metadata", "/api/v1/wallets"} {
		o := n.do("alive", reqSpec{method: "GET", path: p}, 5*time.Second)
		if o.kind != "status" || o.status != 200 {
			return false
		}
	}
	return true
}

// ---- value generators

type gen struct {
	r *Rng
	n *node
}

func (g *gen) pick(xs []string) string { return xs[g.r.Intn(len(xs))] }

func (g *gen) long() string { return strings.Repeat("A", []int{200, 5000, 70000}[g.r.Intn(3)]) }

func (g *gen) garbage() string {
	return g.pick([]string{"", " ", "\x00", "null", "undefined", "-1", "0", "%", "%00", "../../../etc/passwd", "<script>", "'", "\"", "{}", "[]", "[[[[", "ünïcödé", "\xff\xfe", g.long(), "a,b", ",", ",,,,", "1e9", "0x10", "NaN", "true"})
}

func (g *gen) uintS() string {
	n := g.n
	head := uint64(len(n.blocks) - 1)
	switch g.r.Intn(10) {
	case 0, 1, 2:
		return fmt.Sprint(g.r.Intn(int(head) + 2))
	case 3:
		return fmt.Sprint(head + uint64(g.r.Intn(3)))
	case 4:
		return g.pick([]string{"18446744073709551615", "18446744073709551616", "9223372036854775807", "9223372036854775808", "4294967295", "4294967296", "99999999999999999999999999"})
	case 5:
		return g.pick([]string{"-1", "-0", "+1", "1.5", "1e3", "0x10", "01", " 1", "1 ", "١", "NaN", "Inf", ""})
	case 6:
		return fmt.Sprint(g.r.U64Edge())
	case 7:
		return g.pick([]string{"0", "1", "2", "100", "101", "1000"})
	default:
		return g.garbage()
	}
}

func (g *gen) boolS() string {
	return g.pick([]string{"true", "false", "1", "0", "TRUE", "t", "f", "maybe", "", "2", "yes", "null"})
}

func (g *gen) addr() string {
	n := g.n
	var good []string
	for _, a := range n.w.Addrs {
		good = append(good, a.String())
	}
	for _, a := range n.wltAddr {
		good = append(good, a.String())
	}
	switch g.r.Intn(8) {
	case 0, 1, 2, 3:
		return g.pick(good)
	case 4:
		a := g.pick(good)
		i := g.r.Intn(len(a))
		return a[:i] + "1" + a[i+1:] // corrupt one character (checksum)
	case 5:
		a := g.pick(good)
		return a[:g.r.Intn(len(a))]
	case 6:
		return cipher.AddressFromPubKey(cipher.MustPubKeyFromHex("02fa939957e9fc52140e180264e621c2576a1bfe781f88792fb315ca3d1786afb8")).String() // valid, unknown to the chain
	default:
		return g.garbage()
	}
}

func (g *gen) addrList() string {
	switch g.r.Intn(6) {
	case 0:
		return g.addr()
	case 1:
		return g.addr() + "," + g.addr()
	case 2:
		a := g.addr()
		return a + "," + a + ", " + a
	case 3:
		var xs []string
		for i := 0; i < []int{50, 1500}[g.r.Intn(2)]; i++ {
			xs = append(xs, g.addr())
		}
		return strings.Join(xs, ",")
	case 4:
		return g.addr() + ",," + g.garbage()
	default:
		return g.garbage()
	}
}

func (g *gen) hash() string {
	n := g.n
	var good []string
	for _, t := range n.chainTxns() {
		good = append(good, t.Hash().Hex())
	}
	for h := range n.w.Ux {
		good = append(good, h.Hex())
	}
	sort.Strings(good)
	for _, t := range n.pooled {
		good = append(good, t.Hash().Hex())
	}
	for _, ux := range n.spent {
		good = append(good, ux.Hash().Hex())
	}
	for _, ux := range n.unspent {
		good = append(good, ux.Hash().Hex())
	}
	for _, b := range n.blocks {
		good = append(good, b.HashHeader().Hex())
	}
	switch g.r.Intn(9) {
	case 0, 1, 2, 3:
		return g.pick(good)
	case 4:
		h := g.pick(good)
		return h[:len(h)-1-g.r.Intn(3)]
	case 5:
		return strings.ToUpper(g.pick(good))
	case 6:
		return g.pick([]string{strings.Repeat("0", 64), strings.Repeat("f", 64), strings.Repeat("0", 63), strings.Repeat("0", 65), strings.Repeat("g", 64), "0x" + strings.Repeat("0", 62)})
	case 7:
		return hex.EncodeToString(g.r.Bytes(32))
	default:
		return g.garbage()
	}
}

func (g *gen) hashList() string {
	switch g.r.Intn(4) {
	case 0:
		return g.hash()
	case 1:
		return g.hash() + "," + g.hash()
	case 2:
		var xs []string
		for i := 0; i < 300; i++ {
			xs = append(xs, g.hash())
		}
		return strings.Join(xs, ",")
	default:
		return g.hash() + ",,"
	}
}

func (g *gen) walletID() string {
	switch g.r.Intn(7) {
	case 0, 1, 2:
		return g.pick(g.n.wallets)
	case 3:
		return g.pick([]string{"nonexistent.wlt", "plain", "plain.wlt.bak", "../plain.wlt", "/etc/passwd", "plain.wlt\x00", ".", ".."})
	case 4:
		return g.long()
	default:
		return g.garbage()
	}
}

func (g *gen) password() string {
	return g.pick([]string{"pw", "", "wrong", g.long(), "pw\x00", " pw"})
}

func (g *gen) seed() string {
	return g.pick([]string{seedPhrase, "enc " + seedPhrase, "", "abc", "chief stadium sniff", strings.Repeat("abandon ", 11) + "about", strings.Repeat("abandon ", 12), g.long(), "ünï cödé"})
}

func (g *gen) amount() string {
	if g.r.Chance(6) {
		return g.pick(hugeDecimals())
	}
	return g.pick([]string{"1", "0.001", "0.000001", "0.0000001", "0", "-1", "1e3", "1e30", "1e400", "1e20000", "9223372036854.775807", "9223372036854.775808", "18446744073709551615", "1.", ".1", "", "abc", "1,5", "0x1", " 1", "1e-7", "00001", "+1", "NaN", "Infinity"})
}

// hugeDecimals: decimal strings whose value or exponent is enormous.  Comparing or
// converting such a shopspring/decimal value materialises 10^|exponent|.
// (1e99999999 needs > 20 s and ~130 MB there; 1e999999999 ten times that.)
var bigDigits = 200000 // digits of the long digit strings (10^6 in the thorough tier; parsing them is quadratic)

func hugeDecimals() []string {
	return []string{"1e99999999", "1e-99999999", "-1e99999999", "0e99999999", "1e999999999", "1e-999999999", "1e2147483647", "1e-2147483648", "1e2147483648",
		"0." + strings.Repeat("0", bigDigits) + "1", strings.Repeat("9", bigDigits), "0." + strings.Repeat("9", bigDigits)}
}

func (g *gen) rawTxn() string {
	n := g.n
	enc := func(t coin.Transaction) string {
		b, err := t.Serialize()
		if err != nil {
			return ""
		}
		return hex.EncodeToString(b)
	}
	ht := n.blocks[len(n.blocks)-1].Time()
	switch g.r.Intn(12) {
	case 0: // a fresh valid spend
		if len(n.unspent) > 0 {
			ux := n.unspent[g.r.Intn(len(n.unspent))]
			return enc(n.w.Spend(coin.UxArray{ux}, ht, nk.SpendOpts{Fee: "min", NOut: 1 + g.r.Intn(2)}))
		}
	case 1: // a confirmed transaction (the genesis transaction included)
		ct := n.chainTxns()
		return enc(ct[g.r.Intn(len(ct))])
	case 2: // the pooled transaction
		if len(n.pooled) > 0 {
			return enc(n.pooled[0])
		}
	case 3, 4: // F6 shape: a NEW transaction spending an output a confirmed transaction already spent
		if len(n.spent) > 0 {
			ux := n.spent[g.r.Intn(len(n.spent))]
			return enc(n.w.Spend(coin.UxArray{ux}, ht, nk.SpendOpts{Fee: "min", NOut: 1 + g.r.Intn(2)}))
		}
	case 5: // one spent and one unspent input
		if len(n.spent) > 0 && len(n.unspent) > 0 {
			return enc(n.w.Spend(coin.UxArray{n.unspent[g.r.Intn(len(n.unspent))], n.spent[g.r.Intn(len(n.spent))]}, ht, nk.SpendOpts{Fee: "min", NOut: 1}))
		}
	case 6: // input unknown to the node
		var t coin.Transaction
		t.In = []cipher.SHA256{cipher.SumSHA256(g.r.Bytes(8))}
		t.Out = []coin.TransactionOutput{{Address: n.w.Addrs[1], Coins: 1000000, Hours: 1}}
		t.Sigs = []cipher.Sig{{}}
		t.InnerHash = t.HashInner()
		t.UpdateHeader() //nolint:errcheck
		return enc(t)
	case 7: // semantic mutations of a valid spend
		if len(n.unspent) > 0 {
			ux := n.unspent[g.r.Intn(len(n.unspent))]
			o := nk.SpendOpts{Fee: g.pick([]string{"min", "low", "none", "all"}), NOut: 1 + g.r.Intn(3)}
			switch g.r.Intn(8) {
			case 0:
				o.Tx.WrongKey = true
			case 1:
				o.Tx.NoSigs = true
			case 2:
				o.Tx.BadInner = true
			case 3:
				o.Tx.DupInput = true
			case 4:
				o.ZeroCoin = true
			case 5:
				o.DupOut = true
			case 6:
				o.CoinsDelta = 1000
			case 7:
				o.HoursExtra = 1 << 62
			}
			return enc(n.w.Spend(coin.UxArray{ux}, ht, o))
		}
	case 8: // byte-level damage of a valid encoding
		if len(n.confTx) > 0 {
			b, _ := n.confTx[g.r.Intn(len(n.confTx))].Serialize()
			switch g.r.Intn(4) {
			case 0:
				b = b[:g.r.Intn(len(b))]
			case 1:
				b[g.r.Intn(len(b))] ^= byte(1 + g.r.Intn(255))
			case 2:
				b = append(b, g.r.Bytes(1+g.r.Intn(40))...)
			case 3:
				i := g.r.Intn(len(b) - 4)
				copy(b[i:], []byte{0xff, 0xff, 0xff, 0xff}) // a length prefix of 4 GiB somewhere
			}
			return hex.EncodeToString(b)
		}
	case 9:
		return hex.EncodeToString(g.r.Bytes(g.r.Intn(300)))
	case 10: // empty transaction
		var t coin.Transaction
		return enc(t)
	}
	return g.garbage()
}

// jsonVal renders a JSON value of a kind — or of a wrong kind.
func (g *gen) jsonVal(kind string) interface{} {
	if g.r.Chance(12) { // wrong type
		return []interface{}{nil, 1, -1, 1.5, true, "x", []interface{}{}, map[string]interface{}{}, []interface{}{1, "a"}, 1e300, json.Number("1e999"), json.Number("18446744073709551616")}[g.r.Intn(12)]
	}
	switch kind {
	case "addr":
		return g.addr()
	case "addrs":
		k := g.r.Intn(4)
		xs := []interface{}{}
		for i := 0; i < k; i++ {
			xs = append(xs, g.addr())
		}
		return xs
	case "hashes":
		k := g.r.Intn(4)
		xs := []interface{}{}
		for i := 0; i < k; i++ {
			xs = append(xs, g.hash())
		}
		return xs
	case "wallet":
		return g.walletID()
	case "password":
		return g.password()
	case "seed":
		return g.seed()
	case "rawtx":
		return g.rawTxn()
	case "bool":
		return g.r.Bool()
	case "amount":
		return g.amount()
	case "uintS":
		return g.uintS()
	case "string":
		return g.garbage()
	case "ints":
		k := g.r.Intn(4)
		xs := []interface{}{}
		for i := 0; i < k; i++ {
			xs = append(xs, []interface{}{0, 1, 2, -1, 1 << 40, 255}[g.r.Intn(6)])
		}
		return xs
	case "hours_selection":
		hs := map[string]interface{}{"type": g.pick([]string{"auto", "manual", "", "x"})}
		if g.r.Bool() {
			hs["mode"] = g.pick([]string{"share", "", "x"})
		}
		if g.r.Bool() {
			hs["share_factor"] = g.pick([]string{"0.5", "0", "1", "1.1", "-1", "abc", "1e9999", "0.25", "1.0", "1e-30", "1e99999999", "1e-99999999", "0e99999999"})
		}
		return hs
	case "to":
		k := 1 + g.r.Intn(3)
		if g.r.Chance(10) {
			k = 0
		}
		xs := []interface{}{}
		for i := 0; i < k; i++ {
			to := map[string]interface{}{"address": g.addr(), "coins": g.amount()}
			if g.r.Bool() {
				to["hours"] = g.uintS()
			}
			xs = append(xs, to)
		}
		return xs
	case "stype":
		return g.pick([]string{"txid", "client", "", "unknown", g.long()})
	}
	return nil
}

type field struct{ name, kind string }

func (g *gen) jsonBody(fields []field) string {
	switch g.r.Intn(14) {
	case 0:
		return g.pick([]string{"", "{", "}", "[]", "null", "\"x\"", "{\"a\":", "{\"a\":1,}", "\xff\xfe", "{}{}", strings.Repeat("[", 100000), strings.Repeat("{\"a\":", 5000) + "1" + strings.Repeat("}", 5000)})
	case 1:
		return "{}"
	}
	m := map[string]interface{}{}
	for _, f := range fields {
		if g.r.Chance(85) {
			m[f.name] = g.jsonVal(f.kind)
		}
	}
	if g.r.Chance(10) {
		m["unexpected_field"] = g.garbage()
	}
	b, err := json.Marshal(m)
	if err != nil {
		return "{}"
	}
	return string(b)
}

// what each endpoint reads: query / form parameters (name, kind) and JSON body fields
type endpoint struct {
	params []field
	body   []field
}

var endpoints = map[string]endpoint{
	"/api/v1/health":                        {},
	"/api/v1/version":                       {},
	"/api/v1/csrf":                          {},
	"/":                                     {},
	"/api/v1/wallet":                        {params: []field{{"id", "wallet"}}},
	"/api/v1/wallet/create":                 {params: []field{{"seed", "seed"}, {"label", "string"}, {"scan", "count"}, {"encrypt", "bool"}, {"password", "password"}, {"type", "wtype"}, {"xpub", "string"}, {"seed-passphrase", "string"}, {"bip44-coin", "uintS"}}},
	"/api/v1/wallet/createTemp":             {params: []field{{"seed", "seed"}, {"label", "string"}, {"scan", "count"}, {"type", "wtype"}, {"xpub", "string"}}},
	"/api/v1/wallet/newAddress":             {params: []field{{"id", "wallet"}, {"num", "count"}, {"password", "password"}}},
	"/api/v1/wallet/scan":                   {params: []field{{"id", "wallet"}, {"num", "count"}, {"password", "password"}}},
	"/api/v1/wallet/balance":                {params: []field{{"id", "wallet"}}},
	"/api/v1/wallet/transaction":            {body: []field{{"wallet_id", "wallet"}, {"password", "password"}, {"unsigned", "bool"}, {"hours_selection", "hours_selection"}, {"addresses", "addrs"}, {"unspents", "hashes"}, {"change_address", "addr"}, {"to", "to"}, {"ignore_unconfirmed", "bool"}}},
	"/api/v2/wallet/transaction/sign":       {body: []field{{"wallet_id", "wallet"}, {"password", "password"}, {"encoded_transaction", "rawtx"}, {"sign_indexes", "ints"}}},
	"/api/v1/wallet/transactions":           {params: []field{{"id", "wallet"}, {"verbose", "bool"}}},
	"/api/v1/wallet/update":                 {params: []field{{"id", "wallet"}, {"label", "string"}}},
	"/api/v1/wallets":                       {},
	"/api/v1/wallets/folderName":            {},
	"/api/v1/wallet/newSeed":                {params: []field{{"entropy", "uintS"}}},
	"/api/v1/wallet/seed":                   {params: []field{{"id", "wallet"}, {"password", "password"}}},
	"/api/v2/wallet/seed/verify":            {body: []field{{"seed", "seed"}}},
	"/api/v1/wallet/unload":                 {params: []field{{"id", "wallet"}}},
	"/api/v1/wallet/encrypt":                {params: []field{{"id", "walletfast"}, {"password", "password"}}},
	"/api/v1/wallet/decrypt":                {params: []field{{"id", "walletfast"}, {"password", "password"}}},
	"/api/v2/wallet/recover":                {body: []field{{"id", "wallet"}, {"seed", "seed"}, {"seed_passphrase", "string"}, {"password", "password"}}},
	"/api/v1/blockchain/metadata":           {},
	"/api/v1/blockchain/progress":           {},
	"/api/v1/block":                         {params: []field{{"hash", "hash"}, {"seq", "uintS"}, {"verbose", "bool"}}},
	"/api/v1/blocks":                        {params: []field{{"start", "uintS"}, {"end", "uintS"}, {"seqs", "uintList"}, {"verbose", "bool"}}},
	"/api/v1/last_blocks":                   {params: []field{{"num", "uintS"}, {"verbose", "bool"}}},
	"/api/v1/network/connection":            {params: []field{{"addr", "netaddr"}}},
	"/api/v1/network/connections":           {params: []field{{"states", "string"}, {"direction", "string"}}},
	"/api/v1/network/defaultConnections":    {},
	"/api/v1/network/connections/trust":     {},
	"/api/v1/network/connections/exchange":  {},
	"/api/v1/network/connection/disconnect": {params: []field{{"id", "uintS"}}},
	"/api/v1/pendingTxs":                    {params: []field{{"verbose", "bool"}}},
	"/api/v1/transaction":                   {params: []field{{"txid", "hash"}, {"verbose", "bool"}, {"encoded", "bool"}}},
	"/api/v2/transaction":                   {body: []field{{"hours_selection", "hours_selection"}, {"addresses", "addrs"}, {"unspents", "hashes"}, {"change_address", "addr"}, {"to", "to"}, {"ignore_unconfirmed", "bool"}}},
	"/api/v2/transaction/verify":            {body: []field{{"encoded_transaction", "rawtx"}, {"unsigned", "bool"}}},
	"/api/v1/transactions":                  {params: []field{{"addrs", "addrs"}, {"confirmed", "bool"}, {"verbose", "bool"}}},
	"/api/v1/transactions/num":              {},
	"/api/v2/transactions":                  {params: []field{{"addrs", "addrs"}, {"confirmed", "bool"}, {"verbose", "bool"}, {"page", "uintS"}, {"limit", "uintS"}, {"sort", "sort"}}},
	"/api/v1/injectTransaction":             {body: []field{{"rawtx", "rawtx"}, {"no_broadcast", "bool"}}},
	"/api/v1/resendUnconfirmedTxns":         {},
	"/api/v1/rawtx":                         {params: []field{{"txid", "hash"}}},
	"/api/v1/outputs":                       {params: []field{{"addrs", "addrs"}, {"hashes", "hashes"}}},
	"/api/v1/balance":                       {params: []field{{"addrs", "addrs"}}},
	"/api/v1/uxout":                         {params: []field{{"uxid", "hash"}}},
	"/api/v1/address_uxouts":                {params: []field{{"address", "addr"}}},
	"/api/v2/address/verify":                {body: []field{{"address", "addr"}}},
	"/api/v1/coinSupply":                    {},
	"/api/v1/richlist":                      {params: []field{{"n", "uintS"}, {"include-distribution", "bool"}}},
	"/api/v1/addresscount":                  {},
	"/api/v2/data":                          {params: []field{{"type", "stype"}, {"key", "string"}}, body: []field{{"type", "stype"}, {"key", "string"}, {"val", "string"}}},
}

func (g *gen) paramVal(kind string) string {
	if g.r.Chance(10) {
		return g.garbage()
	}
	switch kind {
	case "wallet":
		return g.walletID()
	case "walletfast":
		// encrypt / decrypt: only wallets whose file says sha256-xor.  The other wallet
		// types take the default scrypt (N=2^20: 1 GiB and seconds per call, much more on a
		// loaded machine) and hold the wallet lock meanwhile, which the watchdog cannot
		// tell from a hang
		if g.r.Chance(60) {
			return g.pick([]string{"plain.wlt", g.n.encWlt})
		}
		return g.pick([]string{"nonexistent.wlt", "", "../plain.wlt", g.long(), g.garbage()})
	case "seed":
		return g.seed()
	case "password":
		return g.password()
	case "uintS":
		return g.uintS()
	case "count":
		// how many addresses to generate / scan: the work is proportional to the
		// number, and nothing bounds it (see the unbounded_count witness at the end
		// of the run), so the main stream keeps valid counts small
		return g.pick([]string{"0", "1", "2", "3", "7", "20", "50", "", "-1", "1.5", "1e3", "0x10", " 1", "18446744073709551616", "99999999999999999999999999", "NaN", "٣"})
	case "uintList":
		k := g.r.Intn(5)
		var xs []string
		for i := 0; i < k; i++ {
			xs = append(xs, g.uintS())
		}
		if g.r.Chance(10) {
			for i := 0; i < 2000; i++ {
				xs = append(xs, fmt.Sprint(g.r.Intn(8)))
			}
		}
		return strings.Join(xs, ",")
	case "bool":
		return g.boolS()
	case "hash":
		return g.hash()
	case "hashes":
		return g.hashList()
	case "addr":
		return g.addr()
	case "addrs":
		return g.addrList()
	case "wtype":
		return g.pick([]string{"deterministic", "bip44", "xpub", "collection", "", "x"})
	case "sort":
		return g.pick([]string{"asc", "desc", "ASC", " desc ", "", "x"})
	case "netaddr":
		return g.pick([]string{"127.0.0.1:6000", "1.2.3.4:5", "", "x", "[::1]:6000", "1.2.3.4", g.long()})
	case "stype":
		return g.pick([]string{"txid", "client", "", "unknown"})
	case "string":
		return g.garbage()
	}
	return g.garbage()
}

func (g *gen) request(rt route, method string) reqSpec {
	ep, known := endpoints[rt.Path]
	q := reqSpec{method: method, path: rt.Path, query: url.Values{}}
	if !known {
		q.note = "endpoint not in the harness catalogue: generic parameters"
		ep = endpoint{params: []field{{"id", "wallet"}, {"addrs", "addrs"}, {"n", "uintS"}}, body: []field{{"id", "wallet"}, {"address", "addr"}}}
	}
	vals := url.Values{}
	for _, f := range ep.params {
		if g.r.Chance(75) {
			vals.Set(f.name, g.paramVal(f.kind))
			if g.r.Chance(5) {
				vals.Add(f.name, g.paramVal(f.kind)) // repeated parameter
			}
		}
	}
	if g.r.Chance(8) {
		vals.Set(g.pick([]string{"verbose", "id", "page", "limit", "x"}), g.garbage())
	}
	jsonBody := len(ep.body) > 0 || rt.Version == "v2"
	switch {
	case method == "GET" || method == "DELETE" || method == "HEAD" || method == "OPTIONS":
		q.query = vals
		if g.r.Chance(5) && jsonBody {
			q.body = g.jsonBody(ep.body)
			q.ctype = "application/json"
		}
	case jsonBody:
		q.body = g.jsonBody(ep.body)
		q.ctype = "application/json"
		if g.r.Chance(6) {
			q.ctype = g.pick([]string{"", "text/plain", "application/x-www-form-urlencoded", "application/json; charset=utf-8", "application/jsonx"})
		}
		if g.r.Chance(10) {
			q.query = vals
		}
	default:
		// v1 POST/PUT: form parameters in the body or in the query
		if g.r.Chance(80) {
			q.body = vals.Encode()
			q.ctype = "application/x-www-form-urlencoded"
		} else {
			q.query = vals
		}
		if g.r.Chance(4) {
			q.ctype = "multipart/form-data; boundary=x"
			q.body = "--x\r\nContent-Disposition: form-data; name=\"id\"\r\n\r\n" + g.walletID() + "\r\n--x--\r\n"
		}
	}
	return q
}

// ---- facts for the modelled decision of VerifyTxnVerbose

type vtvFacts struct {
	ok        bool
	coq       string // Build_vfacts term
	summary   string
	nIn       int
	confirmed bool
}

// facts computes, with the node's read API and the transaction package directly
// (not through VerifyTxnVerbose), what the model's decision function takes.
func (n *node) facts(encoded string, unsigned bool) vtvFacts {
	var f vtvFacts
	b, err := hex.DecodeString(encoded)
	if err != nil {
		return f
	}
	var t coin.Transaction
	if Guard(func() { t, err = coin.DeserializeTransaction(b) }) || err != nil {
		return f
	}
	head, err := n.v.GetHeadBlock()
	if err != nil || head == nil {
		return f
	}
	f.ok = true
	f.nIn = len(t.In)
	allUnspent, allHist := true, true
	var ins []string
	var uxaHist coin.UxArray
	for _, in := range t.In {
		_, uerr := n.v.GetUnspentOutputs([]cipher.SHA256{in})
		unspent := uerr == nil
		hux, _, herr := n.v.GetUxOutByID(in)
		inHist := herr == nil && hux != nil
		if inHist {
			uxaHist = append(uxaHist, hux.Out)
		}
		allUnspent = allUnspent && unspent
		allHist = allHist && inHist
		ins = append(ins, fmt.Sprintf("(Build_vin %s %s)", B(unspent), B(inHist)))
	}
	histTxn, prev := "LNil", "LNil"
	var feeTime uint64
	if ht, err := n.v.GetTransaction(t.Hash()); err == nil && ht != nil && ht.Status.Confirmed {
		f.confirmed = true
		histTxn = fmt.Sprintf("(LFound %d)", ht.Status.BlockSeq)
		if ht.Status.BlockSeq > 0 {
			if pb, err := n.v.GetSignedBlockBySeq(ht.Status.BlockSeq - 1); err == nil && pb != nil {
				prev = fmt.Sprintf("(LFound %d)", pb.Time())
				feeTime = pb.Time()
			}
		}
	}
	user, soft, hard, inputsErr := true, true, true, false
	if allUnspent {
		uxa, _ := n.v.GetUnspentOutputs(t.In)
		sf := transaction.TxnSigned
		if unsigned {
			sf = transaction.TxnUnsigned
		}
		Guard(func() {
			user = transaction.VerifySingleTxnUserConstraints(t) == nil
			soft = transaction.VerifySingleTxnSoftConstraints(t, head.Time(), uxa, n.v.Config.Distribution, params.UserVerifyTxn) == nil
			hard = transaction.VerifySingleTxnHardConstraints(t, head.Head, uxa, sf) == nil
		})
		if len(uxa) > 0 && head.Time() != 0 {
			_, e := visor.NewTransactionInputs(uxa, head.Time())
			inputsErr = e != nil
		}
	} else if allHist && f.confirmed && feeTime != 0 {
		_, e := visor.NewTransactionInputs(uxaHist, feeTime)
		inputsErr = e != nil
	}
	f.coq = fmt.Sprintf("(Build_vfacts false %d %s false false %s %s %s %s %s %s)", head.Time(), List(ins), histTxn, prev, B(user), B(soft), B(hard), B(inputsErr))
	f.summary = fmt.Sprintf("all_unspent=%v all_in_history=%v confirmed=%v user=%v soft=%v hard=%v", allUnspent, allHist, f.confirmed, user, soft, hard)
	return f
}

func main() { Main(run) }

// ---- concurrency phase.  A data race on a map is a FATAL runtime error: it cannot be
// recovered and kills the whole process, so the node of this phase lives in a child
// process (this binary re-executed with VERIF_C28_CHILD=concurrency).  The child
// builds a node, lets 32 client goroutines send 40 GETs each (distinct valid
// addresses per request on the endpoints that take addrs, mixed with other cheap
// GETs), checks that the node still answers, prints one JSON line and exits 0.

type concResult struct {
	Requests    int    `json:"requests"`
	Answered    int    `json:"answered"`
	NotAnswered int    `json:"not_answered"`
	Panics      int    `json:"handler_panics"`
	AliveAfter  bool   `json:"alive_after"`
	FirstBad    string `json:"first_bad,omitempty"`
}

func concurrencyChild(args []string) error {
	f := ParseFlags("c28", args)
	logging.Disable()
	r := NewRng(f.Seed ^ 0x5eed)
	n, err := newNode(r)
	if err != nil {
		return err
	}
	if err := n.grow(3); err != nil {
		return err
	}
	const clients, per = 32, 40
	// distinct valid addresses, never seen by the node before
	fresh := make([]string, clients*per*3)
	for i := range fresh {
		pk, _ := cipher.MustGenerateDeterministicKeyPair(append([]byte("conc"), r.Bytes(16)...))
		fresh[i] = cipher.AddressFromPubKey(pk).String()
	}
	known := n.w.Addrs[1].String()
	var mu sync.Mutex
	res := concResult{}
	var wg sync.WaitGroup
	start := make(chan struct{})
	for c := 0; c < clients; c++ {
		wg.Add(1)
		go func(c int) {
			defer wg.Done()
			<-start
			for k := 0; k < per; k++ {
				a, b, d := fresh[(c*per+k)*3], fresh[(c*per+k)*3+1], fresh[(c*per+k)*3+2]
				var q reqSpec
				switch (c + k) % 8 {
				case 0:
					q = reqSpec{method: "GET", path: "/api/v1/outputs", query: url.Values{"addrs": {a + "," + b}}}
				case 1:
					q = reqSpec{method: "GET", path: "/api/v1/balance", query: url.Values{"addrs": {a + "," + known + "," + d}}}
				case 2:
					q = reqSpec{method: "GET", path: "/api/v1/transactions", query: url.Values{"addrs": {a}, "verbose": {"1"}}}
				case 3:
					q = reqSpec{method: "GET", path: "/api/v2/transactions", query: url.Values{"addrs": {b + "," + a}}}
				case 4:
					q = reqSpec{method: "GET", path: "/api/v1/address_uxouts", query: url.Values{"address": {a}}}
				case 5:
					q = reqSpec{method: "GET", path: "/api/v1/outputs", query: url.Values{"addrs": {d + "," + a + "," + b}}}
				case 6:
					if k%2 == 0 {
						q = reqSpec{method: "GET", path: "/api/v1/blockchain/metadata"}
					} else {
						q = reqSpec{method: "GET", path: "/api/v1/pendingTxs", query: url.Values{"verbose": {"1"}}}
					}
				default:
					q = reqSpec{method: "GET", path: "/api/v1/blocks", query: url.Values{"start": {"0"}, "end": {"3"}}}
				}
				ob := n.do(fmt.Sprintf("c%d-%d", c, k), q, 20*time.Second)
				mu.Lock()
				res.Requests++
				switch {
				case ob.kind == "status" && ob.status >= 100 && ob.status < 599:
					res.Answered++
				case ob.kind == "panic":
					res.Panics++
					if res.FirstBad == "" {
						res.FirstBad = q.path + "?" + q.query.Encode() + ": " + ob.detail
					}
				default:
					res.NotAnswered++
					if res.FirstBad == "" {
						res.FirstBad = q.path + "?" + q.query.Encode() + ": " + ob.kind + " " + ob.detail
					}
				}
				mu.Unlock()
			}
		}(c)
	}
	close(start)
	wg.Wait()
	res.AliveAfter = n.alive()
	b, _ := json.Marshal(res)
	fmt.Println(string(b))
	n.abandon = true
	n.close()
	return nil
}

// runConcurrencyChild re-executes this binary as the node process of the concurrency phase.
func runConcurrencyChild(args []string) (concResult, bool, string) {
	var out, errb bytes.Buffer
	cmd := exec.Command(os.Args[0], args...)
	cmd.Env = append(os.Environ(), "VERIF_C28_CHILD=concurrency")
	cmd.Stdout, cmd.Stderr = &out, &errb
	done := make(chan error, 1)
	if err := cmd.Start(); err != nil {
		return concResult{}, false, "could not start the child: " + err.Error()
	}
	go func() { done <- cmd.Wait() }()
	var werr error
	select {
	case werr = <-done:
	case <-time.After(150 * time.Second):
		cmd.Process.Kill() //nolint:errcheck
		werr = fmt.Errorf("child did not finish within 150 s")
	}
	var res concResult
	lines := strings.Split(strings.TrimSpace(out.String()), "\n")
	ok := werr == nil && json.Unmarshal([]byte(lines[len(lines)-1]), &res) == nil
	tail := errb.String()
	if i := strings.Index(tail, "fatal error"); i >= 0 {
		tail = tail[i:]
	}
	if len(tail) > 1500 {
		tail = tail[:1500]
	}
	if werr != nil {
		tail = werr.Error() + ": " + tail
	}
	return res, ok, tail
}

func run(args []string) error {
	if os.Getenv("VERIF_C28_CHILD") == "concurrency" {
		return concurrencyChild(args)
	}
	f := ParseFlags("c28", args)
	logging.Disable()
	r := NewRng(f.Seed)
	o := NewOut()
	hist := Hist{}
	// the concurrency phase runs in its own node process, alongside the phases below
	type concOut struct {
		res  concResult
		ok   bool
		tail string
	}
	concC := make(chan concOut, 1)
	go func() {
		res, ok, tail := runConcurrencyChild(args)
		concC <- concOut{res, ok, tail}
	}()

	var rf routesFile
	data, err := ioutil.ReadFile(f.Extra)
	if err != nil {
		return fmt.Errorf("route table (-extra Gen/Routes.json): %v", err)
	}
	if err := json.Unmarshal(data, &rf); err != nil {
		return err
	}
	var routes []route
	for _, rt := range rf.Routes {
		if !rt.Dynamic {
			routes = append(routes, rt)
		}
	}
	if len(routes) == 0 {
		return fmt.Errorf("empty route table: %v", rf.Errors)
	}
	thorough := f.Tier == "thorough" || f.Tier == "search"
	if thorough {
		bigDigits = 1000000
	}
	budget := f.Budget(2000, 40000)
	timeout := 15 * time.Second

	n, err := newNode(r)
	if err != nil {
		return fmt.Errorf("node: %v", err)
	}
	defer n.close()
	if !n.alive() {
		return fmt.Errorf("the node does not answer before any generated request")
	}
	g := &gen{r: r, n: n}

	caseJSON := map[string][]map[string]interface{}{}
	var samples []map[string]interface{}
	var reqTerms, vtvTerms []string
	hung := 0
	seq := 0
	exec := func(group string, rt route, q reqSpec) obs {
		seq++
		id := fmt.Sprint(seq)
		var fc vtvFacts
		isVerify := rt.Path == "/api/v2/transaction/verify" && q.method == "POST"
		var enc string
		var unsignedFlag bool
		if isVerify {
			// decode the request the way verifyTxnHandler does; only requests that get
			// as far as VerifyTxnVerbose are cases of the modelled decision
			var vr api.VerifyTransactionRequest
			ct := q.ctype
			if (ct == "application/json" || strings.HasPrefix(ct, "application/json;")) &&
				json.NewDecoder(strings.NewReader(q.body)).Decode(&vr) == nil && vr.EncodedTransaction != "" {
				enc, unsignedFlag = vr.EncodedTransaction, vr.Unsigned
				fc = n.facts(enc, unsignedFlag)
			}
		}
		ob := n.do(id, q, timeout)
		if ob.kind == "hang" {
			hung++
		}
		aliveAfter := true
		if ob.kind != "status" {
			aliveAfter = n.alive()
		}
		// observable as a small integer: status, or 0 panic / -1 hang / -2 transport
		code := ob.status
		switch ob.kind {
		case "panic":
			code = 0
		case "hang":
			code = -1
		case "transport":
			code = -2
		}
		body := q.body
		if len(body) > 1500 {
			body = body[:1500] + fmt.Sprintf("...(%d bytes)", len(q.body))
		}
		qs := q.query.Encode()
		if len(qs) > 600 {
			qs = qs[:600] + fmt.Sprintf("...(%d bytes)", len(q.query.Encode()))
		}
		m := map[string]interface{}{"path": rt.Path, "method": q.method, "query": qs, "content_type": q.ctype, "body": body,
			"observed": ob.kind, "status": ob.status, "detail": ob.detail, "ms": ob.ms, "alive_after": aliveAfter}
		if q.note != "" {
			m["note"] = q.note
		}
		caseJSON[group] = append(caseJSON[group], m)
		if len(samples) < 12 && r.Intn(budget/12+1) == 0 {
			samples = append(samples, m)
		}
		al := 1
		if !aliveAfter {
			al = 0
		}
		cs := fmt.Sprint(code)
		if code < 0 {
			cs = fmt.Sprintf("(%d)", code)
		}
		if group == "requests" {
			reqTerms = append(reqTerms, fmt.Sprintf("(%s, %d)", cs, al))
		}
		if isVerify && fc.ok && ob.kind != "hang" && ob.kind != "transport" {
			vtvTerms = append(vtvTerms, Tuple(fc.coq, cs))
			mm := map[string]interface{}{}
			for k, v := range m {
				mm[k] = v
			}
			mm["facts"] = fc.summary
			mm["n_inputs"] = fc.nIn
			mm["unsigned"] = unsignedFlag
			caseJSON["vtv"] = append(caseJSON["vtv"], mm)
			hist.Add("vtv:" + fc.summary)
		}
		cls := fmt.Sprintf("%dxx", ob.status/100)
		if ob.kind != "status" {
			cls = ob.kind
		}
		hist.Add("answer:" + cls)
		hist.Add("route:" + rt.Path)
		o.Count(fmt.Sprint(rt.Path, q.method, qs, q.ctype, q.body), ob.kind != "status" || ob.status != 405)
		return ob
	}

	routeOf := func(p string) (route, bool) {
		for _, rt := range routes {
			if rt.Path == p {
				return rt, true
			}
		}
		return route{}, false
	}

	// 0. systematic sweep: every id that exists on the node's real chain (genesis
	// txid / block hash / seq 0 / genesis uxout, the head's, the txids and uxids of
	// every block, the pool's, every address) as parameter of every endpoint that
	// takes such an id, in every mode (verbose, encoded, confirmed, ...).
	sweep := func(phase string) {
		get := func(path string, kv ...string) {
			rt, ok := routeOf(path)
			if !ok {
				return
			}
			v := url.Values{}
			for i := 0; i+1 < len(kv); i += 2 {
				v.Set(kv[i], kv[i+1])
			}
			exec("requests", rt, reqSpec{method: "GET", path: path, query: v, note: "chain id sweep (" + phase + ")"})
		}
		postJSON := func(path string, body map[string]interface{}) {
			rt, ok := routeOf(path)
			if !ok {
				return
			}
			b, _ := json.Marshal(body)
			exec("requests", rt, reqSpec{method: "POST", path: path, ctype: "application/json", body: string(b), note: "chain id sweep (" + phase + ")"})
		}
		modes := func(f func(verbose, other string)) {
			for _, vb := range []string{"", "0", "1"} {
				for _, ot := range []string{"", "0", "1"} {
					f(vb, ot)
				}
			}
		}
		type txRef struct {
			t    coin.Transaction
			kind string
		}
		var txs []txRef
		for _, t := range n.chainTxns() {
			txs = append(txs, txRef{t, "confirmed"})
		}
		for _, t := range n.pooled {
			txs = append(txs, txRef{t, "pool"})
		}
		addrSet := map[string]bool{}
		var uxids []string
		for _, b := range n.blocks {
			for _, t := range b.Body.Transactions {
				for _, ux := range coin.CreateUnspents(b.Head, t) {
					uxids = append(uxids, ux.Hash().Hex())
					addrSet[ux.Body.Address.String()] = true
				}
			}
		}
		for _, t := range n.pooled {
			for _, o := range t.Out {
				addrSet[o.Address.String()] = true
			}
			if hb, err := n.v.GetHeadBlock(); err == nil && hb != nil {
				for _, ux := range coin.CreateUnspents(hb.Head, t) { // predicted outputs of the pool
					uxids = append(uxids, ux.Hash().Hex())
				}
			}
		}
		var addrs []string
		for a := range addrSet {
			addrs = append(addrs, a)
		}
		sort.Strings(addrs)
		// thin the middle of long lists out in the quick tier; first (genesis) and last (head) always stay
		thin := func(xs []string, keep int) []string {
			if thorough || len(xs) <= keep {
				return xs
			}
			out := append([]string{}, xs[:keep/2]...)
			return append(out, xs[len(xs)-keep/2:]...)
		}
		for _, x := range txs {
			id := x.t.Hash().Hex()
			modes(func(vb, enc string) {
				kv := []string{"txid", id}
				if vb != "" {
					kv = append(kv, "verbose", vb)
				}
				if enc != "" {
					kv = append(kv, "encoded", enc)
				}
				get("/api/v1/transaction", kv...)
			})
			get("/api/v1/rawtx", "txid", id)
			get("/api/v2/data", "type", "txid", "key", id)
			if b, err := x.t.Serialize(); err == nil {
				for _, un := range []bool{false, true} {
					postJSON("/api/v2/transaction/verify", map[string]interface{}{"encoded_transaction": hex.EncodeToString(b), "unsigned": un})
				}
				postJSON("/api/v1/injectTransaction", map[string]interface{}{"rawtx": hex.EncodeToString(b), "no_broadcast": true})
			}
		}
		for _, u := range thin(uxids, 12) {
			get("/api/v1/uxout", "uxid", u)
			get("/api/v1/outputs", "hashes", u)
		}
		for i, b := range n.blocks {
			for _, vb := range []string{"", "0", "1"} {
				kvh := []string{"hash", b.HashHeader().Hex()}
				kvs := []string{"seq", fmt.Sprint(i)}
				kvr := []string{"start", fmt.Sprint(i), "end", fmt.Sprint(i)}
				kvq := []string{"seqs", fmt.Sprint(i)}
				if vb != "" {
					kvh, kvs, kvr, kvq = append(kvh, "verbose", vb), append(kvs, "verbose", vb), append(kvr, "verbose", vb), append(kvq, "verbose", vb)
				}
				get("/api/v1/block", kvh...)
				get("/api/v1/block", kvs...)
				get("/api/v1/blocks", kvr...)
				get("/api/v1/blocks", kvq...)
			}
		}
		for _, vb := range []string{"", "0", "1"} {
			kv := []string{}
			if vb != "" {
				kv = []string{"verbose", vb}
			}
			get("/api/v1/blocks", append([]string{"start", "0", "end", fmt.Sprint(len(n.blocks) + 1)}, kv...)...)
			get("/api/v1/last_blocks", append([]string{"num", "1"}, kv...)...)
			get("/api/v1/last_blocks", append([]string{"num", fmt.Sprint(len(n.blocks) + 1)}, kv...)...)
			get("/api/v1/pendingTxs", kv...)
			get("/api/v1/transactions", kv...)
			get("/api/v2/transactions", kv...)
		}
		all := strings.Join(addrs, ",")
		for _, a := range append(thin(addrs, 6), all) {
			modes(func(vb, cf string) {
				kv := []string{"addrs", a}
				if vb != "" {
					kv = append(kv, "verbose", vb)
				}
				if cf != "" {
					kv = append(kv, "confirmed", cf)
				}
				get("/api/v1/transactions", kv...)
				get("/api/v2/transactions", kv...)
				get("/api/v2/transactions", append(append([]string{}, kv...), "page", "1", "limit", "2", "sort", "desc")...)
			})
			get("/api/v1/balance", "addrs", a)
			get("/api/v1/outputs", "addrs", a)
			if !strings.Contains(a, ",") {
				get("/api/v1/address_uxouts", "address", a)
			}
		}
		for _, p := range []string{"/api/v1/blockchain/metadata", "/api/v1/blockchain/progress", "/api/v1/health", "/api/v1/coinSupply", "/api/v1/addresscount",
			"/api/v1/transactions/num", "/api/v1/wallets"} {
			get(p)
		}
		get("/api/v1/richlist", "include-distribution", "1")
		// the same address more than once in one request
		if len(addrs) >= 2 {
			for _, dup := range []string{addrs[0] + "," + addrs[0], addrs[0] + "," + addrs[0] + "," + addrs[1], addrs[1] + "," + addrs[0] + "," + addrs[1] + "," + addrs[0]} {
				get("/api/v1/balance", "addrs", dup)
				get("/api/v1/outputs", "addrs", dup)
				modes(func(vb, cf string) {
					kv := []string{"addrs", dup}
					if vb != "" {
						kv = append(kv, "verbose", vb)
					}
					if cf != "" {
						kv = append(kv, "confirmed", cf)
					}
					get("/api/v1/transactions", kv...)
					get("/api/v2/transactions", kv...)
				})
			}
			if len(uxids) > 0 {
				get("/api/v1/outputs", "hashes", uxids[0]+","+uxids[0])
			}
		}
		for _, wl := range n.wallets {
			get("/api/v1/wallet", "id", wl)
			get("/api/v1/wallet/balance", "id", wl)
			get("/api/v1/wallet/transactions", "id", wl)
			get("/api/v1/wallet/transactions", "id", wl, "verbose", "1")
			// create-transaction, signed and unsigned, with and without a password, from every kind of wallet
			for _, unsigned := range []bool{true, false} {
				for _, pw := range []string{"", "pw"} {
					body := map[string]interface{}{"wallet_id": wl, "unsigned": unsigned,
						"hours_selection": map[string]interface{}{"type": "auto", "mode": "share", "share_factor": "0.5"},
						"to":              []interface{}{map[string]interface{}{"address": n.w.Addrs[3].String(), "coins": "0.001"}}}
					if pw != "" {
						body["password"] = pw
					}
					postJSON("/api/v1/wallet/transaction", body)
				}
			}
		}
	}

	// phase A: the head is the genesis block, one transaction in the pool
	sweep("genesis-only head, split transaction in the pool")
	if err := n.grow(6); err != nil {
		return fmt.Errorf("growing the chain: %v", err)
	}
	if !n.alive() {
		return fmt.Errorf("the node does not answer after the chain was grown")
	}
	// phase B: 7 blocks, one transaction in the pool
	sweep("chain of 7 blocks")

	// phase B2: wallets with a repeated key made purely through the API
	{
		form := func(path string, v url.Values) obs {
			rt, ok := routeOf(path)
			if !ok {
				return obs{}
			}
			return exec("requests", rt, reqSpec{method: "POST", path: path, ctype: "application/x-www-form-urlencoded", body: v.Encode(), note: "duplicate-key collection wallet through the API"})
		}
		k1, k2 := n.w.Keys[3].Hex(), n.w.Keys[4].Hex()
		ob := form("/api/v1/wallet/create", url.Values{"type": {"collection"}, "label": {"api dup"}, "private-keys": {k1 + "," + k2 + "," + k1}})
		var cr struct {
			Meta struct {
				Filename string `json:"filename"`
			} `json:"meta"`
		}
		if ob.kind == "status" && ob.status == 200 && json.Unmarshal(ob.raw, &cr) == nil && cr.Meta.Filename != "" {
			n.wallets = append(n.wallets, cr.Meta.Filename)
		}
		// a key the wallet already holds, added again
		form("/api/v1/wallet/newAddress", url.Values{"id": {n.collWlt}, "private-keys": {n.w.Keys[2].Hex()}})
		form("/api/v1/wallet/newAddress", url.Values{"id": {n.collWlt}, "private-keys": {n.w.Keys[2].Hex() + "," + n.w.Keys[2].Hex()}})
		// counts that do not fit an int (newAddress converts num with int(num))
		for _, wl := range []string{"plain.wlt", "bip44.wlt", "xpub.wlt", n.collWlt} {
			for _, num := range []string{"18446744073709551615", "9223372036854775808", "4294967296"} {
				if wl == "plain.wlt" && num == "4294967296" {
					continue // a valid huge count: the unbounded_count finding
				}
				form("/api/v1/wallet/newAddress", url.Values{"id": {wl}, "num": {num}})
			}
		}
		if rt, ok := routeOf("/api/v1/wallet/balance"); ok {
			for _, wl := range n.wallets {
				exec("requests", rt, reqSpec{method: "GET", path: rt.Path, query: url.Values{"id": {wl}}, note: "wallet balance after duplicate keys"})
			}
		}
	}

	// phase C: CONFLICTING transactions in the pool.  Injection only checks a
	// transaction against the confirmed unspent set, so the pool takes several
	// transactions that spend the same output: double and triple spends of a wallet
	// address's ONLY output without change back, and of another address's output.
	{
		ht := n.blocks[len(n.blocks)-1].Time()
		var victims coin.UxArray
		if m, err := n.v.GetUnspentsOfAddrs(n.wltAddr); err == nil {
			for _, a := range n.wltAddr {
				if len(m[a]) == 1 { // the address holds exactly one output
					victims = append(victims, m[a][0])
				}
			}
		}
		if len(victims) > 2 {
			victims = victims[:2]
		}
		if len(n.unspent) > 0 {
			victims = append(victims, n.unspent[len(n.unspent)-1])
		}
		nConf := 0
		for vi, ux := range victims {
			if _, ok := n.w.KeyOf[ux.Body.Address]; !ok || nk.HoursAt(ux, ht) < 2 {
				continue
			}
			k := 2 + vi%2 // double spend, triple spend, ...
			for j := 0; j < k; j++ {
				// everything goes to other addresses (no change back), each time to a different one
				dst := n.w.Addrs[(1+j+vi)%(nk.NKeys-1)]
				if dst == ux.Body.Address {
					dst = n.w.Addrs[(2+j+vi)%(nk.NKeys-1)]
				}
				hours := nk.HoursAt(ux, ht)
				t := n.w.BuildTxn([]cipher.SHA256{ux.Hash()}, []coin.TransactionOutput{{Address: dst, Coins: ux.Body.Coins, Hours: hours - (hours+9)/10 - uint64(j)%(hours/2+1)/2}}, nk.TxOpts{})
				if _, _, err := n.v.InjectForeignTransaction(t); err == nil {
					n.pooled = append(n.pooled, t)
					nConf++
				}
			}
		}
		o.Side["conflicting_pool_txns"] = nConf
		hist.Add(fmt.Sprintf("conflicting_pool_txns=%d", nConf))
		if !n.alive() {
			return fmt.Errorf("the node does not answer after conflicting transactions were injected")
		}
		sweep("conflicting spends in the pool")
	}

	// 0b. structurally skewed but decodable transactions built from the node's real
	// unspent outputs (those of the wallet's addresses first), sent to every endpoint
	// that takes an encoded transaction, with the real wallet ids
	{
		var wux coin.UxArray
		if m, err := n.v.GetUnspentsOfAddrs(n.wltAddr); err == nil {
			for _, a := range n.wltAddr {
				wux = append(wux, m[a]...)
			}
		}
		for _, ux := range n.unspent {
			if len(wux) < 4 {
				wux = append(wux, ux)
			}
		}
		type skew struct {
			name string
			t    coin.Transaction
		}
		var skews []skew
		base := func(k int) coin.Transaction {
			var t coin.Transaction
			var coins uint64
			for i := 0; i < k && i < len(wux); i++ {
				t.In = append(t.In, wux[i].Hash())
				coins += wux[i].Body.Coins
			}
			t.Out = []coin.TransactionOutput{{Address: n.w.Addrs[1], Coins: coins, Hours: 1}}
			t.Sigs = make([]cipher.Sig, len(t.In)) // unsigned: one null signature per input
			t.InnerHash = t.HashInner()
			t.UpdateHeader() //nolint:errcheck
			return t
		}
		fix := func(t coin.Transaction) coin.Transaction {
			t.InnerHash = t.HashInner()
			t.UpdateHeader() //nolint:errcheck
			return t
		}
		someSig := cipher.MustSigFromHex(strings.Repeat("1b", 65))
		for _, k := range []int{1, 2, 3} {
			if k > len(wux) {
				break
			}
			b := base(k)
			skews = append(skews, skew{fmt.Sprintf("unsigned_%din", k), b})
			t := b
			t.Sigs = nil
			skews = append(skews, skew{fmt.Sprintf("no_sigs_%din", k), fix(t)})
			t = b
			t.Sigs = append([]cipher.Sig{}, b.Sigs[:k-1]...)
			if k > 1 {
				skews = append(skews, skew{fmt.Sprintf("sigs_shorter_null_%din", k), fix(t)})
				t.Sigs = append([]cipher.Sig{}, t.Sigs...)
				t.Sigs[0] = someSig
				skews = append(skews, skew{fmt.Sprintf("sigs_shorter_nonnull_%din", k), fix(t)})
			}
			t = b
			t.Sigs = append(append([]cipher.Sig{}, b.Sigs...), cipher.Sig{})
			skews = append(skews, skew{fmt.Sprintf("sigs_longer_%din", k), fix(t)})
			t = b
			t.Sigs = append(append([]cipher.Sig{}, b.Sigs...), someSig, someSig)
			skews = append(skews, skew{fmt.Sprintf("sigs_longer_nonnull_%din", k), fix(t)})
			t = b
			t.Sigs = append([]cipher.Sig{}, b.Sigs...)
			t.Sigs[0] = someSig
			skews = append(skews, skew{fmt.Sprintf("garbage_sig_%din", k), fix(t)})
			t = b
			t.In = append(append([]cipher.SHA256{}, b.In...), b.In[0])
			skews = append(skews, skew{fmt.Sprintf("dup_input_sigs_short_%din", k), fix(t)})
			t.Sigs = make([]cipher.Sig, len(t.In))
			skews = append(skews, skew{fmt.Sprintf("dup_input_%din", k), fix(t)})
			t = b
			t.Out = nil
			skews = append(skews, skew{fmt.Sprintf("zero_outputs_%din", k), fix(t)})
			t = b
			t.Out = append(append([]coin.TransactionOutput{}, b.Out...), b.Out[0])
			skews = append(skews, skew{fmt.Sprintf("dup_output_%din", k), fix(t)})
			t = b
			t.InnerHash[0] ^= 1
			skews = append(skews, skew{fmt.Sprintf("bad_inner_hash_%din", k), t})
			t = b
			t.Length += 7
			skews = append(skews, skew{fmt.Sprintf("bad_length_%din", k), t})
		}
		{
			var t coin.Transaction // no inputs at all, one signature
			t.Out = []coin.TransactionOutput{{Address: n.w.Addrs[1], Coins: 1000000, Hours: 1}}
			t.Sigs = []cipher.Sig{{}}
			skews = append(skews, skew{"no_inputs_one_sig", fix(t)})
		}
		post := func(path string, body map[string]interface{}, note string) {
			rt, ok := routeOf(path)
			if !ok {
				return
			}
			b, _ := json.Marshal(body)
			exec("requests", rt, reqSpec{method: "POST", path: path, ctype: "application/json", body: string(b), note: note})
		}
		type wl struct{ id, pw string }
		wallets := []wl{{"plain.wlt", ""}, {n.encWlt, "pw"}, {n.encWlt, "wrong"}, {"nonexistent.wlt", ""}, {"xpub.wlt", ""}, {n.collWlt, ""}, {"bip44.wlt", ""}}
		for _, sk := range skews {
			raw, err := sk.t.Serialize()
			if err != nil {
				continue
			}
			enc := hex.EncodeToString(raw)
			nIn, nSig := len(sk.t.In), len(sk.t.Sigs)
			idx := [][]int{nil, {0}, {nIn - 1}, {nIn}, {nSig}, {nSig - 1}, {0, 0}, {-1}, {0, nIn + 5}}
			for k := 0; k < nIn && k < 3; k++ {
				idx[0] = append(idx[0], k)
			}
			idx = append(idx, nil) // all inputs (empty sign_indexes)
			for wi, wlt := range wallets {
				for ii, ix := range idx {
					if !thorough && wi > 0 && ii > 2 {
						continue
					}
					body := map[string]interface{}{"wallet_id": wlt.id, "encoded_transaction": enc}
					if wlt.pw != "" {
						body["password"] = wlt.pw
					}
					if ix != nil {
						body["sign_indexes"] = ix
					}
					post("/api/v2/wallet/transaction/sign", body, "skewed transaction: "+sk.name)
				}
			}
			for _, un := range []bool{false, true} {
				post("/api/v2/transaction/verify", map[string]interface{}{"encoded_transaction": enc, "unsigned": un}, "skewed transaction: "+sk.name)
			}
			post("/api/v1/injectTransaction", map[string]interface{}{"rawtx": enc, "no_broadcast": true}, "skewed transaction: "+sk.name)
		}
	}

	// 1. the F6 witness first: a new transaction spending an output that a confirmed transaction spent
	var verifyRoute route
	for _, rt := range routes {
		if rt.Path == "/api/v2/transaction/verify" {
			verifyRoute = rt
		}
	}
	if verifyRoute.Path != "" && len(n.spent) > 0 {
		ht := n.blocks[len(n.blocks)-1].Time()
		for i := 0; i < 3 && i < len(n.spent); i++ {
			t := n.w.Spend(coin.UxArray{n.spent[i]}, ht, nk.SpendOpts{Fee: "min", NOut: 1})
			b, _ := t.Serialize()
			body, _ := json.Marshal(map[string]interface{}{"encoded_transaction": hex.EncodeToString(b)})
			exec("requests", verifyRoute, reqSpec{method: "POST", path: verifyRoute.Path, ctype: "application/json", body: string(body), note: "F6 witness: second spend of an already spent output"})
		}
	}

	// 1b. block-range arithmetic (Model/ApiTotal.v last_blocks_count / blocks_in_range_count)
	var lbTerms, brTerms []string
	headSeq := uint64(len(n.blocks) - 1)
	countBlocks := func(ob obs) (int, bool) {
		if ob.kind != "status" || ob.status != 200 {
			return 0, false
		}
		var m struct {
			Blocks []json.RawMessage `json:"blocks"`
		}
		if json.Unmarshal(ob.raw, &m) != nil {
			return 0, false
		}
		return len(m.Blocks), true
	}
	maxLBC := n.d.DaemonConfig().MaxLastBlocksCount
	if rt, ok := routeOf("/api/v1/last_blocks"); ok {
		nums := []uint64{maxLBC, maxLBC - 1, uint64(r.Intn(int(maxLBC) + 1))}
		for k := uint64(0); k <= headSeq+3; k++ {
			nums = append(nums, k)
		}
		for _, num := range nums {
			if num > maxLBC {
				continue
			}
			ob := exec("requests", rt, reqSpec{method: "GET", path: rt.Path, query: url.Values{"num": {fmt.Sprint(num)}}, note: "last_blocks sweep"})
			if c, ok := countBlocks(ob); ok {
				lbTerms = append(lbTerms, Tuple(fmt.Sprint(headSeq), fmt.Sprint(num), fmt.Sprint(c)))
				caseJSON["last_blocks"] = append(caseJSON["last_blocks"], map[string]interface{}{"head": headSeq, "num": num, "blocks_returned": c})
			}
		}
	}
	if rt, ok := routeOf("/api/v1/blocks"); ok {
		edge := []uint64{0, 1, 2, headSeq - 1, headSeq, headSeq + 1, headSeq + 2, 1 << 32, 1<<63 - 1, 1 << 63, ^uint64(0) - 1, ^uint64(0)}
		for i := 0; i < 60; i++ {
			st, en := edge[r.Intn(len(edge))], edge[r.Intn(len(edge))]
			if r.Chance(50) {
				st, en = uint64(r.Intn(int(headSeq)+3)), uint64(r.Intn(int(headSeq)+3))
			}
			ob := exec("requests", rt, reqSpec{method: "GET", path: rt.Path, query: url.Values{"start": {fmt.Sprint(st)}, "end": {fmt.Sprint(en)}}, note: "blocks range sweep"})
			if c, ok := countBlocks(ob); ok {
				brTerms = append(brTerms, Tuple(fmt.Sprint(headSeq), fmt.Sprint(st), fmt.Sprint(en), fmt.Sprint(c)))
				caseJSON["blocks_range"] = append(caseJSON["blocks_range"], map[string]interface{}{"head": headSeq, "start": fmt.Sprint(st), "end": fmt.Sprint(en), "blocks_returned": c})
			}
		}
	}

	// 2. every route: its methods (and one unsupported method), generated parameters
	methodsOf := func(rt route) []string {
		var ms []string
		for _, m := range rt.Sets {
			ms = append(ms, m.Method)
		}
		if len(ms) == 0 {
			ms = []string{"GET"}
		}
		return ms
	}
	perRoute := budget / len(routes)
	if perRoute < 8 {
		perRoute = 8
	}
	weight := map[string]int{"/api/v2/transaction/verify": 6, "/api/v1/injectTransaction": 3, "/api/v2/transaction": 3, "/api/v1/wallet/transaction": 3,
		"/api/v2/wallet/transaction/sign": 2, "/api/v1/transactions": 2, "/api/v2/transactions": 2, "/api/v1/blocks": 2}
	growing := map[string]bool{"/api/v1/wallet/create": true, "/api/v1/wallet/createTemp": true, "/api/v1/wallet/newAddress": true, "/api/v1/wallet/scan": true,
		"/api/v2/wallet/recover": true, "/api/v2/data": true}
	destructive := map[string]bool{"/api/v1/wallet/unload": true, "/api/v1/wallet/encrypt": true, "/api/v1/wallet/decrypt": true}
	for _, rt := range routes {
		k := perRoute
		if wgt, ok := weight[rt.Path]; ok {
			k *= wgt
		}
		if len(rt.Sets) == 0 {
			k = perRoute / 3
		}
		if destructive[rt.Path] && k > perRoute/2 {
			k = perRoute / 2
		}
		// endpoints that grow the wallets: the cost of every later wallet request is
		// proportional to what they accumulated, so their share does not scale with the budget
		if growing[rt.Path] && k > 60 {
			k = 60
		}
		ms := methodsOf(rt)
		for i := 0; i < k; i++ {
			m := ms[i%len(ms)]
			if i%17 == 16 {
				m = []string{"PUT", "DELETE", "PATCH", "HEAD", "OPTIONS"}[r.Intn(5)]
			}
			ob := exec("requests", rt, g.request(rt, m))
			if hung >= 5 {
				break
			}
			_ = ob
		}
		if hung >= 5 {
			o.Side["note"] = "stopped early: five requests hung"
			break
		}
	}

	// 2b. every parameter that is parsed as a decimal or a big number, in every
	// request shape, with enormous exponents / digit strings.  Deterministic, and late:
	// a request that does not answer leaves a goroutine computing 10^exponent behind,
	// so the sweep stops at the first one.
	if hung < 5 {
		decs := append([]string{"0.5", "1e-30", "1e30"}, hugeDecimals()...)
		mkTo := func(coins, hours interface{}) []interface{} {
			to := map[string]interface{}{"address": n.w.Addrs[1].String(), "coins": coins}
			if hours != nil {
				to["hours"] = hours
			}
			return []interface{}{to}
		}
		var srcAddrs []interface{}
		for _, a := range n.wltAddr {
			srcAddrs = append(srcAddrs, a.String())
		}
		type shape struct {
			path string
			base map[string]interface{}
		}
		shapes := []shape{
			{"/api/v1/wallet/transaction", map[string]interface{}{"wallet_id": "plain.wlt", "unsigned": true}},
			{"/api/v2/transaction", map[string]interface{}{"addresses": srcAddrs}},
		}
		stop := false
		send := func(sh shape, extra map[string]interface{}, note string) {
			if stop {
				return
			}
			rt, ok := routeOf(sh.path)
			if !ok {
				return
			}
			m := map[string]interface{}{}
			for k, v := range sh.base {
				m[k] = v
			}
			for k, v := range extra {
				m[k] = v
			}
			b, _ := json.Marshal(m)
			ob := exec("requests", rt, reqSpec{method: "POST", path: sh.path, ctype: "application/json", body: string(b), note: note})
			if ob.kind == "hang" {
				stop = true
			}
		}
		for _, d := range decs {
			for _, sh := range shapes {
				for _, asNumber := range []bool{false, true} {
					var sf interface{} = d
					if asNumber {
						if len(d) > 40 || strings.HasSuffix(d, "2147483648") {
							continue
						}
						sf = json.RawMessage(d) // a JSON number
					}
					send(sh, map[string]interface{}{"hours_selection": map[string]interface{}{"type": "auto", "mode": "share", "share_factor": sf},
						"to": mkTo("0.001", nil)}, "decimal sweep: share_factor")
				}
				send(sh, map[string]interface{}{"hours_selection": map[string]interface{}{"type": "manual"}, "to": mkTo(d, "1")}, "decimal sweep: to.coins")
				send(sh, map[string]interface{}{"hours_selection": map[string]interface{}{"type": "manual"}, "to": mkTo("0.001", d)}, "decimal sweep: to.hours")
				send(sh, map[string]interface{}{"hours_selection": map[string]interface{}{"type": "auto", "mode": "share", "share_factor": "0.5"}, "to": mkTo(d, nil)}, "decimal sweep: to.coins (auto)")
			}
		}
		if stop {
			n.abandon = true
		}
	}

	endAlive := n.alive()

	// 3. last: requests whose work is proportional to an unbounded count parameter.
	// They keep the wallet service's lock, so nothing is sent after them.
	var ubTerms []string
	if hung < 5 {
		type ub struct {
			path  string
			param string
			vals  url.Values
		}
		for _, u := range []ub{
			{"/api/v1/wallet/createTemp", "scan", url.Values{"seed": {seedPhrase + " x"}, "label": {"t"}, "type": {"deterministic"}, "scan": {"4294967295"}}},
		} {
			rt, ok := routeOf(u.path)
			if !ok {
				continue
			}
			seq++
			ob := n.do(fmt.Sprint(seq), reqSpec{method: "POST", path: u.path, ctype: "application/x-www-form-urlencoded", body: u.vals.Encode()}, 4*time.Second)
			code := ob.status
			switch ob.kind {
			case "panic":
				code = 0
			case "hang":
				code = -1
			case "transport":
				code = -2
			}
			cs := fmt.Sprint(code)
			if code < 0 {
				cs = fmt.Sprintf("(%d)", code)
			}
			ubTerms = append(ubTerms, cs)
			caseJSON["unbounded_count"] = append(caseJSON["unbounded_count"], map[string]interface{}{"path": rt.Path, "method": "POST", "body": u.vals.Encode(),
				"param": u.param, "kind": "count_param", "observed": ob.kind, "status": ob.status, "detail": ob.detail, "watchdog_s": 4})
			hist.Add("unbounded_count:" + ob.kind)
			if ob.kind == "hang" {
				n.abandon = true
			}
			o.Count("unbounded "+u.path, true)
		}
	}
	aliveTerm := "true"
	if !endAlive {
		aliveTerm = "false"
	}
	o.Def("cases_requests", "Z * Z", reqTerms)
	o.Def("cases_vtv", "vfacts * Z", vtvTerms)
	o.Def("cases_unbounded_count", "Z", ubTerms)
	// concurrency phase: 1 = every request answered and the process alive afterwards, 0 = not
	co := <-concC
	concCode := 0
	if co.ok && co.res.NotAnswered == 0 && co.res.Panics == 0 && co.res.AliveAfter && co.res.Requests > 0 {
		concCode = 1
	}
	cm := map[string]interface{}{"phase": "32 concurrent clients x 40 GETs (outputs, balance, transactions, v2 transactions, address_uxouts with distinct fresh addresses; metadata, pendingTxs, blocks) against a node in a child process",
		"process_completed": co.ok, "requests": co.res.Requests, "answered": co.res.Answered, "not_answered": co.res.NotAnswered,
		"handler_panics": co.res.Panics, "alive_after": co.res.AliveAfter, "first_bad": co.res.FirstBad}
	if !co.ok {
		cm["observed"] = "the node process died or did not finish"
		cm["child_stderr"] = co.tail
	}
	caseJSON["concurrency"] = append(caseJSON["concurrency"], cm)
	o.Def("cases_concurrency", "Z", []string{fmt.Sprint(concCode)})
	o.Count("concurrency phase", true)
	hist.Add(fmt.Sprintf("concurrency:requests=%d,ok=%v", co.res.Requests, concCode == 1))
	o.Def("cases_last_blocks", "Z * Z * Z", lbTerms)
	o.Def("cases_blocks_range", "Z * Z * Z * Z", brTerms)
	o.Raw("Definition alive_at_end : bool := " + aliveTerm + ".\n")

	o.Side["cases"] = caseJSON
	o.Side["samples"] = samples
	o.Side["distribution"] = hist.Sorted()
	o.Side["rule"] = "one evaluation = one HTTP request to the real mux in front of a real node (visor with chain+pool, wallet service, offline daemon, kv storage); non-trivial = distinct request that was not answered 405"
	o.Side["routes"] = len(routes)
	o.Side["blocks"] = len(n.blocks)
	o.Side["alive_at_end"] = endAlive
	return o.Write(f.Out, f.JSON)
}
