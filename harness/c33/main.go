// Command c33: a real follower visor fed by the real daemon.GiveBlocksMessage.process
// under exhaustive / random delivery schedules (property C33).
package main

import (
	"fmt"
	"os"
	"path/filepath"
	"strings"

	. "verif/harness/kit"

	"verif/harness/c07/vk"

	"github.com/skycoin/skycoin/src/cipher"
	"github.com/skycoin/skycoin/src/coin"
	"github.com/skycoin/skycoin/src/daemon"
	"github.com/skycoin/skycoin/src/util/logging"
	"github.com/skycoin/skycoin/src/visor"
)

func main() { Main(run) }

type kind int

const (
	genuine kind = iota
	badSig
	badBody
	prevVariant
	altBody
	otherKeySig
)

var kindName = []string{"Genuine", "BadSig", "BadBody", "PrevVariant", "AltBody", "OtherKeySig"}

const nForged = 5

type dblock struct {
	seq  int
	kind kind
}

type env struct {
	w           *vk.World
	dir         string
	pub         *vk.Node
	chain       []coin.SignedBlock        // chain[k] = publisher block k (0 = genesis)
	alt         map[int]coin.Transactions // alt[k]: another transaction set valid at height k-1 (not the publisher's block k)
	other       cipher.SecKey             // a key that is not the publisher's
	f1          bool
	folCfg      int  // which block-creation policy the next follower is configured with
	asPublisher bool // the receiving node is configured as block publisher
	arbitrating bool
	hashes      map[[2]cipher.SHA256]int // (header hash, body hash) of the publisher's blocks
	nfollow     int
	rng         *Rng
}

func (e *env) material(b dblock) coin.SignedBlock {
	g := e.chain[b.seq]
	switch b.kind {
	case genuine:
		return g
	case badSig:
		sb := g
		switch e.rng.Intn(3) {
		case 0: // signed by another key
			sb.Sig = cipher.MustSignHash(g.Block.HashHeader(), e.other)
		case 1: // corrupted signature
			sb.Sig[e.rng.Intn(64)] ^= byte(1 + e.rng.Intn(255))
		default: // header field changed, signature kept
			sb.Block.Head.Time++
		}
		return sb
	case badBody:
		sb := g
		// body of another block under the genuine signed header
		o := e.chain[1+(b.seq%(len(e.chain)-1))]
		if o.Block.Head.BkSeq == g.Block.Head.BkSeq {
			o = e.chain[0]
		}
		sb.Block.Body = o.Block.Body
		return sb
	case otherKeySig:
		// the very same header and body, signed by another key
		sb := g
		sb.Sig = cipher.MustSignHash(g.Block.HashHeader(), e.other)
		return sb
	case altBody:
		// genuine header and signature, a different body whose transactions are all
		// valid against the unspent set at that height; only the body-hash comparison
		// tells it from the publisher's block
		sb := g
		if a, ok := e.alt[b.seq]; ok {
			sb.Block.Body = coin.BlockBody{Transactions: a}
		} else {
			sb.Block.Body = e.chain[0].Block.Body
		}
		return sb
	default: // publisher-signed header with another PrevHash (F1)
		blk := g.Block
		blk.Head.PrevHash = cipher.SumSHA256(e.rng.Bytes(8))
		return e.w.Sign(blk)
	}
}

type traceEntry struct {
	head    uint64
	replies []string // Coq terms
}

// runSchedule feeds the schedule to a fresh follower through the real process
// method; returns the trace, the ids of the blocks held (publisher index or 0)
// and whether each stored signature verifies.
func (e *env) follower(reqn uint64) (*vk.Node, *daemon.VerifC33Node, error) {
	e.nfollow++
	e.folCfg = e.nfollow
	p := filepath.Join(e.dir, fmt.Sprintf("f%d.db", e.nfollow))
	tmpl := filepath.Join(e.dir, "follower_template.db")
	if _, err := os.Stat(tmpl); err != nil { // first follower: a node holding only the genesis block
		t, err := e.w.Open(tmpl, false)
		if err != nil {
			return nil, nil, err
		}
		t.Close()
	}
	if err := vk.CopyFile(tmpl, p); err != nil {
		return nil, nil, err
	}
	// node kind: a plain follower, or a node CONFIGURED AS BLOCK PUBLISHER (real secret key,
	// every third of those also arbitrating) that is behind the chain, e.g. restarted from an
	// older database: what it accepts from peers must be the same
	e.asPublisher = e.nfollow%3 == 0
	e.arbitrating = e.nfollow%9 == 0
	n, err := e.w.Open(p, e.asPublisher)
	if err != nil {
		return nil, nil, err
	}
	cfg := daemon.NewDaemonConfig()
	if reqn > 0 { // the node's own request size and response cap; they must not limit what it ACCEPTS
		cfg.GetBlocksRequestCount = reqn
		cfg.MaxGetBlocksResponseCount = reqn + 2
	}
	return n, &daemon.VerifC33Node{V: n.V, Cfg: cfg}, nil
}

func (e *env) deliver(dn *daemon.VerifC33Node, n *vk.Node, msg []dblock) (traceEntry, error) {
	blocks := make([]coin.SignedBlock, len(msg))
	for i, b := range msg {
		blocks[i] = e.material(b)
	}
	dn.Sent = nil
	if err := dn.VerifC33GiveBlocks("1.2.3.4:6000", blocks, e.rng.Chance(50)); err != nil {
		return traceEntry{}, err
	}
	h, ok, err := n.V.HeadBkSeq()
	if err != nil || !ok {
		return traceEntry{}, fmt.Errorf("HeadBkSeq: %v %v", ok, err)
	}
	te := traceEntry{head: h}
	for _, s := range dn.Sent {
		switch s.Kind {
		case "ANNB":
			te.replies = append(te.replies, fmt.Sprintf("Announce %d", s.A))
		case "GETB":
			te.replies = append(te.replies, fmt.Sprintf("Request %d %d", s.A, s.B))
		default:
			te.replies = append(te.replies, "Request (-1) (-1)") // unexpected message kind
		}
		if !s.Broadcast {
			te.replies = append(te.replies, "Announce (-2)") // these replies are broadcasts
		}
	}
	return te, nil
}

func (e *env) held(n *vk.Node) (ids []string, sigs []string, err error) {
	h, _, err := n.V.HeadBkSeq()
	if err != nil {
		return nil, nil, err
	}
	for k := uint64(1); k <= h; k++ {
		sb, err := n.V.GetSignedBlockBySeq(k)
		if err != nil || sb == nil {
			return nil, nil, fmt.Errorf("held block %d: %v", k, err)
		}
		id := 0
		if e.hashes == nil {
			e.hashes = map[[2]cipher.SHA256]int{}
			for j := 1; j < len(e.chain); j++ {
				e.hashes[[2]cipher.SHA256{e.chain[j].Block.HashHeader(), e.chain[j].Block.Body.Hash()}] = j
			}
		}
		if j, ok := e.hashes[[2]cipher.SHA256{sb.Block.HashHeader(), sb.Block.Body.Hash()}]; ok {
			id = j
		}
		ids = append(ids, fmt.Sprint(id))
		sigs = append(sigs, B(sb.VerifySignature(e.w.Pub) == nil))
	}
	return ids, sigs, nil
}

func coqSched(s [][]dblock) string {
	ms := make([]string, len(s))
	for i, m := range s {
		bs := make([]string, len(m))
		for j, b := range m {
			bs[j] = fmt.Sprintf("mkd %d %s", b.seq, kindName[b.kind])
		}
		ms[i] = List(bs)
	}
	return List(ms)
}

func coqTrace(t []traceEntry) string {
	it := make([]string, len(t))
	for i, e := range t {
		it[i] = Tuple(Z(e.head), List(e.replies))
	}
	return List(it)
}

func schedString(s [][]dblock) string {
	var sb strings.Builder
	for i, m := range s {
		if i > 0 {
			sb.WriteString(" | ")
		}
		for j, b := range m {
			if j > 0 {
				sb.WriteString(",")
			}
			sb.WriteString(fmt.Sprint(b.seq))
			if b.kind != genuine {
				sb.WriteString(":" + kindName[b.kind])
			}
		}
	}
	return sb.String()
}

// one case: schedule, then a clean re-delivery of every valid block it contained
func (e *env) oneCase(sched [][]dblock, each bool, reqn uint64) (string, map[string]interface{}, error) {
	n, dn, err := e.follower(reqn)
	if err != nil {
		return "", nil, err
	}
	defer n.Remove()
	var tr []traceEntry
	for _, m := range sched {
		te, err := e.deliver(dn, n, m)
		if err != nil {
			return "", nil, err
		}
		tr = append(tr, te)
	}
	ids, sigs, err := e.held(n)
	if err != nil {
		return "", nil, err
	}
	// re-delivery of everything valid that was given, sorted
	valid := map[int]bool{}
	maxv := 0
	for _, m := range sched {
		for _, b := range m {
			if b.kind == genuine || (b.kind == prevVariant && e.f1) {
				valid[b.seq] = true
				if b.seq > maxv {
					maxv = b.seq
				}
			}
		}
	}
	var re [][]dblock
	var one []dblock
	for k := 1; k <= maxv; k++ {
		if valid[k] {
			if each {
				re = append(re, []dblock{{k, genuine}})
			} else {
				one = append(one, dblock{k, genuine})
			}
		}
	}
	if !each && len(one) > 0 {
		re = append(re, one)
	}
	var tr2 []traceEntry
	for _, m := range re {
		te, err := e.deliver(dn, n, m)
		if err != nil {
			return "", nil, err
		}
		tr2 = append(tr2, te)
	}
	ids2, _, err := e.held(n)
	if err != nil {
		return "", nil, err
	}
	term := Tuple(B(e.f1), Z(dn.Cfg.GetBlocksRequestCount), coqSched(sched), coqTrace(tr), List(ids), List(sigs),
		coqSched(re), coqTrace(tr2), List(ids2))
	js := map[string]interface{}{"schedule": schedString(sched), "redelivery": schedString(re), "f1": e.f1,
		"heads": fmt.Sprint(headsOf(tr)), "final_after_redelivery": len(ids2), "chain_len": len(e.chain) - 1,
		"node_kind": map[bool]string{false: "follower", true: "configured as block publisher"}[e.asPublisher], "request_count": dn.Cfg.GetBlocksRequestCount, "response_cap": dn.Cfg.MaxGetBlocksResponseCount}
	return term, js, nil
}

func headsOf(t []traceEntry) []uint64 {
	h := make([]uint64, len(t))
	for i, e := range t {
		h[i] = e.head
	}
	return h
}

// bigTxn spends the largest spendable output into 950 outputs of distinct amounts
func bigTxn(pub *vk.Node, used map[cipher.SHA256]bool) (coin.Transaction, error) {
	sp, headTime, err := pub.Spendable(nil)
	if err != nil {
		return coin.Transaction{}, err
	}
	var in *coin.UxOut
	for _, a := range pub.W.Addrs {
		for i := range sp[a] {
			if in == nil || sp[a][i].Body.Coins > in.Body.Coins {
				in = &sp[a][i]
			}
		}
	}
	const n = 950
	need := uint64(1000 * n * (n + 1) / 2)
	if in == nil || in.Body.Coins < need+1000 {
		return coin.Transaction{}, fmt.Errorf("no output large enough for the big transaction")
	}
	hrs, _ := in.CoinHours(headTime)
	var to []cipher.Address
	var cs, hs []uint64
	for i := 1; i <= n; i++ {
		to = append(to, pub.W.Addrs[i%len(pub.W.Addrs)])
		cs = append(cs, uint64(i)*1000)
		hs = append(hs, 0)
	}
	to = append(to, in.Body.Address)
	cs = append(cs, in.Body.Coins-need)
	hs = append(hs, hrs/2)
	return pub.W.Spend(coin.UxArray{*in}, to, cs, hs)
}

// all permutations of xs
func perms(xs []int) [][]int {
	if len(xs) <= 1 {
		return [][]int{append([]int{}, xs...)}
	}
	var out [][]int
	for i := range xs {
		rest := append(append([]int{}, xs[:i]...), xs[i+1:]...)
		for _, p := range perms(rest) {
			out = append(out, append([]int{xs[i]}, p...))
		}
	}
	return out
}

// all subsets of 1..n with k elements
func subsets(n, k int) [][]int {
	var out [][]int
	var rec func(start int, cur []int)
	rec = func(start int, cur []int) {
		if len(cur) == k {
			out = append(out, append([]int{}, cur...))
			return
		}
		for i := start; i <= n; i++ {
			rec(i+1, append(cur, i))
		}
	}
	rec(1, nil)
	return out
}

func run(args []string) error {
	logging.Disable()
	f := ParseFlags("c33", args)
	r := NewRng(f.Seed)
	o := NewOut()
	hist := Hist{}
	dir, err := vk.TempDir("verif_c33_")
	if err != nil {
		return err
	}
	defer os.RemoveAll(dir)

	thorough := f.Tier == "thorough" || f.Tier == "search"
	nex := 4
	if thorough {
		nex = 5
	}
	nchain := 23 // longer than GetBlocksRequestCount / MaxGetBlocksResponseCount (20) + 1
	nrandTop := 10
	w := vk.NewWorld([]byte(fmt.Sprintf("c33-%d", f.Seed)), 5)
	e := &env{w: w, dir: dir, rng: r, alt: map[int]coin.Transactions{}}
	// Publisher and followers run with DIFFERENT block-creation / unconfirmed policy
	// parameters; none of them is a consensus rule, acceptance must not depend on them.
	w.Tweak = func(c *visor.Config, publisher bool) {
		if publisher && e.pub != nil { // a receiving node configured as block publisher
			c.Arbitrating = e.arbitrating
			return
		}
		if publisher { // generous publisher: blocks and transactions far above the defaults
			c.MaxBlockTransactionsSize = 1 << 20
			c.CreateBlockVerifyTxn.MaxTransactionSize = 1 << 20
			c.UnconfirmedVerifyTxn.MaxTransactionSize = 1 << 20
			return
		}
		switch e.folCfg % 3 {
		case 0: // defaults: MaxBlockTransactionsSize 32768, below the publisher's big blocks
		case 1: // stricter fee / precision policy for its own block creation and pool
			c.CreateBlockVerifyTxn.BurnFactor = 50
			c.UnconfirmedVerifyTxn.BurnFactor = 50
			c.CreateBlockVerifyTxn.MaxDropletPrecision = 6
		case 2: // larger limits than the publisher
			c.MaxBlockTransactionsSize = 1 << 22
			c.CreateBlockVerifyTxn.MaxTransactionSize = 1 << 21
		}
	}
	pub, err := w.Open(filepath.Join(dir, "pub.db"), true)
	if err != nil {
		return err
	}
	defer pub.Remove()
	e.pub = pub
	_, e.other = cipher.MustGenerateDeterministicKeyPair([]byte("not the publisher"))
	g, err := pub.V.GetSignedBlockBySeq(0)
	if err != nil {
		return err
	}
	e.chain = append(e.chain, *g)
	// publisher chain
	for k := 1; k <= nchain; k++ {
		var txns coin.Transactions
		used := map[cipher.SHA256]bool{}
		nt := 1 + r.Intn(2)
		for i := 0; i < nt; i++ {
			t, ins, ok, err := pub.RandomSpend(r, used)
			if err != nil {
				return err
			}
			if !ok {
				break
			}
			for _, ux := range ins {
				used[ux.Hash()] = true
			}
			txns = append(txns, t)
		}
		if k == 5 || k == 21 {
			// a block far above the followers' own MaxBlockTransactionsSize (32768): one
			// transaction with 950 distinct outputs (~35 KB)
			big, err := bigTxn(pub, used)
			if err != nil {
				return err
			}
			txns = coin.Transactions{big}
		}
		if len(txns) == 0 {
			return fmt.Errorf("generator could not build a transaction for block %d", k)
		}
		// an alternative transaction valid at this height that is not in the publisher's block
		for try := 0; try < 4; try++ {
			a, _, ok, err := pub.RandomSpend(r, nil)
			if err != nil {
				return err
			}
			same := !ok
			for _, t := range txns {
				if ok && t.Hash() == a.Hash() {
					same = true
				}
			}
			if !same {
				e.alt[k] = coin.Transactions{a}
				break
			}
		}
		head, _ := pub.Head()
		sb, err := pub.MakeBlock(txns, head.Time()+uint64(10+r.Intn(5000)))
		if err != nil {
			return fmt.Errorf("MakeBlock %d: %v", k, err)
		}
		if err := pub.V.ExecuteSignedBlock(sb); err != nil {
			return fmt.Errorf("publisher exec %d: %v", k, err)
		}
		e.chain = append(e.chain, sb)
	}

	// probe F1 on this tree: does a follower accept a publisher-signed block 1 with another PrevHash?
	{
		n, dn, err := e.follower(0)
		if err != nil {
			return err
		}
		if _, err := e.deliver(dn, n, []dblock{{1, prevVariant}}); err != nil {
			return err
		}
		h, _, _ := n.V.HeadBkSeq()
		e.f1 = h == 1
		n.Remove()
	}

	var cases []string
	var cj []map[string]interface{}
	ncase := 0
	add := func(sched [][]dblock, each bool, tag string) error {
		// the follower's own limits vary: default (20 / 20), or small (2-3 / 4-5) so that
		// short messages already exceed them
		ncase++
		reqn := uint64(0)
		if ncase%2 == 0 {
			reqn = uint64(2 + ncase/2%2)
		}
		term, js, err := e.oneCase(sched, each, reqn)
		if err != nil {
			return err
		}
		js["kind"] = tag
		cases = append(cases, term)
		cj = append(cj, js)
		o.Count(tag+schedString(sched), true)
		hist.Add("schedule:" + tag)
		hist.Add(fmt.Sprintf("final_head=%v", js["final_after_redelivery"]))
		return nil
	}

	// exhaustive: every ordering of every non-empty subset of blocks 1..nex, every splitting into messages
	for k := 1; k <= nex; k++ {
		for _, sub := range subsets(nex, k) {
			for _, p := range perms(sub) {
				for mask := 0; mask < 1<<uint(k-1); mask++ {
					var sched [][]dblock
					cur := []dblock{{p[0], genuine}}
					for i := 1; i < k; i++ {
						if mask&(1<<uint(i-1)) != 0 {
							sched = append(sched, cur)
							cur = nil
						}
						cur = append(cur, dblock{p[i], genuine})
					}
					sched = append(sched, cur)
					if err := add(sched, (mask+len(cases))%2 == 0, "exhaustive"); err != nil {
						return err
					}
				}
			}
		}
	}
	// targeted: every forged kind of block k delivered exactly when the node is ready for
	// block k (alone, or followed in the same message by the genuine k), then the genuine k, k+1;
	// each also after the genuine block k has already been seen and rejected out of order
	for k := 1; k <= nex; k++ {
		for fk := 1; fk <= nForged; fk++ {
			for variant := 0; variant < 4; variant++ {
				var sched [][]dblock
				var pre []dblock
				for j := 1; j < k; j++ {
					pre = append(pre, dblock{j, genuine})
				}
				if variant >= 2 {
					// the genuine block k is SEEN AND REJECTED first (out of order), then the
					// blocks below it arrive, then the forged copy arrives in order
					if k == 1 {
						continue
					}
					sched = append(sched, []dblock{{k, genuine}})
				}
				if len(pre) > 0 {
					sched = append(sched, pre)
				}
				if variant%2 == 0 {
					sched = append(sched, []dblock{{k, kind(fk)}}, []dblock{{k, genuine}, {k + 1, genuine}})
				} else {
					sched = append(sched, []dblock{{k, kind(fk)}, {k, genuine}, {k + 1, genuine}}, []dblock{{k, genuine}, {k + 1, genuine}})
				}
				if err := add(sched, (fk+variant)%2 == 0, "targeted"); err != nil {
					return err
				}
			}
		}
	}
	// sizes: single messages longer than the node's own request count / response cap (and
	// up to the whole chain), with blocks it already holds in front; what a node accepts
	// depends on nothing but the message
	run := func(a, b int) []dblock {
		var m []dblock
		for k := a; k <= b; k++ {
			m = append(m, dblock{k, genuine})
		}
		return m
	}
	for _, held := range []int{0, 3} {
		for _, ln := range []int{4, 6, 20, 21, nchain} {
			var sched [][]dblock
			if held > 0 {
				sched = append(sched, run(1, held))
			}
			sched = append(sched, run(1, ln))
			if err := add(sched, false, "size"); err != nil {
				return err
			}
			if err := add(sched, true, "size"); err != nil { // the other limit setting
				return err
			}
			// known blocks repeated in front of the new ones
			sched2 := append([][]dblock{}, sched[:len(sched)-1]...)
			sched2 = append(sched2, append(append(run(1, held), run(1, held)...), run(held+1, ln)...))
			if held > 0 {
				if err := add(sched2, false, "size"); err != nil {
					return err
				}
			}
		}
	}
	// random: longer chain, duplicates, drops, forged / mutated / re-signed blocks
	nrand := f.Budget(150, 3000)
	for c := 0; c < nrand; c++ {
		top := 2 + r.Intn(nrandTop-1)
		nm := 1 + r.Intn(7)
		var sched [][]dblock
		for i := 0; i < nm; i++ {
			var m []dblock
			switch r.Intn(4) {
			case 0: // an honest peer's reply: a run of consecutive blocks from some point
				st := 1 + r.Intn(top)
				ln := 1 + r.Intn(5)
				for k := st; k < st+ln && k <= top; k++ {
					m = append(m, dblock{k, genuine})
				}
			default:
				ln := 1 + r.Intn(6)
				for j := 0; j < ln; j++ {
					m = append(m, dblock{1 + r.Intn(top), genuine})
				}
			}
			// forge some
			for j := range m {
				if r.Chance(12) {
					m[j].kind = kind(1 + r.Intn(nForged))
					hist.Add("forged:" + kindName[m[j].kind])
				}
			}
			if r.Chance(10) && len(m) > 1 { // duplicate inside the message
				m = append(m, m[r.Intn(len(m))])
			}
			sched = append(sched, m)
		}
		if err := add(sched, r.Bool(), "random"); err != nil {
			return err
		}
	}
	o.Def("cases_sync", "bool * Z * list (list dblock) * list (Z * list reply) * list Z * list bool * list (list dblock) * list (Z * list reply) * list Z", cases)

	// closed loop with an honest peer: the follower's requests are answered by the
	// publisher's real GetBlocksMessage.process until nothing more is sent
	var loops []string
	var lj []map[string]interface{}
	nloop := f.Budget(6, 60)
	if nloop > 60 {
		nloop = 60
	}
	for c := 0; c < nloop; c++ {
		n, dn, err := e.follower(0)
		if err != nil {
			return err
		}
		reqn := uint64(1 + r.Intn(6))
		respn := uint64(1 + r.Intn(6))
		dn.Cfg.GetBlocksRequestCount = reqn
		pn := &daemon.VerifC33Node{V: pub.V, Cfg: daemon.NewDaemonConfig()}
		pn.Cfg.MaxGetBlocksResponseCount = respn
		// start: some prefix already held
		pre := r.Intn(nrandTop)
		for k := 1; k <= pre; k++ {
			if err := n.V.ExecuteSignedBlock(e.chain[k]); err != nil {
				pre = k - 1 // the node refuses a genuine block: it starts lower, the cycle below shows where it gets stuck
				break
			}
		}
		var heads []string
		dn.Sent = nil
		dn.VerifC33AnnounceBlocks("9.9.9.9:6000", uint64(nchain)) // publisher announces its head
		rounds := 0
		for len(dn.Sent) > 0 && rounds < 100 {
			var req *daemon.VerifC33Sent
			for i := range dn.Sent {
				if dn.Sent[i].Kind == "GETB" {
					req = &dn.Sent[i]
				}
			}
			dn.Sent = nil
			if req == nil {
				break
			}
			pn.Sent = nil
			pn.VerifC33GetBlocks("8.8.8.8:6000", req.A, req.B)
			if len(pn.Sent) == 0 {
				break
			}
			if err := dn.VerifC33GiveBlocks("9.9.9.9:6000", pn.Sent[0].Blocks, true); err != nil {
				return err
			}
			h, _, _ := n.V.HeadBkSeq()
			heads = append(heads, Z(h))
			rounds++
		}
		loops = append(loops, Tuple(Z(uint64(nchain)), Z(reqn), Z(respn), Z(uint64(pre)), List(heads)))
		lj = append(lj, map[string]interface{}{"chain_len": nchain, "request_count": reqn, "response_cap": respn, "start_head": pre, "heads": strings.Join(heads, ",")})
		o.Count(fmt.Sprint("loop", reqn, respn, pre), true)
		hist.Add("loop")
		n.Remove()
	}
	o.Def("cases_loop", "Z * Z * Z * Z * list Z", loops)

	o.Side["cases"] = map[string]interface{}{"sync": cj, "loop": lj}
	o.Side["rule"] = "a case is a delivery schedule (list of GiveBlocks messages, each a list of blocks: genuine / bad signature / swapped body / re-signed PrevHash variant / genuine header with a different VALID body / genuine block signed by another key), forged kinds also after the genuine block was seen and rejected run on a fresh real follower visor through daemon.GiveBlocksMessage.process, followed by a sorted re-delivery; every schedule is distinct by construction; loop cases run the request/response cycle against the publisher's GetBlocksMessage.process"
	o.Side["distribution"] = hist.Sorted()
	o.Side["f1_accepts_prevhash_variant"] = e.f1
	ns := len(cj)
	var samples []map[string]interface{}
	for i := 0; i < 12 && i < ns; i++ {
		samples = append(samples, cj[(i*ns)/12])
	}
	o.Side["samples"] = samples
	return o.Write(f.Out, f.JSON)
}
