// Command c23: correspondence / failing-input search for the truncation of
// outgoing peer messages (property C23): the five New*Message constructors and
// the unexported truncate* helpers, measured with the real EncodeMessage length
// and the verdict of gnet's sendMessage length test.
package main

import (
	"fmt"
	"net"
	"time"

	. "verif/harness/kit"

	"github.com/skycoin/skycoin/src/cipher"
	"github.com/skycoin/skycoin/src/coin"
	"github.com/skycoin/skycoin/src/daemon"
	"github.com/skycoin/skycoin/src/daemon/gnet"
	"github.com/skycoin/skycoin/src/daemon/pex"
	"github.com/skycoin/skycoin/src/util/logging"
)

func main() { Main(run) }

// discardConn accepts every write (sendMessage's target once the length test passed)
type discardConn struct{}

func (discardConn) Read(b []byte) (int, error)         { return 0, nil }
func (discardConn) Write(b []byte) (int, error)        { return len(b), nil }
func (discardConn) Close() error                       { return nil }
func (discardConn) LocalAddr() net.Addr                { return &net.TCPAddr{} }
func (discardConn) RemoteAddr() net.Addr               { return &net.TCPAddr{} }
func (discardConn) SetDeadline(t time.Time) error      { return nil }
func (discardConn) SetReadDeadline(t time.Time) error  { return nil }
func (discardConn) SetWriteDeadline(t time.Time) error { return nil }

const (
	kPeers = iota
	kBlocks
	kTxns
	kAnnounce
	kGetTxns
)

var kindName = []string{"GivePeers", "GiveBlocks", "GiveTxns", "AnnounceTxns", "GetTxns"}
var kindCap = []int{512, 128, 256, 256, 256}

func randHash(r *Rng) cipher.SHA256 {
	var h cipher.SHA256
	copy(h[:], r.Bytes(32))
	return h
}

func randTxn(r *Rng) coin.Transaction {
	t := coin.Transaction{InnerHash: randHash(r)}
	for i, n := 0, r.Intn(3); i < n; i++ {
		var s cipher.Sig
		copy(s[:], r.Bytes(65))
		t.Sigs = append(t.Sigs, s)
		t.In = append(t.In, randHash(r))
	}
	for i, n := 0, r.Intn(3); i < n; i++ {
		var a cipher.Address
		copy(a.Key[:], r.Bytes(20))
		t.Out = append(t.Out, coin.TransactionOutput{Address: a, Coins: r.U64(), Hours: r.U64()})
	}
	return t
}

func randBlock(r *Rng) coin.SignedBlock {
	var b coin.SignedBlock
	b.Head.BkSeq = r.U64()
	b.Head.PrevHash = randHash(r)
	for i, n := 0, r.Intn(3); i < n; i++ {
		b.Body.Transactions = append(b.Body.Transactions, randTxn(r))
	}
	return b
}

// one item list of a kind, with the sizes of its items
type items struct {
	kind   int
	peers  []pex.Peer
	ips    []daemon.IPAddr
	blocks []coin.SignedBlock
	txns   []coin.Transaction
	hashes []cipher.SHA256
	sizes  []uint64
}

func genItems(r *Rng, kind, n int) *items {
	it := &items{kind: kind}
	for i := 0; i < n; i++ {
		switch kind {
		case kPeers:
			addr := fmt.Sprintf("%d.%d.%d.%d:%d", 1+r.Intn(250), r.Intn(256), r.Intn(256), 1+r.Intn(250), 1+r.Intn(65000))
			ip, err := daemon.NewIPAddr(addr)
			if err != nil {
				panic(err)
			}
			it.peers = append(it.peers, pex.Peer{Addr: addr})
			it.ips = append(it.ips, ip)
			it.sizes = append(it.sizes, daemon.VerifEncodeSizeIPAddr(&ip))
		case kBlocks:
			b := randBlock(r)
			it.blocks = append(it.blocks, b)
			it.sizes = append(it.sizes, daemon.VerifEncodeSizeSignedBlock(&b))
		case kTxns:
			t := randTxn(r)
			it.txns = append(it.txns, t)
			it.sizes = append(it.sizes, daemon.VerifEncodeSizeTransaction(&t))
		default:
			h := randHash(r)
			it.hashes = append(it.hashes, h)
			it.sizes = append(it.sizes, uint64(len(h)))
		}
	}
	return it
}

type obs struct {
	panicked bool
	kept     int
	prefix   bool
	enclen   int
	verdict  int
}

func verdictOf(m gnet.Message, max uint64) (int, int) {
	enc, err := gnet.EncodeMessage(m)
	if err != nil {
		return -1, 2
	}
	v := 0
	switch gnet.VerifSendMessage(discardConn{}, m, 0, int(max)) {
	case nil:
	case gnet.ErrMsgExceedsMaxLen:
		v = 1
	default:
		v = 2
	}
	return len(enc), v
}

// build the message (constructor or direct truncate*) and measure it
func measure(it *items, max uint64, direct bool) obs {
	var o obs
	o.panicked = Guard(func() {
		switch it.kind {
		case kPeers:
			var m *daemon.GivePeersMessage
			if direct {
				m = &daemon.GivePeersMessage{Peers: append([]daemon.IPAddr{}, it.ips...)}
				daemon.VerifTruncateGivePeersMessage(m, max)
			} else {
				m = daemon.NewGivePeersMessage(it.peers, max)
			}
			o.kept = len(m.Peers)
			o.prefix = o.kept <= len(it.ips)
			for i := 0; o.prefix && i < o.kept; i++ {
				o.prefix = m.Peers[i] == it.ips[i]
			}
			o.enclen, o.verdict = verdictOf(m, max)
		case kBlocks:
			var m *daemon.GiveBlocksMessage
			if direct {
				m = &daemon.GiveBlocksMessage{Blocks: append([]coin.SignedBlock{}, it.blocks...)}
				daemon.VerifTruncateGiveBlocksMessage(m, max)
			} else {
				m = daemon.NewGiveBlocksMessage(it.blocks, max)
			}
			o.kept = len(m.Blocks)
			o.prefix = o.kept <= len(it.blocks)
			for i := 0; o.prefix && i < o.kept; i++ {
				o.prefix = m.Blocks[i].HashHeader() == it.blocks[i].HashHeader() && m.Blocks[i].Body.Hash() == it.blocks[i].Body.Hash()
			}
			o.enclen, o.verdict = verdictOf(m, max)
		case kTxns:
			var m *daemon.GiveTxnsMessage
			if direct {
				m = &daemon.GiveTxnsMessage{Transactions: append([]coin.Transaction{}, it.txns...)}
				daemon.VerifTruncateGiveTxnsMessage(m, max)
			} else {
				m = daemon.NewGiveTxnsMessage(it.txns, max)
			}
			o.kept = len(m.Transactions)
			o.prefix = o.kept <= len(it.txns)
			for i := 0; o.prefix && i < o.kept; i++ {
				o.prefix = m.Transactions[i].Hash() == it.txns[i].Hash()
			}
			o.enclen, o.verdict = verdictOf(m, max)
		case kAnnounce:
			var m *daemon.AnnounceTxnsMessage
			if direct {
				m = &daemon.AnnounceTxnsMessage{Transactions: append([]cipher.SHA256{}, it.hashes...)}
				m.Transactions = daemon.VerifTruncateAnnounceTxnsHashes(m, max)
			} else {
				m = daemon.NewAnnounceTxnsMessage(it.hashes, max)
			}
			o.kept = len(m.Transactions)
			o.prefix = o.kept <= len(it.hashes)
			for i := 0; o.prefix && i < o.kept; i++ {
				o.prefix = m.Transactions[i] == it.hashes[i]
			}
			o.enclen, o.verdict = verdictOf(m, max)
		default:
			var m *daemon.GetTxnsMessage
			if direct {
				m = &daemon.GetTxnsMessage{Transactions: append([]cipher.SHA256{}, it.hashes...)}
				m.Transactions = daemon.VerifTruncateGetTxnsHashes(m, max)
			} else {
				m = daemon.NewGetTxnsMessage(it.hashes, max)
			}
			o.kept = len(m.Transactions)
			o.prefix = o.kept <= len(it.hashes)
			for i := 0; o.prefix && i < o.kept; i++ {
				o.prefix = m.Transactions[i] == it.hashes[i]
			}
			o.enclen, o.verdict = verdictOf(m, max)
		}
	})
	return o
}

func run(args []string) error {
	f := ParseFlags("c23", args)
	logging.Disable()
	r := NewRng(f.Seed)
	n := f.Budget(6, 300)
	o := NewOut()
	hist := Hist{}
	caseJSON := map[string][]map[string]interface{}{}
	var samples []map[string]interface{}

	mc := daemon.NewMessagesConfig()
	mc.Register()

	var cases []string
	add := func(it *items, max uint64, direct bool, what string) {
		ob := measure(it, max, direct)
		sz := make([]string, len(it.sizes))
		for i, s := range it.sizes {
			sz[i] = Z(s)
		}
		var os string
		if ob.panicked {
			os = "Panic"
		} else {
			os = "(Val " + Tuple(fmt.Sprint(ob.kept), B(ob.prefix), fmt.Sprint(ob.enclen), fmt.Sprint(ob.verdict)) + ")"
		}
		// long size lists are printed run-length encoded (value, repeat count)
		cases = append(cases, Tuple(fmt.Sprint(it.kind), B(direct), rle(it.sizes), Z(max), os))
		cj := map[string]interface{}{"kind": kindName[it.kind], "direct_truncate_call": direct, "item_count": len(it.sizes),
			"item_sizes": rleJSON(it.sizes), "max": max, "panicked": ob.panicked, "kept": ob.kept, "kept_is_prefix": ob.prefix,
			"encoded_len": ob.enclen, "send_verdict": ob.verdict, "what": what}
		caseJSON["msg"] = append(caseJSON["msg"], cj)
		o.Count(fmt.Sprint(it.kind, direct, it.sizes, max), max >= 12 && len(it.sizes) > 0)
		switch {
		case ob.panicked:
			hist.Add(kindName[it.kind] + ":panic")
		case ob.kept == len(it.sizes):
			hist.Add(kindName[it.kind] + ":all-kept")
		case ob.kept == 0:
			hist.Add(kindName[it.kind] + ":none-kept")
		default:
			hist.Add(kindName[it.kind] + ":truncated")
		}
		if ob.verdict == 1 {
			hist.Add(kindName[it.kind] + ":refused-by-send")
		}
		if len(samples) < 12 && r.Intn(200) == 0 {
			samples = append(samples, cj)
		}
	}

	for kind := 0; kind < 5; kind++ {
		// (a) short lists x every max around every prefix boundary
		for i := 0; i < n; i++ {
			it := genItems(r, kind, r.Intn(6))
			direct := i%2 == 1
			seen := map[uint64]bool{}
			try := func(m int64) {
				if m < 0 || seen[uint64(m)] {
					return
				}
				seen[uint64(m)] = true
				add(it, uint64(m), direct, "boundary")
			}
			if i < 2 && (f.Tier != "quick" || i < 1) { // every max from 0 to header + 3 items (+2)
				lim := int64(12 + 2)
				for j := 0; j < len(it.sizes) && j < 3; j++ {
					lim += int64(it.sizes[j])
				}
				if lim > 700 && f.Tier == "quick" {
					lim = 12 + int64(it.sizes[0]) + 40
				}
				for m := int64(0); m <= lim; m++ {
					try(m)
				}
			}
			for m := int64(0); m <= 17; m++ {
				try(m)
			}
			b := int64(12)
			for j := 0; j <= len(it.sizes); j++ {
				for d := int64(-10); d <= 2; d++ {
					try(b + d)
				}
				if j < len(it.sizes) {
					b += int64(it.sizes[j])
				}
			}
			try(int64(r.Intn(int(b) + 40)))
			try(256 * 1024)
		}
		// (b) lists around and above the item limit
		for _, cnt := range []int{kindCap[kind] - 1, kindCap[kind], kindCap[kind] + 1, kindCap[kind] + 9} {
			it := genItems(r, kind, cnt)
			var total int64 = 12
			var capTotal int64 = 12
			for j, s := range it.sizes {
				total += int64(s)
				if j < kindCap[kind] {
					capTotal += int64(s)
				}
			}
			for _, direct := range []bool{false, true} {
				if direct && cnt > kindCap[kind] {
					continue // the truncate helpers are only reached through the constructors, after the cap
				}
				for _, m := range []int64{capTotal - 9, capTotal - 5, capTotal - 4, capTotal - 1, capTotal, capTotal + 1, total - 4, total, total + 100, capTotal / 2, 1 << 30} {
					if m >= 0 {
						add(it, uint64(m), direct, "item-limit")
					}
				}
			}
		}
	}
	o.Def("cases_msg", "Z * bool * list (Z * Z) * Z * res (Z * bool * Z * Z)", cases)

	o.Side["cases"] = caseJSON
	o.Side["samples"] = samples
	o.Side["distribution"] = hist.Sorted()
	o.Side["rule"] = "case = (message kind, item sizes, maxMsgLength, constructor or direct truncate* call); observed = items kept, kept-is-prefix, len(EncodeMessage), verdict of sendMessage's length test; non-trivial = max >= 12 and a non-empty item list"
	return o.Write(f.Out, f.JSON)
}

func rle(sizes []uint64) string {
	var it []string
	for i := 0; i < len(sizes); {
		j := i
		for j < len(sizes) && sizes[j] == sizes[i] {
			j++
		}
		it = append(it, Tuple(Z(sizes[i]), fmt.Sprint(j-i)))
		i = j
	}
	return List(it)
}

func rleJSON(sizes []uint64) string {
	s := ""
	for i := 0; i < len(sizes); {
		j := i
		for j < len(sizes) && sizes[j] == sizes[i] {
			j++
		}
		if s != "" {
			s += ","
		}
		if j-i > 1 {
			s += fmt.Sprintf("%dx%d", sizes[i], j-i)
		} else {
			s += fmt.Sprint(sizes[i])
		}
		i = j
	}
	return s
}
