// Command c23: correspondence / failing-input search for the truncation of
// outgoing peer messages (property C23): the five New*Message constructors and
// the unexported truncate* helpers, measured with the real EncodeMessage length
// and the verdict of gnet's sendMessage length test.
package main

import (
	"fmt"
	"io/ioutil"
	"net"
	"os"
	"time"

	. "verif/harness/kit"

	"github.com/skycoin/skycoin/src/cipher"
	"github.com/skycoin/skycoin/src/coin"
	"github.com/skycoin/skycoin/src/daemon"
	"github.com/skycoin/skycoin/src/daemon/gnet"
	"github.com/skycoin/skycoin/src/daemon/pex"
	"github.com/skycoin/skycoin/src/util/logging"
)

func main() { Main(run) }

// discardConn accepts every write (sendMessage's target once the length test passed)
type discardConn struct{}

func (discardConn) Read(b []byte) (int, error)         { return 0, nil }
func (discardConn) Write(b []byte) (int, error)        { return len(b), nil }
func (discardConn) Close() error                       { return nil }
func (discardConn) LocalAddr() net.Addr                { return &net.TCPAddr{} }
func (discardConn) RemoteAddr() net.Addr               { return &net.TCPAddr{} }
func (discardConn) SetDeadline(t time.Time) error      { return nil }
func (discardConn) SetReadDeadline(t time.Time) error  { return nil }
func (discardConn) SetWriteDeadline(t time.Time) error { return nil }

const (
	kPeers = iota
	kBlocks
	kTxns
	kAnnounce
	kGetTxns
)

var kindName = []string{"GivePeers", "GiveBlocks", "GiveTxns", "AnnounceTxns", "GetTxns"}
var kindCap = []int{512, 128, 256, 256, 256}

func randHash(r *Rng) cipher.SHA256 {
	var h cipher.SHA256
	copy(h[:], r.Bytes(32))
	return h
}

func randTxn(r *Rng) coin.Transaction {
	t := coin.Transaction{InnerHash: randHash(r)}
	for i, n := 0, r.Intn(3); i < n; i++ {
		var s cipher.Sig
		copy(s[:], r.Bytes(65))
		t.Sigs = append(t.Sigs, s)
		t.In = append(t.In, randHash(r))
	}
	for i, n := 0, r.Intn(3); i < n; i++ {
		var a cipher.Address
		copy(a.Key[:], r.Bytes(20))
		t.Out = append(t.Out, coin.TransactionOutput{Address: a, Coins: r.U64(), Hours: r.U64()})
	}
	return t
}

func randBlock(r *Rng) coin.SignedBlock {
	var b coin.SignedBlock
	b.Head.BkSeq = r.U64()
	b.Head.PrevHash = randHash(r)
	for i, n := 0, r.Intn(3); i < n; i++ {
		b.Body.Transactions = append(b.Body.Transactions, randTxn(r))
	}
	return b
}

// one item list of a kind, with the sizes of its items
type items struct {
	kind   int
	peers  []pex.Peer
	ips    []daemon.IPAddr
	blocks []coin.SignedBlock
	txns   []coin.Transaction
	hashes []cipher.SHA256
	sizes  []uint64
}

func genItems(r *Rng, kind, n int) *items {
	it := &items{kind: kind}
	for i := 0; i < n; i++ {
		switch kind {
		case kPeers:
			addr := fmt.Sprintf("%d.%d.%d.%d:%d", 1+r.Intn(250), r.Intn(256), r.Intn(256), 1+r.Intn(250), 1+r.Intn(65000))
			ip, err := daemon.NewIPAddr(addr)
			if err != nil {
				panic(err)
			}
			it.peers = append(it.peers, pex.Peer{Addr: addr})
			it.ips = append(it.ips, ip)
			it.sizes = append(it.sizes, daemon.VerifEncodeSizeIPAddr(&ip))
		case kBlocks:
			b := randBlock(r)
			it.blocks = append(it.blocks, b)
			it.sizes = append(it.sizes, daemon.VerifEncodeSizeSignedBlock(&b))
		case kTxns:
			t := randTxn(r)
			it.txns = append(it.txns, t)
			it.sizes = append(it.sizes, daemon.VerifEncodeSizeTransaction(&t))
		default:
			h := randHash(r)
			it.hashes = append(it.hashes, h)
			it.sizes = append(it.sizes, uint64(len(h)))
		}
	}
	return it
}

type obs struct {
	panicked bool
	kept     int
	prefix   bool
	enclen   int
	verdict  int
}

func verdictOf(m gnet.Message, max uint64) (int, int) {
	enc, err := gnet.EncodeMessage(m)
	if err != nil {
		return -1, 2
	}
	v := 0
	switch gnet.VerifSendMessage(discardConn{}, m, 0, int(max)) {
	case nil:
	case gnet.ErrMsgExceedsMaxLen:
		v = 1
	default:
		v = 2
	}
	return len(enc), v
}

// build the message (constructor or direct truncate*) and measure it
func measure(it *items, max uint64, direct bool) obs {
	var o obs
	o.panicked = Guard(func() {
		switch it.kind {
		case kPeers:
			var m *daemon.GivePeersMessage
			if direct {
				m = &daemon.GivePeersMessage{Peers: append([]daemon.IPAddr{}, it.ips...)}
				daemon.VerifTruncateGivePeersMessage(m, max)
			} else {
				m = daemon.NewGivePeersMessage(it.peers, max)
			}
			o.kept = len(m.Peers)
			o.prefix = o.kept <= len(it.ips)
			for i := 0; o.prefix && i < o.kept; i++ {
				o.prefix = m.Peers[i] == it.ips[i]
			}
			o.enclen, o.verdict = verdictOf(m, max)
		case kBlocks:
			var m *daemon.GiveBlocksMessage
			if direct {
				m = &daemon.GiveBlocksMessage{Blocks: append([]coin.SignedBlock{}, it.blocks...)}
				daemon.VerifTruncateGiveBlocksMessage(m, max)
			} else {
				m = daemon.NewGiveBlocksMessage(it.blocks, max)
			}
			o.kept = len(m.Blocks)
			o.prefix = o.kept <= len(it.blocks)
			for i := 0; o.prefix && i < o.kept; i++ {
				o.prefix = m.Blocks[i].HashHeader() == it.blocks[i].HashHeader() && m.Blocks[i].Body.Hash() == it.blocks[i].Body.Hash()
			}
			o.enclen, o.verdict = verdictOf(m, max)
		case kTxns:
			var m *daemon.GiveTxnsMessage
			if direct {
				m = &daemon.GiveTxnsMessage{Transactions: append([]coin.Transaction{}, it.txns...)}
				daemon.VerifTruncateGiveTxnsMessage(m, max)
			} else {
				m = daemon.NewGiveTxnsMessage(it.txns, max)
			}
			o.kept = len(m.Transactions)
			o.prefix = o.kept <= len(it.txns)
			for i := 0; o.prefix && i < o.kept; i++ {
				o.prefix = m.Transactions[i].Hash() == it.txns[i].Hash()
			}
			o.enclen, o.verdict = verdictOf(m, max)
		case kAnnounce:
			var m *daemon.AnnounceTxnsMessage
			if direct {
				m = &daemon.AnnounceTxnsMessage{Transactions: append([]cipher.SHA256{}, it.hashes...)}
				m.Transactions = daemon.VerifTruncateAnnounceTxnsHashes(m, max)
			} else {
				m = daemon.NewAnnounceTxnsMessage(it.hashes, max)
			}
			o.kept = len(m.Transactions)
			o.prefix = o.kept <= len(it.hashes)
			for i := 0; o.prefix && i < o.kept; i++ {
				o.prefix = m.Transactions[i] == it.hashes[i]
			}
			o.enclen, o.verdict = verdictOf(m, max)
		default:
			var m *daemon.GetTxnsMessage
			if direct {
				m = &daemon.GetTxnsMessage{Transactions: append([]cipher.SHA256{}, it.hashes...)}
				m.Transactions = daemon.VerifTruncateGetTxnsHashes(m, max)
			} else {
				m = daemon.NewGetTxnsMessage(it.hashes, max)
			}
			o.kept = len(m.Transactions)
			o.prefix = o.kept <= len(it.hashes)
			for i := 0; o.prefix && i < o.kept; i++ {
				o.prefix = m.Transactions[i] == it.hashes[i]
			}
			o.enclen, o.verdict = verdictOf(m, max)
		}
	})
	return o
}

func run(args []string) error {
	f := ParseFlags("c23", args)
	logging.Disable()
	r := NewRng(f.Seed)
	n := f.Budget(6, 300)
	o := NewOut()
	hist := Hist{}
	caseJSON := map[string][]map[string]interface{}{}
	var samples []map[string]interface{}

	mc := daemon.NewMessagesConfig()
	mc.Register()

	var cases []string
	add := func(it *items, max uint64, direct bool, what string) {
		ob := measure(it, max, direct)
		sz := make([]string, len(it.sizes))
		for i, s := range it.sizes {
			sz[i] = Z(s)
		}
		var os string
		if ob.panicked {
			os = "Panic"
		} else {
			os = "(Val " + Tuple(fmt.Sprint(ob.kept), B(ob.prefix), fmt.Sprint(ob.enclen), fmt.Sprint(ob.verdict)) + ")"
		}
		// long size lists are printed run-length encoded (value, repeat count)
		cases = append(cases, Tuple(fmt.Sprint(it.kind), B(direct), rle(it.sizes), Z(max), os))
		cj := map[string]interface{}{"kind": kindName[it.kind], "direct_truncate_call": direct, "item_count": len(it.sizes),
			"item_sizes": rleJSON(it.sizes), "max": max, "panicked": ob.panicked, "kept": ob.kept, "kept_is_prefix": ob.prefix,
			"encoded_len": ob.enclen, "send_verdict": ob.verdict, "what": what}
		caseJSON["msg"] = append(caseJSON["msg"], cj)
		o.Count(fmt.Sprint(it.kind, direct, it.sizes, max), max >= 12 && len(it.sizes) > 0)
		switch {
		case ob.panicked:
			hist.Add(kindName[it.kind] + ":panic")
		case ob.kept == len(it.sizes):
			hist.Add(kindName[it.kind] + ":all-kept")
		case ob.kept == 0:
			hist.Add(kindName[it.kind] + ":none-kept")
		default:
			hist.Add(kindName[it.kind] + ":truncated")
		}
		if ob.verdict == 1 {
			hist.Add(kindName[it.kind] + ":refused-by-send")
		}
		if len(samples) < 12 && r.Intn(200) == 0 {
			samples = append(samples, cj)
		}
	}

	for kind := 0; kind < 5; kind++ {
		// (a) short lists x every max around every prefix boundary
		for i := 0; i < n; i++ {
			it := genItems(r, kind, r.Intn(6))
			direct := i%2 == 1
			seen := map[uint64]bool{}
			try := func(m int64) {
				if m < 0 || seen[uint64(m)] {
					return
				}
				seen[uint64(m)] = true
				add(it, uint64(m), direct, "boundary")
			}
			if i < 2 && (f.Tier != "quick" || i < 1) { // every max from 0 to header + 3 items (+2)
				lim := int64(12 + 2)
				for j := 0; j < len(it.sizes) && j < 3; j++ {
					lim += int64(it.sizes[j])
				}
				if lim > 700 && f.Tier == "quick" {
					lim = 12 + int64(it.sizes[0]) + 40
				}
				for m := int64(0); m <= lim; m++ {
					try(m)
				}
			}
			for m := int64(0); m <= 17; m++ {
				try(m)
			}
			b := int64(12)
			for j := 0; j <= len(it.sizes); j++ {
				for d := int64(-10); d <= 2; d++ {
					try(b + d)
				}
				if j < len(it.sizes) {
					b += int64(it.sizes[j])
				}
			}
			try(int64(r.Intn(int(b) + 40)))
			try(256 * 1024)
		}
		// (b) lists around and above the item limit
		for _, cnt := range []int{kindCap[kind] - 1, kindCap[kind], kindCap[kind] + 1, kindCap[kind] + 9} {
			it := genItems(r, kind, cnt)
			var total int64 = 12
			var capTotal int64 = 12
			for j, s := range it.sizes {
				total += int64(s)
				if j < kindCap[kind] {
					capTotal += int64(s)
				}
			}
			for _, direct := range []bool{false, true} {
				if direct && cnt > kindCap[kind] {
					continue // the truncate helpers are only reached through the constructors, after the cap
				}
				for _, m := range []int64{capTotal - 9, capTotal - 5, capTotal - 4, capTotal - 1, capTotal, capTotal + 1, total - 4, total, total + 100, capTotal / 2, 1 << 30} {
					if m >= 0 {
						add(it, uint64(m), direct, "item-limit")
					}
				}
			}
		}
	}
	o.Def("cases_msg", "Z * bool * list (Z * Z) * Z * res (Z * bool * Z * Z)", cases)

	// ------------------------------------------------------------ call sites
	// every path of the daemon that builds one of these messages for sending, run on
	// the real code with MaxIncomingMessageLength != MaxOutgoingMessageLength (both small):
	// what is handed to sendMessage / broadcastMessage (or reaches a connection's write
	// queue) is measured against MaxOutgoingMessageLength
	var sites []string
	siteNames := []string{"GetBlocksMessage.process->GiveBlocks", "GetTxnsMessage.process->GiveTxns",
		"AnnounceTxnsMessage.process->GetTxns", "GiveTxnsMessage.process->AnnounceTxns",
		"Daemon.BroadcastTransaction->GiveTxns", "Daemon.broadcastBlock->GiveBlocks",
		"Daemon.sendRandomPeers->GivePeers", "Daemon.announceTxnHashes->AnnounceTxns"}
	siteKind := []int{kBlocks, kTxns, kGetTxns, kAnnounce, kTxns, kBlocks, kPeers, kAnnounce}
	tmpDir, err := ioutil.TempDir("", "c23pex")
	if err != nil {
		return err
	}
	defer os.RemoveAll(tmpDir)
	addSite := func(site int, sizes []uint64, maxOut, maxIn uint64, panicked bool, m gnet.Message, kept int, prefix bool) {
		kind := siteKind[site]
		var os_ string
		enclen, verdict := -1, 2
		if panicked || m == nil {
			os_ = "Panic"
		} else {
			enclen, verdict = verdictOf(m, maxOut)
			os_ = "(Val " + Tuple(fmt.Sprint(kept), B(prefix), fmt.Sprint(enclen), fmt.Sprint(verdict)) + ")"
		}
		sites = append(sites, Tuple(fmt.Sprint(kind), rle(sizes), Z(maxOut), Z(maxIn), os_))
		cj := map[string]interface{}{"site": siteNames[site], "kind": kindName[kind], "item_count": len(sizes), "item_sizes": rleJSON(sizes),
			"MaxOutgoingMessageLength": maxOut, "MaxIncomingMessageLength": maxIn, "panicked": panicked || m == nil, "kept": kept,
			"kept_is_prefix": prefix, "encoded_len": enclen, "send_verdict_against_max_outgoing": verdict}
		caseJSON["site"] = append(caseJSON["site"], cj)
		o.Count(fmt.Sprint("site", site, sizes, maxOut, maxIn), maxOut >= 12)
		hist.Add(fmt.Sprintf("site:%s:%s", siteNames[site], map[bool]string{true: "all-kept", false: "truncated"}[kept == len(sizes)]))
		if verdict == 1 {
			hist.Add("site:" + siteNames[site] + ":refused-by-send")
		}
	}
	limits := func(sizes []uint64) [][2]uint64 {
		// MaxOutgoing around a prefix boundary; MaxIncoming different: much larger, a bit larger, smaller
		var bs []int64
		b := int64(12)
		bs = append(bs, b)
		for _, x := range sizes {
			b += int64(x)
			bs = append(bs, b)
		}
		var out [][2]uint64
		for k := 0; k < 3; k++ {
			mo := bs[r.Intn(len(bs))] + int64(r.Intn(13)) - 10
			if r.Chance(15) {
				mo = int64(8 + r.Intn(int(b)+20))
			}
			if mo < 12 {
				mo = 12 + int64(r.Intn(4))
			}
			var mi int64
			switch r.Intn(4) {
			case 0:
				mi = 1024 * 1024
			case 1:
				mi = mo + 1 + int64(r.Intn(64))
			case 2:
				mi = mo*4 + 1000
			default:
				mi = 12 + int64(r.Intn(int(mo-11)))
				if mi == mo {
					mi = mo + 7
				}
			}
			out = append(out, [2]uint64{uint64(mo), uint64(mi)})
		}
		return out
	}
	ns := 3
	if f.Tier != "quick" {
		ns = 30
	}
	for rep := 0; rep < ns; rep++ {
		for site := 0; site < len(siteNames); site++ {
			kind := siteKind[site]
			cnt := 1 + r.Intn(5)
			if site == 4 || site == 5 {
				cnt = 1
			}
			it := genItems(r, kind, cnt)
			if site == 3 { // GiveTxns.process announces the hashes of the transactions it was given
				it = genItems(r, kTxns, cnt)
				it.hashes = nil
				it.sizes = nil
				for _, t := range it.txns {
					it.hashes = append(it.hashes, t.Hash())
					it.sizes = append(it.sizes, 32)
				}
			}
			if site == 6 { // pex only accepts public addresses with a port >= 1024
				it = &items{kind: kPeers}
				for j := 0; j < cnt+2; j++ {
					addr := fmt.Sprintf("112.%d.%d.%d:%d", 1+r.Intn(250), r.Intn(256), 1+r.Intn(250), 1024+r.Intn(60000))
					ip, err := daemon.NewIPAddr(addr)
					if err != nil {
						return err
					}
					it.peers = append(it.peers, pex.Peer{Addr: addr})
					it.ips = append(it.ips, ip)
					it.sizes = append(it.sizes, daemon.VerifEncodeSizeIPAddr(&ip))
				}
			}
			for _, lim := range limits(it.sizes) {
				maxOut, maxIn := lim[0], lim[1]
				cfg := daemon.NewDaemonConfig()
				cfg.MaxOutgoingMessageLength = maxOut
				cfg.MaxIncomingMessageLength = maxIn
				cfg.MaxGetBlocksResponseCount = 1000
				cfg.MaxTxnAnnounceNum = 3
				var msgs []gnet.Message
				var reqs [][]uint64 // requested item sizes per message
				panicked := false
				if site <= 3 {
					node := &daemon.VerifC23Node{Cfg: cfg, Blocks: it.blocks, Known: it.txns, Unknown: it.hashes}
					panicked = Guard(func() {
						switch site {
						case 0:
							node.VerifC23GetBlocks("1.2.3.4:6000", 0, 1000)
						case 1:
							node.VerifC23GetTxns("1.2.3.4:6000", []cipher.SHA256{{1}})
						case 2:
							node.VerifC23AnnounceTxns("1.2.3.4:6000", it.hashes)
						case 3:
							node.VerifC23GiveTxns("1.2.3.4:6000", it.txns)
						}
					})
					for _, s := range node.Sent {
						msgs = append(msgs, s.Msg)
						reqs = append(reqs, it.sizes)
					}
					if panicked {
						addSite(site, it.sizes, maxOut, maxIn, true, nil, 0, false)
						continue
					}
				} else {
					conns := []string{"112.32.32.14:6000", "112.32.32.15:6001"}
					d, err := daemon.VerifC23NewDaemon(cfg, conns, peerAddrs(it), 4, tmpDir)
					if err != nil {
						return err
					}
					panicked = Guard(func() {
						switch site {
						case 4:
							_ = d.BroadcastTransaction(it.txns[0])
						case 5:
							_ = d.BroadcastBlock(it.blocks[0])
						case 6:
							_ = d.SendRandomPeers(conns[0])
						case 7:
							_ = d.AnnounceTxnHashes(it.hashes)
						}
					})
					q := d.Drain()
					d.Close()
					if panicked {
						addSite(site, it.sizes, maxOut, maxIn, true, nil, 0, false)
						continue
					}
					msgs = q[0]
					for k := range msgs {
						switch site {
						case 6:
							n := len(it.sizes)
							if n > 4 { // pex ReplyCount
								n = 4
							}
							reqs = append(reqs, it.sizes[:n])
						case 7: // divideHashes: consecutive groups of MaxTxnAnnounceNum
							lo, hi := k*3, k*3+3
							if hi > len(it.sizes) {
								hi = len(it.sizes)
							}
							if lo > hi {
								lo = hi
							}
							reqs = append(reqs, it.sizes[lo:hi])
						default:
							reqs = append(reqs, it.sizes)
						}
					}
				}
				for k, m := range msgs {
					kept, prefix := keptOf(m, it, site, k)
					addSite(site, reqs[k], maxOut, maxIn, false, m, kept, prefix)
				}
			}
		}
	}
	o.Def("cases_site", "Z * list (Z * Z) * Z * Z * res (Z * bool * Z * Z)", sites)

	o.Side["cases"] = caseJSON
	o.Side["samples"] = samples
	o.Side["distribution"] = hist.Sorted()
	o.Side["rule"] = "case = (message kind, item sizes, maxMsgLength, constructor or direct truncate* call); observed = items kept, kept-is-prefix, len(EncodeMessage), verdict of sendMessage's length test; non-trivial = max >= 12 and a non-empty item list"
	return o.Write(f.Out, f.JSON)
}

func peerAddrs(it *items) []string {
	var out []string
	for _, p := range it.peers {
		out = append(out, p.Addr)
	}
	return out
}

// number of items in an outgoing message and whether they are a prefix of the requested ones
func keptOf(m gnet.Message, it *items, site, k int) (int, bool) {
	switch x := m.(type) {
	case *daemon.GiveBlocksMessage:
		ok := len(x.Blocks) <= len(it.blocks)
		for i := 0; ok && i < len(x.Blocks); i++ {
			ok = x.Blocks[i].HashHeader() == it.blocks[i].HashHeader()
		}
		return len(x.Blocks), ok
	case *daemon.GiveTxnsMessage:
		ok := len(x.Transactions) <= len(it.txns)
		for i := 0; ok && i < len(x.Transactions); i++ {
			ok = x.Transactions[i].Hash() == it.txns[i].Hash()
		}
		return len(x.Transactions), ok
	case *daemon.GetTxnsMessage:
		ok := len(x.Transactions) <= len(it.hashes)
		for i := 0; ok && i < len(x.Transactions); i++ {
			ok = x.Transactions[i] == it.hashes[i]
		}
		return len(x.Transactions), ok
	case *daemon.AnnounceTxnsMessage:
		off := 0
		if site == 7 {
			off = 3 * k
		}
		ok := off+len(x.Transactions) <= len(it.hashes)
		for i := 0; ok && i < len(x.Transactions); i++ {
			ok = x.Transactions[i] == it.hashes[off+i]
		}
		return len(x.Transactions), ok
	case *daemon.GivePeersMessage:
		// a random sample of the exchangeable peers: each must be one of them
		ok := true
		for _, p := range x.Peers {
			found := false
			for _, q := range it.ips {
				found = found || p == q
			}
			ok = ok && found
		}
		return len(x.Peers), ok
	}
	return -1, false
}

func rle(sizes []uint64) string {
	var it []string
	for i := 0; i < len(sizes); {
		j := i
		for j < len(sizes) && sizes[j] == sizes[i] {
			j++
		}
		it = append(it, Tuple(Z(sizes[i]), fmt.Sprint(j-i)))
		i = j
	}
	return List(it)
}

func rleJSON(sizes []uint64) string {
	s := ""
	for i := 0; i < len(sizes); {
		j := i
		for j < len(sizes) && sizes[j] == sizes[i] {
			j++
		}
		if s != "" {
			s += ","
		}
		if j-i > 1 {
			s += fmt.Sprintf("%dx%d", sizes[i], j-i)
		} else {
			s += fmt.Sprint(sizes[i])
		}
		i = j
	}
	return s
}
