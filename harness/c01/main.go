// Command c01: ledger correspondence harness shared by C01 (coin supply
// conserved), C02 (unspent = created - spent, no double spend) and C04 (a block
// is appended only if it extends the signed chain; rejected blocks are no-ops).
//
// A REAL visor.Visor runs on a real bolt file, per history either as a follower
// (non-publisher, non-arbitrating: the configuration of every node that receives
// blocks from the network) or as an arbitrating block publisher (which filters
// and re-orders the transactions of the blocks it is handed). The
// harness holds the publisher key, builds histories of valid and semantically
// mutated signed blocks, submits each through Visor.ExecuteSignedBlock and after
// EVERY op dumps the projected observables. Hashes are interned to small ids
// (one table per history, the null hash is 0); the unspent-set checksum is
// projected to its last 8 bytes (xor commutes with the projection).
package main

import (
	"crypto/sha256"
	"encoding/binary"
	"encoding/hex"
	"fmt"
	"os"
	"path/filepath"
	"sort"
	"strings"
	"time"

	"github.com/boltdb/bolt"

	"github.com/skycoin/skycoin/src/cipher"
	secp "github.com/skycoin/skycoin/src/cipher/secp256k1-go/secp256k1-go2"
	"github.com/skycoin/skycoin/src/coin"
	"github.com/skycoin/skycoin/src/params"
	"github.com/skycoin/skycoin/src/transaction"
	"github.com/skycoin/skycoin/src/util/logging"
	"github.com/skycoin/skycoin/src/visor"
	"github.com/skycoin/skycoin/src/visor/blockdb"
	"github.com/skycoin/skycoin/src/visor/dbutil"

	. "verif/harness/kit"
)

func main() { Main(run) }

const nKeys = 4

// ---------------------------------------------------------------- world

type world struct {
	r        *Rng
	pub      cipher.PubKey
	sec      cipher.SecKey
	otherSec cipher.SecKey
	keys     []cipher.SecKey
	addrs    []cipher.Address
	keyOf    map[cipher.Address]cipher.SecKey
	nonce    uint64
	dir      string

	// id tables of this history
	ids     map[cipher.SHA256]int
	addrIDs map[cipher.Address]int
	digests map[string]int

	genTime uint64
	genVol  uint64
	arb     bool // the node under test runs as an arbitrating block publisher
}

func newWorld(r *Rng, dir string) *world {
	w := &world{r: r, dir: dir, keyOf: map[cipher.Address]cipher.SecKey{},
		ids: map[cipher.SHA256]int{{}: 0}, addrIDs: map[cipher.Address]int{}, digests: map[string]int{}}
	seed := r.Bytes(32)
	w.pub, w.sec = cipher.MustGenerateDeterministicKeyPair(append([]byte("publisher"), seed...))
	_, w.otherSec = cipher.MustGenerateDeterministicKeyPair(append([]byte("other"), seed...))
	w.keys = cipher.MustGenerateDeterministicKeyPairs(append([]byte("wallet"), seed...), nKeys)
	for _, k := range w.keys {
		a := cipher.MustAddressFromSecKey(k)
		w.addrs = append(w.addrs, a)
		w.keyOf[a] = k
	}
	w.arb = r.Chance(45)
	w.genTime = 1426562704 + uint64(r.Intn(1000))
	switch r.Intn(5) {
	case 0:
		w.genVol = 100e12 // main net
	case 1:
		w.genVol = ^uint64(0) // sums of amounts cross 2^64 easily
	case 2:
		w.genVol = uint64(1)<<63 + uint64(r.Intn(3))
	case 3:
		w.genVol = uint64(5+r.Intn(40)) * 1e6
	default:
		w.genVol = 1e18
	}
	return w
}

func (w *world) id(h cipher.SHA256) int {
	if v, ok := w.ids[h]; ok {
		return v
	}
	v := len(w.ids)
	w.ids[h] = v
	return v
}
func (w *world) addrID(a cipher.Address) int {
	if v, ok := w.addrIDs[a]; ok {
		return v
	}
	v := len(w.addrIDs) + 1
	w.addrIDs[a] = v
	return v
}
func (w *world) digestID(s string) int {
	if v, ok := w.digests[s]; ok {
		return v
	}
	v := len(w.digests) + 1
	w.digests[s] = v
	return v
}

// low64 projects a hash to its last 8 bytes (big endian).
func low64(h cipher.SHA256) uint64 { return binary.BigEndian.Uint64(h[24:]) }

// detSign signs with a nonce derived from (key, message, counter) so that
// transaction and block hashes are replayable from the seed.
func (w *world) detSign(h cipher.SHA256, sec cipher.SecKey) cipher.Sig {
	var sk, msg secp.Number
	sk.SetBytes(sec[:])
	msg.SetBytes(h[:])
	for {
		w.nonce++
		var ctr [8]byte
		binary.BigEndian.PutUint64(ctr[:], w.nonce)
		d := sha256.Sum256(append(append(append([]byte{}, sec[:]...), h[:]...), ctr[:]...))
		var nonce secp.Number
		nonce.SetBytes(d[:])
		if nonce.Sign() == 0 || nonce.Cmp(&secp.TheCurve.Order.Int) >= 0 {
			continue
		}
		var sig secp.Signature
		var recid int
		if sig.Sign(&sk, &msg, &nonce, &recid) != 1 {
			continue
		}
		var out cipher.Sig
		copy(out[:64], sig.Bytes())
		out[64] = byte(recid)
		if cipher.VerifySignatureRecoverPubKey(out, h) != nil {
			continue
		}
		return out
	}
}

// ---------------------------------------------------------------- node

type node struct {
	v    *visor.Visor
	db   *dbutil.DB
	bdb  *bolt.DB
	bc   *blockdb.Blockchain
	path string
}

func (w *world) openNode(path string, genesisSig cipher.Sig) (*node, error) {
	return w.openNodeMode(path, genesisSig, w.arb, false)
}

// openNodeMode opens a node; with keepOnInitError the node is returned together
// with the Init error (start-up attempts) so that the caller can look at the store.
func (w *world) openNodeMode(path string, genesisSig cipher.Sig, arb bool, keepOnInitError bool) (*node, error) {
	bdb, err := bolt.Open(path, 0600, &bolt.Options{Timeout: 2 * time.Second})
	if err != nil {
		return nil, err
	}
	bdb.NoSync = true // temp files; durability is not the subject here
	db := dbutil.WrapDB(bdb)
	cfg := visor.NewConfig()
	// follower: the configuration of every node that receives blocks; arbitrating:
	// the block publisher's configuration (src/skycoin/skycoin.go sets
	// Arbitrating = RunBlockPublisher), which is handed blocks through the same entry point
	cfg.IsBlockPublisher = arb
	cfg.Arbitrating = arb
	cfg.BlockchainPubkey = w.pub
	if arb {
		cfg.BlockchainSeckey = w.sec
	}
	cfg.GenesisAddress = w.addrs[0]
	cfg.GenesisCoinVolume = w.genVol
	cfg.GenesisTimestamp = w.genTime
	cfg.GenesisSignature = genesisSig
	cfg.Distribution = params.MainNetDistribution
	// the publisher creates blocks from its pool under the soft constraints: allow
	// every droplet amount (the wallet simulator splits down to 1 droplet)
	cfg.UnconfirmedVerifyTxn.MaxDropletPrecision = 6
	cfg.CreateBlockVerifyTxn.MaxDropletPrecision = 6
	v, err := visor.New(cfg, db, nil)
	if err != nil {
		bdb.Close()
		return nil, err
	}
	if err := v.Init(); err != nil {
		if keepOnInitError {
			return &node{v: v, db: db, bdb: bdb, path: path}, err
		}
		bdb.Close()
		return nil, err
	}
	bc, err := blockdb.NewBlockchain(db, visor.DefaultWalker)
	if err != nil {
		bdb.Close()
		return nil, err
	}
	return &node{v: v, db: db, bdb: bdb, bc: bc, path: path}, nil
}

func (n *node) close() {
	if n != nil && n.bdb != nil {
		n.bdb.Close()
	}
}

// fork copies the node's database (bolt hot copy) and opens a second node on it.
func (w *world) fork(n *node, name string, genesisSig cipher.Sig) (*node, error) {
	p := filepath.Join(w.dir, name+".db")
	os.Remove(p)
	if err := n.bdb.View(func(tx *bolt.Tx) error { return tx.CopyFile(p, 0600) }); err != nil {
		return nil, err
	}
	return w.openNode(p, genesisSig)
}

func (n *node) uxHash() (cipher.SHA256, error) {
	var h cipher.SHA256
	err := n.db.View("uxhash", func(tx *dbutil.Tx) error {
		var e error
		h, e = n.bc.UnspentPool().GetUxHash(tx)
		return e
	})
	return h, err
}

func (n *node) head() (coin.SignedBlock, error) {
	b, err := n.v.GetHeadBlock()
	if err != nil {
		return coin.SignedBlock{}, err
	}
	return *b, nil
}

// startAttempts starts non-publisher nodes on fresh empty databases with the
// history's genesis parameters and a GenesisSignature that is wrong in one of
// several ways (plus the right one as a control). Returns the Coq triples
// (signature verifies, Init succeeded, block 0 stored) and their descriptions.
func (w *world) startAttempts(gb *coin.Block, good cipher.Sig, n int) ([]string, []string) {
	var items, descs []string
	for i := 0; i < n; i++ {
		sig := good
		kind := "good"
		pick := w.r.Intn(7)
		if n >= 7 { // scripted history: every variant once
			pick = i % 7
		}
		switch pick {
		case 0:
			kind = "zero"
			sig = cipher.Sig{}
		case 1:
			kind = "other_key"
			sig = w.detSign(gb.HashHeader(), w.otherSec)
		case 2:
			kind = "publisher_over_other_header"
			other := *gb
			other.Head.Time++
			sig = w.detSign(other.HashHeader(), w.sec)
		case 3:
			kind = "bitflip"
			sig[w.r.Intn(64)] ^= 1 << uint(w.r.Intn(8))
		case 4:
			kind = "wallet_key"
			sig = w.detSign(gb.HashHeader(), w.keys[0])
		case 5:
			kind = "publisher_over_body_hash"
			sig = w.detSign(gb.Head.BodyHash, w.sec)
		}
		sigOK := cipher.VerifyPubKeySignedHash(w.pub, sig, gb.HashHeader()) == nil
		path := filepath.Join(w.dir, fmt.Sprintf("start%d.db", i))
		os.Remove(path)
		started, stored := false, false
		var nd *node
		var err error
		panicked := Guard(func() { nd, err = w.openNodeMode(path, sig, false, true) })
		if !panicked {
			started = err == nil
			if nd != nil {
				if b, e := nd.v.GetSignedBlockBySeq(0); e == nil && b != nil {
					stored = true
					// a started node's block 0 must verify
					if started && (b.VerifySignature(w.pub) != nil || !checkDB(nd, w.pub)) {
						started = false // reported as "stored although not started"
					}
				}
				nd.close()
			}
		}
		os.Remove(path)
		items = append(items, fmt.Sprintf("(%s, %s, %s)", B(sigOK), B(started), B(stored)))
		descs = append(descs, fmt.Sprintf("%s:sig_ok=%v,started=%v,stored=%v", kind, sigOK, started, stored))
	}
	return items, descs
}

// ---------------------------------------------------------------- errors -> enum

var errTable = []struct{ sub, name string }{
	{"Attempted to process genesis block after blockchain has genesis block", "EGenesis"},
	{"BkSeq invalid", "EBkSeq"},
	{"Block time must be > head time", "ETime"},
	{"PrevHash does not match current head", "EPrevHash"},
	{"Computed body hash does not match", "EBodyHash"},
	{"No transactions", "ENoTxns"},
	{"No inputs", "ENoInputs"},
	{"No outputs", "ENoOutputs"},
	{"Invalid number of signatures", "ESigCount"},
	{"Duplicate spend", "EDupSpend"},
	{"transaction type invalid", "EType"},
	{"Zero coin output", "EZeroCoin"},
	{"Transaction input coins overflow", "EInOverflow"},
	{"Transaction output coins overflow", "EOutOverflow2"},
	{"Output coins overflow", "EOutOverflow"},
	{"Incorrect transaction length", "ELength"},
	{"Duplicate output in transaction", "EDupOut"},
	{"InnerHash does not match computed hash", "EInner"},
	{"Unsigned input in transaction", "EUnsigned"},
	{"Signature not valid for output being spent", "ESigAddr"},
	{"Insufficient coins", "EInsufficientCoins"},
	{"Transactions may not destroy coins", "EDestroyCoins"},
	{"Transaction input hours overflow", "EInHoursOverflow"},
	{"Insufficient coin hours", "EInsufficientHours"},
	{"UxOut.CoinHours", "ECoinHours"},
	{"New unspent collides with existing unspent", "ECollide"},
	{"Duplicate unspent output across transactions", "EDupOutAcross"},
	{"Output hash is in the UnspentPool", "EOutInPool"},
	{"Unexpected duplicate transaction", "EDupTxn"},
	{"Cannot spend output twice in the same block", "EDoubleSpend"},
	{"UxHash does not match", "EUxHash"},
	{"save block failed", "EStore"},
	{"save signature failed", "EStore"},
	{"twice into the unspent pool", "EInsertTwice"},
	{"HistoryDB.ParseBlock", "EHistory"},
}

var sigErrs = map[error]bool{
	cipher.ErrInvalidSigPubKeyRecovery: true, cipher.ErrPubKeyRecoverMismatch: true,
	cipher.ErrInvalidSigInvalidPubKey: true, cipher.ErrInvalidSigValidity: true,
	cipher.ErrInvalidSigForMessage: true, cipher.ErrInvalidHashForSig: true,
}

// errClass maps the error of ExecuteSignedBlock to the model's enum (by error
// type / sentinel identity where the code has one, else by the fixed message).
func errClass(err error) string {
	if err == nil {
		return ""
	}
	inner := err
	hard := false
	if h, ok := err.(transaction.ErrTxnViolatesHardConstraint); ok {
		inner = h.Err
		hard = true
	}
	if _, ok := inner.(blockdb.ErrUnspentNotExist); ok {
		return "EUnspentMissing"
	}
	if sigErrs[inner] {
		if hard {
			return "ESigRecover" // a transaction signature that does not recover
		}
		return "ESig" // the block signature
	}
	msg := inner.Error()
	for _, e := range errTable {
		if strings.Contains(msg, e.sub) {
			return e.name
		}
	}
	return "EOther"
}

// ---------------------------------------------------------------- building transactions and blocks

type txOpt struct {
	wrongKey  bool // sign input 0 with a key that does not own it
	nullSig   bool // leave signature 0 null
	dropSig   bool // one signature fewer than inputs
	badInner  bool // corrupt the inner hash after signing
	badLength bool // header length field off by one
	badType   bool // type byte 1
	garbleSig bool // signature 0 replaced by bytes that do not recover
}

func (w *world) buildTxn(ins []coin.UxOut, outs []coin.TransactionOutput, o txOpt) coin.Transaction {
	var t coin.Transaction
	for _, ux := range ins {
		t.In = append(t.In, ux.Hash())
	}
	t.Out = append([]coin.TransactionOutput{}, outs...)
	t.InnerHash = t.HashInner()
	t.Sigs = make([]cipher.Sig, len(t.In))
	for i, ux := range ins {
		if o.nullSig && i == 0 {
			continue
		}
		key, ok := w.keyOf[ux.Body.Address]
		if !ok || (o.wrongKey && i == 0) {
			key = w.keys[(w.keyIndex(key)+1+w.r.Intn(nKeys-1))%nKeys]
		}
		t.Sigs[i] = w.detSign(cipher.AddSHA256(t.InnerHash, t.In[i]), key)
		if o.garbleSig && i == 0 {
			for k := range t.Sigs[i] {
				t.Sigs[i][k] = 0xff
			}
		}
	}
	if o.dropSig && len(t.Sigs) > 0 {
		t.Sigs = t.Sigs[:len(t.Sigs)-1]
	}
	if err := t.UpdateHeader(); err != nil {
		panic(err)
	}
	if o.badType {
		t.Type = 1 // after UpdateHeader, which resets the type byte
	}
	if o.badInner {
		t.InnerHash[3] ^= 0x40
	}
	if o.badLength {
		t.Length++
	}
	return t
}

func (w *world) keyIndex(k cipher.SecKey) int {
	for i, x := range w.keys {
		if x == k {
			return i
		}
	}
	return 0
}

// upTo returns a value in [0, max].
func upTo(r *Rng, max uint64) uint64 {
	if max == ^uint64(0) {
		return r.U64()
	}
	return r.U64() % (max + 1)
}

func hoursAt(ux coin.UxOut, t uint64) uint64 {
	h, err := ux.CoinHours(t)
	if err != nil {
		return 0
	}
	return h
}

// splitOuts makes 1..3 pairwise distinct outputs carrying exactly `coins` and at most `hours`.
func (w *world) splitOuts(coins, hours uint64) []coin.TransactionOutput {
	k := 1 + w.r.Intn(3)
	if uint64(k) > coins {
		k = int(coins)
	}
	if k < 1 {
		k = 1
	}
	outs := make([]coin.TransactionOutput, 0, k)
	restC := coins
	// spend between 0 and all of the hours; keep amounts small unless the inputs are huge
	restH := hours
	switch w.r.Intn(4) {
	case 0:
		restH = 0
	case 1:
		restH = hours / 2
	case 2:
		restH = upTo(w.r, hours) % 1000
	}
	for i := 0; i < k; i++ {
		c := restC
		h := restH
		if i < k-1 {
			left := uint64(k - 1 - i)
			max := restC - left // leave at least one droplet for each remaining output
			switch w.r.Intn(4) {
			case 0:
				c = 1
			case 1:
				c = max
			case 2:
				c = 1 + (w.r.U64()>>uint(w.r.Intn(64)))%max
			default:
				c = 1 + max/2
			}
			if c > max {
				c = max
			}
			if c < 1 {
				c = 1
			}
			h = upTo(w.r, restH)
		}
		outs = append(outs, coin.TransactionOutput{Address: w.addrs[w.r.Intn(nKeys)], Coins: c, Hours: h})
		restC -= c
		restH -= h
	}
	// unusual but valid destinations: the null address (nobody can spend it; the
	// null-address rule is only a user constraint, blocks may carry such outputs),
	// and the same address for every output
	if w.r.Chance(14) {
		j := 0
		for i := range outs { // the smallest amount, so that little becomes unspendable
			if outs[i].Coins < outs[j].Coins {
				j = i
			}
		}
		if len(outs) > 1 || outs[j].Coins <= 1000 {
			outs[j].Address = cipher.Address{}
		}
	} else if w.r.Chance(15) {
		for i := range outs {
			outs[i].Address = outs[0].Address
		}
	}
	// pairwise distinct (a transaction with two identical outputs is malformed)
	seen := map[coin.TransactionOutput]bool{}
	for i := range outs {
		for k := 0; seen[outs[i]] && k < nKeys; k++ {
			outs[i].Address = w.addrs[(w.addrIndex(outs[i].Address)+1)%nKeys]
		}
		seen[outs[i]] = true
	}
	return outs
}

func (w *world) addrIndex(a cipher.Address) int {
	for i, x := range w.addrs {
		if x == a {
			return i
		}
	}
	return 0
}

// validTxn spends 1..3 of the given unspent outputs (removing them from *avail).
func (w *world) validTxn(avail *[]coin.UxOut, headTime uint64) (coin.Transaction, []coin.UxOut, bool) {
	// outputs paid to the null address cannot be spent by anybody
	spendable := (*avail)[:0:0]
	for _, ux := range *avail {
		if _, ok := w.keyOf[ux.Body.Address]; ok {
			spendable = append(spendable, ux)
		}
	}
	*avail = spendable
	if len(*avail) == 0 {
		return coin.Transaction{}, nil, false
	}
	k := 1 + w.r.Intn(3)
	if k > len(*avail) {
		k = len(*avail)
	}
	var ins []coin.UxOut
	var coins, hours uint64
	for i := 0; i < k; i++ {
		j := w.r.Intn(len(*avail))
		ux := (*avail)[j]
		if coins+ux.Body.Coins < coins { // input sum would overflow: stop here
			break
		}
		h := hoursAt(ux, headTime)
		if hours+h < hours {
			break
		}
		coins += ux.Body.Coins
		hours += h
		ins = append(ins, ux)
		*avail = append((*avail)[:j], (*avail)[j+1:]...)
	}
	if len(ins) == 0 {
		return coin.Transaction{}, nil, false
	}
	return w.buildTxn(ins, w.splitOuts(coins, hours), txOpt{}), ins, true
}

func mkBlock(head coin.SignedBlock, t uint64, uxHash cipher.SHA256, txns coin.Transactions) coin.Block {
	body := coin.BlockBody{Transactions: txns}
	return coin.Block{
		Head: coin.BlockHeader{
			Version:  head.Head.Version,
			Time:     t,
			BkSeq:    head.Head.BkSeq + 1,
			Fee:      0,
			PrevHash: head.HashHeader(),
			BodyHash: body.Hash(),
			UxHash:   uxHash,
		},
		Body: body,
	}
}

func (w *world) sign(b coin.Block, sec cipher.SecKey) coin.SignedBlock {
	return coin.SignedBlock{Block: b, Sig: w.detSign(b.HashHeader(), sec)}
}

// ---------------------------------------------------------------- Coq printing with sharing

type printer struct {
	hist   int
	defs   strings.Builder
	names  map[string]string
	counts map[string]int
}

func newPrinter(hist int) *printer {
	return &printer{hist: hist, names: map[string]string{}, counts: map[string]int{}}
}

// def returns the name of a definition of `term : ty`, emitting it on first use.
func (p *printer) def(prefix, ty, term string) string {
	key := ty + "|" + term
	if n, ok := p.names[key]; ok {
		return n
	}
	p.counts[prefix]++
	n := fmt.Sprintf("h%d_%s%d", p.hist, prefix, p.counts[prefix])
	fmt.Fprintf(&p.defs, "Definition %s : %s := %s.\n", n, ty, term)
	p.names[key] = n
	return n
}

func zi(i int) string { return fmt.Sprintf("%d", i) }

func (w *world) txnTerm(t coin.Transaction, bh coin.BlockHeader, headSeq uint64) string {
	var ins, outs, sigs, ids0 []string
	for _, h := range t.In {
		ins = append(ins, zi(w.id(h)))
	}
	// o_id is the id processTransactions derives (source = the transaction hash);
	// the snapshot hash is that of the output as this block would create it
	created := mkUnspents(bh, t, bh.BkSeq == 0)
	for i, o := range t.Out {
		body := coin.UxBody{SrcTransaction: t.Hash(), Address: o.Address, Coins: o.Coins, Hours: o.Hours}
		outs = append(outs, fmt.Sprintf("mkOut %d %s %s %d %s", w.addrID(o.Address), Z(o.Coins), Z(o.Hours),
			w.id(body.Hash()), Z(low64(created[i].SnapshotHash()))))
	}
	if headSeq == 0 {
		// CreateUnspents(head, txn) with the genesis header uses the null source hash
		for _, ux := range mkUnspents(coin.BlockHeader{BkSeq: 0}, t, true) {
			ids0 = append(ids0, zi(w.id(ux.Hash())))
		}
	}
	for i, s := range t.Sigs {
		null := s.Null()
		rec := false
		signer := 0
		if !null && i < len(t.In) {
			msg := cipher.AddSHA256(t.InnerHash, t.In[i])
			if cipher.VerifySignatureRecoverPubKey(s, msg) == nil {
				rec = true
				if pk, err := cipher.PubKeyFromSig(s, msg); err == nil {
					signer = w.addrID(cipher.AddressFromPubKey(pk))
				}
			}
		}
		sigs = append(sigs, fmt.Sprintf("mkSig %s %s %d", B(null), B(rec), signer))
	}
	sz, _, err := t.SizeHash()
	lenOK := err == nil && sz == t.Length
	innerOK := t.HashInner() == t.InnerHash
	th := t.Hash()
	return fmt.Sprintf("mkTxn %d %s %s %s %d %s %s %s %d %s", w.id(th), List(ins), List(outs), List(sigs),
		t.Type, B(lenOK), B(innerOK), List(ids0), sz, Z(binary.BigEndian.Uint64(th[:8])))
}

func (w *world) blockName(p *printer, sb coin.SignedBlock, headSeq uint64) string {
	var tn []string
	for _, t := range sb.Body.Transactions {
		tn = append(tn, p.def("t", "txn", w.txnTerm(t, sb.Head, headSeq)))
	}
	h := sb.Head
	hd := fmt.Sprintf("(mkHeader %d %s %s %s %d %d %s)", h.Version, Z(h.Time), Z(h.BkSeq), Z(h.Fee),
		w.id(h.PrevHash), w.id(h.BodyHash), Z(low64(h.UxHash)))
	sigOK := cipher.VerifyPubKeySignedHash(w.pub, sb.Sig, sb.HashHeader()) == nil
	term := fmt.Sprintf("mkBlock %s %d %d %s %s", hd, w.id(sb.HashHeader()), w.id(sb.Body.Hash()), B(sigOK), List(tn))
	return p.def("b", "block", term)
}

// dump projects the node's state. The digest covers everything a rejected
// block must leave unchanged.
func (w *world) dump(p *printer, n *node, withCheck bool, poolOK bool) (string, []coin.UxOut, error) {
	head, err := n.head()
	if err != nil {
		return "", nil, err
	}
	uxs, err := n.v.GetAllUnspentOutputs()
	if err != nil {
		return "", nil, err
	}
	xh, err := n.uxHash()
	if err != nil {
		return "", nil, err
	}
	sort.Slice(uxs, func(i, j int) bool { return w.id(uxs[i].Hash()) < w.id(uxs[j].Hash()) })
	var items []string
	var dg strings.Builder
	var indep cipher.SHA256
	for _, ux := range uxs {
		items = append(items, fmt.Sprintf("(%d, %s, %s)", w.id(ux.Hash()), Z(ux.Body.Coins), Z(ux.Body.Hours)))
		fmt.Fprintf(&dg, "u %s %d %d %s %d %d %s\n", ux.Hash().Hex(), ux.Body.Coins, ux.Body.Hours, ux.Body.Address.String(),
			ux.Head.Time, ux.Head.BkSeq, ux.Body.SrcTransaction.Hex())
		indep = indep.Xor(ux.SnapshotHash())
	}
	fmt.Fprintf(&dg, "x %s\n", xh.Hex())
	// the stored chain: every block by seq, with its signature
	storedHash := cipher.SHA256{}
	storedSigOK := false
	for s := uint64(0); s <= head.Head.BkSeq; s++ {
		sb, err := n.v.GetSignedBlockBySeq(s)
		if err != nil || sb == nil {
			fmt.Fprintf(&dg, "b %d missing\n", s)
			continue
		}
		fmt.Fprintf(&dg, "b %d %s %s %s\n", s, sb.HashHeader().Hex(), sb.Sig.Hex(), sb.Body.Hash().Hex())
		if s == head.Head.BkSeq {
			storedHash = sb.HashHeader()
			e1 := sb.VerifySignature(w.pub)
			// independently through the low-level library
			pkRec, e2 := cipher.PubKeyFromSig(sb.Sig, sb.HashHeader())
			storedSigOK = e1 == nil && e2 == nil && pkRec == w.pub
		}
	}
	// the unconfirmed pool: a rejected block must leave it as it was (compared
	// around the op by the caller; the harness itself injects transactions between
	// ops on publisher nodes, so the pool size is not part of the digest)
	fmt.Fprintf(&dg, "p %v\n", poolOK)
	md, err := n.v.GetBlockchainMetadata()
	if err == nil {
		fmt.Fprintf(&dg, "m %d %d\n", md.HeadBlock.Head.BkSeq, md.Unspents)
	}
	dbOK := true
	if withCheck {
		dbOK = checkDB(n, w.pub)
	}
	fmt.Fprintf(&dg, "c %v %v\n", dbOK, indep == xh)
	d := sha256.Sum256([]byte(dg.String()))
	term := fmt.Sprintf("mkDump %s %d %s %s %d %s %s %s %d", Z(head.Head.BkSeq), w.id(head.HashHeader()), Z(head.Head.Time), Z(low64(xh)),
		w.id(storedHash), B(storedSigOK), B(dbOK), List(items), w.digestID(hex.EncodeToString(d[:])))
	return p.def("d", "dump", term), uxs, nil
}

// poolKey is the sorted list of the hashes in the node's unconfirmed pool.
func poolKey(n *node) string {
	ut, err := n.v.GetAllUnconfirmedTransactions()
	if err != nil {
		return "error: " + err.Error()
	}
	var hs []string
	for _, u := range ut {
		hs = append(hs, u.Transaction.Hash().Hex())
	}
	sort.Strings(hs)
	return strings.Join(hs, ",")
}

// checkDB runs visor.CheckDatabase under a watchdog (a hang is an observable).
func checkDB(n *node, pub cipher.PubKey) bool {
	done := make(chan error, 1)
	go func() {
		defer func() {
			if r := recover(); r != nil {
				done <- fmt.Errorf("panic: %v", r)
			}
		}()
		done <- visor.CheckDatabase(n.db, pub, nil)
	}()
	select {
	case err := <-done:
		return err == nil
	case <-time.After(20 * time.Second):
		return false
	}
}

// ---------------------------------------------------------------- histories

type opRec struct {
	kind     string
	resigned bool
	sb       coin.SignedBlock
}

var mutKinds = []string{
	"dsp_inblock", "dsp_inblock_multi", "dsp_inblock_multi", "dsp_inblock_multi", "dsp_inblock_multi", "dsp_spent", "dsp_sameblock_created", "dup_in_txn", "dup_txn",
	"coins_plus1", "coins_minus1", "out_overflow", "zero_coin", "hours_plus1",
	"wrong_signer", "null_sig", "drop_sig", "bad_inner", "bad_length", "bad_type", "garble_sig", "dup_out",
	"time_eq", "time_minus1", "time_plus1", "seq_plus1", "seq_minus1", "seq_zero", "fee_plus1", "version_plus1",
	"prevhash", "bodyhash", "uxhash", "empty_block", "drop_txn", "permute_txns",
	"sig_bitflip", "sig_otherkey", "sig_null", "sig_replay", "sig_replay", "sig_replay",
	"dup_block", "old_block", "out_of_order", "second_genesis", "unknown_input",
	"resigned_after_inject", "resigned_after_inject", "resigned_after_reject", "resigned_after_reject",
	"huge_hours_create", "huge_hours_create", "huge_hours_spend", "huge_hours_spend",
	"dup_txn_inflate", "dup_txn_inflate", "maxhours_create", "valid_null_addr",
	"malformed_txn", "malformed_txn", "dsp_fan", "dsp_fan", "hdr_special", "hdr_special", "hdr_special",
}

// header mutations are submitted either re-signed by the publisher key (so only
// the semantic check can refuse them) or with the now stale signature.
var headerMut = map[string]bool{"time_eq": true, "time_minus1": true, "time_plus1": true, "seq_plus1": true, "seq_minus1": true,
	"seq_zero": true, "fee_plus1": true, "version_plus1": true, "prevhash": true, "bodyhash": true, "uxhash": true}

type history struct {
	w        *world
	n        *node
	p        *printer
	gsig     cipher.Sig
	genesis  coin.SignedBlock
	accepted []coin.SignedBlock
	spent    []coin.UxOut // outputs spent by accepted blocks
	unspent  []coin.UxOut
	hist     Hist
	nodeSig  *cipher.Sig // the signature the node itself produced most recently (publisher node)
	pending  *opRec      // second half of a two-op pattern (near-identical items back to back)
	pendKind string      // ... or the mutation kind to build right after the current op
	variant  int         // >= 0: scripted sub-variant of the mutation kind (-1: random)
	scripted bool        // scripted history: no random skipping, header mutants are re-signed
}

// nextValid builds a valid next block on the node's current head with k transactions.
func (h *history) nextValid(n *node, unspent []coin.UxOut, k int) (coin.Block, bool) {
	head, err := n.head()
	if err != nil {
		return coin.Block{}, false
	}
	avail := append([]coin.UxOut{}, unspent...)
	var txns coin.Transactions
	for i := 0; i < k; i++ {
		t, _, ok := h.w.validTxn(&avail, head.Head.Time)
		if !ok {
			break
		}
		txns = append(txns, t)
	}
	if len(txns) == 0 {
		return coin.Block{}, false
	}
	xh, err := n.uxHash()
	if err != nil {
		return coin.Block{}, false
	}
	dt := uint64(1 + h.w.r.Intn(100000))
	if h.w.r.Chance(10) {
		dt = 1
	}
	if h.w.r.Chance(5) && !h.scripted { // huge gaps make coin-hour computations overflow: random histories only
		dt = uint64(h.w.r.Intn(1<<30)) * 3600
	}
	t := head.Head.Time + dt
	if t < head.Head.Time {
		t = head.Head.Time + 1
	}
	return mkBlock(head, t, xh, txns), true
}

// nodeSigned lets the PUBLISHER node create and sign the next block itself
// (unconfirmed pool -> createBlock -> signBlock, the path behind
// CreateAndExecuteBlock, at an explicit time): a transaction meeting the soft
// constraints is injected into its pool first. The signed block is then
// submitted like any other op.
func (h *history) nodeSigned() (opRec, bool) {
	w := h.w
	head, err := h.n.head()
	if err != nil {
		return opRec{}, false
	}
	var cand []coin.UxOut
	for _, ux := range h.unspent {
		if _, ok := w.keyOf[ux.Body.Address]; ok && hoursAt(ux, head.Head.Time) > 0 {
			cand = append(cand, ux)
		}
	}
	if len(cand) == 0 {
		return opRec{}, false
	}
	ux := cand[w.r.Intn(len(cand))]
	hr := hoursAt(ux, head.Head.Time)
	outs := w.splitOuts(ux.Body.Coins, hr/2)
	var so uint64
	for _, o := range outs {
		so += o.Hours
	}
	if so > hr/2 { // splitOuts never exceeds its budget; keep the fee >= 1/2 of the hours anyway
		return opRec{}, false
	}
	t := w.buildTxn([]coin.UxOut{ux}, outs, txOpt{})
	if _, softErr, err := h.n.v.InjectForeignTransaction(t); err != nil || softErr != nil {
		return opRec{}, false
	}
	sb, err := h.n.v.VerifCreateBlock(head.Head.Time + uint64(1+w.r.Intn(100000)))
	if err != nil {
		return opRec{}, false
	}
	sig := sb.Sig
	h.nodeSig = &sig
	return opRec{kind: "node_signed", resigned: true, sb: sb}, true
}

// mkUnspents computes the outputs a block with header bh creates for t WITHOUT
// going through coin.CreateUnspents: the harness must not share (or refresh) any
// state the node's own code keeps between calls. src is the transaction hash,
// or the null hash for the genesis block.
func mkUnspents(bh coin.BlockHeader, t coin.Transaction, nullSrc bool) coin.UxArray {
	var src cipher.SHA256
	if !nullSrc {
		src = t.Hash()
	}
	uxo := make(coin.UxArray, len(t.Out))
	for i, o := range t.Out {
		uxo[i] = coin.UxOut{
			Head: coin.UxHead{Time: bh.Time, BkSeq: bh.BkSeq},
			Body: coin.UxBody{SrcTransaction: src, Address: o.Address, Coins: o.Coins, Hours: o.Hours},
		}
	}
	return uxo
}

func rehash(b *coin.Block) { b.Head.BodyHash = b.Body.Hash() }

// mutate builds the op for one mutation kind from a valid next block.
func (h *history) mutate(kind string) (opRec, bool) {
	w := h.w
	r := w.r
	head, err := h.n.head()
	if err != nil {
		return opRec{}, false
	}
	base, ok := h.nextValid(h.n, h.unspent, 1+r.Intn(3))
	if !ok {
		return opRec{}, false
	}
	b := base
	b.Body.Transactions = append(coin.Transactions{}, base.Body.Transactions...)
	resign := true
	signer := w.sec
	insOf := func(t coin.Transaction) []coin.UxOut {
		var ins []coin.UxOut
		for _, id := range t.In {
			for _, ux := range h.unspent {
				if ux.Hash() == id {
					ins = append(ins, ux)
				}
			}
		}
		return ins
	}
	t0 := b.Body.Transactions[0]
	in0 := insOf(t0)
	sumIn := func(ins []coin.UxOut) (c, hr uint64) {
		for _, ux := range ins {
			c += ux.Body.Coins
			hr += hoursAt(ux, head.Head.Time)
		}
		return
	}
	switch kind {
	case "dsp_inblock":
		// a further transaction spending an input of the first one (plus maybe a fresh one)
		ins := []coin.UxOut{in0[r.Intn(len(in0))]}
		c, hr := sumIn(ins)
		t := w.buildTxn(ins, w.splitOuts(c, hr/2), txOpt{})
		b.Body.Transactions = append(b.Body.Transactions, t)
		if r.Bool() && len(b.Body.Transactions) > 2 { // not adjacent
			n := len(b.Body.Transactions)
			b.Body.Transactions[1], b.Body.Transactions[n-1] = b.Body.Transactions[n-1], b.Body.Transactions[1]
		}
		rehash(&b)
	case "dsp_inblock_multi":
		// two (or three) transactions, each valid on its own, sharing the input X, with
		// MULTI-input transactions so that X sits at different positions of the input
		// lists; both orders; the whole body is replaced
		var sp []coin.UxOut
		for _, ux := range h.unspent {
			if _, ok := w.keyOf[ux.Body.Address]; ok {
				sp = append(sp, ux)
			}
		}
		if len(sp) < 2 {
			return opRec{}, false
		}
		r2 := r.Intn(len(sp))
		sp[0], sp[r2] = sp[r2], sp[0]
		r3 := 1 + r.Intn(len(sp)-1)
		sp[1], sp[r3] = sp[r3], sp[1]
		X, Y := sp[0], sp[1]
		mk := func(ins ...coin.UxOut) (coin.Transaction, bool) {
			var c, hr uint64
			for _, ux := range ins {
				if c+ux.Body.Coins < c {
					return coin.Transaction{}, false
				}
				c += ux.Body.Coins
				hh := hoursAt(ux, head.Head.Time)
				if hr+hh < hr {
					hh = 0
					hr = 0
				}
				hr += hh
			}
			return w.buildTxn(ins, w.splitOuts(c, hr/2), txOpt{}), true
		}
		var S, T coin.Transaction
		var okS, okT bool
		variant := r.Intn(4)
		if h.variant >= 0 {
			variant = (h.variant / 2) % 4
		}
		if len(sp) < 3 && variant >= 2 {
			variant = variant % 2
		}
		switch variant {
		case 0: // S.In = [Y, X], T.In = [X]
			S, okS = mk(Y, X)
			T, okT = mk(X)
		case 1: // S.In = [X, Y], T.In = [X]
			S, okS = mk(X, Y)
			T, okT = mk(X)
		case 2: // S.In = [X, Y], T.In = [Z, X]
			S, okS = mk(X, Y)
			T, okT = mk(sp[2], X)
		default: // S.In = [Y, X], T.In = [Z, X]  and  [X, Z] half of the time
			S, okS = mk(Y, X)
			if r.Bool() {
				T, okT = mk(sp[2], X)
			} else {
				T, okT = mk(X, sp[2])
			}
		}
		if !okS || !okT {
			return opRec{}, false
		}
		txs := coin.Transactions{S, T}
		if (h.variant < 0 && r.Bool()) || (h.variant >= 0 && h.variant%2 == 1) {
			txs = coin.Transactions{T, S}
		}
		// sometimes a third, independent transaction before / between / after
		used := map[cipher.SHA256]bool{}
		for _, t := range txs {
			for _, in := range t.In {
				used[in] = true
			}
		}
		if r.Chance(40) {
			for _, ux := range sp {
				if !used[ux.Hash()] {
					if U, ok := mk(ux); ok {
						pos := r.Intn(3)
						txs = append(txs[:pos:pos], append(coin.Transactions{U}, txs[pos:]...)...)
					}
					break
				}
			}
		}
		b.Body.Transactions = txs
		rehash(&b)
	case "valid_split", "valid_null_addr", "maxhours_create", "maxhours_spend", "dup_txn_inflate":
		// scripted families built from the spendable outputs (see scriptFor)
		var sp []coin.UxOut
		for _, ux := range h.unspent {
			if _, ok := w.keyOf[ux.Body.Address]; ok {
				sp = append(sp, ux)
			}
		}
		sort.Slice(sp, func(i, j int) bool { return sp[i].Body.Coins > sp[j].Body.Coins })
		if len(sp) == 0 {
			return opRec{}, false
		}
		switch kind {
		case "valid_split":
			// the richest output into four, each with hours: later families need several
			// spendable outputs carrying hours
			ux := sp[0]
			c, hr := ux.Body.Coins, hoursAt(ux, head.Head.Time)
			if c < 8 {
				return opRec{}, false
			}
			q, hq := c/4, hr/8
			outs := []coin.TransactionOutput{
				{Address: w.addrs[0], Coins: q, Hours: hq}, {Address: w.addrs[1], Coins: q + 1, Hours: hq},
				{Address: w.addrs[2], Coins: q + 2, Hours: hq}, {Address: w.addrs[3], Coins: c - 3*q - 3, Hours: hq},
			}
			b.Body.Transactions = coin.Transactions{w.buildTxn([]coin.UxOut{ux}, outs, txOpt{})}
		case "valid_null_addr":
			ux := sp[len(sp)-1]
			if ux.Body.Coins < 2 {
				ux = sp[0]
			}
			if ux.Body.Coins < 2 {
				return opRec{}, false
			}
			outs := []coin.TransactionOutput{
				{Address: cipher.Address{}, Coins: 1, Hours: 0},
				{Address: w.addrs[1], Coins: ux.Body.Coins - 1, Hours: hoursAt(ux, head.Head.Time) / 2},
			}
			b.Body.Transactions = coin.Transactions{w.buildTxn([]coin.UxOut{ux}, outs, txOpt{})}
		case "maxhours_create":
			// an output with 2^64-1 hours (and one with 1 hour: the unchecked sum is 0): its
			// accrued hours overflow at any later head time, which block verification
			// tolerates (the input then counts for 0 hours)
			ux := sp[len(sp)-1]
			if ux.Body.Coins < 2000000 {
				ux = sp[0]
			}
			if ux.Body.Coins < 2000000 {
				return opRec{}, false
			}
			outs := []coin.TransactionOutput{
				{Address: w.addrs[2], Coins: ux.Body.Coins - 1000000, Hours: 1},
				{Address: w.addrs[3], Coins: 1000000, Hours: ^uint64(0)},
			}
			b.Body.Transactions = coin.Transactions{w.buildTxn([]coin.UxOut{ux}, outs, txOpt{})}
			b.Head.Time = head.Head.Time + 1
			if !w.arb || h.scripted {
				h.pendKind = "maxhours_spend"
			}
		case "maxhours_spend":
			var mx *coin.UxOut
			for i := range sp {
				if sp[i].Body.Hours == ^uint64(0) {
					mx = &sp[i]
				}
			}
			if mx == nil {
				return opRec{}, false
			}
			outs := []coin.TransactionOutput{{Address: w.addrs[0], Coins: mx.Body.Coins, Hours: 0}}
			b.Body.Transactions = coin.Transactions{w.buildTxn([]coin.UxOut{*mx}, outs, txOpt{})}
			b.Head.Time = head.Head.Time + 7200 // a whole coin earns hours after an hour: the addition overflows
		case "dup_txn_inflate":
			// {T, X, T}: T a valid two-output spend burning all its hours (highest fee), given
			// twice; X creates coins and keeps all its hours (fee 0: it sorts after T on an
			// arbitrating node). Variants: order, and what is wrong with X.
			var withHours []coin.UxOut
			for _, ux := range sp {
				if hoursAt(ux, head.Head.Time) > 0 && ux.Body.Coins >= 2 {
					withHours = append(withHours, ux)
				}
			}
			if len(sp) < 2 || sp[0].Body.Coins < 2 {
				return opRec{}, false
			}
			tin := sp[0] // without hours anywhere both fees are 0: X is then re-signed until its hash sorts after T's
			if len(withHours) > 0 {
				tin = withHours[0]
			}
			var xin *coin.UxOut
			for i := range sp {
				if sp[i].Hash() != tin.Hash() && sp[i].Body.Coins < ^uint64(0)-1000 {
					xin = &sp[i]
					break
				}
			}
			if xin == nil {
				return opRec{}, false
			}
			T := w.buildTxn([]coin.UxOut{tin}, []coin.TransactionOutput{
				{Address: w.addrs[0], Coins: tin.Body.Coins / 2, Hours: 0},
				{Address: w.addrs[1], Coins: tin.Body.Coins - tin.Body.Coins/2, Hours: 0}}, txOpt{})
			v := h.variant
			if v < 0 {
				v = r.Intn(6)
			}
			xc := xin.Body.Coins + 1000
			xo := txOpt{}
			if v >= 3 {
				xc = xin.Body.Coins // balanced, but signed by the wrong key
				xo = txOpt{wrongKey: true}
			}
			X := w.buildTxn([]coin.UxOut{*xin}, []coin.TransactionOutput{
				{Address: w.addrs[2], Coins: xc, Hours: hoursAt(*xin, head.Head.Time)}}, xo)
			for try := 0; try < 40 && len(withHours) == 0; try++ {
				xh, th := X.Hash(), T.Hash()
				if strings.Compare(string(xh[:]), string(th[:])) > 0 {
					break
				}
				X = w.buildTxn([]coin.UxOut{*xin}, []coin.TransactionOutput{
					{Address: w.addrs[2], Coins: xc, Hours: hoursAt(*xin, head.Head.Time)}}, xo)
			}
			switch v % 3 {
			case 0:
				b.Body.Transactions = coin.Transactions{T, X, T}
			case 1:
				b.Body.Transactions = coin.Transactions{T, T, X}
			default:
				b.Body.Transactions = coin.Transactions{X, T, T}
			}
		}
		rehash(&b)
	case "malformed_txn":
		// a structurally malformed transaction inside an otherwise valid block, at any
		// height including the first block after genesis: 0 no inputs and no signatures
		// (it would mint its outputs), 1 no inputs but a signature, 2 inputs without
		// signatures, 3 no outputs, 4 the genesis transaction itself replayed
		v := h.variant
		if v < 0 {
			v = r.Intn(5)
		}
		var m coin.Transaction
		switch v % 5 {
		case 0, 1:
			m.Out = []coin.TransactionOutput{{Address: w.addrs[r.Intn(nKeys)], Coins: uint64(1+r.Intn(1000)) * 1000000, Hours: 0}}
			m.InnerHash = m.HashInner()
			if v%5 == 1 {
				m.Sigs = []cipher.Sig{w.detSign(m.InnerHash, w.keys[0])}
			}
			if err := m.UpdateHeader(); err != nil {
				return opRec{}, false
			}
		case 2:
			m = w.buildTxn(in0, t0.Out, txOpt{})
			m.Sigs = nil
			if err := m.UpdateHeader(); err != nil {
				return opRec{}, false
			}
		case 3:
			m = w.buildTxn(in0, nil, txOpt{})
		default:
			m = h.genesis.Body.Transactions[0]
		}
		switch {
		case v%5 == 2 || v%5 == 3: // replaces the transaction whose inputs it uses
			b.Body.Transactions[0] = m
		case h.variant >= 5 || (h.variant < 0 && r.Bool()): // alone in the block
			b.Body.Transactions = coin.Transactions{m}
		default: // next to valid transactions, first or last
			if r.Bool() {
				b.Body.Transactions = append(b.Body.Transactions, m)
			} else {
				b.Body.Transactions = append(coin.Transactions{m}, b.Body.Transactions...)
			}
		}
		rehash(&b)
	case "dsp_fan":
		// star and chain conflicts: ONE multi-input transaction T0 (the best paying: it
		// burns all its hours) conflicts with SEVERAL other transactions on DIFFERENT
		// outputs. 0/1: T0{X,Y} T1{X} T2{Y} (two orders); 2: T0{X,Y,Z} T1{X} T2{Y} T3{Z};
		// 3: chain T0{X,Y} T1{Y,Z} T2{Z,W}; 4: T0{X,Y} T1{Y} T2{X} with T0 last
		var sp []coin.UxOut
		for _, ux := range h.unspent {
			if _, ok := w.keyOf[ux.Body.Address]; ok {
				sp = append(sp, ux)
			}
		}
		// outputs with hours first, so that T0 gets the highest fee
		sort.SliceStable(sp, func(i, j int) bool { return hoursAt(sp[i], head.Head.Time) > hoursAt(sp[j], head.Head.Time) })
		v := h.variant
		if v < 0 {
			v = r.Intn(5)
		}
		need := 2
		if v%5 == 2 {
			need = 3
		} else if v%5 == 3 {
			need = 4
		}
		if len(sp) < need {
			if len(sp) < 2 {
				return opRec{}, false
			}
			v, need = 0, 2
		}
		mkf := func(burn bool, ins ...coin.UxOut) (coin.Transaction, bool) {
			var c, hr uint64
			for _, ux := range ins {
				if c+ux.Body.Coins < c {
					return coin.Transaction{}, false
				}
				c += ux.Body.Coins
				hh := hoursAt(ux, head.Head.Time)
				if hr+hh < hr {
					return coin.Transaction{}, false
				}
				hr += hh
			}
			if burn {
				hr = 0
			}
			return w.buildTxn(ins, []coin.TransactionOutput{{Address: w.addrs[r.Intn(nKeys)], Coins: c, Hours: hr}}, txOpt{}), true
		}
		var txs coin.Transactions
		okAll := true
		addT := func(burn bool, ins ...coin.UxOut) {
			t, ok := mkf(burn, ins...)
			okAll = okAll && ok
			txs = append(txs, t)
		}
		switch v % 5 {
		case 0:
			addT(true, sp[0], sp[1])
			addT(false, sp[0])
			addT(false, sp[1])
		case 1:
			addT(false, sp[0])
			addT(true, sp[0], sp[1])
			addT(false, sp[1])
		case 2:
			addT(true, sp[0], sp[1], sp[2])
			addT(false, sp[0])
			addT(false, sp[1])
			addT(false, sp[2])
		case 3:
			addT(true, sp[0], sp[1])
			addT(false, sp[1], sp[2])
			addT(false, sp[2], sp[3])
		default:
			addT(false, sp[1])
			addT(false, sp[0])
			addT(true, sp[0], sp[1])
		}
		if !okAll {
			return opRec{}, false
		}
		b.Body.Transactions = txs
		rehash(&b)
	case "hdr_special":
		// distinguished values in every header field of an otherwise valid next block,
		// re-signed by the publisher key: field = variant / 5 (UxHash, PrevHash, BodyHash,
		// Time, BkSeq, Fee, Version), value = variant % 5 (all-zero, all-ones, the head's
		// value, the genesis block's value, the value from two blocks back)
		v := h.variant
		if v < 0 {
			v = r.Intn(35)
		}
		field, val := (v/5)%7, v%5
		if field == 3 && val == 1 && h.variant < 0 {
			val = 0 // Time = 2^64-1 is a VALID block after which no block can follow: scripted last only
		}
		src := head.Head // the head's header
		switch val {
		case 3:
			src = h.genesis.Head
		case 4:
			if len(h.accepted) >= 2 {
				src = h.accepted[len(h.accepted)-2].Head
			} else {
				src = h.genesis.Head
			}
		}
		var ones cipher.SHA256
		for i := range ones {
			ones[i] = 0xff
		}
		pickHash := func(cur *cipher.SHA256, from cipher.SHA256) {
			switch val {
			case 0:
				*cur = cipher.SHA256{}
			case 1:
				*cur = ones
			default:
				*cur = from
			}
		}
		pick64 := func(cur *uint64, from uint64) {
			switch val {
			case 0:
				*cur = 0
			case 1:
				*cur = ^uint64(0)
			default:
				*cur = from
			}
		}
		switch field {
		case 0:
			pickHash(&b.Head.UxHash, src.UxHash)
		case 1:
			pickHash(&b.Head.PrevHash, src.PrevHash)
		case 2:
			pickHash(&b.Head.BodyHash, src.BodyHash)
		case 3:
			pick64(&b.Head.Time, src.Time)
		case 4:
			pick64(&b.Head.BkSeq, src.BkSeq)
		case 5:
			pick64(&b.Head.Fee, src.Fee)
		default:
			switch val {
			case 0:
				b.Head.Version = 0
			case 1:
				b.Head.Version = ^uint32(0)
			default:
				b.Head.Version = src.Version + uint32(val) - 2
			}
		}
	case "resigned_after_inject", "resigned_after_reject":
		// Two variants of ONE transaction body (same inputs and outputs, hence the same
		// inner hash) signed twice: different signatures, different transaction hashes,
		// different output ids. Variant A reaches the node first (injected into its pool,
		// or inside a block that is refused late, after the transactions were processed);
		// the accepted block then carries variant B. State the node keeps between
		// operations (caches, memos) must not leak A's identity into what B creates.
		if head.Head.BkSeq == 0 {
			return opRec{}, false
		}
		tA := b.Body.Transactions[0]
		tB := w.buildTxn(in0, tA.Out, txOpt{})
		if tB.Hash() == tA.Hash() || tB.InnerHash != tA.InnerHash {
			return opRec{}, false
		}
		bB := b
		bB.Body.Transactions = append(coin.Transactions{tB}, b.Body.Transactions[1:]...)
		rehash(&bB)
		second := opRec{kind: kind, resigned: true, sb: w.sign(bB, w.sec)}
		if kind == "resigned_after_inject" {
			if _, _, err := h.n.v.InjectForeignTransaction(tA); err != nil {
				return opRec{}, false
			}
			return second, true
		}
		// refused after processTransactions: wrong checksum, validly signed
		bA := b
		bA.Head.UxHash[24+r.Intn(8)] ^= 1 << uint(r.Intn(8))
		h.pending = &second
		return opRec{kind: "resigned_first_rejected", resigned: true, sb: w.sign(bA, w.sec)}, true
	case "huge_hours_create":
		// block transactions may carry output hours whose sum wraps 2^64 (legacy
		// consensus rule): two outputs of 2^63 hours each out of any input
		// (an arbitrating node drops such a transaction when it sorts by fee: the
		// checked output-hours sum of the fee calculator fails)
		c, _ := sumIn(in0)
		if c < 2 || (w.arb && !h.scripted && r.Chance(70)) {
			return opRec{}, false
		}
		c1 := 1 + upTo(r, c-2)
		x := uint64(r.Intn(1000))
		outs := []coin.TransactionOutput{ // the hours add up to exactly 2^64: the unchecked sum is 0
			{Address: w.addrs[r.Intn(nKeys)], Coins: c1, Hours: uint64(1)<<63 + x},
			{Address: w.addrs[r.Intn(nKeys)], Coins: c - c1, Hours: uint64(1)<<63 - x},
		}
		b.Body.Transactions[0] = w.buildTxn(in0, outs, txOpt{})
		rehash(&b)
		if !w.arb || r.Chance(50) {
			h.pendKind = "huge_hours_spend" // spend the two together right away
		}
	case "huge_hours_spend":
		// two outputs whose hours add up to more than a uint64 holds, spent together
		// by a transaction that creates (or destroys) a coin
		var big []coin.UxOut
		for _, ux := range h.unspent {
			if _, ok := w.keyOf[ux.Body.Address]; ok && ux.Body.Hours >= uint64(1)<<63-1000 {
				big = append(big, ux)
			}
		}
		if len(big) < 2 {
			if h.pendKind != "" { // no recursion when the create was not accepted
				return opRec{}, false
			}
			return h.mutate("huge_hours_create")
		}
		ins := []coin.UxOut{big[0], big[1]}
		c := big[0].Body.Coins + big[1].Body.Coins
		if c < big[0].Body.Coins || c < 2 || c == ^uint64(0) {
			return opRec{}, false
		}
		if r.Bool() {
			c++
		} else {
			c--
		}
		t := w.buildTxn(ins, []coin.TransactionOutput{{Address: w.addrs[r.Intn(nKeys)], Coins: c, Hours: 0}}, txOpt{})
		b.Body.Transactions = coin.Transactions{t}
		rehash(&b)
	case "dsp_spent":
		if len(h.spent) == 0 {
			return opRec{}, false
		}
		old := h.spent[r.Intn(len(h.spent))]
		ins := []coin.UxOut{old}
		if r.Bool() {
			ins = append(ins, in0...)
			b.Body.Transactions = b.Body.Transactions[1:]
		}
		c, hr := sumIn(ins)
		t := w.buildTxn(ins, w.splitOuts(c, hr/2), txOpt{})
		b.Body.Transactions = append(b.Body.Transactions, t)
		rehash(&b)
	case "dsp_sameblock_created":
		created := mkUnspents(b.Head, t0, false)
		ux := created[r.Intn(len(created))]
		t := w.buildTxn([]coin.UxOut{ux}, w.splitOuts(ux.Body.Coins, ux.Body.Hours), txOpt{})
		b.Body.Transactions = append(b.Body.Transactions, t)
		rehash(&b)
	case "unknown_input":
		ux := in0[0]
		ux.Body.Coins++ // an output that never existed
		t := w.buildTxn([]coin.UxOut{ux}, w.splitOuts(ux.Body.Coins, 0), txOpt{})
		b.Body.Transactions[0] = t
		rehash(&b)
	case "dup_in_txn":
		ins := append(append([]coin.UxOut{}, in0...), in0[0])
		c, hr := sumIn(in0)
		if r.Bool() && c+in0[0].Body.Coins > c { // amounts as if the input counted twice
			c += in0[0].Body.Coins
		}
		b.Body.Transactions[0] = w.buildTxn(ins, w.splitOuts(c, hr/2), txOpt{})
		rehash(&b)
	case "dup_txn":
		b.Body.Transactions = append(b.Body.Transactions, t0)
		rehash(&b)
	case "coins_plus1", "coins_minus1", "zero_coin", "hours_plus1", "out_overflow", "dup_out":
		outs := append([]coin.TransactionOutput{}, t0.Out...)
		j := r.Intn(len(outs))
		switch kind {
		case "coins_plus1":
			outs[j].Coins++ // may wrap to 0 at 2^64-1: then it is a zero-coin output
		case "coins_minus1":
			outs[j].Coins--
		case "zero_coin":
			outs = append(outs, coin.TransactionOutput{Address: w.addrs[r.Intn(nKeys)], Coins: 0, Hours: 0})
		case "hours_plus1":
			_, hr := sumIn(in0)
			var so uint64
			for _, o := range outs {
				so += o.Hours
			}
			outs[j].Hours += hr - so + 1
		case "out_overflow":
			// two outputs whose sum wraps 2^64 back to exactly the input coins
			c, _ := sumIn(in0)
			x := uint64(1)<<63 + r.U64()>>2
			outs = []coin.TransactionOutput{
				{Address: w.addrs[0], Coins: x, Hours: 0},
				{Address: w.addrs[1], Coins: c - x, Hours: 0}, // wraps
			}
		case "dup_out":
			outs[j].Coins = outs[j].Coins/2 + outs[j].Coins%2
			if outs[j].Coins*2 != t0.Out[j].Coins || outs[j].Coins == 0 {
				outs[j] = t0.Out[j]
				outs = append(outs, outs[j]) // identical pair, sum off
			} else {
				outs[j].Hours /= 2
				outs = append(outs, outs[j]) // identical pair, sum preserved
			}
		}
		b.Body.Transactions[0] = w.buildTxn(in0, outs, txOpt{})
		rehash(&b)
	case "wrong_signer", "null_sig", "drop_sig", "bad_inner", "bad_length", "bad_type", "garble_sig":
		o := txOpt{wrongKey: kind == "wrong_signer", nullSig: kind == "null_sig", dropSig: kind == "drop_sig",
			badInner: kind == "bad_inner", badLength: kind == "bad_length", badType: kind == "bad_type", garbleSig: kind == "garble_sig"}
		j := r.Intn(len(b.Body.Transactions))
		tj := b.Body.Transactions[j]
		b.Body.Transactions[j] = w.buildTxn(insOf(tj), tj.Out, o)
		rehash(&b)
	case "time_eq":
		b.Head.Time = head.Head.Time
	case "time_minus1":
		b.Head.Time = head.Head.Time - 1
	case "time_plus1":
		b.Head.Time++
	case "seq_plus1":
		b.Head.BkSeq++
	case "seq_minus1":
		b.Head.BkSeq--
	case "seq_zero":
		b.Head.BkSeq = 0
	case "fee_plus1":
		b.Head.Fee++
	case "version_plus1":
		b.Head.Version++
	case "prevhash":
		switch r.Intn(3) {
		case 0:
			b.Head.PrevHash[31] ^= 1
		case 1:
			b.Head.PrevHash = cipher.SumSHA256(r.Bytes(8))
		default:
			if len(h.accepted) > 0 { // an older block of the chain as parent
				b.Head.PrevHash = h.accepted[r.Intn(len(h.accepted))].Head.PrevHash
			} else {
				b.Head.PrevHash = cipher.SHA256{}
			}
		}
	case "bodyhash":
		b.Head.BodyHash[r.Intn(32)] ^= 1 << uint(r.Intn(8))
	case "uxhash":
		b.Head.UxHash[24+r.Intn(8)] ^= 1 << uint(r.Intn(8))
	case "empty_block":
		b.Body.Transactions = nil
		rehash(&b)
	case "drop_txn":
		// the body loses a transaction but the header keeps the old body hash
		if len(b.Body.Transactions) < 2 {
			return opRec{}, false
		}
		b.Body.Transactions = b.Body.Transactions[1:]
		if r.Bool() {
			rehash(&b) // ...or the header follows: a different valid block
		}
	case "permute_txns":
		if len(b.Body.Transactions) < 2 {
			return opRec{}, false
		}
		n := len(b.Body.Transactions)
		b.Body.Transactions[0], b.Body.Transactions[n-1] = b.Body.Transactions[n-1], b.Body.Transactions[0]
		if r.Bool() {
			rehash(&b)
		}
	case "sig_bitflip", "sig_otherkey", "sig_null", "sig_replay":
		resign = false
	case "dup_block", "old_block":
		if len(h.accepted) == 0 {
			return opRec{}, false
		}
		sb := h.accepted[len(h.accepted)-1]
		if kind == "old_block" {
			sb = h.accepted[r.Intn(len(h.accepted))]
		}
		return opRec{kind: kind, resigned: false, sb: sb}, true
	case "second_genesis":
		return opRec{kind: kind, resigned: false, sb: h.genesis}, true
	case "out_of_order":
		// the block after next: built on a copy of the node that has executed the next block
		f, err := w.fork(h.n, "fork", h.gsig)
		if err != nil {
			return opRec{}, false
		}
		defer f.close()
		if f.v.ExecuteSignedBlock(w.sign(base, w.sec)) != nil {
			return opRec{}, false
		}
		ux2, err := f.v.GetAllUnspentOutputs()
		if err != nil {
			return opRec{}, false
		}
		b2, ok := h.nextValid(f, ux2, 1+r.Intn(2))
		if !ok {
			return opRec{}, false
		}
		return opRec{kind: kind, resigned: true, sb: w.sign(b2, w.sec)}, true
	default:
		return opRec{}, false
	}
	if headerMut[kind] {
		resign = h.scripted || r.Chance(70)
	}
	if kind == "hdr_special" {
		resign = true
	}
	var sb coin.SignedBlock
	if resign {
		sb = w.sign(b, signer)
	} else {
		// signature of the unmutated block (stale), or a damaged / foreign one
		sb = coin.SignedBlock{Block: b, Sig: w.detSign(base.HashHeader(), w.sec)}
		switch kind {
		case "sig_bitflip":
			sb.Sig[r.Intn(64)] ^= 1 << uint(r.Intn(8))
		case "sig_otherkey":
			sb.Sig = w.detSign(b.HashHeader(), w.otherSec)
		case "sig_null":
			sb.Sig = cipher.Sig{}
		case "sig_replay":
			// a signature taken from elsewhere on this chain (all of them are public):
			// the head's, an earlier block's, the genesis block's, or the one the node
			// itself produced last (publisher node)
			var srcs []cipher.Sig
			if hb, err := h.n.head(); err == nil {
				srcs = append(srcs, hb.Sig, hb.Sig)
			}
			for _, a := range h.accepted {
				srcs = append(srcs, a.Sig)
			}
			if g, err := h.n.v.GetSignedBlockBySeq(0); err == nil && g != nil {
				srcs = append(srcs, g.Sig)
			}
			if h.nodeSig != nil {
				srcs = append(srcs, *h.nodeSig, *h.nodeSig, *h.nodeSig)
			}
			if len(srcs) == 0 {
				return opRec{}, false
			}
			sb.Sig = srcs[r.Intn(len(srcs))]
			switch h.variant { // scripted: 0 head, 1 the node's own last signature, 2 genesis, 3 first accepted block
			case 0:
				sb.Sig = srcs[0]
			case 1:
				if h.nodeSig != nil {
					sb.Sig = *h.nodeSig
				}
			case 2:
				if g, err := h.n.v.GetSignedBlockBySeq(0); err == nil && g != nil {
					sb.Sig = g.Sig
				}
			case 3:
				if len(h.accepted) > 0 {
					sb.Sig = h.accepted[0].Sig
				}
			}
		}
	}
	return opRec{kind: kind, resigned: resign, sb: sb}, true
}

type scriptStep struct {
	kind    string
	variant int
}

// scriptFor is the op list of the two SCRIPTED histories every run starts with
// (history 0: arbitrating publisher node, history 1: follower). Every family that
// once exposed a defect is present here deterministically, not left to sampling:
// in-process signing followed by each replayed-signature variant, the duplicated
// transaction with a coin-creating transaction sorting later, the multi-input
// double spends in every position and order, re-signed variants after injection /
// rejection, null-address outputs, huge / maximal hours created then spent, and
// then every mutation kind of the catalogue once.
func scriptFor(arb bool) []scriptStep {
	var sc []scriptStep
	add := func(k string, v int) { sc = append(sc, scriptStep{k, v}) }
	// malformed transactions in the very first block after genesis (head = genesis)
	for v := 0; v < 10; v++ {
		add("malformed_txn", v)
	}
	add("valid_split", -1)
	for v := 0; v < 5; v++ {
		add("malformed_txn", v)
	}
	if arb {
		add("node_signed", -1)
		add("sig_replay", 0) // the head's signature = the one the node made last
		add("sig_replay", 1)
		add("valid", -1)
		add("sig_replay", 1) // the node's last signature, no longer the head's
		add("sig_replay", 0)
		add("sig_replay", 2)
		add("sig_replay", 3)
		add("node_signed", -1)
		add("sig_replay", 1)
		add("sig_replay", 3)
	} else {
		add("valid", -1)
		for v := 0; v < 4; v++ {
			add("sig_replay", v)
		}
	}
	add("valid_split", -1)
	for v := 0; v < 6; v++ {
		add("dup_txn_inflate", v)
		if v == 2 {
			add("valid_split", -1)
		}
	}
	add("valid_split", -1)
	for v := 0; v < 8; v++ {
		add("dsp_inblock_multi", v)
	}
	add("valid_split", -1)
	for v := 0; v < 5; v++ {
		add("dsp_fan", v)
		if v == 2 {
			add("valid_split", -1)
		}
	}
	for v := 0; v < 35; v++ {
		if v != 16 { // Time = 2^64-1 ends the chain: last step of the script
			add("hdr_special", v)
		}
	}
	add("resigned_after_inject", -1)
	add("valid", -1)
	add("resigned_after_reject", -1)
	add("valid_null_addr", -1)
	add("huge_hours_create", -1)
	add("valid_split", -1)
	add("maxhours_create", -1)
	seen := map[string]bool{}
	n := 0
	for _, k := range mutKinds {
		if seen[k] || k == "huge_hours_spend" || k == "maxhours_spend" {
			continue
		}
		seen[k] = true
		add(k, -1)
		n++
		if n%5 == 0 {
			add("valid", -1)
		}
	}
	add("hdr_special", 16)
	return sc
}

func run(args []string) error {
	f := ParseFlags("c01", args)
	logging.Disable()
	n := f.Budget(12, 300)
	r := NewRng(f.Seed)
	o := NewOut()
	hist := Hist{}
	root, err := os.MkdirTemp("", "verif_c01_")
	if err != nil {
		return err
	}
	defer os.RemoveAll(root)

	var histNames []string
	var opsJSON []map[string]interface{}
	var samples []map[string]interface{}
	for hi := 0; hi < n; hi++ {
		dir := filepath.Join(root, fmt.Sprintf("h%d", hi))
		if err := os.MkdirAll(dir, 0700); err != nil {
			return err
		}
		w := newWorld(r, dir)
		if hi < 2 { // the two scripted histories
			w.arb = hi == 0
			w.genVol = 1e18
		}
		p := newPrinter(hi)
		gb, err := coin.NewGenesisBlock(w.addrs[0], w.genVol, w.genTime)
		if err != nil {
			return err
		}
		genesis := w.sign(*gb, w.sec)
		nStarts := 3
		if hi < 2 {
			nStarts = 7
		}
		starts, startDescs := w.startAttempts(gb, genesis.Sig, nStarts)
		for _, d := range startDescs {
			hist.Add("start:" + strings.SplitN(d, ":", 2)[0])
		}
		nd, err := w.openNode(filepath.Join(dir, "node.db"), genesis.Sig)
		if err != nil {
			return err
		}
		h := &history{w: w, n: nd, p: p, gsig: genesis.Sig, genesis: genesis, hist: hist, variant: -1, scripted: hi < 2}
		// the genesis block as the model sees it (its outputs use the null source hash)
		gname := func() string {
			t := gb.Body.Transactions[0]
			ux := mkUnspents(gb.Head, t, true)
			var outs []string
			for i, out := range t.Out {
				outs = append(outs, fmt.Sprintf("mkOut %d %s %s %d %s", w.addrID(out.Address), Z(out.Coins), Z(out.Hours),
					w.id(ux[i].Hash()), Z(low64(ux[i].SnapshotHash()))))
			}
			gsz, gth, _ := t.SizeHash()
			tt := p.def("t", "txn", fmt.Sprintf("mkTxn %d [] %s [] %d true true [] %d %s", w.id(t.Hash()), List(outs), t.Type, gsz, Z(binary.BigEndian.Uint64(gth[:8]))))
			hd := fmt.Sprintf("(mkHeader %d %s %s %s %d %d %s)", gb.Head.Version, Z(gb.Head.Time), Z(gb.Head.BkSeq), Z(gb.Head.Fee),
				w.id(gb.Head.PrevHash), w.id(gb.Head.BodyHash), Z(low64(gb.Head.UxHash)))
			return p.def("b", "block", fmt.Sprintf("mkBlock %s %d %d true [%s]", hd, w.id(gb.HashHeader()), w.id(gb.Body.Hash()), tt))
		}()
		if w.arb {
			if g, e := nd.v.GetSignedBlockBySeq(0); e == nil && g != nil {
				gs := g.Sig
				h.nodeSig = &gs // the publisher signed the genesis block in this process
			}
		}
		d0, uxs, err := w.dump(p, nd, true, true)
		if err != nil {
			nd.close()
			return err
		}
		h.unspent = uxs
		opsJSON = append(opsJSON, map[string]interface{}{"hist": hi, "op": 0, "kind": "init", "resigned": false, "result": "", "genesis_volume": fmt.Sprint(w.genVol), "start_attempts": strings.Join(startDescs, " ")})
		var script []scriptStep
		if hi < 2 {
			script = scriptFor(w.arb)
		}
		nops := 10 + r.Intn(31)
		if script != nil {
			nops = 4 * len(script) // pending follow-ups take steps too; the loop stops when the script is done
		}
		if f.Tier != "quick" && r.Chance(10) {
			nops = 60 + r.Intn(60)
		}
		var steps []string
		prevD := d0
		for k := 1; k <= nops; k++ {
			var op opRec
			ok := false
			if h.pending != nil {
				op, ok = *h.pending, true
				h.pending = nil
			} else if h.pendKind != "" {
				pk := h.pendKind
				op, ok = h.mutate(pk)
				h.pendKind = ""
			} else if script != nil {
				if len(script) == 0 {
					break
				}
				st := script[0]
				script = script[1:]
				h.variant = st.variant
				switch st.kind {
				case "valid":
					if b, okb := h.nextValid(nd, h.unspent, 1+r.Intn(3)); okb {
						op, ok = opRec{kind: "valid", resigned: true, sb: w.sign(b, w.sec)}, true
					}
				case "node_signed":
					op, ok = h.nodeSigned()
				default:
					op, ok = h.mutate(st.kind)
				}
				h.variant = -1
				if ok {
					hist.Add("scripted:" + st.kind)
				} else {
					hist.Add("scripted_not_buildable:" + st.kind)
				}
			} else if r.Chance(42) || k == 1 {
				if w.arb && r.Chance(35) {
					op, ok = h.nodeSigned()
				}
				if !ok {
					b, okb := h.nextValid(nd, h.unspent, 1+r.Intn(3))
					if okb {
						op, ok = opRec{kind: "valid", resigned: true, sb: w.sign(b, w.sec)}, true
					}
				}
			} else {
				for try := 0; try < 4 && !ok; try++ {
					op, ok = h.mutate(mutKinds[r.Intn(len(mutKinds))])
				}
			}
			if !ok {
				continue
			}
			head, err := nd.head()
			if err != nil {
				nd.close()
				return err
			}
			bname := w.blockName(p, op.sb, head.Head.BkSeq)
			poolBefore := poolKey(nd)
			var execErr error
			panicked := Guard(func() { execErr = nd.v.ExecuteSignedBlock(op.sb) })
			poolOK := execErr == nil && !panicked || poolKey(nd) == poolBefore
			res := "Accepted"
			cls := ""
			if panicked {
				res, cls = "Crashed", "panic"
			} else if execErr != nil {
				cls = errClass(execErr)
				res = "(Rejected " + cls + ")"
			}
			dn, uxs, err := w.dump(p, nd, true, poolOK)
			if err != nil {
				nd.close()
				return err
			}
			storedNames := []string{}
			if execErr == nil && !panicked {
				// bookkeeping for the generators (spent outputs, accepted blocks)
				stored, e := nd.v.GetSignedBlockBySeq(head.Head.BkSeq + 1)
				if e == nil && stored != nil {
					h.accepted = append(h.accepted, *stored)
					// the body as the node stored it (an arbitrating node filters and re-orders it)
					for _, t := range stored.Body.Transactions {
						for _, out := range t.Out {
							if out.Address.Null() {
								hist.Add("accepted_output:null_address")
							}
							if out.Coins == 1 {
								hist.Add("accepted_output:one_droplet")
							}
						}
						storedNames = append(storedNames, p.def("t", "txn", w.txnTerm(t, stored.Head, head.Head.BkSeq)))
					}
				}
				now := map[cipher.SHA256]bool{}
				for _, ux := range uxs {
					now[ux.Hash()] = true
				}
				for _, ux := range h.unspent {
					if !now[ux.Hash()] {
						h.spent = append(h.spent, ux)
					}
				}
			}
			h.unspent = uxs
			steps = append(steps, fmt.Sprintf("(%s, %s, %s, %s)", bname, res, dn, List(storedNames)))
			desc := map[string]interface{}{"hist": hi, "op": len(steps), "kind": op.kind, "resigned": op.resigned, "result": cls,
				"head_seq_before": head.Head.BkSeq, "block_seq": op.sb.Head.BkSeq, "ntxns": len(op.sb.Body.Transactions), "nstored": len(storedNames), "arbitrating": w.arb, "state_changed": dn != prevD}
			opsJSON = append(opsJSON, desc)
			prevD = dn
			mode := "follower"
			if w.arb {
				mode = "arbitrating"
			}
			hist.Add("node:" + mode)
			if w.arb && cls == "" && len(storedNames) < len(op.sb.Body.Transactions) {
				hist.Add("arbitrating_dropped_txns:" + op.kind)
			}
			hist.Add("op:" + op.kind)
			if cls == "" {
				hist.Add("result:Accepted")
				hist.Add("accepted:" + op.kind)
			} else {
				hist.Add("result:" + cls)
			}
			o.Count(fmt.Sprintf("%d/%d/%s/%s/%s", hi, k, op.kind, cls, op.sb.HashHeader().Hex()), true)
			if len(samples) < 12 && r.Intn(20) == 0 {
				samples = append(samples, desc)
			}
		}
		nd.close()
		os.RemoveAll(dir)
		o.Raw(p.defs.String())
		hn := fmt.Sprintf("h%d", hi)
		o.Raw(fmt.Sprintf("Definition %s : history := mkHist %s %s %s %s %s\n  %s.\n", hn, B(w.arb), gname, Z(w.genVol), d0, List(starts), List(steps)))
		histNames = append(histNames, hn)
		hist.Add(fmt.Sprintf("history_len:%02d-%02d", (len(steps)/10)*10, (len(steps)/10)*10+9))
	}
	o.Def("cases_hist", "history", histNames)
	o.Side["cases"] = map[string]interface{}{"ops": opsJSON}
	o.Side["rule"] = "a case is one op (a signed block submitted to Visor.ExecuteSignedBlock of a real node on a bolt file: follower or arbitrating publisher configuration) of a generated history; distinct by (history, position, mutation kind, result, header hash); every op is counted: accepted blocks change the ledger, rejected ones exercise a distinct check"
	o.Side["distribution"] = hist.Sorted()
	o.Side["samples"] = samples
	return o.Write(f.Out, f.JSON)
}
