// Command c30: droplet.FromString / droplet.ToString observed on
// grammar-directed amount strings, boundary amounts and malformed text.
// The implementation runs in a worker subprocess (this binary with
// `-extra worker`) under an address-space limit and a per-call watchdog, so a
// call that hangs or exhausts memory is an observable ("Hang"/"Crash").
package main

import (
	"bufio"
	"encoding/hex"
	"fmt"
	"io"
	"os"
	"os/exec"
	"strconv"
	"strings"
	"syscall"
	"time"

	. "verif/harness/kit"

	"github.com/skycoin/skycoin/src/util/droplet"
)

const (
	callTimeout = 5 * time.Second
	memLimit    = 4 << 30
)

func main() {
	for i, a := range os.Args {
		if a == "-extra" && i+1 < len(os.Args) && os.Args[i+1] == "worker" {
			worker()
			return
		}
	}
	Main(run)
}

func errClass(err error) string {
	switch err {
	case nil:
		return ""
	case droplet.ErrNegativeValue:
		return "ErrNegativeValue"
	case droplet.ErrTooManyDecimals:
		return "ErrTooManyDecimals"
	case droplet.ErrTooLarge:
		return "ErrTooLarge"
	}
	return "parse" // every error of decimal.NewFromString
}

// worker: one request per line, one answer per line
//   F <hex text>  -> ok <uint64> | err <class> | panic
//   T <uint64>    -> ok <hex text> | err <class> | panic
func worker() {
	lim := syscall.Rlimit{Cur: memLimit, Max: memLimit}
	_ = syscall.Setrlimit(syscall.RLIMIT_AS, &lim)
	// answers go to a private copy of stdout; fd 1 and 2 (where the packages'
	// loggers write) are pointed at /dev/null so that log lines cannot mix in
	fd, err := syscall.Dup(1)
	if err != nil {
		os.Exit(3)
	}
	if null, err := os.OpenFile(os.DevNull, os.O_WRONLY, 0); err == nil {
		_ = syscall.Dup2(int(null.Fd()), 1)
		_ = syscall.Dup2(int(null.Fd()), 2)
	}
	in := bufio.NewReaderSize(os.Stdin, 1<<20)
	out := bufio.NewWriter(os.NewFile(uintptr(fd), "answers"))
	for {
		line, err := in.ReadString('\n')
		if err != nil {
			return
		}
		line = strings.TrimSpace(line)
		if len(line) < 1 {
			continue
		}
		arg := strings.TrimSpace(line[1:])
		ans := "panic"
		switch line[0] {
		case 'F':
			b, _ := hex.DecodeString(arg)
			Guard(func() {
				v, e := droplet.FromString(string(b))
				if e != nil {
					ans = "err " + errClass(e)
				} else {
					ans = "ok " + strconv.FormatUint(v, 10)
				}
			})
		case 'T':
			n, _ := strconv.ParseUint(arg, 10, 64)
			Guard(func() {
				s, e := droplet.ToString(n)
				if e != nil {
					ans = "err " + errClass(e)
				} else {
					ans = "ok " + hex.EncodeToString([]byte(s))
				}
			})
		}
		fmt.Fprintln(out, "@@ "+ans)
		out.Flush()
	}
}

type proc struct {
	cmd   *exec.Cmd
	in    io.WriteCloser
	lines chan string
}

func spawn() (*proc, error) {
	cmd := exec.Command(os.Args[0], "-extra", "worker")
	in, err := cmd.StdinPipe()
	if err != nil {
		return nil, err
	}
	outp, err := cmd.StdoutPipe()
	if err != nil {
		return nil, err
	}
	if err := cmd.Start(); err != nil {
		return nil, err
	}
	p := &proc{cmd: cmd, in: in, lines: make(chan string, 1)}
	go func() {
		sc := bufio.NewScanner(outp)
		sc.Buffer(make([]byte, 1<<20), 1<<26)
		for sc.Scan() {
			p.lines <- sc.Text()
		}
		close(p.lines)
	}()
	return p, nil
}

func (p *proc) kill() {
	_ = p.cmd.Process.Kill()
	_, _ = p.cmd.Process.Wait()
}

type caller struct {
	p     *proc
	hangs int
}

// call returns the worker's answer, or "err Hang" / "err Crash"
func (c *caller) call(req string) (string, error) {
	if c.p == nil {
		p, err := spawn()
		if err != nil {
			return "", err
		}
		c.p = p
	}
	if _, err := io.WriteString(c.p.in, req+"\n"); err != nil {
		c.p.kill()
		c.p = nil
		return "err Crash", nil
	}
	deadline := time.After(callTimeout)
	for {
		select {
		case l, ok := <-c.p.lines:
			if !ok {
				c.p.kill()
				c.p = nil
				return "err Crash", nil
			}
			if strings.HasPrefix(l, "@@ ") {
				return l[3:], nil
			}
		case <-deadline:
			c.p.kill()
			c.p = nil
			c.hangs++
			return "err Hang", nil
		}
	}
}

func outcomeZ(ans string) string {
	switch {
	case strings.HasPrefix(ans, "ok "):
		return "(Ok " + ans[3:] + ")"
	case strings.HasPrefix(ans, "err "):
		return "(Err " + Str(ans[4:]) + ")"
	}
	return "(Err \"Panic\")"
}

func txt(s string) string {
	for i := 0; i < len(s); i++ {
		if s[i] < 0x20 || s[i] > 0x7e || s[i] == '"' {
			return Bytes([]byte(s))
		}
	}
	return "(bytes_of_string \"" + s + "\")"
}

func run(args []string) error {
	f := ParseFlags("c30", args)
	r := NewRng(f.Seed)
	n := f.Budget(400, 12000)
	thorough := f.Tier == "thorough" || f.Tier == "search"
	o := NewOut()
	hist := Hist{}
	var samples []map[string]interface{}
	caseJSON := map[string][]map[string]interface{}{}
	rec := func(group string, m map[string]interface{}) {
		caseJSON[group] = append(caseJSON[group], m)
		if len(samples) < 12 && r.Intn(n/4+1) == 0 {
			mm := map[string]interface{}{"group": group}
			for k, v := range m {
				mm[k] = v
			}
			samples = append(samples, mm)
		}
	}
	c := &caller{}
	defer func() {
		if c.p != nil {
			c.p.kill()
		}
	}()

	var from, to []string
	seen := map[string]bool{}
	// History discipline: every input is presented twice in a row and a third time
	// at the end of the run (after all the other inputs), in the same worker
	// process. The model is a pure function: the first answer is the case, an
	// answer that differs from it is written as a further case.
	var later []func() error
	doFrom := func(s string, kind string) error {
		if seen[s] {
			return nil
		}
		seen[s] = true
		req := "F " + hex.EncodeToString([]byte(s))
		shown := s
		if len(shown) > 80 {
			shown = shown[:80] + "..."
		}
		emit := func(ans string, pres int, first string) {
			from = append(from, Tuple(txt(s), outcomeZ(ans)))
			m := map[string]interface{}{"call": "droplet.FromString", "text": shown, "text_hex": hex.EncodeToString([]byte(s)), "result": ans, "kind": kind, "presentation": pres}
			if pres > 1 {
				m["first_presentation"] = first
				hist.Add("from:answer-changed-on-repeat")
			}
			rec("from", m)
		}
		ans, err := c.call(req)
		if err != nil {
			return err
		}
		emit(ans, 1, "")
		o.Count("from"+s, strings.HasPrefix(ans, "ok ") || ans != "err parse")
		cls := ans
		if strings.HasPrefix(ans, "ok ") {
			cls = "ok"
		}
		hist.Add("from:" + kind + ":" + cls)
		if ans == "err Hang" || ans == "err Crash" { // do not pay the watchdog again
			return nil
		}
		again := func(k int) error {
			a2, err := c.call(req)
			if err != nil {
				return err
			}
			o.Evals++
			if a2 != ans {
				emit(a2, k, ans)
			}
			return nil
		}
		if err := again(2); err != nil {
			return err
		}
		later = append(later, func() error { return again(3) })
		return nil
	}
	doTo := func(x uint64, kind string) error {
		observe := func() (string, map[string]interface{}, error) {
			ans, err := c.call("T " + strconv.FormatUint(x, 10))
			if err != nil {
				return "", nil, err
			}
			obs := "(Err \"Panic\")"
			back := "(Err \"none\")"
			text := ""
			switch {
			case strings.HasPrefix(ans, "ok "):
				b, _ := hex.DecodeString(ans[3:])
				text = string(b)
				obs = "(Ok " + txt(text) + ")"
				a2, err := c.call("F " + ans[3:])
				if err != nil {
					return "", nil, err
				}
				back = outcomeZ(a2)
			case strings.HasPrefix(ans, "err "):
				obs = "(Err " + Str(ans[4:]) + ")"
			}
			return Tuple(Z(x), obs, back), map[string]interface{}{"call": "droplet.ToString", "n": fmt.Sprint(x), "text": text, "result": ans, "back": back}, nil
		}
		t1, js, err := observe()
		if err != nil {
			return err
		}
		js["presentation"] = 1
		to = append(to, t1)
		rec("to", js)
		o.Count(fmt.Sprint("to", x), x <= 1<<63-1)
		hist.Add("to:" + kind)
		again := func(k int) error {
			t, js, err := observe()
			if err != nil {
				return err
			}
			o.Evals++
			if t != t1 {
				js["presentation"] = k
				js["first_presentation"] = t1
				to = append(to, t)
				rec("to", js)
				hist.Add("to:answer-changed-on-repeat")
			}
			return nil
		}
		if err := again(2); err != nil {
			return err
		}
		later = append(later, func() error { return again(3) })
		return nil
	}

	// ---- fixed boundary list
	fixed := []string{
		"", " ", "0", "00", "0.", "0.0", ".0", ".", ".5", "-.5", "+.5", ".+5", ".-5", "+", "-", "+-1", "--1",
		"1", "+1", "-1", "-0", "-0.0", "-0.000000", "+0", "01", "00.50", "1.", "1.0", "1.000000", "1.0000000", "1.00000000000",
		"0.000001", "0.0000001", "0.0000010", "0.00000100", "1.1234567", "1.123456", "1.1234560", "0.1234565",
		"9223372036854.775807", "9223372036854.775808", "9223372036854.7758070", "9223372036854.7758071", "9223372036854.775806",
		"9223372036854775807e-6", "9223372036854775808e-6", "9223372036854775807E-6", "922337203685477.5807e-2", "0.9223372036854775807e13",
		"0.9223372036854775808e13", "9223372036854", "9223372036855", "18446744073709.551615", "18446744073709.551616",
		"99999999999999999999999999999999", "1e-6", "1e-7", "10e-7", "0e-7", "0.0e-7", "1E6", "1e0", "1e+0", "1e-0", "1e+6", "1e12", "1e13", "9e12", "9.3e12",
		"1e18", "1e19", "0e19", "0e100", "0.0e100", "1e", "1e+", "1e-", "e5", "E", "1ee5", "1e5e5", "1e1.5", "1.5e1", "1.5e-1", "1.5E+1",
		"1e2147483647", "1e2147483648", "1e-2147483648", "1e-2147483649", "0e2147483647", "0.1e2147483647", "0.1e-2147483648", "1e99999999999",
		"1.2.3", "1..2", "1 ", " 1", "1 000", "1,5", "1_000", "0x10", "1e0x1", "Inf", "NaN", "inf", "nan", "١", "1\x00", "１", "1e１",
		"1.5e", "1.e5", ".e5", ".5e1", "-", "-.", "-e5", "- 1", "1-", "1+", "1.-5", "1.+5", "-1e-6", "-0e5", "-0.0000001", "-1e99",
	}
	for _, s := range fixed {
		if err := doFrom(s, "fixed"); err != nil {
			return err
		}
	}
	// exponents that make the decimal library build 10^exp (F13): few, each can cost a watchdog period
	big := []string{"1e99999999", "0e99999999", "1e2147483641", "5e50000000", "0.1e2147483647"}
	if thorough {
		big = append(big, "1e999999999", "0.000001e2147483647", "1E2147483000", "123.456e1000000000", "1e20000000")
	}
	for _, s := range big {
		if err := doFrom(s, "huge-exponent"); err != nil {
			return err
		}
	}

	// ---- grammar-directed
	digits := func(k int) string {
		var sb strings.Builder
		for i := 0; i < k; i++ {
			sb.WriteByte(byte('0' + r.Intn(10)))
		}
		return sb.String()
	}
	intPart := func() string {
		switch r.Intn(9) {
		case 0:
			return ""
		case 1:
			return "0"
		case 2:
			return strings.Repeat("0", 1+r.Intn(3)) + digits(r.Intn(5))
		case 3: // around MaxInt64 / 1e6
			return strconv.FormatUint(9223372036854+uint64(r.Intn(3))-1, 10)
		case 4:
			return strconv.FormatUint(r.U64Edge(), 10)
		case 5:
			return digits(18 + r.Intn(8))
		default:
			return digits(1 + r.Intn(13))
		}
	}
	fracPart := func() string {
		switch r.Intn(8) {
		case 0:
			return ""
		case 1:
			return "."
		case 2:
			return "." + digits(1+r.Intn(6)) + strings.Repeat("0", r.Intn(4))
		case 3:
			return "." + digits(7+r.Intn(3))
		case 4:
			return "." + strings.Repeat("0", r.Intn(9))
		case 5:
			return ".775807"
		default:
			return "." + digits(1+r.Intn(6))
		}
	}
	expPart := func() string {
		if r.Intn(3) != 0 {
			return ""
		}
		e := []string{"e", "E"}[r.Intn(2)]
		sg := []string{"", "+", "-"}[r.Intn(3)]
		switch r.Intn(6) {
		case 0:
			return e + sg + strconv.Itoa(r.Intn(8))
		case 1:
			return e + "-" + strconv.Itoa(5+r.Intn(4))
		case 2:
			return e + sg + strconv.Itoa(10+r.Intn(12))
		case 3:
			return e + sg + "0" + strconv.Itoa(r.Intn(7))
		case 4:
			return e + "-" + strconv.Itoa(r.Intn(40))
		default:
			return e + sg + strconv.Itoa(r.Intn(3))
		}
	}
	sign := func() string {
		switch r.Intn(8) {
		case 0:
			return "-"
		case 1:
			return "+"
		}
		return ""
	}
	junk := []string{" ", "_", ",", "x", "e", ".", "-", "+", "\t", "é", "0", "\x00", "E"}
	for i := 0; i < n; i++ {
		s := sign() + intPart() + fracPart() + expPart()
		kind := "grammar"
		if r.Intn(6) == 0 { // malformed: insert / delete one character
			kind = "mutated"
			p := r.Intn(len(s) + 1)
			if r.Bool() || len(s) == 0 {
				s = s[:p] + junk[r.Intn(len(junk))] + s[p:]
			} else if p < len(s) {
				s = s[:p] + s[p+1:]
			}
		}
		if err := doFrom(s, kind); err != nil {
			return err
		}
	}

	// ---- ToString and back
	edge := []uint64{0, 1, 9, 10, 999999, 1000000, 1000001, 1999999, 123000456, 100000000000000,
		1<<63 - 1, 1 << 63, 1<<63 + 1, 1<<63 - 2, ^uint64(0), ^uint64(0) - 1, 9223372036854000000, 9223372036854775800, 9223372036853999999}
	for _, x := range edge {
		if err := doTo(x, "edge"); err != nil {
			return err
		}
	}
	for i := 0; i < n/2; i++ {
		x := r.U64Edge()
		kind := "edge-random"
		switch r.Intn(4) {
		case 0:
			x = (r.U64Edge() / 1000000) * 1000000
			kind = "whole"
		case 1:
			x = (r.U64Edge()/1000000)*1000000 + []uint64{1, 10, 100, 1000, 10000, 100000, 999999, 500000}[r.Intn(8)]
			kind = "one-digit-fraction"
		case 2:
			x = r.U64() >> uint(1+r.Intn(63))
			kind = "random"
		}
		if err := doTo(x, kind); err != nil {
			return err
		}
	}

	// third presentation of every input, after all the others
	for _, f := range later {
		if err := f(); err != nil {
			return err
		}
	}

	o.Def("cases_from", "list Z * outcome Z", from)
	o.Def("cases_to", "Z * outcome (list Z) * outcome Z", to)
	o.Side["rule"] = "amount strings built from the grammar [sign][digits][.digits][e[sign]digits] with boundary parts (empty parts, leading/trailing zeros, 6/7+ decimals, values around MaxInt64 droplets, exponents -40..21 and the int32 limits), a fixed list of boundary/malformed strings (spaces, '+', underscores, non-ASCII digits, several dots/exponents) and single-character mutations; exponents for which the library would build 10^exp run under a 5 s watchdog and a 4 GB address-space limit in a subprocess; ToString on boundary-biased uint64 followed by FromString; every input is presented twice in a row and once more at the end of the run in the same process, an answer that changed is a further case; a case is non-trivial when it passes the parser (from) / is <= MaxInt64 (to); distinct by input"
	o.Side["distribution"] = hist.Sorted()
	o.Side["samples"] = samples
	o.Side["cases"] = caseJSON
	o.Side["watchdog_hangs"] = c.hangs
	return o.Write(f.Out, f.JSON)
}
