// Command c19: the wallet service's memory and disk views never diverge (property C19).
//
// Random operation sequences (<= 25 operations, failing variants included:
// duplicate seed, bad parameters, wrong / missing password, unknown wallet,
// wallet directory unavailable during the operation) are run on a real
// wallet.Service in a temporary directory. After every operation the harness
// records the error class, the memory view (GetWallets) and what a freshly
// started service loads from a copy of the directory, each wallet reduced to
// the abstract record of Model/WalletService.v.
package main

import (
	"errors"
	"fmt"
	"io/ioutil"
	"os"
	"path/filepath"
	"sort"
	"strings"

	. "verif/harness/kit"

	"github.com/skycoin/skycoin/src/cipher"
	"github.com/skycoin/skycoin/src/cipher/bip39"
	"github.com/skycoin/skycoin/src/cipher/bip44"
	"github.com/skycoin/skycoin/src/cipher/crypto"
	"github.com/skycoin/skycoin/src/util/logging"
	"github.com/skycoin/skycoin/src/wallet"
	_ "github.com/skycoin/skycoin/src/wallet/bip44wallet"
	_ "github.com/skycoin/skycoin/src/wallet/collection"
	_ "github.com/skycoin/skycoin/src/wallet/deterministic"
	_ "github.com/skycoin/skycoin/src/wallet/xpubwallet"
)

func main() { Main(run) }

var sentinels = map[error]string{
	wallet.ErrWalletEncrypted:          "ErrWalletEncrypted",
	wallet.ErrWalletNotEncrypted:       "ErrWalletNotEncrypted",
	wallet.ErrMissingPassword:          "ErrMissingPassword",
	wallet.ErrMissingEncrypt:           "ErrMissingEncrypt",
	wallet.ErrInvalidPassword:          "ErrInvalidPassword",
	wallet.ErrMissingSeed:              "ErrMissingSeed",
	wallet.ErrMissingLabel:             "ErrMissingLabel",
	wallet.ErrWalletNotExist:           "ErrWalletNotExist",
	wallet.ErrWalletNameConflict:       "ErrWalletNameConflict",
	wallet.ErrWalletRecoverSeedWrong:   "ErrWalletRecoverSeedWrong",
	wallet.ErrInvalidWalletType:        "ErrInvalidWalletType",
	wallet.ErrWalletTypeNotRecoverable: "ErrWalletTypeNotRecoverable",
	wallet.ErrWalletPermission:         "ErrWalletPermission",
	wallet.ErrEncryptTempWallet:        "ErrEncryptTempWallet",
	wallet.ErrMissingXPub:              "ErrMissingXPub",
}

var errFn = errors.New("callback failed")

func errClass(err error) string {
	if err == nil {
		return ""
	}
	if n, ok := sentinels[err]; ok {
		return n
	}
	if err == errFn {
		return "EFn"
	}
	var pe *os.PathError
	var le *os.LinkError
	if errors.As(err, &pe) || errors.As(err, &le) {
		return "EDisk"
	}
	m := err.Error()
	switch {
	case strings.HasPrefix(m, "fingerprint conflict"):
		return "ErrFingerprintConflict"
	case strings.HasPrefix(m, "RecoverWallet failed to create temporary wallet"):
		return "ERecoverCreate"
	case strings.HasPrefix(m, "missing password for encrypting wallet"):
		return "EBip44MissingPassword"
	case strings.Contains(m, "xpub wallet does not support encryption"):
		return "EXpubNoEncrypt"
	case strings.HasPrefix(m, "password is not required for scanning bip44"):
		return "EBip44ScanPassword"
	case strings.Contains(m, "does not implement ScanAddresses"):
		return "ENoScan"
	case strings.Contains(m, "no such file or directory"):
		return "EDisk"
	}
	return m
}

// ---- pools (ids are what the model sees)

var (
	names  = []string{"a.wlt", "b.wlt", "c.wlt", "d.wlt"}
	seeds  = mkSeeds() // "", then four fixed bip39 mnemonics (valid for deterministic and bip44 wallets)
	xpubs  = mkXPubs() // "", then one extended public key per mnemonic
	labels = []string{"", "label-1", "label-2", "label-3", "label-4"}
	pws    = []string{"", "pw-1", "pw-2", "pw-3"}
	types  = map[int]string{0: wallet.WalletTypeDeterministic, 1: wallet.WalletTypeCollection, 2: wallet.WalletTypeBip44, 3: wallet.WalletTypeXPub, 9: "nosuchtype"}
)

func mkSeeds() []string {
	out := []string{""}
	for i := 1; i <= 4; i++ {
		ent := make([]byte, 16)
		for j := range ent {
			ent[j] = byte(i*37 + j*11)
		}
		m, err := bip39.NewMnemonic(ent)
		if err != nil {
			panic(err)
		}
		out = append(out, m)
	}
	return out
}

func mkXPubs() []string {
	out := []string{""}
	for _, m := range mkSeeds()[1:] {
		sd, err := bip39.NewSeed(m, "")
		if err != nil {
			panic(err)
		}
		c, err := bip44.NewCoin(sd, bip44.CoinTypeSkycoin)
		if err != nil {
			panic(err)
		}
		a, err := c.Account(0)
		if err != nil {
			panic(err)
		}
		e, err := a.External()
		if err != nil {
			panic(err)
		}
		out = append(out, e.PublicKey().String())
	}
	return out
}

var coinText = []string{"default", "skycoin/8000", "bitcoin/0"}

// the text of a seed id for a wallet type
func seedText(typ, id int) string {
	if typ == 3 {
		if id == 0 {
			return ""
		}
		return "xpub-" + fmt.Sprint(id)
	}
	if id == 0 {
		return ""
	}
	return "mnemonic-" + fmt.Sprint(id)
}

type Op struct {
	Kind  string
	Name  string
	Typ   int
	Seed  int
	Label int
	Enc   bool
	Pw    int
	N     int
	Temp  bool
	Dfail bool
	Fok   bool
	Chg   bool // NewAddr: on the change chain (wallet.OptionChange)
	Ea    int  // Scan: index+1 of the last scanned external address with activity (0 = none)
	Ca    int  // Scan: same on the change chain
	Coin  int  // Create: Options.Bip44Coin, 0 = not given, 1 = skycoin/8000 (the service default), 2 = bitcoin/0
}

func (o Op) Coq() string {
	n := Str(o.Name)
	switch o.Kind {
	case "Create":
		return fmt.Sprintf("(Create %s %d %d %d %d %s %d %d %s %s)", n, o.Typ, o.Seed, o.Coin, o.Label, B(o.Enc), o.Pw, o.N, B(o.Temp), B(o.Dfail))
	case "NewAddr":
		return fmt.Sprintf("(NewAddr %s %d %d %s %s)", n, o.Pw, o.N, B(o.Chg), B(o.Dfail))
	case "Scan":
		return fmt.Sprintf("(Scan %s %d %d %d %d %s)", n, o.Pw, o.N, o.Ea, o.Ca, B(o.Dfail))
	case "SetLabel":
		return fmt.Sprintf("(SetLabel %s %d %s)", n, o.Label, B(o.Dfail))
	case "Encrypt":
		return fmt.Sprintf("(Encrypt %s %d %s)", n, o.Pw, B(o.Dfail))
	case "Decrypt":
		return fmt.Sprintf("(Decrypt %s %d %s)", n, o.Pw, B(o.Dfail))
	case "Recover":
		return fmt.Sprintf("(Recover %s %d %d %s)", n, o.Seed, o.Pw, B(o.Dfail))
	case "Unload":
		return fmt.Sprintf("(Unload %s)", n)
	case "UpdSecrets":
		return fmt.Sprintf("(UpdSecrets %s %d %s %d %s)", n, o.Pw, B(o.Fok), o.Label, B(o.Dfail))
	case "Upd":
		return fmt.Sprintf("(Upd %s %s %d %s)", n, B(o.Fok), o.Label, B(o.Dfail))
	case "View":
		return fmt.Sprintf("(ViewSecrets %s %d)", n, o.Pw)
	case "GetSeed":
		return fmt.Sprintf("(GetSeed %s %d)", n, o.Pw)
	case "Read":
		return fmt.Sprintf("(ReadW %s)", n)
	}
	panic("bad op")
}

func (o Op) Text() string {
	s := o.Kind + "(" + o.Name
	switch o.Kind {
	case "Create":
		s += fmt.Sprintf(",type=%s,seed=%q,bip44coin=%s,label=%q,encrypt=%v,pw=%q,n=%d,temp=%v", types[o.Typ], seedText(o.Typ, o.Seed), coinText[o.Coin], labels[o.Label], o.Enc, pws[o.Pw], o.N, o.Temp)
	case "NewAddr":
		s += fmt.Sprintf(",pw=%q,n=%d,change-chain=%v", pws[o.Pw], o.N, o.Chg)
	case "Scan":
		s += fmt.Sprintf(",pw=%q,n=%d,last-active-external=%d,last-active-change=%d", pws[o.Pw], o.N, o.Ea, o.Ca)
	case "SetLabel":
		s += fmt.Sprintf(",label=%q", labels[o.Label])
	case "Encrypt", "Decrypt", "View", "GetSeed":
		s += fmt.Sprintf(",pw=%q", pws[o.Pw])
	case "Recover":
		s += fmt.Sprintf(",seed=%q,newpw=%q", seedText(0, o.Seed), pws[o.Pw])
	case "UpdSecrets":
		s += fmt.Sprintf(",pw=%q,callback_ok=%v,label=%q", pws[o.Pw], o.Fok, labels[o.Label])
	case "Upd":
		s += fmt.Sprintf(",callback_ok=%v,label=%q", o.Fok, labels[o.Label])
	}
	if o.Dfail {
		s += ",DIR-UNAVAILABLE"
	}
	return s + ")"
}

// ---- abstraction of a real wallet

type AW struct {
	Name  string
	Typ   int
	Seed  int
	Label int
	Enc   bool
	Pw    int
	N     int
	C     int
	Coin  int
	Temp  bool
}

func (a AW) Coq() string {
	return fmt.Sprintf("(mkW %s %s %s %s %s %s %s %s %s %s)", Str(a.Name), ZI(int64(a.Typ)), ZI(int64(a.Seed)), ZI(int64(a.Label)), B(a.Enc), ZI(int64(a.Pw)), ZI(int64(a.N)), ZI(int64(a.C)), ZI(int64(a.Coin)), B(a.Temp))
}
func (a AW) Text() string {
	return fmt.Sprintf("%s{type=%d seed=%d coin=%d label=%d enc=%v pw=%d n=%d change=%d temp=%v}", a.Name, a.Typ, a.Seed, a.Coin, a.Label, a.Enc, a.Pw, a.N, a.C, a.Temp)
}

type abstractor struct {
	fpSeed map[string]int // real fingerprint -> seed id
	bad    []string       // inconsistencies of the id tables (must stay empty)
}

func (ab *abstractor) wallet(w wallet.Wallet) AW {
	a := AW{Name: w.Filename(), Enc: w.IsEncrypted(), Temp: w.IsTemp(), Label: -1, Typ: -1}
	switch w.Type() {
	case wallet.WalletTypeDeterministic:
		a.Typ = 0
	case wallet.WalletTypeCollection:
		a.Typ = 1
	case wallet.WalletTypeBip44:
		a.Typ = 2
	case wallet.WalletTypeXPub:
		a.Typ = 3
	}
	for i, l := range labels {
		if l == w.Label() {
			a.Label = i
		}
	}
	if fp := w.Fingerprint(); fp != "" {
		if s, ok := ab.fpSeed[fp]; ok {
			a.Seed = s
		} else {
			a.Seed = -1
			ab.bad = append(ab.bad, "unknown fingerprint "+fp)
		}
	}
	if a.Typ == 2 { // the coin type of the derivation path, as the wallet records it
		a.Coin = -1
		if c := w.Bip44Coin(); c != nil {
			switch *c {
			case bip44.CoinTypeSkycoin:
				a.Coin = 1
			case bip44.CoinTypeBitcoin:
				a.Coin = 2
			}
		}
	}
	if a.Typ == 2 { // per-chain entry counts of account 0
		n, err := w.EntriesLen(wallet.OptionExternal())
		if err != nil {
			n = -1
		}
		c, err := w.EntriesLen(wallet.OptionChange())
		if err != nil {
			c = -1
		}
		a.N, a.C = n, c
	} else {
		n, err := w.EntriesLen()
		if err != nil {
			n = -1
		}
		a.N = n
	}
	if a.Enc {
		a.Pw = -1
		for i := 1; i < len(pws); i++ {
			if u, err := w.Unlock([]byte(pws[i])); err == nil {
				u.Erase()
				a.Pw = i
				break
			}
		}
	}
	return a
}

func (ab *abstractor) view(ws wallet.Wallets) []AW {
	out := []AW{}
	for _, w := range ws {
		out = append(out, ab.wallet(w))
	}
	sort.Slice(out, func(i, j int) bool { return out[i].Name < out[j].Name })
	return out
}

func viewCoq(v []AW) string {
	it := []string{}
	for _, a := range v {
		it = append(it, a.Coq())
	}
	return List(it)
}
func viewText(v []AW) string {
	it := []string{}
	for _, a := range v {
		it = append(it, a.Text())
	}
	return "[" + strings.Join(it, " ") + "]"
}

func cfg(dir string) wallet.Config {
	bc := bip44.CoinTypeSkycoin
	return wallet.Config{WalletDir: dir, CryptoType: crypto.CryptoTypeSha256Xor, EnableWalletAPI: true, EnableSeedAPI: true, Bip44Coin: &bc}
}

// chainActivity is a transactions finder that reports activity per chain: the
// wallets ask once per chain (bip44: external first, then change; the others
// once); call i marks the address of index keep[i]-1 among the scanned ones.
type chainActivity struct {
	keep  []int
	calls int
}

func (c *chainActivity) AddressesActivity(addrs []cipher.Addresser) ([]bool, error) {
	out := make([]bool, len(addrs))
	if c.calls < len(c.keep) {
		if k := c.keep[c.calls]; k >= 1 && k <= len(addrs) {
			out[k-1] = true
		}
	}
	c.calls++
	return out, nil
}

// firstDiff names the first JSON line on which two serialised wallets differ.
func firstDiff(a, b string) string {
	la, lb := strings.Split(a, "\n"), strings.Split(b, "\n")
	for i := 0; i < len(la) && i < len(lb); i++ {
		if la[i] != lb[i] {
			x := strings.TrimSpace(la[i])
			if len(x) > 60 {
				x = x[:60] + "..."
			}
			return "first differing line: " + x
		}
	}
	return fmt.Sprintf("lengths %d / %d", len(a), len(b))
}

func copyDir(src, dst string) error {
	if err := os.MkdirAll(dst, 0700); err != nil {
		return err
	}
	es, err := ioutil.ReadDir(src)
	if err != nil {
		return err
	}
	for _, e := range es {
		if !e.Mode().IsRegular() {
			continue
		}
		b, err := ioutil.ReadFile(filepath.Join(src, e.Name()))
		if err != nil {
			return err
		}
		if err := ioutil.WriteFile(filepath.Join(dst, e.Name()), b, 0600); err != nil {
			return err
		}
	}
	return nil
}

// apply runs one operation on the real service; the returned op has the
// generated file name filled in.
func apply(s *wallet.Service, dir string, o Op, ab *abstractor, genN *int) (Op, error) {
	if o.Dfail {
		if err := os.Rename(dir, dir+".away"); err != nil {
			panic(err)
		}
		defer func() {
			if err := os.Rename(dir+".away", dir); err != nil {
				panic(err)
			}
		}()
	}
	pw := []byte(pws[o.Pw])
	if o.Pw == 0 {
		pw = nil
	}
	var err error
	switch o.Kind {
	case "Create":
		var w wallet.Wallet
		opts := wallet.Options{Type: types[o.Typ], Seed: seeds[o.Seed], Label: labels[o.Label],
			Encrypt: o.Enc, Password: pw, CryptoType: crypto.CryptoTypeSha256Xor, GenerateN: uint64(o.N), Temp: o.Temp}
		if o.Typ == 3 {
			opts.Seed = ""
			opts.XPub = xpubs[o.Seed]
		}
		switch o.Coin {
		case 1:
			c := bip44.CoinTypeSkycoin
			opts.Bip44Coin = &c
		case 2:
			c := bip44.CoinTypeBitcoin
			opts.Bip44Coin = &c
		}
		w, err = s.CreateWallet(o.Name, opts)
		if err == nil {
			o.Name = w.Filename()
			if fp := w.Fingerprint(); fp != "" {
				if old, ok := ab.fpSeed[fp]; ok && old != o.Seed {
					ab.bad = append(ab.bad, fmt.Sprintf("fingerprint %s belongs to seeds %d and %d", fp, old, o.Seed))
				}
				ab.fpSeed[fp] = o.Seed
			}
		} else if o.Name == "" {
			*genN++
			o.Name = fmt.Sprintf("generated-%d.wlt", *genN)
		}
	case "NewAddr":
		if o.Chg {
			_, err = s.NewAddresses(o.Name, pw, wallet.OptionGenerateN(uint64(o.N)), wallet.OptionChange())
		} else {
			_, err = s.NewAddresses(o.Name, pw, wallet.OptionGenerateN(uint64(o.N)))
		}
	case "Scan":
		_, err = s.ScanAddresses(o.Name, pw, uint64(o.N), &chainActivity{keep: []int{o.Ea, o.Ca}})
	case "SetLabel":
		err = s.UpdateWalletLabel(o.Name, labels[o.Label])
	case "Encrypt":
		_, err = s.EncryptWallet(o.Name, pw)
	case "Decrypt":
		_, err = s.DecryptWallet(o.Name, pw)
	case "Recover":
		_, err = s.RecoverWallet(o.Name, seeds[o.Seed], "", pw)
	case "Unload":
		err = s.UnloadWallet(o.Name)
	case "UpdSecrets":
		err = s.UpdateSecrets(o.Name, pw, func(w wallet.Wallet) error {
			// a failing callback has already modified the wallet it was given
			w.SetLabel(labels[o.Label])
			if !o.Fok {
				return errFn
			}
			return nil
		})
	case "View": // read-only use of the decrypted wallet (what signing a transaction does)
		err = s.ViewSecrets(o.Name, pw, func(w wallet.Wallet) error {
			_ = w.Seed()
			_, e := w.GetEntries()
			return e
		})
	case "GetSeed":
		_, _, err = s.GetWalletSeed(o.Name, pw)
	case "Read": // GetWallet, View, GetAddresses: the read paths of the API handlers
		var w wallet.Wallet
		w, err = s.GetWallet(o.Name)
		if err == nil {
			_, _ = w.Serialize()
			err = s.View(o.Name, func(w wallet.Wallet) error {
				_, e := w.GetAddresses()
				return e
			})
		}
		if err == nil {
			_, err = s.GetAddresses(o.Name)
		}
	case "Upd":
		err = s.Update(o.Name, func(w wallet.Wallet) error {
			// a failing callback has already modified the wallet it was given
			w.SetLabel(labels[o.Label])
			if !o.Fok {
				return errFn
			}
			return nil
		})
	}
	return o, err
}

// genOp picks the next operation: mostly operations that can succeed on the
// current wallets, with failing variants mixed in.
func genOp(r *Rng, mem []AW, everCreated []string) Op {
	pickName := func() string {
		if len(mem) > 0 && r.Chance(80) {
			return mem[r.Intn(len(mem))].Name
		}
		if len(everCreated) > 0 && r.Chance(50) {
			return everCreated[r.Intn(len(everCreated))]
		}
		return names[r.Intn(len(names))]
	}
	find := func(n string) *AW {
		for i := range mem {
			if mem[i].Name == n {
				return &mem[i]
			}
		}
		return nil
	}
	// the password an operation on wallet n needs (mostly right)
	pwFor := func(n string) int {
		w := find(n)
		switch {
		case r.Chance(12):
			return r.Intn(len(pws))
		case w != nil && w.Enc:
			return w.Pw
		}
		return 0
	}
	dfail := r.Chance(7)
	if r.Chance(14) { // read-only calls
		n := pickName()
		switch r.Intn(3) {
		case 0:
			return Op{Kind: "View", Name: n, Pw: pwFor(n)}
		case 1:
			return Op{Kind: "GetSeed", Name: n, Pw: pwFor(n)}
		}
		return Op{Kind: "Read", Name: n}
	}
	k := r.Intn(100)
	switch {
	case k < 30 || len(mem) == 0 && k < 60:
		o := Op{Kind: "Create", Typ: 0, Seed: 1 + r.Intn(len(seeds)-1), Label: 1 + r.Intn(len(labels)-1), N: r.Intn(4), Dfail: dfail}
		if r.Chance(45) {
			o.Name = names[r.Intn(len(names))]
		}
		switch k := r.Intn(100); {
		case k < 15:
			o.Typ = 1
		case k < 50:
			o.Typ = 2
			if r.Chance(40) {
				o.Coin = 1 + r.Intn(2)
			}
		case k < 62:
			o.Typ = 3
			o.Seed = 1 + r.Intn(len(xpubs)-1)
		}
		if r.Chance(25) {
			o.Enc = true
			o.Pw = 1 + r.Intn(len(pws)-1)
		}
		if r.Chance(15) {
			o.Temp = true
		}
		switch r.Intn(14) { // bad parameters
		case 0:
			o.Typ = 9
		case 1:
			o.Seed = 0
		case 2:
			o.Label = 0
		case 3:
			o.Enc = true
			o.Pw = 0
		case 4:
			o.Enc = false
			o.Pw = 1
		case 5:
			o.Enc, o.Temp, o.Pw = true, true, 1
		}
		return o
	case k < 40:
		n := pickName()
		return Op{Kind: "NewAddr", Name: n, Pw: pwFor(n), N: r.Intn(4), Chg: r.Chance(35), Dfail: dfail}
	case k < 50:
		n := pickName()
		o := Op{Kind: "Scan", Name: n, Pw: pwFor(n), N: r.Intn(5), Dfail: dfail}
		if w := find(n); w != nil && w.Typ == 2 && r.Chance(85) {
			o.Pw = 0 // bip44 wallets are scanned without a password
		}
		// activity per chain: none / on one chain only / on both
		if o.N > 0 {
			if r.Chance(50) {
				o.Ea = 1 + r.Intn(o.N)
			}
			if r.Chance(50) {
				o.Ca = 1 + r.Intn(o.N)
			}
		}
		return o
	case k < 58:
		l := 1 + r.Intn(len(labels)-1)
		if r.Chance(10) {
			l = 0 // an empty label is accepted by the service
		}
		return Op{Kind: "SetLabel", Name: pickName(), Label: l, Dfail: dfail}
	case k < 65:
		n := pickName()
		p := 1 + r.Intn(len(pws)-1)
		if r.Chance(10) {
			p = 0
		}
		return Op{Kind: "Encrypt", Name: n, Pw: p, Dfail: dfail}
	case k < 73:
		n := pickName()
		return Op{Kind: "Decrypt", Name: n, Pw: pwFor(n), Dfail: dfail}
	case k < 80:
		n := pickName()
		var rec []string // encrypted wallets of a recoverable type
		for _, w := range mem {
			if w.Enc && (w.Typ == 0 || w.Typ == 2) {
				rec = append(rec, w.Name)
			}
		}
		if len(rec) > 0 && r.Chance(70) {
			n = rec[r.Intn(len(rec))]
		}
		o := Op{Kind: "Recover", Name: n, Seed: r.Intn(len(seeds)), Pw: r.Intn(len(pws)), Dfail: dfail}
		if w := find(n); w != nil && r.Chance(75) && w.Seed >= 0 && w.Seed < len(seeds) {
			o.Seed = w.Seed
		}
		return o
	case k < 90:
		return Op{Kind: "Unload", Name: pickName()}
	case k < 95:
		n := pickName()
		return Op{Kind: "UpdSecrets", Name: n, Pw: pwFor(n), Fok: !r.Chance(20), Label: 1 + r.Intn(len(labels)-1), Dfail: dfail}
	default:
		return Op{Kind: "Upd", Name: pickName(), Fok: !r.Chance(20), Label: 1 + r.Intn(len(labels)-1), Dfail: dfail}
	}
}

func run(args []string) error {
	f := ParseFlags("c19", args)
	logging.Disable()
	r := NewRng(f.Seed)
	nseq := f.Budget(100, 1200)
	base := ""
	if st, e := os.Stat("/dev/shm"); e == nil && st.IsDir() {
		base = "/dev/shm"
	}
	root, err := ioutil.TempDir(base, "verif_c19_")
	if err != nil {
		root, err = ioutil.TempDir("", "verif_c19_")
		if err != nil {
			return err
		}
	}
	defer os.RemoveAll(root)

	o := NewOut()
	hist := Hist{}
	var items []string
	var cases []map[string]interface{}
	var samples []map[string]interface{}
	var badTables []string

	// fixed histories first: the shapes named in DESIGN 6.19 / F20
	fixed := [][]Op{
		{ // F20: create, unload, create the same seed under another name
			{Kind: "Create", Name: "", Typ: 0, Seed: 1, Label: 1, N: 1},
			{Kind: "Unload", Name: "@0"},
			{Kind: "Create", Name: "", Typ: 0, Seed: 1, Label: 2, N: 1},
		},
		{ // same, explicit names, then delete-by-overwrite of an unloaded file
			{Kind: "Create", Name: "a.wlt", Typ: 0, Seed: 1, Label: 1, N: 2},
			{Kind: "Unload", Name: "a.wlt"},
			{Kind: "Create", Name: "b.wlt", Typ: 0, Seed: 1, Label: 2, N: 1},
			{Kind: "Create", Name: "a.wlt", Typ: 0, Seed: 2, Label: 2, N: 1},
			{Kind: "Create", Name: "b.wlt", Typ: 0, Seed: 1, Label: 2, N: 1},
		},
		{ // temporary wallet in memory over an unloaded file of the same name
			{Kind: "Create", Name: "a.wlt", Typ: 0, Seed: 1, Label: 1, N: 1},
			{Kind: "Unload", Name: "a.wlt"},
			{Kind: "Create", Name: "a.wlt", Typ: 0, Seed: 2, Label: 1, N: 1, Temp: true},
			{Kind: "Create", Name: "b.wlt", Typ: 0, Seed: 1, Label: 3, N: 1},
			{Kind: "Unload", Name: "a.wlt"},
			{Kind: "Create", Name: "c.wlt", Typ: 0, Seed: 2, Label: 3, N: 1},
		},
	}

	fixed = append(fixed,
		[]Op{ // recover an encrypted bip44 wallet with a non-default coin, then create the same seed with the default coin
			{Kind: "Create", Name: "a.wlt", Typ: 2, Seed: 1, Coin: 2, Label: 1, Enc: true, Pw: 1, N: 2},
			{Kind: "Recover", Name: "a.wlt", Seed: 2, Pw: 2}, // wrong seed
			{Kind: "Recover", Name: "a.wlt", Seed: 1, Pw: 2}, // right seed, new password
			{Kind: "Create", Name: "b.wlt", Typ: 2, Seed: 1, Label: 2, N: 1},
			{Kind: "Create", Name: "c.wlt", Typ: 2, Seed: 1, Coin: 2, Label: 2, N: 1},
			{Kind: "Recover", Name: "b.wlt", Seed: 1, Pw: 0}, // not encrypted
		},
		[]Op{ // recover without a new password (wallet ends unencrypted), default and explicit coins, deterministic too
			{Kind: "Create", Name: "a.wlt", Typ: 2, Seed: 3, Coin: 1, Label: 1, Enc: true, Pw: 1, N: 1},
			{Kind: "NewAddr", Name: "a.wlt", N: 2, Chg: true},
			{Kind: "Recover", Name: "a.wlt", Seed: 3, Pw: 0},
			{Kind: "Create", Name: "b.wlt", Typ: 2, Seed: 3, Coin: 2, Label: 2, Enc: true, Pw: 2, N: 1},
			{Kind: "Recover", Name: "b.wlt", Seed: 3, Pw: 0, Dfail: true},
			{Kind: "Recover", Name: "b.wlt", Seed: 3, Pw: 3},
			{Kind: "Create", Name: "c.wlt", Typ: 2, Seed: 3, Label: 2, N: 1},
			{Kind: "Create", Name: "d.wlt", Typ: 0, Seed: 3, Label: 2, Enc: true, Pw: 1, N: 3},
			{Kind: "Recover", Name: "d.wlt", Seed: 3, Pw: 1},
			{Kind: "Unload", Name: "b.wlt"},
			{Kind: "Create", Name: "c.wlt", Typ: 2, Seed: 3, Coin: 2, Label: 3, N: 1},
		})

	fixed = append(fixed,
		[]Op{ // Update / UpdateSecrets whose callback modifies the wallet and then fails; failing save after a modification
			{Kind: "Create", Name: "a.wlt", Typ: 0, Seed: 1, Label: 1, N: 2},
			{Kind: "Upd", Name: "a.wlt", Fok: false, Label: 2},
			{Kind: "UpdSecrets", Name: "a.wlt", Fok: false, Label: 3},
			{Kind: "Upd", Name: "a.wlt", Fok: true, Label: 4, Dfail: true},
			{Kind: "Create", Name: "e.wlt", Typ: 2, Seed: 2, Label: 1, Enc: true, Pw: 1, N: 1},
			{Kind: "UpdSecrets", Name: "e.wlt", Pw: 1, Fok: false, Label: 2},
			{Kind: "UpdSecrets", Name: "e.wlt", Pw: 1, Fok: true, Label: 3, Dfail: true},
			{Kind: "Upd", Name: "e.wlt", Fok: false, Label: 4},
			{Kind: "Create", Name: "t.wlt", Typ: 0, Seed: 3, Label: 1, N: 1, Temp: true},
			{Kind: "Upd", Name: "t.wlt", Fok: false, Label: 2},
			{Kind: "SetLabel", Name: "a.wlt", Label: 2, Dfail: true},
			{Kind: "Encrypt", Name: "a.wlt", Pw: 1, Dfail: true},
			{Kind: "NewAddr", Name: "a.wlt", N: 2, Dfail: true},
			{Kind: "Decrypt", Name: "e.wlt", Pw: 1, Dfail: true},
		},
		[]Op{ // a name held in memory with an unused seed: refused, the file of the first wallet must stay
			{Kind: "Create", Name: "a.wlt", Typ: 0, Seed: 1, Label: 1, N: 2},
			{Kind: "Create", Name: "a.wlt", Typ: 0, Seed: 2, Label: 2, N: 1},
			{Kind: "Create", Name: "a.wlt", Typ: 2, Seed: 3, Label: 3, Enc: true, Pw: 1, N: 1},
			{Kind: "Create", Name: "a.wlt", Typ: 1, Label: 3},
			{Kind: "Create", Name: "t.wlt", Typ: 0, Seed: 2, Label: 1, N: 1, Temp: true},
			{Kind: "Create", Name: "t.wlt", Typ: 0, Seed: 3, Label: 2, N: 1},
			{Kind: "Create", Name: "b.wlt", Typ: 0, Seed: 4, Label: 2, N: 1, Dfail: true},
			{Kind: "Create", Name: "c.wlt", Typ: 1, Label: 2, Dfail: true},
		},
		[]Op{ // bip44 and xpub scans with activity on one chain only / both / none, on plain and encrypted wallets
			{Kind: "Create", Name: "a.wlt", Typ: 2, Seed: 1, Label: 1, N: 1},
			{Kind: "Scan", Name: "a.wlt", N: 3, Ea: 0, Ca: 2},
			{Kind: "Scan", Name: "a.wlt", N: 2, Ea: 2, Ca: 0},
			{Kind: "Scan", Name: "a.wlt", N: 2, Ea: 0, Ca: 0},
			{Kind: "NewAddr", Name: "a.wlt", N: 2, Chg: true},
			{Kind: "Encrypt", Name: "a.wlt", Pw: 2},
			{Kind: "Scan", Name: "a.wlt", N: 1, Ea: 0, Ca: 1},
			{Kind: "NewAddr", Name: "a.wlt", N: 1, Chg: true},
			{Kind: "Scan", Name: "a.wlt", Pw: 2, N: 1, Ea: 1, Ca: 1},
			{Kind: "Create", Name: "x.wlt", Typ: 3, Seed: 2, Label: 1, N: 1},
			{Kind: "Scan", Name: "x.wlt", N: 3, Ea: 2},
			{Kind: "Create", Name: "d.wlt", Typ: 0, Seed: 3, Label: 1, N: 1},
			{Kind: "Scan", Name: "d.wlt", N: 3, Ea: 3},
			{Kind: "Scan", Name: "a.wlt", N: 2, Ea: 0, Ca: 2, Dfail: true},
		})

	fixed = append(fixed,
		[]Op{ // read-only calls on an encrypted bip44 wallet that got addresses while encrypted (no password)
			{Kind: "Create", Name: "a.wlt", Typ: 2, Seed: 1, Label: 1, Enc: true, Pw: 1, N: 1},
			{Kind: "View", Name: "a.wlt", Pw: 1},
			{Kind: "NewAddr", Name: "a.wlt", N: 2},
			{Kind: "View", Name: "a.wlt", Pw: 2}, // wrong password
			{Kind: "View", Name: "a.wlt", Pw: 1},
			{Kind: "GetSeed", Name: "a.wlt", Pw: 1},
			{Kind: "Read", Name: "a.wlt"},
			{Kind: "Scan", Name: "a.wlt", N: 2, Ea: 1, Ca: 2},
			{Kind: "GetSeed", Name: "a.wlt", Pw: 1},
			{Kind: "View", Name: "a.wlt", Pw: 1},
			{Kind: "NewAddr", Name: "a.wlt", N: 1, Chg: true},
			{Kind: "View", Name: "a.wlt", Pw: 0},
			{Kind: "View", Name: "a.wlt", Pw: 1},
			{Kind: "Create", Name: "d.wlt", Typ: 0, Seed: 2, Label: 1, Enc: true, Pw: 2, N: 2},
			{Kind: "View", Name: "d.wlt", Pw: 2},
			{Kind: "GetSeed", Name: "d.wlt", Pw: 1},
			{Kind: "Create", Name: "p.wlt", Typ: 0, Seed: 3, Label: 1, N: 1},
			{Kind: "View", Name: "p.wlt", Pw: 0},
			{Kind: "View", Name: "p.wlt", Pw: 1},
			{Kind: "GetSeed", Name: "p.wlt", Pw: 0},
			{Kind: "Read", Name: "nosuch.wlt"},
			{Kind: "View", Name: "nosuch.wlt", Pw: 1},
		})

	for si := 0; si < nseq+len(fixed); si++ {
		dir := filepath.Join(root, fmt.Sprintf("s%05d", si))
		if err := os.MkdirAll(dir, 0700); err != nil {
			return err
		}
		s, err := wallet.NewService(cfg(dir))
		if err != nil {
			return err
		}
		ab := &abstractor{fpSeed: map[string]int{}}
		genN := 0
		var memView []AW
		var ever []string
		var opsDone []Op
		var stepItems []string
		var stepTexts []string
		nops := 3 + r.Intn(23)
		if si < len(fixed) {
			nops = len(fixed[si])
		}
		var genNames []string
		// for the description of a failing history only (the cases file is the judge):
		// the first step at which the decidable property looks false
		suspect := ""
		unl := map[string]bool{}
		prevMem, prevRel := "[]", "[]"
		prevSer := map[string]string{}
		unlAll := map[string]bool{}
		serWhy := ""
		for k := 0; k < nops; k++ {
			var op Op
			if si < len(fixed) {
				op = fixed[si][k]
				if strings.HasPrefix(op.Name, "@") { // the k-th generated name
					op.Name = genNames[int(op.Name[1]-'0')]
				}
			} else {
				op = genOp(r, memView, ever)
			}
			var done Op
			var opErr error
			panicked := Guard(func() { done, opErr = apply(s, dir, op, ab, &genN) })
			if panicked { // a panic of the service is an observable (never predicted by the model)
				done, opErr = op, errors.New("PANIC")
				if done.Name == "" {
					done.Name = "generated-panic.wlt"
				}
			}
			if op.Kind == "Create" && op.Name == "" {
				genNames = append(genNames, done.Name)
			}
			cls := errClass(opErr)
			ws, err := s.GetWallets()
			if err != nil {
				return err
			}
			// full serialised form of every wallet in memory (taken before the abstraction, which unlocks copies)
			serMem := map[string]string{}
			tempMem := map[string]bool{}
			for n, w := range ws {
				b, err := w.Serialize()
				if err != nil {
					return err
				}
				serMem[n] = string(b)
				tempMem[n] = w.IsTemp()
			}
			if _, had := prevSer[done.Name]; done.Kind == "Unload" && had {
				unlAll[done.Name] = true
			}
			if done.Kind == "Create" && opErr == nil && !done.Temp {
				delete(unlAll, done.Name)
			}
			memView = ab.view(ws)
			if op.Kind == "Create" && opErr == nil {
				ever = append(ever, done.Name)
			}
			// a fresh service on a copy of the directory
			cp := dir + ".copy"
			os.RemoveAll(cp)
			if err := copyDir(dir, cp); err != nil {
				return err
			}
			rel := "RAbort"
			relText := "abort"
			var s2 *wallet.Service
			var err2 error
			if Guard(func() { s2, err2 = wallet.NewService(cfg(cp)) }) {
				relText = "panic"
			} else if err2 != nil {
				relText = "abort: " + err2.Error()
			} else {
				ws2, err := s2.GetWallets()
				if err != nil {
					return err
				}
				for n, w := range ws2 {
					b, err := w.Serialize()
					if err != nil {
						return err
					}
					if m, ok := serMem[n]; ok && !tempMem[n] && !unlAll[n] && m != string(b) && serWhy == "" {
						serWhy = "the serialised wallet " + n + " in memory differs from the one a fresh start loads (" + firstDiff(m, string(b)) + ")"
					}
				}
				v := ab.view(ws2)
				rel = "(RLoaded " + viewCoq(v) + ")"
				relText = viewText(v)
			}
			os.RemoveAll(cp)
			readOnly := done.Kind == "View" || done.Kind == "GetSeed" || done.Kind == "Read"
			if (readOnly || cls != "") && serWhy == "" {
				for n, b := range serMem {
					if p, ok := prevSer[n]; !ok || p != b {
						serWhy = "a read-only or failed call changed the serialised wallet " + n + " in memory (" + firstDiff(p, b) + ")"
					}
				}
				if len(serMem) != len(prevSer) && serWhy == "" {
					serWhy = "a read-only or failed call changed the set of wallets in memory"
				}
			}
			prevSer = serMem
			sok := serWhy == ""
			if !sok && suspect == "" {
				suspect = fmt.Sprintf("step %d, %s: %s", k, done.Text(), serWhy)
			}
			serWhy = ""
			if suspect == "" {
				inMemBefore := strings.Contains(prevMem, done.Name+"{")
				if done.Kind == "Unload" && inMemBefore {
					unl[done.Name] = true
				}
				if done.Kind == "Create" && opErr == nil && !done.Temp {
					delete(unl, done.Name)
				}
				why := ""
				memT := viewText(memView)
				if rel == "RAbort" {
					why = "a freshly started service does not start: " + relText
				} else if cls != "" && (memT != prevMem || relText != prevRel) {
					why = "the operation failed (" + cls + ") but the memory or disk view changed"
				} else {
					fpSeen := map[string]string{}
					for _, a := range memView {
						if a.Typ != 1 {
							key := fmt.Sprintf("%d/%d/%d", a.Typ, a.Seed, a.Coin)
							if o, ok := fpSeen[key]; ok {
								why = "wallets " + o + " and " + a.Name + " in memory share a fingerprint"
							}
							fpSeen[key] = a.Name
						}
					}
					if why == "" && rel != "RAbort" {
						// fresh view minus unloaded vs non-temporary memory
						var a, b []string
						for _, part := range strings.Split(strings.Trim(relText, "[]"), "} ") {
							if part = strings.TrimSpace(part); part != "" && !unl[strings.SplitN(part, "{", 2)[0]] {
								a = append(a, strings.TrimSuffix(part, "}"))
							}
						}
						for _, w := range memView {
							if !w.Temp {
								b = append(b, strings.TrimSuffix(w.Text(), "}"))
							}
						}
						if strings.Join(a, "|") != strings.Join(b, "|") {
							why = "memory (non-temporary) and a freshly started service (minus unloaded wallets) differ"
						}
					}
				}
				if why != "" {
					suspect = fmt.Sprintf("step %d, %s: %s; memory=%s fresh-start=%s", k, done.Text(), why, memT, relText)
				}
				prevMem, prevRel = memT, relText
			}
			opsDone = append(opsDone, done)
			stepItems = append(stepItems, Tuple(done.Coq(), OptErr(cls), viewCoq(memView), rel, B(sok)))
			stepTexts = append(stepTexts, fmt.Sprintf("%s -> err=%q mem=%s reload=%s", done.Text(), cls, viewText(memView), relText))
			hist.Add("op:" + done.Kind)
			if cls == "" {
				hist.Add("result:ok")
			} else {
				hist.Add("result:" + cls)
			}
		}
		badTables = append(badTables, ab.bad...)
		items = append(items, List(stepItems))
		c := map[string]interface{}{"sequence": si, "length": len(opsDone), "suspect_step": suspect, "history": strings.Join(stepTexts, " ;; ")}
		cases = append(cases, c)
		o.Count(strings.Join(stepTexts, ";"), true)
		if len(samples) < 6 && (si < 2 || r.Intn(nseq/4+1) == 0) {
			samples = append(samples, c)
		}
		os.RemoveAll(dir)
	}
	o.Def("cases_seq", "list (op * error * list wallet * reloaded * bool)", items)
	bi := []string{}
	for _, b := range badTables {
		bi = append(bi, Str(b))
	}
	o.Def("id_table_inconsistencies", "string", bi)
	o.Side["cases"] = map[string]interface{}{"seq": cases}
	o.Side["samples"] = samples
	o.Side["distribution"] = hist.Sorted()
	o.Side["rule"] = "a case is one operation sequence on a real wallet.Service (memory view and fresh-start view recorded after every operation); all are non-trivial; distinct = distinct observed histories"
	return o.Write(f.Out, f.JSON)
}
