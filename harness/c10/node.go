package main

// Block role on real nodes: a publisher-signed block and third-party alterations of it (body: transactions
// dropped / reordered / duplicated / exchanged / all removed; signature: negated s, re-encoded r, recid; header
// byte) are delivered through Visor.ExecuteSignedBlock to a FOLLOWER node (default configuration) and to an
// ARBITRATING node (block-publisher configuration, Arbitrating = true).  Only the genuine block may be accepted.

import (
	"fmt"
	"math/big"

	. "verif/harness/kit"
	nk "verif/harness/nodekit"

	"github.com/skycoin/skycoin/src/cipher"
	"github.com/skycoin/skycoin/src/cipher/encoder"
	"github.com/skycoin/skycoin/src/coin"
)

type emitFn func(group, op string, in []string, observed string, fields map[string]interface{})

func nodeRole(r *Rng, emit emitFn, hist Hist) error {
	w, err := nk.NewWorld(r, "c10")
	if err != nil {
		return err
	}
	defer w.Cleanup()
	pub, err := w.NewNode("pub", true, cipher.Sig{})
	if err != nil {
		return err
	}
	defer pub.Close()
	gs, err := w.GenesisSig(pub)
	if err != nil {
		return err
	}
	newFollower := func(name string) (*nk.Node, error) { return w.NewNode(name, false, gs) }
	// an arbitrating node that is not the signer of the blocks it receives: block-publisher configuration
	newArb := func(name string) (*nk.Node, error) { return w.NewNode(name, true, gs) }

	var gen coin.UxOut
	for _, ux := range w.Ux {
		gen = ux
	}
	var souts []coin.TransactionOutput
	left := gen.Body.Coins
	for i := 0; i < 5; i++ {
		c := uint64(10+r.Intn(50)) * 1000000
		souts = append(souts, coin.TransactionOutput{Address: w.Addrs[i%(nk.NKeys-1)], Coins: c, Hours: uint64(100000 + 1000*i)})
		left -= c
	}
	souts = append(souts, coin.TransactionOutput{Address: w.Addrs[0], Coins: left, Hours: 1000})
	t0 := w.BuildTxn([]cipher.SHA256{gen.Hash()}, w.Uniq(souts), nk.TxOpts{})
	if _, _, err := pub.V.InjectForeignTransaction(t0); err != nil {
		return fmt.Errorf("node role: split inject: %v", err)
	}
	b1, err := pub.V.VerifCreateBlock(nk.GenesisTime + 10)
	if err != nil {
		return fmt.Errorf("node role: split block: %v", err)
	}
	if err := pub.V.ExecuteSignedBlock(b1); err != nil {
		return fmt.Errorf("node role: publisher refuses its own block: %v", err)
	}
	w.RecordBlock(b1)
	// three independent spends; two go into the block, the third is a valid transaction NOT in the block
	outs := coin.CreateUnspents(b1.Head, b1.Body.Transactions[0])
	if len(outs) < 3 {
		return fmt.Errorf("node role: split produced %d outputs", len(outs))
	}
	var txs []coin.Transaction
	for i := 0; i < 3; i++ {
		txs = append(txs, w.Spend(coin.UxArray{outs[i]}, nk.GenesisTime+20, nk.SpendOpts{Fee: "min", NOut: 1 + r.Intn(2)}))
	}
	for i := 0; i < 2; i++ {
		if _, _, err := pub.V.InjectForeignTransaction(txs[i]); err != nil {
			return fmt.Errorf("node role: inject %d: %v", i, err)
		}
	}
	b2, err := pub.V.VerifCreateBlock(nk.GenesisTime + 30)
	if err != nil {
		return fmt.Errorf("node role: block 2: %v", err)
	}
	if len(b2.Body.Transactions) != 2 {
		return fmt.Errorf("node role: block 2 has %d transactions", len(b2.Body.Transactions))
	}
	orig := encoder.Serialize(b2)
	type mut struct {
		name string
		f    func(b *coin.SignedBlock)
	}
	cp := func(ts coin.Transactions) coin.Transactions { return append(coin.Transactions{}, ts...) }
	muts := []mut{
		{"body:drop-first-txn", func(b *coin.SignedBlock) { b.Body.Transactions = cp(b.Body.Transactions[1:]) }},
		{"body:drop-last-txn", func(b *coin.SignedBlock) { b.Body.Transactions = cp(b.Body.Transactions[:1]) }},
		{"body:empty", func(b *coin.SignedBlock) { b.Body.Transactions = coin.Transactions{} }},
		{"body:reorder", func(b *coin.SignedBlock) {
			t := cp(b.Body.Transactions)
			t[0], t[1] = t[1], t[0]
			b.Body.Transactions = t
		}},
		{"body:duplicate-txn", func(b *coin.SignedBlock) { b.Body.Transactions = append(cp(b.Body.Transactions), b.Body.Transactions[0]) }},
		{"body:exchange-txn", func(b *coin.SignedBlock) {
			t := cp(b.Body.Transactions)
			t[1] = txs[2]
			b.Body.Transactions = t
		}},
		{"body:add-txn", func(b *coin.SignedBlock) { b.Body.Transactions = append(cp(b.Body.Transactions), txs[2]) }},
		{"sig:neg-s+recid^1", func(b *coin.SignedBlock) {
			copy(b.Sig[32:64], b32(new(big.Int).Sub(bigN, sOf(b.Sig))))
			b.Sig[64] ^= 1
		}},
		{"sig:recid^1", func(b *coin.SignedBlock) { b.Sig[64] ^= 1 }},
		{"sig:recid+4", func(b *coin.SignedBlock) { b.Sig[64] += 4 }},
		{"head:fee+1", func(b *coin.SignedBlock) { b.Head.Fee++ }},
		{"head:time+1", func(b *coin.SignedBlock) { b.Head.Time++ }},
		{"head:uxhash-bit", func(b *coin.SignedBlock) { b.Head.UxHash[r.Intn(32)] ^= 1 }},
		{"head:bodyhash-bit", func(b *coin.SignedBlock) { b.Head.BodyHash[r.Intn(32)] ^= 1 }},
	}
	for _, cfg := range []string{"follower", "arbitrating"} {
		mk := newFollower
		if cfg == "arbitrating" {
			mk = newArb
		}
		// a fresh node per mutation: an accepted block changes the node's chain
		for mi, m := range muts {
			nd, err := mk(fmt.Sprintf("%s%d", cfg, mi))
			if err != nil {
				return fmt.Errorf("node role: %s node: %v", cfg, err)
			}
			if err := nd.V.ExecuteSignedBlock(b1); err != nil {
				nd.Close()
				return fmt.Errorf("node role: %s node refuses block 1: %v", cfg, err)
			}
			mb := b2
			mb.Body.Transactions = cp(b2.Body.Transactions)
			m.f(&mb)
			var xerr error
			pan := Guard(func() { xerr = nd.V.ExecuteSignedBlock(mb) })
			acc := !pan && xerr == nil
			why := ""
			if pan {
				why = "panic"
			} else if xerr != nil {
				why = xerr.Error()
			}
			emit("node", "nop", []string{"-"}, "-", map[string]interface{}{
				"role": "block@" + cfg + " node (Visor.ExecuteSignedBlock)", "mutation": m.name, "accepted": yn(acc), "same": "no", "in_window": "no",
				"why": why, "original": hx(orig), "mutated": hx(encoder.Serialize(mb)), "check": "Visor.ExecuteSignedBlock"})
			hist.Add(fmt.Sprintf("node:%s:%s:%s", cfg, m.name, map[bool]string{true: "ACCEPTED", false: "rejected"}[acc]))
			// the genuine block must still be accepted afterwards (same role, same bytes)
			if !acc {
				gerr := nd.V.ExecuteSignedBlock(b2)
				emit("node", "nop", []string{"-"}, "-", map[string]interface{}{
					"role": "block@" + cfg + " node (Visor.ExecuteSignedBlock)", "mutation": "identity-after:" + m.name, "accepted": yn(gerr == nil), "same": "yes",
					"genuine_refused": yn(gerr != nil), "in_window": "no", "original": hx(orig), "mutated": hx(orig)})
				if gerr != nil {
					hist.Add("node:" + cfg + ":GENUINE-REFUSED")
				}
			}
			nd.Close()
		}
	}
	return nil
}
