// Command c10: third-party malleability of signatures, signed transactions and
// signed blocks.  For each valid object a catalogue of malleations is applied and
// the SAME acceptance check is run on the result:
//   signature role   cipher.VerifyAddressSignedHash / VerifyPubKeySignedHash / VerifySignatureRecoverPubKey
//   transaction role coin.DeserializeTransaction + Transaction.Verify + Transaction.VerifyInputSignatures
//   block role       coin.SignedBlock.VerifySignature (= visor executeSignedBlock) and Body.Hash() == Head.BodyHash (verifyBlockHeader)
// Observables: accepted? same bytes?  Each signature-level verdict is also
// computed by the Coq model (runner/c10_driver.ml); lines:
//   <group>:<index> <op> <args...> => <observed verdict>
package main

import (
	"bufio"
	"bytes"
	"encoding/hex"
	"fmt"
	"math/big"
	"os"
	"runtime"
	"strings"
	"sync"

	. "verif/harness/kit"

	"github.com/skycoin/skycoin/src/cipher"
	"github.com/skycoin/skycoin/src/cipher/encoder"
	secp "github.com/skycoin/skycoin/src/cipher/secp256k1-go/secp256k1-go2"
	"github.com/skycoin/skycoin/src/coin"
)

var (
	bigN, _    = new(big.Int).SetString("FFFFFFFFFFFFFFFFFFFFFFFFFFFFFFFEBAAEDCE6AF48A03BBFD25E8CD0364141", 16)
	bigP, _    = new(big.Int).SetString("FFFFFFFFFFFFFFFFFFFFFFFFFFFFFFFFFFFFFFFFFFFFFFFFFFFFFFFEFFFFFC2F", 16)
	bigHalf, _ = new(big.Int).SetString("7FFFFFFFFFFFFFFFFFFFFFFFFFFFFFFF5D576E7357A4501DDFE92F46681B20A0", 16)
	big2_255   = new(big.Int).Lsh(big.NewInt(1), 255)
)

var sentinels = map[error]string{
	cipher.ErrInvalidSigPubKeyRecovery: "ErrInvalidSigPubKeyRecovery",
	cipher.ErrPubKeyRecoverMismatch:    "ErrPubKeyRecoverMismatch",
	cipher.ErrInvalidSigInvalidPubKey:  "ErrInvalidSigInvalidPubKey",
	cipher.ErrInvalidSigValidity:       "ErrInvalidSigValidity",
	cipher.ErrInvalidSigForMessage:     "ErrInvalidSigForMessage",
	cipher.ErrInvalidAddressForSig:     "ErrInvalidAddressForSig",
	cipher.ErrInvalidHashForSig:        "ErrInvalidHashForSig",
	cipher.ErrInvalidPubKey:            "ErrInvalidPubKey",
	cipher.ErrInvalidLengthSig:         "ErrInvalidLengthSig",
}

func errName(err error) string {
	if err == nil {
		return "ok"
	}
	if s, ok := sentinels[err]; ok {
		return s
	}
	return "Err:" + strings.ReplaceAll(err.Error(), " ", "_")
}
func hx(b []byte) string {
	if len(b) == 0 {
		return "-"
	}
	return hex.EncodeToString(b)
}
func b32(z *big.Int) []byte {
	out := make([]byte, 32)
	z.FillBytes(out)
	return out
}
func yn(b bool) string {
	if b {
		return "yes"
	}
	return "no"
}

type gen struct{ r *Rng }

func (g *gen) key() (cipher.SecKey, cipher.PubKey) {
	for {
		k := new(big.Int).SetBytes(g.r.Bytes(32))
		if k.Sign() > 0 && k.Cmp(bigN) < 0 {
			sk, err := cipher.NewSecKey(b32(k))
			if err != nil {
				panic(err)
			}
			return sk, cipher.MustPubKeyFromSecKey(sk)
		}
	}
}

// deterministic signing (nonce from the harness PRNG) through the low-level entry point
func (g *gen) sign(h cipher.SHA256, sk cipher.SecKey) cipher.Sig {
	for {
		nonce := new(big.Int).SetBytes(g.r.Bytes(32))
		if nonce.Sign() <= 0 || nonce.Cmp(bigN) >= 0 {
			continue
		}
		var sig secp.Signature
		var kk, mm, nn secp.Number
		kk.SetBytes(sk[:])
		mm.SetBytes(h[:])
		nn.Set(nonce)
		var recid int
		if sig.Sign(&kk, &mm, &nn, &recid) != 1 {
			continue
		}
		var out cipher.Sig
		copy(out[:32], b32(&sig.R.Int))
		copy(out[32:64], b32(&sig.S.Int))
		out[64] = byte(recid)
		return out
	}
}

// like sign, but the nonce is re-drawn until the top byte of n - s is `top`: the negation of such a
// signature sits exactly at a boundary of the verifier's bit-255 test (0x7f/0x80/0x81) or far above it (0xff)
func (g *gen) signWhere(h cipher.SHA256, sk cipher.SecKey, top byte) cipher.Sig {
	for {
		sig := g.sign(h, sk)
		neg := new(big.Int).Sub(bigN, sOf(sig))
		if b32(neg)[0] == top {
			return sig
		}
	}
}

var negTops = []byte{0x80, 0x81, 0x7f, 0xff, 0x80, 0x80}

type mutation struct {
	name string
	f    func(g *gen, s cipher.Sig) ([]cipher.Sig, bool) // results; ok=false when not applicable
}

func sOf(s cipher.Sig) *big.Int { return new(big.Int).SetBytes(s[32:64]) }
func rOf(s cipher.Sig) *big.Int { return new(big.Int).SetBytes(s[0:32]) }

var catalogue = []mutation{
	{"identity", func(g *gen, s cipher.Sig) ([]cipher.Sig, bool) { return []cipher.Sig{s}, true }},
	{"neg-s", func(g *gen, s cipher.Sig) ([]cipher.Sig, bool) {
		t := s
		copy(t[32:64], b32(new(big.Int).Sub(bigN, sOf(s))))
		return []cipher.Sig{t}, true
	}},
	{"neg-s+recid^1", func(g *gen, s cipher.Sig) ([]cipher.Sig, bool) {
		t := s
		copy(t[32:64], b32(new(big.Int).Sub(bigN, sOf(s))))
		t[64] ^= 1
		return []cipher.Sig{t}, true
	}},
	{"r+n", func(g *gen, s cipher.Sig) ([]cipher.Sig, bool) {
		r := new(big.Int).Add(rOf(s), bigN)
		if r.Cmp(bigP) >= 0 { // only r < p - n has a second encoding of the same abscissa class
			return nil, false
		}
		t := s
		copy(t[0:32], b32(r))
		u := t
		u[64] |= 2
		w := t
		w[64] &^= 2 // r+n spelled out, overflow bit dropped: the same abscissa as (r, recid|2)
		return []cipher.Sig{t, u, w}, true
	}},
	{"recid^1", func(g *gen, s cipher.Sig) ([]cipher.Sig, bool) { t := s; t[64] ^= 1; return []cipher.Sig{t}, true }},
	{"recid|2", func(g *gen, s cipher.Sig) ([]cipher.Sig, bool) { t := s; t[64] |= 2; return []cipher.Sig{t}, true }},
	{"recid^2", func(g *gen, s cipher.Sig) ([]cipher.Sig, bool) { t := s; t[64] ^= 2; return []cipher.Sig{t}, true }},
	{"recid+4k", func(g *gen, s cipher.Sig) ([]cipher.Sig, bool) {
		var out []cipher.Sig
		for _, k := range []int{1, 2, 1 + g.r.Intn(63), 63} {
			t := s
			t[64] = s[64] + byte(4*k)
			out = append(out, t)
		}
		return out, true
	}},
	{"high-bit", func(g *gen, s cipher.Sig) ([]cipher.Sig, bool) { t := s; t[32] |= 0x80; return []cipher.Sig{t}, true }},
	{"s+n", func(g *gen, s cipher.Sig) ([]cipher.Sig, bool) {
		v := new(big.Int).Add(sOf(s), bigN)
		if v.BitLen() > 256 {
			return nil, false
		}
		t := s
		copy(t[32:64], b32(v))
		return []cipher.Sig{t}, true
	}},
	{"flip-byte", func(g *gen, s cipher.Sig) ([]cipher.Sig, bool) {
		var out []cipher.Sig
		for i := 0; i < 65; i++ {
			t := s
			t[i] ^= byte(1 << uint(g.r.Intn(8)))
			out = append(out, t)
		}
		return out, true
	}},
	{"zero", func(g *gen, s cipher.Sig) ([]cipher.Sig, bool) { return []cipher.Sig{{}}, true }},
}

func main() { Main(run) }

func run(args []string) error {
	f := ParseFlags("c10", args)
	g := &gen{NewRng(f.Seed)}
	n := f.Budget(12, 400)
	o := NewOut()
	hist := Hist{}
	caseJSON := map[string][]map[string]interface{}{}
	var lines []string
	var samples []map[string]interface{}

	emit := func(group, op string, in []string, observed string, fields map[string]interface{}) {
		idx := len(caseJSON[group])
		line := fmt.Sprintf("%s:%d %s %s => %s", group, idx, op, strings.Join(in, " "), observed)
		lines = append(lines, line)
		m := map[string]interface{}{"op": op, "args": strings.Join(in, " "), "observed": observed}
		for k, v := range fields {
			m[k] = v
		}
		caseJSON[group] = append(caseJSON[group], m)
		o.Count(line, true)
		if len(samples) < 12 && g.r.Intn(400) == 0 {
			samples = append(samples, m)
		}
	}
	inWindow := func(s *big.Int) bool { // both s and n-s pass the bit test
		return s.Cmp(big2_255) < 0 && new(big.Int).Sub(bigN, s).Cmp(big2_255) < 0
	}

	// ---- signature role: one valid signature, all malleations, three acceptance functions
	sigRole := func(group string, h cipher.SHA256, pk cipher.PubKey, sig cipher.Sig) error {
		addr := cipher.AddressFromPubKey(pk)
		if err := cipher.VerifyAddressSignedHash(addr, sig, h); err != nil {
			return fmt.Errorf("%s: the unmutated signature is not accepted: %v", group, err)
		}
		for _, mu := range catalogue {
			outs, ok := mu.f(g, sig)
			if !ok {
				hist.Add(group + ":" + mu.name + ":n/a")
				continue
			}
			for _, t := range outs {
				same := t == sig
				var e1, e2, e3 error
				errPanic := fmt.Errorf("panic")
				if Guard(func() { e1 = cipher.VerifyAddressSignedHash(addr, t, h) }) {
					e1 = errPanic
				}
				if Guard(func() { e2 = cipher.VerifyPubKeySignedHash(pk, t, h) }) {
					e2 = errPanic
				}
				if Guard(func() { e3 = cipher.VerifySignatureRecoverPubKey(t, h) }) {
					e3 = errPanic
				}
				fields := map[string]interface{}{
					"role": "signature", "mutation": mu.name, "same": yn(same), "in_window": yn(inWindow(sOf(sig))),
					"sig": hx(sig[:]), "mutated": hx(t[:]), "hash": hx(h[:]), "pubkey": hx(pk[:]),
				}
				fa := map[string]interface{}{"accepted": yn(e1 == nil), "check": "VerifyAddressSignedHash"}
				fb := map[string]interface{}{"accepted": yn(e2 == nil), "check": "VerifyPubKeySignedHash"}
				fc := map[string]interface{}{"accepted": yn(e3 == nil && same), "check": "VerifySignatureRecoverPubKey"}
				for k, v := range fields {
					fa[k], fb[k], fc[k] = v, v, v
				}
				emit(group, "vash", []string{fmt.Sprintf("%x", addr.Version), hx(addr.Key[:]), hx(t[:]), hx(h[:])}, errName(e1), fa)
				emit(group, "vpsh", []string{hx(pk[:]), hx(t[:]), hx(h[:])}, errName(e2), fb)
				// VerifySignatureRecoverPubKey alone does not bind a key: only the verdict is compared
				emit(group, "vsrp", []string{hx(t[:]), hx(h[:])}, errName(e3), fc)
				hist.Add(fmt.Sprintf("%s:%s:%s", group, mu.name, map[bool]string{true: "ACCEPTED", false: "rejected"}[e1 == nil || e2 == nil]))
			}
		}
		return nil
	}

	for i := 0; i < n; i++ {
		sk, pk := g.key()
		var h cipher.SHA256
		copy(h[:], g.r.Bytes(32))
		sig := g.sign(h, sk)
		if i%3 == 0 { // also signatures made by the production entry point (nonce drawn by the implementation)
			sig = cipher.MustSignHash(h, sk)
		}
		if err := sigRole("sig", h, pk, sig); err != nil {
			return err
		}
	}

	// ---- honest signatures whose negation n - s has top byte 0x80 / 0x81 / 0x7f / 0xff (rejection sampling
	//      on the nonce; 0x7f is only reachable inside the F12 window and is skipped there)
	for i, top := range negTops {
		if top == 0x7f {
			continue
		}
		sk, pk := g.key()
		var h cipher.SHA256
		copy(h[:], g.r.Bytes(32))
		sig := g.signWhere(h, sk, top)
		if err := sigRole(fmt.Sprintf("top%02x", top), h, pk, sig); err != nil {
			return err
		}
		_ = i
	}

	// ---- F12 replay: (r, s) with s inside the window recovers SOME key; both it and its negation are accepted
	crafted := func() (cipher.SHA256, cipher.PubKey, cipher.Sig) {
		for {
			var h cipher.SHA256
			copy(h[:], g.r.Bytes(32))
			var sig cipher.Sig
			copy(sig[0:32], g.r.Bytes(32))
			// s uniformly in (n - 2^255, 2^255)
			lo := new(big.Int).Sub(bigN, big2_255)
			width := new(big.Int).Sub(big2_255, lo)
			s := new(big.Int).SetBytes(g.r.Bytes(32))
			s.Mod(s, new(big.Int).Sub(width, big.NewInt(1)))
			s.Add(s, lo).Add(s, big.NewInt(1))
			copy(sig[32:64], b32(s))
			sig[64] = byte(g.r.Intn(2))
			pk, err := cipher.PubKeyFromSig(sig, h)
			if err != nil {
				continue
			}
			return h, pk, sig
		}
	}
	for i := 0; i < n/3+2; i++ {
		h, pk, sig := crafted()
		if err := sigRole("f12", h, pk, sig); err != nil {
			return err
		}
	}
	// ---- abscissae in [n, p): a signature (r, s, recid 2|3) with tiny r stands for the nonce point with
	//      x = r + n.  Its re-encoding (r + n, s, recid 0|1) names the same point and must be refused
	//      (r >= n).  No key is needed: the signature recovers SOME key, which plays the signer.
	craftedRN := func(h cipher.SHA256) (cipher.PubKey, cipher.Sig, bool) {
		for tries := 0; tries < 200; tries++ {
			var sig cipher.Sig
			r := big.NewInt(int64(1 + g.r.Intn(1<<20)))
			if g.r.Chance(30) { // just below p - n
				r = new(big.Int).Sub(new(big.Int).Sub(bigP, bigN), big.NewInt(int64(1+g.r.Intn(5000))))
			}
			copy(sig[0:32], b32(r))
			s := new(big.Int).SetBytes(g.r.Bytes(32))
			s.Rsh(s, 1) // bit 255 clear
			if s.Sign() == 0 || s.Cmp(bigN) >= 0 {
				continue
			}
			copy(sig[32:64], b32(s))
			sig[64] = byte(2 + g.r.Intn(2))
			pk, err := cipher.PubKeyFromSig(sig, h)
			if err != nil {
				continue
			}
			if cipher.VerifyPubKeySignedHash(pk, sig, h) != nil {
				continue
			}
			return pk, sig, true
		}
		return cipher.PubKey{}, cipher.Sig{}, false
	}
	for i := 0; i < n/4+2; i++ {
		var h cipher.SHA256
		copy(h[:], g.r.Bytes(32))
		pk, sig, ok := craftedRN(h)
		if !ok {
			hist.Add("rn:not-constructible")
			continue
		}
		if err := sigRole("rn", h, pk, sig); err != nil {
			return err
		}
	}
	// the same in the block role (self-made publisher key) and in Transaction.Verify (which checks each
	// signature with VerifySignatureRecoverPubKey only: the weakest place a re-encoded signature could pass)
	for i := 0; i < 3; i++ {
		_, pk2 := g.key()
		blk, err := coin.NewGenesisBlock(cipher.AddressFromPubKey(pk2), 1e6, uint64(g.r.Intn(1<<31)))
		if err != nil {
			return err
		}
		pk, sig, ok := craftedRN(blk.HashHeader())
		if ok {
			sb := coin.SignedBlock{Block: *blk, Sig: sig}
			for _, keepBit := range []bool{false, true} {
				t := sb
				copy(t.Sig[0:32], b32(new(big.Int).Add(rOf(sig), bigN)))
				if !keepBit {
					t.Sig[64] &^= 2
				}
				err := t.VerifySignature(pk)
				emit("rn", "nop", []string{"-"}, "-", map[string]interface{}{
					"role": "block", "mutation": "r+n", "accepted": yn(err == nil), "same": "no", "in_window": "no",
					"original": hx(encoder.Serialize(sb)), "mutated": hx(encoder.Serialize(t)), "pubkey": hx(pk[:]), "check": "SignedBlock.VerifySignature"})
				hist.Add("rn:block:r+n:" + yn(err == nil))
			}
		}
		// Transaction.Verify
		var txn coin.Transaction
		var src cipher.SHA256
		copy(src[:], g.r.Bytes(32))
		if err := txn.PushInput(src); err != nil {
			return err
		}
		if err := txn.PushOutput(cipher.AddressFromPubKey(pk2), 1e6, 1); err != nil {
			return err
		}
		txn.InnerHash = txn.HashInner()
		_, sig2, ok2 := craftedRN(cipher.AddSHA256(txn.InnerHash, txn.In[0]))
		if ok2 {
			txn.Sigs = []cipher.Sig{sig2}
			if err := txn.UpdateHeader(); err != nil {
				return err
			}
			if err := txn.Verify(); err != nil {
				return fmt.Errorf("crafted transaction does not pass Transaction.Verify: %v", err)
			}
			orig := txn.MustSerialize()
			for _, keepBit := range []bool{false, true} {
				t := txn
				t.Sigs = []cipher.Sig{sig2}
				copy(t.Sigs[0][0:32], b32(new(big.Int).Add(rOf(sig2), bigN)))
				if !keepBit {
					t.Sigs[0][64] &^= 2
				}
				var verr error
				pan := Guard(func() { verr = t.Verify() })
				emit("rn", "nop", []string{"-"}, "-", map[string]interface{}{
					"role": "transaction (Transaction.Verify only)", "mutation": "r+n", "accepted": yn(!pan && verr == nil), "same": "no", "in_window": "no",
					"original": hx(orig), "mutated": hx(t.MustSerialize()), "check": "Transaction.Verify"})
				hist.Add("rn:txn.Verify:r+n:" + yn(!pan && verr == nil))
			}
		}
	}

	// the witness of Properties/C10.v high_s_accepted_refuted: msg = 01..01, r = 1, s = halfOrder + 1, recid 0
	{
		var h cipher.SHA256
		for i := range h {
			h[i] = 1
		}
		var sig cipher.Sig
		sig[31] = 1
		copy(sig[32:64], b32(new(big.Int).Add(bigHalf, big.NewInt(1))))
		pkb, _ := hex.DecodeString("02d0cde0c9a58046f697298862c507da72746838d13124be7cd92b60e5003a8ef8")
		var pk cipher.PubKey
		copy(pk[:], pkb)
		err := cipher.VerifyPubKeySignedHash(pk, sig, h)
		emit("f12w", "vpsh", []string{hx(pk[:]), hx(sig[:]), hx(h[:])}, errName(err), map[string]interface{}{
			"role": "signature", "mutation": "witness:s=halfOrder+1", "accepted": yn(err == nil), "same": "no", "high_s": "yes", "in_window": "yes",
			"check": "VerifyPubKeySignedHash", "mutated": hx(sig[:]), "hash": hx(h[:]), "pubkey": hx(pk[:]),
		})
		hist.Add("f12w:" + errName(err))
	}

	// ---- transaction role
	for i := 0; i < n; i++ {
		nin := 1 + g.r.Intn(3)
		var txn coin.Transaction
		var uxIn coin.UxArray
		var keys []cipher.SecKey
		for j := 0; j < nin; j++ {
			sk, pk := g.key()
			var src cipher.SHA256
			copy(src[:], g.r.Bytes(32))
			ux := coin.UxOut{
				Head: coin.UxHead{Time: uint64(g.r.Intn(1 << 30)), BkSeq: uint64(g.r.Intn(1000))},
				Body: coin.UxBody{SrcTransaction: src, Address: cipher.AddressFromPubKey(pk), Coins: uint64(1+g.r.Intn(1000)) * 1e6, Hours: uint64(g.r.Intn(10000))},
			}
			uxIn = append(uxIn, ux)
			keys = append(keys, sk)
			if err := txn.PushInput(ux.Hash()); err != nil {
				return err
			}
		}
		for j := 0; j < 1+g.r.Intn(3); j++ {
			_, pk := g.key()
			if err := txn.PushOutput(cipher.AddressFromPubKey(pk), uint64(1+g.r.Intn(100))*1e6, uint64(g.r.Intn(100))); err != nil {
				return err
			}
		}
		txn.InnerHash = txn.HashInner()
		txn.Sigs = make([]cipher.Sig, nin)
		for j := range txn.In {
			txn.Sigs[j] = g.sign(cipher.AddSHA256(txn.InnerHash, txn.In[j]), keys[j])
			if j == 0 && i%2 == 0 { // negation lands on a boundary of the bit-255 test
				txn.Sigs[j] = g.signWhere(cipher.AddSHA256(txn.InnerHash, txn.In[j]), keys[j], []byte{0x80, 0x81, 0xff, 0x80}[(i/2)%4])
			}
		}
		if err := txn.UpdateHeader(); err != nil {
			return err
		}
		accept := func(t *coin.Transaction, ux coin.UxArray) (ok bool, why string) {
			if Guard(func() {
				if err := t.Verify(); err != nil {
					why = "Verify:" + err.Error()
					return
				}
				if err := t.VerifyInputSignatures(ux); err != nil {
					why = "VerifyInputSignatures:" + err.Error()
					return
				}
				ok = true
			}) {
				return false, "panic"
			}
			return
		}
		if ok, why := accept(&txn, uxIn); !ok {
			return fmt.Errorf("generated transaction is not accepted: %s", why)
		}
		orig := txn.MustSerialize()
		report := func(mut string, b []byte, ux coin.UxArray, extra string) {
			same := bytes.Equal(b, orig)
			acc, why := false, ""
			t, err := coin.DeserializeTransaction(b)
			if err != nil {
				why = "decode:" + strings.ReplaceAll(err.Error(), " ", "_")
			} else {
				acc, why = accept(&t, ux)
				if acc { // accepted: what is accepted is the re-encoding of what was decoded
					same = bytes.Equal(t.MustSerialize(), orig) && same
				}
			}
			emit("txn", "nop", []string{"-"}, "-", map[string]interface{}{
				"role": "transaction", "mutation": mut, "accepted": yn(acc), "same": yn(same), "in_window": "no", "why": why,
				"original": hx(orig), "mutated": hx(b), "detail": extra,
			})
			hist.Add(fmt.Sprintf("txn:%s:%s", mut, map[bool]string{true: "ACCEPTED", false: "rejected"}[acc]))
		}
		report("identity", orig, uxIn, "")
		// every byte flipped once (random bit)
		for pos := 0; pos < len(orig); pos++ {
			b := append([]byte{}, orig...)
			b[pos] ^= byte(1 << uint(g.r.Intn(8)))
			report("flip-byte", b, uxIn, fmt.Sprint(pos))
		}
		// appended / truncated
		report("append", append(append([]byte{}, orig...), g.r.Bytes(1+g.r.Intn(8))...), uxIn, "")
		report("append-zero", append(append([]byte{}, orig...), 0), uxIn, "")
		report("truncate", orig[:len(orig)-1-g.r.Intn(4)], uxIn, "")
		// signature malleations inside the transaction (outer fields recomputed as a third party could)
		for j := range txn.Sigs {
			for _, mu := range catalogue {
				outs, ok := mu.f(g, txn.Sigs[j])
				if !ok || mu.name == "flip-byte" {
					continue
				}
				for _, s2 := range outs {
					t := txn
					t.Sigs = append([]cipher.Sig{}, txn.Sigs...)
					t.Sigs[j] = s2
					report("sig:"+mu.name, t.MustSerialize(), uxIn, fmt.Sprint(j))
				}
			}
		}
		// reorder inputs (with their signatures), header recomputed
		if nin >= 2 {
			t := txn
			t.In = append([]cipher.SHA256{}, txn.In...)
			t.Sigs = append([]cipher.Sig{}, txn.Sigs...)
			ux := append(coin.UxArray{}, uxIn...)
			t.In[0], t.In[1] = t.In[1], t.In[0]
			t.Sigs[0], t.Sigs[1] = t.Sigs[1], t.Sigs[0]
			ux[0], ux[1] = ux[1], ux[0]
			t.InnerHash = t.HashInner()
			if err := t.UpdateHeader(); err != nil {
				return err
			}
			report("reorder-inputs", t.MustSerialize(), ux, "")
			// same but keeping the old inner hash
			t2 := t
			t2.InnerHash = txn.InnerHash
			report("reorder-inputs-old-innerhash", t2.MustSerialize(), ux, "")
			// swap the signatures only
			t3 := txn
			t3.Sigs = append([]cipher.Sig{}, txn.Sigs...)
			t3.Sigs[0], t3.Sigs[1] = t3.Sigs[1], t3.Sigs[0]
			report("swap-sigs", t3.MustSerialize(), uxIn, "")
		}
		// duplicate / drop a signature
		{
			t := txn
			t.Sigs = append(append([]cipher.Sig{}, txn.Sigs...), txn.Sigs[0])
			report("extra-sig", t.MustSerialize(), uxIn, "")
		}
	}

	// ---- block role: SignedBlock.VerifySignature(pubkey) = VerifyPubKeySignedHash(pubkey, sig, HashHeader())
	for i := 0; i < n; i++ {
		sk, pk := g.key()
		_, pk2 := g.key()
		blk, err := coin.NewGenesisBlock(cipher.AddressFromPubKey(pk2), uint64(1+g.r.Intn(1000))*1e6, uint64(g.r.Intn(1<<31)))
		if err != nil {
			return err
		}
		blk.Head.BkSeq = uint64(g.r.Intn(100000))
		copy(blk.Head.PrevHash[:], g.r.Bytes(32))
		copy(blk.Head.UxHash[:], g.r.Bytes(32))
		sb := coin.SignedBlock{Block: *blk, Sig: g.sign(blk.HashHeader(), sk)}
		if i%2 == 0 {
			sb.Sig = g.signWhere(blk.HashHeader(), sk, []byte{0x80, 0x81, 0xff, 0x80}[(i/2)%4])
		}
		if err := sb.VerifySignature(pk); err != nil {
			return fmt.Errorf("generated block is not accepted: %v", err)
		}
		orig := encoder.Serialize(sb)
		report := func(mut string, b []byte, extra string) {
			same := bytes.Equal(b, orig)
			acc, why := false, ""
			var t coin.SignedBlock
			if err := encoder.DeserializeRawExact(b, &t); err != nil {
				why = "decode:" + strings.ReplaceAll(err.Error(), " ", "_")
			} else if Guard(func() {
				if err := t.VerifySignature(pk); err != nil {
					why = errName(err)
				} else if t.Body.Hash() != t.Head.BodyHash { // visor Blockchain.verifyBlockHeader: "Computed body hash does not match"
					why = "BodyHashMismatch"
				} else {
					acc = true
					same = same && bytes.Equal(encoder.Serialize(t), orig)
				}
			}) {
				why = "panic"
			}
			emit("block", "nop", []string{"-"}, "-", map[string]interface{}{
				"role": "block", "mutation": mut, "accepted": yn(acc), "same": yn(same), "in_window": "no", "why": why,
				"original": hx(orig), "mutated": hx(b), "pubkey": hx(pk[:]), "detail": extra,
			})
			hist.Add(fmt.Sprintf("block:%s:%s", mut, map[bool]string{true: "ACCEPTED", false: "rejected"}[acc]))
		}
		report("identity", orig, "")
		for pos := 0; pos < len(orig); pos++ {
			b := append([]byte{}, orig...)
			b[pos] ^= byte(1 << uint(g.r.Intn(8)))
			report("flip-byte", b, fmt.Sprint(pos))
		}
		report("append", append(append([]byte{}, orig...), g.r.Bytes(1+g.r.Intn(8))...), "")
		report("truncate", orig[:len(orig)-1], "")
		for _, mu := range catalogue {
			outs, ok := mu.f(g, sb.Sig)
			if !ok || mu.name == "flip-byte" {
				continue
			}
			for _, s2 := range outs {
				t := sb
				t.Sig = s2
				report("sig:"+mu.name, encoder.Serialize(t), "")
			}
		}
	}
	// block role with a self-made publisher key and s in the window (F12 in the block role)
	for i := 0; i < 2; i++ {
		_, pk2 := g.key()
		blk, err := coin.NewGenesisBlock(cipher.AddressFromPubKey(pk2), 1e6, uint64(g.r.Intn(1<<31)))
		if err != nil {
			return err
		}
		h := blk.HashHeader()
		var sb coin.SignedBlock
		var pk cipher.PubKey
		for {
			_, _, sig := crafted()
			p, err := cipher.PubKeyFromSig(sig, h)
			if err != nil {
				continue
			}
			sb = coin.SignedBlock{Block: *blk, Sig: sig}
			pk = p
			break
		}
		if err := sb.VerifySignature(pk); err != nil {
			continue // the crafted signature is not accepted for this hash: nothing to malleate
		}
		t := sb
		copy(t.Sig[32:64], b32(new(big.Int).Sub(bigN, sOf(sb.Sig))))
		t.Sig[64] ^= 1
		err = t.VerifySignature(pk)
		emit("f12", "nop", []string{"-"}, "-", map[string]interface{}{
			"role": "block", "mutation": "neg-s+recid^1", "accepted": yn(err == nil), "same": "no", "in_window": "yes",
			"original": hx(encoder.Serialize(sb)), "mutated": hx(encoder.Serialize(t)), "pubkey": hx(pk[:]), "check": "SignedBlock.VerifySignature",
		})
		hist.Add("f12:block:neg-s+recid^1:" + yn(err == nil))
	}

	// ---- concurrency: the acceptance checks answer the same from many goroutines at once as sequentially
	//      (run-time check on the implementation; shared scratch state is invisible to the model)
	{
		if runtime.GOMAXPROCS(0) < 4 {
			runtime.GOMAXPROCS(4)
		}
		type job struct {
			addr cipher.Address
			pk   cipher.PubKey
			sig  cipher.Sig
			h    cipher.SHA256
		}
		var jobs []job
		for i := 0; i < 40; i++ {
			sk, pk := g.key()
			var h cipher.SHA256
			copy(h[:], g.r.Bytes(32))
			sig := g.sign(h, sk)
			switch i % 4 {
			case 1:
				sig[64] ^= 1
			case 2:
				copy(sig[32:64], b32(new(big.Int).Sub(bigN, sOf(sig))))
				sig[64] ^= 1
			}
			jobs = append(jobs, job{cipher.AddressFromPubKey(pk), pk, sig, h})
		}
		eval := func(j job) (out string) {
			defer func() {
				if r := recover(); r != nil {
					out = "panic"
				}
			}()
			return errName(cipher.VerifyAddressSignedHash(j.addr, j.sig, j.h)) + "/" + errName(cipher.VerifyPubKeySignedHash(j.pk, j.sig, j.h))
		}
		seq := make([]string, len(jobs))
		for i, j := range jobs {
			seq[i] = eval(j)
		}
		workers, rounds, bad := 12, 5, 0
		for round := 0; round < rounds && bad < 3; round++ {
			res := make([][]string, workers)
			var wg sync.WaitGroup
			for w := 0; w < workers; w++ {
				wg.Add(1)
				go func(w int) {
					defer wg.Done()
					out := make([]string, len(jobs))
					for i := range jobs {
						ji := (i + w*5) % len(jobs)
						out[ji] = eval(jobs[ji])
					}
					res[w] = out
				}(w)
			}
			wg.Wait()
			for w := 0; w < workers && bad < 3; w++ {
				for i := range jobs {
					if res[w][i] != seq[i] {
						bad++
						emit("conc", "nop", []string{"-"}, "-", map[string]interface{}{"role": "signature", "mutation": "none", "accepted": "no", "same": "yes", "in_window": "no",
							"concurrent_equal": "no", "call": "VerifyAddressSignedHash/VerifyPubKeySignedHash sig=" + hx(jobs[i].sig[:]) + " hash=" + hx(jobs[i].h[:]),
							"sequential": seq[i], "concurrent": res[w][i]})
						break
					}
				}
			}
		}
		emit("conc", "nop", []string{"-"}, "-", map[string]interface{}{"role": "signature", "mutation": "none", "accepted": "no", "same": "yes", "in_window": "no",
			"concurrent_equal": yn(bad == 0), "calls": len(jobs), "goroutines": workers, "rounds": rounds})
		hist.Add(fmt.Sprintf("concurrent:%d calls x %d goroutines x %d rounds:mismatches=%d", len(jobs), workers, rounds, bad))
	}

	// ---- block role on real follower / arbitrating nodes (node.go)
	if err := nodeRole(g.r, emit, hist); err != nil {
		return err
	}

	if f.Out == "" {
		return fmt.Errorf("-out required")
	}
	w, err := os.Create(f.Out)
	if err != nil {
		return err
	}
	bw := bufio.NewWriter(w)
	for _, l := range lines {
		fmt.Fprintln(bw, l)
	}
	if err := bw.Flush(); err != nil {
		return err
	}
	w.Close()
	o.Side["cases"] = caseJSON
	o.Side["distribution"] = hist.Sorted()
	o.Side["samples"] = samples
	o.Side["rule"] = "a case is one (object, malleation) pair checked in the same role as the original: signature (VerifyAddressSignedHash / VerifyPubKeySignedHash / VerifySignatureRecoverPubKey), transaction (DeserializeTransaction + Verify + VerifyInputSignatures), block (SignedBlock.VerifySignature + body hash = header's BodyHash); every case is non-trivial (each reaches the acceptance code); distinct = by hash of the case line"
	return o.Write(f.Out+".v", f.JSON)
}
