// Command c16: runs src/cipher/bip39, bip32, bip44 on generated inputs and writes one
// case per line  <group>:<index> <op> <args...> => <observed>  for the extracted Coq model
// of the standards (Model/Bip.v, runner/c16_driver.ml; hashes answered by Python).
package main

import (
	"bufio"
	"encoding/hex"
	"fmt"
	"os"
	"strings"

	. "verif/harness/kit"

	"github.com/skycoin/skycoin/src/cipher/bip32"
	"github.com/skycoin/skycoin/src/cipher/bip39"
	"github.com/skycoin/skycoin/src/cipher/bip44"
)

func hx(b []byte) string {
	if len(b) == 0 {
		return "-"
	}
	return hex.EncodeToString(b)
}
func hs(s string) string { return hx([]byte(s)) }

func err39(err error) string {
	switch err {
	case bip39.ErrInvalidEntropyLength:
		return "ErrInvalidEntropyLength"
	case bip39.ErrChecksumIncorrect:
		return "ErrChecksumIncorrect"
	case bip39.ErrSurroundingWhitespace:
		return "ErrSurroundingWhitespace"
	case bip39.ErrInvalidSeparator:
		return "ErrInvalidSeparator"
	case bip39.ErrUnknownWord:
		return "ErrUnknownWord"
	case bip39.ErrInvalidNumberOfWords:
		return "ErrInvalidNumberOfWords"
	}
	return "Err:" + strings.ReplaceAll(err.Error(), " ", "_")
}

func err32(err error) string {
	if bip32.IsImpossibleChildError(err) {
		return "ErrImpossibleChild"
	}
	switch err {
	case bip32.ErrInvalidSeedLength:
		return "ErrInvalidSeedLength"
	case bip32.ErrDerivedInvalidPrivateKey:
		return "ErrDerivedInvalidPrivateKey"
	case bip32.ErrHardenedChildPublicKey:
		return "ErrHardenedChildPublicKey"
	case bip32.ErrMaxDepthReached:
		return "ErrMaxDepthReached"
	case bip32.ErrSerializedKeyWrongSize:
		return "ErrSerializedKeyWrongSize"
	case bip32.ErrInvalidChecksum:
		return "ErrInvalidChecksum"
	case bip32.ErrInvalidKeyVersion:
		return "ErrInvalidKeyVersion"
	case bip32.ErrInvalidPrivateKeyVersion:
		return "ErrInvalidPrivateKeyVersion"
	case bip32.ErrInvalidPublicKeyVersion:
		return "ErrInvalidPublicKeyVersion"
	case bip32.ErrInvalidFingerprint:
		return "ErrInvalidFingerprint"
	case bip32.ErrInvalidChildNumber:
		return "ErrInvalidChildNumber"
	case bip32.ErrInvalidPrivateKey:
		return "ErrInvalidPrivateKey"
	case bip32.ErrInvalidPublicKey:
		return "ErrInvalidPublicKey"
	case bip32.ErrPathNoMaster:
		return "ErrPathNoMaster"
	case bip32.ErrPathChildMaster:
		return "ErrPathChildMaster"
	case bip32.ErrPathNodeNotNumber:
		return "ErrPathNodeNotNumber"
	case bip32.ErrPathNodeNumberTooLarge:
		return "ErrPathNodeNumberTooLarge"
	case bip44.ErrInvalidCoinType:
		return "ErrInvalidCoinType"
	case bip44.ErrInvalidAccount:
		return "ErrInvalidAccount"
	}
	return "Err:" + strings.ReplaceAll(err.Error(), " ", "_")
}

type gen struct{ r *Rng }

var passphrases = []string{
	"", "TREZOR", "correct horse battery staple", " leading and trailing ",
	"é",                   // e-acute, precomposed (NFKD: e + U+0301)
	"é",                  // already decomposed
	"ﬁ",                   // ligature fi (NFKD: "fi")
	"Ω Å Å",     // Ohm sign, Angstrom sign, A-ring
	"㏍ガバヴァぱばぐゞちぢ十人十色", // from the Japanese BIP39 vectors
	"ẛ̣",             // long s with dot above + dot below (NFKD differs from NFD)
	"pass\U0001f511word",       // emoji
	"\xff\xfe not utf8",        // invalid UTF-8 passes through normalisation unchanged
	"Ǻ",
}

func (g *gen) entropy() []byte {
	sizes := []int{16, 20, 24, 28, 32}
	e := g.r.Bytes(sizes[g.r.Intn(len(sizes))])
	switch g.r.Intn(10) {
	case 0:
		for i := range e {
			e[i] = 0
		}
	case 1:
		for i := range e {
			e[i] = 0xff
		}
	case 2:
		for i := range e {
			e[i] = 0x80
		}
	}
	return e
}

func (g *gen) index() uint32 {
	edges := []uint32{0, 1, 2, 0x7fffffff, 0x80000000, 0x80000001, 0xffffffff, 44 + 0x80000000, 8000 + 0x80000000, 1000000000}
	if g.r.Chance(50) {
		return edges[g.r.Intn(len(edges))]
	}
	return uint32(g.r.U64())
}

// a private extended key somewhere below a random master
func (g *gen) xprv() *bip32.PrivateKey {
	for {
		k, err := bip32.NewMasterKey(g.r.Bytes(16 + g.r.Intn(49)))
		if err != nil {
			continue
		}
		ok := true
		for d := g.r.Intn(5); d > 0; d-- {
			c, err := k.NewPrivateChildKey(g.index())
			if err != nil {
				ok = false
				break
			}
			k = c
		}
		if ok {
			return k
		}
	}
}

// 78 bytes + checksum recomputed through the package (Serialize of a patched key is not
// available for arbitrary fields, so the checksum is copied from a re-serialisation trick:
// the harness patches the body and asks the model / implementation with both the stale and
// a recomputed checksum — the recomputation uses double SHA-256 from the standard library)
func withChecksum(body []byte) []byte {
	return append(append([]byte{}, body...), checksum4(body)...)
}

func main() { Main(run) }

func run(args []string) error {
	f := ParseFlags("c16", args)
	g := &gen{NewRng(f.Seed)}
	n := f.Budget(60, 3000)
	o := NewOut()
	hist := Hist{}
	caseJSON := map[string][]map[string]interface{}{}
	var lines []string
	var samples []map[string]interface{}
	emit := func(group, op string, in []string, observed string, fields map[string]interface{}) {
		idx := len(caseJSON[group])
		line := fmt.Sprintf("%s:%d %s %s => %s", group, idx, op, strings.Join(in, " "), observed)
		lines = append(lines, line)
		m := map[string]interface{}{"op": op, "args": strings.Join(in, " "), "observed": observed}
		for k, v := range fields {
			m[k] = v
		}
		caseJSON[group] = append(caseJSON[group], m)
		o.Count(line, true)
		if len(samples) < 12 && g.r.Intn(n*4+1) < 12 {
			samples = append(samples, m)
		}
	}
	cls := func(s string) string {
		if strings.HasPrefix(s, "Err") || s == "panic" {
			return s
		}
		return "ok"
	}

	words := strings.Fields(func() string { m, _ := bip39.NewMnemonic(make([]byte, 32)); return m }())
	_ = words

	for i := 0; i < n; i++ {
		// ---------------------------------------------------------------- BIP39
		{
			e := g.entropy()
			if g.r.Chance(15) { // invalid sizes
				e = g.r.Bytes([]int{0, 1, 4, 12, 15, 17, 18, 31, 33, 36, 40, 64}[g.r.Intn(12)])
			}
			var m string
			var err error
			obs := ""
			if Guard(func() { m, err = bip39.NewMnemonic(e) }) {
				obs = "panic"
			} else if err != nil {
				obs = err39(err)
			} else {
				obs = hs(m)
			}
			emit("newmn", "newmn", []string{hx(e)}, obs, map[string]interface{}{"bytes": len(e)})
			hist.Add(fmt.Sprintf("newmn:%d:%s", len(e), cls(obs)))
		}
		{
			m, _ := bip39.NewMnemonic(g.entropy())
			ws := strings.Split(m, " ")
			kind := "valid"
			switch g.r.Intn(22) {
			case 0:
				a, b := g.r.Intn(len(ws)), g.r.Intn(len(ws))
				ws[a], ws[b] = ws[b], ws[a]
				m = strings.Join(ws, " ")
				kind = "swap-words"
			case 1, 2:
				other, _ := bip39.NewMnemonic(g.entropy())
				ow := strings.Split(other, " ")
				ws[g.r.Intn(len(ws))] = ow[g.r.Intn(len(ow))]
				m = strings.Join(ws, " ")
				kind = "replace-word"
			case 3:
				ws[g.r.Intn(len(ws))] = []string{"xyzzy", "Abandon", "ABOUT", "abandoné", "zo", "zooo", "a", "abandonabandon"}[g.r.Intn(8)]
				m = strings.Join(ws, " ")
				kind = "unknown-word"
			case 4:
				j := 1 + g.r.Intn(len(ws)-1)
				m = strings.Join(ws[:j], " ") + "  " + strings.Join(ws[j:], " ")
				kind = "double-space"
			case 5:
				m = []string{" ", "\t", "\n", "\r", "\v", "\f", " ", "\u0085", " ", "　", " ", " ", " "}[g.r.Intn(13)] + m
				kind = "leading-space"
			case 6:
				m = m + []string{" ", "\t", "\n", "\r\n", " ", "\u0085", " ", "　", " ", " "}[g.r.Intn(10)]
				kind = "trailing-space"
			case 7:
				m = strings.Join(ws, []string{"\t", "\n", ",", "-", " ", "　"}[g.r.Intn(6)])
				kind = "other-separator"
			case 8:
				m = strings.Join(ws[:len(ws)-1-g.r.Intn(3)], " ")
				kind = "fewer-words"
			case 9:
				m = m + " " + strings.Join(ws[:1+g.r.Intn(3)], " ")
				kind = "more-words"
			case 10:
				m = []string{"", "abandon", "abandon abandon abandon", strings.Repeat("abandon ", 26) + "about"}[g.r.Intn(4)]
				kind = "wrong-count"
			case 11: // the last word replaced: valid with probability 2^-cs
				other, _ := bip39.NewMnemonic(g.entropy())
				ow := strings.Split(other, " ")
				ws[len(ws)-1] = ow[g.r.Intn(len(ow))]
				m = strings.Join(ws, " ")
				kind = "last-word"
			case 12:
				m = strings.ToUpper(m)
				kind = "uppercase"
			case 13:
				m = "​" + m // zero width space: NOT white space for TrimSpace
				kind = "zero-width-space"
			case 14:
				m = strings.Join(ws, " ") + "\xc2" // truncated UTF-8 sequence at the end
				kind = "truncated-utf8"
			}
			var e []byte
			var err error
			obs := ""
			if Guard(func() { e, err = bip39.EntropyFromMnemonic(m) }) {
				obs = "panic"
			} else if err != nil {
				obs = err39(err)
			} else {
				obs = hx(e)
			}
			emit("entmn", "entmn", []string{hs(m)}, obs, map[string]interface{}{"kind": kind, "mnemonic": m})
			hist.Add("entmn:" + kind + ":" + cls(obs))
			if Guard(func() { err = bip39.ValidateMnemonic(m) }) {
				obs = "panic"
			} else if err != nil {
				obs = err39(err)
			} else {
				obs = "ok"
			}
			emit("valmn", "valmn", []string{hs(m)}, obs, map[string]interface{}{"kind": kind, "mnemonic": m})
			// seed
			if i%3 == 0 || kind != "valid" {
				p := passphrases[g.r.Intn(len(passphrases))]
				if g.r.Chance(20) {
					p = string(g.r.Bytes(g.r.Intn(20)))
				}
				var sd []byte
				if Guard(func() { sd, err = bip39.NewSeed(m, p) }) {
					obs = "panic"
				} else if err != nil {
					obs = err39(err)
				} else {
					obs = hx(sd)
				}
				emit("seed", "seed", []string{hs(m), hs(p)}, obs, map[string]interface{}{"kind": kind, "mnemonic": m, "passphrase_hex": hs(p)})
				hist.Add("seed:" + cls(obs))
			}
		}
		// ---------------------------------------------------------------- BIP32
		{
			ln := 16 + g.r.Intn(49)
			if g.r.Chance(25) {
				ln = []int{0, 1, 8, 15, 65, 66, 80, 128}[g.r.Intn(8)]
			}
			seed := g.r.Bytes(ln)
			var k *bip32.PrivateKey
			var err error
			obs := ""
			if Guard(func() { k, err = bip32.NewMasterKey(seed) }) {
				obs = "panic"
			} else if err != nil {
				obs = err32(err)
			} else {
				obs = hx(k.Serialize())
			}
			emit("master", "master", []string{hx(seed)}, obs, map[string]interface{}{"seedlen": ln})
			hist.Add(fmt.Sprintf("master:%s", cls(obs)))
		}
		{
			k := g.xprv()
			idx := g.index()
			var c *bip32.PrivateKey
			var err error
			obs := ""
			if Guard(func() { c, err = k.NewPrivateChildKey(idx) }) {
				obs = "panic"
			} else if err != nil {
				obs = err32(err)
			} else {
				obs = hx(c.Serialize())
			}
			emit("ckdpriv", "ckdpriv", []string{hx(k.Serialize()), fmt.Sprintf("%x", idx)}, obs, map[string]interface{}{"depth": int(k.Depth), "index": idx})
			hist.Add(fmt.Sprintf("ckdpriv:hardened=%v:%s", idx >= 0x80000000, cls(obs)))
			// neuter
			pub := k.PublicKey()
			emit("neuter", "neuter", []string{hx(k.Serialize())}, hx(pub.Serialize()), nil)
			// CKDpub and the commutation N(CKDpriv(k,i)) = CKDpub(N(k),i), decided on the implementation's own outputs
			var pc *bip32.PublicKey
			obs2 := ""
			if Guard(func() { pc, err = pub.NewPublicChildKey(idx) }) {
				obs2 = "panic"
			} else if err != nil {
				obs2 = err32(err)
			} else {
				obs2 = hx(pc.Serialize())
			}
			emit("ckdpub", "ckdpub", []string{hx(pub.Serialize()), fmt.Sprintf("%x", idx)}, obs2, map[string]interface{}{"depth": int(k.Depth), "index": idx})
			hist.Add(fmt.Sprintf("ckdpub:hardened=%v:%s", idx >= 0x80000000, cls(obs2)))
			if idx < 0x80000000 {
				np := "err:" + obs
				if c != nil && obs != "panic" && !strings.HasPrefix(obs, "Err") {
					np = hx(c.PublicKey().Serialize())
				}
				commute := np == obs2 || (strings.HasPrefix(np, "err:ErrImpossibleChild") && obs2 == "ErrImpossibleChild")
				emit("commute", "nop", []string{"-"}, "-", map[string]interface{}{
					"xprv": hx(k.Serialize()), "index": idx, "neuter_of_ckdpriv": np, "ckdpub_of_neuter": obs2, "commutes": map[bool]string{true: "yes", false: "no"}[commute]})
			}
		}
		{ // deserialisation of valid and damaged encodings
			k := g.xprv()
			var b []byte
			private := g.r.Bool()
			if private {
				b = k.Serialize()
			} else {
				b = k.PublicKey().Serialize()
			}
			wantPriv := private
			kind := "valid"
			body := append([]byte{}, b[:78]...)
			fix := true
			switch g.r.Intn(16) {
			case 0:
				b[g.r.Intn(82)] ^= byte(1 << uint(g.r.Intn(8)))
				fix = false
				kind = "flip-stale-checksum"
			case 1:
				body[g.r.Intn(4)] ^= byte(1 << uint(g.r.Intn(8)))
				kind = "version"
			case 2:
				wantPriv = !wantPriv
				kind = "wrong-kind"
			case 3:
				body[4] = 0
				kind = "depth0"
			case 4:
				body[4] = 0
				copy(body[5:9], []byte{0, 0, 0, 0})
				kind = "depth0-fp0"
			case 5:
				body[4] = 0
				copy(body[5:13], make([]byte, 8))
				kind = "depth0-fp0-child0"
			case 6:
				body[45] ^= byte(1 + g.r.Intn(255))
				kind = "key-prefix"
			case 7:
				copy(body[46:78], make([]byte, 32))
				kind = "key-zero"
			case 8:
				for j := 46; j < 78; j++ {
					body[j] = 0xff
				}
				kind = "key-ff"
			case 9:
				body[46+g.r.Intn(32)] ^= byte(1 << uint(g.r.Intn(8)))
				kind = "key-flip"
			case 10:
				b = b[:81-g.r.Intn(3)]
				fix = false
				kind = "short"
			case 11:
				b = append(b, g.r.Bytes(1+g.r.Intn(3))...)
				fix = false
				kind = "long"
			case 12:
				body[4] = 255
				kind = "depth255"
			case 13:
				copy(body[13:45], g.r.Bytes(32))
				kind = "chain"
			}
			if fix && kind != "valid" && kind != "wrong-kind" {
				b = withChecksum(body)
			}
			obs := ""
			var err error
			w := "pub"
			if wantPriv {
				w = "priv"
				var kk *bip32.PrivateKey
				if Guard(func() { kk, err = bip32.DeserializePrivateKey(b) }) {
					obs = "panic"
				} else if err != nil {
					obs = err32(err)
				} else {
					obs = "ok " + hx(kk.Serialize())
				}
			} else {
				var kk *bip32.PublicKey
				if Guard(func() { kk, err = bip32.DeserializePublicKey(b) }) {
					obs = "panic"
				} else if err != nil {
					obs = err32(err)
				} else {
					obs = "ok " + hx(kk.Serialize())
				}
			}
			emit("deser", "deser", []string{w, hx(b)}, obs, map[string]interface{}{"kind": kind})
			hist.Add("deser:" + kind + ":" + cls(strings.Fields(obs + " x")[0]))
			// a depth-255 key cannot have children
			if kind == "depth255" && strings.HasPrefix(obs, "ok") {
				var o2 string
				if wantPriv {
					kk, _ := bip32.DeserializePrivateKey(b)
					_, err := kk.NewPrivateChildKey(g.index())
					o2 = "ok?"
					if err != nil {
						o2 = err32(err)
					}
					emit("ckdpriv", "ckdpriv", []string{hx(b), "1"}, o2, map[string]interface{}{"depth": 255})
				}
			}
		}
		{ // paths
			fixed := []string{"m", "m/0", "m/0'", "m/0'/1/2'/2/1000000000", "m/44'/8000'/0'/0/5", "", "m/", "/m", "/", "n/0", "m/m", "m/0/m", "mm", "m'", "m/0''", "m/'", "m/-1", "m/+1",
				"m/2147483647", "m/2147483647'", "m/2147483648", "m/2147483648'", "m/4294967295", "m/4294967296", "m/99999999999999999999", "m/0x10", "m/1e3", "m/ 1", "m/1 ", "m//1", "M/0", "m/0h", "m/0H",
				"m/007", "m/0'/", "m/１", "m/1_000", "m/00000000000000000000000000000000000000001", "m/1'/2'/3'/4'/5'/6'/7'/8'/9'/10'", "m\\0", "m/0\x00", "m/١"}
			p := fixed[g.r.Intn(len(fixed))]
			if g.r.Chance(40) {
				parts := []string{"m"}
				for d := g.r.Intn(7); d > 0; d-- {
					v := g.index() & 0x7fffffff
					s := fmt.Sprint(v)
					if g.r.Chance(40) {
						s += "'"
					}
					parts = append(parts, s)
				}
				p = strings.Join(parts, "/")
			}
			obs := ""
			var pp *bip32.Path
			var err error
			if Guard(func() { pp, err = bip32.ParsePath(p) }) {
				obs = "panic"
			} else if err != nil {
				obs = err32(err)
			} else {
				s := "m"
				for _, e := range pp.Elements[1:] {
					s += fmt.Sprintf("/%d", e.ChildNumber)
				}
				if !pp.Elements[0].Master {
					s = "NOMASTER" + s
				}
				obs = s
			}
			emit("path", "path", []string{hs(p)}, obs, map[string]interface{}{"path": p})
			hist.Add("path:" + cls(obs))
			// derivation along a path
			seed := g.r.Bytes(16 + g.r.Intn(49))
			var k *bip32.PrivateKey
			if Guard(func() { k, err = bip32.NewPrivateKeyFromPath(seed, p) }) {
				obs = "panic"
			} else if err != nil {
				obs = err32(err)
			} else {
				obs = hx(k.Serialize())
			}
			emit("frompath", "frompath", []string{hx(seed), hs(p)}, obs, map[string]interface{}{"path": p})
			if pp != nil && len(pp.Elements) > 1 && i%4 == 0 { // model self-consistency: print then parse
				var nums []string
				for _, e := range pp.Elements[1:] {
					nums = append(nums, fmt.Sprintf("%x", e.ChildNumber))
				}
				emit("pathrt", "pathrt", nums, "1", nil)
			}
		}
		// ---------------------------------------------------------------- BIP44
		if i%2 == 0 {
			seed := g.r.Bytes(16 + g.r.Intn(49))
			coins := []uint32{0, 1, 8000, 0x7fffffff, 0x80000000, 0xffffffff, uint32(g.r.Intn(100000))}
			accts := []uint32{0, 1, 2, 0x7fffffff, 0x80000000, 0xffffffff, uint32(g.r.Intn(1000))}
			coin, acct := coins[g.r.Intn(len(coins))], accts[g.r.Intn(len(accts))]
			obs := ""
			if Guard(func() {
				c, err := bip44.NewCoin(seed, bip44.CoinType(coin))
				if err != nil {
					obs = "coin:" + err32(err)
					return
				}
				a, err := c.Account(acct)
				if err != nil {
					obs = hx(c.Serialize()) + " account:" + err32(err)
					return
				}
				part := func(k *bip32.PrivateKey, err error) string {
					if err != nil {
						return err32(err)
					}
					return hx(k.Serialize())
				}
				obs = strings.Join([]string{hx(c.Serialize()), hx(a.Serialize()), part(a.External()), part(a.Change())}, " ")
			}) {
				obs = "panic"
			}
			emit("bip44", "bip44", []string{hx(seed), fmt.Sprintf("%x", coin), fmt.Sprintf("%x", acct)}, obs, map[string]interface{}{"coin": coin, "account": acct})
			hist.Add("bip44:" + cls(strings.Split(obs, ":")[len(strings.Split(obs, ":"))-1]))
		}
	}

	// ---- "inputs unchanged": no bip32 / bip39 call may modify its arguments, its receiver, or the buffer a key
	//      was deserialised from (run-time check on the implementation; aliasing is invisible to the model).
	//      Two different children are derived from the SAME deserialised parent and each is compared with the model.
	{
		same := func(a, b []byte) string {
			if hx(a) == hx(b) {
				return "yes"
			}
			return "no"
		}
		alias := func(what string, before, after []byte, extra map[string]interface{}) {
			m := map[string]interface{}{"call": what, "unchanged": same(before, after), "before": hx(before), "after": hx(after)}
			for k, v := range extra {
				m[k] = v
			}
			emit("alias", "nop", []string{"-"}, "-", m)
			hist.Add("alias:" + what + ":unchanged=" + same(before, after))
		}
		rounds := 6 + n/10
		for j := 0; j < rounds; j++ {
			k := g.xprv()
			i1, i2 := g.index()&0x7fffffff, g.index()&0x7fffffff
			// --- public key deserialised from a buffer the harness keeps
			for _, how := range []string{"DeserializePublicKey", "DeserializeEncodedPublicKey", "Clone", "PublicKey()"} {
				buf := k.PublicKey().Serialize()
				snap := append([]byte{}, buf...)
				var pk *bip32.PublicKey
				var err error
				switch how {
				case "DeserializePublicKey":
					pk, err = bip32.DeserializePublicKey(buf)
				case "DeserializeEncodedPublicKey":
					pk, err = bip32.DeserializeEncodedPublicKey(k.PublicKey().String())
				case "Clone":
					var p0 *bip32.PublicKey
					p0, err = bip32.DeserializePublicKey(buf)
					if err == nil {
						c := p0.Clone()
						pk = &c
					}
				default:
					pk = k.PublicKey()
				}
				if err != nil {
					return fmt.Errorf("%s of a serialised key failed: %v", how, err)
				}
				for _, idx := range []uint32{i1, i2} {
					recv := pk.Serialize()
					var c *bip32.PublicKey
					obs := ""
					if Guard(func() { c, err = pk.NewPublicChildKey(idx) }) {
						obs = "panic"
					} else if err != nil {
						obs = err32(err)
					} else {
						obs = hx(c.Serialize())
					}
					// model comparison against the ORIGINAL serialisation: a parent damaged by the first call gives a wrong second child
					emit("ckdpub", "ckdpub", []string{hx(snap), fmt.Sprintf("%x", idx)}, obs, map[string]interface{}{"via": how, "index": idx})
					alias(how+"+NewPublicChildKey: receiver", recv, pk.Serialize(), map[string]interface{}{"index": idx})
					alias(how+"+NewPublicChildKey: source buffer", snap, buf, map[string]interface{}{"index": idx})
					if how == "DeserializePublicKey" {
						_, e2 := bip32.DeserializePublicKey(buf)
						ok := "yes"
						if e2 != nil {
							ok = "no"
						}
						emit("alias", "nop", []string{"-"}, "-", map[string]interface{}{"call": "re-deserialise the kept buffer after NewPublicChildKey", "unchanged": ok, "before": hx(snap), "after": hx(buf)})
					}
				}
			}
			// --- private key deserialised from a kept buffer
			{
				buf := k.Serialize()
				snap := append([]byte{}, buf...)
				sk, err := bip32.DeserializePrivateKey(buf)
				if err != nil {
					return err
				}
				for _, idx := range []uint32{i1, i2 | 0x80000000} {
					recv := sk.Serialize()
					var c *bip32.PrivateKey
					obs := ""
					if Guard(func() { c, err = sk.NewPrivateChildKey(idx) }) {
						obs = "panic"
					} else if err != nil {
						obs = err32(err)
					} else {
						obs = hx(c.Serialize())
					}
					emit("ckdpriv", "ckdpriv", []string{hx(snap), fmt.Sprintf("%x", idx)}, obs, map[string]interface{}{"via": "DeserializePrivateKey", "index": idx})
					alias("NewPrivateChildKey: receiver", recv, sk.Serialize(), nil)
					alias("NewPrivateChildKey: source buffer", snap, buf, nil)
					pb := sk.PublicKey().Serialize()
					alias("PublicKey(): receiver", recv, sk.Serialize(), nil)
					_ = pb
				}
			}
			// --- byte-slice arguments
			{
				seed := g.r.Bytes(16 + g.r.Intn(49))
				snap := append([]byte{}, seed...)
				bip32.NewMasterKey(seed)                      //nolint:errcheck
				bip32.NewPrivateKeyFromPath(seed, "m/0'/1/2") //nolint:errcheck
				bip44.NewCoin(seed, bip44.CoinTypeSkycoin)    //nolint:errcheck
				alias("NewMasterKey/NewPrivateKeyFromPath/NewCoin: seed", snap, seed, nil)
				e := g.entropy()
				esnap := append([]byte{}, e...)
				mn, _ := bip39.NewMnemonic(e)
				alias("NewMnemonic: entropy", esnap, e, nil)
				e2, _ := bip39.EntropyFromMnemonic(mn)
				alias("EntropyFromMnemonic(NewMnemonic(e)) = e", esnap, e2, nil)
				ser := k.Serialize()
				ssnap := append([]byte{}, ser...)
				bip32.DeserializePrivateKey(ser) //nolint:errcheck
				bip32.DeserializePublicKey(ser)  //nolint:errcheck
				alias("Deserialize*: data", ssnap, ser, nil)
			}
		}
	}

	// ---- every exported derivation entry point of bip32 / bip44 over BOTH index classes (normal and hardened):
	//      private->private, private->public (N o CKDpriv, hardened allowed), public->public (hardened must fail),
	//      DeriveSubpath, path based, and the fingerprint / identifier accessors through the serialisation
	{
		rounds := 10 + n/6
		for j := 0; j < rounds; j++ {
			k := g.xprv()
			base := g.index() & 0x7fffffff
			for _, idx := range []uint32{base, base | 0x80000000, 0, 0x80000000, 0x7fffffff, 0xffffffff}[:2+2*(j%3)] {
				ser := hx(k.Serialize())
				ix := fmt.Sprintf("%x", idx)
				res := func(s []byte, err error, pan bool) string {
					if pan {
						return "panic"
					}
					if err != nil {
						return err32(err)
					}
					return hx(s)
				}
				{
					var c *bip32.PrivateKey
					var err error
					pan := Guard(func() { c, err = k.NewPrivateChildKey(idx) })
					var b []byte
					if c != nil && err == nil {
						b = c.Serialize()
					}
					emit("entry", "ckdpriv", []string{ser, ix}, res(b, err, pan), map[string]interface{}{"entry": "PrivateKey.NewPrivateChildKey", "index": idx})
				}
				{
					var c *bip32.PublicKey
					var err error
					pan := Guard(func() { c, err = k.NewPublicChildKey(idx) })
					var b []byte
					if c != nil && err == nil {
						b = c.Serialize()
					}
					emit("entry", "ckdprivpub", []string{ser, ix}, res(b, err, pan), map[string]interface{}{"entry": "PrivateKey.NewPublicChildKey", "index": idx})
					hist.Add(fmt.Sprintf("entry:PrivateKey.NewPublicChildKey:hardened=%v", idx >= 0x80000000))
				}
				{
					pub := k.PublicKey()
					var c *bip32.PublicKey
					var err error
					pan := Guard(func() { c, err = pub.NewPublicChildKey(idx) })
					var b []byte
					if c != nil && err == nil {
						b = c.Serialize()
					}
					emit("entry", "ckdpub", []string{hx(pub.Serialize()), ix}, res(b, err, pan), map[string]interface{}{"entry": "PublicKey.NewPublicChildKey", "index": idx})
				}
				{ // DeriveSubpath with one and two nodes = iterated CKDpriv
					idx2 := g.index()
					var c *bip32.PrivateKey
					var err error
					pan := Guard(func() { c, err = k.DeriveSubpath([]bip32.PathNode{{ChildNumber: idx}, {ChildNumber: idx2}}) })
					obs := ""
					if pan {
						obs = "panic"
					} else if err != nil {
						obs = err32(err)
					} else {
						obs = hx(c.Serialize())
					}
					// model: two ckdpriv steps; the first step's result is taken from the implementation's own single step
					if c1, e1 := k.NewPrivateChildKey(idx); e1 == nil {
						emit("entry", "ckdpriv", []string{hx(c1.Serialize()), fmt.Sprintf("%x", idx2)}, obs, map[string]interface{}{"entry": "PrivateKey.DeriveSubpath (second node)", "index": idx2})
					}
				}
			}
			// path-based entry point with hardened and normal nodes mixed
			seed := g.r.Bytes(16 + g.r.Intn(49))
			p := fmt.Sprintf("m/%d'/%d/%d'/%d", base, base, g.index()&0x7fffffff, g.index()&0x7fffffff)
			kk, err := bip32.NewPrivateKeyFromPath(seed, p)
			obs := ""
			if err != nil {
				obs = err32(err)
			} else {
				obs = hx(kk.Serialize())
			}
			emit("entry", "frompath", []string{hx(seed), hs(p)}, obs, map[string]interface{}{"entry": "NewPrivateKeyFromPath", "path": p})
		}
	}

	// ---- history: consecutive calls with RELATED inputs, and each call repeated after a different one.  The model is
	//      pure, so every call is compared with the model's answer for that call alone (caches / memo tables keyed
	//      on an ambiguous encoding of the arguments show up as a wrong answer for the second call).
	{
		seedCall := func(m, p string) {
			var sd []byte
			var err error
			obs := ""
			if Guard(func() { sd, err = bip39.NewSeed(m, p) }) {
				obs = "panic"
			} else if err != nil {
				obs = err39(err)
			} else {
				obs = hx(sd)
			}
			emit("hist", "seed", []string{hs(m), hs(p)}, obs, map[string]interface{}{"kind": "history", "mnemonic": m, "passphrase_hex": hs(p)})
		}
		// a valid mnemonic whose first `short` words are a valid mnemonic too
		nested := func(long, short int) (string, string, string) {
			for {
				m, _ := bip39.NewMnemonic(g.r.Bytes(long / 3 * 4))
				ws := strings.Split(m, " ")
				pre := strings.Join(ws[:short], " ")
				if bip39.ValidateMnemonic(pre) == nil {
					return m, pre, " " + strings.Join(ws[short:], " ")
				}
			}
		}
		rounds := 2 + n/60
		for j := 0; j < rounds; j++ {
			for _, pair := range [][2]int{{15, 12}, {18, 15}, {18, 12}, {24, 21}, {21, 18}} {
				if pair[0]-pair[1] > 3 && j%2 == 1 {
					continue // 2^-9 search, every other round
				}
				long, pre, rest := nested(pair[0], pair[1])
				// the same concatenation split differently between mnemonic and passphrase, both orders, then repeated
				seedCall(long, "")
				seedCall(pre, rest)
				seedCall(long, "")
				seedCall(pre, rest)
				seedCall(long, rest)
				seedCall(pre, "")
				seedCall(pre, rest[1:])
				seedCall(pre, rest)
			}
			// same mnemonic, different passphrases, and back
			m, _ := bip39.NewMnemonic(g.entropy())
			for _, p := range []string{"", "a", "", "b", "a", "a ", " a", "a", "mnemonic", "", m, ""} {
				seedCall(m, p)
			}
			m2, _ := bip39.NewMnemonic(g.entropy())
			seedCall(m2, "a")
			seedCall(m, "a")
			seedCall(m2, "a")
			// mnemonic round trips interleaved
			for _, mm := range []string{m, m2, m, m2} {
				e, err := bip39.EntropyFromMnemonic(mm)
				obs := hx(e)
				if err != nil {
					obs = err39(err)
				}
				emit("hist", "entmn", []string{hs(mm)}, obs, map[string]interface{}{"kind": "history"})
				if err == nil {
					back, err2 := bip39.NewMnemonic(e)
					obs = hs(back)
					if err2 != nil {
						obs = err39(err2)
					}
					emit("hist", "newmn", []string{hx(e)}, obs, map[string]interface{}{"kind": "history"})
				}
			}
			// bip32: same path on different seeds, same seed with different paths, hardened / non-hardened twins, repeats
			s1, s2 := g.r.Bytes(32), g.r.Bytes(32)
			idx := g.index() & 0x7fffffff
			paths := []string{"m", fmt.Sprintf("m/%d", idx), fmt.Sprintf("m/%d'", idx), fmt.Sprintf("m/%d", idx), "m/0/1", "m/0'/1", "m/0/1'", "m/0/1", "m/01", "m/0/1"}
			for pi, p := range paths {
				for _, sd := range [][]byte{s1, s2, s1} {
					if pi%3 == 2 && hx(sd) == hx(s2) {
						continue
					}
					k, err := bip32.NewPrivateKeyFromPath(sd, p)
					obs := ""
					if err != nil {
						obs = err32(err)
					} else {
						obs = hx(k.Serialize())
					}
					emit("hist", "frompath", []string{hx(sd), hs(p)}, obs, map[string]interface{}{"kind": "history", "path": p})
				}
			}
			ka, kb := g.xprv(), g.xprv()
			for _, step := range []struct {
				k *bip32.PrivateKey
				i uint32
			}{{ka, idx}, {kb, idx}, {ka, idx}, {ka, idx | 0x80000000}, {ka, idx}, {kb, idx | 0x80000000}, {ka, idx + 1}, {ka, idx}} {
				c, err := step.k.NewPrivateChildKey(step.i)
				obs := ""
				if err != nil {
					obs = err32(err)
				} else {
					obs = hx(c.Serialize())
				}
				emit("hist", "ckdpriv", []string{hx(step.k.Serialize()), fmt.Sprintf("%x", step.i)}, obs, map[string]interface{}{"kind": "history", "index": step.i})
				if step.i < 0x80000000 {
					pc, err := step.k.PublicKey().NewPublicChildKey(step.i)
					obs = ""
					if err != nil {
						obs = err32(err)
					} else {
						obs = hx(pc.Serialize())
					}
					emit("hist", "ckdpub", []string{hx(step.k.PublicKey().Serialize()), fmt.Sprintf("%x", step.i)}, obs, map[string]interface{}{"kind": "history", "index": step.i})
				}
			}
			// bip44 coin / account twins
			for _, ca := range [][2]uint32{{8000, 0}, {8000, 1}, {8000, 0}, {0, 0}, {8000, 0}} {
				obs := ""
				c, err := bip44.NewCoin(s1, bip44.CoinType(ca[0]))
				if err != nil {
					obs = "coin:" + err32(err)
				} else if a, err := c.Account(ca[1]); err != nil {
					obs = hx(c.Serialize()) + " account:" + err32(err)
				} else {
					part := func(k *bip32.PrivateKey, err error) string {
						if err != nil {
							return err32(err)
						}
						return hx(k.Serialize())
					}
					obs = strings.Join([]string{hx(c.Serialize()), hx(a.Serialize()), part(a.External()), part(a.Change())}, " ")
				}
				emit("hist", "bip44", []string{hx(s1), fmt.Sprintf("%x", ca[0]), fmt.Sprintf("%x", ca[1])}, obs, map[string]interface{}{"kind": "history"})
			}
		}
		hist.Add(fmt.Sprintf("history=%d", len(caseJSON["hist"])))
	}

	// ---- deterministic sweep over code-point classes of the passphrase (and of an invalid mnemonic):
	//      the expected seed is PBKDF2 over the NFKD forms, computed by Python (unicodedata + hashlib)
	{
		classes := []string{
			// ASCII only
			"", "a", "password", "TREZOR", "~!@#$%^&*()_+ \t",
			// Latin-1 (<= U+00FF) characters that are NOT stable under NFKD
			"\u00a0", "\u00aa", "\u00b2", "\u00b3", "\u00b5", "\u00b9", "\u00ba", "\u00bc", "\u00bd", "\u00be", "\u00a8", "\u00af", "\u00b4", "\u00b8",
			"\u00c0", "\u00c9", "\u00d1", "\u00d6", "\u00dc", "\u00e0", "\u00e9", "\u00f1", "\u00f6", "\u00fc", "\u00ff", "\u00c5", "\u00e7",
			"caf\u00e9", "na\u00efve \u00bd", "x\u00b2+y\u00b2", "M\u00fcnchen \u00a0 Stra\u00dfe",
			// Latin-1 characters that ARE stable
			"\u00df", "\u00e6", "\u00f8", "\u00d7", "\u00a9\u00ae",
			// precomposed vs decomposed pairs
			"e\u0301", "o\u0308", "A\u030a", "n\u0303", "\u1e9b\u0323", "\u1e9b", "s\u0323\u0307", "\u01fa", "A\u030a\u0301",
			// compatibility characters above U+00FF
			"\ufb01", "\u2460", "\uff21\uff22\uff23", "\u2126", "\u212b", "\u3392", "\u2075", "\u210c", "\u2163", "\ufdfa", "\uff76\uff9e",
			// Hangul, kana, CJK, emoji
			"\ud55c\uae00", "\u1112\u1161\u11ab", "\u30ac", "\u30ab\u3099", "\u5341\u4eba\u5341\u8272", "\U0001f511",
			// mixtures
			"pass\u00e9\ufb01\u2460word", "\u00bd\u2126", "\u00e9\U0001f511", "a\u00a0b\u3000c", "\u00c5\u212b\u0041\u030a",
			// not UTF-8
			"\xe9", "\xc3", "ab\xff\u00e9",
		}
		mn, _ := bip39.NewMnemonic(make([]byte, 16))
		mn2, _ := bip39.NewMnemonic(g.entropy())
		for ci, p := range classes {
			m := mn
			if ci%2 == 1 {
				m = mn2
			}
			var sd []byte
			var err error
			obs := ""
			if Guard(func() { sd, err = bip39.NewSeed(m, p) }) {
				obs = "panic"
			} else if err != nil {
				obs = err39(err)
			} else {
				obs = hx(sd)
			}
			emit("seedclass", "seed", []string{hs(m), hs(p)}, obs, map[string]interface{}{"kind": "passphrase-class", "mnemonic": m, "passphrase_hex": hs(p)})
		}
		hist.Add(fmt.Sprintf("seedclass=%d", len(classes)))
	}

	if f.Out == "" {
		return fmt.Errorf("-out required")
	}
	w, err := os.Create(f.Out)
	if err != nil {
		return err
	}
	bw := bufio.NewWriter(w)
	for _, l := range lines {
		fmt.Fprintln(bw, l)
	}
	if err := bw.Flush(); err != nil {
		return err
	}
	w.Close()
	// the implementation's word list, compared with the regenerated Gen/Bip39Words.v by the driver
	o.Side["wordlist_sha256"] = wordlistDigest()
	o.Side["cases"] = caseJSON
	o.Side["distribution"] = hist.Sorted()
	o.Side["samples"] = samples
	o.Side["rule"] = "a case is one call of a public function of bip39 (NewMnemonic, EntropyFromMnemonic, ValidateMnemonic, NewSeed), bip32 (NewMasterKey, NewPrivateChildKey, PublicKey, NewPublicChildKey, Deserialize*, ParsePath, NewPrivateKeyFromPath) or bip44 (NewCoin, Account, External, Change) on a generated input; all reach the code under test; distinct = by hash of the case line"
	return o.Write(f.Out+".v", f.JSON)
}
