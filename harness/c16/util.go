package main

import (
	"crypto/sha256"
	"encoding/hex"
	"strings"

	"github.com/skycoin/skycoin/src/cipher/bip39/wordlists"
)

// first 4 bytes of SHA256(SHA256(body)) — the standard extended-key checksum, computed with
// the Go standard library (used only to build damaged-but-checksummed inputs)
func checksum4(body []byte) []byte {
	h1 := sha256.Sum256(body)
	h2 := sha256.Sum256(h1[:])
	return h2[:4]
}

// digest of the word list the implementation actually uses (one word per line)
func wordlistDigest() string {
	h := sha256.Sum256([]byte(strings.Join(wordlists.English, "\n")))
	return hex.EncodeToString(h[:])
}
