// Command c21: three-way comparison of the skyencoder-generated codecs, the
// reflection-based reference encoder and (in Coq) the generic codec model, for
// every type that has a generated codec (property C21).
package main

import (
	"bytes"
	"fmt"
	"reflect"
	"sort"
	"strings"

	"github.com/skycoin/skycoin/src/cipher/encoder"
	"github.com/skycoin/skycoin/src/coin"
	"github.com/skycoin/skycoin/src/daemon"
	"github.com/skycoin/skycoin/src/visor"
	"github.com/skycoin/skycoin/src/visor/blockdb"
	"github.com/skycoin/skycoin/src/visor/historydb"

	. "verif/harness/kit"
)

type codec = struct {
	New         func() interface{}
	Size        func(obj interface{}) uint64
	Encode      func(obj interface{}) ([]byte, error)
	Decode      func(buf []byte, obj interface{}) (uint64, error)
	DecodeExact func(buf []byte, obj interface{}) error
}

type entry struct {
	key string
	c   codec
}

func registry() []entry {
	var es []entry
	add := func(pkg string, m map[string]codec) {
		for k, c := range m {
			es = append(es, entry{pkg + "." + k, c})
		}
	}
	add("coin", coin.VerifCodecs)
	add("daemon", daemon.VerifCodecs)
	add("visor", visor.VerifCodecs)
	add("blockdb", blockdb.VerifCodecs)
	add("historydb", historydb.VerifCodecs)
	sort.Slice(es, func(i, j int) bool { return es[i].key < es[j].key })
	return es
}

func main() { Main(run) }

// ---- reflection helpers mirroring encoder.go's view of a value

func encField(t reflect.Type, i int) (use bool, maxlen int, omit bool) {
	ff := t.Field(i)
	if ff.PkgPath != "" || ff.Name == "_" {
		return false, 0, false
	}
	tag := ff.Tag.Get("enc")
	if len(tag) > 0 && tag[0] == '-' {
		return false, 0, false
	}
	return true, encoder.TagMaxLen(tag), encoder.TagOmitempty(tag)
}

// toVal prints the Coq `val` of a Go value.
func toVal(v reflect.Value) string {
	switch v.Kind() {
	case reflect.Uint8, reflect.Uint16, reflect.Uint32, reflect.Uint64:
		return fmt.Sprintf("VInt %d", v.Uint())
	case reflect.Int8, reflect.Int16, reflect.Int32, reflect.Int64:
		return "VInt " + ZI(v.Int())
	case reflect.Bool:
		return "VBool " + B(v.Bool())
	case reflect.String:
		return VBytes([]byte(v.String()))
	case reflect.Array, reflect.Slice:
		if v.Type().Elem().Kind() == reflect.Uint8 {
			b := make([]byte, v.Len())
			for i := range b {
				b[i] = byte(v.Index(i).Uint())
			}
			return VBytes(b)
		}
		it := make([]string, v.Len())
		for i := range it {
			it[i] = toVal(v.Index(i))
		}
		return "VList " + List(it)
	case reflect.Struct:
		var it []string
		t := v.Type()
		for i := 0; i < t.NumField(); i++ {
			if use, _, _ := encField(t, i); use {
				it = append(it, toVal(v.Field(i)))
			}
		}
		return "VList " + List(it)
	}
	panic("toVal: unsupported kind " + v.Kind().String())
}

type gen struct {
	r      *Rng
	maxEl  int // cap on slice lengths at nesting depth >= 1
	bigTop bool
	fixed  []int // when set: the slice length at each nesting depth (0 beyond)
}

// fill sets v to a random value. depth = slice nesting depth.
func (g *gen) fill(v reflect.Value, maxlen int, depth int) {
	r := g.r
	switch v.Kind() {
	case reflect.Uint8, reflect.Uint16, reflect.Uint32, reflect.Uint64:
		x := r.U64Edge()
		if v.Kind() == reflect.Uint8 && r.Chance(70) {
			x = r.U64()
		}
		v.SetUint(x & (^uint64(0) >> (64 - uint(v.Type().Bits()))))
	case reflect.Int8, reflect.Int16, reflect.Int32, reflect.Int64:
		x := int64(r.U64Edge())
		sh := 64 - uint(v.Type().Bits())
		v.SetInt((x << sh) >> sh)
	case reflect.Bool:
		v.SetBool(r.Bool())
	case reflect.String:
		n := r.Intn(6)
		v.SetString(string(r.Bytes(n)))
	case reflect.Array:
		for i := 0; i < v.Len(); i++ {
			g.fill(v.Index(i), 0, depth)
		}
	case reflect.Slice:
		n := 0
		switch r.Intn(8) {
		case 0:
			n = 0
		case 1:
			n = 1
		default:
			n = r.Intn(g.maxEl + 1)
		}
		if g.fixed != nil {
			n = 0
			if depth < len(g.fixed) {
				n = g.fixed[depth]
			}
			if maxlen > 0 && n > maxlen {
				n = maxlen
			}
		}
		if depth == 0 && g.bigTop && maxlen > 0 && maxlen <= 600 {
			// boundary lengths around maxlen for small limits
			n = maxlen - 1 + r.Intn(3)
		}
		if n == 0 && g.fixed == nil && r.Bool() {
			v.Set(reflect.Zero(v.Type())) // nil slice
			return
		}
		s := reflect.MakeSlice(v.Type(), n, n)
		sub := *g
		if n > 8 {
			sub.maxEl = 0 // keep big boundary slices cheap: empty inner slices
		}
		for i := 0; i < n; i++ {
			sub.fill(s.Index(i), 0, depth+1)
		}
		v.Set(s)
	case reflect.Struct:
		t := v.Type()
		for i := 0; i < t.NumField(); i++ {
			if use, ml, _ := encField(t, i); use {
				g.fill(v.Field(i), ml, depth)
			}
		}
	default:
		panic("fill: unsupported kind " + v.Kind().String())
	}
}

func errKind(err error) string {
	switch err {
	case nil:
		return ""
	case encoder.ErrBufferUnderflow:
		return "EUnderflow"
	case encoder.ErrMaxLenExceeded:
		return "EMaxLen"
	case encoder.ErrInvalidBool:
		return "EInvalidBool"
	case encoder.ErrRemainingBytes:
		return "ERemaining"
	}
	if strings.Contains(err.Error(), "exceeds math.MaxUint32") {
		return "ELen32"
	}
	return "EOther"
}

func cresBytes(panicked bool, b []byte, err error) string {
	if panicked {
		return "(CErr EPanic)"
	}
	if err != nil {
		return "(CErr " + errKind(err) + ")"
	}
	return "(COk " + BytesZ(b) + ")"
}

func cresDec(panicked bool, obj interface{}, n uint64, total int, err error) string {
	if panicked {
		return "(CErr EPanic)"
	}
	if err != nil {
		return "(CErr " + errKind(err) + ")"
	}
	return fmt.Sprintf("(COk (%s, %d))", topVal(obj), uint64(total)-n)
}

// topVal prints a top-level object: the struct's fields, the omitempty tail last.
func topVal(obj interface{}) string {
	return toVal(reflect.ValueOf(obj).Elem())
}

func run(args []string) error {
	f := ParseFlags("c21", args)
	if f.Extra == "big" {
		return runBig(f)
	}
	r := NewRng(f.Seed)
	perType := f.Budget(3, 40)
	o := NewOut()
	hist := Hist{}
	reg := registry()
	var encCases, decCases []string
	var encJSON, decJSON []map[string]interface{}
	var samples []map[string]interface{}
	names := []string{}
	for _, e := range reg {
		names = append(names, Str(e.key))
	}
	hexs := func(b []byte) string { return fmt.Sprintf("%x", b) }

	// the two decoders must also agree when they decode into objects that an EARLIER
	// decode has filled (same bytes into objects in the same state)
	var reuseCases []string
	var reuseJSON []map[string]interface{}
	usedG := map[int]interface{}{}
	usedR := map[int]interface{}{}
	addReuse := func(idx int, e entry, bs []byte, freshG, freshR interface{}, errG, errR error) {
		if errG != nil || errR != nil {
			return
		}
		dg, okg := usedG[idx]
		dr, okr := usedR[idx]
		if okg && okr {
			var e1, e2 error
			p1 := Guard(func() { _, e1 = e.c.Decode(bs, dg) })
			p2 := Guard(func() { _, e2 = encoder.DeserializeRaw(bs, dr) })
			// the property is AGREEMENT of the two decoders (both were given objects in
			// the same state); whether a used object ends up equal to a fresh one is
			// recorded as an observation only (on the unchanged tree a zero count leaves
			// the old slice in place in BOTH decoders)
			gOK := !p1 && !p2 && errKind(e1) == errKind(e2)
			rOK := gOK && topVal(dg) == topVal(dr)
			fresh := topVal(dg) == topVal(freshG) && topVal(dr) == topVal(freshR)
			reuseCases = append(reuseCases, Tuple(fmt.Sprintf("%d%%nat", idx), B(gOK), B(rOK)))
			reuseJSON = append(reuseJSON, map[string]interface{}{"type": e.key, "bytes": hexs(bs), "same_failure_kind": gOK, "same_value": rOK, "observation_equal_to_fresh_decode": fresh})
			hist.Add(fmt.Sprintf("reuse:equal-to-fresh=%v", fresh))
			if !gOK || !rOK {
				// do not keep a corrupted object for the next round
				delete(usedG, idx)
				delete(usedR, idx)
				return
			}
		} else {
			usedG[idx], usedR[idx] = freshG, freshR
		}
	}

	addDec := func(idx int, e entry, bs []byte, kind string) {
		// generated decoder
		objG := e.c.New()
		var nG uint64
		var errG error
		pG := Guard(func() { nG, errG = e.c.Decode(bs, objG) })
		// reference decoder
		objR := e.c.New()
		var nR uint64
		var errR error
		pR := Guard(func() { nR, errR = encoder.DeserializeRaw(bs, objR) })
		// exact decode + re-encode (canonicity)
		objX := e.c.New()
		var errX error
		pX := Guard(func() { errX = e.c.DecodeExact(bs, objX) })
		exact := "(CErr EPanic)"
		reenc := "None"
		shape := ""
		if !pX {
			if errX != nil {
				exact = "(CErr " + errKind(errX) + ")"
			} else {
				exact = "(COk tt)"
				if topVal(objX) != topVal(objG) {
					exact = "(CErr EOther)" // exact decode produced another value than plain decode
				}
				var rb []byte
				var rerr error
				pr := Guard(func() { rb, rerr = e.c.Encode(objX) })
				if pr || rerr != nil || !bytes.Equal(rb, bs) {
					reenc = "(Some " + cresBytes(pr, rb, rerr) + ")"
					if !pr && rerr == nil && len(bs) >= 4 && bytes.Equal(rb, bs[:len(bs)-4]) && bytes.Equal(bs[len(bs)-4:], []byte{0, 0, 0, 0}) {
						shape = "omitempty-explicit-zero-count"
					}
				}
			}
		}
		genS := cresDec(pG, objG, nG, len(bs), errG)
		refS := cresDec(pR, objR, nR, len(bs), errR)
		if !pG && !pR && len(bs) <= 2000 {
			addReuse(idx, e, bs, objG, objR, errG, errR)
		}
		refOpt := "None" // None = printed identically to the generated decoder's result
		if refS != genS {
			refOpt = "(Some " + refS + ")"
		}
		decCases = append(decCases, Tuple(fmt.Sprintf("%d%%nat", idx), BytesZ(bs), genS, refOpt, exact, reenc))
		decJSON = append(decJSON, map[string]interface{}{"type": e.key, "bytes": hexs(bs), "kind": kind,
			"gen_err": errKind(errG), "ref_err": errKind(errR), "exact_err": errKind(errX), "gen_panic": pG, "ref_panic": pR, "shape": shape})
		cls := "ok"
		if pG || pR {
			cls = "panic"
		} else if errG != nil {
			cls = errKind(errG)
		}
		hist.Add("dec:" + kind + ":" + cls)
		o.Count("dec"+e.key+hexs(bs), true)
	}

	for idx, e := range reg {
		for k := 0; k < perType; k++ {
			g := &gen{r: r, maxEl: 2 + r.Intn(2), bigTop: k == perType-1 && (f.Tier != "quick" || idx%3 == int(f.Seed%3))}
			obj := e.c.New()
			g.fill(reflect.ValueOf(obj).Elem(), 0, 0)
			var gb []byte
			var gerr error
			pg := Guard(func() { gb, gerr = e.c.Encode(obj) })
			var rb []byte
			pr := Guard(func() { rb = encoder.Serialize(obj) })
			var gs, rs uint64
			Guard(func() { gs = e.c.Size(obj) })
			Guard(func() { rs = encoder.Size(obj) })
			genS := cresBytes(pg, gb, gerr)
			refS := cresBytes(pr, rb, nil)
			refOpt := "None" // None = identical to the generated encoder's output
			if refS != genS {
				refOpt = fmt.Sprintf("(Some %d)", len(rb)) // only its length is needed (over-long values)
			}
			encCases = append(encCases, Tuple(fmt.Sprintf("%d%%nat", idx), topVal(obj), genS, refOpt, Z(gs), Z(rs)))
			encJSON = append(encJSON, map[string]interface{}{"type": e.key, "gen_err": errKind(gerr), "gen_len": len(gb), "ref_len": len(rb), "gen_bytes": hexs(gb)})
			hist.Add("enc:" + okOr(errKind(gerr)))
			o.Count("enc"+e.key+hexs(rb), len(rb) > 0)
			if len(samples) < 10 && r.Intn(20) == 0 && len(rb) < 200 {
				samples = append(samples, map[string]interface{}{"type": e.key, "value": topVal(obj), "bytes": hexs(rb)})
			}
			// byte strings derived from the reference encoding (also for values the
			// generated encoder refuses: the over-long ones must fail to decode)
			bs := rb
			if len(bs) > 600 && gerr == nil {
				continue // keep the Coq side fast; big values are covered on the encode side
			}
			if len(bs) <= 6000 {
				addDec(idx, e, bs, "valid")
			}
			if len(bs) > 600 {
				continue
			}
			// truncations
			nTr := 2
			if len(bs) <= 16 && k == 0 {
				nTr = len(bs)
			}
			for t := 0; t < nTr; t++ {
				cut := t
				if nTr != len(bs) {
					cut = r.Intn(len(bs) + 1)
				}
				addDec(idx, e, bs[:cut], "truncated")
			}
			// appended bytes
			addDec(idx, e, append(append([]byte{}, bs...), r.Bytes(1+r.Intn(5))...), "appended")
			if len(bs) >= 4 {
				// length-prefix surgery / byte mutation
				m := append([]byte{}, bs...)
				p := r.Intn(len(m))
				switch r.Intn(4) {
				case 0:
					m[p] ^= byte(1 << uint(r.Intn(8)))
				case 1:
					m[p] = 0xff
				case 2:
					m[p] = 0
				default:
					m[p]++
				}
				addDec(idx, e, m, "mutated")
			}
			// explicit zero count appended (non-canonical spelling of an empty omitempty tail)
			if k%4 == 0 {
				addDec(idx, e, append(append([]byte{}, bs...), 0, 0, 0, 0), "zero-count-appended")
			}
		}
		// maxlen boundaries of the top-level slice field: exactly maxlen elements
		// (must decode) and maxlen+1 (must fail with EMaxLen in both decoders and in
		// the generated encoder); elements are minimal (empty inner slices)
		{
			t := reflect.TypeOf(e.c.New()).Elem()
			for fi := 0; fi < t.NumField(); fi++ {
				use, ml, _ := encField(t, fi)
				if !use || ml <= 0 || ml > 600 || t.Field(fi).Type.Kind() != reflect.Slice {
					continue
				}
				for _, n := range []int{ml, ml + 1} {
					cheap := t.Field(fi).Type.Elem().Size() <= 40 // hashes, peers
					if n == ml && !cheap && f.Tier == "quick" {
						continue
					}
					obj := e.c.New()
					g := &gen{r: r, maxEl: 0}
					v := reflect.ValueOf(obj).Elem()
					g.fill(v, 0, 0)
					sl := reflect.MakeSlice(t.Field(fi).Type, n, n)
					for i := 0; i < n; i++ {
						g.fill(sl.Index(i), 0, 1)
					}
					v.Field(fi).Set(sl)
					var rb []byte
					if Guard(func() { rb = encoder.Serialize(obj) }) {
						continue
					}
					addDec(idx, e, rb, fmt.Sprintf("maxlen%+d", n-ml))
					var gb []byte
					var gerr error
					pg := Guard(func() { gb, gerr = e.c.Encode(obj) })
					if n > ml || cheap {
						var gs, rs uint64
						Guard(func() { gs = e.c.Size(obj) })
						Guard(func() { rs = encoder.Size(obj) })
						genS := cresBytes(pg, gb, gerr)
						refOpt := "None"
						if cresBytes(false, rb, nil) != genS {
							refOpt = fmt.Sprintf("(Some %d)", len(rb))
						}
						encCases = append(encCases, Tuple(fmt.Sprintf("%d%%nat", idx), topVal(obj), genS, refOpt, Z(gs), Z(rs)))
						encJSON = append(encJSON, map[string]interface{}{"type": e.key, "gen_err": errKind(gerr), "gen_len": len(gb), "ref_len": len(rb), "kind": fmt.Sprintf("maxlen%+d", n-ml)})
						hist.Add("enc:boundary:" + okOr(errKind(gerr)))
						o.Count("encb"+e.key+fmt.Sprint(n), true)
					}
				}
			}
		}
		// deterministic witness shape of finding F11: the zero value's encoding
		// followed by an explicit zero count
		{
			var zb []byte
			z := e.c.New()
			if !Guard(func() { zb = encoder.Serialize(z) }) {
				addDec(idx, e, append(append([]byte{}, zb...), 0, 0, 0, 0), "zero-count-appended")
			}
		}
		// scripted "used object" sequence: full nested slices, then the same shape with
		// empty nested slices, then fewer / no elements - all into the same two objects
		{
			delete(usedG, idx)
			delete(usedR, idx)
			for _, fx := range [][]int{{2, 2, 2}, {2, 0, 0}, {2, 2, 2}, {1, 0, 2}, {2, 1, 0}, {0}, {2, 2, 2}, {1, 1, 1}} {
				obj := e.c.New()
				(&gen{r: r, maxEl: 2, fixed: fx}).fill(reflect.ValueOf(obj).Elem(), 0, 0)
				var rb []byte
				if Guard(func() { rb = encoder.Serialize(obj) }) || len(rb) > 2000 {
					continue
				}
				objG, objR := e.c.New(), e.c.New()
				var errG, errR error
				pG := Guard(func() { _, errG = e.c.Decode(rb, objG) })
				pR := Guard(func() { _, errR = encoder.DeserializeRaw(rb, objR) })
				if !pG && !pR {
					addReuse(idx, e, rb, objG, objR, errG, errR)
				}
			}
		}
		// pure garbage
		for k := 0; k < perType/3+1; k++ {
			addDec(idx, e, r.Bytes(r.Intn(40)), "random")
		}
	}
	o.Raw("Definition type_names : list string := " + List(names) + ".\n")
	o.Def("cases_enc", "nat * val * cres (list Z) * option Z * Z * Z", encCases)
	o.Def("cases_dec", "nat * list Z * cres (val * Z) * option (cres (val * Z)) * cres unit * option (cres (list Z))", decCases)
	o.Def("cases_reuse", "nat * bool * bool", reuseCases)
	o.Side["rule"] = "for each of the generated codecs: random values (ints boundary-biased, nil/empty/short slices, lengths maxlen-1..maxlen+1 for limits <= 600) through generated encoder, reference Serialize and both size functions; byte strings = valid encodings, truncations (every offset when short), appended bytes, single-byte mutations (incl. count prefixes), explicit zero count appended, random garbage, through generated decode, reference DeserializeRaw, generated exact decode + re-encode; every successfully decoded byte string is also decoded into the object left by the previous successful decode of that type by both decoders, which must agree; non-trivial = distinct (type, bytes)"
	o.Side["distribution"] = hist.Sorted()
	o.Side["samples"] = samples
	o.Side["cases"] = map[string]interface{}{"enc": encJSON, "dec": decJSON, "reuse": reuseJSON}
	o.Side["types"] = len(reg)
	return o.Write(f.Out, f.JSON)
}

func okOr(s string) string {
	if s == "" {
		return "ok"
	}
	return s
}
