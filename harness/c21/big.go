package main

// Deep search (run only after a proof / translation / correspondence of C21
// broke and the model-sized search found nothing): the generated codecs against
// the reflection-based reference encoder on values and byte strings that are
// too large for the model evaluation inside Coq - element counts at and around
// every `maxlen` tag, 2^8, 2^16, 2^20 - on every slice field reachable in each
// generated codec's type. The property itself ("generated == reference: same
// bytes, same decoded value, same failure kind, same maximum-length
// enforcement") is the oracle; the expected maximum-length behaviour comes from
// the struct tags read by reflection.

import (
	"bytes"
	"encoding/binary"
	"fmt"
	"reflect"

	"github.com/skycoin/skycoin/src/cipher/encoder"

	. "verif/harness/kit"
)

type step struct{ field int }

// slicePaths lists the field paths (through elements of slices) to every slice
// or string field of t, down to three levels.
func slicePaths(t reflect.Type, prefix []step, depth int, out *[][]step) {
	if t.Kind() != reflect.Struct || depth > 3 {
		return
	}
	for i := 0; i < t.NumField(); i++ {
		use, _, _ := encField(t, i)
		if !use {
			continue
		}
		ft := t.Field(i).Type
		p := append(append([]step{}, prefix...), step{i})
		switch ft.Kind() {
		case reflect.Slice:
			*out = append(*out, p)
			if ft.Elem().Kind() == reflect.Struct {
				slicePaths(ft.Elem(), p, depth+1, out)
			}
		case reflect.String:
			*out = append(*out, p)
		case reflect.Struct:
			// embedded struct value: its fields are on the same level
			var sub [][]step
			slicePaths(ft, nil, depth, &sub)
			for _, sp := range sub {
				*out = append(*out, append(append([]step{}, p...), sp...))
			}
		}
	}
}

// minSize = encoded size of a minimal element of type t
func minSize(t reflect.Type) int {
	v := reflect.New(t)
	(&gen{r: NewRng(1), maxEl: 0}).fill(v.Elem(), 0, 1)
	n := 0
	Guard(func() { n = int(encoder.Size(v.Interface())) })
	return n
}

// build sets, in a minimal object, the slice at `path` to n minimal elements
// (intermediate slices get one element); returns the tag maxlen of that field.
func build(obj interface{}, path []step, n int, r *Rng) (ml int, ok bool) {
	ml, ok, _ = buildT(obj, path, n, r)
	return
}

// buildT is build returning also the target field (to change its length afterwards)
func buildT(obj interface{}, path []step, n int, r *Rng) (ml int, ok bool, target reflect.Value) {
	g := &gen{r: r, maxEl: 0}
	v := reflect.ValueOf(obj).Elem()
	g.fill(v, 0, 0)
	for k, st := range path {
		for v.Kind() == reflect.Slice {
			s := reflect.MakeSlice(v.Type(), 1, 1)
			g.fill(s.Index(0), 0, 1)
			v.Set(s)
			v = v.Index(0)
		}
		if v.Kind() != reflect.Struct {
			return 0, false, v
		}
		_, m, _ := encField(v.Type(), st.field)
		v = v.Field(st.field)
		if k == len(path)-1 {
			ml = m
		}
	}
	switch v.Kind() {
	case reflect.String:
		v.SetString(string(make([]byte, n)))
	case reflect.Slice:
		// zero-valued (minimal) elements; a few random ones in front
		s := reflect.MakeSlice(v.Type(), n, n)
		if v.Type().Elem().Kind() != reflect.Uint8 {
			for i := 0; i < n && i < 3; i++ {
				g.fill(s.Index(i), 0, 1)
			}
		}
		v.Set(s)
	default:
		return 0, false, v
	}
	return ml, true, v
}

// exceeds reports whether some tagged field of v is longer than its maxlen
func exceeds(v reflect.Value, ml int) bool {
	switch v.Kind() {
	case reflect.String:
		return ml > 0 && v.Len() > ml
	case reflect.Slice:
		if ml > 0 && v.Len() > ml {
			return true
		}
		if v.Type().Elem().Kind() == reflect.Struct || v.Type().Elem().Kind() == reflect.Slice {
			for i := 0; i < v.Len(); i++ {
				if exceeds(v.Index(i), 0) {
					return true
				}
			}
		}
	case reflect.Array:
		if v.Type().Elem().Kind() == reflect.Struct {
			for i := 0; i < v.Len(); i++ {
				if exceeds(v.Index(i), 0) {
					return true
				}
			}
		}
	case reflect.Struct:
		t := v.Type()
		for i := 0; i < t.NumField(); i++ {
			if use, m, _ := encField(t, i); use && exceeds(v.Field(i), m) {
				return true
			}
		}
	}
	return false
}

func runBig(f *Flags) error {
	r := NewRng(f.Seed)
	o := NewOut()
	var hits []map[string]interface{}
	tried := 0
	const budget = 40 << 20 // bytes per value
	hit := func(typ string, path []step, n int, api, gen, ref string) {
		if len(hits) < 40 {
			hits = append(hits, map[string]interface{}{"type": typ, "path": fmt.Sprint(path), "count": n, "api": api, "generated": gen, "reference": ref})
		}
	}
	for _, e := range registry() {
		t := reflect.TypeOf(e.c.New()).Elem()
		var paths [][]step
		slicePaths(t, nil, 0, &paths)
		for _, p := range paths {
			// element type and tag of the target field
			probe := e.c.New()
			ml, ok := build(probe, p, 0, r)
			if !ok {
				continue
			}
			// element size
			ft := t
			var fieldT reflect.Type
			for _, st := range p {
				for ft.Kind() == reflect.Slice {
					ft = ft.Elem()
				}
				fieldT = ft.Field(st.field).Type
				ft = fieldT
			}
			es := 1
			if fieldT.Kind() == reflect.Slice && fieldT.Elem().Kind() != reflect.Uint8 {
				es = minSize(fieldT.Elem())
				if es == 0 {
					es = 1
				}
			}
			counts := map[int]bool{255: true, 256: true, 65535: true, 65536: true, 1 << 20: true, 1<<20 + 1: true}
			if ml > 0 {
				counts[ml] = true
				counts[ml+1] = true
				counts[ml-1] = true
			}
			for n := range counts {
				if n < 0 || n*es > budget {
					continue
				}
				obj := e.c.New()
				if _, ok := build(obj, p, n, r); !ok {
					continue
				}
				tried++
				over := exceeds(reflect.ValueOf(obj).Elem(), 0)
				var rb, gb []byte
				var gerr error
				if Guard(func() { rb = encoder.Serialize(obj) }) {
					continue
				}
				pg := Guard(func() { gb, gerr = e.c.Encode(obj) })
				var gs, rs uint64
				Guard(func() { gs = e.c.Size(obj) })
				Guard(func() { rs = encoder.Size(obj) })
				switch {
				case pg:
					hit(e.key, p, n, "encode", "PANIC", fmt.Sprintf("%d bytes", len(rb)))
				case over && errKind(gerr) != "EMaxLen":
					hit(e.key, p, n, "encode", "accepted a value longer than its maxlen tag: "+okOr(errKind(gerr)), "tag maxlen exceeded")
				case !over && gerr != nil:
					hit(e.key, p, n, "encode", errKind(gerr), fmt.Sprintf("ok, %d bytes (no maxlen tag is exceeded)", len(rb)))
				case !over && !bytes.Equal(gb, rb):
					hit(e.key, p, n, "encode", fmt.Sprintf("%d bytes", len(gb)), fmt.Sprintf("%d different bytes", len(rb)))
				}
				if gs != rs {
					hit(e.key, p, n, "size", fmt.Sprint(gs), fmt.Sprint(rs))
				}
				// decode the reference bytes with both decoders
				decBoth := func(bs []byte, what string) {
					objG, objR := e.c.New(), e.c.New()
					var nG, nR uint64
					var errG, errR error
					pG := Guard(func() { nG, errG = e.c.Decode(bs, objG) })
					pR := Guard(func() { nR, errR = encoder.DeserializeRaw(bs, objR) })
					switch {
					case pG:
						hit(e.key, p, n, what, "PANIC", okOr(errKind(errR)))
					case pR:
						// the reference panicking is not the generated codec's failure
					case errKind(errG) != errKind(errR):
						hit(e.key, p, n, what, okOr(errKind(errG)), okOr(errKind(errR)))
					case errG == nil && (nG != nR || !bytes.Equal(encoder.Serialize(objG), encoder.Serialize(objR))):
						hit(e.key, p, n, what, fmt.Sprintf("consumed %d", nG), fmt.Sprintf("consumed %d / other value", nR))
					}
				}
				decBoth(rb, "decode")
				// the same count prefix with fewer elements behind it (underflow vs maxlen order)
				if n >= 2 && n <= 70000 && len(rb) > es+8 {
					decBoth(rb[:len(rb)-es], "decode-truncated")
					decBoth(rb[:len(rb)-es*(n/2)], "decode-half")
				}
			}
			// count prefixes far beyond the data (no allocation of the value): patch the
			// count of an empty encoding
			one := e.c.New()
			if _, ok, tgt := buildT(one, p, 1, r); ok && tgt.Kind() == reflect.Slice {
				// the same object with one element and with none: the encodings differ first
				// at the count prefix of the target field
				var zb, ob []byte
				okS := !Guard(func() { ob = encoder.Serialize(one) })
				tgt.Set(reflect.MakeSlice(tgt.Type(), 0, 0))
				okS = okS && !Guard(func() { zb = encoder.Serialize(one) })
				if okS {
					// locate the count: first position where the two encodings differ
					pos := -1
					for i := 0; i < len(zb) && i < len(ob); i++ {
						if zb[i] != ob[i] {
							pos = i
							break
						}
					}
					if pos >= 0 && pos+4 <= len(ob) {
						type lt struct {
							L    uint32
							tail int
						}
						var combos []lt
						for _, L := range []uint32{65535, 65536, 1 << 20, 1<<20 + 1, 1 << 31, 0xffffffff} {
							for _, tail := range []int{0, es, 70000} {
								combos = append(combos, lt{L, tail})
							}
						}
						// counts within a few bytes of the TOTAL input length (a decoder comparing the
						// count with the whole buffer instead of the remaining bytes differs here)
						for _, L := range []int{ml + 1, ml + 7, 600, 4096, 65536} {
							if L <= 0 {
								continue
							}
							for k := -2; k <= 6; k++ {
								if tail := L + k - (pos + 4); tail >= 0 {
									combos = append(combos, lt{uint32(L), tail})
								}
							}
						}
						for _, cb := range combos {
							L := cb.L
							for _, tail := range []int{cb.tail} {
								bs := append(append([]byte{}, ob[:pos]...), 0, 0, 0, 0)
								binary.LittleEndian.PutUint32(bs[pos:], L)
								bs = append(bs, make([]byte, tail)...)
								tried++
								objG, objR := e.c.New(), e.c.New()
								var errG, errR error
								pG := Guard(func() { _, errG = e.c.Decode(bs, objG) })
								pR := Guard(func() { _, errR = encoder.DeserializeRaw(bs, objR) })
								if pG {
									hit(e.key, p, int(L), "decode-count-prefix", "PANIC", okOr(errKind(errR)))
								} else if !pR && errKind(errG) != errKind(errR) {
									hit(e.key, p, int(L), fmt.Sprintf("decode-count-prefix(tail %d)", tail), okOr(errKind(errG)), okOr(errKind(errR)))
								}
							}
						}
					}
				}
			}
		}
	}
	if hits == nil {
		hits = []map[string]interface{}{}
	}
	o.Side["deep_hits"] = hits
	o.Side["deep_tried"] = tried
	o.Side["rule"] = "deep search: generated vs reference codec on element counts 255, 256, 65535, 65536, 2^20, 2^20+1 and maxlen-1..maxlen+1 of every slice/string field (values up to 40 MiB), their truncations, and huge count prefixes"
	return o.Write(f.Out, f.JSON)
}
