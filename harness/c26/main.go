// Command c26: correspondence of Model/Pex.v with daemon/pex (validateAddress and
// the peer list operations) and the decidable validity / bound / trusted-kept
// properties on the implementation's own peer lists (property C26).
package main

import (
	"encoding/json"
	"fmt"
	"math/rand"
	"os"
	"path/filepath"
	"strings"
	"sync"
	"time"

	. "verif/harness/kit"

	"github.com/skycoin/skycoin/src/daemon/pex"
	"github.com/skycoin/skycoin/src/util/logging"
)

var in *Interner

// a Go string (arbitrary bytes) as a Coq `str`, defined once
func strCoq(s string) string {
	it := make([]string, len(s))
	for i := 0; i < len(s); i++ {
		it[i] = fmt.Sprintf("x%02x", s[i])
	}
	return in.Ref("s_", "str", "bs "+List(it))
}
func zref(v int64) string { return in.Ref("z_", "Z", ZI(v)) }

func vresCoq(clean string, err error) string {
	switch err {
	case nil:
		return in.Ref("v_", "vres", "VAccept "+strCoq(clean))
	case pex.ErrInvalidAddress:
		return "(VReject EInvalidAddress)"
	case pex.ErrNoLocalhost:
		return "(VReject ENoLocalhost)"
	case pex.ErrNotExternalIP:
		return "(VReject ENotExternalIP)"
	case pex.ErrPortTooLow:
		return "(VReject EPortTooLow)"
	}
	panic("c26: unexpected validateAddress error: " + err.Error())
}

func dumpCoq(d []pex.Peer) string {
	it := make([]string, len(d))
	for i, p := range d {
		it[i] = in.Ref("e_", "str * peer", Tuple(strCoq(p.Addr),
			in.Ref("p_", "peer", fmt.Sprintf("mkPeer %s %s %s %d", zref(p.LastSeen), B(p.Trusted), B(p.HasIncomingPort), p.RetryTimes))))
	}
	return in.Ref("L_", "pl", List(it))
}

// ---- address generators

var adversarial = []string{
	"1.2.3.4:6000", " 1.2.3.4:6000", "1.2.3.4 :6000", "1. 2.3.4:60 00", "\t1.2.3.4:6000\n", "1.2.3.4:6000\r\n", "1.2.3.4:6000\f",
	"1.2.3.4:6000\v", " 1.2.3.4:6000", "1.2.3.4:6000 ", "　1.2.3.4:6000", "1.2.3.4\u0085:6000",
	"[::1]:6000", "::1:6000", "[2001:db8::1]:6000", "2001:db8::1:6000", "::ffff:1.2.3.4:6000", "[::ffff:1.2.3.4]:6000", "fe80::1%eth0:6000",
	"01.2.3.4:6000", "1.02.3.4:6000", "1.2.003.4:6000", "1.2.3.04:6000", "00.0.0.1:6000", "0.0.0.0:6000", "0.0.0.1:6000", "1.2.3.4:06000", "1.2.3.4:0001024", "1.2.3.4:00000000000000000000006000",
	"１.2.3.4:6000", "1.2.3.4:６000", "١.2.3.4:6000", "1.2.3.4:٦٠٠٠", "1.2.3.²:6000",
	"1.2.3.4:6000:1", "1.2.3.4::6000", ":6000", "1.2.3.4:", "1.2.3.4", ":", "", "::", "1.2.3.4:6000:", ":1.2.3.4:6000",
	"1.2.3.4:0", "1.2.3.4:1", "1.2.3.4:1023", "1.2.3.4:1024", "1.2.3.4:1025", "1.2.3.4:65535", "1.2.3.4:65536", "1.2.3.4:65537", "1.2.3.4:99999", "1.2.3.4:655350",
	"1.2.3.4:+6000", "1.2.3.4:-6000", "1.2.3.4:-1", "1.2.3.4:0x1770", "1.2.3.4:6_000", "1.2.3.4:6000.0", "1.2.3.4:6e3", "1.2.3.4:99999999999999999999", "1.2.3.4:18446744073709551616", "1.2.3.4:six",
	"localhost:6000", "localhost", "example.com:6000", "1.2.3:6000", "1.2:6000", "1:6000", "16909060:6000", "1.2.3.4.5:6000", "1..3.4:6000", ".1.2.3:6000", "1.2.3.:6000", "1.2.3.4.:6000", "...:6000",
	"256.1.1.1:6000", "1.256.1.1:6000", "1.1.1.256:6000", "999.1.1.1:6000", "1.2.3.1000:6000", "255.255.255.255:6000", "255.255.255.254:6000", "254.255.255.255:6000",
	"127.0.0.1:6000", "127.255.255.254:6000", "127.0.0.1:80", "126.0.0.1:6000", "128.0.0.1:6000", "169.254.1.1:6000", "169.253.1.1:6000", "169.255.1.1:6000", "168.254.1.1:6000",
	"223.255.255.255:6000", "224.0.0.1:6000", "239.255.255.255:6000", "240.0.0.1:6000", "10.0.0.1:6000", "192.168.1.1:6000", "172.16.0.1:6000", "100.64.0.1:6000",
	"1.2.3.4%eth0:6000", "1.2.3.4/24:6000", "1e1.2.3.4:6000", "0x1.2.3.4:6000", "1.2.3.4a:6000", "a1.2.3.4:6000", "1,2,3,4:6000", "1.2.3.4;6000", "-1.2.3.4:6000", "+1.2.3.4:6000",
	"1.2.3.4:6000\x00", "\x001.2.3.4:6000", "1.2.3.4\x00:6000", "\xff.2.3.4:6000", "1.2.3.4:\xc0\xaf", "1 . 2 . 3 . 4 : 6 0 0 0", "   ", "\n",
}

var octPool = []string{"0", "1", "9", "10", "99", "100", "126", "127", "128", "168", "169", "199", "200", "223", "224", "239", "240", "249", "250", "254", "255", "256", "260", "300", "00", "01", "001", "", "1000"}
var portPool = []string{"0", "1", "80", "1023", "1024", "1025", "6000", "9999", "10000", "65535", "65536", "70000", "06000", "00", "", "6000x", "60 00"}

func genAddr(r *Rng) (string, string) {
	switch r.Intn(10) {
	case 0, 1, 2, 3: // structured: octets and port from boundary pools
		var o [4]string
		for i := range o {
			if r.Chance(70) {
				o[i] = fmt.Sprint(r.Intn(256))
			} else {
				o[i] = octPool[r.Intn(len(octPool))]
			}
		}
		p := portPool[r.Intn(len(portPool))]
		if r.Chance(60) {
			p = fmt.Sprint(r.Intn(70000))
		}
		return strings.Join(o[:], ".") + ":" + p, "structured"
	case 4: // classification boundaries
		firsts := []int{0, 1, 126, 127, 128, 168, 169, 170, 223, 224, 239, 240, 254, 255}
		a := firsts[r.Intn(len(firsts))]
		b := []int{0, 253, 254, 255}[r.Intn(4)]
		c, d := []int{0, 255}[r.Intn(2)], []int{0, 1, 254, 255}[r.Intn(4)]
		return fmt.Sprintf("%d.%d.%d.%d:%d", a, b, c, d, []int{1023, 1024, 6000, 65535, 65536}[r.Intn(5)]), "class"
	case 5, 6: // a valid address with whitespace injected
		s := fmt.Sprintf("%d.%d.%d.%d:%d", 1+r.Intn(223), r.Intn(256), r.Intn(256), r.Intn(256), 1024+r.Intn(64512))
		ws := []string{" ", "\t", "\n", "\r", "\f", "\v", " ", "  "}
		for k := r.Intn(3) + 1; k > 0; k-- {
			i := r.Intn(len(s) + 1)
			s = s[:i] + ws[r.Intn(len(ws))] + s[i:]
		}
		return s, "whitespace"
	case 7, 8: // a valid address with one byte-level mutation
		s := fmt.Sprintf("%d.%d.%d.%d:%d", 1+r.Intn(223), r.Intn(256), r.Intn(256), r.Intn(256), 1024+r.Intn(64512))
		b := []byte(s)
		i := r.Intn(len(b))
		ins := ".:0 9\t%[]-+x_/\x00\xff"
		switch r.Intn(4) {
		case 0:
			b[i] = byte(r.Intn(256))
		case 1:
			b = append(b[:i], b[i+1:]...)
		case 2:
			b = append(b[:i], append([]byte{ins[r.Intn(len(ins))]}, b[i:]...)...)
		default:
			b[i] = ins[r.Intn(len(ins))]
		}
		return string(b), "mutated"
	default: // bytes
		n := r.Intn(12)
		alphabet := "0123456789.: \t:.."
		b := make([]byte, n)
		for i := range b {
			if r.Chance(85) {
				b[i] = alphabet[r.Intn(len(alphabet))]
			} else {
				b[i] = byte(r.Intn(256))
			}
		}
		return string(b), "bytes"
	}
}

func errName(err error) string {
	switch err {
	case nil:
		return "ok"
	case pex.ErrInvalidAddress:
		return "ErrInvalidAddress"
	case pex.ErrNoLocalhost:
		return "ErrNoLocalhost"
	case pex.ErrNotExternalIP:
		return "ErrNotExternalIP"
	case pex.ErrPortTooLow:
		return "ErrPortTooLow"
	case pex.ErrPeerlistFull:
		return "ErrPeerlistFull"
	}
	return "other"
}

// ---- cache files (peers.json / legacy peers.txt)

type fileEntry struct {
	key, addr string
	seenJSON  string // JSON value of LastSeen
	seenCoq   string // option Z as the loader understands it
	trusted   bool
	incoming  bool
	legacyKey bool // HasIncomePort instead of HasIncomingPort
}

var cacheCatalogue = []string{
	"1.2.3.4:6000", "5.6.7.8:6001", "9.10.11.12:1024", "13.14.15.16:65535", "200.1.1.1:7000", "77.1.2.3:8000", "78.1.2.3:8000", "79.1.2.3:8000", "80.1.2.3:8000", "81.1.2.3:8000",
	"127.0.0.1:6001", "127.0.0.1:6000", "127.255.0.9:7000", // loopback
	"10.0.0.1:6000", "192.168.1.1:6000", "172.16.0.1:6000", // private (global unicast for net.IP)
	"224.0.0.1:6000", "239.1.1.1:6000", "169.254.1.1:6000", "0.0.0.0:6000", "255.255.255.255:6000", // not unicast
	"1.2.3.4:0", "1.2.3.4:80", "1.2.3.4:1023", "1.2.3.4:65536", "44.1.1.1:06000", // ports
	"localhost:6000", "1.2.3.4", "", ":6000", "[::1]:6000", "::1:6000", "01.2.3.4:6000", "1.2.3.256:6000", "example.com:6000", "1.2.3.4:6000:1",
	" 45.1.1.1:6000", "46.1.1.1:6000\n", "47.1. 1.1:60 00", // whitespace in the key
}

// genCacheFile builds the members of a cache file. Two different keys never clean
// to the same address (which one survives would depend on map iteration order);
// an exactly repeated key is allowed (the JSON decoder keeps the last one).
func genCacheFile(r *Rng, now int64, n int, mix bool) []fileEntry {
	var es []fileEntry
	cleaned := map[string]string{} // cleaned key -> raw key
	for len(es) < n {
		key := cacheCatalogue[r.Intn(len(cacheCatalogue))]
		if r.Chance(55) {
			key = cacheCatalogue[r.Intn(10)]
		}
		if mix { // always a loopback, a public and a private address among the first members
			switch len(es) {
			case 0:
				key = cacheCatalogue[10+r.Intn(3)]
			case 1:
				key = cacheCatalogue[r.Intn(10)]
			case 2:
				key = cacheCatalogue[13+r.Intn(3)]
			}
		}
		if c, err := pex.VerifC26ValidateAddress(key, true); err == nil {
			if raw, ok := cleaned[c]; ok && raw != key {
				continue
			}
			cleaned[c] = key
		}
		e := fileEntry{key: key, addr: strings.Join(strings.Fields(key), ""), trusted: r.Chance(30), incoming: r.Chance(40), legacyKey: r.Chance(15)}
		switch r.Intn(12) {
		case 0:
			e.addr = key // not cleaned: still validates to the same string
		case 1:
			e.addr = "1.2.3.5:6000" // does not match the key
		case 2:
			e.addr = ""
		}
		seen := now - []int64{0, 100, 3700, 90000, 200000, 700000, 5000000}[r.Intn(7)] - int64(r.Intn(50)) - int64(len(es))*60 // distinct
		switch r.Intn(14) {
		case 0:
			e.seenJSON, e.seenCoq = "1.5", "None"
		case 1:
			e.seenJSON, e.seenCoq = "null", "None"
		case 2:
			e.seenJSON, e.seenCoq = "true", "None"
		case 3:
			e.seenJSON, e.seenCoq = `"yesterday"`, "None"
		case 4:
			e.seenJSON, e.seenCoq = `"`+time.Unix(seen, 0).UTC().Format(time.RFC3339Nano)+`"`, Some(zref(seen))
		case 5:
			e.seenJSON, e.seenCoq = "99999999999999999999", "None"
		default:
			e.seenJSON, e.seenCoq = fmt.Sprint(seen), Some(zref(seen))
		}
		es = append(es, e)
		if r.Chance(8) { // the same member name again
			d := e
			d.trusted, d.incoming = !e.trusted, !e.incoming
			if r.Chance(30) {
				d.seenJSON, d.seenCoq = "null", "None"
			}
			es = append(es, d)
		}
	}
	return es
}

func jstr(s string) string {
	b, err := json.Marshal(s)
	if err != nil {
		panic(err)
	}
	return string(b)
}

func cacheJSON(es []fileEntry) string {
	var parts []string
	for _, e := range es {
		inc := "HasIncomingPort"
		if e.legacyKey {
			inc = "HasIncomePort"
		}
		parts = append(parts, fmt.Sprintf("%s: {\"Addr\": %s, \"LastSeen\": %s, \"Private\": false, \"Trusted\": %v, \"%s\": %v}",
			jstr(e.key), jstr(e.addr), e.seenJSON, e.trusted, inc, e.incoming))
	}
	return "{\n" + strings.Join(parts, ",\n") + "\n}\n"
}

func entriesCoq(es []fileEntry) string {
	it := make([]string, len(es))
	for i, e := range es {
		it[i] = in.Ref("f_", "fentry", fmt.Sprintf("mkF %s %s %s %s %s", strCoq(e.key), strCoq(e.addr), e.seenCoq, B(e.trusted), B(e.incoming)))
	}
	return in.Ref("F_", "list fentry", List(it))
}

func keysCoq(d []pex.Peer) string {
	it := make([]string, len(d))
	for i, p := range d {
		it[i] = strCoq(p.Addr)
	}
	return in.Ref("K_", "list str", List(it))
}

func strsCoq(l []string) string {
	it := make([]string, len(l))
	for i, a := range l {
		it[i] = strCoq(a)
	}
	return in.Ref("A_", "list str", List(it))
}

// genPeerListText builds the text of a custom peers file / a downloaded peer list:
// lines from the catalogue, comments, blank lines, padding, CRLF endings
func genPeerListText(r *Rng, n int, allow bool, onlyValid bool) string {
	var lines []string
	for len(lines) < n {
		a := cacheCatalogue[r.Intn(len(cacheCatalogue))]
		if r.Chance(60) {
			a = cacheCatalogue[r.Intn(10)]
		}
		if onlyValid {
			if _, err := pex.VerifC26ValidateAddress(a, allow); err != nil {
				continue
			}
		}
		switch r.Intn(10) {
		case 0:
			a = "  " + a + "\t"
		case 1:
			a = a + "\r"
		}
		lines = append(lines, a)
		switch r.Intn(8) {
		case 0:
			lines = append(lines, "# "+a)
		case 1:
			lines = append(lines, "")
		case 2:
			lines = append(lines, "   ")
		}
	}
	t := strings.Join(lines, "\n")
	if r.Bool() {
		t += "\n"
	}
	return t
}

// a scripted operation: k selects the branch of the operation switch
type fop struct {
	k     int
	a     string
	addrs []string
	exp   int64
	age   int64
}

const (
	kAddPeer         = 0
	kAddPeers        = 6
	kSetTrusted      = 10
	kRemove          = 12
	kIncRetry        = 13
	kResetRetry      = 14
	kSetIncoming     = 15
	kClearOld        = 16
	kSetAllUntrusted = 18
	kAged            = 20
)

// makeScenario builds a scripted prefix around one threshold constant:
//
//	retry:   MaxPeerRetryTimes (10) crossed by -1/0/+1/+2 IncreaseRetryTimes on a trusted
//	         and an untrusted peer, then both aged around the expiration, then clearOld
//	evict:   a full list whose peers are aged around the one-day eviction age (86400 s),
//	         some trusted, then AddPeer of a new address
//	bulk:    a list filled to Max-2 .. Max, then AddPeers of 1..4 (partly known) addresses
//	expire:  peers aged to expiration -10 / +10 / far beyond for each clearOld period
func makeScenario(r *Rng, pool []string, max int, idx int) ([]fop, int, string) {
	valid := []string{pool[0], pool[1], pool[2], pool[3], pool[4], pool[9], pool[10], pool[11]}
	r2 := func(n int) int { return r.Intn(n) }
	perm := append([]string{}, valid...)
	for i := len(perm) - 1; i > 0; i-- {
		j := r2(i + 1)
		perm[i], perm[j] = perm[j], perm[i]
	}
	exps := []int64{3600, 86400, 604800, 30}
	var s []fop
	which := r2(5)
	if idx < 8 { // the first sequences of every run walk the retry limit systematically
		which = 0
	}
	switch which {
	case 0, 4:
		max = []int{0, 3, 5}[r2(3)]
		exp := exps[r2(len(exps))]
		a, b := perm[0], perm[1]
		s = append(s, fop{k: kAddPeer, a: a}, fop{k: kAddPeer, a: b}, fop{k: kSetTrusted, a: a})
		if idx >= 8 && r.Chance(25) {
			s = append(s, fop{k: kSetTrusted, a: b})
		}
		na, nb := 9+r2(4), 9+r2(4)
		systematic := idx < 8
		if systematic {
			na, nb = 9+idx%4, 9+(idx+1)%4
		}
		for i := 0; i < na; i++ {
			s = append(s, fop{k: kIncRetry, a: a})
		}
		for i := 0; i < nb; i++ {
			s = append(s, fop{k: kIncRetry, a: b})
		}
		if !systematic && r.Chance(20) { // a reset in between brings the counter back below the limit
			s = append(s, fop{k: kResetRetry, a: []string{a, b}[r2(2)]}, fop{k: kIncRetry, a: a})
		}
		d := []int64{-10, 10, 10, 1000}
		da, db := d[r2(4)], d[r2(4)]
		if systematic {
			da, db = 10, 10
		}
		s = append(s, fop{k: kAged, a: a, age: exp + da}, fop{k: kAged, a: b, age: exp + db})
		if !systematic && r.Chance(15) {
			s = append(s, fop{k: kSetAllUntrusted})
		}
		s = append(s, fop{k: kClearOld, exp: exp})
		return s, max, "retry-limit"
	case 1:
		max = []int{1, 3, 5}[r2(3)]
		for i := 0; i < max; i++ {
			s = append(s, fop{k: kAddPeer, a: perm[i]})
		}
		for i := 0; i < max; i++ {
			if r.Chance(35) {
				s = append(s, fop{k: kSetTrusted, a: perm[i]})
			}
			if r.Chance(80) {
				s = append(s, fop{k: kAged, a: perm[i], age: 86400 + []int64{-10, 10, 10, 1000, -1000}[r2(5)] + int64(i)})
			}
		}
		s = append(s, fop{k: kAddPeer, a: perm[max]}, fop{k: kAddPeer, a: perm[max+1]})
		return s, max, "evict-age"
	case 2:
		max = []int{3, 5}[r2(2)]
		fill := max - r2(3)
		for i := 0; i < fill; i++ {
			s = append(s, fop{k: kAddPeer, a: perm[i]})
		}
		n := 1 + r2(4)
		addrs := make([]string, n)
		for i := range addrs {
			addrs[i] = perm[r2(len(perm))]
		}
		s = append(s, fop{k: kAddPeers, addrs: addrs}, fop{k: kAddPeers, addrs: []string{perm[6], perm[7], perm[5]}})
		return s, max, "bulk-cap"
	default:
		max = []int{0, 5}[r2(2)]
		exp := exps[r2(len(exps))]
		for i := 0; i < 4; i++ {
			s = append(s, fop{k: kAddPeer, a: perm[i]})
		}
		s = append(s, fop{k: kSetTrusted, a: perm[r2(4)]})
		for i := 0; i < 4; i++ {
			s = append(s, fop{k: kAged, a: perm[i], age: exp + []int64{-10, 10, 100000, -exp + 5}[r2(4)]})
		}
		s = append(s, fop{k: kClearOld, exp: exp})
		return s, max, "expiration"
	}
}

func main() { Main(run) }

func run(args []string) error {
	f := ParseFlags("c26", args)
	logging.Disable()
	r := NewRng(f.Seed)
	o := NewOut()
	in = NewInterner(o)
	hist := Hist{}
	caseJSON := map[string][]map[string]interface{}{}
	var samples []map[string]interface{}
	o.Raw("Definition bs (l : list Byte.byte) : str := map (fun b => Z.of_N (Byte.to_N b)) l.\n")

	// ---------------- validateAddress
	var val []string
	doVal := func(s string, allow bool, kind string) {
		var clean string
		var err error
		p := Guard(func() { clean, err = pex.VerifC26ValidateAddress(s, allow) })
		if p {
			panic("c26: validateAddress panicked on " + fmt.Sprintf("%q", s))
		}
		val = append(val, Tuple(strCoq(s), B(allow), vresCoq(clean, err)))
		cj := map[string]interface{}{"addr": fmt.Sprintf("%q", s), "allow_localhost": allow, "result": errName(err), "clean": fmt.Sprintf("%q", clean)}
		caseJSON["val"] = append(caseJSON["val"], cj)
		o.Count(fmt.Sprintf("val|%q|%v", s, allow), err == nil || err != pex.ErrInvalidAddress)
		hist.Add("val:" + kind + ":" + errName(err))
		if len(samples) < 5 && r.Intn(150) == 0 {
			samples = append(samples, cj)
		}
	}
	for _, s := range adversarial {
		doVal(s, false, "adversarial")
		doVal(s, true, "adversarial")
	}
	nval := f.Budget(1500, 40000)
	for i := 0; i < nval; i++ {
		s, kind := genAddr(r)
		doVal(s, r.Bool(), kind)
	}
	o.Def("cases_val", "str * bool * vres", val)

	// ---------------- operation sequences
	nseq := 60
	if f.Tier == "thorough" || f.Tier == "search" {
		nseq = 1500
	}
	pool := []string{"1.2.3.4:6000", "5.6.7.8:6001", "9.10.11.12:1024", "13.14.15.16:65535", "200.1.1.1:7000", "127.0.0.1:6000",
		" 1.2.3.4:6000", "5.6.7.8:6001\n", "1.2.3.4:06000", "77.1.2.3:8000", "78.1.2.3:8000", "79.1.2.3:8000",
		"1.2.3.4:80", "256.1.1.1:6000", "224.0.0.1:6000", "localhost:6000", "1.2.3.4", ""}
	var ops, starts []string
	seqDone := 0
	nStart := 60 // start-only cases: pex.New on a cache file under every configuration
	if f.Tier == "thorough" || f.Tier == "search" {
		nStart = 1200
	}
	for attempts := 0; seqDone < nseq+nStart && attempts < (nseq+nStart)*3; attempts++ {
		max := []int{0, 1, 3, 3, 5}[r.Intn(5)]
		allow := r.Chance(30)
		startOnly := seqDone >= nseq
		if startOnly {
			i := seqDone - nseq
			allow = i%2 == 1
			max = []int{0, 1, 3, 5}[(i/2)%4]
		}
		// half of the sequences start with a scripted scenario around one threshold
		// constant of pex.go / peerlist.go (MaxPeerRetryTimes, the one-day eviction
		// age, Config.Max, the clearOld expiration), then continue randomly
		var script []fop
		scenario := "random"
		if !startOnly && (attempts < 8 || r.Chance(55)) {
			script, max, scenario = makeScenario(r, pool, max, attempts)
		}
		if startOnly {
			scenario = "start-only"
		}
		hist.Add("seq:scenario=" + scenario)
		// every sequence starts a real Pex (pex.New) on its own data directory; most
		// of the unscripted ones find a cache file there
		dir, derr := os.MkdirTemp("", "c26pex")
		if derr != nil {
			return derr
		}
		cfg := pex.NewConfig()
		cfg.DataDirectory = dir
		cfg.Max = max
		cfg.AllowLocalhost = allow
		cfg.DownloadPeerList = false
		cfg.DisableTrustedPeers = r.Chance(25)
		var entries []fileEntry
		fileKind := "none"
		if startOnly || (scenario == "random" && r.Chance(75)) {
			n := r.Intn(9)
			if max > 0 && r.Chance(40) {
				n = max + r.Intn(4) // around and beyond Max
			}
			if startOnly {
				n = 3 + r.Intn(8)
			}
			entries = genCacheFile(r, time.Now().Unix(), n, startOnly || r.Chance(40))
			text := cacheJSON(entries)
			switch r.Intn(6) {
			case 0: // only the legacy file
				fileKind = "peers.txt"
				derr = os.WriteFile(filepath.Join(dir, "peers.txt"), []byte(text), 0600)
			case 1: // empty peers.json: falls back to the legacy file
				fileKind = "empty-json+peers.txt"
				if derr = os.WriteFile(filepath.Join(dir, "peers.json"), nil, 0600); derr == nil {
					derr = os.WriteFile(filepath.Join(dir, "peers.txt"), []byte(text), 0600)
				}
			default:
				fileKind = "peers.json"
				derr = os.WriteFile(filepath.Join(dir, "peers.json"), []byte(text), 0600)
			}
			if derr != nil {
				return derr
			}
		}
		// default (trusted) connections: with a bound only when the cache file cannot be cut
		// (which peers a cut kept is not observable once New evicted some of them)
		if (max == 0 || len(entries) <= max) && r.Chance(35) {
			cfg.DefaultConnections = []string{pool[3], pool[r.Intn(5)], pool[9+r.Intn(3)]}[:1+r.Intn(3)]
		}
		customCoq, customDesc := "None", ""
		if (startOnly || scenario == "random") && r.Chance(40) {
			n := r.Intn(7)
			if max > 0 && r.Chance(50) {
				n = max - 1 + r.Intn(4)
			}
			text := genPeerListText(r, n, allow, !r.Chance(15))
			cfg.CustomPeersFile = filepath.Join(dir, "custom-peers.txt")
			if derr = os.WriteFile(cfg.CustomPeersFile, []byte(text), 0600); derr != nil {
				return derr
			}
			customCoq, customDesc = Some(strCoq(text)), fmt.Sprintf(" CustomPeersFile=%q", text)
		}
		tStart := time.Now().Unix()
		px, nerr := pex.New(cfg)
		if time.Now().Unix() != tStart || (nerr != nil && max > 0 && len(entries) > max) {
			hist.Add(fmt.Sprintf("seq:start-discarded:err=%v", nerr != nil))
			os.RemoveAll(dir)
			continue
		}
		if nerr != nil { // New refuses to start: the model must refuse too
			var ks []string
			for _, e := range entries {
				if c, err := pex.VerifC26ValidateAddress(e.key, true); err == nil {
					ks = append(ks, c)
				}
			}
			desc := fmt.Sprintf("pex.New(Max=%d AllowLocalhost=%v DisableTrustedPeers=%v DefaultConnections=%q%s) on %s %s", max, allow, cfg.DisableTrustedPeers, cfg.DefaultConnections, customDesc, fileKind, strings.TrimSpace(strings.ReplaceAll(cacheJSON(entries), "\n", " ")))
			starts = append(starts, Tuple(fmt.Sprint(max), B(allow), B(cfg.DisableTrustedPeers), entriesCoq(entries), strsCoq(ks), strsCoq(cfg.DefaultConnections), customCoq, zref(tStart), "None"))
			caseJSON["start"] = append(caseJSON["start"], map[string]interface{}{"start": desc, "loaded": "(New failed: " + nerr.Error() + ")"})
			hist.Add("start:New-failed")
			o.Count("start|"+desc, true)
			os.RemoveAll(dir)
			if startOnly {
				seqDone++
			}
			continue
		}
		init := px.VerifC26Dump()
		startDesc := fmt.Sprintf("pex.New(Max=%d AllowLocalhost=%v DisableTrustedPeers=%v DefaultConnections=%q%s) on %s %s", max, allow, cfg.DisableTrustedPeers, cfg.DefaultConnections, customDesc, fileKind, strings.TrimSpace(strings.ReplaceAll(cacheJSON(entries), "\n", " ")))
		starts = append(starts, Tuple(fmt.Sprint(max), B(allow), B(cfg.DisableTrustedPeers), entriesCoq(entries), keysCoq(init), strsCoq(cfg.DefaultConnections), customCoq, zref(tStart), Some(dumpCoq(init))))
		var initAddrs []string
		for _, p := range init {
			initAddrs = append(initAddrs, p.Addr)
		}
		caseJSON["start"] = append(caseJSON["start"], map[string]interface{}{"start": startDesc, "loaded": strings.Join(initAddrs, " ")})
		hist.Add(fmt.Sprintf("start:file=%s:entries=%d:loaded=%d:max=%d:defaults=%d:custom=%v", fileKind, len(entries), len(init), max, len(cfg.DefaultConnections), customCoq != "None"))
		o.Count("start|"+startDesc, true)
		var steps []string
		var trace []string
		trace = append(trace, startDesc+" -> ["+strings.Join(initAddrs, " ")+"]")
		straddle := false
		pick := func() string {
			if r.Chance(75) {
				return pool[r.Intn(12)]
			}
			return pool[r.Intn(len(pool))]
		}
		existing := func() string {
			d := px.VerifC26Dump()
			if len(d) == 0 || r.Chance(15) {
				return pick()
			}
			return d[r.Intn(len(d))].Addr
		}
		nops := len(script) + 4 + r.Intn(20)
		if startOnly {
			nops = 0
		}
		basePick, baseExisting := pick, existing
		for j := 0; j < nops && !straddle; j++ {
			pre := px.VerifC26Dump()
			t0 := time.Now().Unix()
			var opS, outS, kind string
			isX := false
			k := r.Intn(25)
			var forced *fop
			pick, existing = basePick, baseExisting
			if j < len(script) {
				forced = &script[j]
				k = forced.k
				if forced.a != "" {
					fa := forced.a
					pick = func() string { return fa }
					existing = pick
				}
			}
			switch {
			case k < 6: // AddPeer
				a := pick()
				err := px.AddPeer(a)
				post := px.VerifC26Dump()
				victim := "None"
				for _, p := range pre {
					found := false
					for _, q := range post {
						if q.Addr == p.Addr {
							found = true
						}
					}
					if !found {
						victim = Some(strCoq(p.Addr))
					}
				}
				opS = fmt.Sprintf("AddPeer %s %s %s", strCoq(a), zref(t0), victim)
				switch err {
				case nil:
					outS = "OOk"
				case pex.ErrInvalidAddress:
					outS = "OInvalidAddress"
				case pex.ErrPeerlistFull:
					outS = "OPeerlistFull"
				default:
					panic("c26: unexpected AddPeer error " + err.Error())
				}
				kind = fmt.Sprintf("AddPeer(%q)=%s", a, errName(err))
				hist.Add("op:AddPeer:" + errName(err) + fmt.Sprintf(":evicted=%v", victim != "None"))
			case k < 10: // AddPeers
				n := r.Intn(6)
				addrs := make([]string, n)
				for i := range addrs {
					addrs[i] = basePick()
				}
				if forced != nil && forced.addrs != nil {
					addrs = forced.addrs
					n = len(addrs)
				}
				nvalid := 0
				for _, a := range addrs {
					if _, err := pex.VerifC26ValidateAddress(a, allow); err == nil {
						nvalid++
					}
				}
				seed := int64(r.U64() >> 1)
				rand.Seed(seed) //nolint:staticcheck // makes the global source (used by AddPeers' rand.Shuffle) replayable
				cp := append([]string{}, addrs...)
				cnt := px.AddPeers(cp)
				rand.Seed(seed) //nolint:staticcheck
				idx := make([]int, nvalid)
				for i := range idx {
					idx[i] = i
				}
				rand.Shuffle(nvalid, func(i, j int) { idx[i], idx[j] = idx[j], idx[i] })
				as := make([]string, n)
				for i, a := range addrs {
					as[i] = strCoq(a)
				}
				ps := make([]string, nvalid)
				for i, x := range idx {
					ps[i] = fmt.Sprintf("%d%%nat", x)
				}
				opS = fmt.Sprintf("AddPeers %s %s %s", in.Ref("A_", "list str", List(as)), in.Ref("N_", "list nat", List(ps)), zref(t0))
				outS = fmt.Sprintf("OCount %d", cnt)
				kind = fmt.Sprintf("AddPeers(%q)=%d", addrs, cnt)
				hist.Add(fmt.Sprintf("op:AddPeers:n=%d:valid=%d:added=%d", n, nvalid, cnt))
			case k < 12: // setTrusted
				a := existing()
				err := px.VerifC26SetTrusted(a)
				opS = "SetTrusted " + strCoq(a)
				switch {
				case err == nil:
					outS = "OOk"
				case err == pex.ErrInvalidAddress:
					outS = "OInvalidAddress"
				default:
					outS = "ONotFound"
				}
				kind = fmt.Sprintf("setTrusted(%q)=%s", a, outS)
				hist.Add("op:SetTrusted:" + outS)
			case k < 13:
				a := existing()
				px.RemovePeer(a)
				opS, outS, kind = "RemovePeer "+strCoq(a), "ONone", fmt.Sprintf("RemovePeer(%q)", a)
				hist.Add("op:RemovePeer")
			case k < 14:
				a := existing()
				px.IncreaseRetryTimes(a)
				opS, outS, kind = "IncreaseRetry "+strCoq(a)+" "+zref(t0), "ONone", fmt.Sprintf("IncreaseRetryTimes(%q)", a)
				hist.Add("op:IncreaseRetryTimes")
			case k < 15:
				a := existing()
				if forced != nil || r.Bool() {
					px.ResetRetryTimes(a)
					opS, outS, kind = "ResetRetry "+strCoq(a)+" "+zref(t0), "ONone", fmt.Sprintf("ResetRetryTimes(%q)", a)
				} else {
					px.ResetAllRetryTimes()
					opS, outS, kind = "ResetAllRetry", "ONone", "ResetAllRetryTimes()"
				}
				hist.Add("op:ResetRetry")
			case k < 16:
				a := existing()
				b := r.Bool()
				err := px.SetHasIncomingPort(a, b)
				opS = fmt.Sprintf("SetIncoming %s %s %s", strCoq(a), B(b), zref(t0))
				switch {
				case err == nil:
					outS = "OOk"
				case err == pex.ErrInvalidAddress:
					outS = "OInvalidAddress"
				default:
					outS = "ONotFound"
				}
				kind = fmt.Sprintf("SetHasIncomingPort(%q,%v)=%s", a, b, outS)
				hist.Add("op:SetHasIncomingPort:" + outS)
			case k < 18: // clearOld with an expiration no peer is within 3 s of
				exps := []int64{3600, 86400, 604800, 30}
				exp := exps[r.Intn(len(exps))]
				if forced != nil {
					exp = forced.exp
				}
				ok := true
				for _, p := range pre {
					d := t0 - p.LastSeen - exp
					if d > -3 && d < 3 {
						ok = false
					}
				}
				if !ok {
					continue
				}
				px.VerifC26ClearOld(time.Duration(exp) * time.Second)
				opS, outS, kind = fmt.Sprintf("ClearOld %d %s", exp, zref(t0)), "ONone", fmt.Sprintf("clearOld(%ds)", exp)
				hist.Add("op:clearOld")
			case k < 19:
				if forced == nil && r.Chance(70) {
					continue
				}
				px.VerifC26SetAllUntrusted()
				opS, outS, kind = "SetAllUntrusted", "ONone", "setAllUntrusted()"
				hist.Add("op:setAllUntrusted")
			case k == 23 && forced == nil: // the downloaded peer list is consumed
				text := genPeerListText(r, r.Intn(8), allow, r.Chance(40))
				nvalid := 0
				for _, ln := range strings.Split(text, "\n") {
					ln = strings.Join(strings.FieldsFunc(ln, func(c rune) bool { return c == ' ' || c == '\t' || c == '\r' || c == '\f' || c == '\n' }), "")
					if ln == "" {
						continue
					}
					if _, err := pex.VerifC26ValidateAddress(ln, false); err == nil {
						nvalid++
					}
				}
				seed := int64(r.U64() >> 1)
				rand.Seed(seed) //nolint:staticcheck
				cnt := px.VerifC26AddDownloaded(text)
				rand.Seed(seed) //nolint:staticcheck
				idx := make([]int, nvalid)
				for i := range idx {
					idx[i] = i
				}
				rand.Shuffle(nvalid, func(i, j int) { idx[i], idx[j] = idx[j], idx[i] })
				ps := make([]string, nvalid)
				for i, x := range idx {
					ps[i] = fmt.Sprintf("%d%%nat", x)
				}
				opS = fmt.Sprintf("Download %s %s %s", strCoq(text), in.Ref("N_", "list nat", List(ps)), zref(t0))
				outS, kind = fmt.Sprintf("OCount %d", cnt), fmt.Sprintf("downloaded(%q)=%d", text, cnt)
				isX = true
				hist.Add(fmt.Sprintf("op:downloaded:valid=%d:added=%d", nvalid, cnt))
			case k == 24 && forced == nil: // save(), then a new Pex on the same data directory
				if len(cfg.DefaultConnections) > 0 && max != 0 {
					continue
				}
				if err := px.VerifC26Save(); err != nil {
					return err
				}
				px2, err := pex.New(cfg)
				if err != nil {
					return fmt.Errorf("c26: pex.New after save failed: %v", err)
				}
				px = px2
				opS = fmt.Sprintf("Restart %s %s %s %s %s", keysCoq(px.VerifC26Dump()), strsCoq(cfg.DefaultConnections), B(cfg.DisableTrustedPeers), customCoq, zref(t0))
				outS, kind = "ONone", "save();restart"
				isX = true
				hist.Add("op:save+restart")
			default: // time passes for one peer
				a := existing()
				ages := []int64{100, 3700, 50000, 86000, 86400 + 50, 100000, 200000, 700000}
				t := t0 - ages[r.Intn(len(ages))] - int64(r.Intn(20))
				if forced != nil {
					t = t0 - forced.age
				}
				px.VerifC26SetLastSeen(a, t)
				opS, outS, kind = fmt.Sprintf("Aged %s %s", strCoq(a), zref(t)), "ONone", fmt.Sprintf("aged(%q,%d)", a, t0-t)
				hist.Add("op:aged")
			}
			if time.Now().Unix() != t0 {
				straddle = true // the operation may have read a different second: discard the sequence
				break
			}
			post := px.VerifC26Dump()
			xS := ""
			if isX {
				xS = in.Ref("x_", "xop", opS)
			} else {
				xS = in.Ref("x_", "xop", "Op "+in.Ref("o_", "op", opS))
			}
			steps = append(steps, in.Ref("R_", "xop * out * pl", Tuple(xS, outS, dumpCoq(post))))
			trace = append(trace, kind)
			o.Count(fmt.Sprintf("%v|%v|%d|%s", pre, allow, max, kind), true)
		}
		os.RemoveAll(dir)
		if straddle {
			hist.Add("seq:discarded-second-boundary")
			starts = starts[:len(starts)-1]
			caseJSON["start"] = caseJSON["start"][:len(caseJSON["start"])-1]
			continue
		}
		seqDone++
		ops = append(ops, Tuple(fmt.Sprint(max), B(allow), dumpCoq(init), List(steps)))
		caseJSON["ops"] = append(caseJSON["ops"], map[string]interface{}{"max": max, "allow_localhost": allow, "ops": strings.Join(trace, "; ")})
		if len(samples) < 8 && r.Intn(20) == 0 {
			samples = append(samples, map[string]interface{}{"max": max, "allow_localhost": allow, "ops": strings.Join(trace, "; ")})
		}
		hist.Add(fmt.Sprintf("seq:max=%d", max))
	}
	// ---------------- concurrency: overlapping AddPeers / AddPeer calls must not pass Max
	// (a run-time check on the implementation: no model, the interleaving is the scheduler's)
	var conc []string
	ntrial := 40
	if f.Tier == "thorough" || f.Tier == "search" {
		ntrial = 400
	}
	for trial := 0; trial < ntrial; trial++ {
		max := []int{1, 2, 4, 8, 16}[trial%5]
		k := 4 + trial%5
		px := pex.VerifC26New(max, false)
		pre := r.Intn(max) // some peers are there already
		for i := 0; i < pre; i++ {
			_ = px.AddPeer(fmt.Sprintf("30.%d.%d.1:7000", trial%250, i)) //nolint:errcheck
		}
		startC := make(chan struct{})
		stopC := make(chan struct{})
		doneC := make(chan struct{})
		var wg sync.WaitGroup
		maxSeen := 0
		go func() { // sample the length while the calls are running
			defer close(doneC)
			for {
				if n := len(px.VerifC26Dump()); n > maxSeen {
					maxSeen = n
				}
				select {
				case <-stopC:
					return
				default:
				}
			}
		}()
		for g := 0; g < k; g++ {
			batch := make([]string, 150+r.Intn(100))
			for i := range batch {
				batch[i] = fmt.Sprintf("2%d.%d.%d.%d:%d", g, trial%250, i/250, 1+i%250, 6000+g)
			}
			single := g%3 == 2 // every third goroutine uses AddPeer one by one
			wg.Add(1)
			go func() {
				defer wg.Done()
				<-startC
				for round := 0; round < 3; round++ {
					if single {
						for _, a := range batch[:20] {
							_ = px.AddPeer(a) //nolint:errcheck
						}
					} else {
						px.AddPeers(append([]string{}, batch...))
					}
				}
			}()
		}
		close(startC)
		wg.Wait()
		close(stopC)
		<-doneC
		final := px.VerifC26Dump()
		conc = append(conc, Tuple(fmt.Sprint(max), dumpCoq(final), fmt.Sprint(maxSeen)))
		caseJSON["conc"] = append(caseJSON["conc"], map[string]interface{}{"max": max, "goroutines": k, "peers_before": pre, "final_len": len(final), "max_len_sampled": maxSeen,
			"what": fmt.Sprintf("%d goroutines x 3 rounds of AddPeers(150..249 disjoint valid addresses) / AddPeer on a Pex with Max=%d and %d peers", k, max, pre)})
		hist.Add(fmt.Sprintf("conc:max=%d:goroutines=%d:final_len=%d", max, k, len(final)))
		o.Count(fmt.Sprintf("conc|%d|%d|%d", trial, max, k), true)
	}
	o.Def("cases_conc", "Z * pl * Z", conc)

	o.Def("cases_start", "Z * bool * bool * list fentry * list str * list str * option str * Z * option pl", starts)
	o.Def("cases_ops", "Z * bool * pl * list (xop * out * pl)", ops)

	o.Side["rule"] = fmt.Sprintf("validateAddress on %d adversarial strings x allowLocalhost {false,true} (IPv6, leading zeros, unicode digits / spaces, several colons, port boundaries 0/1023/1024/65535/65536, signs, hex, localhost, octet and classification boundaries, NUL / invalid UTF-8) + %d generated strings (structured from boundary pools, classification boundaries, whitespace injection, one-byte mutations, random bytes); %d peer-list operation sequences (Max in {0,1,3,5}, time passing via LastSeen, rand.Shuffle replayed through rand.Seed), peer list dumped after every operation; every sequence starts a real pex.New on its own data directory (plus start-only cases cycling AllowLocalhost x Max {0,1,3,5} on files that always hold a loopback, a public and a private address), 3 of 4 unscripted ones on a generated peers.json / legacy peers.txt / empty peers.json + peers.txt (0..8 or Max..Max+3 members from a catalogue of valid, loopback, private, multicast / unspecified / broadcast, port 0/80/1023/65536, malformed, IPv6 and whitespace-padded addresses; Addr equal / different / empty; LastSeen integer, RFC3339, float, null, bool, text, overflow, fresh to two months old; trusted / incoming flags, legacy HasIncomePort, repeated member names), with DisableTrustedPeers, DefaultConnections (also with Max > 0 when the file cannot be cut; a New that refuses to start is compared too) and a CustomPeersFile (0..6 or Max-1..Max+2 address lines, comments, blanks, padding, CR; 15% with invalid lines), downloaded peer list texts are consumed (parseRemotePeerList + AddPeers) in the middle of sequences, and save() + pex.New restarts happen in the middle of sequences; about half start with a scripted scenario around a threshold constant - 9..12 IncreaseRetryTimes (MaxPeerRetryTimes 10 -1/0/+1/+2) on a trusted and an untrusted peer, both aged to expiration -10/+10/+1000 s, then clearOld (the first 8 sequences walk this systematically); a full list aged around the one-day eviction age 86400 -10/+10/+-1000 s with some peers trusted, then AddPeer; a list filled to Max-2..Max then AddPeers; peers aged around each clearOld period - and then continue randomly. a concurrency group (run-time check, no model): 4-8 goroutines x 3 rounds of overlapping AddPeers (150-249 disjoint valid addresses each) / AddPeer on a Pex with Max in {1,2,4,8,16}, list length sampled during and checked afterwards. Non-trivial = validateAddress reached a check beyond the syntactic ones, or any list operation; distinct by input / (list, operation)", len(adversarial), nval, seqDone)
	o.Side["distribution"] = hist.Sorted()
	o.Side["samples"] = samples
	o.Side["cases"] = caseJSON
	return o.Write(f.Out, f.JSON)
}
