// Command c29: transaction paging (visor.NewPageIndex, PageIndex.Cal,
// txnHashesContainer.Pagination) observed on boundary-biased requests.
package main

import (
	"encoding/binary"
	"fmt"
	"math/big"

	. "verif/harness/kit"

	"github.com/skycoin/skycoin/src/cipher"
	"github.com/skycoin/skycoin/src/visor"
)

var sentinels = map[error]string{
	visor.ErrZeroPageSize:   "ErrZeroPageSize",
	visor.ErrZeroPageNum:    "ErrZeroPageNum",
	visor.ErrMaxTxnPageSize: "ErrMaxTxnPageSize",
}

func main() { Main(run) }

func u(x uint64) string { return fmt.Sprintf("%d", x) }

func calRes(p bool, s, e, t uint64, err error) string {
	if p {
		return "Panic"
	}
	return "(Val " + Tuple(Z(s), Z(e), Z(t), OptErr(ErrClass(err, sentinels))) + ")"
}

// hashes[i] encodes i, so a returned page can be mapped back to positions
func mkHashes(n int) []cipher.SHA256 {
	hs := make([]cipher.SHA256, n)
	for i := range hs {
		binary.BigEndian.PutUint64(hs[i][0:8], uint64(i))
		hs[i][31] = 0x5a
	}
	return hs
}

type pageObs struct {
	panicked bool
	items    []uint64
	total    uint64
	err      string
}

func (p pageObs) coq() string {
	if p.panicked {
		return "Panic"
	}
	it := make([]string, len(p.items))
	for i, x := range p.items {
		it[i] = Z(x)
	}
	return "(Val " + Tuple(List(it), Z(p.total), OptErr(p.err)) + ")"
}

// observe NewPageIndex(size, pageN) followed by Pagination over hs
func observePage(hs []cipher.SHA256, size, pageN uint64) pageObs {
	var o pageObs
	o.panicked = Guard(func() {
		pi, err := visor.NewPageIndex(size, pageN)
		if err != nil {
			o.err = ErrClass(err, sentinels)
			return
		}
		out, total, err := visor.VerifPaginate(hs, pi)
		if err != nil {
			o.err = ErrClass(err, sentinels)
			return
		}
		o.total = total
		for _, h := range out {
			o.items = append(o.items, binary.BigEndian.Uint64(h[0:8]))
		}
	})
	return o
}

// page numbers at which size*(n-1) wraps around 2^64 to a small value
func wrapPages(size uint64, all bool) []uint64 {
	var out []uint64
	if size < 2 {
		return out
	}
	w := new(big.Int).Lsh(big.NewInt(1), 64)
	lim := uint64(2)
	if all {
		lim = 6
	}
	for k := uint64(1); k < size && k <= lim; k++ {
		// n-1 = ceil(2^64 * k / size)
		x := new(big.Int).Mul(w, new(big.Int).SetUint64(k))
		x.Add(x, new(big.Int).SetUint64(size-1))
		x.Div(x, new(big.Int).SetUint64(size))
		x.Add(x, big.NewInt(1))
		if x.IsUint64() {
			out = append(out, x.Uint64())
		}
	}
	return out
}

func run(args []string) error {
	f := ParseFlags("c29", args)
	r := NewRng(f.Seed)
	n := f.Budget(600, 20000)
	thorough := f.Tier == "thorough" || f.Tier == "search"
	o := NewOut()
	hist := Hist{}
	var samples []map[string]interface{}
	caseJSON := map[string][]map[string]interface{}{}
	rec := func(group string, m map[string]interface{}) {
		caseJSON[group] = append(caseJSON[group], m)
		if len(samples) < 12 && r.Intn(n/6+1) == 0 {
			mm := map[string]interface{}{"group": group}
			for k, v := range m {
				mm[k] = v
			}
			samples = append(samples, mm)
		}
	}

	var cal, calraw, page, partition []string

	doCal := func(size, pageN, ln uint64) {
		var s, e, t uint64
		var newErr, err error
		p := Guard(func() {
			var pi *visor.PageIndex
			pi, newErr = visor.NewPageIndex(size, pageN)
			if newErr != nil {
				return
			}
			s, e, t, err = pi.Cal(ln)
		})
		cal = append(cal, Tuple(Z(size), Z(pageN), Z(ln), OptErr(ErrClass(newErr, sentinels)), calRes(p, s, e, t, err)))
		rec("cal", map[string]interface{}{"size": u(size), "page": u(pageN), "len": u(ln), "new_err": ErrClass(newErr, sentinels),
			"start": u(s), "end": u(e), "total": u(t), "err": ErrClass(err, sentinels), "panic": p})
		o.Count(fmt.Sprint("cal", size, pageN, ln), newErr == nil)
		cls := "ok"
		switch {
		case newErr != nil:
			cls = ErrClass(newErr, sentinels)
		case e == s:
			cls = "empty"
		case pageN > 1<<32:
			cls = "nonempty-hugepage"
		}
		hist.Add("cal:" + cls)
	}
	doCalRaw := func(size, pageN, ln uint64) {
		var s, e, t uint64
		var err error
		p := Guard(func() { s, e, t, err = visor.VerifPageIndex(size, pageN).Cal(ln) })
		calraw = append(calraw, Tuple(Z(size), Z(pageN), Z(ln), calRes(p, s, e, t, err)))
		rec("calraw", map[string]interface{}{"size": u(size), "page": u(pageN), "len": u(ln),
			"start": u(s), "end": u(e), "total": u(t), "err": ErrClass(err, sentinels), "panic": p})
		o.Count(fmt.Sprint("calraw", size, pageN, ln), err == nil)
		hist.Add("calraw:" + okErr(err))
	}
	doPage := func(ln int, size, pageN uint64) {
		ob := observePage(mkHashes(ln), size, pageN)
		page = append(page, Tuple(Z(uint64(ln)), Z(size), Z(pageN), ob.coq()))
		rec("page", map[string]interface{}{"len": ln, "size": u(size), "page": u(pageN), "items": fmt.Sprint(ob.items), "total": u(ob.total), "err": ob.err, "panic": ob.panicked})
		o.Count(fmt.Sprint("page", ln, size, pageN), ob.err == "")
		cls := "empty"
		if ob.err != "" {
			cls = ob.err
		} else if len(ob.items) > 0 {
			cls = "items"
		}
		hist.Add("page:" + cls)
	}
	doPartition := func(ln int, size uint64) {
		hs := mkHashes(ln)
		N := (uint64(ln) + size - 1) / size
		var obs []string
		add := func(pn uint64) {
			ob := observePage(hs, size, pn)
			obs = append(obs, Tuple(Z(pn), ob.coq()))
		}
		for pn := uint64(1); pn <= N; pn++ {
			add(pn)
		}
		extra := []uint64{N + 1, 1<<63 + 1, ^uint64(0)}
		if thorough {
			extra = append(extra, N+2, 1<<63-1, 1<<63, ^uint64(0)-1, 1<<32+1, r.U64Edge(), r.U64Edge())
		}
		extra = append(extra, wrapPages(size, thorough)...)
		extra = append(extra, r.U64Edge())
		for _, pn := range extra {
			if pn > N {
				add(pn)
			}
		}
		partition = append(partition, Tuple(Z(uint64(ln)), Z(size), List(obs)))
		rec("partition", map[string]interface{}{"len": ln, "size": u(size), "pages": N})
		o.Count(fmt.Sprint("part", ln, size), true)
		hist.Add(fmt.Sprintf("partition:pages<=%d", bucket(N)))
	}

	// ---- deterministic boundary grid
	sizes := []uint64{0, 1, 2, 3, 10, 100, 101, ^uint64(0)}
	lens := []uint64{0, 1, 10, 101, 1<<63 - 1, ^uint64(0)}
	if thorough {
		sizes = []uint64{0, 1, 2, 3, 7, 10, 64, 99, 100, 101, 1 << 63, ^uint64(0)}
		lens = []uint64{0, 1, 2, 9, 10, 11, 100, 101, 1000, 1<<63 - 1, 1 << 63, ^uint64(0)}
	}
	for _, size := range sizes {
		pages := []uint64{0, 1, 2, 1<<63 - 1, 1<<63 + 1, ^uint64(0)}
		if thorough {
			pages = append(pages, 3, 1<<63, ^uint64(0)-1, 1<<32+1)
		}
		pages = append(pages, wrapPages(size, thorough)...)
		for _, ln := range lens {
			ps := pages
			if size > 0 {
				N := ln / size
				ps = append(append([]uint64{}, pages...), N, N+1)
			}
			for _, pn := range ps {
				doCal(size, pn, ln)
				if size == 0 || size > 100 || thorough {
					doCalRaw(size, pn, ln)
				}
			}
		}
	}
	for _, size := range []uint64{0, 1, 2, 3, 100, 101} {
		for _, ln := range []int{0, 1, 10, 101} {
			pages := []uint64{0, 1, 2, 6, 1<<63 + 1, ^uint64(0)}
			pages = append(pages, wrapPages(size, thorough)...)
			for _, pn := range pages {
				doPage(ln, size, pn)
			}
		}
	}
	// ---- random, boundary biased
	randSize := func() uint64 {
		switch r.Intn(10) {
		case 0:
			return r.U64Edge()
		case 1:
			return uint64(98 + r.Intn(5))
		default:
			return uint64(1 + r.Intn(100))
		}
	}
	for i := 0; i < n; i++ {
		size := randSize()
		ln := r.U64Edge()
		if r.Chance(70) {
			ln = uint64(r.Intn(5000))
		}
		pn := r.U64Edge()
		switch r.Intn(4) {
		case 0:
			if size > 0 {
				pn = ln/size + uint64(r.Intn(4)) - 1
			}
		case 1:
			if w := wrapPages(size, true); len(w) > 0 {
				pn = w[r.Intn(len(w))] + uint64(r.Intn(3)) - 1
			}
		}
		doCal(size, pn, ln)
		if r.Chance(30) {
			doCalRaw(size, pn, ln)
		}
	}
	for i := 0; i < n/4; i++ {
		size := randSize()
		ln := r.Intn(300)
		pn := r.U64Edge()
		if r.Chance(60) && size > 0 {
			pn = uint64(ln)/size + uint64(r.Intn(4)) - 1
		}
		doPage(ln, size, pn)
	}
	// ---- partition sessions: every size 1..100 at least once (thorough: many lengths)
	for size := uint64(1); size <= 100; size++ {
		ls := []int{r.Intn(int(size)*3 + 2)}
		if ls[0] > 150 {
			ls[0] = 150 - r.Intn(int(size))
		}
		if size <= 7 {
			ls = append(ls, 90+r.Intn(20))
		}
		if size == 1 || size == 2 || size == 100 || thorough {
			ls = append(ls, 0, 1, int(size)-1, int(size), int(size)+1, int(size)*2)
		}
		if thorough {
			ls = append(ls, int(size)*3-1, int(size)*3+1)
			for k := 0; k < n/2000; k++ {
				ls = append(ls, r.Intn(1200))
			}
		}
		for _, ln := range ls {
			if ln < 0 {
				ln = 0
			}
			doPartition(ln, size)
		}
	}

	// ---- the real getters behind Visor.GetTransactions on a real node
	q, err := runQueries(r, o, hist, thorough)
	if err != nil {
		return err
	}
	caseJSON["query"] = q.sessJSON
	caseJSON["qorder"] = q.ordJSON
	o.Def("cases_query", "Z * Z * list (Z * res (list Z * Z * error))", q.sessions)
	o.Def("cases_qorder", "bool * list Z", q.orders)

	// ---- the HTTP parameter decoding of GET /api/v2/transactions
	apiCases, apiJS, err := runPageAPI(r, o, hist, thorough)
	if err != nil {
		return err
	}
	caseJSON["apipage"] = apiJS
	o.Def("cases_apipage", "list Z * list Z * (Z * Z * Z)", apiCases)

	o.Def("cases_cal", "Z * Z * Z * error * res (Z * Z * Z * error)", cal)
	o.Def("cases_calraw", "Z * Z * Z * res (Z * Z * Z * error)", calraw)
	o.Def("cases_page", "Z * Z * Z * res (list Z * Z * error)", page)
	o.Def("cases_partition", "Z * Z * list (Z * res (list Z * Z * error))", partition)
	o.Side["rule"] = "requests (size, page number, list length) from a boundary grid (size 0/1/100/101/2^63/2^64-1, page 0/1/2^63±1/2^64-1 and every page at which size*(page-1) wraps round 2^64, length 0..2^64-1) plus boundary-biased random; real Pagination on lists of <=300 (sessions <=2000) distinct hashes; Visor.GetTransactions on a real node (blocks + unconfirmed pool) for confirmed any/true/false x address sets (none, one, several, duplicated) x asc/desc, every page for sizes 1,2,3,len/2,len-1,len,len+1 compared with the unpaged answer of the same query; a case is non-trivial when NewPageIndex accepted the request; distinct by input tuple"
	o.Side["distribution"] = hist.Sorted()
	o.Side["samples"] = samples
	o.Side["cases"] = caseJSON
	return o.Write(f.Out, f.JSON)
}

func bucket(n uint64) uint64 {
	b := uint64(1)
	for b < n {
		b *= 4
	}
	return b
}

func okErr(err error) string {
	if err == nil {
		return "ok"
	}
	return "err"
}
