package main

// Paging of the real getters: Visor.GetTransactions (transactionModel and its
// confirmed / unconfirmed / full getters) on a real node with a few blocks and
// a populated unconfirmed pool. Every paged answer is compared with the single
// unpaged answer of the same query.

import (
	"encoding/hex"
	"fmt"
	"sort"
	"strings"

	. "verif/harness/kit"
	nk "verif/harness/nodekit"

	"github.com/skycoin/skycoin/src/cipher"
	"github.com/skycoin/skycoin/src/coin"
	"github.com/skycoin/skycoin/src/visor"
)

type queryOut struct {
	sessions []string // cases_query : (len, size, [(page, observed)])
	orders   []string // cases_qorder : (desc, keys of the unpaged list)
	sessJSON []map[string]interface{}
	ordJSON  []map[string]interface{}
}

func short(h cipher.SHA256) string { return hex.EncodeToString(h[:4]) }

// buildNode makes a publisher node with nBlocks blocks after the split block
// and nPool transactions left in the unconfirmed pool.
func buildNode(r *Rng, nBlocks, perBlock, nPool int) (*nk.World, *nk.Node, error) {
	w, err := nk.NewWorld(r, "c29")
	if err != nil {
		return nil, nil, err
	}
	pub, err := w.NewNode("pub", true, cipher.Sig{})
	if err != nil {
		w.Cleanup()
		return nil, nil, err
	}
	fail := func(e error) (*nk.World, *nk.Node, error) {
		pub.Close()
		w.Cleanup()
		return nil, nil, e
	}
	if _, err := w.GenesisSig(pub); err != nil {
		return fail(err)
	}
	var gen coin.UxOut
	for _, ux := range w.Ux {
		gen = ux
	}
	nOut := nBlocks*perBlock + nPool + 2
	left := gen.Body.Coins
	var outs []coin.TransactionOutput
	for i := 0; i < nOut; i++ {
		coins := uint64(10+r.Intn(50)) * 1000000
		outs = append(outs, coin.TransactionOutput{Address: w.Addrs[i%(nk.NKeys-1)], Coins: coins, Hours: uint64(1000 + r.Intn(2000))})
		left -= coins
	}
	outs = append(outs, coin.TransactionOutput{Address: w.Addrs[0], Coins: left, Hours: 1000})
	outs = w.Uniq(outs)
	now := nk.GenesisTime + 10
	mkBlock := func(txns []coin.Transaction) error {
		for _, t := range txns {
			if _, _, err := pub.V.InjectForeignTransaction(t); err != nil {
				return fmt.Errorf("inject: %v", err)
			}
		}
		sb, err := pub.V.VerifCreateBlock(now)
		if err != nil {
			return fmt.Errorf("create block: %v", err)
		}
		if err := pub.V.ExecuteSignedBlock(sb); err != nil {
			return fmt.Errorf("execute block: %v", err)
		}
		w.RecordBlock(sb)
		now += 10 + uint64(r.Intn(100))
		return nil
	}
	split := w.BuildTxn([]cipher.SHA256{gen.Hash()}, outs, nk.TxOpts{})
	if err := mkBlock([]coin.Transaction{split}); err != nil {
		return fail(err)
	}
	// the outputs of the split, in a fixed order
	var spendable coin.UxArray
	for _, ux := range w.Ux {
		if ux.Body.SrcTransaction == split.Hash() && ux.Body.Coins < 1000000000 {
			spendable = append(spendable, ux)
		}
	}
	sort.Slice(spendable, func(i, j int) bool { return spendable[i].Hash().Hex() < spendable[j].Hash().Hex() })
	next := 0
	spendOne := func() (coin.Transaction, bool) {
		if next >= len(spendable) {
			return coin.Transaction{}, false
		}
		ux := spendable[next]
		next++
		return w.Spend(coin.UxArray{ux}, now, nk.SpendOpts{Fee: "min", NOut: 1 + r.Intn(3)}), true
	}
	for b := 0; b < nBlocks; b++ {
		var txns []coin.Transaction
		for k := 0; k < perBlock; k++ {
			if t, ok := spendOne(); ok {
				txns = append(txns, t)
			}
		}
		if err := mkBlock(txns); err != nil {
			return fail(err)
		}
	}
	for k := 0; k < nPool; k++ {
		t, ok := spendOne()
		if !ok {
			break
		}
		if _, _, err := pub.V.InjectForeignTransaction(t); err != nil {
			return fail(fmt.Errorf("pool inject: %v", err))
		}
	}
	return w, pub, nil
}

func hashesOf(txns []visor.Transaction) []cipher.SHA256 {
	hs := make([]cipher.SHA256, len(txns))
	for i, t := range txns {
		hs[i] = t.Transaction.Hash()
	}
	return hs
}

// runQueries drives Visor.GetTransactions on the node.
func runQueries(r *Rng, o *Out, hist Hist, thorough bool) (*queryOut, error) {
	nBlocks, perBlock, nPool := 3, 3, 7
	if thorough {
		nBlocks, perBlock, nPool = 5, 4, 12
	}
	w, node, err := buildNode(r, nBlocks, perBlock, nPool)
	if err != nil {
		return nil, err
	}
	defer w.Cleanup()
	defer node.Close()
	q := &queryOut{}

	type addrSet struct {
		name string
		idx  []int
	}
	sets := []addrSet{{"all", nil}, {"a0", []int{0}}, {"a1,a3", []int{1, 3}}, {"a0..a4", []int{0, 1, 2, 3, 4}}, {"a2,a2", []int{2, 2}}, {"a4,a1", []int{4, 1}}}
	if thorough {
		sets = append(sets, addrSet{"a3", []int{3}}, addrSet{"a2,a0,a4", []int{2, 0, 4}}, addrSet{"a5(none)", []int{5}})
	}
	confs := []string{"any", "true", "false"}
	orders := []visor.SortOrder{visor.AscOrder, visor.DescOrder}
	for _, as := range sets {
		for _, cf := range confs {
			for _, ord := range orders {
				var flts []visor.TxFilter
				if as.idx != nil {
					var addrs []cipher.Address
					for _, i := range as.idx {
						addrs = append(addrs, w.Addrs[i])
					}
					flts = append(flts, visor.NewAddrsFilter(addrs))
				}
				switch cf {
				case "true":
					flts = append(flts, visor.NewConfirmedTxFilter(true))
				case "false":
					flts = append(flts, visor.NewConfirmedTxFilter(false))
				}
				ordName := "asc"
				if ord == visor.DescOrder {
					ordName = "desc"
				}
				var all []visor.Transaction
				var allPages uint64
				var qerr error
				if Guard(func() { all, allPages, qerr = node.V.GetTransactions(flts, ord, nil) }) || qerr != nil {
					return nil, fmt.Errorf("unpaged GetTransactions(%s,%s,%s): %v", as.name, cf, ordName, qerr)
				}
				_ = allPages
				L := hashesOf(all)
				pos := map[cipher.SHA256]int{}
				for i, h := range L {
					if _, dup := pos[h]; !dup {
						pos[h] = i
					}
				}
				// order of the unpaged list: block seq (unconfirmed last), or hash for the pool-only query
				var keys []string
				interleaved := false
				for i, t := range all {
					switch {
					case cf == "false":
						keys = append(keys, nk.HashZ(L[i]))
					case t.Status.Confirmed:
						keys = append(keys, Z(t.Status.BlockSeq))
					default:
						// "any" queries: the full getter numbers pool transactions from the seq of
						// the LAST CANDIDATE (not the highest seq), so they can sort among confirmed
						// ones; their position is C07's subject, only the confirmed ones are checked
						interleaved = interleaved || i+1 < len(all) && all[i+1].Status.Confirmed
					}
				}
				q.orders = append(q.orders, Tuple(B(ord == visor.DescOrder), List(keys)))
				if ord == visor.AscOrder && cf == "any" {
					hist.Add(fmt.Sprintf("qorder:any-asc:pool-txn-before-confirmed=%v", interleaved))
				}
				var sh []string
				for _, h := range L {
					sh = append(sh, short(h))
				}
				q.ordJSON = append(q.ordJSON, map[string]interface{}{"call": "Visor.GetTransactions", "addrs": as.name, "confirmed": cf, "order": ordName, "page": "nil", "result": strings.Join(sh, " ")})
				o.Count(fmt.Sprint("qorder", as.name, cf, ordName), len(L) > 1)

				n := len(L)
				sizeSet := map[int]bool{1: true, 2: true}
				for _, s := range []int{n - 1, n, n + 1, (n + 1) / 2, 3} {
					if s >= 1 && s <= 100 {
						sizeSet[s] = true
					}
				}
				if thorough {
					sizeSet[5], sizeSet[7], sizeSet[100] = true, true, true
				}
				var sizes []int
				for s := range sizeSet {
					sizes = append(sizes, s)
				}
				sort.Ints(sizes)
				for _, size := range sizes {
					N := (uint64(n) + uint64(size) - 1) / uint64(size)
					var obs, pagesShown []string
					ask := func(pn uint64) {
						var ob pageObs
						ob.panicked = Guard(func() {
							pi, err := visor.NewPageIndex(uint64(size), pn)
							if err != nil {
								ob.err = ErrClass(err, sentinels)
								return
							}
							txns, total, err := node.V.GetTransactions(flts, ord, pi)
							if err != nil {
								ob.err = err.Error()
								return
							}
							ob.total = total
							for _, h := range hashesOf(txns) {
								if p, ok := pos[h]; ok {
									ob.items = append(ob.items, uint64(p))
								} else {
									ob.items = append(ob.items, 1<<40) // not in the unpaged answer
								}
							}
							var s []string
							for _, h := range hashesOf(txns) {
								s = append(s, short(h))
							}
							pagesShown = append(pagesShown, fmt.Sprintf("p%d=[%s]", pn, strings.Join(s, " ")))
						})
						obs = append(obs, Tuple(Z(pn), ob.coq()))
					}
					for pn := uint64(1); pn <= N; pn++ {
						ask(pn)
					}
					ask(N + 1)
					ask(1<<63 + 1)
					q.sessions = append(q.sessions, Tuple(Z(uint64(n)), Z(uint64(size)), List(obs)))
					q.sessJSON = append(q.sessJSON, map[string]interface{}{"call": "Visor.GetTransactions", "addrs": as.name, "confirmed": cf, "order": ordName,
						"page_size": size, "unpaged_len": n, "unpaged": strings.Join(sh, " "), "pages": strings.Join(pagesShown, " ")})
					o.Count(fmt.Sprint("query", as.name, cf, ordName, size), n > 0)
					hist.Add(fmt.Sprintf("query:confirmed=%s:len<=%d", cf, bucket(uint64(n))))
				}
			}
		}
	}
	return q, nil
}
