package main

// GET /api/v2/transactions: decoding of the page / limit parameters by the real
// handler behind the real mux (verif export of C27). The gateway is a stub that
// records the PageIndex it is handed and returns an empty page.

import (
	"fmt"
	"net/http"
	"net/http/httptest"
	"net/url"

	. "verif/harness/kit"

	"github.com/skycoin/skycoin/src/api"
	"github.com/skycoin/skycoin/src/util/logging"
	"github.com/skycoin/skycoin/src/visor"
)

type pageGateway struct {
	api.Gatewayer // nil: any other call panics
	called        bool
	size, page    uint64
}

func (g *pageGateway) GetTransactions(flts []visor.TxFilter, order visor.SortOrder, page *visor.PageIndex) ([]visor.Transaction, uint64, error) {
	g.called = true
	if page != nil {
		g.size, g.page = page.Size(), page.PageNum()
	}
	return nil, 7, nil
}

func (g *pageGateway) GetTransactionsWithInputs(flts []visor.TxFilter, order visor.SortOrder, page *visor.PageIndex) ([]visor.Transaction, [][]visor.TransactionInput, uint64, error) {
	g.called = true
	if page != nil {
		g.size, g.page = page.Size(), page.PageNum()
	}
	return nil, nil, 7, nil
}

func runPageAPI(r *Rng, o *Out, hist Hist, thorough bool) ([]string, []map[string]interface{}, error) {
	logging.Disable()
	gw := &pageGateway{}
	en := map[string]struct{}{"READ": {}, "TXN": {}}
	var mux *http.ServeMux
	if Guard(func() {
		mux = api.VerifNewServerMux(api.VerifMuxConfig{Host: "127.0.0.1:6420", DisableCSRF: true, DisableHeaderCheck: true, DisableCSP: true, EnabledAPISets: en}, gw)
	}) || mux == nil {
		return nil, nil, fmt.Errorf("newServerMux panicked")
	}
	pages := []string{"", "1", "2", "2147483648", "4294967295", "4294967296", "4294967297", "1099511627776", "9223372036854775807", "9223372036854775808",
		"9223372036854775809", "18446744073709551615", "18446744073709551616", "-1", "0", "x", "+1", "01", "1.0", " 1", "1e3", "0x10", "1_0", "99999999999999999999999"}
	limits := []string{"", "1", "10", "100", "0", "101", "18446744073709551615", "18446744073709551616", "-1", "x", "4294967296"}
	for i := 0; i < 6; i++ {
		pages = append(pages, fmt.Sprint(r.U64Edge()))
	}
	if thorough {
		for i := 0; i < 200; i++ {
			pages = append(pages, fmt.Sprint(r.U64Edge()))
		}
		for i := 0; i < 10; i++ {
			limits = append(limits, fmt.Sprint(r.Intn(120)))
		}
	}
	var cases []string
	var js []map[string]interface{}
	for _, verbose := range []string{"", "1"} {
		for _, p := range pages {
			for _, l := range limits {
				if verbose == "1" && len(cases)%3 != 0 {
					continue
				}
				q := url.Values{}
				if p != "" {
					q.Set("page", p)
				}
				if l != "" {
					q.Set("limit", l)
				}
				if verbose != "" {
					q.Set("verbose", verbose)
				}
				gw.called, gw.size, gw.page = false, 0, 0
				rec := httptest.NewRecorder()
				panicked := Guard(func() {
					mux.ServeHTTP(rec, httptest.NewRequest(http.MethodGet, "http://127.0.0.1:6420/api/v2/transactions?"+q.Encode(), nil))
				})
				code := uint64(rec.Code)
				if panicked {
					code = 599
				}
				cases = append(cases, Tuple(Bytes([]byte(p)), Bytes([]byte(l)), Tuple(Z(code), Z(gw.size), Z(gw.page))))
				js = append(js, map[string]interface{}{"request": "GET /api/v2/transactions?" + q.Encode(), "page": p, "limit": l, "http_status": code,
					"gateway_called": gw.called, "gateway_page_size": fmt.Sprint(gw.size), "gateway_page": fmt.Sprint(gw.page)})
				o.Count(fmt.Sprint("apipage", p, l, verbose), code == 200)
				hist.Add(fmt.Sprintf("apipage:%d", code))
			}
		}
	}
	return cases, js, nil
}
