// Command c25: correspondence of Model/Intro.v with IntroductionMessage.Verify
// and with the gate of Daemon.onMessageEvent, and the decidable form of the
// property on the implementation's own verdicts (property C25).
package main

import (
	"encoding/binary"
	"fmt"
	"strings"

	. "verif/harness/kit"

	"github.com/sirupsen/logrus"

	"github.com/skycoin/skycoin/src/cipher"
	"github.com/skycoin/skycoin/src/coin"
	"github.com/skycoin/skycoin/src/daemon"
	"github.com/skycoin/skycoin/src/daemon/gnet"
	"github.com/skycoin/skycoin/src/daemon/pex"
	"github.com/skycoin/skycoin/src/params"
	"github.com/skycoin/skycoin/src/util/logging"
	"github.com/skycoin/skycoin/src/util/useragent"
)

var in *Interner

func bytesCoq(b []byte) string {
	it := make([]string, len(b))
	for i, x := range b {
		it[i] = fmt.Sprintf("x%02x", x)
	}
	return in.Ref("b_", "bytes", "bs "+List(it))
}

var reasons = map[error]string{
	daemon.ErrDisconnectSelf:                        "RSelf",
	daemon.ErrDisconnectVersionNotSupported:         "RVersionNotSupported",
	daemon.ErrDisconnectBlockchainPubkeyNotProvided: "RPubkeyNotProvided",
	daemon.ErrDisconnectInvalidExtraData:            "RInvalidExtraData",
	daemon.ErrDisconnectBlockchainPubkeyNotMatched:  "RPubkeyNotMatched",
	daemon.ErrDisconnectInvalidBurnFactor:           "RInvalidBurnFactor",
	daemon.ErrDisconnectInvalidMaxTransactionSize:   "RInvalidMaxTransactionSize",
	daemon.ErrDisconnectInvalidMaxDropletPrecision:  "RInvalidMaxDropletPrecision",
	daemon.ErrDisconnectInvalidUserAgent:            "RInvalidUserAgent",
	daemon.ErrDisconnectNoIntroduction:              "RNoIntroduction",
}

const (
	ourMirror  = 0x1234
	minVersion = 2
)

var (
	pubkey  cipher.PubKey
	genesis cipher.SHA256
	dc      daemon.DaemonConfig
)

// the user agent string Verify will look at (offset 42: 4-byte length, then the
// bytes), when there is one, and whether useragent.Parse(Sanitize(.)) accepts it
func uaOracle(extra []byte) string {
	if len(extra) < 46 {
		return "None"
	}
	n := uint64(binary.LittleEndian.Uint32(extra[42:46]))
	if n > uint64(len(extra)-46) {
		return "None"
	}
	ua := string(extra[46 : 46+n])
	_, err := useragent.Parse(useragent.Sanitize(ua))
	return Some(Tuple(bytesCoq([]byte(ua)), B(err == nil)))
}

type introCase struct {
	mirror  uint32
	version int32
	extra   []byte
}

// verify runs the real Verify; returns the Coq `res verdict` and a short class
func verify(c introCase) (string, string) {
	m := &daemon.IntroductionMessage{Mirror: c.mirror, ProtocolVersion: c.version, ListenPort: 6000, Extra: append([]byte{}, c.extra...)}
	var err error
	p := Guard(func() { err = m.Verify(dc, logrus.Fields{}) })
	if p {
		return "Panic", "PANIC"
	}
	if err == nil {
		ua := []byte{}
		if len(c.extra) >= 46 {
			n := uint64(binary.LittleEndian.Uint32(c.extra[42:46]))
			if n <= uint64(len(c.extra)-46) {
				ua = c.extra[46 : 46+n]
			}
		}
		acc := fmt.Sprintf("mkAccepted %d %d %d %s %s", m.UnconfirmedVerifyTxn.BurnFactor, m.UnconfirmedVerifyTxn.MaxTransactionSize,
			m.UnconfirmedVerifyTxn.MaxDropletPrecision, bytesCoq(ua), bytesCoq(m.GenesisHash[:]))
		return "(Val (Accept (" + acc + ")))", "accept"
	}
	r, ok := reasons[err]
	if !ok {
		panic("c25: unexpected Verify error: " + err.Error())
	}
	return "(Val (Reject " + r + "))", r
}

func validExtra(ua string, vt params.VerifyTxn, withGenesis bool) []byte {
	var e []byte
	e = append(e, pubkey[:]...)
	b := make([]byte, 9)
	binary.LittleEndian.PutUint32(b[0:], vt.BurnFactor)
	binary.LittleEndian.PutUint32(b[4:], vt.MaxTransactionSize)
	b[8] = vt.MaxDropletPrecision
	e = append(e, b...)
	l := make([]byte, 4)
	binary.LittleEndian.PutUint32(l, uint32(len(ua)))
	e = append(e, l...)
	e = append(e, ua...)
	if withGenesis {
		e = append(e, genesis[:]...)
	}
	return e
}

func main() { Main(run) }

func run(args []string) error {
	f := ParseFlags("c25", args)
	logging.Disable()
	r := NewRng(f.Seed)
	o := NewOut()
	in = NewInterner(o)
	hist := Hist{}
	caseJSON := map[string][]map[string]interface{}{}
	var samples []map[string]interface{}
	o.Raw("Definition bs (l : list Byte.byte) : bytes := map (fun b => Z.of_N (Byte.to_N b)) l.\n")

	copy(pubkey[:], r.Bytes(33))
	pubkey[0] = 0x02
	copy(genesis[:], r.Bytes(32))
	dc = daemon.NewConfig().Daemon
	dc.Mirror = ourMirror
	dc.MinProtocolVersion = minVersion
	dc.BlockchainPubkey = pubkey
	dc.GenesisHash = genesis
	o.Raw(fmt.Sprintf("Definition the_cfg : config := mkConfig %d %d %s.\n", ourMirror, minVersion, bytesCoq(pubkey[:])))

	goodVT := params.VerifyTxn{BurnFactor: 10, MaxTransactionSize: 32768, MaxDropletPrecision: 3}
	goodUA := "skycoin:0.26.0(verif)"

	// ---------------- Verify
	var ver []string
	do := func(c introCase, kind string) {
		res, class := verify(c)
		ver = append(ver, Tuple(in.Ref("m_", "intro_msg", fmt.Sprintf("mkIntro %d %s %s", c.mirror, ZI(int64(c.version)), bytesCoq(c.extra))), uaOracle(c.extra), res))
		cj := map[string]interface{}{"mirror": c.mirror, "version": c.version, "extra_hex": fmt.Sprintf("%x", c.extra), "extra_len": len(c.extra), "kind": kind, "result": class}
		caseJSON["verify"] = append(caseJSON["verify"], cj)
		o.Count(fmt.Sprintf("%d|%d|%x", c.mirror, c.version, c.extra), class != "RPubkeyNotMatched" || kind != "random")
		hist.Add("verify:" + kind + ":" + class)
		if len(samples) < 8 && r.Intn(120) == 0 {
			samples = append(samples, cj)
		}
	}
	ok := func(extra []byte) introCase { return introCase{mirror: 7, version: 3, extra: extra} }
	reps := 1
	if f.Tier == "thorough" || f.Tier == "search" {
		reps = 12
	}
	for rep := 0; rep < reps; rep++ {
		// every length 0..120, random content / random content behind the right pubkey / behind pubkey and valid params
		for n := 0; n <= 120; n++ {
			do(ok(r.Bytes(n)), "random")
			e := r.Bytes(n)
			copy(e, pubkey[:])
			do(ok(e), "random-after-pubkey")
			if n >= 42 {
				e2 := append([]byte{}, e...)
				copy(e2[33:], validExtra("", goodVT, false)[33:42])
				if n >= 46 && r.Chance(70) { // a plausible length prefix
					binary.LittleEndian.PutUint32(e2[42:], uint32(r.Intn(n-46+3)))
				}
				do(ok(e2), "random-after-params")
			}
		}
		// a valid message truncated at every offset, and extended by up to 70 bytes
		for _, g := range []bool{true, false} {
			full := validExtra(goodUA, goodVT, g)
			for k := 0; k <= len(full); k++ {
				do(ok(full[:k]), "truncated")
			}
			for k := 1; k <= 70; k++ {
				do(ok(append(append([]byte{}, full...), r.Bytes(k)...)), "extended")
			}
		}
	}
	// mutated fields
	uas := []string{goodUA, "skycoin:0.26.0", "a:1.2.3", "", "skycoin", "skycoin:0.26", "skycoin:0.26.0(", "<script>:1.2.3", "sky coin:0.26.0", "skycoin:0.26.0(ok;remark)",
		"skycoin:01.2.3", "skycoin:0.26.0\x00", "skycoin:0.26.0\n", "ｓkycoin:0.26.0", strings.Repeat("a", 250) + ":1.2.3", strings.Repeat("a", 251) + ":1.2.3", strings.Repeat("a", 300) + ":1.2.3"}
	for _, ua := range uas {
		for _, g := range []bool{true, false} {
			do(ok(validExtra(ua, goodVT, g)), "user-agent")
		}
	}
	for _, bf := range []uint32{0, 1, 2, 3, 1 << 31, ^uint32(0)} {
		for _, mts := range []uint32{0, 1023, 1024, 1025, ^uint32(0)} {
			for _, mdp := range []uint8{0, 6, 7, 255} {
				do(ok(validExtra(goodUA, params.VerifyTxn{BurnFactor: bf, MaxTransactionSize: mts, MaxDropletPrecision: mdp}, true)), "params")
			}
		}
	}
	base := validExtra(goodUA, goodVT, false)
	for _, n := range []uint32{0, 1, uint32(len(goodUA)) - 1, uint32(len(goodUA)) + 1, 255, 256, 257, 1 << 16, 1 << 31, (1 << 31) - 1, ^uint32(0)} {
		for _, tail := range []int{0, 1, 31, 32, 33, 300} {
			e := append([]byte{}, base...)
			binary.LittleEndian.PutUint32(e[42:], n)
			e = append(e, r.Bytes(tail)...)
			do(ok(e), "length-prefix")
		}
	}
	for _, tail := range []int{0, 1, 2, 16, 30, 31, 32, 33, 63, 64, 65} {
		do(ok(append(append([]byte{}, base...), r.Bytes(tail)...)), "genesis-tail")
	}
	for i := 0; i < 33; i++ {
		e := validExtra(goodUA, goodVT, true)
		e[i] ^= 1 << uint(r.Intn(8))
		do(ok(e), "pubkey-bit")
	}
	full := validExtra(goodUA, goodVT, true)
	for _, mv := range []struct {
		m uint32
		v int32
	}{{ourMirror, 3}, {ourMirror, 0}, {7, 1}, {7, 2}, {7, 0}, {7, -1}, {7, -2147483648}, {7, 2147483647}, {0, 2}, {ourMirror + 1, 2}} {
		do(introCase{mirror: mv.m, version: mv.v, extra: full}, "mirror-version")
		do(introCase{mirror: mv.m, version: mv.v, extra: nil}, "mirror-version")
	}
	o.Def("cases_verify", "intro_msg * option (bytes * bool) * res verdict", ver)

	// ---------------- the gate: all message kinds in all orders of length <= 3 on a fresh connection
	type mk struct {
		name string
		coq  string // event as Coq term: GOther kind | GIntro msg oracle
		make func() gnet.Message
		pass bool // Verify accepts (intro only)
	}
	introOK := func() *daemon.IntroductionMessage {
		return &daemon.IntroductionMessage{Mirror: 7, ProtocolVersion: 3, ListenPort: 6000, Extra: validExtra(goodUA, goodVT, true)}
	}
	badExtra := validExtra(goodUA, goodVT, true)
	badExtra[5] ^= 0x40
	introBad := func() *daemon.IntroductionMessage {
		return &daemon.IntroductionMessage{Mirror: 7, ProtocolVersion: 3, ListenPort: 6000, Extra: append([]byte{}, badExtra...)}
	}
	introCoq := func(m *daemon.IntroductionMessage) string {
		return fmt.Sprintf("GIntro %s %s", in.Ref("m_", "intro_msg", fmt.Sprintf("mkIntro %d %s %s", m.Mirror, ZI(int64(m.ProtocolVersion)), bytesCoq(m.Extra))), uaOracle(m.Extra))
	}
	maxLen := uint64(256 * 1024)
	kinds := []mk{
		{"INTR(valid)", introCoq(introOK()), func() gnet.Message { return introOK() }, true},
		{"INTR(wrong pubkey)", introCoq(introBad()), func() gnet.Message { return introBad() }, false},
		{"DISC", "GOther KDisc", func() gnet.Message { return daemon.NewDisconnectMessage(daemon.ErrDisconnectIdle) }, false},
		{"GIVP", "GOther KGivePeers", func() gnet.Message { return daemon.NewGivePeersMessage([]pex.Peer{}, maxLen) }, false},
		{"GETP", "GOther KGetPeers", func() gnet.Message { return daemon.NewGetPeersMessage() }, false},
		{"PING", "GOther KPing", func() gnet.Message { return &daemon.PingMessage{} }, false},
		{"PONG", "GOther KPong", func() gnet.Message { return &daemon.PongMessage{} }, false},
		{"GETB", "GOther KGetBlocks", func() gnet.Message { return daemon.NewGetBlocksMessage(1, 10) }, false},
		{"GIVB", "GOther KGiveBlocks", func() gnet.Message { return daemon.NewGiveBlocksMessage([]coin.SignedBlock{}, maxLen) }, false},
		{"ANNB", "GOther KAnnounceBlocks", func() gnet.Message { return daemon.NewAnnounceBlocksMessage(5) }, false},
		{"GETT", "GOther KGetTxns", func() gnet.Message { return daemon.NewGetTxnsMessage([]cipher.SHA256{genesis}, maxLen) }, false},
		{"GIVT", "GOther KGiveTxns", func() gnet.Message { return daemon.NewGiveTxnsMessage([]coin.Transaction{}, maxLen) }, false},
		{"ANNT", "GOther KAnnounceTxns", func() gnet.Message { return daemon.NewAnnounceTxnsMessage([]cipher.SHA256{genesis}, maxLen) }, false},
	}
	var gate []string
	var seqs [][]int
	for a := range kinds {
		seqs = append(seqs, []int{a})
		for b := range kinds {
			seqs = append(seqs, []int{a, b})
			for c := range kinds {
				seqs = append(seqs, []int{a, b, c})
			}
		}
	}
	if f.Tier == "thorough" || f.Tier == "search" { // plus random orders of length 4..6
		for i := 0; i < 4000; i++ {
			n := 4 + r.Intn(3)
			s := make([]int, n)
			for j := range s {
				s[j] = r.Intn(len(kinds))
			}
			seqs = append(seqs, s)
		}
	}
	// the daemon configuration dimension: everything a Handle / process method
	// branches on (LogPings, pex.Config.Disabled, DisableNetworking). The base
	// configuration runs every sequence; the others all orders of length <= 2. With
	// networking enabled there is no visor behind the block / transaction handlers,
	// so those runs never deliver the valid introduction (the gate stops the rest).
	type gcfg struct {
		name                         string
		logPings, pexOff, networking bool
	}
	type grun struct {
		cfg gcfg
		seq []int
	}
	var runs []grun
	baseCfg := gcfg{"LogPings=true pex.Disabled=false DisableNetworking=true", true, false, false}
	for _, s := range seqs {
		runs = append(runs, grun{baseCfg, s})
	}
	for _, c := range []gcfg{
		{"LogPings=false pex.Disabled=false DisableNetworking=true", false, false, false},
		{"LogPings=true pex.Disabled=true DisableNetworking=true", true, true, false},
		{"LogPings=false pex.Disabled=true DisableNetworking=true", false, true, false},
		{"LogPings=true pex.Disabled=false DisableNetworking=false", true, false, true},
		{"LogPings=false pex.Disabled=true DisableNetworking=false", false, true, true},
	} {
		for _, s := range seqs {
			if len(s) > 2 {
				continue
			}
			skip := false
			for _, ki := range s {
				if c.networking && kinds[ki].pass {
					skip = true
				}
			}
			if !skip {
				runs = append(runs, grun{c, s})
			}
		}
	}
	for _, run := range runs {
		s := run.seq
		dcc := dc
		dcc.LogPings = run.cfg.logPings
		dcc.DisableNetworking = !run.cfg.networking
		g, err := daemon.VerifC25NewGateWith(dcc, run.cfg.pexOff, "1.2.3.4:6000", 1)
		if err != nil {
			return err
		}
		var steps, trace []string
		for _, ki := range s {
			k := kinds[ki]
			var obs daemon.VerifC25Obs
			var derr error
			p := Guard(func() { obs, derr = g.Deliver(k.make()) })
			if derr != nil {
				return derr
			}
			var sent, sentNames []string
			for _, m := range obs.Sent {
				if reason, isDisc := daemon.VerifC25DisconnectReason(m); isDisc {
					rn, okr := reasons[reason]
					if !okr {
						rn = "ROther"
					}
					sent = append(sent, "SDisconnect "+rn)
					sentNames = append(sentNames, "DISC("+rn+")")
				} else if _, isPong := m.(*daemon.PongMessage); isPong {
					sent = append(sent, "SPong")
					sentNames = append(sentNames, "PONG")
				} else {
					sent = append(sent, "SOther")
					sentNames = append(sentNames, daemon.VerifC25MessageName(m))
				}
			}
			steps = append(steps, in.Ref("G_", "gate_event * bool * list sent * bool * bool * bool",
				Tuple(in.Ref("g_", "gate_event", k.coq), B(k.pass), List(sent), B(obs.Exists), B(obs.Introduced), B(p))))
			trace = append(trace, fmt.Sprintf("%s->[%s]%s", k.name, strings.Join(sentNames, ","), map[bool]string{true: " introduced", false: ""}[obs.Introduced]))
			hist.Add(fmt.Sprintf("gate:%s:sent=%s:introduced=%v:exists=%v", k.name, strings.Join(sentNames, ","), obs.Introduced, obs.Exists))
			o.Count("gate|"+strings.Join(trace, ";"), true)
		}
		g.Close()
		gate = append(gate, List(steps))
		caseJSON["gate"] = append(caseJSON["gate"], map[string]interface{}{"config": run.cfg.name, "messages": strings.Join(trace, "; ")})
		hist.Add("gate-config:" + run.cfg.name)
	}
	o.Def("cases_gate", "list (gate_event * bool * list sent * bool * bool * bool)", gate)

	o.Side["rule"] = fmt.Sprintf("IntroductionMessage.Verify on %d messages: Extra of every length 0..120 with random content (bare / behind the right pubkey / behind pubkey and valid params with a plausible length prefix), a valid Extra (with and without genesis hash) truncated at every offset and extended by 1..70 bytes, user agents (valid, malformed, illegal characters, 256/257 bytes), every combination of boundary burn factor / max txn size / decimals, length prefixes (n-1, n+1, 256, 257, 2^31, 2^32-1) x tails, genesis tails 0..65, single bit flips of the pubkey, mirror / version boundaries; gate: %d sequences of 13 message kinds (2 introductions + 11 others; all orders of length <= 3) delivered to a daemon with one fresh connection, recording what it queues for the peer; plus all orders of length <= 2 under every other daemon configuration the handlers branch on (LogPings off, pex disabled, networking enabled: %d runs in all). Non-trivial = Verify got past the pubkey comparison, or any gate sequence; distinct by message / sequence", len(ver), len(seqs), len(runs))
	o.Side["distribution"] = hist.Sorted()
	o.Side["samples"] = samples
	o.Side["cases"] = caseJSON
	return o.Write(f.Out, f.JSON)
}
