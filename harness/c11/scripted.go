package main

// Fixed prefix of the soft group: one or a few cases per family of defect that a
// seeded change once exposed; independent of seed and budget.

import "verif/harness/hrs"

type scriptedCase struct {
	e *env
	c *hrs.Case
}

func scriptedSoft() []scriptedCase {
	const T = uint64(1500000000)
	base := func() *env {
		return &env{Burn: 10, MaxSize: 32768, Prec: 3, Dist: []int{0, 1, 2}, Unlock: 3, Fixed: true}
	}
	// an acceptable transaction: 100 coins for one hour + 1000 hours = 1100 input hours, fee 110
	okCase := func(addr int) *hrs.Case {
		return &hrs.Case{Kind: "scripted", T: T,
			Ins:  []hrs.In{{Time: T - 3600, Coins: 100000000, Hours: 1000, Addr: addr}},
			Outs: []hrs.TxOut{{Coins: 100000000, Hours: 990, Addr: 9}}}
	}
	var out []scriptedCase
	add := func(e *env, c *hrs.Case, kind string) {
		c.Kind = "scripted-" + kind
		out = append(out, scriptedCase{e, c})
	}
	// required fee when the input hours are within burn-1 of 2^64 (a (h+b-1)/b ceiling wraps)
	H := hrs.MaxU64 - 3
	req := uint64(1844674407370955162) // ceil(H/10)
	add(base(), &hrs.Case{T: T, Ins: []hrs.In{{Time: T, Coins: 5000000, Hours: H, Addr: 8}},
		Outs: []hrs.TxOut{{Coins: 5000000, Hours: H - req + 1, Addr: 9}}}, "fee-below-ceil-near-2^64")
	add(base(), &hrs.Case{T: T, Ins: []hrs.In{{Time: T, Coins: 5000000, Hours: H, Addr: 8}},
		Outs: []hrs.TxOut{{Coins: 5000000, Hours: H - req, Addr: 9}}}, "fee-at-ceil-near-2^64")
	e := base()
	e.Burn = 4294967295
	add(e, &hrs.Case{T: T, Ins: []hrs.In{{Time: T, Coins: 5000000, Hours: hrs.MaxU64 - 1, Addr: 8}},
		Outs: []hrs.TxOut{{Coins: 5000000, Hours: hrs.MaxU64 - 1 - 4294967296, Addr: 9}}}, "fee-below-ceil-near-2^64")
	// consecutive calls with different address lists and the same number of locked addresses
	e = base()
	e.Dist, e.Unlock = []int{0, 1, 2}, 1
	add(e, okCase(1), "locked-list-A")
	e = base()
	e.Dist, e.Unlock = []int{0, 3, 4}, 1
	add(e, okCase(1), "locked-list-B-same-count")
	e = base()
	e.Dist, e.Unlock = []int{0, 3, 4}, 1
	add(e, okCase(3), "locked-list-B-same-count")
	e = base()
	e.Dist, e.Unlock = []int{3, 0, 4}, 1 // a permutation: position, not membership, decides
	add(e, okCase(3), "locked-list-permuted")
	e = base()
	e.Dist, e.Unlock = []int{3, 0, 4}, 1
	add(e, okCase(0), "locked-list-permuted")
	// a locked input that is not the first input / was created by a later block (BkSeq 2)
	e = base()
	e.Dist, e.Unlock = []int{0, 1}, 0
	c := okCase(8)
	c.Ins = append(c.Ins, hrs.In{Time: T, Coins: 1000000, Hours: 0, Addr: 1})
	c.Outs[0].Coins += 1000000
	add(e, c, "locked-second-input-later-block")
	// the Length header field differs from the encoded size
	e = base()
	e.LengthField = 40000
	add(e, okCase(8), "length-field-above-limit")
	e = base()
	e.MaxSize, e.LengthField = 1024, 100
	c = okCase(8)
	for i := 0; i < 9; i++ {
		c.Ins = append(c.Ins, hrs.In{Time: T, Coins: 1000000, Hours: 0, Addr: 8 + i%4})
		c.Outs[0].Coins += 1000000
	}
	add(e, c, "length-field-below-limit-size-above")
	e = base()
	e.BigSigs = true
	add(e, okCase(8), "unencodable-65536-signatures")
	return out
}
