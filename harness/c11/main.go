// Command c11: correspondence and failing-input search for the soft rules
// (property C11): transaction.VerifySingleTxnSoftConstraints, fee.TransactionFee,
// fee.VerifyTransactionFee, transaction.TransactionIsLocked, params.VerifyTxn.Validate,
// and the soft/hard classification against transaction.VerifySingleTxnHardConstraints.
package main

import (
	"encoding/json"
	"errors"
	"fmt"
	"os"
	"strings"

	"verif/harness/hrs"
	. "verif/harness/kit"

	"github.com/skycoin/skycoin/src/cipher"
	"github.com/skycoin/skycoin/src/coin"
	"github.com/skycoin/skycoin/src/params"
	"github.com/skycoin/skycoin/src/transaction"
	"github.com/skycoin/skycoin/src/util/fee"
)

func main() { Main(run) }

type env struct {
	Burn    uint32
	MaxSize uint32
	Prec    uint8
	Dist    []int // pool indices of the distribution addresses, in order
	Unlock  uint64
	SizeSel int // how MaxSize was chosen relative to the encoded size (-1 absolute)
	BigSigs bool
	LengthField uint32 // non-zero: overwrite the transaction's Length header field
	Fixed       bool   // scripted: MaxSize is not re-drawn
}

var burns = []uint32{2, 2, 3, 10, 10, 100, 1000, 4294967295, 4294967294, 2147483648, 65536}

func pow10(n int) uint64 {
	v := uint64(1)
	for i := 0; i < n; i++ {
		v *= 10
	}
	return v
}

func genEnv(r *Rng) *env {
	e := &env{}
	e.Burn = burns[r.Intn(len(burns))]
	switch r.Intn(40) {
	case 0:
		e.Burn = 0
	case 1:
		e.Burn = 1
	case 2, 3, 4:
		e.Burn = uint32(r.U64Edge())
	}
	e.Prec = uint8(r.Intn(7))
	if r.Chance(3) {
		e.Prec = uint8(7 + r.Intn(249))
	}
	L := []int{0, 1, 2, 3, 3, 5, 8}[r.Intn(7)]
	perm := []int{0, 1, 2, 3, 4, 5, 6, 7}
	for i := 7; i > 0; i-- {
		j := r.Intn(i + 1)
		perm[i], perm[j] = perm[j], perm[i]
	}
	e.Dist = perm[:L]
	e.Unlock = uint64(r.Intn(L + 1))
	if r.Chance(2) {
		e.Unlock = uint64(L + 1 + r.Intn(3)) // fewer addresses than InitialUnlockedCount: panics
	}
	return e
}

func (e *env) pickMaxSize(r *Rng, size uint32) {
	k := r.Intn(20)
	switch {
	case k < 6 && size > 1024: // the limit at the encoded size, +-1 (validated range needs >= 1024)
		d := r.Intn(3) - 1
		e.SizeSel = d
		e.MaxSize = uint32(int64(size) + int64(d))
	case k < 14:
		e.MaxSize = 32768
	case k < 16:
		e.MaxSize = 1024
	case k < 17:
		e.MaxSize = 4294967295
	case k < 18:
		d := r.Intn(3) - 1
		e.MaxSize = uint32(int64(size) + int64(d)) // usually below MinTransactionSize: malformed parameters
	case k < 19:
		e.MaxSize = uint32(r.U64Edge())
	default:
		e.MaxSize = 1024 + uint32(r.Intn(2000))
	}
}

func (e *env) coqP() string { return fmt.Sprintf("mkP %d %d %d", e.Burn, e.MaxSize, e.Prec) }
func (e *env) coqD() string {
	it := make([]string, len(e.Dist))
	for i, a := range e.Dist {
		it[i] = fmt.Sprint(a)
	}
	return fmt.Sprintf("mkD %s %d", List(it), e.Unlock)
}
func (e *env) flat(m map[string]interface{}) {
	m["burn"] = fmt.Sprint(e.Burn)
	m["max_size"] = fmt.Sprint(e.MaxSize)
	m["precision"] = fmt.Sprint(e.Prec)
	it := make([]string, len(e.Dist))
	for i, a := range e.Dist {
		it[i] = fmt.Sprint(a)
	}
	m["dist"] = strings.Join(it, ",")
	m["unlocked"] = fmt.Sprint(e.Unlock)
	m["big_sigs"] = e.BigSigs
	m["length_field"] = fmt.Sprint(e.LengthField)
}
func parseEnv(m map[string]interface{}) *env {
	e := &env{}
	fmt.Sscan(fmt.Sprint(m["burn"]), &e.Burn)
	fmt.Sscan(fmt.Sprint(m["max_size"]), &e.MaxSize)
	fmt.Sscan(fmt.Sprint(m["precision"]), &e.Prec)
	fmt.Sscan(fmt.Sprint(m["unlocked"]), &e.Unlock)
	if s := fmt.Sprint(m["dist"]); s != "" {
		for _, f := range strings.Split(s, ",") {
			var a int
			fmt.Sscan(f, &a)
			e.Dist = append(e.Dist, a)
		}
	}
	e.BigSigs = fmt.Sprint(m["big_sigs"]) == "true"
	if v, ok := m["length_field"]; ok {
		fmt.Sscan(fmt.Sprint(v), &e.LengthField)
	}
	return e
}

func run(args []string) error {
	f := ParseFlags("c11", args)
	r := NewRng(f.Seed)
	n := f.Budget(1200, 30000)
	g := hrs.NewGen(r)
	g.LargePct = 25
	o := NewOut()
	st := hrs.NewStrs()
	hist := g.Hist
	caseJSON := map[string][]map[string]interface{}{}
	var samples []map[string]interface{}

	var replayCase *hrs.Case
	var replayEnv *env
	replayGroup := ""
	var replayRaw map[string]interface{}
	if strings.HasPrefix(f.Extra, "replay=") {
		data, err := os.ReadFile(strings.TrimPrefix(f.Extra, "replay="))
		if err != nil {
			return err
		}
		var rp struct {
			Group string                 `json:"group"`
			Case  map[string]interface{} `json:"case"`
		}
		if err := json.Unmarshal(data, &rp); err != nil {
			return err
		}
		if rp.Case == nil {
			return errors.New("replay file holds no concrete case")
		}
		replayGroup, replayRaw = rp.Group, rp.Case
		c, err := hrs.ParseFlat(rp.Case)
		if err != nil {
			return err
		}
		replayCase, replayEnv = c, parseEnv(rp.Case)
		n = 1
	}

	var soft, vfee []string
	groups := []string{"soft", "cross", "hard", "fee", "locked", "params"}
	script := scriptedSoft()
	if replayCase != nil {
		script = nil
	}
	for i := 0; i < n+len(script) && replayGroup != "vfee"; i++ {
		var e *env
		var c *hrs.Case
		if replayCase != nil {
			e, c = replayEnv, replayCase
		} else if i < len(script) {
			e, c = script[i].e, script[i].c // fixed prefix, independent of seed and budget
		} else {
			e = genEnv(r)
			div := uint64(1)
			if e.Prec <= 6 {
				div = pow10(6 - int(e.Prec))
			}
			c = g.Case(e.Burn, div)
			e.BigSigs = i == len(script)+n/2 // one transaction that cannot be encoded (65536 signatures)
		}
		txn, uxIn := g.Build(c, false)
		if e.BigSigs {
			txn.Sigs = make([]cipher.Sig, 65536)
		}
		if e.LengthField != 0 {
			txn.Length = e.LengthField
		}
		head := hrs.Head(c.T)
		var size uint32
		var eSize error
		pSize := Guard(func() { size, eSize = txn.Size() })
		if pSize {
			return errors.New("txn.Size panicked")
		}
		if replayCase == nil && !e.Fixed {
			e.pickMaxSize(r, size)
		}
		d := params.Distribution{InitialUnlockedCount: e.Unlock}
		for _, a := range e.Dist {
			d.Addresses = append(d.Addresses, g.Pool.Addr[a].String())
		}
		vp := params.VerifyTxn{BurnFactor: e.Burn, MaxTransactionSize: e.MaxSize, MaxDropletPrecision: e.Prec}

		var eSoft, eHard, eFee, eVal, pre error
		var feeV uint64
		var locked bool
		pSoft := Guard(func() { eSoft = transaction.VerifySingleTxnSoftConstraints(txn, c.T, uxIn, d, vp) })
		pPre := Guard(func() {
			pre = txn.VerifyUnsigned()
			if pre == nil {
				pre = txn.VerifyPartialInputSignatures(uxIn)
			}
			if pre == nil && coin.CreateUnspents(head, txn).HasDupes() {
				pre = errors.New("Duplicate output in transaction")
			}
		})
		if pPre {
			pre = errors.New("structural checks panicked")
		}
		pHard := Guard(func() { eHard = transaction.VerifySingleTxnHardConstraints(txn, head, uxIn, transaction.TxnUnsigned) })
		pFee := Guard(func() { feeV, eFee = fee.TransactionFee(&txn, c.T, uxIn) })
		pLock := Guard(func() { locked = transaction.TransactionIsLocked(d, uxIn) })
		eVal = vp.Validate()

		lockS := "Panic"
		if !pLock {
			lockS = "(Val " + B(locked) + ")"
		}
		soft = append(soft, Tuple(
			Tuple(Z(uint64(size)), st.OptErr(hrs.Name(eSize))), Z(c.T), c.CoqIns(), c.CoqOuts(),
			"("+e.coqD()+")", "("+e.coqP()+")", st.OptErr(hrs.Name(pre)),
			st.CoqVerdict(pSoft, eSoft), st.CoqVerdict(pHard, eHard),
			Tuple(st.CoqResZE(pFee, feeV, eFee), lockS, st.OptErr(hrs.Name(eVal)))))
		m := c.Flat()
		e.flat(m)
		m["size"] = fmt.Sprint(size)
		m["size_err"] = hrs.Name(eSize)
		m["pre"] = hrs.Name(pre)
		m["obs_soft"] = hrs.ShowVerdict(pSoft, eSoft)
		m["obs_hard"] = hrs.ShowVerdict(pHard, eHard)
		m["obs_fee"] = fmt.Sprintf("%d/%s", feeV, hrs.ShowErr(pFee, eFee))
		m["obs_locked"] = lockS
		m["obs_validate"] = hrs.Name(eVal)
		for _, grp := range groups {
			caseJSON[grp] = append(caseJSON[grp], m)
		}
		valid := eVal == nil && e.Unlock <= uint64(len(e.Dist))
		key := fmt.Sprint(m["T"], m["ins"], m["outs"], e.Burn, e.MaxSize, e.Prec, m["dist"], e.Unlock)
		o.Count("soft"+key, valid && len(c.Ins) > 0 && len(c.Outs) > 0)
		o.Count("cross"+key, valid && len(c.Ins) > 0 && len(c.Outs) > 0)
		hist.Add("soft:" + hrs.ShowVerdict(pSoft, eSoft))
		hist.Add("hard:" + hrs.ShowVerdict(pHard, eHard))
		hist.Add(fmt.Sprintf("soft-after-hard-accepted:%v", !pHard && eHard == nil))
		hist.Add("validate:" + hrs.ShowErr(false, eVal))
		hist.Add(fmt.Sprintf("burn:%d", bucket(uint64(e.Burn))))
		hist.Add(fmt.Sprintf("precision:%d", e.Prec))
		if int64(e.MaxSize)-int64(size) >= -1 && int64(e.MaxSize)-int64(size) <= 1 && e.MaxSize >= 1024 {
			hist.Add(fmt.Sprintf("max_size=size%+d(valid)", int64(e.MaxSize)-int64(size)))
		}
		hist.Add(fmt.Sprintf("locked:%s", lockS))
		if len(samples) < 12 && r.Intn(n/6+1) == 0 {
			samples = append(samples, m)
		}
	}

	// ---- vfee: fee.VerifyTransactionFee with an arbitrary fee argument
	nv := n / 3
	if replayGroup != "" && replayGroup != "vfee" {
		nv = 0
	}
	for i := 0; i < nv; i++ {
		var c *hrs.Case
		var fe uint64
		var burn uint32
		if replayGroup == "vfee" {
			c = replayCase
			fmt.Sscan(fmt.Sprint(replayRaw["fee"]), &fe)
			fmt.Sscan(fmt.Sprint(replayRaw["burn"]), &burn)
		} else {
			burn = burns[r.Intn(len(burns))]
			if r.Chance(4) {
				burn = uint32(r.Intn(2))
			}
			c = g.Case(burn, 1)
			var hs uint64
			for _, x := range c.Outs {
				hs += x.Hours
			}
			fe = r.U64Edge()
			switch r.Intn(6) {
			case 0:
				fe = 0
			case 1, 2: // around the required fee for hours+fee: fee*(burn-1) >= hours
				if burn > 1 {
					fe = hs/uint64(burn-1) + uint64(r.Intn(5)) - 2
				}
			case 3: // hours + fee straddles 2^64
				fe = hrs.MaxU64 - hs + uint64(r.Intn(3)) - 1
			}
		}
		txn, _ := g.Build(c, false)
		var err error
		p := Guard(func() { err = fee.VerifyTransactionFee(&txn, fe, burn) })
		vfee = append(vfee, Tuple(c.CoqOuts(), Z(fe), Z(uint64(burn)), st.CoqResErr(p, err)))
		m := c.Flat()
		m["fee"] = fmt.Sprint(fe)
		m["burn"] = fmt.Sprint(burn)
		m["obs"] = hrs.ShowErr(p, err)
		caseJSON["vfee"] = append(caseJSON["vfee"], m)
		o.Count(fmt.Sprint("vfee", m["outs"], fe, burn), burn >= 2)
		hist.Add("vfee:" + hrs.ShowErr(p, err))
	}

	var entries []string
	if replayGroup == "" {
		nw := n / 100
		if nw < 3 {
			nw = 3
		}
		var err error
		entries, err = runEntries(r, o, st, nw, hist, caseJSON)
		if err != nil {
			return err
		}
	}
	tySoft := "((Z * error) * Z * list uxin * list txout * dist * vparams * error * res verdict * res verdict * (res (Z * error) * res bool * error))%type"
	o.Raw(st.Table())
	o.Raw(hrs.DefChunked("cases_soft", tySoft, soft))
	o.Raw(hrs.DefChunked("cases_vfee", "(list txout * Z * Z * res error)%type", vfee))
	o.Raw(hrs.DefChunked("cases_entry", "(Z * (Z * error) * Z * list uxin * list txout * dist * (vparams * vparams * vparams) * error * res verdict)%type", entries))
	o.Side["rule"] = "transactions as in C03 (unsigned, real coin.Transaction + coin.UxArray) with verification parameters: BurnFactor in {2,3,10,100,1000,65536,2^31,2^32-2,2^32-1,random; 0 and 1 as malformed}, MaxDropletPrecision 0..6 (7..255 malformed), MaxTransactionSize = encoded size -1/0/+1, 1024, 32768, 2^32-1 or random, distribution = permutation prefix of 8 pool addresses with 0..len unlocked (len+1.. malformed); output hours at inputs' hours +-1 and at the required fee +-1, amounts multiples of 10^(6-precision) or off by one lower power of ten / one droplet; a case is non-trivial when the parameters validate and it has inputs and outputs; distinct by (transaction, parameters). Call-site level (group entry): real visor.Visor whose user / unconfirmed / create-block parameter sets differ (first world: burn 10/20/15, decimals 3/5/4, size 1024/1700/1300); every signed transaction goes through InjectUserTransaction, InjectForeignTransaction and CreateBlockFromTxns at the same head, fees at ceil(hours/burn)+-1 of each set, decimals at each set's limit and one more, sizes around each limit"
	o.Side["distribution"] = hist.Sorted()
	o.Side["samples"] = samples
	o.Side["cases"] = caseJSON
	return o.Write(f.Out, f.JSON)
}

func bucket(b uint64) uint64 {
	switch {
	case b <= 3:
		return b
	case b <= 10:
		return 10
	case b <= 1000:
		return 1000
	case b < 1<<31:
		return 1 << 30
	default:
		return 1 << 32
	}
}
