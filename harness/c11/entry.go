package main

// Call-site level of C11: a real visor.Visor (bolt file, publisher) whose three
// parameter sets differ — params.UserVerifyTxn (user transactions),
// Config.UnconfirmedVerifyTxn (transactions from peers), Config.CreateBlockVerifyTxn
// (block creation). Every generated, correctly signed transaction is put through
// all three entry points at the same head:
//   entry 0  Visor.InjectUserTransaction      must apply the USER set
//   entry 1  Visor.InjectForeignTransaction   must apply the UNCONFIRMED set
//   entry 2  Visor.CreateBlockFromTxns        must apply the CREATE-BLOCK set
// with fees aimed at ceil(hours/burn) +-1 of each set, amounts at the precision
// (+1 decimal) of each set and sizes around each size limit.

import (
	"errors"
	"fmt"
	"strings"

	"verif/harness/hrs"
	. "verif/harness/kit"
	nk "verif/harness/nodekit"

	"github.com/skycoin/skycoin/src/cipher"
	"github.com/skycoin/skycoin/src/coin"
	"github.com/skycoin/skycoin/src/params"
)

type triple struct{ user, unc, cb params.VerifyTxn }

func genTriple(r *Rng, k int) triple {
	var t triple
	ub := []uint32{10, 2, 5, 10, 3}[k%5]
	t.user = params.VerifyTxn{BurnFactor: ub, MaxTransactionSize: 1024, MaxDropletPrecision: uint8([]int{3, 0, 2, 1, 3}[k%5])}
	looser := func() params.VerifyTxn {
		v := t.user
		v.BurnFactor = ub * uint32(1+r.Intn(3))
		if r.Chance(20) {
			v.BurnFactor = ub + 1
		}
		v.MaxTransactionSize = []uint32{1024, 1300, 1700, 32768}[r.Intn(4)]
		p := int(t.user.MaxDropletPrecision) + r.Intn(3)
		if p > 6 {
			p = 6
		}
		v.MaxDropletPrecision = uint8(p)
		return v
	}
	t.unc, t.cb = looser(), looser()
	if k == 0 { // the documented example: unconfirmed 20 / 5 decimals vs user 10 / 3 decimals
		t.unc = params.VerifyTxn{BurnFactor: 20, MaxTransactionSize: 1700, MaxDropletPrecision: 5}
		t.cb = params.VerifyTxn{BurnFactor: 15, MaxTransactionSize: 1300, MaxDropletPrecision: 4}
	}
	return t
}

func coqVP(v params.VerifyTxn) string {
	return fmt.Sprintf("(mkP %d %d %d)", v.BurnFactor, v.MaxTransactionSize, v.MaxDropletPrecision)
}
func showVP(v params.VerifyTxn) string {
	return fmt.Sprintf("%d/%d/%d", v.BurnFactor, v.MaxTransactionSize, v.MaxDropletPrecision)
}

func ceilDiv(h uint64, b uint32) uint64 {
	q := h / uint64(b)
	if h%uint64(b) != 0 {
		q++
	}
	return q
}

func runEntries(r *Rng, o *Out, st *hrs.Strs, nWorlds int, hist Hist, caseJSON map[string][]map[string]interface{}) ([]string, error) {
	saved := params.UserVerifyTxn
	defer func() { params.UserVerifyTxn = saved }()
	var cases []string
	for k := 0; k < nWorlds; k++ {
		tr := genTriple(r, k)
		params.UserVerifyTxn = tr.user
		w, err := nk.NewWorld(r, "c11")
		if err != nil {
			return nil, err
		}
		n, err := w.NewNode("pub", true, cipher.Sig{})
		if err != nil {
			w.Cleanup()
			return nil, err
		}
		if _, err := w.GenesisSig(n); err != nil {
			return nil, err
		}
		n.V.Config.UnconfirmedVerifyTxn = tr.unc
		n.V.Config.CreateBlockVerifyTxn = tr.cb
		n.V.Config.MaxBlockTransactionsSize = 1 << 20
		if err := n.V.Config.Verify(); err != nil {
			return nil, fmt.Errorf("configuration rejected: %v", err)
		}
		addrID := func(a cipher.Address) int {
			for i, x := range w.Addrs {
				if x == a {
					return i
				}
			}
			return 99
		}
		distCoq := fmt.Sprintf("(mkD [100; 101; 102; %d] 2)", nk.LockedKey)

		// block 1: split the genesis output into 48 outputs with assorted hours; block 2: move time on
		gen, err := n.V.GetAllUnspentOutputs()
		if err != nil || len(gen) != 1 {
			return nil, errors.New("genesis output not found")
		}
		var outs []coin.TransactionOutput
		hoursPat := []uint64{0, 1, 9, 10, 11, 19, 20, 21, 29, 30, 31, 99, 100, 101, 1000, 12345, 1000000, 1000000000}
		var cs, hsum uint64
		for i := 0; i < 48; i++ {
			c := uint64(1000+r.Intn(100000)) * 1000000
			h := uint64(r.Intn(1000000))
			if i < len(hoursPat) {
				h = hoursPat[i]
			} else if r.Chance(30) {
				h = r.U64() % 1000000000000
			}
			if i == 47 {
				c = gen[0].Body.Coins - cs
			}
			outs = append(outs, coin.TransactionOutput{Address: w.Addrs[i%nk.NKeys], Coins: c, Hours: h})
			cs += c
			hsum += h
		}
		for bi := 0; bi < 2; bi++ {
			head, err := n.V.GetHeadBlock()
			if err != nil {
				return nil, err
			}
			var t coin.Transaction
			when := head.Time() + 1
			if bi == 0 {
				t = w.BuildTxn([]cipher.SHA256{gen[0].Hash()}, w.Uniq(outs), nk.TxOpts{})
			} else {
				all, _ := n.V.GetAllUnspentOutputs()
				all.Sort()
				var ux coin.UxOut
				for _, u := range all {
					if addrID(u.Body.Address) != nk.LockedKey {
						ux = u
						break
					}
				}
				t = w.Spend(coin.UxArray{ux}, head.Time(), nk.SpendOpts{Fee: "all"})
				when = head.Time() + uint64(1+r.Intn(500))*3600 + uint64(r.Intn(3600))
			}
			sb, err := w.MakeBlock(n, coin.Transactions{t}, when)
			if err != nil {
				return nil, err
			}
			if err := n.V.ExecuteSignedBlock(sb); err != nil {
				return nil, fmt.Errorf("setup block %d: %v", bi+1, err)
			}
			w.RecordBlock(sb)
		}
		head, err := n.V.GetHeadBlock()
		if err != nil {
			return nil, err
		}
		T := head.Time()
		all, err := n.V.GetAllUnspentOutputs()
		if err != nil {
			return nil, err
		}
		all.Sort()
		var pool coin.UxArray
		for _, u := range all {
			if _, ok := w.KeyOf[u.Body.Address]; ok {
				pool = append(pool, u)
			}
		}
		sets := []params.VerifyTxn{tr.user, tr.unc, tr.cb}
		ti := 0
		{ // outputs of the locked address last, so that the fixed prefix spends ordinary outputs
			var a, b coin.UxArray
			for _, u := range pool {
				if addrID(u.Body.Address) == nk.LockedKey {
					b = append(b, u)
				} else {
					a = append(a, u)
				}
			}
			pool = append(a, b...)
		}
		for len(pool) > 0 {
			nin := 1
			if ti >= 10 && r.Chance(20) && len(pool) > 1 {
				nin = 2
			}
			ins := append(coin.UxArray{}, pool[:nin]...)
			pool = pool[nin:]
			var H, C uint64
			var hs []cipher.SHA256
			for _, ux := range ins {
				H += nk.HoursAt(ux, T)
				C += ux.Body.Coins
				hs = append(hs, ux.Hash())
			}
			// the first transactions of every world are fixed (one per family), the rest random
			type pick struct{ cat, set, d int }
			script := []pick{{5, 1, 0}, {0, 1, 0}, {0, 2, 0}, {0, 0, 0}, {0, 1, -1}, {1, 1, 0}, {1, 2, 0}, {1, 0, 1}, {2, 1, 1}, {2, 0, 1}}
			var pk pick
			if ti < len(script) {
				pk = script[ti]
			} else {
				pk = pick{set: r.Intn(3), d: r.Intn(3) - 1}
				switch x := r.Intn(20); {
				case x < 10:
					pk.cat = 0
				case x < 15:
					pk.cat, pk.d = 1, r.Intn(2)
				case x < 18:
					pk.cat = 2
				case x < 19:
					pk.cat = 3
				default:
					pk.cat = 4
				}
			}
			ti++
			aim := sets[pk.set]
			feeH := ceilDiv(H, tr.user.BurnFactor) // satisfies every set (the user burn factor is the smallest)
			nout := 1 + r.Intn(3)
			dec := int(tr.user.MaxDropletPrecision)
			kind := ""
			hoursExtra := uint64(0)
			wrapOut := false
			switch pk.cat {
			case 0:
				f := int64(ceilDiv(H, aim.BurnFactor)) + int64(pk.d)
				if f < 0 {
					f = 0
				}
				feeH = uint64(f)
				kind = fmt.Sprintf("fee=ceil(H/%d)%+d", aim.BurnFactor, pk.d)
			case 1:
				dec = int(aim.MaxDropletPrecision) + pk.d
				if dec > 6 {
					dec = 6
				}
				if nout < 2 {
					nout = 2
				}
				kind = fmt.Sprintf("decimals=%d", dec)
			case 2, 5:
				lim := int(aim.MaxTransactionSize)
				if lim > 2000 {
					lim = 1024
				}
				// encoded size = 53 + 97*nin + 37*nout
				nout = (lim-53-97*nin)/37 + pk.d
				kind = fmt.Sprintf("size~%d%+d", lim, pk.d)
				if pk.cat == 5 { // above every size limit AND overflowing output hours: a hard violation
					nout = (1700-53-97*nin)/37 + 2
					wrapOut = true
					kind = "oversize+output-hours-overflow"
				}
			case 3:
				feeH = 0
				kind = "fee=0"
			default:
				feeH = 0
				hoursExtra = 1
				kind = "creates-hours"
			}
			if feeH > H {
				feeH = H
			}
			unit := uint64(1)
			for i := 0; i < 6-dec; i++ {
				unit *= 10
			}
			// Outputs are pairwise distinct BY CONSTRUCTION: output i goes to address i mod 5, and
			// within one address the amounts (i/5+1 .. units, or random for <= 5 outputs) differ;
			// the last output takes the rest, which is larger than every other amount.
			var touts []coin.TransactionOutput
			cl, hl := C, H-feeH+hoursExtra
			nAddr := nk.NKeys - 1
			for i := 0; i < nout; i++ {
				c := uint64(i/nAddr+1) * unit
				if nout <= nAddr {
					c = (1 + r.U64()%1000) * unit
					if dec > 0 && c%(unit*10) == 0 {
						c += unit // really uses the last allowed decimal
					}
				}
				// stop early when the rest would not stay above every amount handed out so far
				margin := unit
				if nout > nAddr {
					margin = uint64(nout/nAddr+2) * unit
				}
				if i == nout-1 || cl < c+margin {
					touts = append(touts, coin.TransactionOutput{Address: w.Addrs[i%nAddr], Coins: cl, Hours: hl})
					break
				}
				h := hl / uint64(nout-i)
				touts = append(touts, coin.TransactionOutput{Address: w.Addrs[i%nAddr], Coins: c, Hours: h})
				cl -= c
				hl -= h
			}
			if wrapOut && len(touts) >= 2 {
				touts[0].Hours, touts[1].Hours = 1<<63, 1<<63
			}
			{
				seen := map[coin.TransactionOutput]bool{}
				for _, t := range touts {
					if seen[t] {
						return nil, fmt.Errorf("generator produced duplicate outputs (kind %s)", kind)
					}
					seen[t] = true
				}
			}
			txn := w.BuildTxn(hs, touts, nk.TxOpts{})
			size, eSize := txn.Size()
			// the checks that precede the coin / hour rules (structure, signatures, duplicate
			// outputs) enter the model as data, as in the other groups
			var pre error
			if Guard(func() {
				pre = txn.Verify()
				if pre == nil {
					pre = txn.VerifyInputSignatures(ins)
				}
				if pre == nil && coin.CreateUnspents(head.Head, txn).HasDupes() {
					pre = errors.New("Duplicate output in transaction")
				}
			}) {
				pre = errors.New("structural checks panicked")
			}
			if pre != nil {
				hist.Add("entry:pre=" + hrs.Name(pre))
			}

			var insC, outsC, fi, fo []string
			for _, ux := range ins {
				insC = append(insC, fmt.Sprintf("mkIn %d %d %d %d", ux.Head.Time, ux.Body.Coins, ux.Body.Hours, addrID(ux.Body.Address)))
				fi = append(fi, fmt.Sprintf("%d:%d:%d:%d", ux.Head.Time, ux.Body.Coins, ux.Body.Hours, addrID(ux.Body.Address)))
			}
			for _, x := range txn.Out {
				outsC = append(outsC, fmt.Sprintf("mkOut %d %d", x.Coins, x.Hours))
				fo = append(fo, fmt.Sprintf("%d:%d:%d", x.Coins, x.Hours, addrID(x.Address)))
			}
			obs := make([]string, 3)
			show := make([]string, 3)
			// entry 2: block creation (no state change)
			{
				var b coin.Block
				var e error
				p := Guard(func() { b, e = n.V.CreateBlockFromTxns(coin.Transactions{txn}, T+10) })
				switch {
				case p:
					obs[2], show[2] = "Panic", "panic"
				case e == nil && len(b.Body.Transactions) == 1 && b.Body.Transactions[0].Hash() == txn.Hash():
					obs[2], show[2] = "(Val None)", "included"
				case e != nil && strings.HasPrefix(e.Error(), "No transactions after filtering"):
					obs[2], show[2] = "(Val (Some (Soft, "+st.Ref("filtered")+")))", "filtered"
				default:
					obs[2], show[2] = "(Val (Some (Other, "+st.Ref(fmt.Sprint(e))+")))", "other:"+fmt.Sprint(e)
				}
			}
			// entry 1: from a peer
			{
				var e error
				var se error
				p := Guard(func() {
					_, s, err := n.V.InjectForeignTransaction(txn)
					e = err
					if s != nil {
						se = *s
					}
				})
				if e == nil {
					e = se
				}
				obs[1], show[1] = st.CoqVerdict(p, e), hrs.ShowVerdict(p, e)
			}
			// entry 0: from the user
			{
				var e error
				p := Guard(func() { _, _, _, e = n.V.InjectUserTransaction(txn) })
				obs[0], show[0] = st.CoqVerdict(p, e), hrs.ShowVerdict(p, e)
			}
			for entry := 0; entry < 3; entry++ {
				cases = append(cases, Tuple(Z(uint64(entry)), Tuple(Z(uint64(size)), st.OptErr(hrs.Name(eSize))), Z(T),
					List(insC), List(outsC), distCoq, Tuple(coqVP(tr.user), coqVP(tr.unc), coqVP(tr.cb)), st.OptErr(hrs.Name(pre)), obs[entry]))
				m := map[string]interface{}{"entry": []string{"InjectUserTransaction", "InjectForeignTransaction", "CreateBlockFromTxns"}[entry],
					"kind": kind, "T": fmt.Sprint(T), "ins": strings.Join(fi, ","), "outs": strings.Join(fo, ","), "size": fmt.Sprint(size),
					"user_params": showVP(tr.user), "unconfirmed_params": showVP(tr.unc), "create_block_params": showVP(tr.cb),
					"input_hours": fmt.Sprint(H), "pre": hrs.Name(pre), "obs": show[entry]}
				caseJSON["entry"] = append(caseJSON["entry"], m)
				o.Count(fmt.Sprint("entry", entry, k, m["ins"], m["outs"]), true)
				hist.Add(fmt.Sprintf("entry%d:%s", entry, strings.SplitN(show[entry], "=", 2)[0]))
			}
			if show[0] != show[1] || (show[1] == "accepted") != (show[2] == "included") {
				hist.Add("entry:verdicts-differ-between-entry-points")
			}
		}
		n.Close()
		w.Cleanup()
	}
	return cases, nil
}
