// Command c08: crash recovery of the chain database (property C08).
//
// A scripted follower life-cycle (database creation, genesis, pool updates and
// block acceptances) runs on a real visor.Visor; the verif hook in dbutil
// reports every commit boundary and the harness keeps an image of the database
// file at each one. Crash states are then materialised: every commit boundary
// and, inside every commit, prefixes of the page writes (dirty pages in
// ascending id, then the meta page: missing / torn / complete), built from the
// page diff of consecutive images. Each crash image is restarted on the real
// code (forced CheckDatabase under a watchdog, visor.New + Init), the recovered
// state is identified, all blocks and pool transactions are delivered again and
// the final state is compared with the node that never crashed.
package main

import (
	"bytes"
	"context"
	"crypto/sha256"
	"encoding/hex"
	"fmt"
	"os"
	"os/exec"
	"sort"
	"strings"
	"time"

	"github.com/boltdb/bolt"

	"github.com/skycoin/skycoin/src/cipher"
	"github.com/skycoin/skycoin/src/coin"
	"github.com/skycoin/skycoin/src/visor"
	"github.com/skycoin/skycoin/src/visor/blockdb"
	"github.com/skycoin/skycoin/src/visor/dbutil"

	. "verif/harness/kit"
	nk "verif/harness/nodekit"
)

func main() { Main(run) }

const pageSize = 4096

type image struct {
	name string // name of the db.Update that produced it ("" = file as created)
	data []byte
}

type absState struct {
	Buckets bool
	Chain   int
	Pool    int
}

// abstract reads (buckets exist?, number of blocks, number of pooled txns)
// straight from the bolt file, without running any skycoin code on it.
func abstract(path string) (absState, error) {
	var a absState
	db, err := bolt.Open(path, 0600, &bolt.Options{ReadOnly: true, Timeout: time.Second})
	if err != nil {
		return a, err
	}
	defer db.Close()
	err = db.View(func(tx *bolt.Tx) error {
		if b := tx.Bucket(blockdb.BlocksBkt); b != nil {
			a.Buckets = true
			a.Chain = b.Stats().KeyN
		}
		if b := tx.Bucket(visor.UnconfirmedTxnsBkt); b != nil {
			a.Pool = b.Stats().KeyN
		}
		return nil
	})
	return a, err
}

// digest of everything the property calls "the same state"
func digest(n *nk.Node) (string, uint64, error) {
	h := sha256.New()
	seq, ok, err := n.V.HeadBkSeq()
	if err != nil {
		return "", 0, err
	}
	fmt.Fprintf(h, "head %d %v\n", seq, ok)
	if ok {
		hb, err := n.V.GetHeadBlock()
		if err != nil {
			return "", 0, err
		}
		fmt.Fprintf(h, "headhash %s\n", hb.HashHeader().Hex())
	}
	uxs, err := n.V.GetAllUnspentOutputs()
	if err != nil {
		return "", 0, err
	}
	var hs []string
	for _, ux := range uxs {
		hs = append(hs, ux.Hash().Hex())
	}
	sort.Strings(hs)
	fmt.Fprintf(h, "unspent %v\n", hs)
	pool, err := n.V.GetAllUnconfirmedTransactions()
	if err != nil {
		return "", 0, err
	}
	var ps []string
	for _, p := range pool {
		ps = append(ps, p.Transaction.Hash().Hex())
	}
	sort.Strings(ps)
	fmt.Fprintf(h, "pool %v\n", ps)
	return fmt.Sprintf("%x", h.Sum(nil)[:12]), seq, nil
}

// one step of the follower's life = at most one inject, then at most one block,
// then at most one pool clean-up (each a database commit)
type step struct {
	inject   *coin.Transaction
	injectID int
	block    *coin.SignedBlock
	confirms []int // ids of the block's txns that may be in the pool
	kills    []int // ids of pool txns spending an output this block spends
	cleanup  bool  // the periodic RemoveInvalidUnconfirmed
}

func deliver(n *nk.Node, steps []step) {
	for _, s := range steps {
		if s.inject != nil {
			Guard(func() { n.V.InjectForeignTransaction(*s.inject) })
		}
		if s.block != nil {
			Guard(func() { n.V.ExecuteSignedBlock(*s.block) })
		}
		if s.cleanup {
			Guard(func() { n.V.RemoveInvalidUnconfirmed() })
		}
	}
}

// the state after the periodic pool clean-up every running node performs:
// "the same state" is compared there (Coq: settle)
func settledDigest(n *nk.Node) (string, uint64, error) {
	var err error
	if Guard(func() { _, err = n.V.RemoveInvalidUnconfirmed() }) {
		return "", 0, fmt.Errorf("panic in RemoveInvalidUnconfirmed")
	}
	if err != nil {
		return "", 0, err
	}
	return digest(n)
}

func run(args []string) error {
	f := ParseFlags("c08", args)
	if strings.HasPrefix(f.Extra, "check:") {
		// child mode: forced verification of one database file
		parts := strings.SplitN(f.Extra, ":", 3)
		var pk cipher.PubKey
		if b, err := hex.DecodeString(parts[2]); err == nil {
			copy(pk[:], b)
		}
		bdb, err := bolt.Open(parts[1], 0600, &bolt.Options{Timeout: 2 * time.Second})
		if err != nil {
			fmt.Println("CHECK-ERR open: " + err.Error())
			return nil
		}
		err = visor.CheckDatabase(dbutil.WrapDB(bdb), pk, nil)
		bdb.Close()
		if err != nil {
			fmt.Println("CHECK-ERR " + err.Error())
		} else {
			fmt.Println("CHECK-OK")
		}
		return nil
	}
	r := NewRng(f.Seed)
	nBlocks := f.Budget(4, 14)
	o := NewOut()
	hist := Hist{}

	w, err := nk.NewWorld(r, "c08")
	if err != nil {
		return err
	}
	defer w.Cleanup()

	// ---- the publisher makes the chain
	pub, err := w.NewNode("pub", true, cipher.Sig{})
	if err != nil {
		return err
	}
	gs, err := w.GenesisSig(pub)
	if err != nil {
		return err
	}
	var unspent []coin.UxOut
	for _, ux := range w.Ux {
		unspent = append(unspent, ux)
	}
	var steps []step
	when := nk.GenesisTime
	for b := 0; b < nBlocks; b++ {
		headTime := when
		when += uint64(10 + r.Intn(100000))
		// 1-3 transactions per block (several transactions of one block often touch
		// the same address: the per-address history index must hold them all)
		nt := 1 + r.Intn(3)
		var t coin.Transaction
		var in coin.UxOut
		for k := 0; k < nt && len(unspent) > 0; k++ {
			i := r.Intn(len(unspent))
			in = unspent[i]
			unspent = append(unspent[:i], unspent[i+1:]...)
			ins := coin.UxArray{in}
			// every second block: the transaction also spends an output of ANOTHER address
			// (the per-address history index must list the transaction under every input's address)
			if (b%2 == 1 || r.Chance(30)) && len(unspent) > 0 {
				for j, ux := range unspent {
					if ux.Body.Address != in.Body.Address {
						ins = coin.UxArray{ux, in}
						unspent = append(unspent[:j], unspent[j+1:]...)
						hist.Add("life:multi-address-spend")
						break
					}
				}
			}
			t = w.Spend(ins, headTime, nk.SpendOpts{Fee: "min", NOut: 1 + r.Intn(3)})
			if b%3 == 0 && k == 0 {
				// scripted: a transaction paying TWO outputs to ONE address (the per-address
				// output index must list both)
				for try := 0; try < 40; try++ {
					seen := map[cipher.Address]bool{}
					dup := false
					for _, o := range t.Out {
						if seen[o.Address] {
							dup = true
						}
						seen[o.Address] = true
					}
					if dup {
						hist.Add("life:two-outputs-one-address")
						break
					}
					t = w.Spend(ins, headTime, nk.SpendOpts{Fee: "min", NOut: 3})
				}
			}
			if _, _, err := pub.V.InjectForeignTransaction(t); err != nil {
				return fmt.Errorf("publisher inject: %v", err)
			}
		}
		sb, err := pub.V.VerifCreateBlock(when)
		if err != nil {
			return fmt.Errorf("publisher create block: %v", err)
		}
		if err := pub.V.ExecuteSignedBlock(sb); err != nil {
			return fmt.Errorf("publisher execute: %v", err)
		}
		w.RecordBlock(sb)
		for _, tt := range sb.Body.Transactions {
			unspent = append(unspent, coin.CreateUnspents(sb.Head, tt)...)
		}
		tc, sc := t, sb
		id := len(steps) + 1
		st := step{block: &sc, confirms: []int{id}}
		switch m := r.Intn(100); {
		case m < 40 && b != 0:
			// the follower hears about the txn before the block (a pool commit)
			st.inject, st.injectID = &tc, id
		case m < 80 || b == 0:
			// the follower hears about ANOTHER spend of the same output (never seen by the
			// publisher): the block makes it invalid, it stays in the pool bucket until the
			// next clean-up - by Init on a restart, or by the periodic clean-up
			alt := w.Spend(coin.UxArray{in}, headTime, nk.SpendOpts{Fee: "min", NOut: 1 + r.Intn(3)})
			if alt.Hash() != tc.Hash() {
				st.inject, st.injectID = &alt, 1000+id
				st.kills = []int{1000 + id}
				hist.Add("life:conflicting-pool-txn")
			}
		}
		if r.Chance(25) {
			st.cleanup = true
			hist.Add("life:cleanup")
		}
		steps = append(steps, st)
	}
	// one transaction that stays unconfirmed
	{
		in := unspent[r.Intn(len(unspent))]
		t := w.Spend(coin.UxArray{in}, when, nk.SpendOpts{Fee: "min", NOut: 1})
		steps = append(steps, step{inject: &t, injectID: len(steps) + 1})
	}
	pub.Close()

	// ---- the follower's life-cycle, with an image at every commit boundary
	var images []image
	folPath := w.PathOf("fol")
	snap := func(name string) {
		data, err := os.ReadFile(folPath)
		if err == nil {
			images = append(images, image{name, data})
		}
	}
	dbutil.VerifAfterCommit = func(db *dbutil.DB, name string, err error) {
		if db.Path() == folPath {
			snap(name)
		}
	}
	fol, err := w.NewNode("fol", false, gs)
	if err != nil {
		return err
	}
	deliver(fol, steps)
	dbutil.VerifAfterCommit = nil
	finalDigest, finalSeq, err := settledDigest(fol)
	if err != nil {
		return err
	}
	dbutil.VerifAfterCommit = nil
	fol.Close()
	if int(finalSeq) != nBlocks {
		return fmt.Errorf("follower did not reach the publisher's head: %d of %d", finalSeq, nBlocks)
	}
	// drop images identical to their predecessor (rolled-back or read-only updates)
	var imgs []image
	for _, im := range images {
		if len(imgs) == 0 || !bytes.Equal(imgs[len(imgs)-1].data, im.data) {
			imgs = append(imgs, im)
		}
	}
	images = imgs

	// ---- digest of every boundary image (restart without any re-delivery)
	type crashCase struct {
		commit, npages, j int
		mw                string // none | torn | full | boundary
		data              []byte
	}
	var cases []crashCase
	cases = append(cases, crashCase{commit: -1, mw: "boundary", data: nil}) // file does not exist yet
	for i := range images {
		cases = append(cases, crashCase{commit: i, mw: "boundary", data: images[i].data})
	}
	// intra-commit images
	for i := 0; i+1 < len(images); i++ {
		a, b := images[i].data, images[i+1].data
		np := (len(b) + pageSize - 1) / pageSize
		var dirty, metas []int
		for p := 0; p < np; p++ {
			lo, hi := p*pageSize, (p+1)*pageSize
			if hi > len(b) {
				hi = len(b)
			}
			var old []byte
			if lo < len(a) {
				oh := hi
				if oh > len(a) {
					oh = len(a)
				}
				old = a[lo:oh]
			}
			if !bytes.Equal(old, b[lo:hi]) {
				if p < 2 {
					metas = append(metas, p)
				} else {
					dirty = append(dirty, p)
				}
			}
		}
		base := func(j int) []byte {
			img := make([]byte, len(b)) // bolt grows the file before writing pages
			copy(img, a)
			for _, p := range dirty[:j] {
				copy(img[p*pageSize:], b[p*pageSize:min(len(b), (p+1)*pageSize)])
			}
			return img
		}
		js := []int{}
		if f.Tier == "quick" {
			for _, j := range []int{0, 1, len(dirty) / 2, len(dirty)} {
				if j <= len(dirty) && (len(js) == 0 || js[len(js)-1] != j) {
					js = append(js, j)
				}
			}
		} else {
			for j := 0; j <= len(dirty); j++ {
				js = append(js, j)
			}
		}
		for _, j := range js {
			cases = append(cases, crashCase{commit: i, npages: len(dirty), j: j, mw: "none", data: base(j)})
		}
		// meta page torn: only the first 24 bytes of each changed meta page arrive
		torn := base(len(dirty))
		for _, p := range metas {
			copy(torn[p*pageSize:p*pageSize+24], b[p*pageSize:p*pageSize+24])
		}
		if len(metas) > 0 {
			cases = append(cases, crashCase{commit: i, npages: len(dirty), j: len(dirty), mw: "torn", data: torn})
		}
		hist.Add(fmt.Sprintf("commit:%s", images[i+1].name))
	}

	// ---- restart every crash image on the real code
	boundaryDigest := map[int]string{}
	type obs struct {
		c                     crashCase
		opened, checkOK, hung bool
		crashed               bool
		checkMs               int64
		recovered             string
		abs                   absState
		finalEq               bool
		errS                  string
	}
	var results []obs
	for k, c := range cases {
		name := fmt.Sprintf("crash%d", k)
		path := w.PathOf(name)
		if c.data != nil {
			if err := os.WriteFile(path, c.data, 0600); err != nil {
				return err
			}
		}
		ob := obs{c: c}
		if c.data != nil {
			if a, err := abstract(path); err == nil {
				ob.abs = a
			} else {
				ob.errS = "abstract: " + err.Error()
			}
			// forced verification in a CHILD process under a watchdog: a panic in one of
			// WalkChain's goroutines cannot be recovered in-process, and a hang must be killable
			t0 := time.Now()
			cctx, cancel := context.WithTimeout(context.Background(), 20*time.Second)
			cmd := exec.CommandContext(cctx, os.Args[0], "-extra", "check:"+path+":"+hex.EncodeToString(w.Pub[:]))
			outb, cerr := cmd.CombinedOutput()
			cancel()
			outS := strings.TrimSpace(string(outb))
			switch {
			case cctx.Err() == context.DeadlineExceeded:
				ob.hung = true
				ob.errS = "CheckDatabase did not return within 20s"
			case cerr == nil && strings.HasSuffix(outS, "CHECK-OK"):
				ob.checkOK = true
			case strings.Contains(outS, "CHECK-ERR"):
				ob.errS = "check: " + outS[strings.Index(outS, "CHECK-ERR")+10:]
			default:
				ob.crashed = true
				if len(outS) > 600 {
					outS = outS[:600]
				}
				ob.errS = "CheckDatabase crashed the process: " + outS
			}
			ob.checkMs = time.Since(t0).Milliseconds()
		} else {
			ob.checkOK = true
		}
		if !ob.hung && !ob.crashed {
			var n *nk.Node
			var nerr error
			if Guard(func() { n, nerr = w.NewNode(name, false, gs) }) {
				ob.errS = "panic in visor.New/Init"
			} else if nerr != nil {
				ob.errS = "open: " + nerr.Error()
			} else {
				ob.opened = true
				d, _, derr := digest(n)
				if derr != nil {
					ob.errS = "digest: " + derr.Error()
				}
				ob.recovered = d
				if c.mw == "boundary" {
					boundaryDigest[c.commit] = d
				}
				deliver(n, steps)
				fd, _, ferr := settledDigest(n)
				if ferr != nil {
					ob.errS = "final digest: " + ferr.Error()
				}
				ob.finalEq = ferr == nil && fd == finalDigest
				n.Close()
			}
		}
		os.Remove(path)
		results = append(results, ob)
	}

	// ---- print
	// abstract states at the boundaries, compared with the life-cycle model
	var absItems []string
	var absJSON []map[string]interface{}
	for _, ob := range results {
		if ob.c.mw == "boundary" && ob.c.data != nil {
			absItems = append(absItems, Tuple(B(ob.abs.Buckets), fmt.Sprint(ob.abs.Chain), fmt.Sprint(ob.abs.Pool)))
			absJSON = append(absJSON, map[string]interface{}{"commit": ob.c.commit, "update": images[ob.c.commit].name, "buckets": ob.abs.Buckets, "chain": ob.abs.Chain, "pool": ob.abs.Pool})
		}
	}
	// the work list of the model script
	var work []string
	for i, s := range steps {
		_ = i
		if s.inject != nil {
			work = append(work, fmt.Sprintf("Inject %d", s.injectID))
		}
		if s.block != nil {
			work = append(work, fmt.Sprintf("ExecBlock %d %s %s", s.block.Head.BkSeq, zl(s.confirms), zl(s.kills)))
		}
		if s.cleanup {
			work = append(work, "Cleanup")
		}
	}
	o.Raw("Definition c08_work : list cop := " + List(work) + ".\n")
	o.Def("cases_abs", "bool * Z * Z", absItems)

	idxOf := func(d string, commit int) int {
		// which boundary does the recovered digest equal: this commit's pre-state
		// (commit), its post-state (commit+1), else -1
		if d != "" && d == boundaryDigest[commit] {
			return commit
		}
		if d != "" && d == boundaryDigest[commit+1] {
			return commit + 1
		}
		return -1
	}
	var crashItems []string
	var crashJSON []map[string]interface{}
	for _, ob := range results {
		c := ob.c
		mwc := map[string]string{"none": "MetaNone", "torn": "MetaTorn", "full": "MetaFull", "boundary": "MetaFull"}[c.mw]
		commit, np, j := c.commit, c.npages, c.j
		rec := -1
		if c.mw == "boundary" {
			// a boundary image is the complete write of the commit that produced it
			commit, np, j = c.commit-1, 0, 0
			if ob.recovered != "" && ob.recovered == boundaryDigest[c.commit] {
				rec = c.commit
			}
		} else {
			rec = idxOf(ob.recovered, c.commit)
		}
		crashItems = append(crashItems, Tuple(fmt.Sprint(commit), fmt.Sprint(np), fmt.Sprint(j), mwc,
			fmt.Sprint(rec), B(ob.opened), B(ob.checkOK), B(ob.hung || ob.crashed), B(ob.finalEq), fmt.Sprint(ob.abs.Chain)))
		crashJSON = append(crashJSON, map[string]interface{}{"commit": c.commit, "dirty_pages": c.npages, "pages_written": c.j, "meta": c.mw,
			"recovered_boundary": rec, "opened": ob.opened, "check_ok": ob.checkOK, "hung": ob.hung, "crashed": ob.crashed, "final_equal": ob.finalEq,
			"check_ms": ob.checkMs, "chain_len": ob.abs.Chain, "err": ob.errS})
		hist.Add("crash:" + c.mw)
		o.Count(fmt.Sprint("crash", c.commit, c.npages, c.j, c.mw), c.data != nil)
	}
	o.Def("cases_crash", "Z * Z * Z * meta_write * Z * bool * bool * bool * bool * Z", crashItems)
	// ---- restart while the stopped process still holds the file lock for a moment:
	// the node's own OpenDB must wait for the lock (bounded: 5 s) and then open
	var lockItems []string
	var lockJSON []map[string]interface{}
	if len(images) > 0 {
		for k, hold := range []int{60, 350, 900} {
			path := w.PathOf(fmt.Sprintf("lock%d", k))
			if err := os.WriteFile(path, images[len(images)-1].data, 0600); err != nil {
				return err
			}
			holder, err := bolt.Open(path, 0600, &bolt.Options{Timeout: 2 * time.Second})
			if err != nil {
				return fmt.Errorf("lock holder: %v", err)
			}
			go func(d int) {
				time.Sleep(time.Duration(d) * time.Millisecond)
				holder.Close()
			}(hold)
			t0 := time.Now()
			db, oerr := visor.OpenDB(path, false)
			ms := time.Since(t0).Milliseconds()
			opened := oerr == nil
			if opened {
				db.Close()
			}
			es := ""
			if oerr != nil {
				es = oerr.Error()
			}
			time.Sleep(time.Duration(hold) * time.Millisecond) // let the holder finish before the file goes
			os.Remove(path)
			lockItems = append(lockItems, Tuple(fmt.Sprint(hold), B(opened), fmt.Sprint(ms)))
			lockJSON = append(lockJSON, map[string]interface{}{"lock_held_ms": hold, "opened": opened, "waited_ms": ms, "err": es})
			hist.Add("lock-held-restart")
		}
	}
	o.Def("cases_lock", "Z * bool * Z", lockItems)
	o.Side["rule"] = "one scripted follower life-cycle (create db, genesis, pool updates incl. pool txns that a later block makes invalid, block acceptances, periodic pool clean-ups, a txn left pending) with an image at every commit boundary reported by the dbutil hook; crash states = every boundary + inside every commit prefixes of the dirty-page writes (quick: 0, 1, half, all; thorough: every prefix) with the meta page missing or torn; each restarted on the real code (forced CheckDatabase under a 20 s watchdog, visor.New+Init), then everything re-delivered and the state compared after the pool clean-up (RemoveInvalidUnconfirmed) on both nodes; restart while the file lock is still held for 60/350/900 ms (visor.OpenDB must wait and open, within 5 s); non-trivial = image exists on disk; distinct by (commit, pages written, meta)"
	o.Side["distribution"] = hist.Sorted()
	o.Side["samples"] = crashJSON[:min(len(crashJSON), 8)]
	o.Side["cases"] = map[string]interface{}{"crash": crashJSON, "abs": absJSON, "lock": lockJSON}
	o.Side["blocks"] = nBlocks
	o.Side["commit_boundaries"] = len(images)
	return o.Write(f.Out, f.JSON)
}

func zl(xs []int) string {
	var ss []string
	for _, x := range xs {
		ss = append(ss, fmt.Sprint(x))
	}
	return "[" + strings.Join(ss, "; ") + "]"
}

func min(a, b int) int {
	if a < b {
		return a
	}
	return b
}
