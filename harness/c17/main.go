// Command c17: wallet address derivation is deterministic and consistent (property C17).
//
// Groups written to the cases file:
//
//	det   deterministic wallets: NewWallet with GenerateN/ScanN, then random
//	      GenerateAddresses / ScanAddresses (fake activity oracle) / save+load
//	      sequences; observable after every op = (position of lastSeed in the
//	      seed chain, entry addresses); derivation oracle = the chain obtained by
//	      iterating cipher.DeterministicKeyPairIterator directly
//	idx   bip44 wallets (1 or 2 accounts, external + change chains) and xpub wallets
//	      built on the bip44 account's external chain key: same ops; oracle = the
//	      private-path BIP44 derivation m/44'/coin'/acct'/chain/i done with the
//	      cipher/bip44 primitives, independent of the wallet code
//	coll  collection wallets: entries follow the given keys, survive reload
//
// Every final wallet is also compared with a fresh wallet generating the same
// total in one shot, and every entry is checked for coherence.
package main

import (
	"bytes"
	"errors"
	"fmt"
	"os"
	"path/filepath"
	"strings"

	. "verif/harness/kit"

	"github.com/skycoin/skycoin/src/cipher"
	"github.com/skycoin/skycoin/src/cipher/bip39"
	"github.com/skycoin/skycoin/src/cipher/bip44"
	"github.com/skycoin/skycoin/src/cipher/crypto"
	"github.com/skycoin/skycoin/src/wallet"
	"github.com/skycoin/skycoin/src/wallet/bip44wallet"
	"github.com/skycoin/skycoin/src/wallet/collection"
	"github.com/skycoin/skycoin/src/wallet/deterministic"
	"github.com/skycoin/skycoin/src/wallet/xpubwallet"
)

func main() { Main(run) }

const tableLen = 40 // length of the derivation oracle tables
const abLen = 12    // address prefix carried into the cases file

func ab(s string) string {
	if len(s) > abLen {
		return s[:abLen]
	}
	return s
}

func strList(l []string) string {
	it := make([]string, len(l))
	for i, s := range l {
		it[i] = Str(s)
	}
	return List(it)
}

func asciiWord(r *Rng, n int) string {
	const al = "abcdefghijklmnopqrstuvwxyzABCDEFGHIJKLMNOPQRSTUVWXYZ0123456789"
	b := make([]byte, n)
	for i := range b {
		b[i] = al[r.Intn(len(al))]
	}
	return string(b)
}

// finder is the fake TransactionsFinder: an address is active iff it is in the set.
type finder map[string]bool

func (f finder) AddressesActivity(addrs []cipher.Addresser) ([]bool, error) {
	out := make([]bool, len(addrs))
	for i, a := range addrs {
		out[i] = f[a.String()]
	}
	return out, nil
}

// failingFinder answers like finder until its failAt-th call (from 0), which
// returns an error.
type failingFinder struct {
	set    finder
	failAt int
	calls  int
}

func (f *failingFinder) AddressesActivity(addrs []cipher.Addresser) ([]bool, error) {
	f.calls++
	if f.calls > f.failAt {
		return nil, errors.New("transactions finder unavailable")
	}
	return f.set.AddressesActivity(addrs)
}

// pickActives chooses the activity set for a scan of n addresses starting at
// position from of the table: none / first / last / random subset, plus noise
// elsewhere in the table.
func pickActives(r *Rng, table []string, from, n int) []string {
	var act []string
	hi := from + n
	if hi > len(table) {
		hi = len(table)
	}
	switch r.Intn(6) {
	case 0: // none in range
	case 1:
		if from < hi {
			act = append(act, table[from])
		}
	case 2:
		if from < hi {
			act = append(act, table[hi-1])
		}
	default:
		for i := from; i < hi; i++ {
			if r.Chance(35) {
				act = append(act, table[i])
			}
		}
	}
	if r.Chance(35) && hi < len(table) { // the first address beyond the scanned range is active
		act = append(act, table[hi])
	}
	if r.Chance(15) && from > 0 { // so is one the wallet already holds
		act = append(act, table[from-1])
	}
	for k := r.Intn(3); k > 0; k-- { // activity outside the scanned range
		act = append(act, table[r.Intn(len(table))])
	}
	return act
}

func actCoq(act []string) string {
	a := make([]string, len(act))
	for i, s := range act {
		a[i] = ab(s)
	}
	return "(act_of " + strList(a) + ")"
}

func entriesOf(w wallet.Wallet, opts ...wallet.Option) ([]wallet.Entry, error) {
	es, err := w.GetEntries(opts...)
	return []wallet.Entry(es), err
}

func addrsOf(es []wallet.Entry) []string {
	out := make([]string, len(es))
	for i, e := range es {
		out[i] = ab(e.Address.String())
	}
	return out
}

// curCoin is the coin type of the wallet of the case being run: it selects the text
// form of addresses (Skycoin base58 / Bitcoin base58 with its version byte) and the
// default bip44 coin number.
var curCoin = wallet.CoinTypeSkycoin

func addrText(pk cipher.PubKey) string {
	if curCoin == wallet.CoinTypeBitcoin {
		return cipher.BitcoinAddressFromPubKey(pk).String()
	}
	return cipher.AddressFromPubKey(pk).String()
}

func pickCoin(r *Rng) string {
	curCoin = wallet.CoinTypeSkycoin
	if r.Chance(45) {
		curCoin = wallet.CoinTypeBitcoin
		return "Bitcoin"
	}
	return "Skycoin"
}

// coherent: address == AddressFromPubKey(pub) and, where a secret key is held,
// pub == PubKeyFromSecKey(sec).
func coherent(es []wallet.Entry, wantSecret bool) bool {
	for _, e := range es {
		if addrText(e.Public) != e.Address.String() {
			return false
		}
		if e.Secret.Null() {
			if wantSecret {
				return false
			}
			continue
		}
		p, err := cipher.PubKeyFromSecKey(e.Secret)
		if err != nil || p != e.Public {
			return false
		}
	}
	return true
}

// readOnlyCalls makes the read-only calls of the Wallet interface and reports whether
// the wallet's serialisation is the same before and after.
func readOnlyCalls(w wallet.Wallet) bool {
	before, err := w.Serialize()
	if err != nil {
		return false
	}
	panicked := Guard(func() {
		_ = w.Fingerprint()
		es, _ := w.GetEntries()
		_, _ = w.GetAddresses()
		_, _ = w.EntriesLen()
		_, _ = w.Serialize()
		c := w.Clone()
		_ = c.Fingerprint()
		_, _ = c.GetEntries()
		_, _, _, _ = w.Coin(), w.XPub(), w.Type(), w.Label()
		_, _, _ = w.Seed(), w.LastSeed(), w.SeedPassphrase()
		_, _ = w.IsEncrypted(), w.Accounts()
		_, _ = w.GetEntryAt(0)
		if len(es) > 0 {
			_, _ = w.HasEntry(es[0].Address)
			_, _ = w.GetEntry(es[0].Address)
		}
		_ = w.Fingerprint()
	})
	after, err := w.Serialize()
	return !panicked && err == nil && bytes.Equal(before, after)
}

func saveReload(w wallet.Wallet, dir string) (wallet.Wallet, error) {
	if err := wallet.Save(w, dir); err != nil {
		return nil, err
	}
	return wallet.Load(filepath.Join(dir, w.Filename()))
}

// ---------------------------------------------------------------- deterministic

func detChain(seed string) (seeds [][]byte, addrs []string, err error) {
	s := []byte(seed)
	for i := 0; i < tableLen; i++ {
		ns, pk, _, e := cipher.DeterministicKeyPairIterator(s)
		if e != nil {
			return nil, nil, e
		}
		seeds = append(seeds, ns)
		addrs = append(addrs, addrText(pk))
		s = ns
	}
	return
}

func runDet(o *Out, r *Rng, n int, dir string, hist Hist, caseJSON map[string][]map[string]interface{}) error {
	var items []string
	for c := 0; c < n; c++ {
		seed := "seed-" + asciiWord(r, 16)
		coinName := pickCoin(r)
		seeds, table, err := detChain(seed)
		if err != nil {
			return err
		}
		lastIdx := func(w wallet.Wallet) int {
			ls := w.LastSeed()
			if ls == seed {
				return 0
			}
			for i, s := range seeds {
				if fmt.Sprintf("%x", s) == ls {
					return i + 1
				}
			}
			return 999 // not a seed of the chain
		}
		gn, sn := r.Intn(5), 0
		if r.Chance(40) {
			sn = 1 + r.Intn(6)
		}
		var act0 []string
		opts := []wallet.Option{wallet.OptionGenerateN(uint64(gn))}
		if sn > 0 {
			scanned := sn
			if sn > gn {
				scanned = sn - gn
			}
			act0 = pickActives(r, table, gn, scanned)
			f := finder{}
			for _, a := range act0 {
				f[a] = true
			}
			opts = append(opts, wallet.OptionScanN(uint64(sn)), wallet.OptionTransactionsFinder(f))
		}
		fn := fmt.Sprintf("c17det%d.wlt", c)
		var cur wallet.Wallet
		opts = append(opts, wallet.OptionCryptoType(crypto.CryptoTypeSha256Xor), wallet.OptionCoinType(curCoin))
		cur, err = deterministic.NewWallet(fn, "c17", seed, opts...)
		if err != nil {
			return err
		}
		var ops, obs, opNames []string
		lastSeen := 0
		failsOK := true // every operation that must fail returned an error; every entry coherent after every op
		observe := func() error {
			es, err := entriesOf(cur)
			if err != nil {
				return err
			}
			if !coherent(es, !cur.IsEncrypted()) {
				failsOK = false
			}
			if !cur.IsEncrypted() { // Lock blanks lastSeed; it is observed again after Unlock
				lastSeen = lastIdx(cur)
			}
			obs = append(obs, Tuple(fmt.Sprint(lastSeen), strList(addrsOf(es))))
			return nil
		}
		if err := observe(); err != nil {
			return err
		}
		total := func() int { l, _ := cur.EntriesLen(); return l }
		// failing and inert operations are part of the alphabet: a scan whose finder
		// returns an error, generate / scan on a locked wallet (must fail), a count that
		// does not fit an int, Lock / Unlock; each must leave the derivation state alone
		locked := false
		password := []byte("pw-c17")
		mustFail := func(err error) {
			if err == nil {
				failsOK = false
			}
			ops = append(ops, "DFailed")
		}
		nDet := 3 + r.Intn(7)
		for k := nDet; k > 0; k-- {
			x := r.Intn(14)
			if (k == nDet && r.Chance(60)) || r.Chance(10) {
				x = 20 // read-only calls, often first (possibly on the still empty wallet)
			}
			switch {
			case x == 20:
				if !readOnlyCalls(cur) {
					failsOK = false
				}
				ops = append(ops, "DRead")
				opNames = append(opNames, "Read")
			case x == 10: // scan with a finder that errors
				_, err := cur.ScanAddresses(uint64(1+r.Intn(5)), &failingFinder{failAt: 0})
				mustFail(err)
				opNames = append(opNames, "ScanFinderError")
			case x == 11 && total() > 0 && !locked: // count >= 2^63: int(n) is negative, nothing is generated
				_, err := cur.GenerateAddresses(wallet.OptionGenerateN(uint64(1) << 63))
				if err != nil {
					return err
				}
				ops = append(ops, "DFailed")
				opNames = append(opNames, "GenHugeN")
			case x >= 11 && !locked:
				if err := cur.Lock(password); err != nil {
					return err
				}
				locked = true
				ops = append(ops, "DLock")
				opNames = append(opNames, "Lock")
			case x >= 11 || (locked && x >= 8):
				u, err := cur.Unlock(password)
				if err != nil {
					return err
				}
				cur, locked = u, false
				ops = append(ops, "DUnlock")
				opNames = append(opNames, "Unlock")
			case x < 4 && locked:
				_, err := cur.GenerateAddresses(wallet.OptionGenerateN(uint64(r.Intn(4))))
				mustFail(err)
				opNames = append(opNames, "GenLocked")
			case x < 7 && locked:
				_, err := cur.ScanAddresses(uint64(1+r.Intn(4)), finder{})
				mustFail(err)
				opNames = append(opNames, "ScanLocked")
			case x < 4:
				num := r.Intn(5)
				if total()+num > tableLen-8 {
					num = 0
				}
				if _, err := cur.GenerateAddresses(wallet.OptionGenerateN(uint64(num))); err != nil {
					return err
				}
				ops = append(ops, fmt.Sprintf("(DGen %d)", num))
				opNames = append(opNames, "Gen")
			case x < 7:
				num := r.Intn(7)
				if total()+num > tableLen-8 {
					num = 1
				}
				act := pickActives(r, table, total(), num)
				f := finder{}
				for _, a := range act {
					f[a] = true
				}
				if _, err := cur.ScanAddresses(uint64(num), f); err != nil {
					return err
				}
				ops = append(ops, fmt.Sprintf("(DScan %d %s)", num, actCoq(act)))
				opNames = append(opNames, "Scan")
			default:
				// a wallet that can not be saved and loaded again is a failure of the case,
				// not of the harness
				if nw, err := saveReload(cur, dir); err != nil || nw == nil {
					failsOK = false
				} else {
					cur = nw
				}
				ops = append(ops, "DSaveReload")
				opNames = append(opNames, "Reload")
			}
			if err := observe(); err != nil {
				return err
			}
			hist.Add("det:" + opNames[len(opNames)-1])
		}
		if locked {
			u, err := cur.Unlock(password)
			if err != nil {
				return err
			}
			cur = u
			ops = append(ops, "DUnlock")
			if err := observe(); err != nil {
				return err
			}
		}
		// single shot of the same total from a fresh wallet
		es, err := entriesOf(cur)
		if err != nil {
			return err
		}
		fresh, err := deterministic.NewWallet("c17fresh.wlt", "c17", seed, wallet.OptionGenerateN(uint64(len(es))), wallet.OptionCoinType(curCoin))
		if err != nil {
			return err
		}
		fes, err := entriesOf(fresh)
		if err != nil {
			return err
		}
		tab := make([]string, len(table))
		for i, a := range table {
			tab[i] = ab(a)
		}
		items = append(items, Tuple(coinName, strList(tab), Tuple(fmt.Sprint(gn), fmt.Sprint(sn), actCoq(act0)), List(ops), List(obs),
			strList(addrsOf(fes)), B(coherent(es, true) && fresh.LastSeed() == cur.LastSeed() && failsOK)))
		caseJSON["det"] = append(caseJSON["det"], map[string]interface{}{
			"seed": seed, "coin": coinName, "generateN": gn, "scanN": sn, "ops": strings.Join(ops, " "), "final_entries": len(es)})
		o.Count("det"+seed+strings.Join(ops, ""), true)
	}
	o.Def("cases_det", "coin * list string * (nat * nat * (string -> bool)) * list (dop string) * list (nat * list string) * list string * bool", items)
	return nil
}

// ---------------------------------------------------------------- bip44 / xpub

// bip44Tables derives, with the cipher/bip44 primitives only, the addresses of
// m/44'/coin'/acct'/chain/i for chain in {0,1}, i < tableLen, and the external
// chain's extended public key.
func bip44Tables(mnemonic, pass string, accounts int, coinNumber bip44.CoinType) (tables [][]string, xpubs []string, err error) {
	seed, err := bip39.NewSeed(mnemonic, pass)
	if err != nil {
		return nil, nil, err
	}
	coin, err := bip44.NewCoin(seed, coinNumber)
	if err != nil {
		return nil, nil, err
	}
	for a := 0; a < accounts; a++ {
		acct, err := coin.Account(uint32(a))
		if err != nil {
			return nil, nil, err
		}
		for chain := uint32(0); chain < 2; chain++ {
			ck, err := acct.NewPrivateChildKey(chain)
			if err != nil {
				return nil, nil, err
			}
			if chain == 0 {
				xpubs = append(xpubs, ck.PublicKey().String())
			}
			var t []string
			for i := uint32(0); i < tableLen; i++ {
				k, err := ck.NewPrivateChildKey(i)
				if err != nil {
					return nil, nil, err
				}
				sk, err := cipher.NewSecKey(k.Key)
				if err != nil {
					return nil, nil, err
				}
				pk, err := cipher.PubKeyFromSecKey(sk)
				if err != nil {
					return nil, nil, err
				}
				t = append(t, addrText(pk))
			}
			tables = append(tables, t)
		}
	}
	return
}

func runIdx(o *Out, r *Rng, n int, dir string, hist Hist, caseJSON map[string][]map[string]interface{}) error {
	var items []string
	for c := 0; c < n; c++ {
		mn, err := bip39.NewMnemonic(r.Bytes(16))
		if err != nil {
			return err
		}
		pass := ""
		if r.Bool() {
			pass = "pp-" + asciiWord(r, 8)
		}
		accounts := 1
		isXpub := c%3 == 2
		if !isXpub && r.Chance(35) {
			accounts = 2
		}
		coinName := pickCoin(r)
		// bip44 coin number: the coin's default, or an explicit other one (kept in the
		// meta and needed again by NewAccount after a reload)
		coinNumber := bip44.CoinTypeSkycoin
		if curCoin == wallet.CoinTypeBitcoin {
			coinNumber = bip44.CoinTypeBitcoin
		}
		var wopts []wallet.Option
		wopts = append(wopts, wallet.OptionCoinType(curCoin))
		if r.Chance(30) {
			coinNumber = bip44.CoinType([]uint32{1, 2, 145, 8000}[r.Intn(4)])
			cn := coinNumber
			wopts = append(wopts, wallet.OptionBip44Coin(&cn))
		}
		tables, xpubs, err := bip44Tables(mn, pass, 2, coinNumber)
		if err != nil {
			return err
		}
		allTables := tables
		tables = tables[:2*accounts]
		var cur wallet.Wallet
		var initOps []string
		nchains := 2 * accounts
		fn := fmt.Sprintf("c17idx%d.wlt", c)
		if isXpub {
			tables = tables[:1]
			nchains = 1
			g := r.Intn(4)
			cur, err = xpubwallet.NewWallet(fn, "c17", xpubs[0], wallet.OptionGenerateN(uint64(g)), wallet.OptionCoinType(curCoin))
			initOps = append(initOps, fmt.Sprintf("(IGen 0 %d)", g))
		} else {
			g := 1 + r.Intn(3)
			var bw *bip44wallet.Wallet
			bw, err = bip44wallet.NewWallet(fn, "c17", mn, pass, append(wopts, wallet.OptionGenerateN(uint64(g)), wallet.OptionCryptoType(crypto.CryptoTypeSha256Xor))...)
			initOps = append(initOps, fmt.Sprintf("(IGen 0 %d)", g), "(IGen 1 1)")
			if err == nil && accounts == 2 {
				_, err = bw.NewAccount("second")
			}
			cur = bw
		}
		if err != nil {
			return err
		}
		chains := func(w wallet.Wallet) ([][]wallet.Entry, error) {
			if isXpub {
				es, err := entriesOf(w)
				return [][]wallet.Entry{es}, err
			}
			var out [][]wallet.Entry
			for a := 0; a < accounts; a++ {
				ext, err := entriesOf(w, wallet.OptionAccount(uint32(a)), wallet.OptionExternal())
				if err != nil {
					return nil, err
				}
				chg, err := entriesOf(w, wallet.OptionAccount(uint32(a)), wallet.OptionChange())
				if err != nil {
					return nil, err
				}
				out = append(out, ext, chg)
			}
			return out, nil
		}
		nchains0 := nchains
		var ops, obs, opNames []string
		locked := false
		ok := true
		observe := func() error {
			cs, err := chains(cur)
			if err != nil {
				return err
			}
			for _, c := range cs { // every entry coherent after every op (secrets may be absent only while locked)
				if !coherent(c, false) {
					ok = false
				}
			}
			it := []string{}
			for _, c := range cs {
				it = append(it, strList(addrsOf(c)))
			}
			obs = append(obs, List(it))
			return nil
		}
		if err := observe(); err != nil {
			return err
		}
		lens := func() []int {
			cs, _ := chains(cur)
			l := make([]int, len(cs))
			for i, c := range cs {
				l[i] = len(c)
			}
			return l
		}
		// bip44 wallets are also locked and unlocked in between: addresses generated
		// while locked come from the chain public keys, their secrets are filled in by
		// Unlock (syncSecrets); after every Unlock all entries must be coherent
		password := []byte("pw-c17")
		doUnlock := func() error {
			u, err := cur.Unlock(password)
			if err != nil {
				return err
			}
			cur = u
			locked = false
			cs, err := chains(cur)
			if err != nil {
				return err
			}
			for _, c := range cs {
				ok = ok && coherent(c, true)
			}
			return nil
		}
		mustFail := func(err error) {
			if err == nil {
				ok = false
			}
			ops = append(ops, "IFailed")
		}
		nops := 3 + r.Intn(6)
		if !isXpub {
			nops += 2
		}
		for k := nops; k > 0; k-- {
			x := r.Intn(10)
			if !isXpub && r.Chance(25) {
				x = 10
			}
			if r.Chance(18) {
				x = 11 + r.Intn(3)
			}
			if !isXpub && accounts == 1 && !locked && r.Chance(12) {
				x = 14
			}
			if (k == nops && r.Chance(60)) || r.Chance(10) {
				x = 20 // read-only calls, often first (possibly on the still empty wallet)
			}
			switch {
			case x == 20:
				if !readOnlyCalls(cur) {
					ok = false
				}
				ops = append(ops, "IRead")
				opNames = append(opNames, "Read")
			case x == 14: // a second account (needs the seed and the bip44 coin number, possibly after a reload)
				bw, isB := cur.(*bip44wallet.Wallet)
				if !isB {
					return fmt.Errorf("not a bip44 wallet")
				}
				if _, err := bw.NewAccount("second"); err != nil {
					return err
				}
				accounts, nchains, tables = 2, 4, allTables
				ops = append(ops, "INewAccount")
				opNames = append(opNames, "NewAccount")
			case x == 11: // scan with a finder that errors at its k-th call (one call per chain)
				f := &failingFinder{set: finder{}, failAt: r.Intn(nchains)}
				for j := 0; j < nchains; j++ {
					for _, a := range pickActives(r, tables[j], lens()[j], 3) {
						f.set[a] = true
					}
				}
				_, err := cur.ScanAddresses(uint64(1+r.Intn(4)), f)
				mustFail(err)
				opNames = append(opNames, "ScanFinderError")
			case x == 12: // a count the wallet must refuse
				var err error
				if isXpub {
					_, err = cur.GenerateAddresses(wallet.OptionGenerateN(uint64(1) << 32))
				} else { // account 0 chains hold >= 1 address: length + MaxUint32 overflows uint32
					gopts := []wallet.Option{wallet.OptionGenerateN(uint64(1)<<32 - 1)}
					if r.Bool() {
						gopts = append(gopts, wallet.OptionChange())
					}
					_, err = cur.GenerateAddresses(gopts...)
				}
				mustFail(err)
				opNames = append(opNames, "GenBadN")
			case x == 13: // lock-state operations that must be refused
				var err error
				switch {
				case isXpub && r.Bool():
					err = cur.Lock(password)
				case isXpub:
					_, err = cur.Unlock(password)
				case locked && r.Bool():
					err = cur.Lock(password)
				case locked:
					_, err = cur.Unlock([]byte("wrong"))
				default:
					_, err = cur.Unlock(password)
				}
				mustFail(err)
				opNames = append(opNames, "LockStateRefused")
			case x == 10 && !locked:
				if err := cur.Lock(password); err != nil {
					return err
				}
				locked = true
				ops = append(ops, "ILock")
				opNames = append(opNames, "Lock")
			case x == 10:
				if err := doUnlock(); err != nil {
					return err
				}
				ops = append(ops, "IUnlock")
				opNames = append(opNames, "Unlock")
			case x < 4:
				j := r.Intn(nchains)
				if locked && nchains > 1 && r.Bool() {
					j = 1 + 2*r.Intn(nchains/2) // a change chain, while locked
				}
				num := r.Intn(5)
				if lens()[j]+num > tableLen-8 {
					num = 0
				}
				gopts := []wallet.Option{wallet.OptionGenerateN(uint64(num))}
				if !isXpub {
					gopts = append(gopts, wallet.OptionAccount(uint32(j/2)))
					if j%2 == 1 {
						gopts = append(gopts, wallet.OptionChange())
					}
				}
				if _, err := cur.GenerateAddresses(gopts...); err != nil {
					return err
				}
				ops = append(ops, fmt.Sprintf("(IGen %d %d)", j, num))
				opNames = append(opNames, "Gen")
			case x < 7:
				num := r.Intn(6)
				ls := lens()
				var act []string
				for j := 0; j < nchains; j++ {
					if ls[j]+num > tableLen-8 {
						num = 1
					}
				}
				for j := 0; j < nchains; j++ {
					act = append(act, pickActives(r, tables[j], ls[j], num)...)
				}
				f := finder{}
				for _, a := range act {
					f[a] = true
				}
				if _, err := cur.ScanAddresses(uint64(num), f); err != nil {
					return err
				}
				ops = append(ops, fmt.Sprintf("(IScan %d %s)", num, actCoq(act)))
				opNames = append(opNames, "Scan")
			default:
				if nw, err := saveReload(cur, dir); err != nil || nw == nil {
					ok = false
				} else {
					cur = nw
				}
				ops = append(ops, "ISaveReload")
				opNames = append(opNames, "Reload")
			}
			if err := observe(); err != nil {
				return err
			}
			lk := ""
			if locked {
				lk = "(locked)"
			}
			hist.Add(map[bool]string{true: "xpub:", false: "bip44:"}[isXpub] + opNames[len(opNames)-1] + lk)
		}
		if locked {
			if err := doUnlock(); err != nil {
				return err
			}
			ops = append(ops, "IUnlock")
			if err := observe(); err != nil {
				return err
			}
			hist.Add("bip44:Unlock")
		}
		// single shot of the same totals from a fresh wallet; entry coherence; the
		// xpub wallet on the account's external chain key lists the same addresses
		final, err := chains(cur)
		if err != nil {
			return err
		}
		var single []string
		if isXpub {
			fresh, err := xpubwallet.NewWallet("c17fresh.wlt", "c17", xpubs[0], wallet.OptionGenerateN(uint64(len(final[0]))), wallet.OptionCoinType(curCoin))
			if err != nil {
				return err
			}
			fes, err := entriesOf(fresh)
			if err != nil {
				return err
			}
			single = append(single, strList(addrsOf(fes)))
			ok = ok && coherent(final[0], false)
		} else {
			g := len(final[0])
			fresh, err := bip44wallet.NewWallet("c17fresh.wlt", "c17", mn, pass, append(wopts, wallet.OptionGenerateN(uint64(g)))...)
			if err != nil {
				return err
			}
			if accounts == 2 {
				if _, err := fresh.NewAccount("second"); err != nil {
					return err
				}
			}
			for j := 0; j < nchains; j++ {
				have := 0
				if j == 0 {
					have = g
					if g == 0 {
						have = 1 // NewWallet generates at least one external address
					}
				} else if j == 1 {
					have = 1
				}
				if want := len(final[j]); want > have {
					gopts := []wallet.Option{wallet.OptionGenerateN(uint64(want - have)), wallet.OptionAccount(uint32(j / 2))}
					if j%2 == 1 {
						gopts = append(gopts, wallet.OptionChange())
					}
					if _, err := fresh.GenerateAddresses(gopts...); err != nil {
						return err
					}
				}
			}
			fc := [][]wallet.Entry{}
			for a := 0; a < accounts; a++ {
				ext, _ := entriesOf(fresh, wallet.OptionAccount(uint32(a)), wallet.OptionExternal())
				chg, _ := entriesOf(fresh, wallet.OptionAccount(uint32(a)), wallet.OptionChange())
				fc = append(fc, ext, chg)
			}
			for _, c := range fc {
				single = append(single, strList(addrsOf(c)))
			}
			for _, c := range final {
				ok = ok && coherent(c, true)
			}
			// watch-only wallet on the external chain key of account 0
			xw, err := xpubwallet.NewWallet("c17x.wlt", "c17", xpubs[0], wallet.OptionGenerateN(uint64(len(final[0]))), wallet.OptionCoinType(curCoin))
			if err != nil {
				return err
			}
			xes, err := entriesOf(xw)
			if err != nil {
				return err
			}
			if len(xes) != len(final[0]) {
				ok = false
			}
			for i := range xes {
				if i < len(final[0]) && (xes[i].Address.String() != final[0][i].Address.String() || xes[i].Public != final[0][i].Public) {
					ok = false
				}
			}
		}
		tabs := []string{}
		for _, t := range tables {
			tt := make([]string, len(t))
			for i, a := range t {
				tt[i] = ab(a)
			}
			tabs = append(tabs, strList(tt))
		}
		items = append(items, Tuple(coinName, List(tabs), fmt.Sprint(nchains0), List(initOps), List(ops), List(obs), List(single), B(ok)))
		caseJSON["idx"] = append(caseJSON["idx"], map[string]interface{}{
			"type": map[bool]string{true: "xpub", false: "bip44"}[isXpub], "mnemonic": mn, "passphrase": pass, "accounts": accounts, "coin": coinName, "bip44_coin_number": uint32(coinNumber),
			"init_ops": strings.Join(initOps, " "), "ops": strings.Join(ops, " ")})
		o.Count("idx"+mn+strings.Join(ops, ""), true)
	}
	o.Def("cases_idx", "coin * list (list string) * nat * list (iop string) * list (iop string) * list (list (list string)) * list (list string) * bool", items)
	return nil
}

// ---------------------------------------------------------------- collection

func runColl(o *Out, r *Rng, n int, dir string, caseJSON map[string][]map[string]interface{}) error {
	var items []string
	curCoin = wallet.CoinTypeSkycoin // collection wallets build Skycoin addresses only
	for c := 0; c < n; c++ {
		var keys []cipher.SecKey
		var want []string
		for k := 1 + r.Intn(5); k > 0; k-- {
			pk, sk, err := cipher.GenerateDeterministicKeyPair(r.Bytes(32))
			if err != nil {
				return err
			}
			keys = append(keys, sk)
			want = append(want, ab(cipher.AddressFromPubKey(pk).String()))
		}
		split := r.Intn(len(keys) + 1)
		if c%2 == 0 && split == 0 {
			split = 1 // the scripted batches need a key the wallet already holds
		}
		fn := fmt.Sprintf("c17coll%d.wlt", c)
		w, err := collection.NewWallet(fn, "c17", wallet.OptionCollectionPrivateKeys(keys[:split]))
		if err != nil {
			return err
		}
		var cur wallet.Wallet = w
		allOK := true
		checkNow := func() error {
			es, err := entriesOf(cur)
			if err != nil {
				return err
			}
			allOK = allOK && coherent(es, true)
			return nil
		}
		if err := checkNow(); err != nil {
			return err
		}
		if r.Bool() {
			if cur, err = saveReload(cur, dir); err != nil {
				return err
			}
		}
		batch := append([]cipher.SecKey{}, keys[split:]...)
		if c%2 == 0 {
			// one batch listing a key the wallet already holds (A) among new keys (B, C):
			// [A,B,C] / [B,A,C] / [B,C,A]; the wallet keeps every listed key, in order
			a := keys[r.Intn(split)]
			for len(batch) < 2 {
				_, sk, err := cipher.GenerateDeterministicKeyPair(r.Bytes(32))
				if err != nil {
					return err
				}
				batch = append(batch, sk)
			}
			pos := (c / 2) % 3
			if pos > len(batch) {
				pos = len(batch)
			}
			batch = append(batch[:pos:pos], append([]cipher.SecKey{a}, batch[pos:]...)...)
		}
		want = want[:split]
		for _, sk := range batch {
			pk, err := cipher.PubKeyFromSecKey(sk)
			if err != nil {
				return err
			}
			want = append(want, ab(cipher.AddressFromPubKey(pk).String()))
		}
		if _, err := cur.GenerateAddresses(wallet.OptionCollectionPrivateKeys(batch)); err != nil {
			return err
		}
		if err := checkNow(); err != nil {
			return err
		}
		// a wallet that no longer loads is a failure of the case, not of the harness
		if nw, err := saveReload(cur, dir); err != nil || nw == nil {
			allOK = false
		} else {
			cur = nw
		}
		es, err := entriesOf(cur)
		if err != nil {
			return err
		}
		items = append(items, Tuple(strList(want), strList(addrsOf(es)), B(allOK && coherent(es, true))))
		caseJSON["coll"] = append(caseJSON["coll"], map[string]interface{}{"keys": len(keys), "held_before_batch": split, "batch_len": len(batch),
			"batch_lists_a_held_key": c%2 == 0, "held_key_position_in_batch": (c / 2) % 3, "want": strings.Join(want, " ")})
		o.Count(fmt.Sprint("coll", want, split), true)
	}
	o.Def("cases_coll", "list string * list string * bool", items)
	return nil
}

func run(args []string) error {
	f := ParseFlags("c17", args)
	r := NewRng(f.Seed)
	n := f.Budget(60, 1200)
	o := NewOut()
	hist := Hist{}
	caseJSON := map[string][]map[string]interface{}{}
	dir, err := os.MkdirTemp("", "c17wlt")
	if err != nil {
		return err
	}
	defer os.RemoveAll(dir)

	if err := runDet(o, r, n/2, dir, hist, caseJSON); err != nil {
		return err
	}
	if err := runIdx(o, r, n/2, dir, hist, caseJSON); err != nil {
		return err
	}
	if err := runColl(o, r, n/6+2, dir, caseJSON); err != nil {
		return err
	}
	o.Side["cases"] = caseJSON
	o.Side["distribution"] = hist.Sorted()
	o.Side["rule"] = "a case is one wallet (seed / mnemonic + passphrase + accounts) with its creation options and op sequence, distinct by seed and ops; every case derives addresses and is compared state by state with the model and with a one-shot derivation"
	var samples []map[string]interface{}
	for _, g := range []string{"det", "idx", "coll"} {
		for i, c := range caseJSON[g] {
			if i < 3 {
				m := map[string]interface{}{"group": g}
				for k, v := range c {
					m[k] = v
				}
				samples = append(samples, m)
			}
		}
	}
	o.Side["samples"] = samples
	return o.Write(f.Out, f.JSON)
}
