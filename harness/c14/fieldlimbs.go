package main

// Translation validation of Gen/FieldLimbs.v (translator/stage4.go): the limb-level
// methods of secp256k1go.Field (Normalize, SetAdd, MulInt, Negate, IsOdd, IsZero,
// Equals, SetInt, SetB32, GetB32) are run on generated limb tuples and the
// observed limbs are written as Coq lists into the side file (key
// "fieldlimbs_coq"); lib/props/c14.py evaluates Corr/C14_limbs.v on them.
// Field{ n [10]uint32 } has no exported access to its limbs: they are read and
// written through unsafe.Pointer (layout checked at start-up).

import (
	"fmt"
	"strings"
	"unsafe"

	. "verif/harness/kit"

	secp "github.com/skycoin/skycoin/src/cipher/secp256k1-go/secp256k1-go2"
)

func limbsOf(f *secp.Field) *[10]uint32 { return (*[10]uint32)(unsafe.Pointer(f)) }

func zlist(xs []uint32) string {
	s := make([]string, len(xs))
	for i, x := range xs {
		s[i] = fmt.Sprintf("%d", x)
	}
	return "[" + strings.Join(s, "; ") + "]"
}
func blist(xs []byte) string {
	s := make([]string, len(xs))
	for i, x := range xs {
		s[i] = fmt.Sprintf("%d", x)
	}
	return "[" + strings.Join(s, "; ") + "]"
}

const max26, max22 = uint32(1<<26 - 1), uint32(1<<22 - 1)

// genLimbs: limb tuples of every kind the code meets, and some it never does
func genLimbs(r *Rng) ([10]uint32, string) {
	var n [10]uint32
	lim := func(i int) uint32 {
		if i == 9 {
			return max22
		}
		return max26
	}
	kind := ""
	switch r.Intn(11) {
	case 9, 10: // magnitude <= 8: the premise of Mul / Sqr (limbs up to 8 * max, often exactly)
		m := uint32(1 + r.Intn(8))
		kind = "magnitude<=8"
		for i := range n {
			n[i] = m * (uint32(r.U64()) & lim(i))
			if r.Chance(50) {
				n[i] = m * lim(i)
			}
		}
	case 0: // normalised, random
		kind = "reduced"
		for i := range n {
			n[i] = uint32(r.U64()) & lim(i)
		}
	case 1: // normalised, limbs at 0 / 1 / max-1 / max
		kind = "reduced-edge"
		for i := range n {
			switch r.Intn(5) {
			case 0:
				n[i] = 0
			case 1:
				n[i] = 1
			case 2:
				n[i] = lim(i) - 1
			case 3:
				n[i] = lim(i)
			default:
				n[i] = uint32(r.U64()) & lim(i)
			}
		}
	case 2: // around p: all ones, low limbs near the limbs of p
		kind = "near-p"
		for i := range n {
			n[i] = lim(i)
		}
		n[0] = 0x3FFFC2F + uint32(r.Intn(5)) - 2
		n[1] = 0x3FFFFBF + uint32(r.Intn(3)) - 1
		if r.Chance(30) {
			n[0] = uint32(r.U64()) & max26
		}
	case 3: // magnitude m: m times a normalised value (what SetAdd / MulInt / Negate leave)
		m := uint32(1 + r.Intn(64))
		kind = fmt.Sprintf("magnitude<=64")
		for i := range n {
			n[i] = m * (uint32(r.U64()) & lim(i))
			if r.Chance(40) {
				n[i] = m * lim(i)
			}
		}
	case 4: // value just below a multiple of 2^256 in un-normalised form (the second carry of 234fc8ec9)
		kind = "double-carry"
		m := uint32(2 + r.Intn(6))
		for i := range n {
			n[i] = m * lim(i)
		}
		n[0] -= uint32(r.Intn(2000))
	case 5: // the no-wrap bound of Normalize: n_i <= 2^32 - 64
		kind = "norm-pre-bound"
		for i := range n {
			n[i] = ^uint32(0) - 63 - uint32(r.Intn(3))
			if r.Chance(50) {
				n[i] = uint32(r.U64())
				if n[i] > ^uint32(0)-63 {
					n[i] = ^uint32(0) - 63
				}
			}
		}
		n[0] = uint32(r.U64Edge())
	case 6: // beyond it: uint32 additions wrap (the translation must still agree)
		kind = "beyond-bound"
		for i := range n {
			n[i] = uint32(r.U64Edge())
		}
	case 7:
		kind = "zero-ish"
		if r.Chance(50) {
			n[r.Intn(10)] = uint32(r.Intn(3))
		}
	default:
		kind = "random32"
		for i := range n {
			n[i] = uint32(r.U64())
		}
	}
	return n, kind
}

func runFieldLimbs(r *Rng, cnt int, o *Out, hist Hist, caseJSON map[string][]map[string]interface{}) string {
	if unsafe.Sizeof(secp.Field{}) != 40 {
		panic("secp256k1go.Field is not [10]uint32")
	}
	var norm, add, mul, neg, preds, setint, setb, getb, fmul, sqr []string
	rec := func(g string, m map[string]interface{}) { caseJSON[g] = append(caseJSON[g], m) }
	for i := 0; i < cnt; i++ {
		a, ka := genLimbs(r)
		b, kb := genLimbs(r)
		{
			var f secp.Field
			*limbsOf(&f) = a
			f.Normalize()
			out := *limbsOf(&f)
			norm = append(norm, Tuple(zlist(a[:]), zlist(out[:])))
			rec("fl_norm", map[string]interface{}{"fn": "Normalize", "kind": ka, "limbs": zlist(a[:]), "observed": zlist(out[:])})
			hist.Add("fieldlimbs:" + ka)
		}
		{
			var f, g secp.Field
			*limbsOf(&f), *limbsOf(&g) = a, b
			f.SetAdd(&g)
			out := *limbsOf(&f)
			add = append(add, Tuple(zlist(a[:]), zlist(b[:]), zlist(out[:])))
			rec("fl_add", map[string]interface{}{"fn": "SetAdd", "kind": ka + "+" + kb, "limbs": zlist(a[:]), "limbs2": zlist(b[:]), "observed": zlist(out[:])})
		}
		{
			k := uint32(r.Intn(9))
			if r.Chance(15) {
				k = uint32(r.U64Edge())
			}
			var f secp.Field
			*limbsOf(&f) = a
			f.MulInt(k)
			out := *limbsOf(&f)
			mul = append(mul, Tuple(zlist(a[:]), fmt.Sprint(k), zlist(out[:])))
			rec("fl_mul", map[string]interface{}{"fn": "MulInt", "kind": ka, "limbs": zlist(a[:]), "a": k, "observed": zlist(out[:])})
		}
		{
			m := uint32(r.Intn(64))
			if r.Chance(10) {
				m = uint32(r.U64Edge())
			}
			var f, g secp.Field
			*limbsOf(&f) = a
			*limbsOf(&g) = b // Negate must overwrite every limb of its result
			f.Negate(&g, m)
			out := *limbsOf(&g)
			neg = append(neg, Tuple(zlist(a[:]), fmt.Sprint(m), zlist(out[:])))
			rec("fl_neg", map[string]interface{}{"fn": "Negate", "kind": ka, "limbs": zlist(a[:]), "m": m, "observed": zlist(out[:])})
		}
		{
			var f, g secp.Field
			*limbsOf(&f), *limbsOf(&g) = a, b
			if r.Chance(40) {
				*limbsOf(&g) = a
				if r.Chance(50) {
					limbsOf(&g)[r.Intn(10)] ^= 1 << uint(r.Intn(22))
				}
			}
			gb := *limbsOf(&g)
			preds = append(preds, Tuple(zlist(a[:]), zlist(gb[:]), B(f.IsOdd()), B(f.IsZero()), B(f.Equals(&g))))
			rec("fl_pred", map[string]interface{}{"fn": "IsOdd/IsZero/Equals", "kind": ka, "limbs": zlist(a[:]), "limbs2": zlist(gb[:]),
				"observed": fmt.Sprint(f.IsOdd(), f.IsZero(), f.Equals(&g))})
		}
		{
			k := uint32(r.U64Edge())
			var f secp.Field
			*limbsOf(&f) = a
			f.SetInt(k)
			out := *limbsOf(&f)
			setint = append(setint, Tuple(fmt.Sprint(k), zlist(out[:])))
			rec("fl_setint", map[string]interface{}{"fn": "SetInt", "a": k, "observed": zlist(out[:])})
		}
		{
			bs := r.Bytes(32)
			switch r.Intn(5) {
			case 0:
				for j := range bs {
					bs[j] = 0xff
				}
			case 1:
				for j := range bs {
					bs[j] = 0
				}
				bs[r.Intn(32)] = byte(1 << uint(r.Intn(8)))
			}
			var f secp.Field
			*limbsOf(&f) = a // SetB32 must overwrite every limb
			f.SetB32(bs)
			out := *limbsOf(&f)
			setb = append(setb, Tuple(blist(bs), zlist(out[:])))
			rec("fl_setb32", map[string]interface{}{"fn": "SetB32", "bytes": fmt.Sprintf("%x", bs), "observed": zlist(out[:])})
		}
		{
			var f secp.Field
			*limbsOf(&f) = a
			buf := r.Bytes(32) // GetB32 must overwrite every byte
			f.GetB32(buf)
			getb = append(getb, Tuple(zlist(a[:]), blist(buf)))
			rec("fl_getb32", map[string]interface{}{"fn": "GetB32", "kind": ka, "limbs": zlist(a[:]), "observed": fmt.Sprintf("%x", buf)})
		}
		{
			// Field.Mul / Field.Sqr: uint64 accumulators; inputs of every magnitude, incl. beyond the bound of 8
			var f, g, out secp.Field
			*limbsOf(&f), *limbsOf(&g) = a, b
			*limbsOf(&out) = b // every limb of the result must be overwritten
			f.Mul(&out, &g)
			ol := *limbsOf(&out)
			fmul = append(fmul, Tuple(zlist(a[:]), zlist(b[:]), zlist(ol[:])))
			rec("fl_fmul", map[string]interface{}{"fn": "Mul", "kind": ka + "*" + kb, "limbs": zlist(a[:]), "limbs2": zlist(b[:]), "observed": zlist(ol[:])})
			*limbsOf(&out) = b
			f.Sqr(&out)
			ol = *limbsOf(&out)
			sqr = append(sqr, Tuple(zlist(a[:]), zlist(ol[:])))
			rec("fl_sqr", map[string]interface{}{"fn": "Sqr", "kind": ka, "limbs": zlist(a[:]), "observed": zlist(ol[:])})
		}
		o.Count(fmt.Sprint("fieldlimbs", a, b), true)
	}
	var sb strings.Builder
	def := func(name, ty string, items []string) {
		fmt.Fprintf(&sb, "Definition %s : list (%s) :=\n  [%s].\n", name, ty, strings.Join(items, ";\n   "))
	}
	def("cases_fl_norm", "list Z * list Z", norm)
	def("cases_fl_add", "list Z * list Z * list Z", add)
	def("cases_fl_mul", "list Z * Z * list Z", mul)
	def("cases_fl_neg", "list Z * Z * list Z", neg)
	def("cases_fl_pred", "list Z * list Z * bool * bool * bool", preds)
	def("cases_fl_setint", "Z * list Z", setint)
	def("cases_fl_setb32", "list Z * list Z", setb)
	def("cases_fl_getb32", "list Z * list Z", getb)
	def("cases_fl_fmul", "list Z * list Z * list Z", fmul)
	def("cases_fl_sqr", "list Z * list Z", sqr)
	return sb.String()
}
