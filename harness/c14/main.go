// Command c14: runs the secp256k1 implementation (src/cipher/secp256k1-go,
// src/cipher/crypto.go) on random and edge inputs and writes one case per line
//   <group>:<index> <op> <args...> => <observed tokens>
// The same inputs are evaluated by the extracted Coq model (runner/c14_driver.ml).
package main

import (
	"bufio"
	"encoding/hex"
	"fmt"
	"math/big"
	"os"
	"runtime"
	"strings"
	"sync"

	. "verif/harness/kit"

	"github.com/skycoin/skycoin/src/cipher"
	secp256k1 "github.com/skycoin/skycoin/src/cipher/secp256k1-go"
	secp "github.com/skycoin/skycoin/src/cipher/secp256k1-go/secp256k1-go2"
)

var (
	bigN, _    = new(big.Int).SetString("FFFFFFFFFFFFFFFFFFFFFFFFFFFFFFFEBAAEDCE6AF48A03BBFD25E8CD0364141", 16)
	bigP, _    = new(big.Int).SetString("FFFFFFFFFFFFFFFFFFFFFFFFFFFFFFFFFFFFFFFFFFFFFFFFFFFFFFFEFFFFFC2F", 16)
	bigHalf, _ = new(big.Int).SetString("7FFFFFFFFFFFFFFFFFFFFFFFFFFFFFFF5D576E7357A4501DDFE92F46681B20A0", 16)
	big2_256   = new(big.Int).Lsh(big.NewInt(1), 256)
	big2_255   = new(big.Int).Lsh(big.NewInt(1), 255)
)

func bi(x int64) *big.Int             { return big.NewInt(x) }
func add(a *big.Int, d int64) *big.Int { return new(big.Int).Add(a, bi(d)) }

var sentinels = map[error]string{
	cipher.ErrInvalidLengthPubKey:      "ErrInvalidLengthPubKey",
	cipher.ErrInvalidPubKey:            "ErrInvalidPubKey",
	cipher.ErrInvalidSecKey:            "ErrInvalidSecKey",
	cipher.ErrInvalidLengthSecKey:      "ErrInvalidLengthSecKey",
	cipher.ErrInvalidSigPubKeyRecovery: "ErrInvalidSigPubKeyRecovery",
	cipher.ErrPubKeyRecoverMismatch:    "ErrPubKeyRecoverMismatch",
	cipher.ErrInvalidSigInvalidPubKey:  "ErrInvalidSigInvalidPubKey",
	cipher.ErrInvalidSigValidity:       "ErrInvalidSigValidity",
	cipher.ErrInvalidSigForMessage:     "ErrInvalidSigForMessage",
	cipher.ErrInvalidAddressForSig:     "ErrInvalidAddressForSig",
	cipher.ErrInvalidHashForSig:        "ErrInvalidHashForSig",
	cipher.ErrECHDInvalidPubKey:        "ErrECHDInvalidPubKey",
	cipher.ErrECHDInvalidSecKey:        "ErrECHDInvalidSecKey",
	cipher.ErrNullSignHash:             "ErrNullSignHash",
	cipher.ErrEmptySeed:                "ErrEmptySeed",
}

func errName(err error) string {
	if err == nil {
		return "ok"
	}
	if s, ok := sentinels[err]; ok {
		return s
	}
	return "Err:" + strings.ReplaceAll(err.Error(), " ", "_")
}

func hx(b []byte) string {
	if len(b) == 0 {
		return "-"
	}
	return hex.EncodeToString(b)
}
func hn(z *big.Int) string { return z.Text(16) }
func b32(z *big.Int) []byte {
	out := make([]byte, 32)
	z.FillBytes(out)
	return out
}

// abscissae of curve points whose ordinate is tiny (y or p-y below 120): the
// square root comes out of the field code in a non-canonical form for some of them
var tinyY = []string{
	"1fe1e5ef3fceb5c135ab7741333ce5a6e80d68167653f6b2b24bcbcfaaaff507",
	"cbb0deab125754f1fdb2038b0434ed9cb3fb53ab735391129994a535d925f673",
	"c8b492e17665b9e65e4a124661e1103f1aebfcc849dcd94f7688dcf149f6f4f2",
	"911a99bd99d05b1707461fe091eb849299ef589b8056db3bab0a84328b24437e",
	"a95c7e1d4c5db1863b7c6fb26ac231479ff552c18707b69a9ac6bf9c3676f31b",
	"aa054108a816a0d84cc7cb39cce350a93d831203d67dd7ed2cbd403945db360b",
	"c2b84dcef67220199a187064a65579cad41a3345bcf6974fe3a153128b81ca10",
	"a05a4e324093debc5efd9a3c66494f0b47d7c7bc9d041be7e91c9c8ffff01d1a",
	"38c6df1539ef1082e6d1fd0a5d8226b86f5f34f10fe5ae536b703983014320b0",
	"323583ef33a8a7dd491f80baf36181edfb87def66a0953f20be0e5368749d783",
	"db2b0e9f3d35f7defc0362851b21ee6184f2ad044b4a06a08ae634778e583124",
	"02869c8595b16acb991b94aa2b4da55fb4b495fbc0b0c645449f6ba45c64aed7",
	"f346d78c225763a603a094a7876f2d1fbe5669a8ff9ee4dbadba044634093494",
	"0ea5f1e47526f7b6752aae922e0f1785eb35edf08290feb707709e2a2daa8d85",
	"08a9a8ec60215e7d961f54cd56d5a6fa0fd8a5d2e161017179c15570c4279950",
	"59fa7093c77bcfa583415295b35d2334cc2bf159d0d3bff2efee4cd4864f2378",
	"0a8ddcbcfb264d60bd4b7a871ee156ca1058fe0e67b111eb42ba88448fafca49",
	"707d59587e49b6ea9c70f34235c278c0dac834975ef91d2d372040661aff748a",
	"15b8631911608efee5727fb3d430ef5685feccde320ef7f23b4523e02a61dd37",
	"00f72f7246df4ee2569332a47d103d47018c18f5a618be23d500a86ed14638af",
	"397631a548139bbcddc6b6b307887237496784dc01208758d85c67c9d0df3291",
	"352ef110ea23a05f37691ef352671af768988f8665eb927069948078dbce7e56",
	"c0e6d52bdf965e9d995cb0dd8c0b89bec6e0d380ca2d2ed53ac145eaf3dafae7",
	"fe5821cdcc724819e812c7bf98c694f779e334f272f3af91dc03ddaea0c5f290",
	"e81285a683ac496061284ac14490b243c4a539b24888b034a81f267e5ba78da5",
	"3be6c6c0b319b64bc635d0b49ad027ecbee30ac81f0623deadbfdcceae104d8f",
	"dea65c9e6afe092a7b1a289ea0f8eb3f867cd01c80d0482bc4526a14b68eb6d0",
	"1aa76e307c0c9518e254e54fe75200506b13ef4aa326177ebffa2d4841f1fc5f",
	"356351ab25021cfd3c8dc0ecd2554b661c211a28f3153f08caa999f66fca9556",
	"eeb53615bcc80a7c8eaa542546c688bde10ab564c0e7ecae2e015edd0537ae3e",
	"d17949fb0a915847628eb63c78317e4875ffca8e194c7f0934bc17f563c92626",
	"2a7ad1e659965083aa3d34ecc6fb488d71790ab1c99c91a1628bc1b488377500",
	"04a6345509e0a41a9246fb8cb3cca3fbf70889d88cfe2af7e229b388d32e23b4",
	"a5886fdf491bec7685daf0e73600915d853280e1c66f38e077bb8f51a4513f0c",
	"949067d8b4c6bcb5efcfdd9dfc1a78807539bcabb3711531a5d51069344a0376",
	"5dccc2f265208bc3d2e33bc559f3c6c17a816e7ebd1b487f449c5d2b5c15323d",
	"b746b3be0f53c61c6c559fbec4b863c501d699749a79ac58e80b77d025831acd",
	"11075ac78e52c72a784e5faa0433d4569a4b997d15a30322e767c8f33671b7d0",
	"28205211c01b78f0c09961e821fbfee942cba2a7736262c0a977de0cf7044358",
	"3eacee8a6e135bbcec2ae6d18cb9d2335e144f4de5635c6e5cc19df81600b727",
	"a6ccbc878d5e8f7a5211f6eca53b75c65e68be6792858d2377631b33992c8e3c",
	"cc44854d98484ef4955b4bbadc0cf082109396c29945dc12859c4e58c1cf2edb",
	"ac7c3f4b956ac2570c2397104e41f19359d3cad5b088a523ccb175989ef02e03",
	"eeb0b048a4ffd6f934c799368ded449313f8b18bb3849afe4fdd1c37a8a169a2",
	"f46dd0fb29a812bdea6a4ffcb0043f988c42f2a1f9d780db1ffe31607a53ccdc",
	"ceec7d5baf4de2dc09db1e66c5bf91636ba467953e5a9057b1f3fe4c502f7237",
	"29e6f6aa7f4a4ee2acafe145e62bda0d0fab9a882acdb1946023eb1e6fc3d241",
	"89aee8e035b9a97ab07f9c5f59e99ba7b820166d36a4d61d3fcfccf8e4e7c1c0",
	"f3715ec4999970ee72d84ef07c2c8c18fdc3169a004fe32d28e060cbaa7b1ddb",
	"e434139c08d6794c8de6e79341b15eacac54d62b8d9e9c94fe6ea2ee017546e7",
	"80990715d8e21d88e51dc03b4cd3870a328cada151ba436d063cd1d80fa0940b",
	"dcdb32a74c9b6c35984c45d18a32b1881b059a70a44a569b6118bda4a74a58e6",
	"7487a236aac9cbae6ff119fd90d9985328b30a437dc82af48442b4c30dc2c5dd",
	"a17aaa7ab6f49a808599751702d3a4c626c543bb5a3d5b27b3c815ba6d99791a",
	"1592e025d0c2f9585916b7e39f46f8f8fd322a42931b36cd632bd92a00efd95a",
	"48b483feb7ec557fa45ab84f8b386d1156bf6004165cc6721e8a508b570904e3",
	"f353af4cfc38312a5d059983168b6c240bb7e9228a0a854085bfd4122c2ee4da",
	"39cfb945565c41255636ab96c88974a96918ab584c28765cb8db064b36b8cb55",
	"1cadf3655f2a9bf78a15f669e413950d24649a71ba0fa21fd6cabb7456ac9489",
	"de406e7440b536d25061e5d632a507cec5b98a6867615d221f5dec7a11b617da",
}

type gen struct {
	r *Rng
}

// a 256-bit number biased to the boundaries of the scalar / field ranges
func (g *gen) edge() *big.Int {
	edges := []*big.Int{
		bi(0), bi(1), bi(2), bi(3), add(bigN, -2), add(bigN, -1), bigN, add(bigN, 1), add(bigN, 2),
		add(big2_256, -1), add(big2_256, -2), bigHalf, add(bigHalf, 1), add(bigHalf, -1), add(bigHalf, 2),
		add(bigP, -1), bigP, add(bigP, 1), add(bigP, 2), big2_255, add(big2_255, -1), add(big2_255, 1),
		new(big.Int).Sub(bigP, bigN), add(new(big.Int).Sub(bigP, bigN), -1), add(new(big.Int).Sub(bigP, bigN), 1),
		new(big.Int).Sub(bigN, big2_255), add(new(big.Int).Sub(bigN, big2_255), 1), add(new(big.Int).Sub(bigN, big2_255), -1),
	}
	switch g.r.Intn(10) {
	case 0, 1, 2:
		return new(big.Int).Set(edges[g.r.Intn(len(edges))])
	case 3:
		return bi(int64(g.r.Intn(1 << 16)))
	case 4:
		// random width
		z := new(big.Int).SetBytes(g.r.Bytes(32))
		return z.Rsh(z, uint(g.r.Intn(256)))
	default:
		return new(big.Int).SetBytes(g.r.Bytes(32))
	}
}

func (g *gen) rand256() *big.Int { return new(big.Int).SetBytes(g.r.Bytes(32)) }

// a valid secret key: mostly random, sometimes a boundary value
func (g *gen) validKey() *big.Int {
	for {
		var k *big.Int
		if g.r.Chance(25) {
			k = g.edge()
		} else {
			k = g.rand256()
		}
		if k.Sign() > 0 && k.Cmp(bigN) < 0 {
			return k
		}
	}
}

func pubOf(k *big.Int) []byte { return secp.GeneratePublicKey(b32(k)) }

// a 33-byte public key encoding: valid, or broken in one of several ways
func (g *gen) pubBytes() ([]byte, string) {
	pk := pubOf(g.validKey())
	switch g.r.Intn(12) {
	case 0: // x not on the curve (about half of the random x)
		b := append([]byte{byte(2 + g.r.Intn(2))}, g.r.Bytes(32)...)
		return b, "randx"
	case 1: // bad prefix
		b := append([]byte{}, pk...)
		b[0] = []byte{0, 1, 4, 5, 6, 7, 0x82, 0xff}[g.r.Intn(8)]
		return b, "prefix"
	case 2: // x >= p
		x := new(big.Int).Add(bigP, bi(int64(g.r.Intn(40))))
		if g.r.Bool() {
			x = add(big2_256, -1-int64(g.r.Intn(5)))
		}
		return append([]byte{byte(2 + g.r.Intn(2))}, b32(x)...), "xgep"
	case 3: // small x
		return append([]byte{byte(2 + g.r.Intn(2))}, b32(bi(int64(g.r.Intn(30))))...), "smallx"
	case 4: // parity flipped: the other valid point
		b := append([]byte{}, pk...)
		b[0] ^= 1
		return b, "negated"
	case 5: // one byte changed
		b := append([]byte{}, pk...)
		b[1+g.r.Intn(32)] ^= byte(1 << uint(g.r.Intn(8)))
		return b, "flip"
	case 7: // valid point with a tiny y (or p - tiny)
		x, _ := hex.DecodeString(tinyY[g.r.Intn(len(tinyY))])
		return append([]byte{byte(2 + g.r.Intn(2))}, x...), "tinyy"
	case 6: // x just below p
		return append([]byte{byte(2 + g.r.Intn(2))}, b32(add(bigP, -1-int64(g.r.Intn(40))))...), "xnearp"
	default:
		return pk, "valid"
	}
}

type sigT struct {
	r, s  *big.Int
	recid int
}

func (s sigT) bytes() []byte {
	out := append(b32(s.r), b32(s.s)...)
	return append(out, byte(s.recid))
}

// low-level signature with an explicit nonce
func lowSign(k, m, nonce *big.Int) (ret int, sg sigT, panicked bool) {
	var sig secp.Signature
	var kk, mm, nn secp.Number
	kk.Set(k)
	mm.Set(m)
	nn.Set(nonce)
	var recid int
	panicked = Guard(func() { ret = sig.Sign(&kk, &mm, &nn, &recid) })
	if panicked || ret != 1 {
		return ret, sigT{}, panicked
	}
	return 1, sigT{new(big.Int).Set(&sig.R.Int), new(big.Int).Set(&sig.S.Int), recid}, false
}

func (g *gen) nonce() *big.Int {
	switch g.r.Intn(12) {
	case 0:
		return bi(int64(1 + g.r.Intn(20)))
	case 1:
		return add(bigN, -1-int64(g.r.Intn(20)))
	case 2: // not reduced: the scalar multiplication must treat it as nonce mod n
		z := new(big.Int).Add(bigN, bi(int64(1+g.r.Intn(1000))))
		if g.r.Bool() {
			z = add(big2_256, -1-int64(g.r.Intn(1000)))
		}
		return z
	default:
		return g.validKey()
	}
}

// a signature (valid for key k and message m) and a catalogue of mutations
func (g *gen) mutatedSig(k, m *big.Int) (sigT, string) {
	_, sg, _ := lowSign(k, m, g.validKey())
	if sg.r == nil {
		sg = sigT{g.rand256(), g.rand256(), g.r.Intn(4)}
	}
	kind := "valid"
	switch g.r.Intn(16) {
	case 0:
		sg.s = new(big.Int).Sub(bigN, sg.s)
		kind = "neg-s"
	case 1:
		sg.s = new(big.Int).Sub(bigN, sg.s)
		sg.recid ^= 1
		kind = "neg-s+recid^1"
	case 2:
		sg.recid ^= 1
		kind = "recid^1"
	case 3:
		sg.recid |= 2
		kind = "recid|2"
	case 4:
		sg.recid = g.r.Intn(256)
		kind = "recid-any"
	case 5:
		sg.recid += 4 * (1 + g.r.Intn(63))
		kind = "recid+4k"
	case 6:
		sg.r = g.edge()
		kind = "r-edge"
	case 7:
		sg.s = g.edge()
		kind = "s-edge"
	case 8:
		sg.r = g.rand256()
		kind = "r-rand"
	case 9:
		sg.s = new(big.Int).Xor(sg.s, new(big.Int).Lsh(bi(1), uint(g.r.Intn(256))))
		kind = "s-flip"
	case 10: // r + n (needs r < p - n, so r must be tiny: the signature is not valid, but exercises the branch)
		sg.r = new(big.Int).Rsh(g.rand256(), uint(127+g.r.Intn(10)))
		sg.recid |= 2
		kind = "r-small+recid|2"
	case 11:
		sg.r = new(big.Int).Xor(sg.r, new(big.Int).Lsh(bi(1), uint(g.r.Intn(256))))
		kind = "r-flip"
	}
	return sg, kind
}

func main() { Main(run) }

func run(args []string) error {
	f := ParseFlags("c14", args)
	g := &gen{NewRng(f.Seed)}
	n := f.Budget(120, 3000)
	o := NewOut()
	hist := Hist{}
	caseJSON := map[string][]map[string]interface{}{}
	var lines []string
	var samples []map[string]interface{}

	emit := func(group, op string, in []string, observed string, fields map[string]interface{}, nontrivial bool) {
		idx := len(caseJSON[group])
		line := fmt.Sprintf("%s:%d %s %s => %s", group, idx, op, strings.Join(in, " "), observed)
		lines = append(lines, line)
		m := map[string]interface{}{"op": op, "args": strings.Join(in, " "), "observed": observed}
		for k, v := range fields {
			m[k] = v
		}
		caseJSON[group] = append(caseJSON[group], m)
		o.Count(line, nontrivial)
		if len(samples) < 12 && g.r.Intn(n/2+1) == 0 {
			samples = append(samples, map[string]interface{}{"group": group, "op": op, "args": strings.Join(in, " "), "observed": observed})
		}
	}

	for i := 0; i < n; i++ {
		// ---- secret key validity
		{
			k := g.edge()
			code := secp.SeckeyIsValid(b32(k))
			_, err := cipher.NewSecKey(b32(k))
			emit("seckey", "seckey", []string{hn(k)}, fmt.Sprintf("%d %s", code, errName(err)), nil, true)
			hist.Add(fmt.Sprintf("seckey:%d", code))
		}
		// ---- public key from secret key
		{
			k := g.edge()
			if g.r.Chance(60) {
				k = g.validKey()
			}
			obs := "rej"
			sk, err := cipher.NewSecKey(b32(k))
			if err == nil {
				var pk cipher.PubKey
				var perr error
				if Guard(func() { pk, perr = cipher.PubKeyFromSecKey(sk) }) {
					obs = "panic"
				} else if perr != nil {
					obs = "rej"
				} else {
					obs = hx(pk[:])
					low := secp.GeneratePublicKey(b32(k))
					if hx(low) != obs {
						obs = "LOWLEVEL-DIFF:" + obs + ":" + hx(low)
					}
				}
			}
			emit("pubkey", "pubkey", []string{hn(k)}, obs, nil, err == nil)
			hist.Add("pubkey:" + map[bool]string{true: "valid", false: "rejected"}[err == nil])
		}
		// ---- signing with an injected nonce
		{
			k := g.validKey()
			if g.r.Chance(15) {
				k = g.edge()
			}
			m := g.rand256()
			if g.r.Chance(25) {
				m = g.edge()
			}
			nonce := g.nonce()
			ret, sg, pan := lowSign(k, m, nonce)
			obs := "0"
			if pan {
				obs = "panic"
			} else if ret == 1 {
				obs = fmt.Sprintf("1 %s %s %x", hn(sg.r), hn(sg.s), sg.recid)
				hist.Add(fmt.Sprintf("sign:recid%d", sg.recid))
			} else {
				hist.Add("sign:fail")
			}
			emit("sign", "sign", []string{hn(k), hn(m), hn(nonce)}, obs, nil, ret == 1)
		}
		// ---- textbook verification (Signature.Verify)
		{
			k := g.validKey()
			m := g.rand256()
			if g.r.Chance(20) {
				m = g.edge()
			}
			sg, kind := g.mutatedSig(k, m)
			pk := pubOf(k)
			if g.r.Chance(10) {
				pk = pubOf(g.validKey())
				kind += "+otherkey"
			}
			m2 := m
			if g.r.Chance(10) {
				m2 = g.rand256()
				kind += "+othermsg"
			}
			var xy secp.XY
			if err := xy.ParsePubkey(pk); err != nil {
				return fmt.Errorf("ParsePubkey of a generated key failed: %v", err)
			}
			var sig secp.Signature
			sig.R.Set(sg.r)
			sig.S.Set(sg.s)
			var mm secp.Number
			mm.Set(m2)
			var ok bool
			obs := ""
			if Guard(func() { ok = sig.Verify(&xy, &mm) }) {
				obs = "panic"
			} else if ok {
				obs = "1"
			} else {
				obs = "0"
			}
			emit("verify", "verify", []string{hx(pk), hn(m2), hn(sg.r), hn(sg.s)}, obs, map[string]interface{}{"kind": kind}, true)
			hist.Add("verify:" + kind + "=" + obs)
		}
		// ---- secp256k1.VerifySignature / RecoverPubkey / cipher.VerifyPubKeySignedHash on 65-byte signatures
		{
			k := g.validKey()
			m := g.rand256()
			if g.r.Chance(10) {
				m = g.edge()
			}
			sg, kind := g.mutatedSig(k, m)
			pk := pubOf(k)
			msg := b32(m)
			sb := sg.bytes()
			// VerifySignature
			var v int
			obs := ""
			if Guard(func() { v = secp256k1.VerifySignature(msg, sb, pk) }) {
				obs = "panic"
			} else {
				obs = fmt.Sprint(v)
			}
			emit("vsig", "vsig", []string{hx(msg), hx(sb), hx(pk)}, obs, map[string]interface{}{"kind": kind}, true)
			hist.Add("vsig:" + kind + "=" + obs)
			// RecoverPublicKey (code) + RecoverPubkey (bytes)
			var rec []byte
			var code int
			if Guard(func() { rec, code = secp.RecoverPublicKey(sb[:64], msg, sg.recid) }) {
				obs = "panic"
			} else {
				var rec2 []byte
				p2 := Guard(func() { rec2 = secp256k1.RecoverPubkey(msg, sb) })
				r1, r2 := "nil", "nil"
				if rec != nil {
					r1 = hx(rec)
				}
				if rec2 != nil {
					r2 = hx(rec2)
				}
				if p2 || r1 != r2 {
					obs = fmt.Sprintf("WRAPPER-DIFF:%d:%s:%s:%v", code, r1, r2, p2)
				} else {
					obs = fmt.Sprintf("%d %s", code, r1)
				}
			}
			emit("recover", "recover", []string{hx(msg), hx(sb)}, obs, map[string]interface{}{"kind": kind}, true)
			hist.Add(fmt.Sprintf("recover:%s=%d", kind, code))
			// VerifyPubKeySignedHash
			var cpk cipher.PubKey
			copy(cpk[:], pk)
			var csig cipher.Sig
			copy(csig[:], sb)
			var h cipher.SHA256
			copy(h[:], msg)
			var err error
			if Guard(func() { err = cipher.VerifyPubKeySignedHash(cpk, csig, h) }) {
				obs = "panic"
			} else {
				obs = errName(err)
			}
			emit("vpsh", "vpsh", []string{hx(pk), hx(sb), hx(msg)}, obs, map[string]interface{}{"kind": kind}, true)
			hist.Add("vpsh:" + obs)
		}
		// ---- recovery from arbitrary (r, s, recid): about half of the random r are abscissae of curve points
		{
			sg := sigT{g.rand256(), g.rand256(), g.r.Intn(256)}
			kind := "random"
			if g.r.Chance(30) {
				sg.r = g.edge()
				kind = "r-edge"
			}
			if g.r.Chance(30) {
				sg.s = g.edge()
				kind += "+s-edge"
			}
			if g.r.Chance(15) {
				sg.r = new(big.Int).Rsh(g.rand256(), uint(127+g.r.Intn(4)))
				sg.recid |= 2
				kind = "r<p-n,recid|2"
			}
			if g.r.Chance(10) {
				sg.r, _ = new(big.Int).SetString(tinyY[g.r.Intn(len(tinyY))], 16)
				kind = "r-tinyy"
			}
			m := g.rand256()
			if g.r.Chance(15) {
				m = g.edge()
			}
			msg := b32(m)
			sb := sg.bytes()
			var rec []byte
			var code int
			obs := ""
			if Guard(func() { rec, code = secp.RecoverPublicKey(sb[:64], msg, sg.recid) }) {
				obs = "panic"
			} else if rec != nil {
				obs = fmt.Sprintf("%d %s", code, hx(rec))
			} else {
				obs = fmt.Sprintf("%d nil", code)
			}
			emit("recover", "recover", []string{hx(msg), hx(sb)}, obs, map[string]interface{}{"kind": kind}, true)
			hist.Add(fmt.Sprintf("recover:%s=%d", kind, code))
		}
		// ---- public key parsing / validity
		{
			b, kind := g.pubBytes()
			var code int
			obs := ""
			if Guard(func() { code = secp.PubkeyIsValid(b) }) {
				obs = "panic"
			} else {
				obs = fmt.Sprint(code)
			}
			emit("pkcode", "pkcode", []string{hx(b)}, obs, map[string]interface{}{"kind": kind}, true)
			hist.Add("pkcode:" + kind + "=" + obs)
			// cipher.NewPubKey also on other lengths
			b2 := b
			if g.r.Chance(20) {
				switch g.r.Intn(4) {
				case 0:
					b2 = b[:g.r.Intn(33)]
				case 1:
					b2 = append(append([]byte{}, b...), g.r.Bytes(1+g.r.Intn(33))...)
				case 2:
					b2 = nil
				case 3:
					b2 = b[1:]
				}
				kind += "+len"
			}
			var err error
			if Guard(func() { _, err = cipher.NewPubKey(b2) }) {
				obs = "panic"
			} else {
				obs = errName(err)
			}
			emit("newpk", "newpk", []string{hx(b2)}, obs, map[string]interface{}{"kind": kind}, true)
			hist.Add("newpk:" + obs)
		}
		// ---- ECDH
		{
			b, kind := g.pubBytes()
			k := g.validKey()
			if g.r.Chance(25) {
				k = g.edge()
				kind += "+k-edge"
			}
			if kind == "tinyy" && g.r.Bool() {
				// the result is +-P (or a small multiple): again a point with a tiny ordinate
				k = []*big.Int{bi(1), add(bigN, -1), bi(2), add(bigN, -2)}[g.r.Intn(4)]
				kind += "+k=+-1,2"
			}
			var out []byte
			obs := ""
			if Guard(func() { out = secp256k1.ECDH(b, b32(k)) }) {
				obs = "panic"
			} else if out == nil {
				obs = "nil"
			} else {
				obs = hx(out)
			}
			emit("ecdh", "ecdh", []string{hx(b), hn(k)}, obs, map[string]interface{}{"kind": kind}, out != nil)
			hist.Add("ecdh:" + kind + "=" + map[bool]string{true: "key", false: "nil"}[out != nil])
		}
		// ---- cipher.SignHash (random nonce drawn by the implementation): the produced
		//      signature must be accepted by the model for the signer's key
		if i%3 == 0 {
			k := g.validKey()
			var h cipher.SHA256
			copy(h[:], g.r.Bytes(32))
			sk, err := cipher.NewSecKey(b32(k))
			if err != nil {
				return fmt.Errorf("NewSecKey of a valid key failed: %v", err)
			}
			var sig cipher.Sig
			obs := "1"
			if Guard(func() { sig, err = cipher.SignHash(h, sk) }) || err != nil {
				obs = "signhash-failed"
			}
			pk := pubOf(k)
			emit("signhash", "vsig", []string{hx(h[:]), hx(sig[:]), hx(pk)}, obs, nil, true)
			hist.Add("signhash:" + obs)
		}
		// ---- deterministic key sequences
		if i%5 == 0 {
			seed := g.r.Bytes(1 + g.r.Intn(64))
			cnt := 1 + g.r.Intn(3)
			var newSeed []byte
			var keys []cipher.SecKey
			var err error
			obs := ""
			if Guard(func() { newSeed, keys, err = cipher.GenerateDeterministicKeyPairsSeed(seed, cnt) }) {
				obs = "panic"
			} else if err != nil {
				obs = errName(err)
			} else {
				toks := []string{hx(newSeed)}
				for _, sk := range keys {
					pk := cipher.MustPubKeyFromSecKey(sk)
					toks = append(toks, hx(pk[:]), hx(sk[:]))
				}
				obs = strings.Join(toks, " ")
				// the single-key entry point must give the first key
				p1, s1, e1 := cipher.GenerateDeterministicKeyPair(seed)
				if e1 != nil || hx(s1[:]) != toks[2] || hx(p1[:]) != toks[1] {
					obs = "SINGLE-DIFF " + obs
				}
			}
			emit("detkeys", "detkeys", []string{hx(seed), fmt.Sprintf("%x", cnt)}, obs, nil, true)
			hist.Add(fmt.Sprintf("detkeys:n=%d", cnt))
		}
		// ---- model self-consistency: affine double-and-add = Jacobian execution (no implementation involved)
		if i%10 == 0 {
			k := g.edge()
			pk := pubOf(g.validKey())
			emit("affine", "affine", []string{hn(k), hx(pk)}, "1", nil, true)
			hist.Add("affine")
		}
	}

	// ---- algebraically adversarial signatures: the double scalar multiplication na*A + ng*G of
	//      verification / recovery is steered into P+P, P+(-P) and infinity intermediates.
	//      With A = t*G known (A = Q = d*G for verification, A = R = k*G for recovery) the two
	//      partial results are small multiples of the same point: na = a, ng = b*t.
	modN := func(z *big.Int) *big.Int { return new(big.Int).Mod(z, bigN) }
	inv := func(z *big.Int) *big.Int { return new(big.Int).ModInverse(modN(z), bigN) }
	small := []int64{1, 2, 3, 4, -1, -2, -3}
	structured := func() *big.Int { // scalars whose wNAF / 128-bit split has zero low digits, small ones, powers of two
		for {
			k := g.validKey()
			switch g.r.Intn(8) {
			case 0, 1, 2: // even, bit 128 clear
				k.SetBit(k, 0, 0)
				k.SetBit(k, 128, 0)
			case 3:
				k = new(big.Int).Lsh(bi(1), uint(1+g.r.Intn(254)))
			case 4:
				k = bi(int64(2 + g.r.Intn(1000)))
			case 5: // low 128 bits zero
				k.Rsh(k, 128).Lsh(k, 128)
			}
			if k.Sign() > 0 && k.Cmp(bigN) < 0 {
				return k
			}
		}
	}
	nAdv := n / 2
	if nAdv < 40 {
		nAdv = 40
	}
	for j := 0; j < nAdv; j++ {
		// (1) valid signature for key d whose verification computes a*Q + (b*d)*G = a*Q + b*Q
		{
			d := structured()
			a, b := small[g.r.Intn(len(small))], small[g.r.Intn(len(small))]
			if a+b == 0 {
				b = a // a*Q + a*Q
			}
			k := modN(new(big.Int).Mul(bi(a+b), d))
			if k.Sign() == 0 {
				continue
			}
			R := pubOf(k)
			r := modN(new(big.Int).SetBytes(R[1:]))
			s := modN(new(big.Int).Mul(r, inv(bi(a))))
			m := modN(new(big.Int).Mul(new(big.Int).Mul(modN(bi(b)), d), s))
			if r.Sign() == 0 || s.Sign() == 0 {
				continue
			}
			pk := pubOf(d)
			for _, sv := range []*big.Int{s, new(big.Int).Sub(bigN, s)} {
				var xy secp.XY
				if err := xy.ParsePubkey(pk); err != nil {
					return err
				}
				var sig secp.Signature
				sig.R.Set(r)
				sig.S.Set(sv)
				var mm secp.Number
				mm.Set(m)
				var ok bool
				obs := "0"
				if Guard(func() { ok = sig.Verify(&xy, &mm) }) {
					obs = "panic"
				} else if ok {
					obs = "1"
				}
				emit("adv", "verify", []string{hx(pk), hn(m), hn(r), hn(sv)}, obs, map[string]interface{}{"kind": fmt.Sprintf("verify a=%d b=%d", a, b)}, true)
			}
			// byte level (VerifySignature = recovery + comparison) with the low one of s, n-s
			recid := int(R[0] & 1)
			sv := s
			if s.Cmp(bigHalf) > 0 {
				sv = new(big.Int).Sub(bigN, s)
				recid ^= 1
			}
			sb := sigT{r, sv, recid}.bytes()
			var v int
			obs := ""
			if Guard(func() { v = secp256k1.VerifySignature(b32(m), sb, pk) }) {
				obs = "panic"
			} else {
				obs = fmt.Sprint(v)
			}
			emit("adv", "vsig", []string{hx(b32(m)), hx(sb), hx(pk)}, obs, map[string]interface{}{"kind": fmt.Sprintf("vsig a=%d b=%d", a, b)}, true)
			hist.Add(fmt.Sprintf("adv:verify:a=%d,b=%d=%s", a, b, obs))
		}
		// (2) recovery Q = u2*R + u1*G with R = k*G, u2 = a, u1 = b*k (b = -a gives infinity: must fail) or tiny u1
		{
			k := structured()
			R := pubOf(k)
			x := new(big.Int).SetBytes(R[1:])
			if x.Cmp(bigN) >= 0 {
				continue
			}
			a, b := small[g.r.Intn(len(small))], small[g.r.Intn(len(small))]
			u2 := modN(bi(a))
			u1 := modN(new(big.Int).Mul(bi(b), k))
			kind := fmt.Sprintf("recover u2=%d u1=%d*k", a, b)
			if g.r.Chance(25) {
				t := []int64{0, 1, 2, -1, -2}[g.r.Intn(5)]
				u1 = modN(bi(t))
				kind = fmt.Sprintf("recover u2=%d u1=%d", a, t)
			}
			s := modN(new(big.Int).Mul(u2, x))
			m := modN(new(big.Int).Neg(new(big.Int).Mul(u1, x)))
			if s.Sign() == 0 {
				continue
			}
			sg := sigT{x, s, int(R[0] & 1)}
			msg := b32(m)
			sb := sg.bytes()
			var rec []byte
			var code int
			obs := ""
			if Guard(func() { rec, code = secp.RecoverPublicKey(sb[:64], msg, sg.recid) }) {
				obs = "panic"
			} else if rec != nil {
				obs = fmt.Sprintf("%d %s", code, hx(rec))
			} else {
				obs = fmt.Sprintf("%d nil", code)
			}
			emit("adv", "recover", []string{hx(msg), hx(sb)}, obs, map[string]interface{}{"kind": kind}, true)
			hist.Add(fmt.Sprintf("adv:%s=%d", strings.SplitN(kind, " u1", 2)[0], code))
		}
		// (3) the abscissa classes [n, p): r tiny with recid 2/3 (x = r+n) and its re-encoding r+n with recid 0/1 (must be refused: r >= n)
		{
			r := bi(int64(1 + g.r.Intn(1<<16)))
			if g.r.Chance(30) {
				r = add(new(big.Int).Sub(bigP, bigN), -1-int64(g.r.Intn(1000)))
			}
			s := g.validKey()
			msg := b32(g.rand256())
			for _, c := range []struct {
				r     *big.Int
				recid int
			}{{r, 2 + g.r.Intn(2)}, {new(big.Int).Add(r, bigN), g.r.Intn(2)}, {new(big.Int).Add(r, bigN), 2 + g.r.Intn(2)}} {
				sb := sigT{c.r, s, c.recid}.bytes()
				var rec []byte
				var code int
				obs := ""
				if Guard(func() { rec, code = secp.RecoverPublicKey(sb[:64], msg, c.recid) }) {
					obs = "panic"
				} else if rec != nil {
					obs = fmt.Sprintf("%d %s", code, hx(rec))
				} else {
					obs = fmt.Sprintf("%d nil", code)
				}
				emit("adv", "recover", []string{hx(msg), hx(sb)}, obs, map[string]interface{}{"kind": "r in [n,p) classes"}, true)
			}
		}
	}

	// ---- limb boundaries of the 10x26-bit field representation (limb i = bits 26i..26i+25, top limb 22 bits):
	//      every limb at 0, 1, max-1, max or random, values near p and 2^256-1 - small*2^(26k); used as
	//      public-key abscissa (both parities), as r of a signature, and as message
	limbValue := func() *big.Int {
		z := new(big.Int)
		switch g.r.Intn(6) {
		case 0: // 2^256-1 - d*2^(26k) - low
			z.Sub(big2_256, bi(1))
			z.Sub(z, new(big.Int).Lsh(bi(int64(1+g.r.Intn(1<<uint(1+g.r.Intn(26))))), uint(26*g.r.Intn(10))))
			z.Sub(z, bi(int64(g.r.Intn(3))*int64(g.r.Intn(1<<31))))
			if z.Sign() < 0 {
				z.Neg(z)
			}
		case 1: // near p
			z.Add(bigP, bi(int64(g.r.Intn(2000))-1000))
			if g.r.Bool() {
				z.Sub(z, new(big.Int).Lsh(bi(int64(1+g.r.Intn(1<<22))), uint(26*(1+g.r.Intn(9)))))
			}
		default:
			for i := 9; i >= 0; i-- {
				bits := uint(26)
				if i == 9 {
					bits = 22
				}
				max := int64(1)<<bits - 1
				var limb int64
				switch g.r.Intn(6) {
				case 0:
					limb = 0
				case 1:
					limb = 1
				case 2:
					limb = max - 1
				case 3, 4:
					limb = max
				default:
					limb = int64(g.r.U64()) & max
				}
				z.Lsh(z, bits)
				z.Or(z, bi(limb))
			}
		}
		return z
	}
	nLimb := n
	if nLimb < 120 {
		nLimb = 120
	}
	for j := 0; j < nLimb; j++ {
		x := limbValue()
		if x.BitLen() > 256 {
			continue
		}
		for _, pre := range []byte{2, 3} {
			b := append([]byte{pre}, b32(x)...)
			var code int
			obs := ""
			if Guard(func() { code = secp.PubkeyIsValid(b) }) {
				obs = "panic"
			} else {
				obs = fmt.Sprint(code)
			}
			emit("limb", "pkcode", []string{hx(b)}, obs, map[string]interface{}{"kind": "limb-boundary"}, true)
			var err error
			if Guard(func() { _, err = cipher.NewPubKey(b) }) {
				obs = "panic"
			} else {
				obs = errName(err)
			}
			emit("limb", "newpk", []string{hx(b)}, obs, map[string]interface{}{"kind": "limb-boundary"}, true)
			k := g.validKey()
			var out []byte
			if Guard(func() { out = secp256k1.ECDH(b, b32(k)) }) {
				obs = "panic"
			} else if out == nil {
				obs = "nil"
			} else {
				obs = hx(out)
			}
			emit("limb", "ecdh", []string{hx(b), hn(k)}, obs, map[string]interface{}{"kind": "limb-boundary"}, true)
		}
		// as r (recid 0..3) with a limb-boundary message
		{
			sg := sigT{x, g.validKey(), g.r.Intn(4)}
			m := g.rand256()
			if g.r.Bool() {
				m = limbValue()
				if m.BitLen() > 256 {
					m = g.rand256()
				}
			}
			msg := b32(m)
			sb := sg.bytes()
			var rec []byte
			var code int
			obs := ""
			if Guard(func() { rec, code = secp.RecoverPublicKey(sb[:64], msg, sg.recid) }) {
				obs = "panic"
			} else if rec != nil {
				obs = fmt.Sprintf("%d %s", code, hx(rec))
			} else {
				obs = fmt.Sprintf("%d nil", code)
			}
			emit("limb", "recover", []string{hx(msg), hx(sb)}, obs, map[string]interface{}{"kind": "limb-boundary"}, true)
			// cipher.PubKeyFromSig must not panic either
			var csig cipher.Sig
			copy(csig[:], sb)
			var h cipher.SHA256
			copy(h[:], msg)
			var err error
			if Guard(func() { _, err = cipher.PubKeyFromSig(csig, h) }) {
				obs = "panic"
			} else if err != nil {
				obs = "0 nil"
			} else {
				obs = "same"
			}
			want := "0 nil"
			if rec != nil {
				want = "same"
			}
			if obs != want {
				emit("limb", "recover", []string{hx(msg), hx(sb)}, "PubKeyFromSig:"+obs, map[string]interface{}{"kind": "limb-boundary PubKeyFromSig"}, true)
			}
		}
	}
	hist.Add(fmt.Sprintf("limb-boundary=%d", len(caseJSON["limb"])))

	// ---- concurrency: the same recover / verify / ECDH / sign+verify calls sequentially (these results are also
	//      compared with the model) and then from many goroutines at once; every concurrent result must equal
	//      the sequential one.  Run-time check on the implementation: shared scratch state and data races are
	//      invisible to the functional model.
	{
		if runtime.GOMAXPROCS(0) < 4 {
			runtime.GOMAXPROCS(4)
		}
		type task struct {
			op   string
			args []string
			f    func() string
		}
		var tasks []task
		nT := 48
		for j := 0; j < nT; j++ {
			d, k := g.validKey(), g.validKey()
			m := g.rand256()
			_, sg, _ := lowSign(d, m, k)
			if sg.r == nil {
				continue
			}
			pk := pubOf(d)
			msg := b32(m)
			sb := sg.bytes()
			switch j % 4 {
			case 0:
				recid := sg.recid
				tasks = append(tasks, task{"recover", []string{hx(msg), hx(sb)}, func() string {
					rec, code := secp.RecoverPublicKey(sb[:64], msg, recid)
					if rec == nil {
						return fmt.Sprintf("%d nil", code)
					}
					return fmt.Sprintf("%d %s", code, hx(rec))
				}})
			case 1:
				tasks = append(tasks, task{"vsig", []string{hx(msg), hx(sb), hx(pk)}, func() string {
					return fmt.Sprint(secp256k1.VerifySignature(msg, sb, pk))
				}})
			case 2:
				k2 := g.validKey()
				kb := b32(k2)
				tasks = append(tasks, task{"ecdh", []string{hx(pk), hn(k2)}, func() string {
					out := secp256k1.ECDH(pk, kb)
					if out == nil {
						return "nil"
					}
					return hx(out)
				}})
			case 3:
				r, sv := sg.r, sg.s
				tasks = append(tasks, task{"verify", []string{hx(pk), hn(m), hn(r), hn(sv)}, func() string {
					var xy secp.XY
					if err := xy.ParsePubkey(pk); err != nil {
						return "badpk"
					}
					var sig secp.Signature
					sig.R.Set(r)
					sig.S.Set(sv)
					var mm secp.Number
					mm.Set(m)
					if sig.Verify(&xy, &mm) {
						return "1"
					}
					return "0"
				}})
			}
		}
		safe := func(f func() string) (out string) {
			defer func() {
				if r := recover(); r != nil {
					out = "panic"
				}
			}()
			return f()
		}
		seq := make([]string, len(tasks))
		for i, t := range tasks {
			seq[i] = safe(t.f)
			emit("conc", t.op, t.args, seq[i], map[string]interface{}{"kind": "sequential reference"}, true)
		}
		workers, roundsC := 12, 6
		if f.Tier != "quick" {
			roundsC = 40
		}
		bad := 0
		for round := 0; round < roundsC && bad < 5; round++ {
			res := make([][]string, workers)
			var wg sync.WaitGroup
			for w := 0; w < workers; w++ {
				wg.Add(1)
				go func(w int) {
					defer wg.Done()
					out := make([]string, len(tasks))
					for i := range tasks {
						ti := (i + w*7) % len(tasks) // different workers are in different calls at the same moment
						out[ti] = safe(tasks[ti].f)
					}
					res[w] = out
				}(w)
			}
			wg.Wait()
			for w := 0; w < workers && bad < 5; w++ {
				for i := range tasks {
					if res[w][i] != seq[i] {
						bad++
						emit("conc", "nop", []string{"-"}, "-", map[string]interface{}{
							"kind": "concurrent", "concurrent_equal": "no", "call": tasks[i].op + " " + strings.Join(tasks[i].args, " "),
							"sequential": seq[i], "concurrent": res[w][i], "goroutines": workers, "round": round}, true)
						break
					}
				}
			}
		}
		emit("conc", "nop", []string{"-"}, "-", map[string]interface{}{"kind": "concurrent summary", "concurrent_equal": map[bool]string{true: "yes", false: "no"}[bad == 0],
			"calls": len(tasks), "goroutines": workers, "rounds": roundsC, "gomaxprocs": runtime.GOMAXPROCS(0)}, true)
		hist.Add(fmt.Sprintf("concurrent:%d calls x %d goroutines x %d rounds:mismatches=%d", len(tasks), workers, roundsC, bad))
	}

	// ---- scripted scalar boundaries: every scalar the API takes (r, s, message, secret key, nonce) at
	//      0, 1, 2, n-1, n, n+1, p-1, p, p+1, 2^255-1, 2^255, halfOrder, halfOrder+1, 2^256-1 in each position of
	//      RecoverPublicKey / Signature.Verify / VerifySignature / Signature.Sign / key validation / ECDH,
	//      with the other components valid
	{
		bounds := []*big.Int{bi(0), bi(1), bi(2), add(bigN, -1), bigN, add(bigN, 1), add(bigP, -1), bigP, add(bigP, 1),
			add(big2_255, -1), big2_255, bigHalf, add(bigHalf, 1), add(big2_256, -1)}
		rounds := 1 + n/120
		for j := 0; j < rounds; j++ {
			d, k := g.validKey(), g.validKey()
			m := g.rand256()
			_, sg, _ := lowSign(d, m, k)
			if sg.r == nil {
				continue
			}
			pk := pubOf(d)
			recoverCase := func(r, sv, mm *big.Int, recid int, kind string) {
				sb := sigT{r, sv, recid}.bytes()
				msg := b32(mm)
				var rec []byte
				var code int
				obs := ""
				if Guard(func() { rec, code = secp.RecoverPublicKey(sb[:64], msg, recid) }) {
					obs = "panic"
				} else if rec != nil {
					obs = fmt.Sprintf("%d %s", code, hx(rec))
				} else {
					obs = fmt.Sprintf("%d nil", code)
				}
				emit("scal", "recover", []string{hx(msg), hx(sb)}, obs, map[string]interface{}{"kind": kind}, true)
				var v int
				if Guard(func() { v = secp256k1.VerifySignature(msg, sb, pk) }) {
					obs = "panic"
				} else {
					obs = fmt.Sprint(v)
				}
				emit("scal", "vsig", []string{hx(msg), hx(sb), hx(pk)}, obs, map[string]interface{}{"kind": kind}, true)
				var cpk cipher.PubKey
				copy(cpk[:], pk)
				var csig cipher.Sig
				copy(csig[:], sb)
				var h cipher.SHA256
				copy(h[:], msg)
				var err error
				if Guard(func() { err = cipher.VerifyPubKeySignedHash(cpk, csig, h) }) {
					obs = "panic"
				} else {
					obs = errName(err)
				}
				emit("scal", "vpsh", []string{hx(pk), hx(sb), hx(msg)}, obs, map[string]interface{}{"kind": kind}, true)
			}
			verifyCase := func(r, sv, mm *big.Int, kind string) {
				var xy secp.XY
				if err := xy.ParsePubkey(pk); err != nil {
					return
				}
				var sig secp.Signature
				sig.R.Set(r)
				sig.S.Set(sv)
				var num secp.Number
				num.Set(mm)
				var ok bool
				obs := "0"
				if Guard(func() { ok = sig.Verify(&xy, &num) }) {
					obs = "panic"
				} else if ok {
					obs = "1"
				}
				emit("scal", "verify", []string{hx(pk), hn(mm), hn(r), hn(sv)}, obs, map[string]interface{}{"kind": kind}, true)
			}
			for _, b := range bounds {
				for recid := 0; recid < 4; recid++ {
					if recid >= 2 && j > 0 {
						continue
					}
					recoverCase(sg.r, b, m, recid, "s="+hn(b))
					recoverCase(b, sg.s, m, recid, "r="+hn(b))
				}
				recoverCase(sg.r, sg.s, b, sg.recid, "msg="+hn(b))
				verifyCase(sg.r, b, m, "s="+hn(b))
				verifyCase(b, sg.s, m, "r="+hn(b))
				verifyCase(sg.r, sg.s, b, "msg="+hn(b))
				// sign with boundary key / message / nonce (nonce = 0 mod n is outside Sign's contract)
				for pos := 0; pos < 3; pos++ {
					kk, mm, nn := d, m, k
					switch pos {
					case 0:
						kk = b
					case 1:
						mm = b
					case 2:
						nn = b
						if new(big.Int).Mod(b, bigN).Sign() == 0 {
							continue
						}
					}
					ret, s2, pan := lowSign(kk, mm, nn)
					obs := "0"
					if pan {
						obs = "panic"
					} else if ret == 1 {
						obs = fmt.Sprintf("1 %s %s %x", hn(s2.r), hn(s2.s), s2.recid)
					}
					emit("scal", "sign", []string{hn(kk), hn(mm), hn(nn)}, obs, map[string]interface{}{"kind": fmt.Sprintf("sign pos %d = %s", pos, hn(b))}, true)
				}
				// key validation and ECDH with a boundary secret key
				code := secp.SeckeyIsValid(b32(b))
				_, err := cipher.NewSecKey(b32(b))
				emit("scal", "seckey", []string{hn(b)}, fmt.Sprintf("%d %s", code, errName(err)), map[string]interface{}{"kind": "seckey boundary"}, true)
				var out []byte
				obs := ""
				if Guard(func() { out = secp256k1.ECDH(pk, b32(b)) }) {
					obs = "panic"
				} else if out == nil {
					obs = "nil"
				} else {
					obs = hx(out)
				}
				emit("scal", "ecdh", []string{hx(pk), hn(b)}, obs, map[string]interface{}{"kind": "ecdh boundary key"}, true)
			}
		}
		hist.Add(fmt.Sprintf("scalar-boundaries=%d", len(caseJSON["scal"])))
	}

	// ---- chosen raw s: for key d and nonce k the message m = s0*k - r*d makes the un-normalised s equal to a
	//      chosen s0, placed on the thresholds of every comparison in Sign / Verify / Recover
	//      ((n-1)/2, (n+1)/2, 2^255-1, 2^255, n-2^255, n-1, 1 and inside the window ((n-1)/2, 2^255))
	{
		modN := func(z *big.Int) *big.Int { return new(big.Int).Mod(z, bigN) }
		lo := new(big.Int).Sub(bigN, big2_255)
		targets := func() []*big.Int {
			t := []*big.Int{bi(1), bi(2), add(bigHalf, -1), bigHalf, add(bigHalf, 1), add(bigHalf, 2), add(big2_255, -2), add(big2_255, -1), big2_255, add(big2_255, 1),
				add(lo, -1), lo, add(lo, 1), add(bigN, -2), add(bigN, -1)}
			for j := 0; j < 6; j++ { // inside the window
				w := new(big.Int).Sub(big2_255, bigHalf)
				z := new(big.Int).Mod(g.rand256(), w)
				t = append(t, z.Add(z, bigHalf))
			}
			return t
		}
		rounds := 2 + n/60
		for j := 0; j < rounds; j++ {
			d, k := g.validKey(), g.validKey()
			R := pubOf(k)
			r := modN(new(big.Int).SetBytes(R[1:]))
			for _, s0 := range targets() {
				m := modN(new(big.Int).Sub(new(big.Int).Mul(s0, k), new(big.Int).Mul(r, d)))
				ret, sg, pan := lowSign(d, m, k)
				obs := "0"
				if pan {
					obs = "panic"
				} else if ret == 1 {
					obs = fmt.Sprintf("1 %s %s %x", hn(sg.r), hn(sg.s), sg.recid)
				}
				emit("raws", "sign", []string{hn(d), hn(m), hn(k)}, obs, map[string]interface{}{"kind": "chosen raw s", "raw_s": hn(s0)}, true)
				if ret == 1 && !pan { // what was produced must verify and recover the signer (also at byte level)
					pk := pubOf(d)
					sb := sg.bytes()
					var v int
					o2 := ""
					if Guard(func() { v = secp256k1.VerifySignature(b32(m), sb, pk) }) {
						o2 = "panic"
					} else {
						o2 = fmt.Sprint(v)
					}
					emit("raws", "vsig", []string{hx(b32(m)), hx(sb), hx(pk)}, o2, map[string]interface{}{"kind": "chosen raw s", "raw_s": hn(s0)}, true)
				}
			}
		}
		hist.Add(fmt.Sprintf("chosen-raw-s=%d", len(caseJSON["raws"])))
	}

	// ---- abscissae just below p (x = p - delta, all limbs near their maximum): the combined double scalar
	//      multiplication of recovery / verification on such points, many random scalars each
	//      (finding 234fc8ec9: Field.Normalize dropped a carry; ECmult left the curve for r = p-n-0x6cf, recid 2)
	{
		nNear := n
		if nNear < 120 {
			nNear = 120
		}
		for j := 0; j < nNear; j++ {
			delta := int64(1 + g.r.Intn(4000))
			x := add(bigP, -delta)
			r := new(big.Int).Sub(x, bigN) // x = r + n, recid bit 1 set
			sg := sigT{r, g.validKey(), 2 + g.r.Intn(2)}
			msg := b32(g.rand256())
			sb := sg.bytes()
			var rec []byte
			var code int
			obs := ""
			if Guard(func() { rec, code = secp.RecoverPublicKey(sb[:64], msg, sg.recid) }) {
				obs = "panic"
			} else if rec != nil {
				obs = fmt.Sprintf("%d %s", code, hx(rec))
			} else {
				obs = fmt.Sprintf("%d nil", code)
			}
			emit("nearp", "recover", []string{hx(msg), hx(sb)}, obs, map[string]interface{}{"kind": "x=p-delta", "delta": delta}, true)
			// the same point as a public key: textbook verification of an arbitrary (r, s) computes u1*G + u2*Q
			pkb := append([]byte{byte(2 + g.r.Intn(2))}, b32(x)...)
			if secp.PubkeyIsValid(pkb) == 1 {
				var xy secp.XY
				if err := xy.ParsePubkey(pkb); err != nil {
					return err
				}
				var sig secp.Signature
				rr, ss, mm0 := g.validKey(), g.validKey(), g.rand256()
				sig.R.Set(rr)
				sig.S.Set(ss)
				var mm secp.Number
				mm.Set(mm0)
				var ok bool
				o2 := "0"
				if Guard(func() { ok = sig.Verify(&xy, &mm) }) {
					o2 = "panic"
				} else if ok {
					o2 = "1"
				}
				emit("nearp", "verify", []string{hx(pkb), hn(mm0), hn(rr), hn(ss)}, o2, map[string]interface{}{"kind": "Q.x=p-delta"}, true)
			}
		}
		// regression corpus: inputs on which the unchanged tree once disagreed with the model
		for _, c := range [][2]string{
			{"db09689a07ca3af27eea908333405aaeeff7dff7e90345803a6fc80acd012e50", // 234fc8ec9 Normalize carry
				"000000000000000000000000000000014551231950b75fc4402da1722fc9b41f34e758cbeab919fa62a77a22e8f516170015541678ea0fc3878b84e44808165e02"},
		} {
			msg, _ := hex.DecodeString(c[0])
			sb, _ := hex.DecodeString(c[1])
			var rec []byte
			var code int
			obs := ""
			if Guard(func() { rec, code = secp.RecoverPublicKey(sb[:64], msg, int(sb[64])) }) {
				obs = "panic"
			} else if rec != nil {
				obs = fmt.Sprintf("%d %s", code, hx(rec))
			} else {
				obs = fmt.Sprintf("%d nil", code)
			}
			emit("regress", "recover", []string{hx(msg), hx(sb)}, obs, map[string]interface{}{"kind": "regression corpus"}, true)
			var rec2 []byte
			if Guard(func() { rec2 = secp256k1.RecoverPubkey(msg, sb) }) {
				emit("regress", "recover", []string{hx(msg), hx(sb)}, "RecoverPubkey:panic", map[string]interface{}{"kind": "regression corpus"}, true)
			}
			_ = rec2
		}
		hist.Add(fmt.Sprintf("near-p=%d", len(caseJSON["nearp"])))
	}

	// ---- deterministic sweep over curve points with a tiny ordinate (|y| < 120): parsing, validity and
	//      multiplication by +-1, +-2 (results are again such points).  The field code holds these
	//      ordinates in non-canonical form at various places (findings fixed in 04aa20fed, 0989034ad).
	for _, xh := range tinyY {
		x, _ := hex.DecodeString(xh)
		for _, pre := range []byte{2, 3} {
			b := append([]byte{pre}, x...)
			var code int
			obs := ""
			if Guard(func() { code = secp.PubkeyIsValid(b) }) {
				obs = "panic"
			} else {
				obs = fmt.Sprint(code)
			}
			emit("tiny", "pkcode", []string{hx(b)}, obs, map[string]interface{}{"kind": "tinyy-sweep"}, true)
			for _, k := range []*big.Int{bi(1), add(bigN, -1), bi(2), add(bigN, -2)} {
				var out []byte
				if Guard(func() { out = secp256k1.ECDH(b, b32(k)) }) {
					obs = "panic"
				} else if out == nil {
					obs = "nil"
				} else {
					obs = hx(out)
				}
				emit("tiny", "ecdh", []string{hx(b), hn(k)}, obs, map[string]interface{}{"kind": "tinyy-sweep"}, true)
			}
			// recovery with r = this abscissa
			sg := sigT{new(big.Int).SetBytes(x), g.validKey(), int(pre - 2)}
			msg := b32(g.rand256())
			sb := sg.bytes()
			var rec []byte
			if Guard(func() { rec, code = secp.RecoverPublicKey(sb[:64], msg, sg.recid) }) {
				obs = "panic"
			} else if rec != nil {
				obs = fmt.Sprintf("%d %s", code, hx(rec))
			} else {
				obs = fmt.Sprintf("%d nil", code)
			}
			emit("tiny", "recover", []string{hx(msg), hx(sb)}, obs, map[string]interface{}{"kind": "tinyy-sweep"}, true)
		}
	}
	hist.Add(fmt.Sprintf("tiny-ordinate-sweep=%d", len(caseJSON["tiny"])))

	if f.Out == "" {
		return fmt.Errorf("-out required")
	}
	w, err := os.Create(f.Out)
	if err != nil {
		return err
	}
	bw := bufio.NewWriter(w)
	for _, l := range lines {
		fmt.Fprintln(bw, l)
	}
	if err := bw.Flush(); err != nil {
		return err
	}
	w.Close()
	// limb-level translation validation of Gen/FieldLimbs.v (fieldlimbs.go); evaluated in Coq by lib/props/c14.py
	nfl := 30
	if f.Tier == "thorough" || f.Tier == "search" {
		nfl = 400
	}
	// own generator for the limb cases: kit.NewRng(seed) and NewRng(seed+1) are the SAME stream shifted by
	// one draw (state = seed*phi + c, +phi per draw), and the rejection sampling above re-aligns them, so g.r
	// is in a seed-independent state here; a scrambled output of the seed gives unrelated streams
	flr := NewRng(NewRng(f.Seed).U64() ^ 0x66696c6462)
	o.Side["fieldlimbs_coq"] = runFieldLimbs(flr, nfl, o, hist, caseJSON)
	o.Side["cases"] = caseJSON
	o.Side["distribution"] = hist.Sorted()
	o.Side["samples"] = samples
	o.Side["rule"] = "a case is one call of an implementation entry point (SeckeyIsValid/NewSecKey, PubKeyFromSecKey, Signature.Sign with injected nonce, Signature.Verify, VerifySignature, RecoverPublicKey/RecoverPubkey, VerifyPubKeySignedHash, PubkeyIsValid, NewPubKey, ECDH, SignHash, GenerateDeterministicKeyPairsSeed) on a generated input; non-trivial = reaches the curve arithmetic or a distinct rejection code; distinct = by hash of the whole case line"
	// the Coq data file is not used by Mode B drivers; write a stub so that tooling expecting it does not fail
	return o.Write(f.Out+".v", f.JSON)
}
