// Command c14: runs the secp256k1 implementation (src/cipher/secp256k1-go,
// src/cipher/crypto.go) on random and edge inputs and writes one case per line
//   <group>:<index> <op> <args...> => <observed tokens>
// The same inputs are evaluated by the extracted Coq model (runner/c14_driver.ml).
package main

import (
	"bufio"
	"encoding/hex"
	"fmt"
	"math/big"
	"os"
	"strings"

	. "verif/harness/kit"

	"github.com/skycoin/skycoin/src/cipher"
	secp256k1 "github.com/skycoin/skycoin/src/cipher/secp256k1-go"
	secp "github.com/skycoin/skycoin/src/cipher/secp256k1-go/secp256k1-go2"
)

var (
	bigN, _    = new(big.Int).SetString("FFFFFFFFFFFFFFFFFFFFFFFFFFFFFFFEBAAEDCE6AF48A03BBFD25E8CD0364141", 16)
	bigP, _    = new(big.Int).SetString("FFFFFFFFFFFFFFFFFFFFFFFFFFFFFFFFFFFFFFFFFFFFFFFFFFFFFFFEFFFFFC2F", 16)
	bigHalf, _ = new(big.Int).SetString("7FFFFFFFFFFFFFFFFFFFFFFFFFFFFFFF5D576E7357A4501DDFE92F46681B20A0", 16)
	big2_256   = new(big.Int).Lsh(big.NewInt(1), 256)
	big2_255   = new(big.Int).Lsh(big.NewInt(1), 255)
)

func bi(x int64) *big.Int             { return big.NewInt(x) }
func add(a *big.Int, d int64) *big.Int { return new(big.Int).Add(a, bi(d)) }

var sentinels = map[error]string{
	cipher.ErrInvalidLengthPubKey:      "ErrInvalidLengthPubKey",
	cipher.ErrInvalidPubKey:            "ErrInvalidPubKey",
	cipher.ErrInvalidSecKey:            "ErrInvalidSecKey",
	cipher.ErrInvalidLengthSecKey:      "ErrInvalidLengthSecKey",
	cipher.ErrInvalidSigPubKeyRecovery: "ErrInvalidSigPubKeyRecovery",
	cipher.ErrPubKeyRecoverMismatch:    "ErrPubKeyRecoverMismatch",
	cipher.ErrInvalidSigInvalidPubKey:  "ErrInvalidSigInvalidPubKey",
	cipher.ErrInvalidSigValidity:       "ErrInvalidSigValidity",
	cipher.ErrInvalidSigForMessage:     "ErrInvalidSigForMessage",
	cipher.ErrInvalidAddressForSig:     "ErrInvalidAddressForSig",
	cipher.ErrInvalidHashForSig:        "ErrInvalidHashForSig",
	cipher.ErrECHDInvalidPubKey:        "ErrECHDInvalidPubKey",
	cipher.ErrECHDInvalidSecKey:        "ErrECHDInvalidSecKey",
	cipher.ErrNullSignHash:             "ErrNullSignHash",
	cipher.ErrEmptySeed:                "ErrEmptySeed",
}

func errName(err error) string {
	if err == nil {
		return "ok"
	}
	if s, ok := sentinels[err]; ok {
		return s
	}
	return "Err:" + strings.ReplaceAll(err.Error(), " ", "_")
}

func hx(b []byte) string {
	if len(b) == 0 {
		return "-"
	}
	return hex.EncodeToString(b)
}
func hn(z *big.Int) string { return z.Text(16) }
func b32(z *big.Int) []byte {
	out := make([]byte, 32)
	z.FillBytes(out)
	return out
}

type gen struct {
	r *Rng
}

// a 256-bit number biased to the boundaries of the scalar / field ranges
func (g *gen) edge() *big.Int {
	edges := []*big.Int{
		bi(0), bi(1), bi(2), bi(3), add(bigN, -2), add(bigN, -1), bigN, add(bigN, 1), add(bigN, 2),
		add(big2_256, -1), add(big2_256, -2), bigHalf, add(bigHalf, 1), add(bigHalf, -1), add(bigHalf, 2),
		add(bigP, -1), bigP, add(bigP, 1), add(bigP, 2), big2_255, add(big2_255, -1), add(big2_255, 1),
		new(big.Int).Sub(bigP, bigN), add(new(big.Int).Sub(bigP, bigN), -1), add(new(big.Int).Sub(bigP, bigN), 1),
		new(big.Int).Sub(bigN, big2_255), add(new(big.Int).Sub(bigN, big2_255), 1), add(new(big.Int).Sub(bigN, big2_255), -1),
	}
	switch g.r.Intn(10) {
	case 0, 1, 2:
		return new(big.Int).Set(edges[g.r.Intn(len(edges))])
	case 3:
		return bi(int64(g.r.Intn(1 << 16)))
	case 4:
		// random width
		z := new(big.Int).SetBytes(g.r.Bytes(32))
		return z.Rsh(z, uint(g.r.Intn(256)))
	default:
		return new(big.Int).SetBytes(g.r.Bytes(32))
	}
}

func (g *gen) rand256() *big.Int { return new(big.Int).SetBytes(g.r.Bytes(32)) }

// a valid secret key: mostly random, sometimes a boundary value
func (g *gen) validKey() *big.Int {
	for {
		var k *big.Int
		if g.r.Chance(25) {
			k = g.edge()
		} else {
			k = g.rand256()
		}
		if k.Sign() > 0 && k.Cmp(bigN) < 0 {
			return k
		}
	}
}

func pubOf(k *big.Int) []byte { return secp.GeneratePublicKey(b32(k)) }

// a 33-byte public key encoding: valid, or broken in one of several ways
func (g *gen) pubBytes() ([]byte, string) {
	pk := pubOf(g.validKey())
	switch g.r.Intn(12) {
	case 0: // x not on the curve (about half of the random x)
		b := append([]byte{byte(2 + g.r.Intn(2))}, g.r.Bytes(32)...)
		return b, "randx"
	case 1: // bad prefix
		b := append([]byte{}, pk...)
		b[0] = []byte{0, 1, 4, 5, 6, 7, 0x82, 0xff}[g.r.Intn(8)]
		return b, "prefix"
	case 2: // x >= p
		x := new(big.Int).Add(bigP, bi(int64(g.r.Intn(40))))
		if g.r.Bool() {
			x = add(big2_256, -1-int64(g.r.Intn(5)))
		}
		return append([]byte{byte(2 + g.r.Intn(2))}, b32(x)...), "xgep"
	case 3: // small x
		return append([]byte{byte(2 + g.r.Intn(2))}, b32(bi(int64(g.r.Intn(30))))...), "smallx"
	case 4: // parity flipped: the other valid point
		b := append([]byte{}, pk...)
		b[0] ^= 1
		return b, "negated"
	case 5: // one byte changed
		b := append([]byte{}, pk...)
		b[1+g.r.Intn(32)] ^= byte(1 << uint(g.r.Intn(8)))
		return b, "flip"
	case 6: // x just below p
		return append([]byte{byte(2 + g.r.Intn(2))}, b32(add(bigP, -1-int64(g.r.Intn(40))))...), "xnearp"
	default:
		return pk, "valid"
	}
}

type sigT struct {
	r, s  *big.Int
	recid int
}

func (s sigT) bytes() []byte {
	out := append(b32(s.r), b32(s.s)...)
	return append(out, byte(s.recid))
}

// low-level signature with an explicit nonce
func lowSign(k, m, nonce *big.Int) (ret int, sg sigT, panicked bool) {
	var sig secp.Signature
	var kk, mm, nn secp.Number
	kk.Set(k)
	mm.Set(m)
	nn.Set(nonce)
	var recid int
	panicked = Guard(func() { ret = sig.Sign(&kk, &mm, &nn, &recid) })
	if panicked || ret != 1 {
		return ret, sigT{}, panicked
	}
	return 1, sigT{new(big.Int).Set(&sig.R.Int), new(big.Int).Set(&sig.S.Int), recid}, false
}

func (g *gen) nonce() *big.Int {
	switch g.r.Intn(12) {
	case 0:
		return bi(int64(1 + g.r.Intn(20)))
	case 1:
		return add(bigN, -1-int64(g.r.Intn(20)))
	case 2: // not reduced: the scalar multiplication must treat it as nonce mod n
		z := new(big.Int).Add(bigN, bi(int64(1+g.r.Intn(1000))))
		if g.r.Bool() {
			z = add(big2_256, -1-int64(g.r.Intn(1000)))
		}
		return z
	default:
		return g.validKey()
	}
}

// a signature (valid for key k and message m) and a catalogue of mutations
func (g *gen) mutatedSig(k, m *big.Int) (sigT, string) {
	_, sg, _ := lowSign(k, m, g.validKey())
	if sg.r == nil {
		sg = sigT{g.rand256(), g.rand256(), g.r.Intn(4)}
	}
	kind := "valid"
	switch g.r.Intn(16) {
	case 0:
		sg.s = new(big.Int).Sub(bigN, sg.s)
		kind = "neg-s"
	case 1:
		sg.s = new(big.Int).Sub(bigN, sg.s)
		sg.recid ^= 1
		kind = "neg-s+recid^1"
	case 2:
		sg.recid ^= 1
		kind = "recid^1"
	case 3:
		sg.recid |= 2
		kind = "recid|2"
	case 4:
		sg.recid = g.r.Intn(256)
		kind = "recid-any"
	case 5:
		sg.recid += 4 * (1 + g.r.Intn(63))
		kind = "recid+4k"
	case 6:
		sg.r = g.edge()
		kind = "r-edge"
	case 7:
		sg.s = g.edge()
		kind = "s-edge"
	case 8:
		sg.r = g.rand256()
		kind = "r-rand"
	case 9:
		sg.s = new(big.Int).Xor(sg.s, new(big.Int).Lsh(bi(1), uint(g.r.Intn(256))))
		kind = "s-flip"
	case 10: // r + n (needs r < p - n, so r must be tiny: the signature is not valid, but exercises the branch)
		sg.r = new(big.Int).Rsh(g.rand256(), uint(127+g.r.Intn(10)))
		sg.recid |= 2
		kind = "r-small+recid|2"
	case 11:
		sg.r = new(big.Int).Xor(sg.r, new(big.Int).Lsh(bi(1), uint(g.r.Intn(256))))
		kind = "r-flip"
	}
	return sg, kind
}

func main() { Main(run) }

func run(args []string) error {
	f := ParseFlags("c14", args)
	g := &gen{NewRng(f.Seed)}
	n := f.Budget(150, 5000)
	o := NewOut()
	hist := Hist{}
	caseJSON := map[string][]map[string]interface{}{}
	var lines []string
	var samples []map[string]interface{}

	emit := func(group, op string, in []string, observed string, fields map[string]interface{}, nontrivial bool) {
		idx := len(caseJSON[group])
		line := fmt.Sprintf("%s:%d %s %s => %s", group, idx, op, strings.Join(in, " "), observed)
		lines = append(lines, line)
		m := map[string]interface{}{"op": op, "args": strings.Join(in, " "), "observed": observed}
		for k, v := range fields {
			m[k] = v
		}
		caseJSON[group] = append(caseJSON[group], m)
		o.Count(line, nontrivial)
		if len(samples) < 12 && g.r.Intn(n/2+1) == 0 {
			samples = append(samples, map[string]interface{}{"group": group, "op": op, "args": strings.Join(in, " "), "observed": observed})
		}
	}

	for i := 0; i < n; i++ {
		// ---- secret key validity
		{
			k := g.edge()
			code := secp.SeckeyIsValid(b32(k))
			_, err := cipher.NewSecKey(b32(k))
			emit("seckey", "seckey", []string{hn(k)}, fmt.Sprintf("%d %s", code, errName(err)), nil, true)
			hist.Add(fmt.Sprintf("seckey:%d", code))
		}
		// ---- public key from secret key
		{
			k := g.edge()
			if g.r.Chance(60) {
				k = g.validKey()
			}
			obs := "rej"
			sk, err := cipher.NewSecKey(b32(k))
			if err == nil {
				var pk cipher.PubKey
				var perr error
				if Guard(func() { pk, perr = cipher.PubKeyFromSecKey(sk) }) {
					obs = "panic"
				} else if perr != nil {
					obs = "rej"
				} else {
					obs = hx(pk[:])
					low := secp.GeneratePublicKey(b32(k))
					if hx(low) != obs {
						obs = "LOWLEVEL-DIFF:" + obs + ":" + hx(low)
					}
				}
			}
			emit("pubkey", "pubkey", []string{hn(k)}, obs, nil, err == nil)
			hist.Add("pubkey:" + map[bool]string{true: "valid", false: "rejected"}[err == nil])
		}
		// ---- signing with an injected nonce
		{
			k := g.validKey()
			if g.r.Chance(15) {
				k = g.edge()
			}
			m := g.rand256()
			if g.r.Chance(25) {
				m = g.edge()
			}
			nonce := g.nonce()
			ret, sg, pan := lowSign(k, m, nonce)
			obs := "0"
			if pan {
				obs = "panic"
			} else if ret == 1 {
				obs = fmt.Sprintf("1 %s %s %x", hn(sg.r), hn(sg.s), sg.recid)
				hist.Add(fmt.Sprintf("sign:recid%d", sg.recid))
			} else {
				hist.Add("sign:fail")
			}
			emit("sign", "sign", []string{hn(k), hn(m), hn(nonce)}, obs, nil, ret == 1)
		}
		// ---- textbook verification (Signature.Verify)
		{
			k := g.validKey()
			m := g.rand256()
			if g.r.Chance(20) {
				m = g.edge()
			}
			sg, kind := g.mutatedSig(k, m)
			pk := pubOf(k)
			if g.r.Chance(10) {
				pk = pubOf(g.validKey())
				kind += "+otherkey"
			}
			m2 := m
			if g.r.Chance(10) {
				m2 = g.rand256()
				kind += "+othermsg"
			}
			var xy secp.XY
			if err := xy.ParsePubkey(pk); err != nil {
				return fmt.Errorf("ParsePubkey of a generated key failed: %v", err)
			}
			var sig secp.Signature
			sig.R.Set(sg.r)
			sig.S.Set(sg.s)
			var mm secp.Number
			mm.Set(m2)
			var ok bool
			obs := ""
			if Guard(func() { ok = sig.Verify(&xy, &mm) }) {
				obs = "panic"
			} else if ok {
				obs = "1"
			} else {
				obs = "0"
			}
			emit("verify", "verify", []string{hx(pk), hn(m2), hn(sg.r), hn(sg.s)}, obs, map[string]interface{}{"kind": kind}, true)
			hist.Add("verify:" + kind + "=" + obs)
		}
		// ---- secp256k1.VerifySignature / RecoverPubkey / cipher.VerifyPubKeySignedHash on 65-byte signatures
		{
			k := g.validKey()
			m := g.rand256()
			if g.r.Chance(10) {
				m = g.edge()
			}
			sg, kind := g.mutatedSig(k, m)
			pk := pubOf(k)
			msg := b32(m)
			sb := sg.bytes()
			// VerifySignature
			var v int
			obs := ""
			if Guard(func() { v = secp256k1.VerifySignature(msg, sb, pk) }) {
				obs = "panic"
			} else {
				obs = fmt.Sprint(v)
			}
			emit("vsig", "vsig", []string{hx(msg), hx(sb), hx(pk)}, obs, map[string]interface{}{"kind": kind}, true)
			hist.Add("vsig:" + kind + "=" + obs)
			// RecoverPublicKey (code) + RecoverPubkey (bytes)
			var rec []byte
			var code int
			if Guard(func() { rec, code = secp.RecoverPublicKey(sb[:64], msg, sg.recid) }) {
				obs = "panic"
			} else {
				var rec2 []byte
				p2 := Guard(func() { rec2 = secp256k1.RecoverPubkey(msg, sb) })
				r1, r2 := "nil", "nil"
				if rec != nil {
					r1 = hx(rec)
				}
				if rec2 != nil {
					r2 = hx(rec2)
				}
				if p2 || r1 != r2 {
					obs = fmt.Sprintf("WRAPPER-DIFF:%d:%s:%s:%v", code, r1, r2, p2)
				} else {
					obs = fmt.Sprintf("%d %s", code, r1)
				}
			}
			emit("recover", "recover", []string{hx(msg), hx(sb)}, obs, map[string]interface{}{"kind": kind}, true)
			hist.Add(fmt.Sprintf("recover:%s=%d", kind, code))
			// VerifyPubKeySignedHash
			var cpk cipher.PubKey
			copy(cpk[:], pk)
			var csig cipher.Sig
			copy(csig[:], sb)
			var h cipher.SHA256
			copy(h[:], msg)
			var err error
			if Guard(func() { err = cipher.VerifyPubKeySignedHash(cpk, csig, h) }) {
				obs = "panic"
			} else {
				obs = errName(err)
			}
			emit("vpsh", "vpsh", []string{hx(pk), hx(sb), hx(msg)}, obs, map[string]interface{}{"kind": kind}, true)
			hist.Add("vpsh:" + obs)
		}
		// ---- recovery from arbitrary (r, s, recid): about half of the random r are abscissae of curve points
		{
			sg := sigT{g.rand256(), g.rand256(), g.r.Intn(256)}
			kind := "random"
			if g.r.Chance(30) {
				sg.r = g.edge()
				kind = "r-edge"
			}
			if g.r.Chance(30) {
				sg.s = g.edge()
				kind += "+s-edge"
			}
			if g.r.Chance(15) {
				sg.r = new(big.Int).Rsh(g.rand256(), uint(127+g.r.Intn(4)))
				sg.recid |= 2
				kind = "r<p-n,recid|2"
			}
			m := g.rand256()
			if g.r.Chance(15) {
				m = g.edge()
			}
			msg := b32(m)
			sb := sg.bytes()
			var rec []byte
			var code int
			obs := ""
			if Guard(func() { rec, code = secp.RecoverPublicKey(sb[:64], msg, sg.recid) }) {
				obs = "panic"
			} else if rec != nil {
				obs = fmt.Sprintf("%d %s", code, hx(rec))
			} else {
				obs = fmt.Sprintf("%d nil", code)
			}
			emit("recover", "recover", []string{hx(msg), hx(sb)}, obs, map[string]interface{}{"kind": kind}, true)
			hist.Add(fmt.Sprintf("recover:%s=%d", kind, code))
		}
		// ---- public key parsing / validity
		{
			b, kind := g.pubBytes()
			var code int
			obs := ""
			if Guard(func() { code = secp.PubkeyIsValid(b) }) {
				obs = "panic"
			} else {
				obs = fmt.Sprint(code)
			}
			emit("pkcode", "pkcode", []string{hx(b)}, obs, map[string]interface{}{"kind": kind}, true)
			hist.Add("pkcode:" + kind + "=" + obs)
			// cipher.NewPubKey also on other lengths
			b2 := b
			if g.r.Chance(20) {
				switch g.r.Intn(4) {
				case 0:
					b2 = b[:g.r.Intn(33)]
				case 1:
					b2 = append(append([]byte{}, b...), g.r.Bytes(1+g.r.Intn(33))...)
				case 2:
					b2 = nil
				case 3:
					b2 = b[1:]
				}
				kind += "+len"
			}
			var err error
			if Guard(func() { _, err = cipher.NewPubKey(b2) }) {
				obs = "panic"
			} else {
				obs = errName(err)
			}
			emit("newpk", "newpk", []string{hx(b2)}, obs, map[string]interface{}{"kind": kind}, true)
			hist.Add("newpk:" + obs)
		}
		// ---- ECDH
		{
			b, kind := g.pubBytes()
			k := g.validKey()
			if g.r.Chance(25) {
				k = g.edge()
				kind += "+k-edge"
			}
			var out []byte
			obs := ""
			if Guard(func() { out = secp256k1.ECDH(b, b32(k)) }) {
				obs = "panic"
			} else if out == nil {
				obs = "nil"
			} else {
				obs = hx(out)
			}
			emit("ecdh", "ecdh", []string{hx(b), hn(k)}, obs, map[string]interface{}{"kind": kind}, out != nil)
			hist.Add("ecdh:" + kind + "=" + map[bool]string{true: "key", false: "nil"}[out != nil])
		}
		// ---- cipher.SignHash (random nonce drawn by the implementation): the produced
		//      signature must be accepted by the model for the signer's key
		if i%3 == 0 {
			k := g.validKey()
			var h cipher.SHA256
			copy(h[:], g.r.Bytes(32))
			sk, err := cipher.NewSecKey(b32(k))
			if err != nil {
				return fmt.Errorf("NewSecKey of a valid key failed: %v", err)
			}
			var sig cipher.Sig
			obs := "1"
			if Guard(func() { sig, err = cipher.SignHash(h, sk) }) || err != nil {
				obs = "signhash-failed"
			}
			pk := pubOf(k)
			emit("signhash", "vsig", []string{hx(h[:]), hx(sig[:]), hx(pk)}, obs, nil, true)
			hist.Add("signhash:" + obs)
		}
		// ---- deterministic key sequences
		if i%5 == 0 {
			seed := g.r.Bytes(1 + g.r.Intn(64))
			cnt := 1 + g.r.Intn(3)
			var newSeed []byte
			var keys []cipher.SecKey
			var err error
			obs := ""
			if Guard(func() { newSeed, keys, err = cipher.GenerateDeterministicKeyPairsSeed(seed, cnt) }) {
				obs = "panic"
			} else if err != nil {
				obs = errName(err)
			} else {
				toks := []string{hx(newSeed)}
				for _, sk := range keys {
					pk := cipher.MustPubKeyFromSecKey(sk)
					toks = append(toks, hx(pk[:]), hx(sk[:]))
				}
				obs = strings.Join(toks, " ")
				// the single-key entry point must give the first key
				p1, s1, e1 := cipher.GenerateDeterministicKeyPair(seed)
				if e1 != nil || hx(s1[:]) != toks[2] || hx(p1[:]) != toks[1] {
					obs = "SINGLE-DIFF " + obs
				}
			}
			emit("detkeys", "detkeys", []string{hx(seed), fmt.Sprintf("%x", cnt)}, obs, nil, true)
			hist.Add(fmt.Sprintf("detkeys:n=%d", cnt))
		}
		// ---- model self-consistency: affine double-and-add = Jacobian execution (no implementation involved)
		if i%10 == 0 {
			k := g.edge()
			pk := pubOf(g.validKey())
			emit("affine", "affine", []string{hn(k), hx(pk)}, "1", nil, true)
			hist.Add("affine")
		}
	}

	if f.Out == "" {
		return fmt.Errorf("-out required")
	}
	w, err := os.Create(f.Out)
	if err != nil {
		return err
	}
	bw := bufio.NewWriter(w)
	for _, l := range lines {
		fmt.Fprintln(bw, l)
	}
	if err := bw.Flush(); err != nil {
		return err
	}
	w.Close()
	o.Side["cases"] = caseJSON
	o.Side["distribution"] = hist.Sorted()
	o.Side["samples"] = samples
	o.Side["rule"] = "a case is one call of an implementation entry point (SeckeyIsValid/NewSecKey, PubKeyFromSecKey, Signature.Sign with injected nonce, Signature.Verify, VerifySignature, RecoverPublicKey/RecoverPubkey, VerifyPubKeySignedHash, PubkeyIsValid, NewPubKey, ECDH, SignHash, GenerateDeterministicKeyPairsSeed) on a generated input; non-trivial = reaches the curve arithmetic or a distinct rejection code; distinct = by hash of the whole case line"
	// the Coq data file is not used by Mode B drivers; write a stub so that tooling expecting it does not fail
	return o.Write(f.Out+".v", f.JSON)
}
