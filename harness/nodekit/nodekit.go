// Package nodekit: real skycoin nodes (visor.Visor on bolt files) and a small
// deterministic wallet simulator, shared by the C05 and C06 harness commands.
// Everything random derives from the kit.Rng; signatures use nonces derived
// from (key, message, counter) so that transaction hashes are replayable.
package nodekit

import (
	"crypto/sha256"
	"encoding/binary"
	"errors"
	"fmt"
	"math/big"
	"os"
	"path/filepath"
	"time"

	"github.com/boltdb/bolt"

	"github.com/skycoin/skycoin/src/cipher"
	secp "github.com/skycoin/skycoin/src/cipher/secp256k1-go/secp256k1-go2"
	"github.com/skycoin/skycoin/src/coin"
	"github.com/skycoin/skycoin/src/params"
	"github.com/skycoin/skycoin/src/transaction"
	"github.com/skycoin/skycoin/src/util/fee"
	"github.com/skycoin/skycoin/src/util/logging"
	"github.com/skycoin/skycoin/src/visor"
	"github.com/skycoin/skycoin/src/visor/dbutil"

	"verif/harness/kit"
)

const (
	GenesisTime   = uint64(1426562704)
	GenesisVolume = uint64(1000000000000000000) // 1e18 droplets; genesis hours = the same number
	NKeys         = 6
	LockedKey     = 5 // wallet key whose address is a locked distribution address
)

// World is the deterministic environment of one chain.
type World struct {
	R       *kit.Rng
	Pub     cipher.PubKey
	Sec     cipher.SecKey
	Keys    []cipher.SecKey
	Addrs   []cipher.Address
	KeyOf   map[cipher.Address]cipher.SecKey
	Dist    params.Distribution
	Ux      map[cipher.SHA256]coin.UxOut // every output ever created on the chain (spent or not)
	UxID    map[cipher.SHA256]int        // small integer id per output hash (harness id table)
	nonce   uint64
	tmpRoot string
}

func NewWorld(r *kit.Rng, tag string) (*World, error) {
	logging.Disable()
	w := &World{R: r, KeyOf: map[cipher.Address]cipher.SecKey{}, Ux: map[cipher.SHA256]coin.UxOut{}, UxID: map[cipher.SHA256]int{}}
	seed := r.Bytes(32)
	w.Pub, w.Sec = cipher.MustGenerateDeterministicKeyPair(append([]byte("publisher"), seed...))
	w.Keys = cipher.MustGenerateDeterministicKeyPairs(append([]byte("wallet"), seed...), NKeys)
	for _, k := range w.Keys {
		a := cipher.MustAddressFromSecKey(k)
		w.Addrs = append(w.Addrs, a)
		w.KeyOf[a] = k
	}
	// distribution: 4 addresses, the first two unlocked; the last locked one is wallet key LockedKey
	extra := cipher.MustGenerateDeterministicKeyPairs(append([]byte("dist"), seed...), 3)
	var das []string
	for _, k := range extra {
		das = append(das, cipher.MustAddressFromSecKey(k).String())
	}
	das = append(das, w.Addrs[LockedKey].String())
	w.Dist = params.Distribution{
		MaxCoinSupply:        100000000,
		InitialUnlockedCount: 2,
		UnlockAddressRate:    1,
		UnlockTimeInterval:   31536000,
		Addresses:            das,
	}
	if err := w.Dist.Validate(); err != nil {
		return nil, err
	}
	d, err := os.MkdirTemp("", "verif_"+tag+"_")
	if err != nil {
		return nil, err
	}
	w.tmpRoot = d
	return w, nil
}

func (w *World) Cleanup() {
	if w.tmpRoot != "" {
		os.RemoveAll(w.tmpRoot)
	}
}

// ID returns the small integer the Coq side uses for an output hash.
func (w *World) ID(h cipher.SHA256) int {
	if id, ok := w.UxID[h]; ok {
		return id
	}
	id := len(w.UxID) + 1
	w.UxID[h] = id
	return id
}

// Node is one real node: a visor on its own bolt file.
type Node struct {
	V    *visor.Visor
	DB   *dbutil.DB
	path string
}

// NewNode opens a node. The publisher signs the genesis block itself; a
// follower is given the publisher's genesis signature.
func (w *World) NewNode(name string, publisher bool, genesisSig cipher.Sig) (*Node, error) {
	path := filepath.Join(w.tmpRoot, name+".db")
	bdb, err := bolt.Open(path, 0600, &bolt.Options{Timeout: 2 * time.Second})
	if err != nil {
		return nil, err
	}
	bdb.NoSync = true // temp files; durability is not the subject here
	db := dbutil.WrapDB(bdb)
	cfg := visor.NewConfig()
	cfg.IsBlockPublisher = publisher
	cfg.Arbitrating = publisher // as src/skycoin/skycoin.go: vc.Arbitrating = RunBlockPublisher
	cfg.BlockchainPubkey = w.Pub
	if publisher {
		cfg.BlockchainSeckey = w.Sec
	}
	cfg.GenesisAddress = w.Addrs[0]
	cfg.GenesisCoinVolume = GenesisVolume
	cfg.GenesisTimestamp = GenesisTime
	cfg.GenesisSignature = genesisSig
	cfg.Distribution = w.Dist
	v, err := visor.New(cfg, db, nil)
	if err != nil {
		bdb.Close()
		return nil, err
	}
	if err := v.Init(); err != nil {
		bdb.Close()
		return nil, err
	}
	return &Node{V: v, DB: db, path: path}, nil
}

func (n *Node) Close() {
	if n != nil && n.DB != nil {
		n.DB.Close()
	}
}

// GenesisSig returns the signature the publisher put on the genesis block and
// records the genesis output in the world's table.
func (w *World) GenesisSig(pub *Node) (cipher.Sig, error) {
	b, err := pub.V.GetSignedBlockBySeq(0)
	if err != nil {
		return cipher.Sig{}, err
	}
	if b == nil {
		return cipher.Sig{}, errors.New("no genesis block")
	}
	w.RecordBlock(*b)
	return b.Sig, nil
}

// RecordBlock adds the outputs a block creates to the table of all outputs.
func (w *World) RecordBlock(b coin.SignedBlock) {
	for _, t := range b.Body.Transactions {
		for _, ux := range coin.CreateUnspents(b.Head, t) {
			w.Ux[ux.Hash()] = ux
			w.ID(ux.Hash())
		}
	}
}

// ---- deterministic signing

func (w *World) detSign(h cipher.SHA256, sec cipher.SecKey) cipher.Sig {
	var sk, msg secp.Number
	sk.SetBytes(sec[:])
	msg.SetBytes(h[:])
	for {
		w.nonce++
		var ctr [8]byte
		binary.BigEndian.PutUint64(ctr[:], w.nonce)
		d := sha256.Sum256(append(append(append([]byte{}, sec[:]...), h[:]...), ctr[:]...))
		var nonce secp.Number
		nonce.SetBytes(d[:])
		if nonce.Sign() == 0 || nonce.Cmp(&secp.TheCurve.Order.Int) >= 0 {
			continue
		}
		var sig secp.Signature
		var recid int
		if sig.Sign(&sk, &msg, &nonce, &recid) != 1 {
			continue
		}
		var out cipher.Sig
		copy(out[:64], sig.Bytes())
		out[64] = byte(recid)
		return out
	}
}

// TxOpts are the semantic mutations the generators apply to a transaction.
type TxOpts struct {
	WrongKey   bool // sign input 0 with a key that does not own it
	NoSigs     bool // leave the signature array empty
	BadInner   bool // corrupt the inner hash after signing
	DupInput   bool // list input 0 twice
	NullSig    bool // leave signature 0 null
	BadLength  bool // header length field off by one
}

// BuildTxn builds and signs a transaction spending ins (which must be in the
// world's table unless an option says otherwise) into outs.
func (w *World) BuildTxn(ins []cipher.SHA256, outs []coin.TransactionOutput, o TxOpts) coin.Transaction {
	var t coin.Transaction
	in := append([]cipher.SHA256{}, ins...)
	if o.DupInput && len(in) > 0 {
		in = append(in, in[0])
	}
	t.In = in
	t.Out = append([]coin.TransactionOutput{}, outs...)
	t.InnerHash = t.HashInner()
	if !o.NoSigs {
		t.Sigs = make([]cipher.Sig, len(t.In))
		for i, h := range t.In {
			if o.NullSig && i == 0 {
				continue
			}
			var key cipher.SecKey
			if ux, ok := w.Ux[h]; ok {
				key = w.KeyOf[ux.Body.Address]
			}
			if (key == cipher.SecKey{}) || (o.WrongKey && i == 0) {
				key = w.Keys[(w.R.Intn(NKeys-1)+1+w.keyIndex(key))%NKeys]
			}
			t.Sigs[i] = w.detSign(cipher.AddSHA256(t.InnerHash, h), key)
		}
	}
	if err := t.UpdateHeader(); err != nil {
		panic(err)
	}
	if o.BadInner {
		t.InnerHash[3] ^= 0x40
	}
	if o.BadLength {
		t.Length++
	}
	return t
}

func (w *World) keyIndex(k cipher.SecKey) int {
	for i, x := range w.Keys {
		if x == k {
			return i
		}
	}
	return 0
}

// ---- independent verdicts (computed by the harness with the transaction
// package directly, not through the visor/blockchain methods under test)

type Verdict struct {
	InputsUnspent bool   // every input is in the node's unspent set now
	Hard          bool   // VerifySingleTxnHardConstraints (signed) with the inputs' outputs
	Soft          bool   // VerifySingleTxnSoftConstraints under the given parameters
	Block         bool   // VerifyBlockTxnConstraints
	FeeOK         bool   // fee.TransactionFee computed without error
	Fee           uint64 //
	Size          uint32
	HardErr       string
	SoftErr       string
}

// Verify computes the verdicts of txn at node n's current head. When
// fromTable is true the inputs are looked up in the table of all outputs ever
// created (so Hard/Soft say "well-formed apart from being unspent") and
// InputsUnspent reports separately whether they are all unspent.
func (w *World) Verify(n *Node, t coin.Transaction, vp params.VerifyTxn, fromTable bool) (Verdict, error) {
	var v Verdict
	head, err := n.V.GetHeadBlock()
	if err != nil {
		return v, err
	}
	sz, err := t.Size()
	if err != nil {
		return v, err
	}
	v.Size = sz
	uxNode, err := n.V.GetUnspentOutputs(t.In)
	v.InputsUnspent = err == nil
	var uxIn coin.UxArray
	have := true
	if fromTable {
		for _, h := range t.In {
			ux, ok := w.Ux[h]
			if !ok {
				have = false
				break
			}
			uxIn = append(uxIn, ux)
		}
	} else {
		uxIn = uxNode
		have = v.InputsUnspent
	}
	if !have {
		v.HardErr = "input unknown"
		return v, nil
	}
	if e := transaction.VerifySingleTxnHardConstraints(t, head.Head, uxIn, transaction.TxnSigned); e != nil {
		v.HardErr = e.Error()
	} else {
		v.Hard = true
	}
	v.Block = transaction.VerifyBlockTxnConstraints(t, head.Head, uxIn) == nil
	if f, e := fee.TransactionFee(&t, head.Time(), uxIn); e == nil {
		v.FeeOK, v.Fee = true, f
	}
	if e := transaction.VerifySingleTxnSoftConstraints(t, head.Time(), uxIn, w.Dist, vp); e != nil {
		v.SoftErr = e.Error()
	} else {
		v.Soft = true
	}
	return v, nil
}

// ErrKind maps an error of the inject / create paths to the model's enum.
func ErrKind(err error) string {
	if err == nil {
		return ""
	}
	switch err.(type) {
	case transaction.ErrTxnViolatesHardConstraint:
		return "hard"
	case transaction.ErrTxnViolatesSoftConstraint:
		return "soft"
	case transaction.ErrTxnViolatesUserConstraint:
		return "user"
	}
	return "other:" + err.Error()
}

// HashZ prints a SHA256 as the big-endian integer (bytes.Compare order = integer order).
func HashZ(h cipher.SHA256) string {
	return new(big.Int).SetBytes(h[:]).String()
}

// Hours of an output at the node's head time.
func HoursAt(ux coin.UxOut, t uint64) uint64 {
	h, err := ux.CoinHours(t)
	if err != nil {
		return 0
	}
	return h
}

func Fmt(format string, a ...interface{}) string { return fmt.Sprintf(format, a...) }

// Uniq makes the outputs pairwise distinct (a transaction with two identical
// outputs is malformed) by moving an output to another wallet address.
func (w *World) Uniq(outs []coin.TransactionOutput) []coin.TransactionOutput {
	seen := map[coin.TransactionOutput]bool{}
	for i := range outs {
		for k := 0; seen[outs[i]] && k < NKeys; k++ {
			outs[i].Address = w.Addrs[(w.keyIndexAddr(outs[i].Address)+1)%(NKeys-1)]
		}
		for seen[outs[i]] && outs[i].Hours > 0 {
			outs[i].Hours--
		}
		seen[outs[i]] = true
	}
	return outs
}

func (w *World) keyIndexAddr(a cipher.Address) int {
	for i, x := range w.Addrs {
		if x == a {
			return i
		}
	}
	return 0
}
