// Package nodekit: real skycoin nodes (visor.Visor on bolt files) and a small
// deterministic wallet simulator, shared by the C05 and C06 harness commands.
// Everything random derives from the kit.Rng; signatures use nonces derived
// from (key, message, counter) so that transaction hashes are replayable.
package nodekit

import (
	"crypto/sha256"
	"encoding/binary"
	"errors"
	"fmt"
	"math/big"
	"os"
	"path/filepath"
	"time"

	"github.com/boltdb/bolt"

	"github.com/skycoin/skycoin/src/cipher"
	secp "github.com/skycoin/skycoin/src/cipher/secp256k1-go/secp256k1-go2"
	"github.com/skycoin/skycoin/src/coin"
	"github.com/skycoin/skycoin/src/params"
	"github.com/skycoin/skycoin/src/transaction"
	"github.com/skycoin/skycoin/src/util/fee"
	"github.com/skycoin/skycoin/src/util/logging"
	"github.com/skycoin/skycoin/src/visor"
	"github.com/skycoin/skycoin/src/visor/dbutil"

	"verif/harness/kit"
)

const (
	GenesisTime   = uint64(1426562704)
	GenesisVolume = uint64(1000000000000000000) // 1e18 droplets; genesis hours = the same number
	NKeys         = 6
	LockedKey     = 5 // wallet key whose address is a locked distribution address
)

// World is the deterministic environment of one chain.
type World struct {
	R       *kit.Rng
	Pub     cipher.PubKey
	Sec     cipher.SecKey
	Keys    []cipher.SecKey
	Addrs   []cipher.Address
	KeyOf   map[cipher.Address]cipher.SecKey
	Dist    params.Distribution
	Ux      map[cipher.SHA256]coin.UxOut // every output ever created on the chain (spent or not)
	UxID    map[cipher.SHA256]int        // small integer id per output hash (harness id table)
	Volume  uint64                       // genesis coin volume = genesis output hours (default GenesisVolume)
	nonce   uint64
	tmpRoot string
}

func NewWorld(r *kit.Rng, tag string) (*World, error) {
	logging.Disable()
	w := &World{R: r, Volume: GenesisVolume, KeyOf: map[cipher.Address]cipher.SecKey{}, Ux: map[cipher.SHA256]coin.UxOut{}, UxID: map[cipher.SHA256]int{}}
	seed := r.Bytes(32)
	w.Pub, w.Sec = cipher.MustGenerateDeterministicKeyPair(append([]byte("publisher"), seed...))
	w.Keys = cipher.MustGenerateDeterministicKeyPairs(append([]byte("wallet"), seed...), NKeys)
	for _, k := range w.Keys {
		a := cipher.MustAddressFromSecKey(k)
		w.Addrs = append(w.Addrs, a)
		w.KeyOf[a] = k
	}
	// distribution: 4 addresses, the first two unlocked; the last locked one is wallet key LockedKey
	extra := cipher.MustGenerateDeterministicKeyPairs(append([]byte("dist"), seed...), 3)
	var das []string
	for _, k := range extra {
		das = append(das, cipher.MustAddressFromSecKey(k).String())
	}
	das = append(das, w.Addrs[LockedKey].String())
	w.Dist = params.Distribution{
		MaxCoinSupply:        100000000,
		InitialUnlockedCount: 2,
		UnlockAddressRate:    1,
		UnlockTimeInterval:   31536000,
		Addresses:            das,
	}
	if err := w.Dist.Validate(); err != nil {
		return nil, err
	}
	d, err := os.MkdirTemp("", "verif_"+tag+"_")
	if err != nil {
		return nil, err
	}
	w.tmpRoot = d
	return w, nil
}

func (w *World) Cleanup() {
	if w.tmpRoot != "" {
		os.RemoveAll(w.tmpRoot)
	}
}

// ID returns the small integer the Coq side uses for an output hash.
func (w *World) ID(h cipher.SHA256) int {
	if id, ok := w.UxID[h]; ok {
		return id
	}
	id := len(w.UxID) + 1
	w.UxID[h] = id
	return id
}

// Node is one real node: a visor on its own bolt file.
type Node struct {
	V    *visor.Visor
	DB   *dbutil.DB
	path string
}

// NewNode opens a node. The publisher signs the genesis block itself; a
// follower is given the publisher's genesis signature.
func (w *World) NewNode(name string, publisher bool, genesisSig cipher.Sig) (*Node, error) {
	path := filepath.Join(w.tmpRoot, name+".db")
	bdb, err := bolt.Open(path, 0600, &bolt.Options{Timeout: 2 * time.Second})
	if err != nil {
		return nil, err
	}
	bdb.NoSync = true // temp files; durability is not the subject here
	db := dbutil.WrapDB(bdb)
	cfg := visor.NewConfig()
	cfg.IsBlockPublisher = publisher
	cfg.Arbitrating = publisher // as src/skycoin/skycoin.go: vc.Arbitrating = RunBlockPublisher
	cfg.BlockchainPubkey = w.Pub
	if publisher {
		cfg.BlockchainSeckey = w.Sec
	}
	cfg.GenesisAddress = w.Addrs[0]
	cfg.GenesisCoinVolume = w.Volume
	cfg.GenesisTimestamp = GenesisTime
	cfg.GenesisSignature = genesisSig
	cfg.Distribution = w.Dist
	v, err := visor.New(cfg, db, nil)
	if err != nil {
		bdb.Close()
		return nil, err
	}
	if err := v.Init(); err != nil {
		bdb.Close()
		return nil, err
	}
	return &Node{V: v, DB: db, path: path}, nil
}

func (n *Node) Close() {
	if n != nil && n.DB != nil {
		n.DB.Close()
	}
}

// GenesisSig returns the signature the publisher put on the genesis block and
// records the genesis output in the world's table.
func (w *World) GenesisSig(pub *Node) (cipher.Sig, error) {
	b, err := pub.V.GetSignedBlockBySeq(0)
	if err != nil {
		return cipher.Sig{}, err
	}
	if b == nil {
		return cipher.Sig{}, errors.New("no genesis block")
	}
	w.RecordBlock(*b)
	return b.Sig, nil
}

// RecordBlock adds the outputs a block creates to the table of all outputs.
func (w *World) RecordBlock(b coin.SignedBlock) {
	for _, t := range b.Body.Transactions {
		for _, ux := range coin.CreateUnspents(b.Head, t) {
			w.Ux[ux.Hash()] = ux
			w.ID(ux.Hash())
		}
	}
}

// ---- deterministic signing

func (w *World) detSign(h cipher.SHA256, sec cipher.SecKey) cipher.Sig {
	var sk, msg secp.Number
	sk.SetBytes(sec[:])
	msg.SetBytes(h[:])
	for {
		w.nonce++
		var ctr [8]byte
		binary.BigEndian.PutUint64(ctr[:], w.nonce)
		d := sha256.Sum256(append(append(append([]byte{}, sec[:]...), h[:]...), ctr[:]...))
		var nonce secp.Number
		nonce.SetBytes(d[:])
		if nonce.Sign() == 0 || nonce.Cmp(&secp.TheCurve.Order.Int) >= 0 {
			continue
		}
		var sig secp.Signature
		var recid int
		if sig.Sign(&sk, &msg, &nonce, &recid) != 1 {
			continue
		}
		var out cipher.Sig
		copy(out[:64], sig.Bytes())
		out[64] = byte(recid)
		return out
	}
}

// TxOpts are the semantic mutations the generators apply to a transaction.
type TxOpts struct {
	WrongKey   bool // sign input 0 with a key that does not own it
	NoSigs     bool // leave the signature array empty
	BadInner   bool // corrupt the inner hash after signing
	DupInput   bool // list input 0 twice
	NullSig    bool // leave signature 0 null
	BadLength  bool // header length field off by one
}

// BuildTxn builds and signs a transaction spending ins (which must be in the
// world's table unless an option says otherwise) into outs.
func (w *World) BuildTxn(ins []cipher.SHA256, outs []coin.TransactionOutput, o TxOpts) coin.Transaction {
	var t coin.Transaction
	in := append([]cipher.SHA256{}, ins...)
	if o.DupInput && len(in) > 0 {
		in = append(in, in[0])
	}
	t.In = in
	t.Out = append([]coin.TransactionOutput{}, outs...)
	t.InnerHash = t.HashInner()
	if !o.NoSigs {
		t.Sigs = make([]cipher.Sig, len(t.In))
		for i, h := range t.In {
			if o.NullSig && i == 0 {
				continue
			}
			var key cipher.SecKey
			if ux, ok := w.Ux[h]; ok {
				key = w.KeyOf[ux.Body.Address]
			}
			if (key == cipher.SecKey{}) || (o.WrongKey && i == 0) {
				key = w.Keys[(w.R.Intn(NKeys-1)+1+w.keyIndex(key))%NKeys]
			}
			t.Sigs[i] = w.detSign(cipher.AddSHA256(t.InnerHash, h), key)
		}
	}
	if err := t.UpdateHeader(); err != nil {
		panic(err)
	}
	if o.BadInner {
		t.InnerHash[3] ^= 0x40
	}
	if o.BadLength {
		t.Length++
	}
	return t
}

func (w *World) keyIndex(k cipher.SecKey) int {
	for i, x := range w.Keys {
		if x == k {
			return i
		}
	}
	return 0
}

// ---- independent verdicts (computed by the harness with the transaction
// package directly, not through the visor/blockchain methods under test)

type Verdict struct {
	InputsUnspent bool   // every input is in the node's unspent set now
	Hard          bool   // VerifySingleTxnHardConstraints (signed) with the inputs' outputs
	Soft          bool   // VerifySingleTxnSoftConstraints under the given parameters
	Block         bool   // VerifyBlockTxnConstraints
	FeeOK         bool   // fee.TransactionFee computed without error
	Fee           uint64 //
	Size          uint32
	HardErr       string
	SoftErr       string
}

// Verify computes the verdicts of txn at node n's current head. When
// fromTable is true the inputs are looked up in the table of all outputs ever
// created (so Hard/Soft say "well-formed apart from being unspent") and
// InputsUnspent reports separately whether they are all unspent.
func (w *World) Verify(n *Node, t coin.Transaction, vp params.VerifyTxn, fromTable bool) (Verdict, error) {
	var v Verdict
	head, err := n.V.GetHeadBlock()
	if err != nil {
		return v, err
	}
	sz, err := t.Size()
	if err != nil {
		return v, err
	}
	v.Size = sz
	uxNode, err := n.V.GetUnspentOutputs(t.In)
	v.InputsUnspent = err == nil
	var uxIn coin.UxArray
	have := true
	if fromTable {
		for _, h := range t.In {
			ux, ok := w.Ux[h]
			if !ok {
				have = false
				break
			}
			uxIn = append(uxIn, ux)
		}
	} else {
		uxIn = uxNode
		have = v.InputsUnspent
	}
	if !have {
		v.HardErr = "input unknown"
		return v, nil
	}
	if e := transaction.VerifySingleTxnHardConstraints(t, head.Head, uxIn, transaction.TxnSigned); e != nil {
		v.HardErr = e.Error()
	} else {
		v.Hard = true
	}
	v.Block = transaction.VerifyBlockTxnConstraints(t, head.Head, uxIn) == nil
	if f, e := fee.TransactionFee(&t, head.Time(), uxIn); e == nil {
		v.FeeOK, v.Fee = true, f
	}
	if e := transaction.VerifySingleTxnSoftConstraints(t, head.Time(), uxIn, w.Dist, vp); e != nil {
		v.SoftErr = e.Error()
	} else {
		v.Soft = true
	}
	return v, nil
}

// ErrKind maps an error of the inject / create paths to the model's enum.
func ErrKind(err error) string {
	if err == nil {
		return ""
	}
	switch err.(type) {
	case transaction.ErrTxnViolatesHardConstraint:
		return "hard"
	case transaction.ErrTxnViolatesSoftConstraint:
		return "soft"
	case transaction.ErrTxnViolatesUserConstraint:
		return "user"
	}
	return "other:" + err.Error()
}

// HashZ prints the first 8 bytes of a SHA256 as a big-endian integer. For
// hashes that differ in these bytes bytes.Compare order = integer order; the
// callers check (DistinctPrefixes) that no two hashes of a case share them.
// (Full 256-bit literals cost ~7 ms each to parse in Coq.)
func HashZ(h cipher.SHA256) string {
	return new(big.Int).SetBytes(h[:8]).String()
}

// DistinctPrefixes reports whether the 8-byte prefixes of the hashes are pairwise distinct.
func DistinctPrefixes(hs []cipher.SHA256) bool {
	seen := map[[8]byte]cipher.SHA256{}
	for _, h := range hs {
		var k [8]byte
		copy(k[:], h[:8])
		if o, ok := seen[k]; ok && o != h {
			return false
		}
		seen[k] = h
	}
	return true
}

// Hours of an output at the node's head time.
func HoursAt(ux coin.UxOut, t uint64) uint64 {
	h, err := ux.CoinHours(t)
	if err != nil {
		return 0
	}
	return h
}

func Fmt(format string, a ...interface{}) string { return fmt.Sprintf(format, a...) }

// Uniq makes the outputs pairwise distinct (a transaction with two identical
// outputs is malformed) by moving an output to another wallet address.
func (w *World) Uniq(outs []coin.TransactionOutput) []coin.TransactionOutput {
	seen := map[coin.TransactionOutput]bool{}
	for i := range outs {
		for k := 0; seen[outs[i]] && k < NKeys; k++ {
			outs[i].Address = w.Addrs[(w.keyIndexAddr(outs[i].Address)+1)%(NKeys-1)]
		}
		for seen[outs[i]] && outs[i].Hours > 0 {
			outs[i].Hours--
		}
		seen[outs[i]] = true
	}
	return outs
}

func (w *World) keyIndexAddr(a cipher.Address) int {
	for i, x := range w.Addrs {
		if x == a {
			return i
		}
	}
	return 0
}

// ---- transaction generator shared by the pool harnesses

// SpendOpts selects the validity class of a generated transaction.
type SpendOpts struct {
	Fee        string // "min" | "rand" | "all" | "low" (soft) | "none" (soft)
	NOut       int
	Precision  bool   // soft: an output with more decimals than allowed
	NullAddr   bool   // user constraint: an output to the null address
	HoursExtra uint64 // hard: output hours exceed input hours by this much
	CoinsDelta int64  // hard: outputs create (+) or destroy (-) this many droplets
	ZeroCoin   bool   // hard: an output with zero coins
	DupOut     bool   // hard: two identical outputs
	Tx         TxOpts // signature / header mutations
}

// Spend builds a signed transaction over ins (looked up in the table for keys).
func (w *World) Spend(ins coin.UxArray, headTime uint64, o SpendOpts) coin.Transaction {
	r := w.R
	var coinsIn, hoursIn uint64
	var hs []cipher.SHA256
	for _, ux := range ins {
		coinsIn += ux.Body.Coins
		hoursIn += HoursAt(ux, headTime)
		hs = append(hs, ux.Hash())
	}
	minFee := (hoursIn + 9) / 10
	feeH := minFee
	switch o.Fee {
	case "rand":
		if hoursIn > minFee {
			feeH = minFee + r.U64()%(hoursIn-minFee+1)
		}
	case "all":
		feeH = hoursIn
	case "low":
		if minFee > 1 {
			feeH = minFee - 1 - uint64(r.Intn(3))%(minFee-1)
		} else {
			feeH = 0
		}
	case "none":
		feeH = 0
	}
	if feeH > hoursIn {
		feeH = hoursIn
	}
	if o.HoursExtra > 0 {
		feeH = 0
	}
	hoursOut := hoursIn - feeH + o.HoursExtra
	coinsOut := coinsIn
	if o.CoinsDelta > 0 {
		coinsOut += uint64(o.CoinsDelta)
	} else if uint64(-o.CoinsDelta) < coinsOut {
		coinsOut -= uint64(-o.CoinsDelta)
	}
	nOut := o.NOut
	if nOut < 1 {
		nOut = 1
	}
	unit := uint64(1000)
	for uint64(nOut) > coinsOut/unit && nOut > 1 {
		nOut--
	}
	var outs []coin.TransactionOutput
	cl, hl := coinsOut, hoursOut
	for i := 0; i < nOut; i++ {
		c, h := cl, hl
		if i < nOut-1 {
			c = (cl / uint64(nOut-i) / unit) * unit
			if c == 0 {
				c = unit
			}
			h = hl / uint64(nOut-i)
		}
		outs = append(outs, coin.TransactionOutput{Address: w.Addrs[r.Intn(NKeys-1)], Coins: c, Hours: h})
		cl -= c
		hl -= h
	}
	if o.Precision && outs[0].Coins > 1 {
		// move a sub-unit amount from output 0 into a new output: both get too many decimals
		d := uint64(1 + r.Intn(999))
		if d >= outs[0].Coins {
			d = 1
		}
		outs[0].Coins -= d
		outs = append(outs, coin.TransactionOutput{Address: w.Addrs[1], Coins: d, Hours: 0})
	}
	outs = w.Uniq(outs)
	if o.NullAddr {
		outs[len(outs)-1].Address = cipher.Address{}
	}
	if o.ZeroCoin {
		outs = append(outs, coin.TransactionOutput{Address: w.Addrs[2], Coins: 0, Hours: 0})
	}
	if o.DupOut {
		outs = append(outs, outs[0])
	}
	return w.BuildTxn(hs, outs, o.Tx)
}

// PredictOutputs adds the outputs txn would create to the table (so that a
// later transaction spending them can be signed) and returns their ids.
func (w *World) PredictOutputs(head coin.BlockHeader, t coin.Transaction) []cipher.SHA256 {
	var ids []cipher.SHA256
	for _, ux := range coin.CreateUnspents(head, t) {
		h := ux.Hash()
		if _, ok := w.Ux[h]; !ok {
			w.Ux[h] = ux
		}
		w.ID(h)
		ids = append(ids, h)
	}
	return ids
}

// PathOf returns the database path NewNode(name, …) uses (C08 places crash
// images there before opening a node on them).
func (w *World) PathOf(name string) string { return filepath.Join(w.tmpRoot, name+".db") }

// ---- hand-made blocks (only the block-level hard rules apply to them)

// UxHash computes the unspent-set hash a block header must carry: the XOR of
// the snapshot hashes of all unspent outputs (as blockdb.Unspents maintains it).
func UxHash(n *Node) (cipher.SHA256, error) {
	uxs, err := n.V.GetAllUnspentOutputs()
	if err != nil {
		return cipher.SHA256{}, err
	}
	var h cipher.SHA256
	for i := range uxs {
		h = h.Xor(uxs[i].SnapshotHash())
	}
	return h, nil
}

// MakeBlock builds and signs a block on top of n's head from the given
// transactions without going through the publisher's createBlock filter.
func (w *World) MakeBlock(n *Node, txns coin.Transactions, when uint64) (coin.SignedBlock, error) {
	head, err := n.V.GetHeadBlock()
	if err != nil {
		return coin.SignedBlock{}, err
	}
	uxh, err := UxHash(n)
	if err != nil {
		return coin.SignedBlock{}, err
	}
	calc := func(t *coin.Transaction) (uint64, error) {
		uxIn, err := n.V.GetUnspentOutputs(t.In)
		if err != nil {
			return 0, err
		}
		f, err := fee.TransactionFee(t, head.Time(), uxIn)
		if err != nil {
			return 0, nil // the header fee field is not verified; block rules tolerate hour overflows
		}
		return f, nil
	}
	b, err := coin.NewBlock(head.Block, when, uxh, txns, calc)
	if err != nil {
		return coin.SignedBlock{}, err
	}
	return coin.SignedBlock{Block: *b, Sig: w.detSign(b.HashHeader(), w.Sec)}, nil
}
