module verif/harness

go 1.14

require (
	github.com/boltdb/bolt v1.3.1
	github.com/skycoin/skycoin v0.0.0
)

replace github.com/skycoin/skycoin => /repo
