module verif/harness

go 1.14

require (
	github.com/boltdb/bolt v1.3.1
	github.com/shopspring/decimal v0.0.0-20180709203117-cd690d0c9e24
	github.com/sirupsen/logrus v1.1.1
	github.com/skycoin/skycoin v0.0.0
)

replace github.com/skycoin/skycoin => /repo
