// Command c03: correspondence and failing-input search for the coin-hour rules
// (property C03): coin.VerifyTransactionHoursSpending, VerifyTransactionCoinsSpending,
// Transaction.OutputHours, transaction.VerifySingleTxnHardConstraints,
// transaction.VerifyBlockTxnConstraints, UxOut.CoinHours (monotonicity).
package main

import (
	"encoding/json"
	"errors"
	"fmt"
	"os"
	"strings"

	"verif/harness/hrs"
	. "verif/harness/kit"

	"github.com/skycoin/skycoin/src/coin"
	"github.com/skycoin/skycoin/src/transaction"
)

func main() { Main(run) }

// the witness of C03_hours_block_wrap_refuted (Proofs/HoursProofs.v), F14
func witness() *hrs.Case {
	return &hrs.Case{Kind: "F14-witness", T: 1000,
		Ins:  []hrs.In{{Time: 1000, Coins: 2000000, Hours: 10, Addr: 0}},
		Outs: []hrs.TxOut{{Coins: 1000000, Hours: 9223372036854775808, Addr: 1}, {Coins: 1000000, Hours: 9223372036854775813, Addr: 2}}}
}


func run(args []string) error {
	f := ParseFlags("c03", args)
	r := NewRng(f.Seed)
	n := f.Budget(1500, 40000)
	g := hrs.NewGen(r)
	o := NewOut()
	st := hrs.NewStrs()
	hist := g.Hist
	caseJSON := map[string][]map[string]interface{}{}
	var samples []map[string]interface{}

	var replayCase *hrs.Case
	replayGroup := ""
	if strings.HasPrefix(f.Extra, "replay=") {
		data, err := os.ReadFile(strings.TrimPrefix(f.Extra, "replay="))
		if err != nil {
			return err
		}
		var rp struct {
			Group string                 `json:"group"`
			Case  map[string]interface{} `json:"case"`
		}
		if err := json.Unmarshal(data, &rp); err != nil {
			return err
		}
		if rp.Case == nil {
			return errors.New("replay file holds no concrete case")
		}
		replayGroup = rp.Group
		if replayGroup != "mono" {
			c, err := hrs.ParseFlat(rp.Case)
			if err != nil {
				return err
			}
			replayCase = c
		}
		n = 1
	}

	// ---- tx: function-level checks on unsigned transactions
	var tx, block []string
	nblock := n / 12
	if nblock < 40 {
		nblock = 40
	}
	runTx := func(c *hrs.Case) {
		txn, uxIn := g.Build(c, false)
		head := hrs.Head(c.T)
		uxOut := coin.CreateUnspents(head, txn)
		var eHS, eCS, eOH, eS error
		var oh uint64
		pHS := Guard(func() { eHS = coin.VerifyTransactionHoursSpending(c.T, uxIn, uxOut) })
		pCS := Guard(func() { eCS = coin.VerifyTransactionCoinsSpending(uxIn, uxOut) })
		pOH := Guard(func() { oh, eOH = txn.OutputHours() })
		var pre error
		pPre := Guard(func() {
			pre = txn.VerifyUnsigned()
			if pre == nil {
				pre = txn.VerifyPartialInputSignatures(uxIn)
			}
			if pre == nil && uxOut.HasDupes() {
				pre = errors.New("Duplicate output in transaction")
			}
		})
		if pPre {
			pre = errors.New("structural checks panicked")
		}
		pS := Guard(func() { eS = transaction.VerifySingleTxnHardConstraints(txn, head, uxIn, transaction.TxnUnsigned) })
		tx = append(tx, Tuple(Z(c.T), c.CoqIns(), c.CoqOuts(), st.OptErr(hrs.Name(pre)),
			Tuple(st.CoqResErr(pHS, eHS), st.CoqResErr(pCS, eCS), st.CoqResZE(pOH, oh, eOH)),
			st.CoqVerdict(pS, eS)))
		m := c.Flat()
		m["pre"] = hrs.Name(pre)
		m["obs_hours_spending"] = hrs.ShowErr(pHS, eHS)
		m["obs_coins_spending"] = hrs.ShowErr(pCS, eCS)
		m["obs_output_hours"] = fmt.Sprintf("%d/%s", oh, hrs.ShowErr(pOH, eOH))
		m["obs_single_hard"] = hrs.ShowVerdict(pS, eS)
		for _, grp := range []string{"hs", "cs", "oh", "single"} {
			caseJSON[grp] = append(caseJSON[grp], m)
		}
		key := fmt.Sprint(m["T"], m["ins"], m["outs"])
		o.Count("hs"+key, len(c.Ins) > 0 && len(c.Outs) > 0)
		o.Count("single"+key, len(c.Ins) > 0 && len(c.Outs) > 0)
		hist.Add("hours_spending:" + hrs.ShowErr(pHS, eHS))
		hist.Add("single_hard:" + hrs.ShowVerdict(pS, eS))
		hist.Add("output_hours:" + hrs.ShowErr(pOH, eOH))
		hist.Add("coins_spending:" + hrs.ShowErr(pCS, eCS))
		if len(samples) < 12 && r.Intn(n/6+1) == 0 {
			samples = append(samples, m)
		}
	}
	// ---- block: fully signed transactions through VerifyBlockTxnConstraints
	runBlock := func(c *hrs.Case, grp string) string {
		txn, uxIn := g.Build(c, true)
		head := hrs.Head(c.T)
		var pre, eB error
		pPre := Guard(func() {
			pre = txn.Verify()
			if pre == nil {
				pre = txn.VerifyInputSignatures(uxIn)
			}
			if pre == nil && coin.CreateUnspents(head, txn).HasDupes() {
				pre = errors.New("Duplicate output in transaction")
			}
		})
		if pPre {
			pre = errors.New("structural checks panicked")
		}
		pB := Guard(func() { eB = transaction.VerifyBlockTxnConstraints(txn, head, uxIn) })
		m := c.Flat()
		m["pre"] = hrs.Name(pre)
		m["obs_block"] = hrs.ShowVerdict(pB, eB)
		caseJSON[grp] = append(caseJSON[grp], m)
		o.Count(grp+fmt.Sprint(m["T"], m["ins"], m["outs"]), len(c.Ins) > 0 && len(c.Outs) > 0)
		hist.Add(grp + ":" + hrs.ShowVerdict(pB, eB))
		return Tuple(Z(c.T), c.CoqIns(), c.CoqOuts(), st.OptErr(hrs.Name(pre)), st.CoqVerdict(pB, eB))
	}

	switch {
	case replayCase != nil && (replayGroup == "block"):
		block = append(block, runBlock(replayCase, "block"))
	case replayCase != nil && replayGroup != "witness":
		runTx(replayCase)
	case replayGroup == "":
		script := hrs.ScriptedC03()
		for i := 0; i < n+len(script); i++ {
			var c *hrs.Case
			if i < len(script) {
				c = script[i] // fixed prefix, independent of seed and budget
			} else {
				c = g.Case(uint32(2+r.Intn(9)), 1)
			}
			runTx(c)
			if i < nblock {
				// the same transaction, signed, through the block-level checker
				block = append(block, runBlock(c, "block"))
			}
		}
	}

	// ---- witness of the refuted full statement, on the real code, both levels
	var wit []string
	if replayGroup == "" || replayGroup == "witness" {
		c := witness()
		if replayCase != nil {
			c = replayCase
		}
		txn, uxIn := g.Build(c, true)
		head := hrs.Head(c.T)
		var eHS error
		pHS := Guard(func() { eHS = coin.VerifyTransactionHoursSpending(c.T, uxIn, coin.CreateUnspents(head, txn)) })
		b := runBlock(c, "witness")
		_ = b
		var eB error
		pB := Guard(func() { eB = transaction.VerifyBlockTxnConstraints(txn, head, uxIn) })
		caseJSON["witness"][len(caseJSON["witness"])-1]["obs_hours_spending"] = hrs.ShowErr(pHS, eHS)
		wit = append(wit, Tuple(Z(c.T), c.CoqIns(), c.CoqOuts(), st.CoqResErr(pHS, eHS), st.CoqVerdict(pB, eB)))
	}

	// ---- mono: accrued hours of one output at two times t <= t'
	var mono []string
	nm := n
	if replayGroup != "" && replayGroup != "mono" {
		nm = 0
	}
	for i := 0; i < nm; i++ {
		var x hrs.In
		var t1, t2 uint64
		if replayGroup == "" && i < 2 {
			// fixed: seconds*coins wraps 2^64 although bits(seconds)+bits(coins) = 65
			x = hrs.In{Time: 1000, Coins: 1<<32 - 1, Hours: 7}
			t1, t2 = 1000+(1<<33-1), 1000+(1<<33-1)+uint64(i)*3600000
			if i == 0 {
				t1 = 1000 + (1<<33 - 1) - 3600000
			}
		} else if replayGroup == "mono" {
			data, _ := os.ReadFile(strings.TrimPrefix(f.Extra, "replay="))
			var rp struct {
				Case map[string]string `json:"case"`
			}
			if err := json.Unmarshal(data, &rp); err != nil {
				return err
			}
			fmt.Sscan(rp.Case["time"], &x.Time)
			fmt.Sscan(rp.Case["coins"], &x.Coins)
			fmt.Sscan(rp.Case["hours"], &x.Hours)
			fmt.Sscan(rp.Case["t1"], &t1)
			fmt.Sscan(rp.Case["t2"], &t2)
		} else {
			if r.Chance(50) {
				x = g.NormalIn(1426562704 + uint64(r.Intn(600000000)))
			} else {
				x = g.SpecialIn(hrs.MaxU64-uint64(r.Intn(1000)), r.Intn(6))
			}
			t1 = hrs.Between(r, x.Time, hrs.MaxU64)
			if r.Chance(10) && x.Time > 0 {
				t1 = x.Time - 1 - uint64(r.Intn(2))%x.Time
			}
			t2 = hrs.Between(r, t1, hrs.MaxU64)
			switch r.Intn(4) {
			case 0:
				if t1 < hrs.MaxU64-2 {
					t2 = t1 + uint64(r.Intn(3))
				}
			case 1:
				t2 = hrs.MaxU64 - uint64(r.Intn(3))
			case 2: // one hour later for one coin: exactly one more hour
				if t1 < hrs.MaxU64-3600 {
					t2 = t1 + 3600
				}
			}
		}
		ux := coin.UxOut{Head: coin.UxHead{Time: x.Time}, Body: coin.UxBody{Coins: x.Coins, Hours: x.Hours}}
		var h1, h2 uint64
		var e1, e2 error
		p1 := Guard(func() { h1, e1 = ux.CoinHours(t1) })
		p2 := Guard(func() { h2, e2 = ux.CoinHours(t2) })
		mono = append(mono, Tuple(fmt.Sprintf("mkIn %d %d %d 0", x.Time, x.Coins, x.Hours), Z(t1), Z(t2), st.CoqResZE(p1, h1, e1), st.CoqResZE(p2, h2, e2)))
		caseJSON["mono"] = append(caseJSON["mono"], map[string]interface{}{"time": fmt.Sprint(x.Time), "coins": fmt.Sprint(x.Coins),
			"hours": fmt.Sprint(x.Hours), "t1": fmt.Sprint(t1), "t2": fmt.Sprint(t2),
			"obs1": fmt.Sprintf("%d/%s", h1, hrs.ShowErr(p1, e1)), "obs2": fmt.Sprintf("%d/%s", h2, hrs.ShowErr(p2, e2))})
		o.Count(fmt.Sprint("mono", x, t1, t2), t1 >= x.Time && t2 > t1)
		hist.Add(fmt.Sprintf("mono:ok1=%v,ok2=%v", e1 == nil, e2 == nil))
	}

	var chain, supply []string
	if replayGroup == "" {
		nh := n / 250
		if nh < 2 {
			nh = 2
		}
		var err error
		chain, supply, err = runChains(r, o, nh, 8, hist, caseJSON)
		if err != nil {
			return err
		}
	}
	tyTx := "(Z * list uxin * list txout * error * (res error * res error * res (Z * error)) * res verdict)%type"
	data := hrs.DefChunked("cases_tx", tyTx, tx) +
		hrs.DefChunked("cases_block", "(Z * list uxin * list txout * error * res verdict)%type", block) +
		hrs.DefChunked("cases_witness", "(Z * list uxin * list txout * res error * res verdict)%type", wit) +
		hrs.DefChunked("cases_mono", "(uxin * Z * Z * res (Z * error) * res (Z * error))%type", mono) +
		hrs.DefChunked("cases_chain", "(bool * Z * list (list uxin * list txout * bool) * Z)%type", chain) +
		hrs.DefChunked("cases_supply", "(Z * list uxin * list uxin)%type", supply)
	o.Raw(st.Table())
	o.Raw(data)
	o.Side["rule"] = "transactions as (head time, inputs: creation time/coins/hours/owner, outputs: coins/hours) built as real coin.Transaction + coin.UxArray (unsigned for the function-level and single-transaction checks, fully signed for the block-level check); inputs aimed at each overflow branch of CoinHours +-2, input sums at 2^64+-2, output hours at inputs' hours +-1, at the required fee +-1, true sums wrapping 2^64, coins balanced / +-1 / near 2^64; a case is non-trivial when it has inputs and outputs (mono: t1 >= creation time and t2 > t1); distinct by input tuple. Node level (groups chain, supply): real visor.Visor on a bolt file as arbitrating publisher and as follower, 8 publisher-signed blocks per history through Visor.ExecuteSignedBlock mixing valid, hours-creating (+1,+2,+1000,+1e9) and coin-unbalanced transactions; the head block is re-read from the database and the unspent set dumped after every block"
	o.Side["distribution"] = hist.Sorted()
	o.Side["samples"] = samples
	o.Side["cases"] = caseJSON
	return o.Write(f.Out, f.JSON)
}
