package main

// Node level (first clause of C03, "every transaction in every ACCEPTED block"):
// a real visor.Visor on a bolt file, once as an arbitrating block publisher and
// once as a follower, is offered publisher-signed blocks through
// Visor.ExecuteSignedBlock that mix valid transactions with transactions that
// create coin hours (or coins) but are otherwise spendable. After every block
// the head block is RE-READ from the database and the unspent set is dumped:
//   chain  : per offered block, for each transaction whether it is in the stored block
//   supply : per accepted block, the unspent set before and after

import (
	"fmt"
	"strings"

	. "verif/harness/kit"
	nk "verif/harness/nodekit"

	"github.com/skycoin/skycoin/src/cipher"
	"github.com/skycoin/skycoin/src/coin"
)

func uxinOf(w *nk.World, ux coin.UxOut) string {
	a := 0
	for i, x := range w.Addrs {
		if x == ux.Body.Address {
			a = i
		}
	}
	return fmt.Sprintf("mkIn %d %d %d %d", ux.Head.Time, ux.Body.Coins, ux.Body.Hours, a)
}

func flatUx(uxs coin.UxArray) string {
	it := make([]string, len(uxs))
	for i, ux := range uxs {
		it[i] = fmt.Sprintf("%d:%d:%d:0", ux.Head.Time, ux.Body.Coins, ux.Body.Hours)
	}
	return strings.Join(it, ",")
}

func runChains(r *Rng, o *Out, nHist, nBlocks int, hist Hist, caseJSON map[string][]map[string]interface{}) (chain, supply []string, err error) {
	for h := 0; h < nHist; h++ {
		w, e := nk.NewWorld(r, "c03")
		if e != nil {
			return nil, nil, e
		}
		pub, e := w.NewNode("pub", true, cipher.Sig{})
		if e != nil {
			w.Cleanup()
			return nil, nil, e
		}
		sig, e := w.GenesisSig(pub)
		if e != nil {
			w.Cleanup()
			return nil, nil, e
		}
		fol, e := w.NewNode("fol", false, sig)
		if e != nil {
			w.Cleanup()
			return nil, nil, e
		}
		for _, nd := range []struct {
			n   *nk.Node
			arb bool
		}{{pub, true}, {fol, false}} {
			kind := "follower"
			if nd.arb {
				kind = "arbitrating"
			}
			for b := 0; b < nBlocks; b++ {
				head, e := nd.n.V.GetHeadBlock()
				if e != nil {
					return nil, nil, e
				}
				before, e := nd.n.V.GetAllUnspentOutputs()
				if e != nil {
					return nil, nil, e
				}
				T := head.Time()
				// candidate inputs: outputs owned by the wallet, in a deterministic order
				var cand coin.UxArray
				for _, ux := range before {
					if _, ok := w.KeyOf[ux.Body.Address]; ok {
						cand = append(cand, ux)
					}
				}
				cand.Sort()
				for i := len(cand) - 1; i > 0; i-- {
					j := r.Intn(i + 1)
					cand[i], cand[j] = cand[j], cand[i]
				}
				ntx := 1 + r.Intn(3)
				if b == 0 {
					ntx = 1
				}
				if b == 1 || b == 2 {
					ntx = 2
				}
				var txns coin.Transactions
				var txIns []coin.UxArray
				var kinds []string
				for k := 0; k < ntx && len(cand) > 0; k++ {
					nin := 1 + r.Intn(2)
					if nin > len(cand) {
						nin = len(cand)
					}
					ins := append(coin.UxArray{}, cand[:nin]...)
					cand = cand[nin:]
					so := nk.SpendOpts{NOut: 1 + r.Intn(3), Fee: []string{"min", "rand", "all", "none"}[r.Intn(4)]}
					tk := "valid"
					if b == 0 {
						so.NOut = 6
						so.Fee = "rand"
					} else if b == 1 || b == 2 {
						// fixed: a valid transaction next to one that creates hours (both orders)
						if (k == 0) == (b == 2) {
							so.HoursExtra = []uint64{1000000000, 1}[b-1]
							tk = "creates-hours"
						}
					} else {
						switch x := r.Intn(20); {
						case x < 7:
							so.HoursExtra = []uint64{1, 2, 1000, 1000000000}[r.Intn(4)]
							tk = "creates-hours"
						case x < 9:
							so.CoinsDelta = []int64{1000, -1000}[r.Intn(2)]
							tk = "coins-unbalanced"
						}
					}
					txns = append(txns, w.Spend(ins, T, so))
					txIns = append(txIns, ins)
					kinds = append(kinds, tk)
				}
				if len(txns) == 0 {
					break
				}
				when := T + []uint64{1, 3600, 86400, 1000000}[r.Intn(4)]
				sb, e := w.MakeBlock(nd.n, txns, when)
				if e != nil {
					return nil, nil, e
				}
				var execErr error
				if Guard(func() { execErr = nd.n.V.ExecuteSignedBlock(sb) }) {
					execErr = fmt.Errorf("panic")
				}
				head2, e := nd.n.V.GetHeadBlock() // re-read from the database
				if e != nil {
					return nil, nil, e
				}
				after, e := nd.n.V.GetAllUnspentOutputs()
				if e != nil {
					return nil, nil, e
				}
				stored := map[cipher.SHA256]bool{}
				accepted := head2.Seq() == head.Seq()+1
				if accepted {
					for _, t := range head2.Body.Transactions {
						stored[t.Hash()] = true
					}
					w.RecordBlock(*head2)
				}
				var items, flat []string
				for i, t := range txns {
					var ins, outs, fi, fo []string
					for _, ux := range txIns[i] {
						ins = append(ins, uxinOf(w, ux))
					}
					fi = append(fi, flatUx(txIns[i]))
					for _, x := range t.Out {
						outs = append(outs, fmt.Sprintf("mkOut %d %d", x.Coins, x.Hours))
						fo = append(fo, fmt.Sprintf("%d:%d:0", x.Coins, x.Hours))
					}
					items = append(items, Tuple(List(ins), List(outs), B(stored[t.Hash()])))
					flat = append(flat, fmt.Sprintf("%s ins=%s outs=%s stored=%v", kinds[i], strings.Join(fi, ","), strings.Join(fo, ","), stored[t.Hash()]))
					hist.Add(fmt.Sprintf("chain:%s:%s:stored=%v", kind, kinds[i], stored[t.Hash()]))
				}
				// transactions of the stored block that were never offered would be a bug of their own
				extra := len(stored)
				for _, t := range txns {
					if stored[t.Hash()] {
						extra--
					}
				}
				chain = append(chain, Tuple(B(nd.arb), Z(T), List(items), Z(uint64(extra))))
				m := map[string]interface{}{"node": kind, "history": h, "block_seq": fmt.Sprint(head.Seq() + 1), "T": fmt.Sprint(T),
					"txns": strings.Join(flat, " | "), "block_accepted": accepted, "exec_err": fmt.Sprint(execErr)}
				caseJSON["chain"] = append(caseJSON["chain"], m)
				o.Count(fmt.Sprint("chain", kind, h, b, m["txns"]), true)
				if accepted {
					var bs, as []string
					for _, ux := range before {
						bs = append(bs, uxinOf(w, ux))
					}
					for _, ux := range after {
						as = append(as, uxinOf(w, ux))
					}
					supply = append(supply, Tuple(Z(T), List(bs), List(as)))
					caseJSON["supply"] = append(caseJSON["supply"], map[string]interface{}{"node": kind, "history": h,
						"block_seq": fmt.Sprint(head2.Seq()), "T": fmt.Sprint(T), "before": flatUx(before), "after": flatUx(after), "txns": m["txns"]})
					o.Count(fmt.Sprint("supply", kind, h, b, m["txns"]), true)
				}
			}
		}
		pub.Close()
		fol.Close()
		w.Cleanup()
	}
	return chain, supply, nil
}
