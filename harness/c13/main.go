// Command c13: correspondence / property harness for C13 — wallet.SignTransaction.
package main

import (
	"os"
	"encoding/json"
	"bytes"
	"fmt"
	"strings"

	. "verif/harness/kit"

	"github.com/skycoin/skycoin/src/api"
	"github.com/skycoin/skycoin/src/cipher"
	"github.com/skycoin/skycoin/src/cipher/crypto"
	"github.com/skycoin/skycoin/src/coin"
	"github.com/skycoin/skycoin/src/util/logging"
	"github.com/skycoin/skycoin/src/wallet"
	"github.com/skycoin/skycoin/src/wallet/bip44wallet"
	"github.com/skycoin/skycoin/src/wallet/collection"
	"github.com/skycoin/skycoin/src/wallet/deterministic"
	"github.com/skycoin/skycoin/src/wallet/xpubwallet"
)

func main() { Main(run) }

// ---- replay support: `-extra replay=<file>` regenerates the stored run (same seed / tier / budget,
// passed by the driver) and keeps only the stored case of the stored group
type replaySel struct {
	group string
	idx   int
}

func parseReplay(extra string) (*replaySel, error) {
	if !strings.HasPrefix(extra, "replay=") {
		return nil, nil
	}
	raw, err := os.ReadFile(strings.TrimPrefix(extra, "replay="))
	if err != nil {
		return nil, err
	}
	var r struct {
		Group string                 `json:"group"`
		Case  map[string]interface{} `json:"case"`
	}
	if err := json.Unmarshal(raw, &r); err != nil {
		return nil, err
	}
	idx, ok := r.Case["idx"].(float64)
	if !ok {
		return nil, fmt.Errorf("replay file has no case index")
	}
	return &replaySel{r.Group, int(idx)}, nil
}

// keep returns the items of one group as they go to the cases file
func (s *replaySel) keep(group string, items []string) []string {
	if s == nil {
		return items
	}
	if group == s.group && s.idx < len(items) {
		return items[s.idx : s.idx+1]
	}
	return nil
}
func (s *replaySel) keepJSON(m map[string][]map[string]interface{}) map[string][]map[string]interface{} {
	if s == nil {
		return m
	}
	out := map[string][]map[string]interface{}{}
	if cs := m[s.group]; s.idx < len(cs) {
		out[s.group] = cs[s.idx : s.idx+1]
	}
	return out
}


const testXPub = "xpub6EMRsT95ntbCFRR2Z6WppnGss1SijAkarfKoRM8tft66tuJh2nt4aJi13S21hUCLZL4cbFBXgHuxipmsS7dj1DW1s4NRup3hzxWfqUdGYv7"
const testMnemonic = "abandon abandon abandon abandon abandon abandon abandon abandon abandon abandon abandon about"

var sentinels = map[error]string{
	wallet.ErrWalletCantSign:  "ErrWalletCantSign",
	wallet.ErrWalletEncrypted: "ErrWalletEncrypted",
}

var modelConst = map[string]string{
	"ErrWalletCantSign": "ErrWalletCantSign", "ErrWalletEncrypted": "ErrWalletEncrypted",
	"Transaction inner hash does not match computed inner hash": "ESInner",
	"Transaction signatures array is empty":                     "ESNoSigs",
	"Transaction is fully signed":                               "ESFullySigned",
	"No transaction inputs to sign":                             "ESNoInputs",
	"len(uxOuts) != len(txn.In)":                                "ESUxLen",
	"Number of signature indexes exceeds number of inputs":      "ESIdxCount",
	"Signature index out of range":                              "ESIdxRange",
	"Duplicate value in signature indexes":                      "ESIdxDup",
	"Wallet cannot sign all requested inputs":                   "ESCannot",
	"Number of signatures does not match number of inputs":      "ESSigCount",
	"Input already signed":                                      "ESInputSigned",
}

func errName(err error) string {
	if err == nil {
		return ""
	}
	if n, ok := sentinels[err]; ok {
		return n
	}
	return err.Error()
}

func strTerm(s string) string {
	if c, ok := modelConst[s]; ok {
		return c
	}
	if len(s) > 120 {
		s = s[:120]
	}
	return Str(s)
}

// all secret keys the harness knows; key id = index + 1 = id of its address
type keyring struct {
	secs  []cipher.SecKey
	addrs []cipher.Address
	byA   map[cipher.Address]int
	byS   map[cipher.SecKey]int
	extra map[cipher.Address]int // addresses without a known key: ids from 100000
}

func (k *keyring) add(s cipher.SecKey) int {
	if id, ok := k.byS[s]; ok {
		return id
	}
	a, err := cipher.AddressFromSecKey(s)
	if err != nil { // an invalid secret in a wallet entry: a key of its own with no usable address
		copy(a.Key[:], s[:20])
		a.Version = 0xEE
	}
	k.secs = append(k.secs, s)
	k.addrs = append(k.addrs, a)
	id := len(k.secs)
	k.byS[s] = id
	k.byA[a] = id
	return id
}
func (k *keyring) aid(a cipher.Address) int {
	if id, ok := k.byA[a]; ok {
		return id
	}
	if id, ok := k.extra[a]; ok {
		return id
	}
	id := 100000 + len(k.extra)
	k.extra[a] = id
	return id
}

type wlt struct {
	w       wallet.Wallet
	kind    string
	enc     bool
	entries []int // key ids of GetEntries() in order (nil when the secrets are not available)
	addrs   []cipher.Address // the wallet's addresses as the wallet reports them (entry.Address / GetAddresses)
	label   string
}

func (k *keyring) describe(w wallet.Wallet, label string) (*wlt, error) {
	out := &wlt{w: w, enc: w.IsEncrypted(), label: label}
	switch w.Type() {
	case wallet.WalletTypeDeterministic:
		out.kind = "KDeterministic"
	case wallet.WalletTypeCollection:
		out.kind = "KCollection"
	case wallet.WalletTypeBip44:
		out.kind = "KBip44"
	case wallet.WalletTypeXPub:
		out.kind = "KXPub"
	default:
		return nil, fmt.Errorf("unknown wallet type %q", w.Type())
	}
	if !out.enc && out.kind != "KXPub" {
		es, err := w.GetEntries()
		if err != nil {
			return nil, err
		}
		for _, e := range es {
			out.entries = append(out.entries, k.add(e.Secret))
			out.addrs = append(out.addrs, e.SkycoinAddress())
		}
	} else if as, err := w.GetAddresses(); err == nil {
		for _, a := range as {
			if sa, ok := a.(cipher.Address); ok {
				out.addrs = append(out.addrs, sa)
			}
		}
	}
	return out, nil
}

func zlist(xs []int) string {
	it := make([]string, len(xs))
	for i, x := range xs {
		it[i] = ZI(int64(x))
	}
	return List(it)
}

func run(args []string) error {
	f := ParseFlags("c13", args)
	sel, err := parseReplay(f.Extra)
	if err != nil {
		return err
	}
	logging.Disable()
	r := NewRng(f.Seed)
	n := f.Budget(300, 10000)
	o := NewOut()
	hist := Hist{}
	caseJSON := map[string][]map[string]interface{}{}
	var samples []map[string]interface{}

	kr := &keyring{byA: map[cipher.Address]int{}, byS: map[cipher.SecKey]int{}, extra: map[cipher.Address]int{}}
	var wallets []*wlt
	addW := func(w wallet.Wallet, err error, label string) error {
		if err != nil {
			return fmt.Errorf("creating %s wallet: %v", label, err)
		}
		d, err := kr.describe(w, label)
		if err != nil {
			return err
		}
		wallets = append(wallets, d)
		return nil
	}
	seed := fmt.Sprintf("c13 seed %d", f.Seed)
	fast := wallet.OptionCryptoType(crypto.CryptoTypeSha256Xor)
	pwd := []byte("pwd")
	gen := func(w wallet.Wallet, n uint64, change bool) string {
		opts := []wallet.Option{wallet.OptionGenerateN(n)}
		if change {
			opts = append(opts, wallet.OptionChange())
		}
		if _, err := w.GenerateAddresses(opts...); err != nil {
			return "(refused)"
		}
		return ""
	}
	reload := func(w wallet.Wallet) (wallet.Wallet, error) {
		data, err := w.Serialize()
		if err != nil {
			return nil, err
		}
		w2 := w.Clone()
		if err := w2.Deserialize(data); err != nil {
			return nil, err
		}
		return w2, nil
	}
	// ---- wallets that can sign, each reached through a HISTORY (lock, generate while locked on
	// both chains, unlock, generate, reload); inputs are later owned by addresses of every stage
	dw, err := deterministic.NewWallet("d.wlt", "det", seed, wallet.OptionGenerateN(6))
	if e := addW(dw, err, "deterministic"); e != nil {
		return e
	}
	{
		w, err := deterministic.NewWallet("d2.wlt", "det2", seed+" h", wallet.OptionGenerateN(3), fast)
		lab := "deterministic"
		var u wallet.Wallet
		if err == nil {
			err = w.Lock(pwd)
			lab += ",lock,gen-locked" + gen(w, 2, false)
		}
		if err == nil {
			u, err = w.Unlock(pwd)
			lab += ",unlock"
		}
		if err == nil {
			lab += ",gen" + gen(u, 2, false)
			u, err = reload(u)
			lab += ",reload"
		}
		if e := addW(u, err, lab); e != nil {
			return e
		}
	}
	{
		w, err := bip44wallet.NewWallet("b.wlt", "bip44", testMnemonic, "", wallet.OptionGenerateN(4))
		lab := "bip44"
		if err == nil {
			lab += ",gen-change" + gen(w, 3, true)
		}
		if e := addW(w, err, lab); e != nil {
			return e
		}
	}
	{
		w, err := bip44wallet.NewWallet("b2.wlt", "bip44e", testMnemonic, "x", wallet.OptionGenerateN(2), wallet.OptionEncrypt(true), wallet.OptionPassword(pwd), fast)
		lab := "bip44,created-encrypted"
		var u wallet.Wallet
		if err == nil {
			lab += ",gen-locked-ext" + gen(w, 2, false)
			lab += ",gen-locked-change" + gen(w, 3, true)
			u, err = w.Unlock(pwd)
			lab += ",unlock"
		}
		if e := addW(u, err, lab); e != nil {
			return e
		}
	}
	{
		w, err := bip44wallet.NewWallet("b3.wlt", "bip44h", testMnemonic, "y", wallet.OptionGenerateN(2), fast)
		lab := "bip44"
		var u wallet.Wallet
		if err == nil {
			lab += ",gen-change" + gen(w, 1, true)
			err = w.Lock(pwd)
			lab += ",lock"
		}
		if err == nil {
			lab += ",gen-locked-change" + gen(w, 2, true)
			lab += ",gen-locked-ext" + gen(w, 1, false)
			u, err = reload(w)
			lab += ",reload"
		}
		if err == nil {
			u, err = u.Unlock(pwd)
			lab += ",unlock"
		}
		if err == nil {
			lab += ",gen-change" + gen(u, 1, true)
			u, err = reload(u)
			lab += ",reload"
		}
		if e := addW(u, err, lab); e != nil {
			return e
		}
	}
	var colKeys []cipher.SecKey
	for i := 0; i < 5; i++ {
		_, s := cipher.MustGenerateDeterministicKeyPair([]byte(fmt.Sprintf("c13-col-%d-%d", f.Seed, i)))
		colKeys = append(colKeys, s)
	}
	// the collection wallet shares one key with the deterministic wallet (the same owner in two wallets)
	if es, e := dw.GetEntries(); e == nil && len(es) > 0 {
		colKeys = append(colKeys, es[0].Secret)
	}
	cw, err := collection.NewWallet("c.wlt", "col", wallet.OptionCollectionPrivateKeys(colKeys))
	if e := addW(cw, err, "collection"); e != nil {
		return e
	}
	{
		w, err := collection.NewWallet("c2.wlt", "col2", wallet.OptionCollectionPrivateKeys(colKeys[1:4]), fast)
		lab := "collection"
		var u wallet.Wallet
		if err == nil {
			err = w.Lock(pwd)
			lab += ",lock"
		}
		if err == nil {
			u, err = reload(w)
			lab += ",reload"
		}
		if err == nil {
			u, err = u.Unlock(pwd)
			lab += ",unlock"
		}
		if e := addW(u, err, lab); e != nil {
			return e
		}
	}
	nSigners := len(wallets)
	// ---- wallets that cannot sign
	xw, err := xpubwallet.NewWallet("x.wlt", "xpub", testXPub, wallet.OptionGenerateN(4))
	if err == nil {
		gen(xw, 2, false)
	}
	if e := addW(xw, err, "xpub,gen"); e != nil {
		return e
	}
	ew, err := deterministic.NewWallet("e.wlt", "enc", seed+" enc", wallet.OptionGenerateN(4), wallet.OptionEncrypt(true), wallet.OptionPassword(pwd), fast)
	if e := addW(ew, err, "deterministic-encrypted"); e != nil {
		return e
	}
	ecw, err := collection.NewWallet("ec.wlt", "enccol", wallet.OptionCollectionPrivateKeys(colKeys[:2]), wallet.OptionEncrypt(true), wallet.OptionPassword(pwd), fast)
	if e := addW(ecw, err, "collection-encrypted"); e != nil {
		return e
	}
	{
		w, err := bip44wallet.NewWallet("b4.wlt", "bip44l", testMnemonic, "z", wallet.OptionGenerateN(2), wallet.OptionEncrypt(true), wallet.OptionPassword(pwd), fast)
		lab := "bip44-encrypted"
		if err == nil {
			lab += ",gen-locked-change" + gen(w, 2, true)
		}
		if e := addW(w, err, lab); e != nil {
			return e
		}
	}
	emptyW, err := collection.NewWallet("n.wlt", "empty")
	if e := addW(emptyW, err, "collection-empty"); e != nil {
		return e
	}
	// keys of no wallet
	for i := 0; i < 3; i++ {
		_, s := cipher.MustGenerateDeterministicKeyPair([]byte(fmt.Sprintf("c13-foreign-%d-%d", f.Seed, i)))
		kr.add(s)
	}
	// addresses of the watch-only / encrypted wallets: known addresses, unknown keys
	var watchAddrs []cipher.Address
	for _, w := range []wallet.Wallet{xw, ew} {
		if as, e := w.GetAddresses(); e == nil {
			for _, a := range as {
				if sa, ok := a.(cipher.Address); ok {
					watchAddrs = append(watchAddrs, sa)
				}
			}
		}
	}

	var cases []string
	for i := 0; i < n; i++ {
		w := wallets[r.Intn(len(wallets))]
		if r.Chance(70) { // most cases on wallets that can sign
			w = wallets[r.Intn(nSigners)]
		}
		nin := []int{1, 1, 2, 2, 3, 3, 4, 5, 6}[r.Intn(9)]
		labels := []string{w.label}
		// owners of the inputs
		owners := make([]cipher.Address, nin)
		ownerKey := make([]int, nin) // key id or 0
		for j := 0; j < nin; j++ {
			switch c := r.Intn(100); {
			case c < 84 && len(w.addrs) > 0:
				// an address the wallet reports as its own (of any stage of its history); the key the
				// harness knows for it is looked up by the address, never taken from the entry
				owners[j] = w.addrs[r.Intn(len(w.addrs))]
				ownerKey[j] = kr.byA[owners[j]]
			case c < 89 && j > 0:
				ownerKey[j] = ownerKey[0] // duplicate owner
			case c < 94:
				ownerKey[j] = 1 + r.Intn(len(kr.secs)) // any known key (may be foreign to the wallet)
			case c < 97 && len(watchAddrs) > 0:
				owners[j] = watchAddrs[r.Intn(len(watchAddrs))]
			default:
				copy(owners[j].Key[:], r.Bytes(20))
			}
			if ownerKey[j] != 0 && owners[j].Null() {
				owners[j] = kr.addrs[ownerKey[j]-1]
			}
		}
		var txn coin.Transaction
		uxs := make([]coin.UxOut, nin)
		for j := 0; j < nin; j++ {
			var src cipher.SHA256
			copy(src[:], r.Bytes(32))
			uxs[j] = coin.UxOut{Head: coin.UxHead{Time: 100, BkSeq: uint64(1 + r.Intn(100))},
				Body: coin.UxBody{SrcTransaction: src, Address: owners[j], Coins: uint64(1+r.Intn(100)) * 1e6, Hours: uint64(r.Intn(1000))}}
			txn.In = append(txn.In, uxs[j].Hash())
		}
		if nin >= 2 && r.Chance(4) { // the same output spent twice
			uxs[1] = uxs[0]
			txn.In[1] = txn.In[0]
			owners[1], ownerKey[1] = owners[0], ownerKey[0]
			labels = append(labels, "dup-input")
		}
		for j, k := 0, 1+r.Intn(3); j < k; j++ {
			var a cipher.Address
			copy(a.Key[:], r.Bytes(20))
			txn.Out = append(txn.Out, coin.TransactionOutput{Address: a, Coins: uint64(1+r.Intn(50)) * 1e6, Hours: uint64(r.Intn(100))})
		}
		txn.Sigs = make([]cipher.Sig, nin)
		if err := txn.UpdateHeader(); err != nil {
			return err
		}
		// input ids (the signed message of position j is identified by the input id)
		inID := map[cipher.SHA256]int{}
		ins := make([]int, nin)
		for j, h := range txn.In {
			if _, ok := inID[h]; !ok {
				inID[h] = len(inID) + 1
			}
			ins[j] = inID[h]
		}
		// existing signatures
		sigTerm := make([]string, nin)
		for j := range sigTerm {
			sigTerm[j] = "0"
		}
		signWith := func(pos, key, msgPos int) {
			h := cipher.AddSHA256(txn.InnerHash, txn.In[msgPos])
			txn.Sigs[pos] = cipher.MustSignHash(h, kr.secs[key-1])
			sigTerm[pos] = fmt.Sprintf("(t_sign %d %d)", key, ins[msgPos])
		}
		pre := "unsigned"
		switch c := r.Intn(100); {
		case c < 45:
		case c < 80:
			pre = "partial"
			for j := 0; j < nin; j++ {
				if r.Chance(45) {
					k := ownerKey[j]
					if k == 0 || r.Chance(12) {
						k = 1 + r.Intn(len(kr.secs)) // signed by somebody else
					}
					mp := j
					if r.Chance(8) {
						mp = r.Intn(nin) // a signature over another input's message
					}
					signWith(j, k, mp)
				}
			}
		case c < 85:
			pre = "full"
			for j := 0; j < nin; j++ {
				k := ownerKey[j]
				if k == 0 {
					k = 1 + r.Intn(len(kr.secs))
				}
				signWith(j, k, j)
			}
		default:
			pre = "junk"
			for j := 0; j < nin; j++ {
				if r.Chance(40) {
					copy(txn.Sigs[j][:], r.Bytes(65))
					sigTerm[j] = fmt.Sprintf("(junk %d)", j+1)
				}
			}
		}
		labels = append(labels, pre)
		// structural damage
		sigsN, uxN := nin, nin
		switch c := r.Intn(100); {
		// malformed headers (inputs / owners otherwise as generated): the InnerHash field must be the
		// hash of the body, anything else is refused; Length / Type are rewritten by UpdateHeader
		case c < 3:
			txn.InnerHash[r.Intn(32)] ^= 1
			labels = append(labels, "bad-inner")
		case c < 8:
			txn.InnerHash = cipher.SHA256{} // header never computed
			labels = append(labels, "zero-inner")
		case c < 11:
			other := txn
			other.Out = append([]coin.TransactionOutput{}, txn.Out...)
			other.Out[0].Coins++
			txn.InnerHash = other.HashInner() // inner hash of a different transaction
			labels = append(labels, "other-inner")
		case c < 14:
			copy(txn.InnerHash[:], r.Bytes(32))
			labels = append(labels, "random-inner")
		case c < 17:
			txn.Length += uint32(1 + r.Intn(3))
			if r.Bool() {
				txn.Length = 0
			}
			labels = append(labels, "bad-length")
		case c < 19:
			txn.Type = uint8(1 + r.Intn(255))
			labels = append(labels, "bad-type")
		case c < 21:
			txn.Length, txn.Type, txn.InnerHash = 0, 0, cipher.SHA256{} // nothing of the header set
			labels = append(labels, "no-header")
		case c < 23:
			txn.Sigs = nil
			sigTerm = nil
			sigsN = 0
			labels = append(labels, "no-sigs")
		case c < 26:
			txn.Sigs = txn.Sigs[:nin-1]
			sigTerm = sigTerm[:nin-1]
			sigsN = nin - 1
			labels = append(labels, "sigs-short")
		case c < 29:
			txn.Sigs = append(txn.Sigs, cipher.Sig{})
			sigTerm = append(sigTerm, "0")
			sigsN = nin + 1
			labels = append(labels, "sigs-long")
		case c < 31:
			txn.In = nil
			labels = append(labels, "no-inputs")
		case c < 33:
			uxs = uxs[:nin-1]
			uxN = nin - 1
			labels = append(labels, "ux-short")
		case c < 35:
			uxs = append(uxs, uxs[0])
			uxN = nin + 1
			labels = append(labels, "ux-long")
		}
		_ = sigsN
		// sign indexes
		var idx []int
		switch c := r.Intn(100); {
		case c < 40:
			labels = append(labels, "idx=all")
		case c < 75:
			for j := 0; j < nin; j++ {
				if r.Chance(50) {
					idx = append(idx, j)
				}
			}
			for a := len(idx) - 1; a > 0; a-- {
				b := r.Intn(a + 1)
				idx[a], idx[b] = idx[b], idx[a]
			}
			labels = append(labels, "idx=subset")
		case c < 82: // exactly the unsigned positions
			for j := 0; j < nin && j < len(txn.Sigs); j++ {
				if txn.Sigs[j].Null() {
					idx = append(idx, j)
				}
			}
			labels = append(labels, "idx=unsigned")
		case c < 87:
			idx = []int{r.Intn(nin), 0}
			idx[1] = idx[0]
			labels = append(labels, "idx=dup")
		case c < 92:
			idx = []int{[]int{nin, nin + 1, -1, 1 << 31, -(1 << 40)}[r.Intn(5)]}
			if r.Bool() {
				idx = append([]int{0}, idx...)
			}
			labels = append(labels, "idx=range")
		case c < 96:
			for j := 0; j <= nin; j++ {
				idx = append(idx, j%nin)
			}
			labels = append(labels, "idx=too-many")
		default:
			for j := 0; j < nin; j++ {
				idx = append(idx, j)
			}
			labels = append(labels, "idx=every")
		}

		// representation of the slice arguments: nil, empty non-nil, or what the API handler's JSON
		// decoding of the request body produces (/api/v2/wallet/transaction/sign: "sign_indexes": [..])
		rep := "idx-rep=as-built"
		switch c := r.Intn(100); {
		case c < 30 && len(idx) == 0:
			idx = []int{}
			rep = "idx-rep=empty-non-nil"
		case c < 45 && len(idx) == 0:
			idx = nil
			rep = "idx-rep=nil"
		case c < 80:
			body := "{\"wallet_id\":\"w\",\"encoded_transaction\":\"00\",\"sign_indexes\":" + strings.Replace(fmt.Sprint(append([]int{}, idx...)), " ", ",", -1) + "}"
			if len(idx) == 0 && r.Chance(30) {
				body = "{\"wallet_id\":\"w\",\"encoded_transaction\":\"00\"}" // field absent
				rep = "idx-rep=json-absent"
			} else if len(idx) == 0 && r.Chance(30) {
				body = "{\"wallet_id\":\"w\",\"encoded_transaction\":\"00\",\"sign_indexes\":null}"
				rep = "idx-rep=json-null"
			} else {
				rep = "idx-rep=json"
			}
			var req api.WalletSignTransactionRequest
			if err := json.Unmarshal([]byte(body), &req); err != nil {
				return fmt.Errorf("decoding %s: %v", body, err)
			}
			if len(req.SignIndexes) != len(idx) {
				return fmt.Errorf("JSON decoding changed the index list")
			}
			idx = req.SignIndexes
		}
		labels = append(labels, rep)
		if len(txn.Sigs) == 0 && r.Bool() {
			txn.Sigs = []cipher.Sig{} // empty, not nil
			labels = append(labels, "sigs-rep=empty-non-nil")
		}
		if len(txn.In) == 0 && r.Bool() {
			txn.In = []cipher.SHA256{}
			labels = append(labels, "ins-rep=empty-non-nil")
		}
		if len(uxs) == 0 {
			uxs = []coin.UxOut{}
		}

		before, errS := txn.Serialize()
		if errS != nil {
			return errS
		}
		innerActual := txn.HashInner()
		var signed *coin.Transaction
		var serr error
		pan := Guard(func() { signed, serr = wallet.SignTransaction(w.w, &txn, idx, uxs) })
		after, _ := txn.Serialize()
		untouched := bytes.Equal(before, after)

		obs, cls := "Panic", "PANIC"
		kept := true
		if !pan {
			if serr != nil {
				cls = errName(serr)
				if strings.HasPrefix(cls, "Transaction is already signed at index") {
					cls = "Transaction is already signed at index"
				}
				obs = "(Val (inl " + strTerm(cls) + "))"
				if cls == "Transaction is already signed at index" {
					obs = "(Val (inl ESAlready))"
				}
			} else {
				cls = "ok"
				// inputs, outputs and inner hash unchanged
				kept = signed.InnerHash == innerActual && len(signed.In) == len(txn.In) && len(signed.Out) == len(txn.Out)
				for j := range signed.In {
					kept = kept && j < len(txn.In) && signed.In[j] == txn.In[j]
				}
				for j := range signed.Out {
					kept = kept && j < len(txn.Out) && signed.Out[j] == txn.Out[j]
				}
				it := []string{}
				for j := range signed.Sigs {
					changed := j >= len(txn.Sigs) || signed.Sigs[j] != txn.Sigs[j]
					ver := false
					if j < len(uxs) && j < len(signed.In) {
						h := cipher.AddSHA256(signed.InnerHash, signed.In[j])
						ver = cipher.VerifyAddressSignedHash(uxs[j].Body.Address, signed.Sigs[j], h) == nil
					}
					it = append(it, Tuple(B(changed), B(signed.Sigs[j].Null()), B(ver)))
				}
				obs = "(Val (inr " + List(it) + "))"
			}
		}
		own := make([]int, len(uxs))
		for j := range uxs {
			own[j] = kr.aid(uxs[j].Body.Address)
		}
		insT := ins
		if txn.In == nil {
			insT = nil
		}
		innerF, innerA := 1, 1 // ids: 1 = hash of the body, 0 = null hash, 2 = anything else
		if txn.InnerHash != innerActual {
			innerF = 2
			if txn.InnerHash.Null() {
				innerF = 0
			}
		}
		wT := fmt.Sprintf("(mk_wallet %s %s %s)", w.kind, B(w.enc), zlist(w.entries))
		tT := fmt.Sprintf("(mk_stx %d %d %s %s [])", innerF, innerA, List(sigTerm), zlist(insT))
		cases = append(cases, Tuple(wT, tT, zlist(idx), zlist(own), obs, B(untouched), B(kept)))
		_ = uxN
		lab := strings.Join(labels, ",")
		short := cls
		if len(short) > 70 {
			short = short[:70]
		}
		cj := map[string]interface{}{"idx": i, "n": n, "case": lab, "n_in": nin, "indexes": fmt.Sprint(idx), "result": short, "input_untouched": untouched, "txn_hex": fmt.Sprintf("%x", before)}
		caseJSON["sign"] = append(caseJSON["sign"], cj)
		o.Count(fmt.Sprint("sign", wT, tT, idx, own), true)
		hist.Add("result:" + short)
		for _, l := range labels {
			hist.Add("case:" + l)
		}
		if len(samples) < 12 && r.Intn(n/10+1) == 0 {
			samples = append(samples, cj)
		}
	}
	o.Def("cases_sign", "wallet * stx * list Z * list Z * R (list (bool * bool * bool)) * bool * bool", sel.keep("sign", cases))
	o.Side["rule"] = "wallets: deterministic, bip44, collection (sharing a key with the deterministic one), xpub (watch-only), encrypted deterministic / collection, empty collection; transactions of 1-6 inputs owned by wallet keys / duplicate owners / keys of other wallets / watch-only or unknown addresses, unsigned / partially signed (by the owner, by somebody else, over another input's message) / fully signed / junk signatures; damaged headers (inner hash, signature array empty / short / long, no inputs, uxOuts short / long); index lists: none, subsets in random order, exactly the unsigned ones, duplicates, out of range, too many. Every case counts (distinct by wallet, transaction shape, indexes and owners)."
	o.Side["distribution"] = hist.Sorted()
	o.Side["samples"] = samples
	o.Side["cases"] = sel.keepJSON(caseJSON)
	return o.Write(f.Out, f.JSON)
}
