// Command c22: correspondence / failing-input search for the gnet receive path
// (property C22): decodeData driven with a persistent buffer exactly as readLoop
// does, convertToMessage on single frames, and a real ConnectionPool fed over
// net.Pipe.
package main

import (
	"bytes"
	"encoding/binary"
	"errors"
	"fmt"
	"io"
	"net"
	"reflect"
	"sort"
	"strings"
	"sync"
	"time"

	. "verif/harness/kit"

	"github.com/skycoin/skycoin/src/cipher"
	"github.com/skycoin/skycoin/src/coin"
	"github.com/skycoin/skycoin/src/daemon"
	"github.com/skycoin/skycoin/src/daemon/gnet"
	"github.com/skycoin/skycoin/src/daemon/pex"
	"github.com/skycoin/skycoin/src/params"
	"github.com/skycoin/skycoin/src/util/logging"
)

func main() { Main(run) }

// ---- status / reason codes shared with Model/Framing.v (status_code)

func errCode(err error) int {
	switch err {
	case nil:
		return 0
	case gnet.ErrDisconnectInvalidMessageLength:
		return 1
	case gnet.ErrDisconnectTruncatedMessageID:
		return 2
	case gnet.ErrDisconnectUnknownMessage:
		return 3
	case gnet.ErrDisconnectMalformedMessage:
		return 4
	case gnet.ErrDisconnectMessageDecodeUnderflow:
		return 5
	}
	return 97
}

// ---- test message types registered next to the daemon's (for the pool runs
// and to exercise the decoder-panic recovery of deserializeMessage)

var (
	handledMu sync.Mutex
	handled   [][]byte
)

type tstMsg struct{ Payload []byte }

func (m *tstMsg) EncodeSize() uint64 { return uint64(4 + len(m.Payload)) }
func (m *tstMsg) Encode(b []byte) error {
	if len(b) < 4+len(m.Payload) {
		return errors.New("short buffer")
	}
	binary.LittleEndian.PutUint32(b, uint32(len(m.Payload)))
	copy(b[4:], m.Payload)
	return nil
}
func (m *tstMsg) Decode(b []byte) (uint64, error) {
	if len(b) < 4 {
		return 0, errors.New("short")
	}
	n := binary.LittleEndian.Uint32(b)
	if uint64(n) > uint64(len(b)-4) {
		return 0, errors.New("short payload")
	}
	m.Payload = append([]byte{}, b[4:4+n]...)
	return uint64(4 + n), nil
}
func (m *tstMsg) Handle(mc *gnet.MessageContext, state interface{}) error {
	fr := make([]byte, 4+4+len(m.Payload))
	copy(fr, "TSTA")
	_ = m.Encode(fr[4:])
	handledMu.Lock()
	handled = append(handled, fr)
	handledMu.Unlock()
	return nil
}

// tstPanic's decoder panics on a first byte 0xFF (index out of range), errors on 0xFE
type tstPanic struct{ X byte }

func (m *tstPanic) EncodeSize() uint64 { return 1 }
func (m *tstPanic) Encode(b []byte) error {
	b[0] = m.X
	return nil
}
func (m *tstPanic) Decode(b []byte) (uint64, error) {
	if len(b) == 0 {
		return 0, errors.New("short")
	}
	if b[0] == 0xFF {
		var e []byte
		_ = e[int(b[0])] // runtime panic
	}
	if b[0] == 0xFE {
		return 0, errors.New("bad")
	}
	m.X = b[0]
	return 1, nil
}
func (m *tstPanic) Handle(mc *gnet.MessageContext, state interface{}) error {
	handledMu.Lock()
	handled = append(handled, []byte{'T', 'S', 'T', 'P', m.X})
	handledMu.Unlock()
	return nil
}

// ---- message handlers: every message the receive path yields is also handed to
// its real Handle + process on a recording daemoner (hook VerifC23Node)

var introPK = cipher.MustPubKeyFromHex("0328c576d3f420e7682058a981173a4b374c7cc5ff55bf394d3cf57059bbe6456a")
var introGenesis = cipher.SumSHA256([]byte("c22 genesis"))

const introUA = "skycoin:0.27.0"

func handlerCfg() daemon.DaemonConfig {
	cfg := daemon.NewDaemonConfig()
	cfg.BlockchainPubkey = introPK
	cfg.GenesisHash = introGenesis
	cfg.Mirror = 0x7fffff01
	cfg.MaxOutgoingMessageLength = 2048
	return cfg
}

var handlerBlocks []coin.SignedBlock
var handlerTxns coin.Transactions

// runHandler: true = Handle + process returned (whatever they decided), false = a panic
func runHandler(m gnet.Message) bool {
	node := &daemon.VerifC23Node{Cfg: handlerCfg(), Blocks: handlerBlocks, Known: handlerTxns}
	for _, t := range handlerTxns {
		node.Unknown = append(node.Unknown, t.Hash())
	}
	return !Guard(func() { _ = node.VerifC23Deliver(m, "112.32.32.14:6000", 1) })
}

// ---- helpers

func encFrame(f []byte) []byte {
	out := make([]byte, 4+len(f))
	binary.LittleEndian.PutUint32(out, uint32(len(f)))
	copy(out[4:], f)
	return out
}

// PB prints a byte string in the packed form of Base/BytesPack.v
func PB(b []byte) string {
	if len(b) == 0 {
		return "[]"
	}
	ws := make([]string, 0, len(b)/7+1)
	for i := 0; i < len(b); i += 7 {
		var v uint64
		for j := 0; j < 7 && i+j < len(b); j++ {
			v |= uint64(b[i+j]) << uint(8*j)
		}
		ws = append(ws, fmt.Sprintf("%d", v))
	}
	return fmt.Sprintf("(B %d [%s]%%uint63)", len(b), strings.Join(ws, "; "))
}

func framesList(fs [][]byte) string {
	it := make([]string, len(fs))
	for i, f := range fs {
		it[i] = PB(f)
	}
	return List(it)
}

func hexs(fs [][]byte) []string {
	out := make([]string, len(fs))
	for i, f := range fs {
		out[i] = fmt.Sprintf("%x", f)
	}
	return out
}

func concat(cs [][]byte) []byte {
	var out []byte
	for _, c := range cs {
		out = append(out, c...)
	}
	return out
}

// split s at the given sorted cut positions, dropping empty pieces (readLoop
// never hands an empty read to decodeData)
func splitAt(s []byte, cuts []int) [][]byte {
	var out [][]byte
	prev := 0
	for _, c := range append(append([]int{}, cuts...), len(s)) {
		if c > prev {
			out = append(out, append([]byte{}, s[prev:c]...))
			prev = c
		}
	}
	return out
}

func randomChunks(r *Rng, s []byte, maxChunk int) [][]byte {
	var out [][]byte
	for i := 0; i < len(s); {
		n := 1 + r.Intn(maxChunk)
		if r.Chance(30) {
			n = 1 + r.Intn(6)
		}
		if i+n > len(s) {
			n = len(s) - i
		}
		out = append(out, append([]byte{}, s[i:i+n]...))
		i += n
	}
	return out
}

// drive decodeData with a persistent buffer exactly as readLoop does
func drive(max int, chunks [][]byte) (delivered [][]byte, rest []byte, code int) {
	buf := &bytes.Buffer{}
	for _, c := range chunks {
		if len(c) == 0 {
			continue
		}
		buf.Write(c)
		var datas [][]byte
		var err error
		if Guard(func() { datas, err = gnet.VerifDecodeData(buf, max) }) {
			return delivered, append([]byte{}, buf.Bytes()...), 98
		}
		if err != nil {
			return delivered, append([]byte{}, buf.Bytes()...), errCode(err)
		}
		delivered = append(delivered, datas...)
	}
	return delivered, append([]byte{}, buf.Bytes()...), 0
}

// feedConn is a net.Conn whose Read hands out the injected reads one by one
// (then io.EOF); the real readLoop runs on top of it
type feedConn struct {
	chunks [][]byte
	i      int
}

type feedAddr struct{}

func (feedAddr) Network() string { return "feed" }
func (feedAddr) String() string  { return "feed:1" }

func (c *feedConn) Read(b []byte) (int, error) {
	if c.i >= len(c.chunks) {
		return 0, io.EOF
	}
	n := copy(b, c.chunks[c.i])
	if n < len(c.chunks[c.i]) {
		c.chunks[c.i] = c.chunks[c.i][n:]
	} else {
		c.i++
	}
	return n, nil
}
func (c *feedConn) Write(b []byte) (int, error)        { return len(b), nil }
func (c *feedConn) Close() error                       { return nil }
func (c *feedConn) LocalAddr() net.Addr                { return feedAddr{} }
func (c *feedConn) RemoteAddr() net.Addr               { return feedAddr{} }
func (c *feedConn) SetDeadline(t time.Time) error      { return nil }
func (c *feedConn) SetReadDeadline(t time.Time) error  { return nil }
func (c *feedConn) SetWriteDeadline(t time.Time) error { return nil }

// drive the REAL readLoop (bufio reader, conn.Buffer handling, decodeData,
// hand-over to the message channel) with the given reads; every read is at most
// 1024 bytes so that it reaches decodeData as one piece
func driveReadLoop(max int, chunks [][]byte) (delivered [][]byte, rest []byte, code int) {
	cfg := gnet.NewConfig()
	cfg.MaxIncomingMessageLength = max
	cfg.ReadTimeout = 0
	pool, err := gnet.NewConnectionPool(cfg, nil)
	if err != nil {
		panic(err)
	}
	total := 0
	cp := make([][]byte, 0, len(chunks))
	for _, c := range chunks {
		if len(c) > 0 {
			cp = append(cp, append([]byte{}, c...))
			total += len(c)
		}
	}
	conn := gnet.NewConnection(pool, 1, &feedConn{chunks: cp}, 1, false)
	msgC := make(chan []byte, total/8+4) // never full: a frame takes at least 8 bytes
	qc := make(chan struct{})
	var rerr error
	if Guard(func() { rerr = pool.VerifReadLoop(conn, msgC, qc) }) {
		code = 98
	} else if re, ok := rerr.(*gnet.ReadError); ok && re.Err == io.EOF {
		code = 0 // all reads consumed
	} else {
		code = errCode(rerr)
		if code == 0 {
			code = 97
		}
	}
	for {
		select {
		case d, ok := <-msgC:
			if !ok {
				return delivered, append([]byte{}, conn.Buffer.Bytes()...), code
			}
			delivered = append(delivered, d)
		default:
			return delivered, append([]byte{}, conn.Buffer.Bytes()...), code
		}
	}
}

func sameObs(d1 [][]byte, r1 []byte, c1 int, d2 [][]byte, r2 []byte, c2 int) bool {
	if c1 != c2 || len(d1) != len(d2) || !bytes.Equal(r1, r2) {
		return false
	}
	for i := range d1 {
		if !bytes.Equal(d1[i], d2[i]) {
			return false
		}
	}
	return true
}

// large frames are not printed byte by byte: payload = genBytes(seed, n)
// (the same generator is defined in Corr/C22_*.v), observed frames are
// projected to (length, fingerprint)
func genBytes(seed uint32, n int) []byte {
	b := make([]byte, n)
	x := seed
	for i := range b {
		x = x*1664525 + 1013904223
		b[i] = byte(x >> 24)
	}
	return b
}

const fpMod = 72057594037927931 // 2^56 - 5

func fingerprint(b []byte) uint64 {
	var h uint64
	for _, x := range b {
		h = (h*31 + uint64(x) + 1) % fpMod // h < 2^56: no overflow
	}
	return h
}

func lenFp(fs [][]byte) string {
	it := make([]string, len(fs))
	for i, f := range fs {
		it[i] = Tuple(fmt.Sprint(len(f)), fmt.Sprint(fingerprint(f)))
	}
	return List(it)
}

// decoder oracle for one frame: what the registered type's Decode does on the body
func oracle(frame []byte) (string, string) {
	if len(frame) < 4 {
		return "DecErr", "short"
	}
	var id gnet.MessagePrefix
	copy(id[:], frame[:4])
	t, ok := gnet.MessageIDReverseMap[id]
	if !ok {
		return "DecErr", "unknown"
	}
	v := reflect.New(t)
	s, ok := v.Interface().(gnet.Serializer)
	if !ok {
		return "DecErr", "noserializer"
	}
	var used uint64
	var err error
	if Guard(func() { used, err = s.Decode(frame[4:]) }) {
		return "DecPanic", "panic"
	}
	if err != nil {
		return "DecErr", "err"
	}
	if used == uint64(len(frame)-4) {
		return fmt.Sprintf("(DecOk %d)", used), "exact"
	}
	return fmt.Sprintf("(DecOk %d)", used), "partial"
}

// ---- generators of real daemon messages

func randHash(r *Rng) cipher.SHA256 {
	var h cipher.SHA256
	copy(h[:], r.Bytes(32))
	return h
}

func randTxn(r *Rng) coin.Transaction {
	t := coin.Transaction{Type: 0, InnerHash: randHash(r)}
	t.Length = uint32(r.Intn(1000))
	for i, n := 0, r.Intn(3); i < n; i++ {
		var s cipher.Sig
		copy(s[:], r.Bytes(65))
		t.Sigs = append(t.Sigs, s)
		t.In = append(t.In, randHash(r))
	}
	for i, n := 0, r.Intn(3); i < n; i++ {
		var a cipher.Address
		a.Version = byte(r.Intn(2))
		copy(a.Key[:], r.Bytes(20))
		t.Out = append(t.Out, coin.TransactionOutput{Address: a, Coins: r.U64Edge(), Hours: r.U64Edge()})
	}
	return t
}

func randBlock(r *Rng) coin.SignedBlock {
	var b coin.SignedBlock
	b.Head.Version = uint32(r.Intn(3))
	b.Head.Time = r.U64Edge()
	b.Head.BkSeq = r.U64Edge()
	b.Head.Fee = r.U64Edge()
	b.Head.PrevHash = randHash(r)
	b.Head.BodyHash = randHash(r)
	b.Head.UxHash = randHash(r)
	for i, n := 0, r.Intn(3); i < n; i++ {
		b.Body.Transactions = append(b.Body.Transactions, randTxn(r))
	}
	copy(b.Sig[:], r.Bytes(65))
	return b
}

func randMessage(r *Rng, hist Hist) gnet.Message {
	const big = 1 << 20
	switch r.Intn(14) {
	case 0:
		hist.Add("msg:PING")
		return &daemon.PingMessage{}
	case 1:
		hist.Add("msg:PONG")
		return &daemon.PongMessage{}
	case 2:
		hist.Add("msg:GETP")
		return daemon.NewGetPeersMessage()
	case 3:
		hist.Add("msg:GIVP")
		var ps []pex.Peer
		for i, n := 0, r.Intn(5); i < n; i++ {
			ps = append(ps, pex.Peer{Addr: fmt.Sprintf("%d.%d.%d.%d:%d", 1+r.Intn(250), r.Intn(256), r.Intn(256), 1+r.Intn(250), 1+r.Intn(65000))})
		}
		return daemon.NewGivePeersMessage(ps, big)
	case 4:
		hist.Add("msg:GETB")
		return daemon.NewGetBlocksMessage(r.U64Edge(), r.U64Edge())
	case 5:
		hist.Add("msg:GIVB")
		var bs []coin.SignedBlock
		for i, n := 0, r.Intn(3); i < n; i++ {
			bs = append(bs, randBlock(r))
		}
		return daemon.NewGiveBlocksMessage(bs, big)
	case 6:
		hist.Add("msg:ANNB")
		return daemon.NewAnnounceBlocksMessage(r.U64Edge())
	case 7:
		hist.Add("msg:GETT")
		var hs []cipher.SHA256
		for i, n := 0, r.Intn(4); i < n; i++ {
			hs = append(hs, randHash(r))
		}
		return daemon.NewGetTxnsMessage(hs, big)
	case 8:
		hist.Add("msg:GIVT")
		var ts []coin.Transaction
		for i, n := 0, r.Intn(3); i < n; i++ {
			ts = append(ts, randTxn(r))
		}
		return daemon.NewGiveTxnsMessage(ts, big)
	case 9:
		hist.Add("msg:ANNT")
		var hs []cipher.SHA256
		for i, n := 0, r.Intn(4); i < n; i++ {
			hs = append(hs, randHash(r))
		}
		return daemon.NewAnnounceTxnsMessage(hs, big)
	case 10:
		hist.Add("msg:DISC")
		return daemon.NewDisconnectMessage(daemon.ErrDisconnectIdle)
	case 11:
		hist.Add("msg:INTR")
		var pk cipher.PubKey
		copy(pk[:], r.Bytes(33))
		gh := randHash(r)
		if r.Bool() { // the pubkey / genesis hash the receiving node is configured with
			pk, gh = introPK, introGenesis
		}
		return daemon.NewIntroductionMessage(uint32(r.U64()), int32(r.Intn(5)), uint16(r.Intn(65536)), pk,
			introUA, params.VerifyTxn{BurnFactor: 10, MaxTransactionSize: 32768, MaxDropletPrecision: 3}, gh)
	case 12:
		hist.Add("msg:TSTA")
		return &tstMsg{Payload: r.Bytes(r.Intn(12))}
	default:
		hist.Add("msg:TSTP")
		return &tstPanic{X: byte(r.Intn(250))}
	}
}

func encodeMsg(m gnet.Message) []byte {
	b, err := gnet.EncodeMessage(m)
	if err != nil {
		panic(err)
	}
	return b
}

// ---- pool over net.Pipe

type poolResult struct {
	handled [][]byte
	code    int
	hang    bool
	text    string // diagnostic only, never compared
}

func drivePool(max int, chunks [][]byte, expectDisconnect bool) poolResult {
	handledMu.Lock()
	handled = nil
	handledMu.Unlock()

	cfg := gnet.NewConfig()
	cfg.MaxIncomingMessageLength = max
	cfg.ReadTimeout = 5 * time.Second
	reasonC := make(chan gnet.DisconnectReason, 4)
	cfg.DisconnectCallback = func(addr string, id uint64, reason gnet.DisconnectReason) {
		select {
		case reasonC <- reason:
		default:
		}
	}
	pool, err := gnet.NewConnectionPool(cfg, nil)
	if err != nil {
		panic(err)
	}
	offDone := make(chan struct{})
	go func() { _ = pool.RunOffline(); close(offDone) }()

	a, b := net.Pipe()
	hcDone := make(chan struct{})
	go func() { _ = pool.VerifHandleConnection(b, false); close(hcDone) }()

	res := poolResult{}
	var reason gnet.DisconnectReason
	got := false
	for _, c := range chunks {
		_ = a.SetWriteDeadline(time.Now().Add(3 * time.Second))
		if _, err := a.Write(c); err != nil {
			break
		}
	}
	if expectDisconnect {
		select {
		case reason = <-reasonC:
			got = true
		case <-time.After(4 * time.Second):
		}
	}
	_ = a.Close()
	select {
	case <-hcDone:
	case <-time.After(8 * time.Second):
		res.hang = true
	}
	if !got {
		select {
		case reason = <-reasonC:
			got = true
		case <-time.After(2 * time.Second):
		}
	}
	pool.Shutdown()
	<-offDone

	handledMu.Lock()
	res.handled = append([][]byte{}, handled...)
	handledMu.Unlock()
	switch {
	case res.hang:
		res.code = 96
	case !got:
		res.code = 95
	default:
		res.text = fmt.Sprint(reason)
		if _, ok := reason.(*gnet.ReadError); ok || reason == gnet.ErrDisconnectSetReadDeadlineFailed {
			res.code = 0 // our end closed the pipe after everything was written (EOF, or the deadline call on the closed pipe)
		} else {
			res.code = errCode(reason)
		}
	}
	return res
}

func run(args []string) error {
	f := ParseFlags("c22", args)
	logging.Disable()
	r := NewRng(f.Seed)
	n := f.Budget(60, 600)
	thorough := f.Tier == "thorough" || f.Tier == "search"
	o := NewOut()
	hist := Hist{}
	caseJSON := map[string][]map[string]interface{}{}
	var samples []map[string]interface{}

	// registry: dump the daemon's table before adding the harness's own types
	mc := daemon.NewMessagesConfig()
	mc.Register()
	var table [][]byte
	for id := range gnet.MessageIDReverseMap {
		table = append(table, append([]byte{}, id[:]...))
	}
	sort.Slice(table, func(i, j int) bool { return bytes.Compare(table[i], table[j]) < 0 })
	gnet.RegisterMessage(gnet.MessagePrefixFromString("TSTA"), tstMsg{})
	gnet.RegisterMessage(gnet.MessagePrefixFromString("TSTP"), tstPanic{})
	gnet.VerifyMessages()
	o.Raw("Definition obs_table : list bytes := " + framesList(table) + ".\n")
	o.Raw("Definition test_ids : list bytes := " + framesList([][]byte{[]byte("TSTA"), []byte("TSTP")}) + ".\n")
	o.Raw(fmt.Sprintf("Definition obs_consts : list (Z * Z) := [(%d, %d)].\n", gnet.VerifMessagePrefixLength, gnet.VerifMessageLengthPrefixSize))
	caseJSON["table"] = []map[string]interface{}{{"ids": hexs(table)}}
	caseJSON["consts"] = []map[string]interface{}{{"messagePrefixLength": gnet.VerifMessagePrefixLength, "messageLengthPrefixSize": gnet.VerifMessageLengthPrefixSize}}

	// ------------------------------------------------------------ streams
	var streams []string
	var deliveredFrames [][]byte
	deliveredSeen := map[string]bool{}
	maxDelivered := 150
	if thorough {
		maxDelivered = 3000
	}
	addStream := func(kind int, max int, chunks [][]byte, intended [][]byte, what string) {
		d, rest, code := drive(max, chunks)
		for _, fr := range d {
			var id gnet.MessagePrefix
			copy(id[:], fr)
			_, known := gnet.MessageIDReverseMap[id]
			if k := string(fr); len(deliveredFrames) < maxDelivered && !deliveredSeen[k] && (known || len(deliveredFrames) < 20) {
				deliveredSeen[k] = true
				deliveredFrames = append(deliveredFrames, fr)
			}
		}
		// the same reads through the real readLoop; printed only when it differs from
		// what decodeData over a persistent buffer gave (None = byte-identical observation)
		d2, rest2, code2 := driveReadLoop(max, chunks)
		obs2 := "None"
		same := sameObs(d, rest, code, d2, rest2, code2)
		if !same {
			obs2 = Some(Tuple(framesList(d2), PB(rest2), fmt.Sprint(code2)))
		}
		streams = append(streams, Tuple(fmt.Sprint(kind), fmt.Sprint(max), framesList(chunks), framesList(intended),
			Tuple(framesList(d), PB(rest), fmt.Sprint(code)), obs2))
		cj := map[string]interface{}{"kind": kind, "max": max, "chunks": hexs(chunks), "intended_frames": hexs(intended),
			"delivered": hexs(d), "buffer_left": fmt.Sprintf("%x", rest), "status": code, "what": what,
			"readloop_same_as_decodeData": same}
		if !same {
			cj["readloop_delivered"] = hexs(d2)
			cj["readloop_buffer_left"] = fmt.Sprintf("%x", rest2)
			cj["readloop_status"] = code2
		}
		caseJSON["stream"] = append(caseJSON["stream"], cj)
		o.Count(fmt.Sprint("stream", max, hexs(chunks)), len(d) > 0 || code != 0)
		hist.Add(fmt.Sprintf("stream:%s:status%d", what, code))
		hist.Add(fmt.Sprintf("stream:chunks%s", bucket(len(chunks))))
		if len(samples) < 6 && r.Intn(50) == 0 {
			samples = append(samples, cj)
		}
	}
	smallFrame := func(max int) []byte {
		// acceptable lengths 4..max, biased to the two boundaries
		l := 4
		switch r.Intn(4) {
		case 0:
			l = 4
		case 1:
			l = max
		default:
			l = 4 + r.Intn(max-3)
		}
		return r.Bytes(l)
	}
	// (a) short well-formed streams x ALL two-way (thorough: three-way) splits
	for i := 0; i < n; i++ {
		max := 4 + r.Intn(9)
		if r.Chance(15) {
			max = 1024 * 1024
		}
		nf := 1 + r.Intn(3)
		var fs [][]byte
		var s []byte
		for j := 0; j < nf; j++ {
			m := max
			if m > 12 {
				m = 12
			}
			fr := smallFrame(m)
			fs = append(fs, fr)
			s = append(s, encFrame(fr)...)
		}
		for c1 := 0; c1 <= len(s); c1++ {
			addStream(0, max, splitAt(s, []int{c1}), fs, "split2")
		}
		if thorough && i%4 == 0 {
			for c1 := 1; c1 < len(s); c1++ {
				for c2 := c1 + 1; c2 < len(s); c2++ {
					addStream(0, max, splitAt(s, []int{c1, c2}), fs, "split3")
				}
			}
		}
	}
	// (b) the shape of F17, explicitly: complete frame + k >= 5 bytes of the next one in one read
	{
		f1, f2 := []byte("ABCDE"), []byte("FGHIJK")
		s := append(encFrame(f1), encFrame(f2)...)
		for k := 1; k < len(encFrame(f2)); k++ {
			addStream(0, 1024, splitAt(s, []int{len(encFrame(f1)) + k}), [][]byte{f1, f2}, "f17shape")
		}
	}
	// (c) long streams of real encoded messages, random chunkings (reads of up to 1024 bytes)
	nl := n / 2
	for i := 0; i < nl; i++ {
		max := 1024 * 1024
		var fs [][]byte
		var s []byte
		for j, k := 0, 1+r.Intn(8); j < k && len(s) < 1500; j++ {
			e := encodeMsg(randMessage(r, hist))
			fs = append(fs, append([]byte{}, e[4:]...))
			s = append(s, e...)
		}
		mc := 1024
		if r.Chance(50) {
			mc = 1 + r.Intn(40)
		}
		addStream(0, max, randomChunks(r, s, mc), fs, "messages")
	}
	// (d) garbage: valid frames mixed with bad lengths, truncated tails, random bytes
	for i := 0; i < 2*n; i++ {
		max := 4 + r.Intn(12)
		if r.Chance(10) {
			max = r.Intn(4) // no acceptable length at all
		}
		var s []byte
		for j, k := 0, r.Intn(5); j < k; j++ {
			switch r.Intn(8) {
			case 0: // length below the minimum
				s = append(s, encFrame(r.Bytes(r.Intn(4)))...)
			case 1: // length just above the maximum
				s = append(s, encFrame(r.Bytes(max+1+r.Intn(2)))...)
			case 2: // huge length
				h := make([]byte, 4)
				binary.LittleEndian.PutUint32(h, uint32(r.Pick64([]uint64{0xFFFFFFFF, 0x80000000, 0x7FFFFFFF, 1 << 24})))
				s = append(s, h...)
				s = append(s, r.Bytes(r.Intn(6))...)
			case 3: // random bytes
				s = append(s, r.Bytes(r.Intn(9))...)
			default:
				if max >= 4 {
					s = append(s, encFrame(smallFrame(max))...)
				}
			}
		}
		if r.Chance(40) && len(s) > 0 { // truncated tail
			s = s[:len(s)-r.Intn(len(s))]
		}
		if len(s) == 0 {
			s = r.Bytes(1 + r.Intn(6))
		}
		var chunks [][]byte
		switch r.Intn(3) {
		case 0:
			chunks = [][]byte{s}
		case 1:
			chunks = splitAt(s, []int{r.Intn(len(s) + 1)})
		default:
			chunks = randomChunks(r, s, 7)
		}
		addStream(1, max, chunks, nil, "garbage")
		if len(s) <= 24 && i%5 == 0 { // and every two-way split of some of them
			for c1 := 1; c1 < len(s); c1++ {
				addStream(1, max, splitAt(s, []int{c1}), nil, "garbage-split2")
			}
		}
	}
	o.Def("cases_stream", "Z * Z * list bytes * list bytes * (list bytes * bytes * Z) * option (list bytes * bytes * Z)", streams)

	// ------------------------------------------------------------ convert
	for i := 0; i < 3; i++ {
		handlerBlocks = append(handlerBlocks, randBlock(r))
		handlerTxns = append(handlerTxns, randTxn(r))
	}
	var convs []string
	addConv := func(frame []byte, what string, valid bool) {
		orc, ocl := oracle(frame)
		var m gnet.Message
		var err error
		code := 0
		if Guard(func() { m, err = gnet.VerifConvertToMessage(1, frame) }) {
			code = 98
		} else {
			code = errCode(err)
		}
		same := true
		if code == 0 && valid {
			same = false
			Guard(func() {
				e, err2 := gnet.EncodeMessage(m)
				same = err2 == nil && bytes.Equal(e, encFrame(frame))
			})
		}
		// a frame that converts to a message goes on to the message's real Handle + process
		handlerOK := true
		if code == 0 && m != nil {
			handlerOK = runHandler(m)
			hist.Add(fmt.Sprintf("handler:%T:%s", m, map[bool]string{true: "returned", false: "PANIC"}[handlerOK]))
		}
		convs = append(convs, Tuple(PB(frame), orc, fmt.Sprint(code), B(same), B(handlerOK)))
		cj := map[string]interface{}{"frame": fmt.Sprintf("%x", frame), "decoder": orc, "result": code, "reencodes_equal": same, "what": what,
			"handler_returned_without_panic": handlerOK}
		caseJSON["convert"] = append(caseJSON["convert"], cj)
		o.Count("conv"+fmt.Sprintf("%x", frame), true)
		hist.Add(fmt.Sprintf("convert:%s:%s:result%d", what, ocl, code))
		if len(samples) < 12 && r.Intn(40) == 0 {
			samples = append(samples, cj)
		}
	}
	for i := 0; i < 6*n; i++ {
		fr := encodeMsg(randMessage(r, hist))[4:]
		addConv(fr, "valid", true)
		switch r.Intn(8) {
		case 0:
			addConv(append(append([]byte{}, fr...), r.Bytes(1+r.Intn(4))...), "trailing", false)
		case 1:
			if len(fr) > 4 {
				addConv(fr[:4+r.Intn(len(fr)-4)], "truncated-body", false)
			}
		case 2:
			g := append([]byte{}, fr...)
			g[r.Intn(4)] ^= byte(1 << uint(r.Intn(8)))
			addConv(g, "id-bitflip", false)
		case 3:
			addConv(fr[:r.Intn(4)], "short", false)
		case 4:
			g := append([]byte{}, fr[:4]...)
			addConv(append(g, r.Bytes(r.Intn(40))...), "random-body", false)
		case 5:
			if len(fr) > 4 {
				g := append([]byte{}, fr...)
				g[4+r.Intn(len(g)-4)] = byte(r.Pick64([]uint64{0, 1, 0x7f, 0x80, 0xff}))
				addConv(g, "body-byte", false)
			}
		case 6:
			addConv([]byte{'T', 'S', 'T', 'P', byte(r.Pick64([]uint64{0xFF, 0xFE, 1}))}, "decoder-panic", false)
		default:
			addConv(r.Bytes(r.Intn(12)), "random", false)
		}
	}
	// frames delivered by the stream runs above (valid sequences and garbage streams)
	for _, fr := range deliveredFrames {
		addConv(fr, "delivered-in-stream", false)
	}
	// well-formed frames with adversarial bodies
	for _, fr := range adversarialFrames(r, thorough) {
		addConv(fr, "adversarial-body", false)
	}
	o.Def("cases_convert", "bytes * decoded * Z * bool * bool", convs)

	// ------------------------------------------------------------ pool over net.Pipe
	var pools []string
	np := 6
	if thorough {
		np = 40
	}
	for i := 0; i < np; i++ {
		max := 64 + r.Intn(64)
		nf := 1 + r.Intn(10)
		fault := -1
		if i%2 == 1 {
			fault = r.Intn(nf + 1)
		}
		var frames [][]byte
		var s []byte
		what := "valid"
		for j := 0; j < nf; j++ {
			var fr []byte
			if r.Chance(80) {
				fr = encodeMsg(&tstMsg{Payload: r.Bytes(r.Intn(20))})[4:]
			} else {
				fr = encodeMsg(&tstPanic{X: byte(r.Intn(200))})[4:]
			}
			if j == fault {
				switch r.Intn(4) {
				case 0:
					fr = append(fr, 7) // trailing byte
					what = "trailing"
				case 1:
					fr = append([]byte("XXXX"), fr[4:]...) // unknown id
					what = "unknown-id"
				case 2:
					fr = []byte{'T', 'S', 'T', 'P', 0xFF} // decoder panics
					what = "decoder-panic"
				default:
					fr = []byte{'T', 'S', 'T', 'A', 9, 0, 0, 0, 1} // payload longer than the body
					what = "undecodable"
				}
			}
			frames = append(frames, fr)
			s = append(s, encFrame(fr)...)
			if j == fault {
				break // nothing after the faulty frame: which error wins would depend on goroutine timing
			}
		}
		if fault == nf { // bad length prefix after the valid frames
			if r.Bool() {
				s = append(s, encFrame(r.Bytes(r.Intn(4)))...)
			} else {
				s = append(s, encFrame(r.Bytes(max+1))...)
			}
			s = append(s, 0)
			what = "bad-length"
		}
		chunks := randomChunks(r, s, 48)
		// a panic in the pool's receive goroutine would kill the harness: probe
		// convertToMessage on each frame first and record the panic as the observable
		var res poolResult
		probePanic := false
		for _, fr := range frames {
			fr := fr
			if Guard(func() { _, _ = gnet.VerifConvertToMessage(1, fr) }) {
				probePanic = true
			}
		}
		if probePanic {
			res = poolResult{code: 98, text: "convertToMessage panicked"}
		} else {
			res = drivePool(max, chunks, fault >= 0)
		}
		var fds []string
		for _, fr := range frames {
			orc, _ := oracle(fr)
			fds = append(fds, Tuple(PB(fr), orc))
		}
		pools = append(pools, Tuple(fmt.Sprint(max), framesList(chunks), List(fds), fmt.Sprint(fault),
			Tuple(framesList(res.handled), fmt.Sprint(res.code))))
		cj := map[string]interface{}{"max": max, "chunks": hexs(chunks), "frames": hexs(frames), "fault_index": fault,
			"handled": hexs(res.handled), "disconnect_code": res.code, "what": what, "reason_text": res.text}
		caseJSON["pool"] = append(caseJSON["pool"], cj)
		o.Count(fmt.Sprint("pool", hexs(chunks)), true)
		hist.Add(fmt.Sprintf("pool:%s:code%d", what, res.code))
	}
	o.Def("cases_pool", "Z * list bytes * list (bytes * decoded) * Z * (list bytes * Z)", pools)

	// ------------------------------------------------------------ large frames through the real readLoop and the real pool
	// a frame above 32 KiB followed at once by further frames, the frame boundary inside a read
	var bigs []string
	nb := 5
	if thorough {
		nb = 40
	}
	for i := 0; i < nb; i++ {
		max := 512 * 1024
		type fspec struct {
			seed uint32
			n    int
		}
		var specs []fspec
		nf := 2 + r.Intn(4)
		bigAt := r.Intn(nf - 1) // never the last frame: something must follow the large one
		for j := 0; j < nf; j++ {
			n := r.Intn(40)
			if r.Chance(30) {
				n = 200 + r.Intn(3000)
			}
			if j == bigAt || (thorough && r.Chance(15)) {
				n = 33*1024 + r.Intn(50*1024)
				if thorough && r.Chance(25) {
					n = 100*1024 + r.Intn(200*1024)
				}
			}
			specs = append(specs, fspec{uint32(r.U64()), n})
		}
		var frames [][]byte
		var s []byte
		var ends []int
		for _, sp := range specs {
			fr := encodeMsg(&tstMsg{Payload: genBytes(sp.seed, sp.n)})[4:]
			frames = append(frames, fr)
			s = append(s, encFrame(fr)...)
			ends = append(ends, len(s))
		}
		// reads of at most 1024 bytes; a frame end is never a read boundary unless it is the end of the stream
		var chunks [][]byte
		for pos := 0; pos < len(s); {
			n := 1 + r.Intn(1024)
			if r.Chance(60) {
				n = 1024
			}
			if pos+n > len(s) {
				n = len(s) - pos
			}
			for _, e := range ends {
				if pos+n == e && e != len(s) {
					if n > 1 {
						n--
					} else {
						n++
					}
				}
			}
			chunks = append(chunks, append([]byte{}, s[pos:pos+n]...))
			pos += n
		}
		d, rest, code := driveReadLoop(max, chunks)
		res := drivePool(max, chunks, false)
		var fsp, lens []string
		for _, sp := range specs {
			fsp = append(fsp, Tuple(fmt.Sprint(sp.seed), fmt.Sprint(sp.n)))
		}
		for _, c := range chunks {
			lens = append(lens, fmt.Sprint(len(c)))
		}
		bigs = append(bigs, Tuple(fmt.Sprint(max), List(fsp), rle64(lens),
			Tuple(lenFp(d), fmt.Sprint(len(rest)), fmt.Sprint(code)),
			Tuple(lenFp(res.handled), fmt.Sprint(res.code))))
		sizes := make([]int, len(specs))
		for j, sp := range specs {
			sizes[j] = sp.n
		}
		cj := map[string]interface{}{"max": max, "payload_sizes": sizes, "payload_seeds": fsp, "read_sizes": lens,
			"readloop_delivered_len_fp": lenFp(d), "readloop_buffer_left_len": len(rest), "readloop_status": code,
			"pool_handled_len_fp": lenFp(res.handled), "pool_disconnect_code": res.code, "pool_reason_text": res.text,
			"what": "frame = 'TSTA' ++ le32(n) ++ genBytes(seed, n), genBytes: x = x*1664525+1013904223 (uint32), byte = x>>24"}
		caseJSON["big"] = append(caseJSON["big"], cj)
		o.Count(fmt.Sprint("big", sizes, lens), true)
		hist.Add(fmt.Sprintf("big:frames%d:readloop%d:pool%d", len(specs), code, res.code))
	}
	o.Def("cases_big", "Z * list (Z * Z) * list (Z * Z) * (list (Z * Z) * Z * Z) * (list (Z * Z) * Z)", bigs)

	o.Side["cases"] = caseJSON
	o.Side["samples"] = samples
	o.Side["distribution"] = hist.Sorted()
	o.Side["rule"] = "stream case = (max, chunk list) fed to decodeData through one persistent bytes.Buffer as readLoop does; non-trivial = at least one frame delivered or a disconnect; convert case = one frame through convertToMessage with the decoder's own verdict as oracle; pool case = chunks written to a net.Pipe served by ConnectionPool.handleConnection, observable = frames handled in order + disconnect reason"
	return o.Write(f.Out, f.JSON)
}

// run-length encoding of a list of numbers: (value, repeat count)
func rle64(xs []string) string {
	var it []string
	for i := 0; i < len(xs); {
		j := i
		for j < len(xs) && xs[j] == xs[i] {
			j++
		}
		it = append(it, Tuple(xs[i], fmt.Sprint(j-i)))
		i = j
	}
	return List(it)
}

// adversarialFrames: frames whose length prefix and message id are fine and whose
// body has every cheaply built length-valid shape
func adversarialFrames(r *Rng, thorough bool) [][]byte {
	var out [][]byte
	add := func(m gnet.Message) {
		var b []byte
		if !Guard(func() { b = encodeMsg(m) }) && len(b) >= 8 {
			out = append(out, b[4:])
		}
	}
	raw := func(id string, body []byte) { out = append(out, append([]byte(id), body...)) }
	le32 := func(n uint32) []byte { b := make([]byte, 4); binary.LittleEndian.PutUint32(b, n); return b }

	// INTR: Extra of every length: all prefixes of a valid Extra (ends right after the
	// pubkey, the verify params, the user agent, inside / after the genesis hash ...),
	// valid Extra plus trailing bytes, broken and empty user agents
	vp := params.VerifyTxn{BurnFactor: 10, MaxTransactionSize: 32768, MaxDropletPrecision: 3}
	full := daemon.NewIntroductionMessage(1, 2, 6000, introPK, introUA, vp, introGenesis).Extra
	for _, ver := range []int32{2, 0} {
		for l := 0; l <= len(full); l++ {
			add(&daemon.IntroductionMessage{Mirror: 77, ListenPort: 6000, ProtocolVersion: ver, Extra: append([]byte{}, full[:l]...)})
		}
		if !thorough {
			break
		}
	}
	for extra := 1; extra <= 40; extra += 3 {
		add(&daemon.IntroductionMessage{Mirror: 77, ListenPort: 6000, ProtocolVersion: 2, Extra: append(append([]byte{}, full...), r.Bytes(extra)...)})
	}
	uaOff := 33 + 9
	for _, ua := range []string{"", "x", "skycoin:0.27", "skycoin:0.27.0(", "\x00\x01", string(r.Bytes(20))} {
		e := append([]byte{}, full[:uaOff]...)
		e = append(e, le32(uint32(len(ua)))...)
		e = append(e, ua...)
		for _, tail := range [][]byte{nil, introGenesis[:], introGenesis[:31], r.Bytes(33)} {
			add(&daemon.IntroductionMessage{Mirror: 77, ListenPort: 6000, ProtocolVersion: 2, Extra: append(append([]byte{}, e...), tail...)})
		}
	}
	for _, n := range []uint32{0, 1, 13, 14, 15, 255, 256, 257, 0xFFFFFFFF} { // user agent length prefix not matching
		e := append([]byte{}, full[:uaOff]...)
		e = append(e, le32(n)...)
		e = append(e, introUA...)
		e = append(e, introGenesis[:]...)
		add(&daemon.IntroductionMessage{Mirror: 77, ListenPort: 6000, ProtocolVersion: 2, Extra: e})
	}
	for l := 0; l <= 80; l += 1 { // Extra of every length 0..80 of arbitrary bytes, and with only the pubkey right
		add(&daemon.IntroductionMessage{Mirror: 78, ListenPort: 1, ProtocolVersion: 2, Extra: r.Bytes(l)})
		if l >= 33 {
			add(&daemon.IntroductionMessage{Mirror: 78, ListenPort: 1, ProtocolVersion: 2, Extra: append(append([]byte{}, introPK[:]...), r.Bytes(l-33)...)})
		}
	}
	add(&daemon.IntroductionMessage{Mirror: 0x7fffff01, ListenPort: 6000, ProtocolVersion: 2, Extra: full}) // our own mirror
	raw("INTR", []byte{1, 0, 0, 0, 2, 0, 3, 0, 0, 0})                                                          // no Extra field at all (omitempty)

	// slice messages: zero / one / maximum / maximum+1 counts, count prefix without data
	hashes := func(n int) []cipher.SHA256 {
		hs := make([]cipher.SHA256, n)
		for i := range hs {
			hs[i] = randHash(r)
		}
		return hs
	}
	// (maximum+1 and the second copy of the large ones only in the thorough tier: they dominate the data volume)
	pick := func(quick, all []int) []int {
		if thorough {
			return all
		}
		return quick
	}
	for _, n := range pick([]int{0, 1, 256}, []int{0, 1, 255, 256, 257}) {
		add(&daemon.GetTxnsMessage{Transactions: hashes(n)})
		if thorough || n < 256 {
			add(&daemon.AnnounceTxnsMessage{Transactions: hashes(n)})
		}
	}
	for _, n := range pick([]int{0, 1, 512}, []int{0, 1, 511, 512, 513}) {
		ps := make([]daemon.IPAddr, n)
		for i := range ps {
			ps[i] = daemon.IPAddr{IP: uint32(r.U64()), Port: uint16(r.Intn(65536))}
		}
		add(&daemon.GivePeersMessage{Peers: ps})
	}
	add(&daemon.GivePeersMessage{Peers: []daemon.IPAddr{{IP: 0, Port: 0}, {IP: 0xFFFFFFFF, Port: 65535}, {IP: 0x7F000001, Port: 80}}})
	for _, n := range pick([]int{0, 1, 2, 128}, []int{0, 1, 2, 128, 129}) {
		bs := make([]coin.SignedBlock, n)
		for i := range bs {
			if n <= 2 {
				bs[i] = randBlock(r)
			}
		}
		add(&daemon.GiveBlocksMessage{Blocks: bs})
	}
	for _, n := range pick([]int{0, 1, 2, 256}, []int{0, 1, 2, 256, 257}) {
		ts := make([]coin.Transaction, n)
		for i := range ts {
			if n <= 2 {
				ts[i] = randTxn(r)
			}
		}
		add(&daemon.GiveTxnsMessage{Transactions: ts})
	}
	for _, id := range []string{"GIVP", "GIVB", "GIVT", "GETT", "ANNT"} {
		for _, n := range []uint32{0, 1, 2, 128, 256, 512, 0x7FFFFFFF, 0xFFFFFFFF} {
			raw(id, le32(n)) // count prefix, no items
			raw(id, append(le32(n), r.Bytes(32)...))
		}
	}
	for _, v := range []uint64{0, 1, 1 << 31, 1<<63 - 1, 1 << 63, ^uint64(0)} {
		add(daemon.NewGetBlocksMessage(v, ^v))
		add(daemon.NewGetBlocksMessage(^v, v))
		add(daemon.NewAnnounceBlocksMessage(v))
	}
	for _, n := range []int{0, 1, 7, 64} {
		raw("DISC", append(append([]byte{byte(r.Intn(256)), byte(r.Intn(40))}, le32(uint32(n))...), r.Bytes(n)...))
	}
	for code := 0; code < 40; code++ {
		raw("DISC", append([]byte{byte(code), 0}, le32(0)...))
	}
	raw("PING", nil)
	raw("PONG", nil)
	raw("GETP", nil)
	return out
}

func bucket(n int) string {
	switch {
	case n <= 1:
		return "1"
	case n == 2:
		return "2"
	case n == 3:
		return "3"
	case n <= 10:
		return "4-10"
	}
	return ">10"
}
