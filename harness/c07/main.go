// Command c07: random ledger histories on a REAL visor.Visor (bolt file), every
// derived view queried through the public API after every step, index / history
// buckets wiped and rebuilt on reopen (property C07).
package main

import (
	"bytes"
	"fmt"
	"math/big"
	"os"
	"path/filepath"
	"runtime"
	"sort"
	"strings"
	"sync"
	"sync/atomic"
	"time"

	"github.com/boltdb/bolt"

	. "verif/harness/kit"

	"verif/harness/c07/vk"

	"github.com/skycoin/skycoin/src/cipher"
	"github.com/skycoin/skycoin/src/coin"
	"github.com/skycoin/skycoin/src/util/logging"
	"github.com/skycoin/skycoin/src/visor"
	"github.com/skycoin/skycoin/src/visor/dbutil"
	"github.com/skycoin/skycoin/src/visor/historydb"
	"github.com/skycoin/skycoin/src/wallet"
)

func main() { Main(run) }

// ---- id tables: every hash becomes a small integer, assigned in creation order

type ids struct {
	m    map[cipher.SHA256]int
	next int
}

func newIDs() *ids { return &ids{m: map[cipher.SHA256]int{}, next: 1} }
func (t *ids) of(h cipher.SHA256) int {
	if v, ok := t.m[h]; ok {
		return v
	}
	t.m[h] = t.next
	t.next++
	return t.next - 1
}
func (t *ids) known(h cipher.SHA256) (int, bool) { v, ok := t.m[h]; return v, ok }

type hist struct {
	w       *vk.World
	n       *vk.Node
	r       *Rng
	ux      *ids            // unspent output hashes (confirmed and predicted)
	tx      *ids            // transaction hashes
	bk      *ids            // block header hashes
	uxlist  []cipher.SHA256 // confirmed output hashes in creation order
	spent   []cipher.SHA256 // recently spent
	foreign cipher.Address
	steps   []string
	desc    []string
	stale   []string
	staleJ  []map[string]interface{}
	hidx    int
	dist    Hist
	nq      int
	nsteps  int
}

func zi(i int) string { return fmt.Sprint(i) }

// numbers are printed in hexadecimal: Coq interprets a hexadecimal literal several
// times faster than a decimal one, and the data file is dominated by literals
func snapZ(ux coin.UxOut) string {
	h := ux.SnapshotHash()
	return "0x" + new(big.Int).SetBytes(h[:]).Text(16)
}
func hashZ(h cipher.SHA256) string { return "0x" + new(big.Int).SetBytes(h[:]).Text(16) }

// ZH prints a uint64 (hexadecimal above 999)
func ZH(u uint64) string {
	if u < 1000 {
		return fmt.Sprint(u)
	}
	return fmt.Sprintf("0x%x", u)
}

func (h *hist) addr(a cipher.Address) int {
	if i := h.w.AddrIndex(a); i > 0 {
		return i
	}
	return 99
}

// a transaction as Coq term; outputs carry the ids of the unspents CreateUnspents(bh, t) makes
func (h *hist) txnTerm(bh coin.BlockHeader, t coin.Transaction, withSnap bool) string {
	ins := make([]string, len(t.In))
	for i, in := range t.In {
		ins[i] = zi(h.ux.of(in))
	}
	uxs := coin.CreateUnspents(bh, t)
	outs := make([]string, len(uxs))
	for i, ux := range uxs {
		sn := "0"
		if withSnap {
			sn = snapZ(ux)
		}
		outs[i] = fmt.Sprintf("mk_txout %d %d %s %s %s", h.ux.of(ux.Hash()), h.addr(ux.Body.Address), ZH(ux.Body.Coins), ZH(ux.Body.Hours), sn)
	}
	return fmt.Sprintf("mk_txn %d %s %s", h.tx.of(t.Hash()), List(ins), List(outs))
}

func (h *hist) blockTerm(sb coin.SignedBlock) string {
	ts := make([]string, len(sb.Block.Body.Transactions))
	for i, t := range sb.Block.Body.Transactions {
		ts[i] = h.txnTerm(sb.Block.Head, t, true)
		for _, ux := range coin.CreateUnspents(sb.Block.Head, t) {
			h.uxlist = append(h.uxlist, ux.Hash())
		}
		h.spent = append(h.spent, t.In...)
	}
	return fmt.Sprintf("mk_block %d %d %s %s %s", h.bk.of(sb.Block.HashHeader()), sb.Block.Head.BkSeq, ZH(sb.Block.Head.Time),
		hashZ(sb.Block.Head.UxHash), List(ts))
}

func errClass(err error) string {
	s := err.Error()
	for _, p := range []string{"GetArray failed when checking addresses balance", "GetUnspentsOfAddrs failed", "uxs.Coins failed",
		"uxs.CoinHours failed", "predictedUxs.Coins failed", "predictedUxs.CoinHours failed"} {
		if strings.HasPrefix(s, p) {
			return p
		}
	}
	return "other: " + s
}

func (h *hist) addrOf(i int) cipher.Address {
	if i == 99 {
		return h.foreign
	}
	return h.w.Addrs[i-1]
}

func (h *hist) poolTerm(head coin.BlockHeader) (string, []visor.UnconfirmedTransaction, error) {
	utx, err := h.n.V.GetAllUnconfirmedTransactions()
	if err != nil {
		return "", nil, err
	}
	it := make([]string, len(utx))
	for i, u := range utx {
		it[i] = h.txnTerm(head, u.Transaction, false)
	}
	return List(it), utx, nil
}

func sortedInts(x []int) []string {
	sort.Ints(x)
	s := make([]string, len(x))
	for i, v := range x {
		s[i] = zi(v)
	}
	return s
}

// observe queries the public API and prints an `obs` term
func (h *hist) observe() (string, error) {
	v := h.n.V
	r := h.r
	headSeq, _, err := v.HeadBkSeq()
	if err != nil {
		return "", err
	}
	cnt, err := v.AddressCount()
	if err != nil {
		return "", err
	}
	// unspents per address
	all := []int{1, 2, 3, 4, 5, 6, 99}
	var uns []string
	for _, a := range all {
		m, err := v.GetUnspentsOfAddrs([]cipher.Address{h.addrOf(a)})
		if err != nil {
			uns = append(uns, Tuple(zi(a), "None"))
			continue
		}
		var idl []int
		for _, ux := range m[h.addrOf(a)] {
			idl = append(idl, h.ux.of(ux.Hash()))
		}
		uns = append(uns, Tuple(zi(a), Some(List(sortedInts(idl)))))
		h.nq++
	}
	// balances
	var bals []string
	alists := [][]int{{1, 2, 3, 4, 5, 6}}
	{
		k := 1 + r.Intn(4)
		var l []int
		for i := 0; i < k; i++ {
			l = append(l, all[r.Intn(len(all))])
		}
		alists = append(alists, l)
	}
	for _, l := range alists {
		as := make([]cipher.Address, len(l))
		ls := make([]string, len(l))
		for i, a := range l {
			as[i] = h.addrOf(a)
			ls[i] = zi(a)
		}
		bps, err := v.GetBalanceOfAddresses(as)
		h.nq++
		if err != nil {
			bals = append(bals, Tuple(List(ls), "inl "+Str(errClass(err))))
			h.dist.Add("balance:" + errClass(err))
			continue
		}
		h.dist.Add("balance:ok")
		rows := make([]string, len(bps))
		for i, bp := range bps {
			rows[i] = Tuple(ZH(bp.Confirmed.Coins), ZH(bp.Confirmed.Hours), ZH(bp.Predicted.Coins), ZH(bp.Predicted.Hours))
		}
		bals = append(bals, Tuple(List(ls), "inr "+List(rows)))
	}
	// uxouts by id
	var uxq []string
	var pick []cipher.SHA256
	for i := 0; i < 2 && len(h.uxlist) > 0; i++ {
		pick = append(pick, h.uxlist[r.Intn(len(h.uxlist))])
	}
	if len(h.spent) > 0 {
		pick = append(pick, h.spent[len(h.spent)-1-r.Intn(minI(len(h.spent), 4))])
	}
	pick = append(pick, cipher.SumSHA256(r.Bytes(8)))
	for _, id := range pick {
		o, _, err := v.GetUxOutByID(id)
		h.nq++
		if _, notExist := err.(historydb.ErrUxOutNotExist); notExist {
			err, o = nil, nil // the documented "nil if it does not exist" arrives as this error type
		}
		if err != nil {
			return "", fmt.Errorf("GetUxOutByID: %v", err)
		}
		if o == nil {
			uxq = append(uxq, Tuple(zi(h.ux.of(id)), "None"))
			continue
		}
		src, st := 0, 0
		if o.Out.Body.SrcTransaction != (cipher.SHA256{}) {
			src = h.tx.of(o.Out.Body.SrcTransaction)
		}
		if o.SpentTxnID != (cipher.SHA256{}) {
			st = h.tx.of(o.SpentTxnID)
		}
		uxq = append(uxq, Tuple(zi(h.ux.of(id)), Some(Tuple(zi(h.ux.of(o.Out.Hash())), ZH(o.Out.Head.Time), ZH(o.Out.Head.BkSeq), zi(src),
			zi(h.addr(o.Out.Body.Address)), ZH(o.Out.Body.Coins), ZH(o.Out.Body.Hours), zi(st), ZH(o.SpentBlockSeq)))))
	}
	// every output an address received
	var aouts []string
	for i := 0; i < 2; i++ {
		a := all[r.Intn(len(all))]
		res, _, err := v.GetSpentOutputsForAddresses([]cipher.Address{h.addrOf(a)})
		h.nq++
		if err != nil {
			return "", fmt.Errorf("GetSpentOutputsForAddresses: %v", err)
		}
		var l []string
		for _, o := range res[0] {
			l = append(l, zi(h.ux.of(o.Out.Hash())))
		}
		aouts = append(aouts, Tuple(zi(a), List(l)))
	}
	// transactions
	var txq []string
	type tq struct {
		kind  int
		addrs []int
	}
	qs := []tq{{r.Intn(3), []int{all[r.Intn(7)]}}, {r.Intn(3), []int{all[r.Intn(7)], all[r.Intn(7)]}}, {r.Intn(3), nil}, {0, []int{1 + r.Intn(6)}}}
	for _, q := range qs {
		var flts []visor.TxFilter
		if len(q.addrs) > 0 {
			as := make([]cipher.Address, len(q.addrs))
			for i, a := range q.addrs {
				as[i] = h.addrOf(a)
			}
			flts = append(flts, visor.NewAddrsFilter(as))
		}
		if q.kind == 1 {
			flts = append(flts, visor.NewConfirmedTxFilter(true))
		} else if q.kind == 2 {
			flts = append(flts, visor.NewConfirmedTxFilter(false))
		}
		txs, _, err := v.GetTransactions(flts, visor.AscOrder, nil)
		h.nq++
		if err != nil {
			return "", fmt.Errorf("GetTransactions: %v", err)
		}
		type row struct {
			id   int
			conf bool
			seq  uint64
		}
		rows := make([]row, len(txs))
		ordered := true
		var prev uint64
		for i, t := range txs {
			rows[i] = row{h.tx.of(t.Transaction.Hash()), t.Status.Confirmed, t.Status.BlockSeq}
			if t.Status.Confirmed {
				if t.Status.BlockSeq < prev {
					ordered = false
				}
				prev = t.Status.BlockSeq
			}
		}
		sort.SliceStable(rows, func(i, j int) bool {
			a, b := rows[i], rows[j]
			if a.conf != b.conf {
				return a.conf
			}
			if a.conf && a.seq != b.seq {
				return a.seq < b.seq
			}
			return a.id < b.id
		})
		rs := make([]string, len(rows))
		for i, x := range rows {
			sq := x.seq
			if !x.conf {
				sq = 0
			}
			rs[i] = Tuple(zi(x.id), B(x.conf), ZH(sq))
		}
		as := make([]string, len(q.addrs))
		for i, a := range q.addrs {
			as[i] = zi(a)
		}
		txq = append(txq, Tuple(zi(q.kind), List(as), List(rs), B(ordered)))
	}
	// block queries
	bid := func(sb coin.SignedBlock) string { return zi(h.bk.of(sb.Block.HashHeader())) }
	blist := func(bs []coin.SignedBlock) string {
		l := make([]string, len(bs))
		for i, b := range bs {
			l[i] = bid(b)
		}
		return List(l)
	}
	var bseq, brange, blast, bsince []string
	for i := 0; i < 2; i++ {
		k := uint64(r.Intn(int(headSeq) + 3))
		sb, err := v.GetSignedBlockBySeq(k)
		h.nq++
		if err != nil {
			return "", err
		}
		if sb == nil {
			bseq = append(bseq, Tuple(ZH(k), "None"))
		} else {
			bseq = append(bseq, Tuple(ZH(k), Some(bid(*sb))))
		}
	}
	{
		lo, hi := uint64(r.Intn(int(headSeq)+2)), uint64(r.Intn(int(headSeq)+4))
		bs, err := v.GetBlocksInRange(lo, hi)
		h.nq++
		if err != nil {
			return "", err
		}
		brange = append(brange, Tuple(ZH(lo), ZH(hi), blist(bs)))
		num := uint64(r.Intn(int(headSeq) + 4))
		bs, err = v.GetLastBlocks(num)
		h.nq++
		if err != nil {
			return "", err
		}
		blast = append(blast, Tuple(ZH(num), blist(bs)))
		sq, ct := uint64(r.Intn(int(headSeq)+2)), uint64(r.Intn(6))
		bs, err = v.GetSignedBlocksSince(sq, ct)
		h.nq++
		if err != nil {
			return "", err
		}
		bsince = append(bsince, Tuple(ZH(sq), ZH(ct), blist(bs)))
	}
	bq, err := h.blockQueries(headSeq)
	if err != nil {
		return "", err
	}
	return fmt.Sprintf("mk_obs %d %d %s %s %s %s %s %s %s %s %s %s", headSeq, cnt, List(uns), List(bals), List(uxq), List(aouts), List(txq),
		List(bseq), List(brange), List(blast), List(bsince), List(bq)), nil
}

// blockQueries asks every block-query API of Visor (verbose and plain) with arbitrary
// arguments: seq lists that are non-consecutive, descending, repeated, with gaps, with 0,
// beyond the head; ranges; last-N; by seq; by hash. Every field is printed: block id
// (header hash), transaction ids, and per input the spent output, owner, coins, hours and
// CalculatedHours.
func (h *hist) blockQueries(headSeq uint64) ([]string, error) {
	v := h.n.V
	r := h.r
	row := func(sb coin.SignedBlock, ins [][]visor.TransactionInput, verbose bool) string {
		tids := make([]string, len(sb.Block.Body.Transactions))
		for i, t := range sb.Block.Body.Transactions {
			tids[i] = zi(h.tx.of(t.Hash()))
		}
		var il []string
		if verbose {
			for _, txi := range ins {
				rs := make([]string, len(txi))
				for j, in := range txi {
					rs[j] = Tuple(zi(h.ux.of(in.UxOut.Hash())), zi(h.addr(in.UxOut.Body.Address)), ZH(in.UxOut.Body.Coins),
						ZH(in.UxOut.Body.Hours), ZH(in.CalculatedHours))
				}
				il = append(il, List(rs))
			}
		}
		return Tuple(zi(h.bk.of(sb.Block.HashHeader())), List(tids), List(il))
	}
	rows := func(bs []coin.SignedBlock, ins [][][]visor.TransactionInput, verbose bool) string {
		l := make([]string, len(bs))
		for i := range bs {
			var x [][]visor.TransactionInput
			if verbose && i < len(ins) {
				x = ins[i]
			}
			l[i] = row(bs[i], x, verbose)
		}
		return Some(List(l))
	}
	zl := func(a []uint64) string {
		l := make([]string, len(a))
		for i, x := range a {
			l[i] = ZH(x)
		}
		return List(l)
	}
	seqList := func() []uint64 {
		n := 1 + r.Intn(4)
		top := int(headSeq) + 1
		var l []uint64
		for i := 0; i < n; i++ {
			l = append(l, uint64(r.Intn(top)))
		}
		switch r.Intn(6) {
		case 0: // descending
			sort.Slice(l, func(i, j int) bool { return l[i] > l[j] })
		case 1: // repeated element
			l = append(l, l[0])
		case 2: // genesis first, then far from it
			l = append([]uint64{0}, l...)
		case 3: // ascending with gaps
			sort.Slice(l, func(i, j int) bool { return l[i] < l[j] })
		case 4: // one beyond the head now and then
			if r.Chance(40) {
				l = append(l, headSeq+1)
			}
		}
		return l
	}
	var out []string
	for i := 0; i < 2; i++ {
		l := seqList()
		bs, ins, err := v.GetBlocksVerbose(l)
		h.nq++
		if err != nil {
			out = append(out, Tuple("0", zl(l), "None"))
		} else {
			out = append(out, Tuple("0", zl(l), rows(bs, ins, true)))
		}
	}
	hashOf := func(k uint64) (cipher.SHA256, int) {
		sb, err := v.GetSignedBlockBySeq(k)
		if err != nil || sb == nil {
			x := cipher.SumSHA256(r.Bytes(8))
			return x, h.bk.of(x)
		}
		return sb.Block.HashHeader(), h.bk.of(sb.Block.HashHeader())
	}
	for i := 0; i < 2; i++ {
		api := 1 + r.Intn(9)
		h.nq++
		switch api {
		case 1, 8:
			lo, hi := uint64(r.Intn(int(headSeq)+2)), uint64(r.Intn(int(headSeq)+3))
			if api == 1 {
				bs, ins, err := v.GetBlocksInRangeVerbose(lo, hi)
				if err != nil {
					out = append(out, Tuple("1", zl([]uint64{lo, hi}), "None"))
				} else {
					out = append(out, Tuple("1", zl([]uint64{lo, hi}), rows(bs, ins, true)))
				}
			} else {
				bs, err := v.GetBlocksInRange(lo, hi)
				if err != nil {
					out = append(out, Tuple("8", zl([]uint64{lo, hi}), "None"))
				} else {
					out = append(out, Tuple("8", zl([]uint64{lo, hi}), rows(bs, nil, false)))
				}
			}
		case 2, 9:
			n := uint64(r.Intn(int(headSeq) + 3))
			if api == 2 {
				bs, ins, err := v.GetLastBlocksVerbose(n)
				if err != nil {
					out = append(out, Tuple("2", zl([]uint64{n}), "None"))
				} else {
					out = append(out, Tuple("2", zl([]uint64{n}), rows(bs, ins, true)))
				}
			} else {
				bs, err := v.GetLastBlocks(n)
				if err != nil {
					out = append(out, Tuple("9", zl([]uint64{n}), "None"))
				} else {
					out = append(out, Tuple("9", zl([]uint64{n}), rows(bs, nil, false)))
				}
			}
		case 3:
			k := uint64(r.Intn(int(headSeq) + 2))
			sb, ins, err := v.GetSignedBlockBySeqVerbose(k)
			switch {
			case err != nil:
				out = append(out, Tuple("3", zl([]uint64{k}), "None"))
			case sb == nil:
				out = append(out, Tuple("3", zl([]uint64{k}), Some("[]")))
			default:
				out = append(out, Tuple("3", zl([]uint64{k}), Some(List([]string{row(*sb, ins, true)}))))
			}
		case 4, 7:
			hh, id := hashOf(uint64(r.Intn(int(headSeq) + 2)))
			if api == 4 {
				sb, ins, err := v.GetSignedBlockByHashVerbose(hh)
				switch {
				case err != nil:
					out = append(out, Tuple("4", List([]string{zi(id)}), "None"))
				case sb == nil:
					out = append(out, Tuple("4", List([]string{zi(id)}), Some("[]")))
				default:
					out = append(out, Tuple("4", List([]string{zi(id)}), Some(List([]string{row(*sb, ins, true)}))))
				}
			} else {
				sb, err := v.GetSignedBlockByHash(hh)
				switch {
				case err != nil:
					out = append(out, Tuple("7", List([]string{zi(id)}), "None"))
				case sb == nil:
					out = append(out, Tuple("7", List([]string{zi(id)}), Some("[]")))
				default:
					out = append(out, Tuple("7", List([]string{zi(id)}), Some(List([]string{row(*sb, nil, false)}))))
				}
			}
		case 5:
			l := seqList()
			bs, err := v.GetBlocks(l)
			if err != nil {
				out = append(out, Tuple("5", zl(l), "None"))
			} else {
				out = append(out, Tuple("5", zl(l), rows(bs, nil, false)))
			}
		case 6:
			k := uint64(r.Intn(int(headSeq) + 2))
			sb, err := v.GetBlock(k)
			switch {
			case err != nil:
				out = append(out, Tuple("6", zl([]uint64{k}), "None"))
			case sb == nil:
				out = append(out, Tuple("6", zl([]uint64{k}), Some("[]")))
			default:
				out = append(out, Tuple("6", zl([]uint64{k}), Some(List([]string{row(*sb, nil, false)}))))
			}
		}
	}
	return out, nil
}

func minI(a, b int) int {
	if a < b {
		return a
	}
	return b
}

// step records (op, pool, obs)
func (h *hist) record(op string, short string) error {
	head, err := h.n.Head()
	if err != nil {
		return err
	}
	pt, utx, err := h.poolTerm(head.Block.Head)
	if err != nil {
		return err
	}
	ob, err := h.observe()
	if err != nil {
		return err
	}
	h.steps = append(h.steps, Tuple(op, pt, ob))
	h.desc = append(h.desc, short)
	h.nsteps++
	// stale pool: a pool transaction spends an output that is no longer unspent
	staleN := 0
	for _, u := range utx {
		uxs, _ := h.n.V.GetUnspentOutputs(u.Transaction.In)
		if len(uxs) != len(u.Transaction.In) {
			staleN++
		}
	}
	if staleN > 0 {
		_, err := h.n.V.GetBalanceOfAddresses(h.w.Addrs[:1])
		cls := ""
		if err != nil {
			cls = errClass(err)
		}
		h.stale = append(h.stale, Tuple(zi(h.hidx), zi(len(h.steps)-1), B(err != nil)))
		h.staleJ = append(h.staleJ, map[string]interface{}{"history": h.hidx, "step": len(h.steps) - 1, "op": short,
			"state": "the pool holds a transaction whose input a block has just spent", "err": cls})
		h.dist.Add("stale_pool_state")
	}
	return nil
}

func (h *hist) execBlock(txns coin.Transactions, dt uint64, tag string) error {
	head, _ := h.n.Head()
	sb, err := h.n.MakeBlock(txns, head.Time()+dt)
	if err != nil {
		why := ""
		for _, t := range txns {
			if _, _, _, e := h.n.V.InjectUserTransaction(t); e != nil {
				why += " [" + e.Error() + "]"
			}
		}
		return fmt.Errorf("MakeBlock: %v%s", err, why)
	}
	if err := h.n.V.ExecuteSignedBlock(sb); err != nil {
		// the node refuses a block its own CreateBlockFromTxns built: an observable (head -1), the history ends
		h.steps = append(h.steps, Tuple("HBlock ("+h.blockTerm(sb)+")", "[]", "mk_obs (-1) (-1) [] [] [] [] [] [] [] [] [] []"))
		h.desc = append(h.desc, fmt.Sprintf("BLOCK-REJECTED(%v)", err))
		h.nsteps++
		h.dist.Add("block:rejected")
		return errReopen
	}
	h.dist.Add(fmt.Sprintf("block:txns=%d", len(sb.Block.Body.Transactions)))
	return h.record("HBlock ("+h.blockTerm(sb)+")", fmt.Sprintf("%s%d", tag, len(sb.Block.Body.Transactions)))
}

func wipeBucket(tx *bolt.Tx, name string) error {
	b := tx.Bucket([]byte(name))
	if b == nil {
		return fmt.Errorf("no bucket %s", name)
	}
	var keys [][]byte
	b.ForEach(func(k, _ []byte) error { keys = append(keys, append([]byte{}, k...)); return nil })
	for _, k := range keys {
		if err := b.Delete(k); err != nil {
			return err
		}
	}
	return nil
}

func itob(v uint64) []byte {
	b := make([]byte, 8)
	for i := 0; i < 8; i++ {
		b[7-i] = byte(v >> (8 * uint(i)))
	}
	return b
}

// reopen closes the node, damages index / history markers on the file, reopens
func (h *hist) reopen() error {
	r := h.r
	headSeq, _, _ := h.n.V.HeadBkSeq()
	uxa, err := h.n.V.GetAllUnspentOutputs()
	if err != nil {
		return err
	}
	hs := make([]cipher.SHA256, len(uxa))
	for i, ux := range uxa {
		hs[i] = ux.Hash()
	}
	sort.Slice(hs, func(i, j int) bool { return bytes.Compare(hs[i][:], hs[j][:]) < 0 }) // bolt key order
	order := make([]string, len(hs))
	for i, x := range hs {
		order[i] = zi(h.ux.of(x))
	}
	iw, hw := "IdxKeep", "HistKeep"
	ik, hk := r.Intn(5), r.Intn(7)
	path := h.n.Path
	h.n.Close()
	db, err := bolt.Open(path, 0600, nil)
	if err != nil {
		return err
	}
	err = db.Update(func(tx *bolt.Tx) error {
		meta := tx.Bucket([]byte("unspent_meta"))
		switch ik {
		case 1: // marker deleted, index emptied
			iw = "(IdxSet [] None)"
			if err := wipeBucket(tx, "unspent_pool_addr_index"); err != nil {
				return err
			}
			return meta.Delete([]byte("addr_index_height"))
		case 2: // marker one behind
			if headSeq == 0 {
				return nil
			}
			iw = fmt.Sprintf("(IdxSet [] (Some %d))", headSeq-1)
			if err := wipeBucket(tx, "unspent_pool_addr_index"); err != nil {
				return err
			}
			return meta.Put([]byte("addr_index_height"), itob(headSeq-1))
		case 3: // marker ahead, one row removed
			iw = fmt.Sprintf("(IdxSet [] (Some %d))", headSeq+1)
			b := tx.Bucket([]byte("unspent_pool_addr_index"))
			k, _ := b.Cursor().First()
			if k != nil {
				if err := b.Delete(append([]byte{}, k...)); err != nil {
					return err
				}
			}
			return meta.Put([]byte("addr_index_height"), itob(headSeq+1))
		}
		return nil
	})
	if err == nil {
		err = db.Update(func(tx *bolt.Tx) error {
			switch hk {
			case 1:
				hw = "HistNoParsed"
				return tx.Bucket([]byte("history_meta")).Delete([]byte("parsed_height"))
			case 2:
				hw = "HistNoTxns"
				return wipeBucket(tx, "transactions")
			case 3:
				hw = "HistNoOuts"
				return wipeBucket(tx, "uxouts")
			case 4:
				hw = "HistNoAddrUx"
				return wipeBucket(tx, "address_in")
			case 5:
				hw = "HistNoAddrTxns"
				return wipeBucket(tx, "address_txns")
			}
			return nil
		})
	}
	db.Close()
	if err != nil {
		return fmt.Errorf("wipe: %v", err)
	}
	n, err := h.w.Open(path, true)
	if err != nil {
		// the node cannot start on its own database: an observable, not a harness error
		h.steps = append(h.steps, Tuple(fmt.Sprintf("HReopen %s %s %s", iw, hw, List(order)), "[]", "mk_obs (-1) (-1) [] [] [] [] [] [] [] [] [] []"))
		h.desc = append(h.desc, fmt.Sprintf("REOPEN-FAILED(%s,%s): %v", iw, hw, err))
		h.dist.Add("reopen:failed")
		return errReopen
	}
	h.n = n
	h.dist.Add("reopen:" + iw[:minI(len(iw), 8)] + "/" + hw)
	return h.record(fmt.Sprintf("HReopen %s %s %s", iw, hw, List(order)), "R("+strings.Trim(strings.Fields(iw)[0], "(")+","+hw+")")
}

// spendSome builds a signed transaction spending exactly uxs (one owner) to 1-2 outputs;
// variant makes otherwise identical transactions differ. keepOwner sends part back to the owner.
func (h *hist) spendSome(uxs coin.UxArray, headTime uint64, variant int, keepOwner bool) (coin.Transaction, bool, error) {
	var coins, hours uint64
	for _, ux := range uxs {
		coins += ux.Body.Coins
		x, err := ux.CoinHours(headTime)
		if err != nil {
			return coin.Transaction{}, false, nil
		}
		hours += x
	}
	if hours == 0 || coins < 4000 {
		return coin.Transaction{}, false, nil
	}
	owner := uxs[0].Body.Address
	other := h.w.Addrs[h.r.Intn(6)]
	to := []cipher.Address{other}
	cs := []uint64{coins}
	hs := []uint64{hours / 2}
	if keepOwner || h.r.Bool() {
		part := (coins / 1000 / uint64(2+variant)) * 1000
		if part == 0 {
			part = 1000
		}
		to = []cipher.Address{other, owner}
		cs = []uint64{part, coins - part}
		hs = []uint64{hours / 4, hours / 4}
		if to[0] == to[1] && cs[0] == cs[1] {
			hs[1]++
		}
	} else {
		hs[0] = hours/2 - uint64(variant)%(hours/2+1)
	}
	t, err := h.w.Spend(uxs, to, cs, hs)
	return t, err == nil, err
}

// conflictPool puts conflicting or sweeping pending transactions into the pool:
//
//	0: 2-3 transactions all spending the SAME output of an address that has further outputs
//	1: pending transactions spending ALL outputs of an address (one per output, or one for all)
//	2: an address receiving (change back to it) while two pending transactions spend one of its outputs
//
// When no address has two spendable outputs, a block first splits one output into three.
func (h *hist) conflictPool() error {
	used, err := h.poolInputs()
	if err != nil {
		return err
	}
	sp, headTime, err := h.n.Spendable(nil)
	if err != nil {
		return h.genFail(err)
	}
	var multi, any []cipher.Address
	for _, a := range h.w.Addrs {
		if len(sp[a]) >= 2 {
			multi = append(multi, a)
		}
		if len(sp[a]) >= 1 {
			any = append(any, a)
		}
	}
	if len(any) == 0 {
		return nil
	}
	if len(multi) == 0 { // split one unused output of some address into three of the same address
		a := any[h.r.Intn(len(any))]
		ux := sp[a][0]
		if used[ux.Hash()] || ux.Body.Coins < 9000 {
			return nil
		}
		hrs, err := ux.CoinHours(headTime)
		if err != nil || hrs == 0 {
			return nil
		}
		c3 := (ux.Body.Coins / 3000) * 1000
		t, err := h.w.Spend(coin.UxArray{ux}, []cipher.Address{a, a, a}, []uint64{c3, c3 + 1000, ux.Body.Coins - 2*c3 - 1000}, []uint64{hrs / 8, hrs/8 + 1, hrs/8 + 2})
		if err != nil {
			return err
		}
		h.dist.Add("pool:split_block")
		return h.execBlock(coin.Transactions{t}, uint64(4000+h.r.Intn(20000)), "S")
	}
	a := multi[h.r.Intn(len(multi))]
	uxs := sp[a]
	mode := h.r.Intn(3)
	var txns []coin.Transaction
	switch mode {
	case 0, 2:
		k := 2 + h.r.Intn(2)
		target := uxs[h.r.Intn(len(uxs))]
		for i := 0; i < k; i++ {
			t, ok, err := h.spendSome(coin.UxArray{target}, headTime, i, mode == 2)
			if err != nil {
				return err
			}
			if ok {
				txns = append(txns, t)
			}
		}
	default:
		if h.r.Bool() {
			for i := range uxs {
				t, ok, err := h.spendSome(coin.UxArray{uxs[i]}, headTime, i, false)
				if err != nil {
					return err
				}
				if ok {
					txns = append(txns, t)
				}
			}
		} else {
			t, ok, err := h.spendSome(uxs, headTime, 0, false)
			if err != nil {
				return err
			}
			if ok {
				txns = append(txns, t)
			}
		}
	}
	n := 0
	for _, t := range txns {
		if _, _, _, err := h.n.V.InjectUserTransaction(t); err != nil {
			return fmt.Errorf("InjectUserTransaction (conflict mode %d): %v", mode, err)
		}
		n++
	}
	if n == 0 {
		return nil
	}
	h.dist.Add(fmt.Sprintf("pool:conflict_mode%d", mode))
	return h.record("HPool", fmt.Sprintf("C%d.%d", mode, n))
}

// genFail: the generator could not even list the unspents through the API: observe
// everything once more (the failing views are recorded) and end the history
func (h *hist) genFail(err error) error {
	h.dist.Add("api_failed_in_generator")
	if e := h.record("HPool", fmt.Sprintf("API-FAILED(%v)", err)); e != nil {
		return e
	}
	return errReopen
}

var errReopen = fmt.Errorf("the node failed (recorded as an observation); history ends")

func (h *hist) poolInputs() (map[cipher.SHA256]bool, error) {
	utx, err := h.n.V.GetAllUnconfirmedTransactions()
	if err != nil {
		return nil, err
	}
	used := map[cipher.SHA256]bool{}
	for _, u := range utx {
		for _, in := range u.Transaction.In {
			used[in] = true
		}
	}
	return used, nil
}

func (h *hist) oneHistory(nblocks int) error {
	r := h.r
	if err := h.record("HBlock ("+h.blockTermGenesis()+")", "G"); err != nil {
		return err
	}
	made := 0
	guard := 0
	for made < nblocks && guard < 6*nblocks+20 {
		guard++
		c := r.Intn(100)
		if made == 0 {
			// the first step is always a block: with the genesis block as head an
			// unconfirmed-by-address query panics (see genesisHeadProbe), so the pool is
			// only exercised above it
			c = 0
		}
		switch {
		case c < 40: // block of fresh transactions and/or pool transactions
			used, err := h.poolInputs()
			if err != nil {
				return err
			}
			var txns coin.Transactions
			if r.Chance(50) { // confirm some pool transactions (mutually non-conflicting)
				utx, _ := h.n.V.GetAllUnconfirmedTransactions()
				seen := map[cipher.SHA256]bool{}
				for _, u := range utx {
					if u.IsValid != 1 || !r.Chance(70) {
						continue
					}
					ok := true
					for _, in := range u.Transaction.In {
						if seen[in] {
							ok = false
						}
					}
					if uxs, _ := h.n.V.GetUnspentOutputs(u.Transaction.In); len(uxs) != len(u.Transaction.In) {
						ok = false
					}
					if ok && len(txns) < 3 {
						for _, in := range u.Transaction.In {
							seen[in] = true
						}
						txns = append(txns, u.Transaction)
					}
				}
			}
			nt := r.Intn(3)
			if len(txns) == 0 && nt == 0 {
				nt = 1
			}
			for i := 0; i < nt; i++ {
				t, ins, ok, err := h.n.RandomSpend(r, used)
				if err != nil {
					return h.genFail(err)
				}
				if !ok {
					break
				}
				for _, ux := range ins {
					used[ux.Hash()] = true
				}
				txns = append(txns, t)
			}
			if len(txns) == 0 {
				continue
			}
			if err := h.execBlock(txns, uint64(10+r.Intn(20000)), "B"); err != nil {
				return err
			}
			made++
		case c < 60: // unconfirmed transaction
			used, err := h.poolInputs()
			if err != nil {
				return err
			}
			if r.Chance(15) { // may conflict with a pool transaction (both stay in the pool)
				used = map[cipher.SHA256]bool{}
			}
			t, _, ok, err := h.n.RandomSpend(r, used)
			if err != nil {
				return h.genFail(err)
			}
			if !ok {
				continue
			}
			if _, _, _, err := h.n.V.InjectUserTransaction(t); err != nil {
				return fmt.Errorf("InjectUserTransaction: %v", err)
			}
			h.dist.Add("inject")
			if err := h.record("HPool", "I"); err != nil {
				return err
			}
		case c < 72: // pools with conflicting / sweeping pending transactions
			if err := h.conflictPool(); err != nil {
				return err
			}
		case c < 80: // a block that spends an output a pool transaction also spends
			utx, _ := h.n.V.GetAllUnconfirmedTransactions()
			if len(utx) == 0 {
				continue
			}
			victim := utx[r.Intn(len(utx))].Transaction
			uxs, err := h.n.V.GetUnspentOutputs(victim.In)
			if err != nil || len(uxs) != len(victim.In) {
				continue
			}
			head, _ := h.n.Head()
			var coins, hours uint64
			for _, ux := range uxs {
				coins += ux.Body.Coins
				x, _ := ux.CoinHours(head.Time())
				hours += x
			}
			if hours == 0 {
				continue
			}
			t, err := h.w.Spend(uxs, []cipher.Address{h.w.Addrs[r.Intn(6)]}, []uint64{coins}, []uint64{hours / 3})
			if err != nil {
				return err
			}
			if t.Hash() == victim.Hash() {
				continue
			}
			if err := h.execBlock(coin.Transactions{t}, uint64(10+r.Intn(5000)), "X"); err != nil {
				return err
			}
			made++
		case c < 88: // pool maintenance
			if r.Bool() {
				if _, err := h.n.V.RefreshUnconfirmed(); err != nil {
					return err
				}
				h.dist.Add("refresh")
				if err := h.record("HPool", "F"); err != nil {
					return err
				}
			} else {
				if _, err := h.n.V.RemoveInvalidUnconfirmed(); err != nil {
					return err
				}
				h.dist.Add("remove_invalid")
				if err := h.record("HPool", "V"); err != nil {
					return err
				}
			}
		default:
			if err := h.reopen(); err != nil {
				return err
			}
		}
	}
	// boundary endings: machine-arithmetic limits of the balance computation
	switch e := r.Intn(100); {
	case e < 30:
		return h.hoursWrapEnding()
	case e < 42:
		return h.farFutureEnding()
	}
	return nil
}

// xor of the snapshot hashes of the whole unspent set, computed here from the API
func (h *hist) uxHash() (cipher.SHA256, error) {
	uxa, err := h.n.V.GetAllUnspentOutputs()
	if err != nil {
		return cipher.SHA256{}, err
	}
	var x cipher.SHA256
	for _, ux := range uxa {
		x = x.Xor(ux.SnapshotHash())
	}
	return x, nil
}

// hoursWrapEnding: a publisher-signed block whose transaction gives one output
// 2^64-5 hours and another 10 (the unchecked sum of output hours wraps to 5 <= input
// hours: block transactions are only held to the hard constraints, F14), then a later
// block: the big output's hours + earned hours overflow, GetBalanceOfAddresses takes
// its ErrAddEarnedCoinHoursAdditionOverflow branches.
func (h *hist) hoursWrapEnding() error {
	sp, headTime, err := h.n.Spendable(nil)
	if err != nil {
		return err
	}
	var in *coin.UxOut
	for _, a := range h.w.Addrs {
		for i := range sp[a] {
			ux := sp[a][i]
			hrs, _ := ux.CoinHours(headTime)
			if hrs >= 5 && ux.Body.Coins >= 2000e6 && in == nil {
				in = &sp[a][i]
			}
		}
	}
	if in == nil {
		return nil
	}
	a1, a2 := h.w.Addrs[h.r.Intn(6)], h.w.Addrs[h.r.Intn(6)]
	t, err := h.w.Spend(coin.UxArray{*in}, []cipher.Address{a1, a2}, []uint64{1000e6, in.Body.Coins - 1000e6}, []uint64{^uint64(0) - 4, 10})
	if err != nil {
		return err
	}
	head, _ := h.n.Head()
	uxh, err := h.uxHash()
	if err != nil {
		return err
	}
	b, err := coin.NewBlock(head.Block, head.Time()+50, uxh, coin.Transactions{t}, func(*coin.Transaction) (uint64, error) { return 1, nil })
	if err != nil {
		return fmt.Errorf("NewBlock: %v", err)
	}
	sb := h.w.Sign(*b)
	if err := h.n.V.ExecuteSignedBlock(sb); err != nil {
		// the tree rejects output hours that wrap: nothing to explore here
		h.dist.Add("hours_wrap_block:rejected")
		return nil
	}
	h.dist.Add("hours_wrap_block:accepted")
	if err := h.record("HBlock ("+h.blockTerm(sb)+")", "W1"); err != nil {
		return err
	}
	// time passes: a normal block, possibly with something in the pool
	used := map[cipher.SHA256]bool{}
	if h.r.Bool() {
		if t2, _, ok, err := h.n.RandomSpend(h.r, used); err == nil && ok {
			if _, _, _, err := h.n.V.InjectUserTransaction(t2); err == nil {
				for _, in := range t2.In {
					used[in] = true
				}
			}
		}
	}
	t3, _, ok, err := h.n.RandomSpend(h.r, used)
	if err != nil || !ok {
		return err
	}
	return h.execBlock(coin.Transactions{t3}, 3600*10, "B")
}

// farFutureEnding: a block two hundred billion seconds ahead: whole-coin seconds of
// the large outputs overflow, the balance query reports the CoinHours error
func (h *hist) farFutureEnding() error {
	t, _, ok, err := h.n.RandomSpend(h.r, nil)
	if err != nil || !ok {
		return err
	}
	h.dist.Add("far_future_block")
	return h.execBlock(coin.Transactions{t}, 200000000000+uint64(h.r.Intn(1000)), "T")
}

func (h *hist) blockTermGenesis() string {
	g, _ := h.n.V.GetSignedBlockBySeq(0)
	return h.blockTerm(*g)
}

// ---- concurrency group: queries issued while the history is being executed

type concAnswer struct {
	lo, hi int64
	kind   int // 0 balance of all addresses, 1 transactions of one address
	addr   int
	err    string
	bal    []wallet.BalancePair
	txs    []visor.Transaction
}

// concRound: one goroutine executes injections and blocks on the real visor, nq
// goroutines keep querying; every distinct answer is recorded with the numbers of
// operations completed when the call started / started when it returned.
func (h *hist) concRound(nops, nq int) (string, string, map[string]interface{}, error) {
	r := h.r
	var steps []string
	addStep := func(op string) error {
		head, err := h.n.Head()
		if err != nil {
			return err
		}
		pt, _, err := h.poolTerm(head.Block.Head)
		if err != nil {
			return err
		}
		steps = append(steps, Tuple(op, pt))
		return nil
	}
	mkBlock := func(txns coin.Transactions, dt uint64) (string, error) {
		head, _ := h.n.Head()
		sb, err := h.n.MakeBlock(txns, head.Time()+dt)
		if err != nil {
			return "", fmt.Errorf("MakeBlock: %v", err)
		}
		if err := h.n.V.ExecuteSignedBlock(sb); err != nil {
			return "", fmt.Errorf("ExecuteSignedBlock: %v", err)
		}
		return "HBlock (" + h.blockTerm(sb) + ")", nil
	}
	// sequential prefix: genesis, then a few blocks spreading the coins
	if err := addStep("HBlock (" + h.blockTermGenesis() + ")"); err != nil {
		return "", "", nil, err
	}
	for i := 0; i < 4; i++ {
		t, _, ok, err := h.n.RandomSpend(r, nil)
		if err != nil || !ok {
			return "", "", nil, fmt.Errorf("prefix spend: %v", err)
		}
		op, err := mkBlock(coin.Transactions{t}, uint64(3000+r.Intn(9000)))
		if err != nil {
			return "", "", nil, err
		}
		if err := addStep(op); err != nil {
			return "", "", nil, err
		}
	}
	// Widen the gap between consecutive read transactions of one API call: the verif-tagged
	// hook dbutil.VerifBeforeView runs before every read transaction is opened; during this
	// group it yields and pauses briefly so that a commit can fall between two reads
	dbutil.VerifBeforeView = func(*dbutil.DB, string) {
		runtime.Gosched()
		time.Sleep(150 * time.Microsecond)
	}
	defer func() { dbutil.VerifBeforeView = nil }()
	var started, done int64
	atomic.StoreInt64(&started, int64(len(steps)))
	atomic.StoreInt64(&done, int64(len(steps)))
	var stop int32
	var wg sync.WaitGroup
	answers := make([][]concAnswer, nq)
	for g := 0; g < nq; g++ {
		wg.Add(1)
		go func(g int) {
			defer wg.Done()
			seen := map[string]int{} // (lo, answer) -> index of the recorded answer with the smallest hi
			addrs := append([]cipher.Address{}, h.w.Addrs...)
			for i := 0; atomic.LoadInt32(&stop) == 0; i++ {
				a := concAnswer{lo: atomic.LoadInt64(&done)}
				var key string
				if (i+g)%3 != 0 {
					bps, err := h.n.V.GetBalanceOfAddresses(addrs)
					a.hi = atomic.LoadInt64(&started)
					a.bal = bps
					if err != nil {
						a.err = errClass(err)
					}
					key = fmt.Sprint("b", a.lo, a.err, bps)
				} else {
					a.kind, a.addr = 1, 1+(i/3)%2
					txs, _, err := h.n.V.GetTransactions([]visor.TxFilter{visor.NewAddrsFilter([]cipher.Address{h.w.Addrs[a.addr-1]})}, visor.AscOrder, nil)
					a.hi = atomic.LoadInt64(&started)
					a.txs = txs
					if err != nil {
						a.err = "error: " + err.Error()
					}
					key = fmt.Sprint("t", a.addr, a.lo, a.err, len(txs))
					for _, t := range txs {
						key += t.Transaction.Hash().Hex()[:8] + fmt.Sprint(t.Status.Confirmed)
					}
				}
				// the same answer for the same start: the narrowest window is the strongest claim
				if j, ok := seen[key]; !ok {
					seen[key] = len(answers[g])
					answers[g] = append(answers[g], a)
				} else if a.hi < answers[g][j].hi {
					answers[g][j] = a
				}
			}
		}(g)
	}
	// the writer
	var werr error
	for i := 0; i < nops && werr == nil; i++ {
		used, err := h.poolInputs()
		if err != nil {
			werr = err
			break
		}
		utx, _ := h.n.V.GetAllUnconfirmedTransactions()
		atomic.AddInt64(&started, 1)
		var op string
		if len(utx) > 0 && (i%2 == 1 || len(utx) >= 3) { // a block confirming the pending transactions
			var txns coin.Transactions
			for _, u := range utx {
				txns = append(txns, u.Transaction)
			}
			op, werr = mkBlock(txns, uint64(500+r.Intn(9000)))
		} else {
			t, _, ok, err := h.n.RandomSpend(r, used)
			if err != nil || !ok {
				werr = fmt.Errorf("spend: %v", err)
			} else if _, _, _, err := h.n.V.InjectUserTransaction(t); err != nil {
				werr = fmt.Errorf("inject: %v", err)
			}
			op = "HPool"
		}
		if werr == nil {
			werr = addStep(op)
		}
		atomic.AddInt64(&done, 1)
	}
	atomic.StoreInt32(&stop, 1)
	wg.Wait()
	if werr != nil {
		return "", "", nil, werr
	}
	// answers as terms (ids are assigned here, single-threaded)
	var qs []string
	spanning := 0
	for g := range answers {
		for _, a := range answers[g] {
			if a.hi > a.lo {
				spanning++
			}
			var c string
			if a.kind == 0 {
				if a.err != "" {
					c = "CQBal [1; 2; 3; 4; 5; 6] (inl " + Str(a.err) + ")"
				} else {
					rows := make([]string, len(a.bal))
					for i, bp := range a.bal {
						rows[i] = Tuple(ZH(bp.Confirmed.Coins), ZH(bp.Confirmed.Hours), ZH(bp.Predicted.Coins), ZH(bp.Predicted.Hours))
					}
					c = "CQBal [1; 2; 3; 4; 5; 6] (inr " + List(rows) + ")"
				}
			} else {
				if a.err != "" {
					c = fmt.Sprintf("CQTx (-1) [%d] []", a.addr)
				} else {
					c = fmt.Sprintf("CQTx 0 [%d] %s", a.addr, h.txRows(a.txs))
				}
			}
			qs = append(qs, Tuple(fmt.Sprint(a.lo), fmt.Sprint(a.hi), c))
		}
	}
	js := map[string]interface{}{"round": h.hidx, "ops": len(steps), "distinct_answers": len(qs), "answers_spanning_an_operation": spanning,
		"what": "balance / address-transaction queries issued by concurrent goroutines while injections and blocks were executed"}
	return List(steps), List(qs), js, nil
}

// txRows prints GetTransactions rows in the canonical order (confirmed by (seq, id), then unconfirmed by id)
func (h *hist) txRows(txs []visor.Transaction) string {
	type row struct {
		id   int
		conf bool
		seq  uint64
	}
	rows := make([]row, len(txs))
	for i, t := range txs {
		rows[i] = row{h.tx.of(t.Transaction.Hash()), t.Status.Confirmed, t.Status.BlockSeq}
	}
	sort.SliceStable(rows, func(i, j int) bool {
		a, b := rows[i], rows[j]
		if a.conf != b.conf {
			return a.conf
		}
		if a.conf && a.seq != b.seq {
			return a.seq < b.seq
		}
		return a.id < b.id
	})
	rs := make([]string, len(rows))
	for i, x := range rows {
		sq := x.seq
		if !x.conf {
			sq = 0
		}
		rs[i] = Tuple(zi(x.id), B(x.conf), ZH(sq))
	}
	return List(rs)
}

// genesisHeadProbe: with ONLY the genesis block, a pool transaction paying address A
// and GetTransactions(addrs=[A], unconfirmed) -> the predicted unspents carry the null
// SrcTransaction (CreateUnspents special-cases BkSeq 0), the lookup of that hash in
// the pool returns nil and unconfirmedTxnsGetter.getTransaction dereferences it.
// Reported as information (robustness is C28's subject), not checked by C07.
func genesisHeadProbe(dir string) (panicked bool, err error) {
	w := vk.NewWorld([]byte("c07-probe"), 3)
	n, err := w.Open(filepath.Join(dir, "probe.db"), true)
	if err != nil {
		return false, err
	}
	defer n.Remove()
	ux, err := n.V.GetUnspentsOfAddrs(w.Addrs[:1])
	if err != nil {
		return false, err
	}
	t, err := w.Spend(ux[w.GenAddr], []cipher.Address{w.Addrs[1]}, []uint64{w.GenVol}, []uint64{10})
	if err != nil {
		return false, err
	}
	if _, _, _, err := n.V.InjectUserTransaction(t); err != nil {
		return false, err
	}
	p := Guard(func() {
		n.V.GetTransactions([]visor.TxFilter{visor.NewAddrsFilter(w.Addrs[1:2]), visor.NewConfirmedTxFilter(false)}, visor.AscOrder, nil) // nolint
	})
	return p, nil
}

func run(args []string) error {
	logging.Disable()
	f := ParseFlags("c07", args)
	r := NewRng(f.Seed)
	o := NewOut()
	dist := Hist{}
	dir, err := vk.TempDir("verif_c07_")
	if err != nil {
		return err
	}
	defer os.RemoveAll(dir)
	nh := f.Budget(12, 120)
	var hists []string
	var hj []map[string]interface{}
	var stale []string
	var staleJ []map[string]interface{}
	nq := 0
	for i := 0; i < nh; i++ {
		w := vk.NewWorld([]byte(fmt.Sprintf("c07-%d-%d", f.Seed, i)), 6)
		n, err := w.Open(filepath.Join(dir, fmt.Sprintf("h%d.db", i)), true)
		if err != nil {
			return err
		}
		h := &hist{w: w, n: n, r: r, ux: newIDs(), tx: newIDs(), bk: newIDs(), hidx: i, dist: dist}
		fp, _ := cipher.MustGenerateDeterministicKeyPair([]byte("foreign"))
		h.foreign = cipher.AddressFromPubKey(fp)
		nb := 5 + r.Intn(8)
		if f.Tier != "quick" {
			nb = 5 + r.Intn(21)
		}
		err = h.oneHistory(nb)
		h.n.Remove()
		if err != nil && err != errReopen {
			return fmt.Errorf("history %d (%s): %v", i, strings.Join(h.desc, " "), err)
		}
		hists = append(hists, List(h.steps))
		hj = append(hj, map[string]interface{}{"history": i, "seed": f.Seed, "steps": len(h.steps), "ops": strings.Join(h.desc, " "),
			"legend": "G genesis, Bn block of n txns, Xn block conflicting with a pool txn, I inject, F refresh, V remove-invalid, Cm.n n pending txns (m=0 same output, 1 sweep of an address, 2 same output with change back), S split block, R(idx,hist) reopen after wiping, W1 block with wrapping output hours, T block far in the future"})
		stale = append(stale, h.stale...)
		staleJ = append(staleJ, h.staleJ...)
		nq += h.nq
		for k := 0; k < h.nsteps; k++ { // one evaluation per step: all views queried and compared
			o.Count(fmt.Sprint("hist", f.Seed, i, k), true)
		}
	}
	// one definition per history keeps Coq's parser happy
	names := make([]string, len(hists))
	for i, t := range hists {
		names[i] = fmt.Sprintf("hist_%d", i)
		o.Raw(fmt.Sprintf("Definition hist_%d : list hstep :=\n  %s.\n", i, strings.ReplaceAll(t, "; (H", ";\n   (H")))
	}
	o.Raw(fmt.Sprintf("Definition cases_hist : list (list hstep) := %s.\n", List(names)))
	o.Def("cases_stale", "Z * Z * bool", stale)
	// concurrency group
	if runtime.GOMAXPROCS(0) < 4 {
		runtime.GOMAXPROCS(4)
	}
	nrounds := 4
	if f.Tier != "quick" {
		nrounds = 30
	}
	var concNames []string
	var concJ []map[string]interface{}
	for i := 0; i < nrounds; i++ {
		w := vk.NewWorld([]byte(fmt.Sprintf("c07-conc-%d-%d", f.Seed, i)), 6)
		n, err := w.Open(filepath.Join(dir, fmt.Sprintf("conc%d.db", i)), true)
		if err != nil {
			return err
		}
		h := &hist{w: w, n: n, r: r, ux: newIDs(), tx: newIDs(), bk: newIDs(), hidx: i, dist: dist}
		st, qs, js, err := h.concRound(16+r.Intn(10), 2+r.Intn(3))
		h.n.Remove()
		if err != nil {
			return fmt.Errorf("concurrency round %d: %v", i, err)
		}
		o.Raw(fmt.Sprintf("Definition conc_%d : conc_case :=\n  (%s,\n   %s).\n", i, strings.ReplaceAll(st, "; (H", ";\n   (H"), strings.ReplaceAll(qs, "); (", ");\n   (")))
		concNames = append(concNames, fmt.Sprintf("conc_%d", i))
		concJ = append(concJ, js)
		for k := 0; k < js["distinct_answers"].(int); k++ {
			o.Count(fmt.Sprint("conc", f.Seed, i, k), true)
		}
		dist.Add("conc_round")
	}
	o.Raw(fmt.Sprintf("Definition cases_conc : list conc_case := %s.\n", List(concNames)))
	o.Side["cases"] = map[string]interface{}{"hist": hj, "stale": staleJ, "conc": concJ}
	o.Side["rule"] = "a case is one random history on a real visor (5-25 blocks of 1-3 transactions among 6 addresses, unconfirmed transactions, conflicting blocks, pool maintenance, reopen after wiping index / history markers); after every step every view is queried through the public API; histories are distinct by construction (own keys)"
	o.Side["distribution"] = dist.Sorted()
	o.Side["api_queries"] = nq
	if p, err := genesisHeadProbe(dir); err == nil {
		o.Side["info_genesis_head_unconfirmed_addr_query_panics"] = p
	}
	var samples []map[string]interface{}
	for i := 0; i < len(hj) && i < 12; i++ {
		samples = append(samples, hj[i])
	}
	o.Side["samples"] = samples
	if err := o.Write(f.Out, f.JSON); err != nil {
		return err
	}
	return nil
}
