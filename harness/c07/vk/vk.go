// Package vk ("visor kit") drives REAL visor.Visor nodes on real bolt files for
// the C07 (derived views) and C33 (sync) harnesses: a world with its own
// blockchain key pair and genesis, publisher / follower nodes, block creation
// through the publisher's own CreateBlockFromTxns + signature, spend
// transactions between a small set of addresses.
package vk

import (
	"fmt"
	"os"
	"sort"

	"github.com/boltdb/bolt"

	"github.com/skycoin/skycoin/src/cipher"
	"github.com/skycoin/skycoin/src/coin"
	"github.com/skycoin/skycoin/src/params"
	"github.com/skycoin/skycoin/src/visor"
	"github.com/skycoin/skycoin/src/visor/dbutil"
)

// World fixes the chain identity: publisher key, genesis address / time / volume.
type World struct {
	Pub     cipher.PubKey
	Sec     cipher.SecKey
	GenAddr cipher.Address
	GenSec  cipher.SecKey
	GenTime uint64
	GenVol  uint64
	GenSig  cipher.Sig // filled by the first publisher node
	Keys    []cipher.SecKey
	Addrs   []cipher.Address
	// Tweak, when set, adjusts a node's configuration (block-creation / unconfirmed policy
	// parameters, which are not consensus rules) after the defaults are filled in
	Tweak func(c *visor.Config, publisher bool)
}

// NewWorld derives every key deterministically from seed bytes.
func NewWorld(seed []byte, naddr int) *World {
	w := &World{GenTime: 1426562704, GenVol: 100e12}
	w.Pub, w.Sec = cipher.MustGenerateDeterministicKeyPair(append([]byte("pub"), seed...))
	var gp cipher.PubKey
	gp, w.GenSec = cipher.MustGenerateDeterministicKeyPair(append([]byte("gen"), seed...))
	w.GenAddr = cipher.AddressFromPubKey(gp)
	w.Keys = append(w.Keys, w.GenSec)
	w.Addrs = append(w.Addrs, w.GenAddr)
	for i := 1; i < naddr; i++ {
		p, s := cipher.MustGenerateDeterministicKeyPair(append([]byte(fmt.Sprintf("addr%d", i)), seed...))
		w.Keys = append(w.Keys, s)
		w.Addrs = append(w.Addrs, cipher.AddressFromPubKey(p))
	}
	return w
}

// KeyOf returns the secret key of one of the world's addresses.
func (w *World) KeyOf(a cipher.Address) cipher.SecKey {
	for i, x := range w.Addrs {
		if x == a {
			return w.Keys[i]
		}
	}
	panic("vk: unknown address")
}

// AddrIndex is the small integer standing for an address in the Coq data (1-based; 0 = foreign).
func (w *World) AddrIndex(a cipher.Address) int {
	for i, x := range w.Addrs {
		if x == a {
			return i + 1
		}
	}
	return 0
}

// Node is an open visor on a bolt file.
type Node struct {
	W    *World
	Path string
	Bolt *bolt.DB
	DB   *dbutil.DB
	V    *visor.Visor
}

func (w *World) config(publisher bool) visor.Config {
	c := visor.NewConfig()
	c.IsBlockPublisher = publisher
	c.BlockchainPubkey = w.Pub
	if publisher {
		c.BlockchainSeckey = w.Sec
	}
	c.GenesisAddress = w.GenAddr
	c.GenesisTimestamp = w.GenTime
	c.GenesisCoinVolume = w.GenVol
	c.GenesisSignature = w.GenSig
	c.Distribution = params.MainNetDistribution
	if w.Tweak != nil {
		w.Tweak(&c, publisher)
	}
	return c
}

// Open opens (creating if necessary) a node on path. The first publisher node
// of a world creates and signs the genesis block; its signature is recorded in
// the world so that followers can be configured with it.
func (w *World) Open(path string, publisher bool) (*Node, error) {
	bdb, err := bolt.Open(path, 0600, nil)
	if err != nil {
		return nil, err
	}
	bdb.NoSync = true // no crash model here (C08 owns that); keeps thousands of commits fast
	wdb := dbutil.WrapDB(bdb)
	v, err := visor.New(w.config(publisher), wdb, nil)
	if err != nil {
		bdb.Close()
		return nil, fmt.Errorf("visor.New: %v", err)
	}
	if err := v.Init(); err != nil {
		bdb.Close()
		return nil, fmt.Errorf("visor.Init: %v", err)
	}
	n := &Node{W: w, Path: path, Bolt: bdb, DB: wdb, V: v}
	if publisher && w.GenSig == (cipher.Sig{}) {
		gb, err := v.GetSignedBlockBySeq(0)
		if err != nil || gb == nil {
			n.Close()
			return nil, fmt.Errorf("no genesis block: %v", err)
		}
		w.GenSig = gb.Sig
	}
	return n, nil
}

// TempDir makes a scratch directory, on a memory file system when there is one
// (bolt's file initialisation fsyncs; thousands of nodes are created per run).
func TempDir(prefix string) (string, error) {
	if st, err := os.Stat("/dev/shm"); err == nil && st.IsDir() {
		if d, err := os.MkdirTemp("/dev/shm", prefix); err == nil {
			return d, nil
		}
	}
	return os.MkdirTemp("", prefix)
}

// CopyFile copies a closed node file (used to stamp out fresh followers from a template).
func CopyFile(src, dst string) error {
	b, err := os.ReadFile(src)
	if err != nil {
		return err
	}
	return os.WriteFile(dst, b, 0600)
}

// Close closes the bolt file (the file stays).
func (n *Node) Close() {
	if n.Bolt != nil {
		n.Bolt.Close()
		n.Bolt = nil
	}
}

// Remove closes the node and deletes its file.
func (n *Node) Remove() {
	n.Close()
	os.Remove(n.Path)
}

// Sign signs a block header with the publisher key.
func (w *World) Sign(b coin.Block) coin.SignedBlock {
	return coin.SignedBlock{Block: b, Sig: cipher.MustSignHash(b.HashHeader(), w.Sec)}
}

// MakeBlock lets the publisher node build a block from txns (its own
// CreateBlockFromTxns: filtering, sorting, fee, uxhash) at time `when` and signs it.
func (n *Node) MakeBlock(txns coin.Transactions, when uint64) (coin.SignedBlock, error) {
	b, err := n.V.CreateBlockFromTxns(txns, when)
	if err != nil {
		return coin.SignedBlock{}, err
	}
	return n.W.Sign(b), nil
}

// Spend builds a signed transaction spending uxs (all owned by world addresses)
// to the given outputs. Hours: `hours[i]` per output.
func (w *World) Spend(uxs coin.UxArray, to []cipher.Address, coins, hours []uint64) (coin.Transaction, error) {
	var t coin.Transaction
	keys := make([]cipher.SecKey, 0, len(uxs))
	for _, ux := range uxs {
		if err := t.PushInput(ux.Hash()); err != nil {
			return t, err
		}
		keys = append(keys, w.KeyOf(ux.Body.Address))
	}
	for i := range to {
		if err := t.PushOutput(to[i], coins[i], hours[i]); err != nil {
			return t, err
		}
	}
	t.SignInputs(keys)
	if err := t.UpdateHeader(); err != nil {
		return t, err
	}
	return t, nil
}

// HeadTime returns the head block time and seq.
func (n *Node) Head() (*coin.SignedBlock, error) {
	return n.V.GetHeadBlock()
}

// Picker is the source of random choices (harness kit Rng satisfies it).
type Picker interface {
	Intn(n int) int
	Chance(p int) bool
}

// Spendable returns, per world address, the unspent outputs of that address
// that carry at least one coin hour at the head time (a transaction must burn
// a non-zero fee), as the node reports them.
func (n *Node) Spendable(exclude map[cipher.SHA256]bool) (map[cipher.Address]coin.UxArray, uint64, error) {
	head, err := n.V.GetHeadBlock()
	if err != nil {
		return nil, 0, err
	}
	auxs, err := n.V.GetUnspentsOfAddrs(n.W.Addrs)
	if err != nil {
		return nil, 0, err
	}
	out := map[cipher.Address]coin.UxArray{}
	for _, a := range n.W.Addrs {
		uxs := append(coin.UxArray{}, auxs[a]...)
		// content order (hashes depend on random signature nonces, so hash order is not replayable)
		sort.SliceStable(uxs, func(i, j int) bool {
			a, b := uxs[i], uxs[j]
			if a.Head.BkSeq != b.Head.BkSeq {
				return a.Head.BkSeq < b.Head.BkSeq
			}
			if a.Body.Coins != b.Body.Coins {
				return a.Body.Coins < b.Body.Coins
			}
			return a.Body.Hours < b.Body.Hours
		})
		for _, ux := range uxs {
			if exclude[ux.Hash()] {
				continue
			}
			h, err := ux.CoinHours(head.Time())
			if err != nil || h == 0 || h > 1<<62 { // unspendable now, or hours so large that sums overflow
				continue
			}
			out[a] = append(out[a], ux)
		}
	}
	return out, head.Time(), nil
}

// RandomSpend builds a valid signed transaction at the node's head: 1-2 inputs
// of one address (not in `exclude`), 1-3 outputs to world addresses (change
// included), coins in multiples of 0.001, half of the input hours kept.
// Returns ok=false when nothing is spendable.
func (n *Node) RandomSpend(r Picker, exclude map[cipher.SHA256]bool) (coin.Transaction, coin.UxArray, bool, error) {
	sp, headTime, err := n.Spendable(exclude)
	if err != nil {
		return coin.Transaction{}, nil, false, err
	}
	var cands []cipher.Address
	for _, a := range n.W.Addrs {
		if len(sp[a]) > 0 {
			cands = append(cands, a)
		}
	}
	if len(cands) == 0 {
		return coin.Transaction{}, nil, false, nil
	}
	from := cands[r.Intn(len(cands))]
	uxs := sp[from]
	k := 1
	if len(uxs) > 1 && r.Chance(40) {
		k = 2
	}
	start := r.Intn(len(uxs) - k + 1)
	ins := uxs[start : start+k]
	var coins, hours uint64
	for _, ux := range ins {
		coins += ux.Body.Coins
		h, _ := ux.CoinHours(headTime)
		hours += h
	}
	keep := hours / 2
	nout := 1 + r.Intn(3)
	unit := uint64(1000) // 0.001 coin
	if coins/unit < uint64(nout) {
		nout = 1
	}
	var to []cipher.Address
	var oc, oh []uint64
	left := coins
	for i := 0; i < nout; i++ {
		a := n.W.Addrs[r.Intn(len(n.W.Addrs))]
		var c uint64
		if i == nout-1 {
			c = left
		} else {
			maxc := left/unit - uint64(nout-1-i)
			c = (1 + uint64(r.Intn(int(minU(maxc, 1<<30))))) * unit
			if r.Chance(50) && maxc > 4 { // big chunks keep the value spread over addresses
				c = (maxc / uint64(2+r.Intn(3))) * unit
			}
			if c == 0 {
				c = unit
			}
		}
		left -= c
		to = append(to, a)
		oc = append(oc, c)
		oh = append(oh, 0)
	}
	// hours: spread `keep` over the outputs
	for i := range oh {
		if i == len(oh)-1 {
			oh[i] = keep
		} else {
			x := keep / uint64(1+r.Intn(3))
			oh[i] = x
			keep -= x
		}
	}
	// duplicate (address, coins, hours) outputs are a hard violation: nudge hours apart
	for i := range to {
		for j := 0; j < i; j++ {
			if to[i] == to[j] && oc[i] == oc[j] && oh[i] == oh[j] {
				if oh[j] > 0 {
					oh[j]--
				} else {
					// move one unit of coins if possible
					if oc[i] > unit {
						oc[i] -= unit
						oc[j] += unit
					} else {
						return coin.Transaction{}, nil, false, nil
					}
				}
			}
		}
	}
	t, err := n.W.Spend(ins, to, oc, oh)
	if err != nil {
		return coin.Transaction{}, nil, false, err
	}
	return t, ins, true, nil
}

func minU(a, b uint64) uint64 {
	if a < b {
		return a
	}
	return b
}
