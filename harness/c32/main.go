// Command c32: a REAL gnet.ConnectionPool over loopback TCP under concurrent
// connect / disconnect / send / broadcast / query / shutdown (property C32).
// Built with -race by the driver when the race runtime is available. Every API
// call is logged with a global atomic sequence number at its start and at its
// return, together with its result class; Shutdown likewise. The Coq side
// replays each log against Model/StrandPool.v.
package main

import (
	"encoding/binary"
	"errors"
	"fmt"
	"net"
	"os"
	"runtime"
	"sort"
	"sync"
	"sync/atomic"
	"time"

	. "verif/harness/kit"

	"github.com/skycoin/skycoin/src/daemon/gnet"
	"github.com/skycoin/skycoin/src/util/logging"
)

func main() { Main(run) }

// ---- test message

type c32Msg struct{ Payload []byte }

var handledCount int64

func (m *c32Msg) EncodeSize() uint64 { return uint64(4 + len(m.Payload)) }
func (m *c32Msg) Encode(b []byte) error {
	if len(b) < 4+len(m.Payload) {
		return errors.New("short buffer")
	}
	binary.LittleEndian.PutUint32(b, uint32(len(m.Payload)))
	copy(b[4:], m.Payload)
	return nil
}
func (m *c32Msg) Decode(b []byte) (uint64, error) {
	if len(b) < 4 {
		return 0, errors.New("short")
	}
	n := binary.LittleEndian.Uint32(b)
	if uint64(n) > uint64(len(b)-4) {
		return 0, errors.New("short payload")
	}
	m.Payload = append([]byte{}, b[4:4+n]...)
	return uint64(4 + n), nil
}
func (m *c32Msg) Handle(mc *gnet.MessageContext, state interface{}) error {
	atomic.AddInt64(&handledCount, 1)
	if p, ok := state.(*poolRef); ok && len(m.Payload) > 0 && m.Payload[0]%4 == 0 {
		// a handler that answers: exercises pool calls from the receive goroutine
		_ = p.pool.SendMessage(mc.Addr, &c32Msg{Payload: []byte{1}})
	}
	if len(m.Payload) > 0 && m.Payload[0] == 0xEE {
		return errors.New("handler asks for disconnect")
	}
	return nil
}

type poolRef struct{ pool *gnet.ConnectionPool }

// ---- event log

const (
	evStart = iota
	evReturn
	evShutStart
	evShutReturn
	evRunStart
	evRunFail
)

type event struct {
	seq    int64
	kind   int
	thread int
	ran    bool
	op     string
}

var seqCtr int64

func nextSeq() int64 { return atomic.AddInt64(&seqCtr, 1) }

type callRec struct {
	start, ret int64
	ran        bool
	op         string
	class      string
}

// ---- a remote peer: accepts, reads and drops, now and then writes a frame back

type peer struct {
	ln   net.Listener
	addr string
	wg   sync.WaitGroup
	quit chan struct{}
}

func newPeer() (*peer, error) {
	ln, err := net.Listen("tcp", "127.0.0.1:0")
	if err != nil {
		return nil, err
	}
	p := &peer{ln: ln, addr: ln.Addr().String(), quit: make(chan struct{})}
	p.wg.Add(1)
	go func() {
		defer p.wg.Done()
		for {
			c, err := ln.Accept()
			if err != nil {
				return
			}
			p.wg.Add(1)
			go func(c net.Conn) {
				defer p.wg.Done()
				defer c.Close()
				buf := make([]byte, 512)
				n := 0
				for {
					_ = c.SetReadDeadline(time.Now().Add(200 * time.Millisecond))
					k, err := c.Read(buf)
					if err != nil {
						if ne, ok := err.(net.Error); ok && ne.Timeout() {
							select {
							case <-p.quit:
								return
							default:
								continue
							}
						}
						return
					}
					n += k
					if n%3 == 0 {
						if b, err := gnet.EncodeMessage(&c32Msg{Payload: []byte{byte(n)}}); err == nil {
							_ = c.SetWriteDeadline(time.Now().Add(200 * time.Millisecond))
							_, _ = c.Write(b)
						}
					}
				}
			}(c)
		}
	}()
	return p, nil
}

func (p *peer) close() {
	close(p.quit)
	_ = p.ln.Close()
	p.wg.Wait()
}

func freePort() (int, error) {
	ln, err := net.Listen("tcp", "127.0.0.1:0")
	if err != nil {
		return 0, err
	}
	port := ln.Addr().(*net.TCPAddr).Port
	_ = ln.Close()
	return port, nil
}

type scenarioResult struct {
	calls        [][]callRec // per thread
	shutStart    int64
	shutReturn   int64
	hang         bool
	runReturned  bool
	sizes        [5]int
	panics       int64
	threads      int
	maxprocs     int
	ops          int
	shutAfterOps int
	panicText    string
	runStart     int64  // sequence number taken just before Run / RunOffline is called
	runFail      int64  // sequence number taken after Run returned an error (listen failed)
	variant      string // "" = the concurrent-traffic scenario, else the life-cycle variant
	established  bool   // life-cycle: an outgoing connection was registered in the pool before Shutdown
	secondShut   string // life-cycle "shutdown-twice": how the second Shutdown ended
	stacks       string // goroutine dump taken when the watchdog fired
	fds          int
}

func classify(err error) (bool, string) {
	switch {
	case err == nil:
		return true, "ok"
	case err == gnet.ErrConnectionPoolClosed:
		return false, "closed"
	default:
		return true, "err"
	}
}

func scenario(r *Rng, hist Hist) (*scenarioResult, error) {
	res := &scenarioResult{}
	procs := []int{1, 2, 4, 8, 16}[r.Intn(5)]
	res.maxprocs = procs
	prev := runtime.GOMAXPROCS(procs)
	defer runtime.GOMAXPROCS(prev)

	port, err := freePort()
	if err != nil {
		return nil, err
	}
	cfg := gnet.NewConfig()
	cfg.Address = "127.0.0.1"
	cfg.Port = uint16(port)
	cfg.DialTimeout = time.Second
	cfg.ReadTimeout = 2 * time.Second
	cfg.WriteTimeout = 2 * time.Second
	cfg.ConnectionWriteQueueSize = 4 + r.Intn(8)
	cfg.SendResultsSize = 8
	cfg.MaxOutgoingConnections = 2 + r.Intn(6)
	cfg.MaxDefaultPeerOutgoingConnections = 1 + r.Intn(2)
	var connects, disconnects int64
	cfg.ConnectCallback = func(addr string, id uint64, solicited bool) { atomic.AddInt64(&connects, 1) }
	cfg.DisconnectCallback = func(addr string, id uint64, reason gnet.DisconnectReason) { atomic.AddInt64(&disconnects, 1) }

	npeers := 2 + r.Intn(3)
	var peers []*peer
	for i := 0; i < npeers; i++ {
		p, err := newPeer()
		if err != nil {
			return nil, err
		}
		peers = append(peers, p)
		if i == 0 {
			cfg.DefaultConnections = []string{p.addr}
		}
	}
	defer func() {
		for _, p := range peers {
			p.close()
		}
	}()

	// start the pool; the port picked above can be taken by somebody else in the
	// meantime (Run then fails to listen): try again with another port
	var pool *gnet.ConnectionPool
	var runDone chan struct{}
	var poolAddr string
	ref := &poolRef{}
	for attempt := 0; ; attempt++ {
		var err error
		pool, err = gnet.NewConnectionPool(cfg, ref)
		if err != nil {
			return nil, err
		}
		ref.pool = pool
		runDone = make(chan struct{})
		res.runStart = nextSeq()
		go func(pool *gnet.ConnectionPool, runDone chan struct{}) {
			defer close(runDone)
			defer func() {
				if rec := recover(); rec != nil {
					// a panic inside Run (it would kill the node) is an observable
					atomic.AddInt64(&res.panics, 1)
					res.panicText = fmt.Sprint(rec)
				}
			}()
			_ = pool.Run()
		}(pool, runDone)
		poolAddr = fmt.Sprintf("127.0.0.1:%d", cfg.Port)
		up := false
	wait:
		for i := 0; i < 400; i++ {
			select {
			case <-runDone: // listen failed
				break wait
			default:
			}
			c, err := net.DialTimeout("tcp", poolAddr, 200*time.Millisecond)
			if err == nil {
				_ = c.Close()
				up = true
				break
			}
			time.Sleep(5 * time.Millisecond)
		}
		if up {
			select {
			case <-runDone: // somebody else is listening on that port, not this pool
				up = false
			default:
			}
		}
		if up {
			break
		}
		sdc := make(chan struct{})
		go func(p *gnet.ConnectionPool) { p.Shutdown(); close(sdc) }(pool)
		select {
		case <-sdc:
		case <-time.After(10 * time.Second):
			// Shutdown of a pool whose Run failed to listen does not return
			res.hang = true
			res.stacks = dumpStacks()
			res.variant = "run-fails-to-bind(port taken during start)"
			res.threads = 1
			res.calls = make([][]callRec, 1)
			res.shutStart = nextSeq()
			return res, nil
		}
		if attempt >= 8 {
			return nil, errors.New("pool did not start listening")
		}
		port, err := freePort()
		if err != nil {
			return nil, err
		}
		cfg.Port = uint16(port)
	}

	nthreads := 3 + r.Intn(5)
	nops := 6 + r.Intn(14)
	res.threads = nthreads
	res.ops = nops
	res.calls = make([][]callRec, nthreads)
	seeds := make([]uint64, nthreads+2)
	for i := range seeds {
		seeds[i] = r.U64()
	}
	var shutReturned int32
	var wg sync.WaitGroup

	noise := func(tr *Rng) {
		switch tr.Intn(6) {
		case 0:
			runtime.Gosched()
		case 1:
			time.Sleep(time.Duration(tr.Intn(300)) * time.Microsecond)
		case 2:
			time.Sleep(time.Duration(tr.Intn(3)) * time.Millisecond)
		}
	}

	// drain SendResults as the daemon does
	drainQuit := make(chan struct{})
	go func() {
		for {
			select {
			case <-pool.SendResults:
			case <-drainQuit:
				return
			}
		}
	}()
	defer close(drainQuit)

	// external clients connecting INTO the pool and sending frames / garbage
	clientQuit := make(chan struct{})
	var cwg sync.WaitGroup
	for k := 0; k < 2; k++ {
		cwg.Add(1)
		go func(tr *Rng) {
			defer cwg.Done()
			made := 0
			for {
				select {
				case <-clientQuit:
					return
				default:
				}
				// a bounded, paced stream of incoming connections (an unbounded one only
				// measures how fast the pool can refuse connections)
				if made >= 25 {
					return
				}
				made++
				time.Sleep(time.Duration(500+tr.Intn(3000)) * time.Microsecond)
				c, err := net.DialTimeout("tcp", poolAddr, 100*time.Millisecond)
				if err != nil {
					time.Sleep(time.Millisecond)
					continue
				}
				for j, n := 0, tr.Intn(4); j < n; j++ {
					var b []byte
					switch tr.Intn(6) {
					case 0:
						b = []byte{1, 0, 0, 0, 9} // invalid length: disconnect
					case 1:
						b, _ = gnet.EncodeMessage(&c32Msg{Payload: []byte{0xEE}}) // handler asks for disconnect
					default:
						b, _ = gnet.EncodeMessage(&c32Msg{Payload: tr.Bytes(1 + tr.Intn(6))})
					}
					_ = c.SetWriteDeadline(time.Now().Add(100 * time.Millisecond))
					if _, err := c.Write(b); err != nil {
						break
					}
					noise(tr)
				}
				if tr.Bool() {
					time.Sleep(time.Duration(tr.Intn(2000)) * time.Microsecond)
				}
				_ = c.Close()
			}
		}(NewRng(seeds[nthreads+k]))
	}

	shutAfter := r.Intn(nops + 2) // thread 0 calls Shutdown after this many of its own ops
	res.shutAfterOps = shutAfter
	shutCalled := make(chan struct{})

	for t := 0; t < nthreads; t++ {
		wg.Add(1)
		go func(t int, tr *Rng) {
			defer wg.Done()
			defer func() {
				if rec := recover(); rec != nil {
					atomic.AddInt64(&res.panics, 1)
				}
			}()
			var known []string
			total := nops
			extra := 3 // calls made after Shutdown has returned
			for i := 0; i < total+extra; i++ {
				if t == 0 && i == shutAfter {
					res.shutStart = nextSeq()
					close(shutCalled)
					pool.Shutdown()
					res.shutReturn = nextSeq()
					atomic.StoreInt32(&shutReturned, 1)
				}
				if i >= total {
					// the tail: wait until Shutdown has returned, then call again
					if t == 0 && shutAfter > total {
						break
					}
					<-shutCalled
					for atomic.LoadInt32(&shutReturned) == 0 {
						time.Sleep(200 * time.Microsecond)
					}
				}
				noise(tr)
				rec := callRec{}
				var err error
				k := tr.Intn(10)
				rec.start = nextSeq()
				switch k {
				case 0, 1:
					rec.op = "Connect"
					err = pool.Connect(peers[tr.Intn(len(peers))].addr)
				case 2:
					rec.op = "Disconnect"
					a := peers[tr.Intn(len(peers))].addr
					if len(known) > 0 && tr.Bool() {
						a = known[tr.Intn(len(known))]
					}
					err = pool.Disconnect(a, gnet.DisconnectReason(errors.New("harness")))
				case 3:
					rec.op = "SendMessage"
					a := peers[tr.Intn(len(peers))].addr
					if len(known) > 0 && tr.Bool() {
						a = known[tr.Intn(len(known))]
					}
					err = pool.SendMessage(a, &c32Msg{Payload: tr.Bytes(1 + tr.Intn(8))})
				case 4:
					rec.op = "BroadcastMessage"
					addrs := []string{}
					for _, p := range peers {
						if tr.Bool() {
							addrs = append(addrs, p.addr)
						}
					}
					addrs = append(addrs, known...)
				if len(addrs) == 0 {
					// with no address BroadcastMessage returns ErrNoAddresses before it reaches the strand
					addrs = append(addrs, peers[0].addr)
				}
					_, err = pool.BroadcastMessage(&c32Msg{Payload: tr.Bytes(2)}, addrs)
				case 5:
					rec.op = "Size"
					_, err = pool.Size()
				case 6:
					rec.op = "GetConnections"
					var cs []gnet.Connection
					cs, err = pool.GetConnections()
					known = known[:0]
					for _, c := range cs {
						known = append(known, c.Addr())
					}
				case 7:
					rec.op = "GetConnection"
					var c *gnet.Connection
					c, err = pool.GetConnection(peers[tr.Intn(len(peers))].addr)
					_ = c
				case 8:
					rec.op = "GetStaleConnections"
					_, err = pool.GetStaleConnections(time.Duration(tr.Intn(3)) * time.Millisecond)
				default:
					rec.op = "SendPings"
					err = pool.SendPings(time.Duration(tr.Intn(3))*time.Millisecond, &c32Msg{Payload: []byte{7}})
				}
				rec.ret = nextSeq()
				rec.ran, rec.class = classify(err)
				res.calls[t] = append(res.calls[t], rec)
			}
		}(t, NewRng(seeds[t]))
	}
	// if thread 0 never reaches its Shutdown point (shutAfter beyond its ops) it is called here
	allDone := make(chan struct{})
	go func() { wg.Wait(); close(allDone) }()
	if shutAfter > nops {
		// Shutdown is called by the main thread after the other threads' main phase
		time.Sleep(time.Duration(r.Intn(4)) * time.Millisecond)
		res.shutStart = nextSeq()
		close(shutCalled)
		sd := make(chan struct{})
		go func() { pool.Shutdown(); close(sd) }()
		select {
		case <-sd:
			res.shutReturn = nextSeq()
			atomic.StoreInt32(&shutReturned, 1)
		case <-time.After(15 * time.Second):
			res.hang = true
			res.stacks = dumpStacks()
			atomic.StoreInt32(&shutReturned, 1)
		}
	}
	select {
	case <-allDone:
	case <-time.After(20 * time.Second):
		res.hang = true
		res.stacks = dumpStacks()
	}
	close(clientQuit)
	cwg.Wait()
	select {
	case <-runDone:
		res.runReturned = true
	case <-time.After(5 * time.Second):
		res.hang = true
	}
	if !res.hang {
		res.sizes = pool.VerifPoolSizes()
	}
	res.fds = countFds()
	hist.Add(fmt.Sprintf("gomaxprocs=%d", procs))
	hist.Add(fmt.Sprintf("connect_callbacks=%s", bucket(int(atomic.LoadInt64(&connects)))))
	return res, nil
}

// ---- life-cycle variants: Run that fails to bind, Shutdown racing with / before
// Run, Shutdown twice, offline pool. Every call and every Shutdown must return
// within the watchdog.

var lifeVariants = []string{"run-fails-to-bind", "shutdown-then-run", "shutdown-twice", "shutdown-twice-concurrent", "offline"}

func lifecycle(r *Rng, variant string, hist Hist) (*scenarioResult, error) {
	res := &scenarioResult{variant: variant, maxprocs: runtime.GOMAXPROCS(0)}
	cfg := gnet.NewConfig()
	cfg.Address = "127.0.0.1"
	cfg.DialTimeout = time.Second
	var occupied net.Listener
	port, err := freePort()
	if err != nil {
		return nil, err
	}
	if variant == "run-fails-to-bind" {
		occupied, err = net.Listen("tcp", "127.0.0.1:0")
		if err != nil {
			return nil, err
		}
		defer occupied.Close()
		port = occupied.Addr().(*net.TCPAddr).Port
	}
	cfg.Port = uint16(port)
	ref := &poolRef{}
	pool, err := gnet.NewConnectionPool(cfg, ref)
	if err != nil {
		return nil, err
	}
	ref.pool = pool
	// a live local listener: outgoing connections to it succeed
	lp, err := newPeer()
	if err != nil {
		return nil, err
	}
	defer lp.close()
	target := lp.addr

	nthreads := 2 + r.Intn(2)
	res.threads = nthreads + 1 // the last "thread" is this function: it establishes a connection before Shutdown
	res.calls = make([][]callRec, nthreads+1)
	mainCall := func(op string, f func() error) error {
		rec := callRec{op: op, start: nextSeq()}
		err := f()
		rec.ret = nextSeq()
		rec.ran, rec.class = classify(err)
		res.calls[nthreads] = append(res.calls[nthreads], rec)
		return err
	}
	// at least one outgoing Connect must have SUCCEEDED (connection registered in the
	// pool) before Shutdown is called
	establish := func() {
		if err := mainCall("Connect", func() error { return pool.Connect(target) }); err != nil {
			return
		}
		for i := 0; i < 400 && !res.established; i++ {
			var n int
			if err := mainCall("Size", func() error { var e error; n, e = pool.Size(); return e }); err != nil {
				return
			}
			if n > 0 {
				res.established = true
			} else {
				time.Sleep(2 * time.Millisecond)
			}
		}
	}
	var wg sync.WaitGroup
	phase := make([]chan struct{}, 3) // calls before Shutdown | during | after Shutdown returned
	for i := range phase {
		phase[i] = make(chan struct{})
	}
	seeds := make([]uint64, nthreads)
	for i := range seeds {
		seeds[i] = r.U64()
	}
	for t := 0; t < nthreads; t++ {
		wg.Add(1)
		go func(t int, tr *Rng) {
			defer wg.Done()
			defer func() {
				if rec := recover(); rec != nil {
					atomic.AddInt64(&res.panics, 1)
				}
			}()
			for ph := 0; ph < 3; ph++ {
				<-phase[ph]
				for i, k := 0, 1+tr.Intn(3); i < k; i++ {
					rec := callRec{}
					var err error
					rec.start = nextSeq()
					switch tr.Intn(5) {
					case 0:
						rec.op = "Size"
						_, err = pool.Size()
					case 1:
						rec.op = "GetConnections"
						_, err = pool.GetConnections()
					case 2:
						rec.op = "BroadcastMessage"
						_, err = pool.BroadcastMessage(&c32Msg{Payload: []byte{3}}, []string{target})
					case 3:
						rec.op = "Connect"
						err = pool.Connect(target)
					default:
						rec.op = "SendMessage"
						err = pool.SendMessage(target, &c32Msg{Payload: []byte{4}})
					}
					rec.ret = nextSeq()
					rec.ran, rec.class = classify(err)
					res.calls[t] = append(res.calls[t], rec)
					if tr.Bool() {
						runtime.Gosched()
					}
				}
			}
		}(t, NewRng(seeds[t]))
	}

	runDone := make(chan struct{})
	startRun := func() {
		res.runStart = nextSeq()
		go func() {
			defer close(runDone)
			defer func() {
				if rec := recover(); rec != nil {
					atomic.AddInt64(&res.panics, 1)
					res.panicText = fmt.Sprint(rec)
				}
			}()
			var err error
			if variant == "offline" {
				err = pool.RunOffline()
			} else {
				err = pool.Run()
			}
			if err != nil {
				res.runFail = nextSeq()
			}
		}()
	}
	shutdown := func(first bool) chan string {
		c := make(chan string, 1)
		go func() {
			defer func() {
				if rec := recover(); rec != nil {
					atomic.AddInt64(&res.panics, 1)
					res.panicText = fmt.Sprint(rec)
					c <- "panic: " + fmt.Sprint(rec)
				}
			}()
			pool.Shutdown()
			if first {
				res.shutReturn = nextSeq()
			}
			c <- "returned"
		}()
		return c
	}
	wait := func(c chan string, d time.Duration) string {
		select {
		case x := <-c:
			return x
		case <-time.After(d):
			if !res.hang {
				res.hang = true
				res.stacks = dumpStacks()
			}
			return "HANG"
		}
	}
	const dog = 6 * time.Second

	switch variant {
	case "shutdown-then-run":
		// Shutdown is called first (e.g. a node stopped while it starts up), Run right after
		close(phase[0])
		res.shutStart = nextSeq()
		sc := shutdown(true)
		time.Sleep(time.Duration(r.Intn(2000)) * time.Microsecond)
		startRun()
		close(phase[1])
		wait(sc, dog)
	default:
		startRun()
		if variant == "run-fails-to-bind" {
			select { // Run must come back with the listen error
			case <-runDone:
			case <-time.After(dog):
				res.hang = true
				res.stacks = dumpStacks()
			}
		} else {
			time.Sleep(time.Duration(500+r.Intn(3000)) * time.Microsecond)
		}
		// under the watchdog: with a dead strand Connect / Size never return
		ec := make(chan string, 1)
		go func() { establish(); ec <- "done" }()
		wait(ec, dog)
		close(phase[0]) // calls between the (failed) Run and Shutdown
		time.Sleep(time.Duration(r.Intn(3000)) * time.Microsecond)
		res.shutStart = nextSeq()
		sc := shutdown(true)
		close(phase[1])
		switch variant {
		case "shutdown-twice-concurrent":
			res.secondShut = wait(shutdown(false), dog)
			wait(sc, dog)
		case "shutdown-twice":
			wait(sc, dog)
			res.secondShut = wait(shutdown(false), dog)
		default:
			wait(sc, dog)
		}
	}
	close(phase[2]) // calls after Shutdown returned (or hung)
	allDone := make(chan struct{})
	go func() { wg.Wait(); close(allDone) }()
	select {
	case <-allDone:
	case <-time.After(dog):
		if !res.hang {
			res.hang = true
			res.stacks = dumpStacks()
		}
	}
	select {
	case <-runDone:
		res.runReturned = true
	case <-time.After(dog):
		if !res.hang {
			res.hang = true
			res.stacks = dumpStacks()
		}
	}
	if !res.hang {
		res.sizes = pool.VerifPoolSizes()
	}
	res.fds = countFds()
	return res, nil
}

func dumpStacks() string {
	buf := make([]byte, 8<<20)
	n := runtime.Stack(buf, true)
	out := string(buf[:n])
	if len(out) > 3000000 {
		out = out[:3000000]
	}
	return out
}

func countFds() int {
	d, err := os.ReadDir("/proc/self/fd")
	if err != nil {
		return -1
	}
	return len(d)
}

func bucket(n int) string {
	switch {
	case n == 0:
		return "0"
	case n <= 3:
		return "1-3"
	case n <= 10:
		return "4-10"
	}
	return ">10"
}

func run(args []string) error {
	f := ParseFlags("c32", args)
	logging.Disable()
	if lvl, err := logging.LevelFromString("panic"); err == nil {
		logging.SetLevel(lvl) // no formatting work, no contention on the logger's mutex
	}
	r := NewRng(f.Seed)
	n := f.Budget(25, 300)
	o := NewOut()
	hist := Hist{}
	caseJSON := map[string][]map[string]interface{}{}
	var samples []map[string]interface{}

	gnet.RegisterMessage(gnet.MessagePrefixFromString("C32M"), c32Msg{})
	gnet.VerifyMessages()

	var cases []string
	for s := 0; s < n; s++ {
		var res *scenarioResult
		var err error
		if f.Extra != "" { // -extra <variant>: only this life-cycle variant (used when looking for a rare schedule)
			res, err = lifecycle(r, f.Extra, hist)
		} else if s%5 == 4 || s < len(lifeVariants) && f.Tier != "quick" {
			res, err = lifecycle(r, lifeVariants[(s/5+s)%len(lifeVariants)], hist)
		} else {
			res, err = scenario(r, hist)
		}
		if err != nil {
			return err
		}
		// merge the per-thread logs by sequence number
		var evs []event
		perThread := make([]string, res.threads)
		nran, nclosed, nafter := 0, 0, 0
		for t, cs := range res.calls {
			perThread[t] = fmt.Sprint(len(cs))
			for _, c := range cs {
				evs = append(evs, event{seq: c.start, kind: evStart, thread: t, ran: c.ran, op: c.op})
				evs = append(evs, event{seq: c.ret, kind: evReturn, thread: t, ran: c.ran, op: c.op})
				if c.ran {
					nran++
				} else {
					nclosed++
				}
				if res.shutReturn != 0 && c.start > res.shutReturn {
					nafter++
				}
				hist.Add("call:" + c.op + ":" + c.class)
			}
		}
		if res.runStart != 0 {
			evs = append(evs, event{seq: res.runStart, kind: evRunStart})
		}
		if res.runFail != 0 {
			evs = append(evs, event{seq: res.runFail, kind: evRunFail})
		}
		if res.shutStart != 0 {
			evs = append(evs, event{seq: res.shutStart, kind: evShutStart})
		}
		if res.shutReturn != 0 {
			evs = append(evs, event{seq: res.shutReturn, kind: evShutReturn})
		}
		sort.Slice(evs, func(i, j int) bool { return evs[i].seq < evs[j].seq })
		codes := make([]string, len(evs))
		var evJSON []string
		for i, e := range evs {
			ran := 0
			if e.ran {
				ran = 1
			}
			codes[i] = fmt.Sprint(e.thread*16 + e.kind*2 + ran)
			switch e.kind {
			case evStart:
				evJSON = append(evJSON, fmt.Sprintf("t%d:%s(", e.thread, e.op))
			case evReturn:
				cl := "closed"
				if e.ran {
					cl = "ran"
				}
				evJSON = append(evJSON, fmt.Sprintf("t%d:)%s", e.thread, cl))
			case evShutStart:
				evJSON = append(evJSON, "Shutdown(")
			case evRunStart:
				evJSON = append(evJSON, "Run(")
			case evRunFail:
				evJSON = append(evJSON, ")Run:listen-error")
			default:
				evJSON = append(evJSON, ")Shutdown")
			}
		}
		sz := res.sizes[0] + res.sizes[1] + res.sizes[2] + res.sizes[3] + res.sizes[4]
		cases = append(cases, Tuple(List(perThread), List(codes), B(res.hang || !res.runReturned), fmt.Sprint(sz), fmt.Sprint(res.panics)))
		cj := map[string]interface{}{"life_cycle_variant": res.variant, "second_shutdown": res.secondShut, "outgoing_connection_established_before_shutdown": res.established, "threads": res.threads, "gomaxprocs": res.maxprocs, "calls_per_thread": perThread, "events": evJSON,
			"hang": res.hang, "run_returned": res.runReturned, "pool_maps_total_size_after_shutdown": sz, "panics": res.panics, "panic_text": res.panicText, "goroutines_at_watchdog": res.stacks, "open_fds": res.fds,
			"calls_ran": nran, "calls_pool_closed": nclosed, "calls_started_after_shutdown_returned": nafter}
		caseJSON["trace"] = append(caseJSON["trace"], cj)
		o.Count(fmt.Sprint("trace", s, codes), nran > 0 && nclosed > 0)
		hist.Add(fmt.Sprintf("scenario:threads=%d", res.threads))
		if res.variant != "" {
			hist.Add(fmt.Sprintf("lifecycle:%s:established=%v", res.variant, res.established))
		}
		if res.hang {
			hist.Add("scenario:HANG")
		}
		if len(samples) < 3 {
			samples = append(samples, cj)
		}
		if res.hang {
			break // the leaked goroutines of a hung scenario would disturb the following ones
		}
	}
	o.Def("cases_trace", "list Z * list Z * bool * Z * Z", cases)
	o.Side["cases"] = caseJSON
	o.Side["samples"] = samples
	o.Side["distribution"] = hist.Sorted()
	o.Side["handled_messages"] = atomic.LoadInt64(&handledCount)
	o.Side["rule"] = "scenario = one real ConnectionPool on 127.0.0.1 with 3-7 caller threads issuing random Connect/Disconnect/SendMessage/BroadcastMessage/Size/GetConnections/GetConnection/GetStaleConnections/SendPings, 2 external clients dialling in and sending frames / garbage, remote peers answering, one Shutdown at a random point, 3 more calls per thread after Shutdown returned; GOMAXPROCS in {1,2,4,8,16}, Gosched / sleeps as scheduling noise; non-trivial = at least one call ran and at least one returned pool-closed"
	if err := o.Write(f.Out, f.JSON); err != nil {
		return err
	}
	os.Exit(0) // outputs are written: a goroutine stuck in a hung scenario must not keep the process alive
	return nil
}
