// Command c05: publisher block creation (property C05).
//
// A real publisher node (visor.Visor, arbitrating, on a bolt file) and an
// independent follower node holding the same chain. Pools are built by
// injecting generated transactions (independent, conflicting pairs / chains /
// stars, soft-invalid, oversize sets, entries that became hard-invalid because a
// block spent their inputs); the publisher's createBlock path is run at an
// explicit time; the observed block (ordered list of transaction hashes), the
// facts about every pooled transaction (computed independently with the
// transaction/fee packages) and the follower's verdict are written as Coq terms.
package main

import (
	"fmt"
	"sort"
	"strings"

	"github.com/skycoin/skycoin/src/cipher"
	"github.com/skycoin/skycoin/src/coin"
	"github.com/skycoin/skycoin/src/params"
	"github.com/skycoin/skycoin/src/util/fee"

	. "verif/harness/kit"
	nk "verif/harness/nodekit"
)

func main() { Main(run) }

type chain struct {
	w    *nk.World
	pub  *nk.Node
	fol  *nk.Node
	dead bool
}

func newChain(r *Rng, nOut int) (*chain, error) {
	w, err := nk.NewWorld(r, "c05")
	if err != nil {
		return nil, err
	}
	c := &chain{w: w}
	if c.pub, err = w.NewNode("pub", true, cipher.Sig{}); err != nil {
		return nil, err
	}
	gs, err := w.GenesisSig(c.pub)
	if err != nil {
		return nil, err
	}
	if c.fol, err = w.NewNode("fol", false, gs); err != nil {
		return nil, err
	}
	// split the genesis output
	t := splitTxn(w, nOut)
	if _, _, err := c.pub.V.InjectForeignTransaction(t); err != nil {
		return nil, fmt.Errorf("split inject: %v", err)
	}
	sb, err := c.pub.V.VerifCreateBlock(nk.GenesisTime + 10)
	if err != nil {
		return nil, fmt.Errorf("split block: %v", err)
	}
	if err := c.exec(sb); err != nil {
		return nil, fmt.Errorf("split exec: %v", err)
	}
	return c, nil
}

func (c *chain) exec(sb coin.SignedBlock) error {
	if err := c.pub.V.ExecuteSignedBlock(sb); err != nil {
		return fmt.Errorf("publisher: %v", err)
	}
	if err := c.fol.V.ExecuteSignedBlock(sb); err != nil {
		return fmt.Errorf("follower: %v", err)
	}
	c.w.RecordBlock(sb)
	return nil
}

func (c *chain) close() {
	c.pub.Close()
	c.fol.Close()
	c.w.Cleanup()
}

// splitTxn spends the genesis output into n outputs with varied coins / hours:
// a few with enormous hours (fees >= 2^54, the saturating fee*1024 branch),
// many with small hours (coarse fee/kB values => ties), some to the locked address.
func splitTxn(w *nk.World, n int) coin.Transaction {
	var gen coin.UxOut
	for _, ux := range w.Ux {
		gen = ux
	}
	coinsLeft := gen.Body.Coins
	var outs []coin.TransactionOutput
	for i := 0; i < n; i++ {
		var hours uint64
		switch {
		case i < 10:
			hours = 40000000000000000 + uint64(w.R.Intn(1000)) // 4e16 > 2^54*... fee up to ~3.6e16 >= 2^54 (1.8e16)
		case i%4 == 0:
			hours = uint64(w.R.Intn(30))
		case i%4 == 1:
			hours = 1000
		case i%4 == 2:
			hours = 100 + uint64(w.R.Intn(5))*100
		default:
			hours = uint64(1 + w.R.Intn(1000000))
		}
		coins := uint64(1+w.R.Intn(50)) * 1000000
		if i%7 == 3 {
			coins = uint64(1+w.R.Intn(5000)) * 1000 // 3 decimals
		}
		addr := w.Addrs[w.R.Intn(nk.NKeys-1)]
		if i%23 == 11 {
			addr = w.Addrs[nk.LockedKey]
		}
		outs = append(outs, coin.TransactionOutput{Address: addr, Coins: coins, Hours: hours})
		coinsLeft -= coins
	}
	outs = append(outs, coin.TransactionOutput{Address: w.Addrs[0], Coins: coinsLeft, Hours: 1000})
	return w.BuildTxn([]cipher.SHA256{gen.Hash()}, w.Uniq(outs), nk.TxOpts{})
}

// ---- transaction generator

type gen struct {
	c      *chain
	r      *Rng
	used   map[cipher.SHA256]int // inputs already used by a pooled txn in this chain (for conflict shapes)
	hist   Hist
	headT  uint64
	avail  coin.UxArray
	forceFee uint64
}

func (g *gen) refresh() error {
	uxs, err := g.c.pub.V.GetAllUnspentOutputs()
	if err != nil {
		return err
	}
	sort.Slice(uxs, func(i, j int) bool {
		a, b := uxs[i].Hash(), uxs[j].Hash()
		return strings.Compare(string(a[:]), string(b[:])) < 0
	})
	g.avail = uxs
	hb, err := g.c.pub.V.GetHeadBlock()
	if err != nil {
		return err
	}
	g.headT = hb.Time()
	return nil
}

// pickFresh returns an unspent output no pooled transaction uses yet.
func (g *gen) pickFresh(wantLocked bool) (coin.UxOut, bool) {
	for tries := 0; tries < 200; tries++ {
		if len(g.avail) == 0 {
			break
		}
		ux := g.avail[g.r.Intn(len(g.avail))]
		if g.used[ux.Hash()] > 0 {
			continue
		}
		locked := ux.Body.Address == g.c.w.Addrs[nk.LockedKey]
		if locked != wantLocked {
			continue
		}
		if ux.Body.Coins > 1000000000000 { // keep the big change output out of ordinary spends
			continue
		}
		return ux, true
	}
	return coin.UxOut{}, false
}

// spend builds a transaction over the given inputs. kind selects the fee /
// validity class.
func (g *gen) spend(ins coin.UxArray, kind string, nOut int) coin.Transaction {
	w := g.c.w
	var coinsIn, hoursIn uint64
	var hs []cipher.SHA256
	for _, ux := range ins {
		coinsIn += ux.Body.Coins
		hoursIn += nk.HoursAt(ux, g.headT)
		hs = append(hs, ux.Hash())
		g.used[ux.Hash()]++
	}
	minFee := (hoursIn + 9) / 10
	var feeH uint64
	switch kind {
	case "force":
		feeH = g.forceFee
	case "minfee":
		feeH = minFee
	case "lowfee": // soft: fee below the burn minimum
		if minFee > 1 {
			feeH = minFee - 1 - uint64(g.r.Intn(int(min64(minFee-1, 3))))
		}
	case "nofee":
		feeH = 0
	case "allfee":
		feeH = hoursIn
	case "tiefee": // coarse fee values so that several txns share fee/kB
		feeH = minFee + uint64(g.r.Intn(3))*(hoursIn/8+1)
	default:
		span := hoursIn - minFee
		if span > 0 {
			feeH = minFee + g.r.U64()%(span+1)
		} else {
			feeH = minFee
		}
	}
	if feeH > hoursIn {
		feeH = hoursIn
	}
	hoursOut := hoursIn - feeH
	if kind == "hourscreated" { // hard: more output hours than input hours
		hoursOut = hoursIn + 1 + uint64(g.r.Intn(5))
	}
	if nOut < 1 {
		nOut = 1
	}
	unit := uint64(1000)
	if kind == "precision" { // soft: more decimals than allowed
		unit = 1
	}
	for uint64(nOut) > coinsIn/unit && nOut > 1 {
		nOut--
	}
	var outs []coin.TransactionOutput
	cl, hl := coinsIn, hoursOut
	for i := 0; i < nOut; i++ {
		c, h := cl, hl
		if i < nOut-1 {
			c = (cl / uint64(nOut-i) / unit) * unit
			if c == 0 {
				c = unit
			}
			h = hl / uint64(nOut-i)
		}
		if kind == "precision" && i == 0 && c > 1 && nOut > 1 {
			c = c - 1 - uint64(g.r.Intn(99))%c
			if c == 0 {
				c = 1
			}
		}
		outs = append(outs, coin.TransactionOutput{Address: w.Addrs[g.r.Intn(nk.NKeys-1)], Coins: c, Hours: h})
		cl -= c
		hl -= h
	}
	if kind == "precision" && nOut == 1 {
		// single output: split off one droplet so that both outputs are non-round
		if outs[0].Coins > 1 {
			outs[0].Coins--
			outs = append(outs, coin.TransactionOutput{Address: w.Addrs[1], Coins: 1, Hours: 0})
		}
	}
	return w.BuildTxn(hs, w.Uniq(outs), nk.TxOpts{})
}

func min64(a, b uint64) uint64 {
	if a < b {
		return a
	}
	return b
}

var feeKinds = []string{"rand", "rand", "minfee", "tiefee", "tiefee", "allfee"}

// batch returns a group of transactions of one shape.
func (g *gen) batch() (string, []coin.Transaction) {
	r := g.r
	fk := func() string { return feeKinds[r.Intn(len(feeKinds))] }
	one := func(kind string, locked bool) []coin.Transaction {
		ux, ok := g.pickFresh(locked)
		if !ok {
			return nil
		}
		ins := coin.UxArray{ux}
		for k := r.Intn(3); k > 0; k-- { // up to 3 inputs
			if u2, ok := g.pickFresh(false); ok && u2.Hash() != ux.Hash() {
				dup := false
				for _, x := range ins {
					if x.Hash() == u2.Hash() {
						dup = true
					}
				}
				if !dup {
					ins = append(ins, u2)
				}
			}
		}
		return []coin.Transaction{g.spend(ins, kind, 1+r.Intn(4))}
	}
	switch p := r.Intn(100); {
	case p < 30:
		return "independent", one(fk(), false)
	case p < 45: // conflicting pair: two transactions spending the same output
		ux, ok := g.pickFresh(false)
		if !ok {
			return "none", nil
		}
		return "pair", []coin.Transaction{g.spend(coin.UxArray{ux}, fk(), 1+r.Intn(2)), g.spend(coin.UxArray{ux}, fk(), 2+r.Intn(2))}
	case p < 62: // chain: t0 spends {x0,x1}, t1 spends {x1,x2}, t2 spends {x2,x3} ...
		n := 3 + r.Intn(3)
		var xs coin.UxArray
		for i := 0; i <= n; i++ {
			ux, ok := g.pickFresh(false)
			if !ok {
				return "none", nil
			}
			g.used[ux.Hash()]++ // reserve
			xs = append(xs, ux)
		}
		var ts []coin.Transaction
		for i := 0; i < n; i++ {
			ts = append(ts, g.spend(coin.UxArray{xs[i], xs[i+1]}, fk(), 1+r.Intn(2)))
		}
		return "chain", ts
	case p < 72: // star: one hub output spent by k transactions that also have a private input
		k := 3 + r.Intn(3)
		hub, ok := g.pickFresh(false)
		if !ok {
			return "none", nil
		}
		g.used[hub.Hash()]++
		var ts []coin.Transaction
		for i := 0; i < k; i++ {
			ins := coin.UxArray{hub}
			if r.Bool() {
				if u, ok := g.pickFresh(false); ok {
					ins = append(ins, u)
				}
			}
			ts = append(ts, g.spend(ins, fk(), 1+r.Intn(2)))
		}
		return "star", ts
	case p < 78:
		return "soft-lowfee", one("lowfee", false)
	case p < 82:
		return "soft-nofee", one("nofee", false)
	case p < 89:
		return "soft-precision", one("precision", false)
	case p < 93:
		return "soft-locked", one(fk(), true)
	case p < 96:
		return "hard-hours", one("hourscreated", false)
	default: // conflict with a transaction already in the pool
		var cands []cipher.SHA256
		for h, n := range g.used {
			if n > 0 {
				if _, err := g.c.pub.V.GetUnspentOutputs([]cipher.SHA256{h}); err == nil {
					cands = append(cands, h)
				}
			}
		}
		if len(cands) == 0 {
			return "none", nil
		}
		sort.Slice(cands, func(i, j int) bool { return strings.Compare(string(cands[i][:]), string(cands[j][:])) < 0 })
		h := cands[r.Intn(len(cands))]
		return "conflict-old", []coin.Transaction{g.spend(coin.UxArray{g.c.w.Ux[h]}, fk(), 1+r.Intn(3))}
	}
}

// ---- one observed pool -> block case

type obs struct {
	coq   string
	js    map[string]interface{}
	key   string
	block bool
}

func errShort(err error) string {
	s := err.Error()
	switch {
	case s == "No transactions":
		return "NoTxns"
	case strings.HasPrefix(s, "No transactions after filtering"):
		return "NoTxnsAfterFilter"
	case strings.HasPrefix(s, "Refusing to create block with no transactions"):
		return "EmptyBlock"
	case strings.HasPrefix(s, "Invalid transaction fees"):
		return "FeesOverflow"
	case strings.HasPrefix(s, "Time can only move forward"):
		return "Time"
	}
	return "other:" + s
}

// observe computes the facts of every pooled txn, runs createBlock, and has
// both nodes execute the result.
func observe(c *chain, g *gen, maxBlock, maxTxn uint32, when uint64, shape string) (*obs, error) {
	w := c.w
	c.pub.V.Config.MaxBlockTransactionsSize = maxBlock
	c.pub.V.Config.CreateBlockVerifyTxn.MaxTransactionSize = maxTxn
	pool, err := c.pub.V.GetAllUnconfirmedTransactions()
	if err != nil {
		return nil, err
	}
	hb, err := c.pub.V.GetHeadBlock()
	if err != nil {
		return nil, err
	}
	var items []string
	var jpool []map[string]interface{}
	nCreateOK, nConf := 0, 0
	var poolHashes []cipher.SHA256
	for _, ut := range pool {
		poolHashes = append(poolHashes, ut.Transaction.Hash())
	}
	if !nk.DistinctPrefixes(poolHashes) {
		return nil, fmt.Errorf("two pool transaction hashes share their first 8 bytes")
	}
	seenIn := map[cipher.SHA256]int{}
	for _, ut := range pool {
		t := ut.Transaction
		v, err := w.Verify(c.pub, t, c.pub.V.Config.CreateBlockVerifyTxn, false)
		if err != nil {
			return nil, err
		}
		var ins []string
		var jins []int
		for _, h := range t.In {
			ins = append(ins, fmt.Sprint(w.ID(h)))
			jins = append(jins, w.ID(h))
			seenIn[h]++
		}
		feeS := "None"
		if v.FeeOK {
			feeS = Some(Z(v.Fee))
		}
		okc := v.Hard && v.Soft
		if okc {
			nCreateOK++
		}
		items = append(items, fmt.Sprintf("mkP %s %s %d %s %s %s", nk.HashZ(t.Hash()), feeS, v.Size, List(ins), B(okc), B(v.Block)))
		jpool = append(jpool, map[string]interface{}{"hash": t.Hash().Hex(), "fee": fmt.Sprint(v.Fee), "fee_ok": v.FeeOK, "size": v.Size,
			"ins": jins, "ok_create": okc, "ok_block": v.Block, "hard_err": v.HardErr, "soft_err": v.SoftErr, "raw": t.MustSerializeHex()})
	}
	for _, n := range seenIn {
		if n > 1 {
			nConf++
		}
	}
	var sb coin.SignedBlock
	var cerr error
	panicked := Guard(func() { sb, cerr = c.pub.V.VerifCreateBlock(when) })
	res := ""
	var jblock []string
	folOK, pubOK := false, false
	switch {
	case panicked:
		res = "Panic"
	case cerr != nil:
		res = "(Val (inr " + Str(errShort(cerr)) + "))"
	default:
		var hs []string
		for _, t := range sb.Body.Transactions {
			hs = append(hs, nk.HashZ(t.Hash()))
			jblock = append(jblock, t.Hash().Hex())
		}
		res = "(Val (inl " + List(hs) + "))"
		// the publisher executes its own block, the follower verifies it independently
		pubOK = c.pub.V.ExecuteSignedBlock(sb) == nil
		folOK = c.fol.V.ExecuteSignedBlock(sb) == nil
		if pubOK && folOK {
			w.RecordBlock(sb)
		} else {
			c.dead = true // nodes diverged: this chain is not continued
		}
	}
	o := &obs{block: cerr == nil && !panicked}
	o.coq = fmt.Sprintf("mkCase %d %d\n    %s\n    %s %s %s", maxBlock, maxTxn, List(items), res, B(folOK), B(pubOK))
	o.js = map[string]interface{}{"shape": shape, "max_block": maxBlock, "max_txn": maxTxn, "head_time": hb.Time(), "when": when,
		"pool": jpool, "block": jblock, "result": res2json(panicked, cerr), "follower_accepted": folOK, "publisher_accepted": pubOK,
		"pool_size": len(pool), "n_ok_create": nCreateOK, "n_contested_inputs": nConf}
	o.key = fmt.Sprint(items, maxBlock, maxTxn)
	return o, nil
}

// boundaryLimit picks a block size limit equal to (or one byte off) the total
// size of the first k creation-valid pool transactions in fee order. The order
// computed here only steers generation; it is not part of the oracle.
func boundaryLimit(c *chain, r *Rng, when uint64) (uint32, bool) {
	c.pub.V.Config.CreateBlockVerifyTxn.MaxTransactionSize = params.UserVerifyTxn.MaxTransactionSize
	pool, err := c.pub.V.GetAllUnconfirmedTransactions()
	if err != nil {
		return 0, false
	}
	type ent struct {
		fpk  uint64
		h    cipher.SHA256
		size uint32
		late uint64 // fee per kB if the fee were computed at the block time instead of the head time
	}
	fpkOf := func(f uint64, size uint32) uint64 {
		k := f * 1024
		if f != 0 && k/f != 1024 {
			k = ^uint64(0)
		}
		return k / uint64(size)
	}
	var es []ent
	for _, ut := range pool {
		v, err := c.w.Verify(c.pub, ut.Transaction, c.pub.V.Config.CreateBlockVerifyTxn, false)
		if err != nil || !(v.Hard && v.Soft && v.FeeOK) || v.Size == 0 {
			continue
		}
		k := v.Fee * 1024
		if v.Fee != 0 && k/v.Fee != 1024 {
			k = ^uint64(0)
		}
		late := k / uint64(v.Size)
		if uxIn, err := c.pub.V.GetUnspentOutputs(ut.Transaction.In); err == nil {
			t := ut.Transaction
			if f, err := fee.TransactionFee(&t, when, uxIn); err == nil {
				late = fpkOf(f, v.Size)
			}
		}
		es = append(es, ent{k / uint64(v.Size), ut.Transaction.Hash(), v.Size, late})
	}
	if len(es) == 0 {
		return 0, false
	}
	sort.Slice(es, func(i, j int) bool {
		if es[i].fpk != es[j].fpk {
			return es[i].fpk > es[j].fpk
		}
		return strings.Compare(string(es[i].h[:]), string(es[j].h[:])) < 0
	})
	k := 1 + r.Intn(len(es))
	// prefer a cut that separates two transactions whose ranks would swap at block time
	if r.Chance(70) {
		var ks []int
		for i := 0; i+1 < len(es); i++ {
			maxLateRest := uint64(0)
			for j := i + 1; j < len(es); j++ {
				if es[j].late > maxLateRest {
					maxLateRest = es[j].late
				}
			}
			minLateTop := ^uint64(0)
			for j := 0; j <= i; j++ {
				if es[j].late < minLateTop {
					minLateTop = es[j].late
				}
			}
			if maxLateRest > minLateTop {
				ks = append(ks, i+1)
			}
		}
		if len(ks) > 0 {
			k = ks[r.Intn(len(ks))]
		}
	}
	var sum uint32
	for i := 0; i < k; i++ {
		sum += es[i].size
	}
	switch r.Intn(4) {
	case 0:
		sum++
	case 1:
		sum--
	}
	return sum, true
}

func res2json(p bool, err error) string {
	if p {
		return "panic"
	}
	if err != nil {
		return errShort(err)
	}
	return "block"
}

func run(args []string) error {
	f := ParseFlags("c05", args)
	r := NewRng(f.Seed)
	n := f.Budget(100, 2000)
	if f.Tier == "search" && n > 400 {
		n = 400 // failing-input search after a broken proof / correspondence: 4x the quick budget, other seeds
	}
	o := NewOut()
	hist := Hist{}
	var cases []string
	var jcases []map[string]interface{}
	var samples []map[string]interface{}
	add := func(ob *obs) {
		cases = append(cases, ob.coq)
		jcases = append(jcases, ob.js)
		o.Count(ob.key, ob.block)
		hist.Add("result:" + ob.js["result"].(string))
		hist.Add(fmt.Sprintf("poolsize:%02d-%02d", ob.js["pool_size"].(int)/10*10, ob.js["pool_size"].(int)/10*10+9))
		if ob.js["n_contested_inputs"].(int) > 0 {
			hist.Add("pools-with-conflicts")
		}
		if len(samples) < 6 && (len(cases)%17 == 3) {
			s := map[string]interface{}{}
			for k, v := range ob.js {
				if k != "pool" {
					s[k] = v
				}
			}
			samples = append(samples, s)
		}
	}

	nOut := 150
	if f.Tier != "quick" {
		nOut = 260
	}
	for len(cases) < n {
		c, err := newChain(r, nOut)
		if err != nil {
			return err
		}
		g := &gen{c: c, r: r, used: map[cipher.SHA256]int{}, hist: hist}
		first := len(cases) == 0
		for round := 0; round < 14 && len(cases) < n && !c.dead; round++ {
			if err := g.refresh(); err != nil {
				c.close()
				return err
			}
			shapeLog := []string{}
			forceDefault := false
			inject := func(ts []coin.Transaction, shape string) {
				// pool insertion order is irrelevant (bolt orders by key) but shuffle anyway
				for i := len(ts) - 1; i > 0; i-- {
					j := r.Intn(i + 1)
					ts[i], ts[j] = ts[j], ts[i]
				}
				for _, t := range ts {
					_, softErr, err := c.pub.V.InjectForeignTransaction(t)
					switch {
					case err != nil:
						hist.Add("inject:" + shape + ":rejected-" + nk.ErrKind(err)[:4])
					case softErr != nil:
						hist.Add("inject:" + shape + ":soft")
					default:
						hist.Add("inject:" + shape + ":ok")
					}
				}
				shapeLog = append(shapeLog, shape)
			}
			if first && round == 0 {
				// the F19 shape, deterministic: A-B share x, B-C share y, fee(A) > fee(B) > fee(C)
				var xs coin.UxArray
				for i := 0; i < 40 && len(xs) < 4; i++ {
					ux, ok := g.pickFresh(false)
					if !ok {
						break
					}
					h := nk.HoursAt(ux, g.headT)
					if h < 100 || h > 1000000 {
						continue
					}
					g.used[ux.Hash()]++
					xs = append(xs, ux)
				}
				if len(xs) == 4 {
					hrs := func(i int) uint64 { return nk.HoursAt(xs[i], g.headT) }
					mk := func(i int, fee uint64) coin.Transaction {
						g.forceFee = fee
						return g.spend(coin.UxArray{xs[i], xs[i+1]}, "force", 1)
					}
					// all three have 2 inputs / 1 output (same size): order = fee order
					fc := (hrs(2) + hrs(3) + 9) / 10
					fb := fc + 1
					if m := (hrs(1) + hrs(2) + 9) / 10; fb < m {
						fb = m
					}
					fa := hrs(0) + hrs(1)
					inject([]coin.Transaction{mk(0, fa), mk(1, fb), mk(2, fc)}, "chain3")
					forceDefault = true
				}
			} else if (first && round == 1) || (!first && round == 0) || (round > 1 && r.Chance(6)) {
				// scripted family: 16-40 transactions of identical shape (1 input, 1 output: same
				// size) in 3 fee tiers => many exact fee-per-kB ties, incl. equal-fee conflicting
				// pairs. More than 12 elements: sort.Sort leaves insertion sort for quick/heap sort.
				tiers := []uint64{100, 70, 50}
				n := 16 + r.Intn(25)
				var ts []coin.Transaction
				for tries := 0; len(ts) < n && tries < 600; tries++ {
					ux, ok := g.pickFresh(false)
					if !ok {
						break
					}
					hh := nk.HoursAt(ux, g.headT)
					if hh < 100 || hh > 1000 {
						continue
					}
					g.forceFee = 100
					if hh <= 500 {
						g.forceFee = tiers[r.Intn(len(tiers))]
					}
					ts = append(ts, g.spend(coin.UxArray{ux}, "force", 1))
					if r.Chance(25) { // same input, same fee, same size: only the hash decides
						ts = append(ts, g.spend(coin.UxArray{ux}, "force", 1))
					}
				}
				if len(ts) > 0 {
					inject(ts, "fee-tiers")
					hist.Add(fmt.Sprintf("fee-tier-pool:%02d+", len(ts)/8*8))
					forceDefault = r.Chance(60)
				}
			} else {
				k := 1 + r.Intn(5)
				if r.Chance(15) {
					k = 8 + r.Intn(10)
				}
				if round == 0 && r.Chance(8) {
					k = 0 // empty pool
				}
				for i := 0; i < k; i++ {
					shape, ts := g.batch()
					if len(ts) > 0 {
						inject(ts, shape)
					}
				}
			}
			// block size limits: the default (32768), a few transactions, about one transaction
			maxTxn := params.UserVerifyTxn.MaxTransactionSize
			maxBlock := maxTxn
			p := r.Intn(100)
			if forceDefault {
				p = 0
			}
			switch {
			case p < 35:
			case p < 60:
				maxBlock = uint32(300 + r.Intn(2500))
				maxTxn = uint32(250 + r.Intn(int(maxBlock)-250+1))
			case p < 80:
				maxBlock = uint32(180 + r.Intn(500))
				maxTxn = maxBlock
			case p < 90: // max txn size filters some transactions as soft-invalid
				maxBlock = uint32(1000 + r.Intn(3000))
				maxTxn = uint32(190 + r.Intn(250))
			default: // outside Config.Verify's invariant: a txn may be larger than the block
				maxBlock = uint32(100 + r.Intn(300))
				maxTxn = params.UserVerifyTxn.MaxTransactionSize
			}
			// block time: right after the head, or hours / weeks later. Coin hours accrue in
			// proportion to an input's coins, so fee ranks at block time differ from the ranks at
			// head time; the documented order (and every fee rule of the chain) uses the HEAD time.
			when := g.headT + 1 + uint64(r.Intn(20))
			if r.Chance(55) {
				when = g.headT + 3600*uint64(1+r.Intn(400))
			}
			if !forceDefault && r.Chance(40) {
				// block limit exactly at (or one byte around) a prefix sum of the valid
				// transactions in fee order: the boundary of TruncateBytesTo
				if mb, ok := boundaryLimit(c, r, when); ok {
					maxBlock, maxTxn = mb, params.UserVerifyTxn.MaxTransactionSize
					hist.Add("limit:at-prefix-sum")
				}
			}
			ob, err := observe(c, g, maxBlock, maxTxn, when, strings.Join(shapeLog, ","))
			if err != nil {
				c.close()
				return err
			}
			add(ob)
			if c.dead {
				hist.Add("chain-abandoned-after-rejected-block")
			}
			// keep the pool bounded: mostly leave leftovers (they become the next pool's
			// hard-invalid / soft-invalid entries), sometimes purge
			pool, _ := c.pub.V.GetAllUnconfirmedTransactions()
			if len(pool) > 30 || r.Chance(20) {
				if _, err := c.pub.V.RemoveInvalidUnconfirmed(); err != nil {
					c.close()
					return err
				}
				hist.Add("purge:RemoveInvalid")
			}
			pool, _ = c.pub.V.GetAllUnconfirmedTransactions()
			if len(pool) > 38 {
				break
			}
		}
		c.close()
	}
	o.Def("cases_c05", "ccase", cases)
	o.Side["rule"] = "one case = one unconfirmed pool of a real publisher node + block size limits; pools are built from independent / conflicting (pair, chain, star, conflict with an older pooled txn) / soft-invalid (low fee, no fee, precision, locked address, over max txn size) / hard-invalid (hours created at injection; inputs spent by an earlier block) transactions with fees from coarse, minimal, random and >= 2^54 (saturating) ranges; non-trivial = a block was created; distinct by (pool facts, limits)"
	o.Side["distribution"] = hist.Sorted()
	o.Side["samples"] = samples
	o.Side["cases"] = map[string]interface{}{"c05": jcases}
	return o.Write(f.Out, f.JSON)
}
